(* C19/ProofsGCRange.v — 0 <= great-circle distance <= pi * R for in-range coordinates, for the
   formula of great_circle_distance over the reals with sin / cos / asin as Section variables
   constrained by explicit premises (Pythagoras, the addition formulas for cos, cos >= 0 on
   [-pi/2, pi/2], asin [0,1] within [0, pi/2]); then discharged for Coq's real functions. *)
Require Import Base.Prelude C19.GeneratedFacts C19.Model.
From Coq Require Import Reals Lra.
Open Scope R_scope.

Definition r_ltb (a b : R) : bool := if Rlt_dec a b then true else false.
Lemma r_ltb_false a b : r_ltb a b = false <-> b <= a.
Proof. unfold r_ltb. destruct (Rlt_dec a b); split; intros; try discriminate; try lra; reflexivity. Qed.

Lemma sqr_nonneg (a : R) : 0 <= a * a.
Proof. pose proof (Rle_0_sqr a) as H. unfold Rsqr in H. exact H. Qed.

Section GCRange.
  Variables sin cos asin : R -> R.
  Variable pi : R.
  Definition radians (x : R) : R := x * (pi / 180).
  Definition r_great_circle :=
    great_circle Rplus Rminus Rmult Rdiv sqrt sin cos asin radians r_ltb IZR.
  Definition r_gc_a := gc_a Rplus Rminus Rmult Rdiv sin cos radians IZR.

  (* the premises about the (libm) functions *)
  Hypothesis pi_pos : 0 <= pi.
  Hypothesis pythagoras : forall x, sin x * sin x + cos x * cos x = 1.
  Hypothesis cos_add : forall x y, cos (x + y) = cos x * cos y - sin x * sin y.
  Hypothesis cos_sub : forall x y, cos (x - y) = cos x * cos y + sin x * sin y.
  Hypothesis cos_quadrant : forall x, - (pi / 2) <= x <= pi / 2 -> 0 <= cos x.
  Hypothesis asin_unit : forall x, 0 <= x <= 1 -> 0 <= asin x <= pi / 2.

  Lemma sin_sq_le1 x : sin x * sin x <= 1.
  Proof. pose proof (pythagoras x). pose proof (sqr_nonneg (cos x)). lra. Qed.
  Lemma cos_sq_le1 x : cos x * cos x <= 1.
  Proof. pose proof (pythagoras x). pose proof (sqr_nonneg (sin x)). lra. Qed.

  (* cos u cos v <= cos^2((v-u)/2) = 1 - sin^2((v-u)/2) *)
  Lemma cos_product_bound u v :
    cos u * cos v <= 1 - sin ((v - u) / 2) * sin ((v - u) / 2).
  Proof.
    set (d := (v - u) / 2). set (m := (u + v) / 2).
    replace u with (m - d) by (unfold m, d; field).
    replace v with (m + d) at 1 by (unfold m, d; field).
    rewrite cos_sub, cos_add.
    set (A := cos m * cos d). set (B := sin m * sin d).
    replace ((A + B) * (A - B)) with (A * A - B * B) by ring.
    pose proof (sqr_nonneg B). 
    assert (HA : A * A <= cos d * cos d).
    { unfold A. replace (cos m * cos d * (cos m * cos d)) with ((cos m * cos m) * (cos d * cos d)) by ring.
      pose proof (cos_sq_le1 m). pose proof (sqr_nonneg (cos d)). pose proof (sqr_nonneg (cos m)).
      replace (cos d * cos d) with (1 * (cos d * cos d)) at 2 by ring.
      apply Rmult_le_compat_r; assumption. }
    pose proof (pythagoras d). lra.
  Qed.

  Lemma gc_a_range x1 x2 y1 y2 : -90 <= y1 <= 90 -> -90 <= y2 <= 90 ->
    0 <= r_gc_a x1 x2 y1 y2 <= 1.
  Proof.
    intros Hy1 Hy2. unfold r_gc_a, gc_a. cbv zeta.
    set (s1 := sin ((radians y2 - radians y1) / 2)).
    set (s2 := sin ((radians x2 - radians x1) / 2)).
    assert (Hc1 : 0 <= cos (radians y1)) by (apply cos_quadrant; unfold radians; split; nra).
    assert (Hc2 : 0 <= cos (radians y2)) by (apply cos_quadrant; unfold radians; split; nra).
    pose proof (sqr_nonneg s1) as Hs1. pose proof (sqr_nonneg s2) as Hs2.
    assert (Hs2' : s2 * s2 <= 1) by apply sin_sq_le1.
    assert (Hs1' : s1 * s1 <= 1) by apply sin_sq_le1.
    pose proof (cos_product_bound (radians y1) (radians y2)) as Hcp. fold s1 in Hcp.
    assert (Hcc : 0 <= cos (radians y1) * cos (radians y2)) by (apply Rmult_le_pos; assumption).
    split.
    - assert (0 <= cos (radians y1) * cos (radians y2) * (s2 * s2)) by (apply Rmult_le_pos; assumption). lra.
    - assert (cos (radians y1) * cos (radians y2) * (s2 * s2) <= (1 - s1 * s1) * 1).
      { apply Rmult_le_compat; lra. }
      lra.
  Qed.

  Theorem great_circle_range x1 x2 y1 y2 radius :
    -180 <= x1 <= 180 -> -180 <= x2 <= 180 -> -90 <= y1 <= 90 -> -90 <= y2 <= 90 -> 0 <= radius ->
    exists d, r_great_circle x1 x2 y1 y2 radius = inr d /\ 0 <= d <= pi * radius.
  Proof.
    intros Hx1 Hx2 Hy1 Hy2 Hr. unfold r_great_circle, great_circle.
    assert (Hv : gc_validate r_ltb IZR x1 x2 y1 y2 = None).
    { unfold gc_validate, out_of.
      change gc_x1_hi with 180%Z; change gc_x1_lo with (-180)%Z; change gc_x2_hi with 180%Z;
        change gc_x2_lo with (-180)%Z; change gc_y1_hi with 90%Z; change gc_y1_lo with (-90)%Z;
        change gc_y2_hi with 90%Z; change gc_y2_lo with (-90)%Z.
      rewrite (proj2 (r_ltb_false (IZR 180) x1)) by lra. rewrite (proj2 (r_ltb_false x1 (IZR (-180)))) by lra.
      rewrite (proj2 (r_ltb_false (IZR 180) x2)) by lra. rewrite (proj2 (r_ltb_false x2 (IZR (-180)))) by lra.
      rewrite (proj2 (r_ltb_false (IZR 90) y1)) by lra. rewrite (proj2 (r_ltb_false y1 (IZR (-90)))) by lra.
      rewrite (proj2 (r_ltb_false (IZR 90) y2)) by lra. rewrite (proj2 (r_ltb_false y2 (IZR (-90)))) by lra.
      reflexivity. }
    rewrite Hv. eexists. split; [reflexivity|].
    pose proof (gc_a_range x1 x2 y1 y2 Hy1 Hy2) as [Ha0 Ha1]. fold r_gc_a.
    set (a := r_gc_a x1 x2 y1 y2) in *.
    assert (Hs : 0 <= sqrt a <= 1).
    { split; [apply sqrt_pos|]. rewrite <- sqrt_1. now apply sqrt_le_1_alt. }
    destruct (asin_unit (sqrt a) Hs) as [Has0 Has1].
    split.
    - apply Rmult_le_pos; [|exact Has0]. apply Rmult_le_pos; lra.
    - replace (pi * radius) with (radius * 2 * (pi / 2)) by field.
      apply Rmult_le_compat_l; [|exact Has1]. lra.
  Qed.
End GCRange.

(* ---- the premises hold for the real functions of the Coq standard library ---- *)
Lemma asin_unit_real x : 0 <= x <= 1 -> 0 <= asin x <= PI / 2.
Proof.
  intros Hx. pose proof (asin_bound x) as [Hlo Hhi]. split; [|exact Hhi].
  destruct (Rle_or_lt 0 (asin x)) as [H|H]; [exact H|]. exfalso.
  assert (Hsin : sin (asin x) < 0).
  { apply sin_lt_0_var; [|exact H]. pose proof PI_RGT_0. lra. }
  rewrite sin_asin in Hsin by lra. lra.
Qed.

Theorem great_circle_range_real x1 x2 y1 y2 radius :
  -180 <= x1 <= 180 -> -180 <= x2 <= 180 -> -90 <= y1 <= 90 -> -90 <= y2 <= 90 -> 0 <= radius ->
  exists d, r_great_circle sin cos asin PI x1 x2 y1 y2 radius = inr d /\ 0 <= d <= PI * radius.
Proof.
  apply great_circle_range.
  - pose proof PI_RGT_0. lra.
  - intros x. pose proof (sin2_cos2 x) as H. unfold Rsqr in H. exact H.
  - apply cos_plus.
  - apply cos_minus.
  - intros x [H1 H2]. now apply cos_ge_0.
  - apply asin_unit_real.
Qed.
