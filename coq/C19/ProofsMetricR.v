(* C19/ProofsMetricR.v — the Euclidean formula over the reals is a metric (uses the classical
   real-number axioms of the Coq standard library; see Print Assumptions). *)
Require Import Base.Prelude C19.GeneratedFacts C19.Model.
From Coq Require Import Reals Lra.
Open Scope R_scope.

Definition r_euclid := euclid Rplus Rminus Rmult sqrt.
Definition r_euclid_sq := euclid_sq Rplus Rminus Rmult.

Lemma r_euclid_sq_nonneg x1 x2 y1 y2 : 0 <= r_euclid_sq x1 x2 y1 y2.
Proof. unfold r_euclid_sq, euclid_sq. cbv zeta. nra. Qed.

Lemma r_euclid_sym x1 x2 y1 y2 : r_euclid x1 x2 y1 y2 = r_euclid x2 x1 y2 y1.
Proof. unfold r_euclid, euclid, euclid_sq. cbv zeta. f_equal. ring. Qed.

Lemma r_euclid_zero x1 x2 y1 y2 : r_euclid x1 x2 y1 y2 = 0 <-> (x1 = x2 /\ y1 = y2).
Proof.
  unfold r_euclid, euclid. split.
  - intros H. apply sqrt_eq_0 in H; [|apply r_euclid_sq_nonneg].
    unfold euclid_sq in H. cbv zeta in H. split; nra.
  - intros [-> ->]. unfold euclid_sq. cbv zeta.
    replace ((x2 - x2) * (x2 - x2) + (y2 - y2) * (y2 - y2)) with 0 by ring. apply sqrt_0.
Qed.

Lemma r_cauchy_schwarz a b c d p q :
  0 <= p -> 0 <= q -> a * a + b * b <= p * p -> c * c + d * d <= q * q -> a * c + b * d <= p * q.
Proof.
  intros Hp Hq Hu Hv.
  assert (Hid : (a * c + b * d) * (a * c + b * d) + (a * d - b * c) * (a * d - b * c)
                = (a * a + b * b) * (c * c + d * d)) by ring.
  assert (Hprod : (a * a + b * b) * (c * c + d * d) <= (p * p) * (q * q)).
  { apply Rmult_le_compat; nra. }
  destruct (Rle_or_lt (a * c + b * d) (p * q)) as [H|H]; [exact H|].
  assert (0 <= p * q) by nra. nra.
Qed.

Lemma r_euclid_triangle ax ay bx by_ cx cy :
  r_euclid ax cx ay cy <= r_euclid ax bx ay by_ + r_euclid bx cx by_ cy.
Proof.
  unfold r_euclid, euclid.
  set (p := sqrt (euclid_sq Rplus Rminus Rmult ax bx ay by_)).
  set (q := sqrt (euclid_sq Rplus Rminus Rmult bx cx by_ cy)).
  assert (Hp : 0 <= p) by apply sqrt_pos. assert (Hq : 0 <= q) by apply sqrt_pos.
  assert (Hpp : p * p = euclid_sq Rplus Rminus Rmult ax bx ay by_)
    by (apply sqrt_sqrt; apply r_euclid_sq_nonneg).
  assert (Hqq : q * q = euclid_sq Rplus Rminus Rmult bx cx by_ cy)
    by (apply sqrt_sqrt; apply r_euclid_sq_nonneg).
  rewrite <- (sqrt_square (p + q)) by lra.
  apply sqrt_le_1_alt.
  unfold euclid_sq in *. cbv zeta in *.
  pose proof (r_cauchy_schwarz (ax - bx) (ay - by_) (bx - cx) (by_ - cy) p q Hp Hq) as Hcs.
  assert (Hcs' : (ax - bx) * (bx - cx) + (ay - by_) * (by_ - cy) <= p * q) by (apply Hcs; lra).
  replace (ax - cx) with ((ax - bx) + (bx - cx)) by ring.
  replace (ay - cy) with ((ay - by_) + (by_ - cy)) by ring.
  nra.
Qed.
