(* C19/ProofsMetricR.v — the Euclidean formula over the reals is a metric (uses the classical
   real-number axioms of the Coq standard library; see Print Assumptions). *)
Require Import Base.Prelude C19.GeneratedFacts C19.Model.
From Coq Require Import Reals Lra.
Open Scope R_scope.

Definition r_euclid := euclid Rplus Rminus Rmult sqrt.
Definition r_euclid_sq := euclid_sq Rplus Rminus Rmult.

Lemma sq_nonneg (a : R) : 0 <= a * a.
Proof. pose proof (Rle_0_sqr a) as H. unfold Rsqr in H. exact H. Qed.

Lemma r_euclid_sq_nonneg x1 x2 y1 y2 : 0 <= r_euclid_sq x1 x2 y1 y2.
Proof.
  unfold r_euclid_sq, euclid_sq. cbv zeta.
  pose proof (sq_nonneg (x1 - x2)). pose proof (sq_nonneg (y1 - y2)). lra.
Qed.

Lemma r_euclid_sym x1 x2 y1 y2 : r_euclid x1 x2 y1 y2 = r_euclid x2 x1 y2 y1.
Proof. unfold r_euclid, euclid, euclid_sq. cbv zeta. f_equal. ring. Qed.

Lemma r_euclid_zero x1 x2 y1 y2 : r_euclid x1 x2 y1 y2 = 0 <-> (x1 = x2 /\ y1 = y2).
Proof.
  unfold r_euclid, euclid. split.
  - intros H. apply sqrt_eq_0 in H; [|apply r_euclid_sq_nonneg].
    unfold euclid_sq in H. cbv zeta in H.
    pose proof (sq_nonneg (x1 - x2)) as Ha. pose proof (sq_nonneg (y1 - y2)) as Hb.
    assert (Ha0 : (x1 - x2) * (x1 - x2) = 0) by lra. assert (Hb0 : (y1 - y2) * (y1 - y2) = 0) by lra.
    apply Rmult_integral in Ha0. apply Rmult_integral in Hb0. split; lra.
  - intros [-> ->]. unfold euclid_sq. cbv zeta.
    replace ((x2 - x2) * (x2 - x2) + (y2 - y2) * (y2 - y2)) with 0 by ring. apply sqrt_0.
Qed.

Lemma r_cauchy_schwarz a b c d p q :
  0 <= p -> 0 <= q -> a * a + b * b <= p * p -> c * c + d * d <= q * q -> a * c + b * d <= p * q.
Proof.
  intros Hp Hq Hu Hv.
  assert (Hid : (a * c + b * d) * (a * c + b * d) + (a * d - b * c) * (a * d - b * c)
                = (a * a + b * b) * (c * c + d * d)) by ring.
  pose proof (sq_nonneg a). pose proof (sq_nonneg b). pose proof (sq_nonneg c). pose proof (sq_nonneg d).
  pose proof (sq_nonneg (a * d - b * c)) as Hdet.
  assert (Hprod : (a * a + b * b) * (c * c + d * d) <= (p * p) * (q * q)).
  { apply Rmult_le_compat; lra. }
  destruct (Rle_or_lt (a * c + b * d) (p * q)) as [Hle|Hgt]; [exact Hle|].
  assert (Hpq : 0 <= p * q) by (apply Rmult_le_pos; assumption).
  assert (Hsq : (p * q) * (p * q) < (a * c + b * d) * (a * c + b * d)).
  { apply Rmult_le_0_lt_compat; lra. }
  replace ((p * q) * (p * q)) with ((p * p) * (q * q)) in Hsq by ring. lra.
Qed.

Lemma r_euclid_triangle ax ay bx by_ cx cy :
  r_euclid ax cx ay cy <= r_euclid ax bx ay by_ + r_euclid bx cx by_ cy.
Proof.
  unfold r_euclid, euclid.
  set (p := sqrt (euclid_sq Rplus Rminus Rmult ax bx ay by_)).
  set (q := sqrt (euclid_sq Rplus Rminus Rmult bx cx by_ cy)).
  assert (Hp : 0 <= p) by apply sqrt_pos. assert (Hq : 0 <= q) by apply sqrt_pos.
  assert (Hpp : p * p = euclid_sq Rplus Rminus Rmult ax bx ay by_)
    by (apply sqrt_sqrt; apply r_euclid_sq_nonneg).
  assert (Hqq : q * q = euclid_sq Rplus Rminus Rmult bx cx by_ cy)
    by (apply sqrt_sqrt; apply r_euclid_sq_nonneg).
  rewrite <- (sqrt_square (p + q)) by lra.
  apply sqrt_le_1_alt.
  unfold euclid_sq in *. cbv zeta in *.
  assert (Hcs : (ax - bx) * (bx - cx) + (ay - by_) * (by_ - cy) <= p * q)
    by (apply r_cauchy_schwarz; lra).
  replace ((ax - cx) * (ax - cx) + (ay - cy) * (ay - cy))
    with (((ax - bx) * (ax - bx) + (ay - by_) * (ay - by_)) + ((bx - cx) * (bx - cx) + (by_ - cy) * (by_ - cy))
          + 2 * ((ax - bx) * (bx - cx) + (ay - by_) * (by_ - cy))) by ring.
  replace ((p + q) * (p + q)) with (p * p + q * q + 2 * (p * q)) by ring.
  lra.
Qed.
