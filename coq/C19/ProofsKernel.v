(* C19/ProofsKernel.v — _ellipse_kernel / annulus for ALL half-widths: odd shape, ellipse mask,
   flip symmetry, centre 1, inner subset of outer, annulus = outer - centred inner in {0,1}. *)
Require Import Base.Prelude C19.GeneratedFacts C19.Model.
Open Scope Z_scope.

Definition kget (k : list (list Z)) (j i : Z) : Z := nthZ 0 (nthZ [] k j) i.

(* ---- list helpers ---- *)
Lemma lenZ_ziota s n : lenZ (ziota s n) = Z.of_nat n.
Proof. unfold lenZ. now rewrite ziota_length. Qed.

Lemma nthZ_ziota d n : forall s i, 0 <= i < Z.of_nat n -> nthZ d (ziota s n) i = s + i.
Proof.
  induction n as [|n IH]; intros s i Hi; [lia|].
  simpl ziota. destruct (Z.eq_dec i 0) as [->|Hne].
  - rewrite nthZ_cons_0. lia.
  - rewrite nthZ_cons_S by lia. rewrite IH by lia. lia.
Qed.

Lemma nthZ_map_ziota {B} (f : Z -> B) d s n i :
  0 <= i < Z.of_nat n -> nthZ d (map f (ziota s n)) i = f (s + i).
Proof.
  intros Hi. rewrite nthZ_map with (da := 0) by (rewrite lenZ_ziota; lia). now rewrite nthZ_ziota.
Qed.

Lemma nthZ_app {A} (d : A) l l' i : 0 <= i ->
  nthZ d (l ++ l') i = if i <? lenZ l then nthZ d l i else nthZ d l' (i - lenZ l).
Proof.
  intros Hi. unfold nthZ, lenZ. destruct (i <? 0) eqn:E0; [lia|].
  destruct (i <? Z.of_nat (length l)) eqn:E1.
  - apply app_nth1. lia.
  - destruct (i - Z.of_nat (length l) <? 0) eqn:E2; [lia|].
    rewrite app_nth2 by lia. f_equal. lia.
Qed.

Lemma nthZ_zeros n i : nthZ 0 (zeros n) i = 0.
Proof.
  unfold nthZ, zeros. destruct (i <? 0); [reflexivity|].
  destruct (nth_in_or_default (Z.to_nat i) (repeat 0 (Z.to_nat n)) 0) as [H|H]; [|exact H].
  now apply repeat_spec in H.
Qed.

Lemma nthZ_repeat_zeros w n j i : nthZ 0 (nthZ [] (repeat (zeros w) n) j) i = 0.
Proof.
  unfold nthZ at 2. destruct (j <? 0); [unfold nthZ; destruct (i <? 0); [reflexivity|now destruct (Z.to_nat i)]|].
  destruct (nth_in_or_default (Z.to_nat j) (repeat (zeros w) n) []) as [H|H].
  - apply repeat_spec in H. rewrite H. apply nthZ_zeros.
  - rewrite H. unfold nthZ. destruct (i <? 0); [reflexivity|now destruct (Z.to_nat i)].
Qed.

Lemma nthZ_repeat_in {A} (d x : A) n j : 0 <= j < Z.of_nat n -> nthZ d (repeat x n) j = x.
Proof.
  intros Hj. unfold nthZ. destruct (j <? 0) eqn:E; [lia|].
  assert (Hn : (Z.to_nat j < n)%nat) by lia. revert Hn. generalize (Z.to_nat j). clear.
  induction n as [|n IH]; intros m Hm; [lia|]. destruct m; simpl; [reflexivity|]. apply IH. lia.
Qed.

Lemma lenZ_zeros n : 0 <= n -> lenZ (zeros n) = n.
Proof. intros. unfold lenZ, zeros. rewrite repeat_length. lia. Qed.

Lemma lenZ_repeat {A} (x : A) n : lenZ (repeat x n) = Z.of_nat n.
Proof. unfold lenZ. now rewrite repeat_length. Qed.

(* ---- the ellipse kernel ---- *)
Lemma ellipse_rows hw hh : 0 <= hh -> lenZ (ellipse_kernel hw hh) = 2 * hh + 1.
Proof. intros. unfold ellipse_kernel. rewrite lenZ_map, lenZ_ziota. lia. Qed.

Lemma ellipse_row hw hh j : 0 <= hh -> 0 <= j <= 2 * hh ->
  nthZ [] (ellipse_kernel hw hh) j
  = map (fun i => ellipse_cell hw hh (- hw + i) (- hh + j)) (ziota 0 (Z.to_nat (2 * hw + 1))).
Proof.
  intros Hh Hj. unfold ellipse_kernel. rewrite nthZ_map_ziota by lia. reflexivity.
Qed.

Lemma ellipse_cols hw hh j : 0 <= hw -> 0 <= hh -> 0 <= j <= 2 * hh ->
  lenZ (nthZ [] (ellipse_kernel hw hh) j) = 2 * hw + 1.
Proof. intros. rewrite ellipse_row by lia. rewrite lenZ_map, lenZ_ziota. lia. Qed.

Lemma ellipse_get hw hh j i : 0 <= hw -> 0 <= hh -> 0 <= j <= 2 * hh -> 0 <= i <= 2 * hw ->
  kget (ellipse_kernel hw hh) j i = ellipse_cell hw hh (i - hw) (j - hh).
Proof.
  intros Hw Hh Hj Hi. unfold kget. rewrite ellipse_row by lia. rewrite nthZ_map_ziota by lia.
  f_equal; lia.
Qed.

Lemma ellipse_cell_01 hw hh x y : ellipse_cell hw hh x y = 0 \/ ellipse_cell hw hh x y = 1.
Proof. unfold ellipse_cell. destruct (_ <=? _); auto. Qed.

Lemma ellipse_cell_iff hw hh x y :
  ellipse_cell hw hh x y = 1 <-> (x * hh) * (x * hh) + (y * hw) * (y * hw) <= (hw * hh) * (hw * hh).
Proof.
  unfold ellipse_cell. destruct (_ <=? _) eqn:E; split; intros H; try lia; try discriminate.
Qed.

Lemma ellipse_cell_flip_x hw hh x y : ellipse_cell hw hh (- x) y = ellipse_cell hw hh x y.
Proof. unfold ellipse_cell. replace (- x * hh * (- x * hh)) with (x * hh * (x * hh)) by ring. reflexivity. Qed.
Lemma ellipse_cell_flip_y hw hh x y : ellipse_cell hw hh x (- y) = ellipse_cell hw hh x y.
Proof. unfold ellipse_cell. replace (- y * hw * (- y * hw)) with (y * hw * (y * hw)) by ring. reflexivity. Qed.

Lemma ellipse_centre hw hh : ellipse_cell hw hh 0 0 = 1.
Proof. apply ellipse_cell_iff. pose proof (Z.square_nonneg (hw * hh)). lia. Qed.

Lemma ellipse_spec hw hh : 0 <= hw -> 0 <= hh ->
  lenZ (ellipse_kernel hw hh) = 2 * hh + 1 /\
  (forall j, 0 <= j <= 2 * hh -> lenZ (nthZ [] (ellipse_kernel hw hh) j) = 2 * hw + 1) /\
  (forall j i, 0 <= j <= 2 * hh -> 0 <= i <= 2 * hw ->
     kget (ellipse_kernel hw hh) j i = ellipse_cell hw hh (i - hw) (j - hh) /\
     kget (ellipse_kernel hw hh) j (2 * hw - i) = kget (ellipse_kernel hw hh) j i /\
     kget (ellipse_kernel hw hh) (2 * hh - j) i = kget (ellipse_kernel hw hh) j i) /\
  kget (ellipse_kernel hw hh) hh hw = 1.
Proof.
  intros Hw Hh. split; [now apply ellipse_rows|]. split; [intros; now apply ellipse_cols|]. split.
  - intros j i Hj Hi. rewrite !ellipse_get by lia. split; [reflexivity|]. split.
    + replace (2 * hw - i - hw) with (- (i - hw)) by lia. apply ellipse_cell_flip_x.
    + replace (2 * hh - j - hh) with (- (j - hh)) by lia. apply ellipse_cell_flip_y.
  - rewrite ellipse_get by lia. replace (hw - hw) with 0 by lia. replace (hh - hh) with 0 by lia.
    apply ellipse_centre.
Qed.

(* hw = 0: a column of ones; hh = 0: a row of ones *)
Lemma ellipse_degenerate hw hh x y :
  (hw = 0 -> x = 0 -> ellipse_cell hw hh x y = 1) /\ (hh = 0 -> y = 0 -> ellipse_cell hw hh x y = 1).
Proof. split; intros -> ->; apply ellipse_cell_iff; lia. Qed.

(* ---- the inner ellipse lies inside the outer one ---- *)
Lemma ellipse_subset a b A B x y :
  0 <= a <= A -> 0 <= b <= B -> - a <= x <= a -> - b <= y <= b ->
  ellipse_cell a b x y = 1 -> ellipse_cell A B x y = 1.
Proof.
  intros Ha Hb Hx Hy H. apply ellipse_cell_iff in H. apply ellipse_cell_iff.
  assert (Hxx : x * x <= a * a) by nia.
  assert (Hyy : y * y <= b * b) by nia.
  destruct (Z.eq_dec a 0) as [->|Ha0].
  { assert (x = 0) by lia. subst x.
    assert (y * y <= B * B) by nia. nia. }
  destruct (Z.eq_dec b 0) as [->|Hb0].
  { assert (y = 0) by lia. subst y.
    assert (x * x <= A * A) by nia. nia. }
  (* a, b > 0:  x^2 b^2 + y^2 a^2 <= a^2 b^2  ->  x^2 B^2 + y^2 A^2 <= A^2 B^2 *)
  assert (Ha2 : 0 < a * a) by (apply Z.mul_pos_pos; lia).
  assert (Hb2 : 0 < b * b) by (apply Z.mul_pos_pos; lia).
  assert (HaA : a * a <= A * A) by (apply Z.mul_le_mono_nonneg; lia).
  assert (HbB : b * b <= B * B) by (apply Z.mul_le_mono_nonneg; lia).
  pose proof (Z.square_nonneg x) as HX. pose proof (Z.square_nonneg y) as HY.
  assert (H' : (x * x) * (b * b) + (y * y) * (a * a) <= (a * a) * (b * b)).
  { replace (x * x * (b * b)) with (x * b * (x * b)) by ring.
    replace (y * y * (a * a)) with (y * a * (y * a)) by ring.
    replace (a * a * (b * b)) with (a * b * (a * b)) by ring. exact H. }
  replace (x * B * (x * B)) with (x * x * (B * B)) by ring.
  replace (y * A * (y * A)) with (y * y * (A * A)) by ring.
  replace (A * B * (A * B)) with (A * A * (B * B)) by ring.
  generalize dependent (x * x). intros X _ HX H'. generalize dependent (y * y). intros Y _ HY H'.
  generalize dependent (a * a). intros a2 Ha2 HaA H'. generalize dependent (b * b). intros b2 Hb2 HbB H'.
  generalize dependent (A * A). intros A2 HaA. generalize dependent (B * B). intros B2 HbB.
  (* multiply the goal by a2*b2 > 0 *)
  apply Z.mul_le_mono_pos_r with (p := a2 * b2); [apply Z.mul_pos_pos; lia|].
  assert (E1 : X * B2 * (a2 * b2) <= X * b2 * (A2 * B2)).
  { replace (X * B2 * (a2 * b2)) with ((X * b2 * B2) * a2) by ring.
    replace (X * b2 * (A2 * B2)) with ((X * b2 * B2) * A2) by ring.
    apply Z.mul_le_mono_nonneg_l; [|exact HaA].
    apply Z.mul_nonneg_nonneg; [apply Z.mul_nonneg_nonneg|]; lia. }
  assert (E2 : Y * A2 * (a2 * b2) <= Y * a2 * (A2 * B2)).
  { replace (Y * A2 * (a2 * b2)) with ((Y * a2 * A2) * b2) by ring.
    replace (Y * a2 * (A2 * B2)) with ((Y * a2 * A2) * B2) by ring.
    apply Z.mul_le_mono_nonneg_l; [|exact HbB].
    apply Z.mul_nonneg_nonneg; [apply Z.mul_nonneg_nonneg|]; lia. }
  assert (E3 : (X * b2 + Y * a2) * (A2 * B2) <= a2 * b2 * (A2 * B2)).
  { apply Z.mul_le_mono_nonneg_r; [apply Z.mul_nonneg_nonneg; lia|exact H']. }
  replace ((X * B2 + Y * A2) * (a2 * b2)) with (X * B2 * (a2 * b2) + Y * A2 * (a2 * b2)) by ring.
  replace (A2 * B2 * (a2 * b2)) with (a2 * b2 * (A2 * B2)) by ring.
  replace ((X * b2 + Y * a2) * (A2 * B2)) with (X * b2 * (A2 * B2) + Y * a2 * (A2 * B2)) in E3 by ring.
  lia.
Qed.

(* ---- padding and subtraction ---- *)
Lemma nthZ_zip_sub a : forall b i, 0 <= i < lenZ a -> i < lenZ b ->
  nthZ 0 (zip_sub a b) i = nthZ 0 a i - nthZ 0 b i.
Proof.
  induction a as [|x a IH]; intros [|y b] i Hi Hb; try (rewrite ?lenZ_cons in *; unfold lenZ in *; simpl in *; lia).
  rewrite !lenZ_cons in *. simpl zip_sub. destruct (Z.eq_dec i 0) as [->|Hne].
  - now rewrite !nthZ_cons_0.
  - rewrite !nthZ_cons_S by lia. apply IH; lia.
Qed.

Lemma lenZ_nil {A} : lenZ (@nil A) = 0.
Proof. reflexivity. Qed.

Lemma lenZ_zip_sub a : forall b, lenZ (zip_sub a b) = Z.min (lenZ a) (lenZ b).
Proof.
  induction a as [|x a IH]; intros [|y b]; simpl zip_sub; rewrite ?lenZ_cons, ?lenZ_nil.
  - reflexivity.
  - pose proof (lenZ_nonneg b). lia.
  - pose proof (lenZ_nonneg a). lia.
  - rewrite IH. lia.
Qed.

Lemma nthZ_kernel_sub a : forall b j, 0 <= j < lenZ a -> j < lenZ b ->
  nthZ [] (kernel_sub a b) j = zip_sub (nthZ [] a j) (nthZ [] b j).
Proof.
  induction a as [|x a IH]; intros [|y b] j Hj Hb; try (rewrite ?lenZ_cons in *; unfold lenZ in *; simpl in *; lia).
  rewrite !lenZ_cons in *. simpl kernel_sub. destruct (Z.eq_dec j 0) as [->|Hne].
  - now rewrite !nthZ_cons_0.
  - rewrite !nthZ_cons_S by lia. apply IH; lia.
Qed.

Lemma lenZ_kernel_sub a : forall b, lenZ (kernel_sub a b) = Z.min (lenZ a) (lenZ b).
Proof.
  induction a as [|x a IH]; intros [|y b]; simpl kernel_sub; rewrite ?lenZ_cons, ?lenZ_nil.
  - reflexivity.
  - pose proof (lenZ_nonneg b). lia.
  - pose proof (lenZ_nonneg a). lia.
  - rewrite IH. lia.
Qed.

Lemma lenZ_pad pr pc k : 0 <= pr -> lenZ (pad_kernel pr pc k) = 2 * pr + lenZ k.
Proof. intros. unfold pad_kernel. rewrite !lenZ_app, !lenZ_repeat, lenZ_map. lia. Qed.

(* a row of the padded kernel that comes from the kernel itself *)
Lemma pad_row_inner pr pc k j : 0 <= pr -> pr <= j < pr + lenZ k ->
  nthZ [] (pad_kernel pr pc k) j = zeros pc ++ nthZ [] k (j - pr) ++ zeros pc.
Proof.
  intros Hpr Hj. unfold pad_kernel. rewrite nthZ_app by lia. rewrite lenZ_repeat.
  destruct (j <? Z.of_nat (Z.to_nat pr)) eqn:E; [lia|].
  rewrite nthZ_app by lia. rewrite lenZ_map.
  replace (j - Z.of_nat (Z.to_nat pr)) with (j - pr) by lia.
  destruct (j - pr <? lenZ k) eqn:E2; [|lia].
  rewrite nthZ_map with (da := []) by lia. reflexivity.
Qed.

Lemma pad_get_outer_rows pr pc k j i : 0 <= pr -> 0 <= j -> (j < pr \/ pr + lenZ k <= j) ->
  kget (pad_kernel pr pc k) j i = 0.
Proof.
  intros Hpr Hj Hout. unfold kget, pad_kernel. rewrite nthZ_app by lia. rewrite lenZ_repeat.
  destruct (j <? Z.of_nat (Z.to_nat pr)) eqn:E.
  - apply nthZ_repeat_zeros.
  - rewrite nthZ_app by lia. rewrite lenZ_map.
    destruct (j - Z.of_nat (Z.to_nat pr) <? lenZ k) eqn:E2; [lia|]. apply nthZ_repeat_zeros.
Qed.

Lemma pad_get_inner pr pc k j i : 0 <= pr -> 0 <= pc -> pr <= j < pr + lenZ k -> 0 <= i ->
  kget (pad_kernel pr pc k) j i =
    if (pc <=? i) && (i <? pc + lenZ (nthZ [] k (j - pr))) then kget k (j - pr) (i - pc) else 0.
Proof.
  intros Hpr Hpc Hj Hi. unfold kget. rewrite pad_row_inner by lia.
  rewrite nthZ_app by lia. rewrite lenZ_zeros by lia.
  destruct (i <? pc) eqn:E1.
  - destruct (pc <=? i) eqn:E0; [lia|]. simpl. apply nthZ_zeros.
  - destruct (pc <=? i) eqn:E0; [|lia]. simpl. rewrite nthZ_app by lia.
    destruct (i - pc <? lenZ (nthZ [] k (j - pr))) eqn:E2.
    + destruct (i <? pc + lenZ (nthZ [] k (j - pr))) eqn:E3; [reflexivity|lia].
    + destruct (i <? pc + lenZ (nthZ [] k (j - pr))) eqn:E3; [lia|]. apply nthZ_zeros.
Qed.

(* the inner circle centred in the outer frame *)
Definition centred_inner (hwo hho hwi hhi j i : Z) : Z :=
  if (Z.abs (j - hho) <=? hhi) && (Z.abs (i - hwo) <=? hwi)
  then ellipse_cell hwi hhi (i - hwo) (j - hho) else 0.

Lemma kcols_ellipse hw hh : 0 <= hw -> 0 <= hh -> kcols (ellipse_kernel hw hh) = 2 * hw + 1.
Proof.
  intros Hw Hh. unfold kcols.
  replace (hd [] (ellipse_kernel hw hh)) with (nthZ [] (ellipse_kernel hw hh) 0).
  - apply ellipse_cols; lia.
  - unfold ellipse_kernel. replace (Z.to_nat (2 * hh + 1)) with (S (Z.to_nat (2 * hh))) by lia. reflexivity.
Qed.

Theorem annulus_spec hwo hho hwi hhi :
  0 <= hwi <= hwo -> 0 <= hhi <= hho ->
  exists K, annulus_hw hwo hho hwi hhi = Some K /\
    lenZ K = 2 * hho + 1 /\
    (forall j, 0 <= j <= 2 * hho -> lenZ (nthZ [] K j) = 2 * hwo + 1) /\
    (forall j i, 0 <= j <= 2 * hho -> 0 <= i <= 2 * hwo ->
       kget K j i = kget (ellipse_kernel hwo hho) j i - centred_inner hwo hho hwi hhi j i /\
       (kget K j i = 0 \/ kget K j i = 1)).
Proof.
  intros Hw Hh. unfold annulus_hw, krows.
  rewrite !ellipse_rows, !kcols_ellipse by lia.
  replace ((2 * hho + 1 - (2 * hhi + 1)) / 2) with (hho - hhi) by lia.
  replace ((2 * hwo + 1 - (2 * hwi + 1)) / 2) with (hwo - hwi) by lia.
  destruct ((hho - hhi <? 0) || (hwo - hwi <? 0)) eqn:E; [lia|].
  set (pr := hho - hhi). set (pc := hwo - hwi).
  set (KO := ellipse_kernel hwo hho). set (KI := ellipse_kernel hwi hhi).
  assert (HlenKI : lenZ KI = 2 * hhi + 1) by (apply ellipse_rows; lia).
  assert (HlenKO : lenZ KO = 2 * hho + 1) by (apply ellipse_rows; lia).
  assert (HlenP : lenZ (pad_kernel pr pc KI) = 2 * hho + 1) by (rewrite lenZ_pad by (unfold pr; lia); unfold pr; lia).
  eexists. split; [reflexivity|].
  assert (Hrowlen : forall j, 0 <= j <= 2 * hho -> lenZ (nthZ [] (pad_kernel pr pc KI) j) = 2 * hwo + 1).
  { intros j Hj. destruct (Z_lt_dec j pr) as [Hlt|Hge].
    - unfold pad_kernel. rewrite nthZ_app by lia. rewrite lenZ_repeat.
      destruct (j <? Z.of_nat (Z.to_nat pr)) eqn:E1; [|unfold pr in *; lia].
      rewrite nthZ_repeat_in by (unfold pr in *; lia).
      unfold KI. rewrite kcols_ellipse by lia. rewrite lenZ_zeros by (unfold pc; lia). unfold pc. lia.
    - destruct (Z_lt_dec j (pr + lenZ KI)) as [Hin|Hout].
      + rewrite pad_row_inner by (unfold pr in *; lia). rewrite !lenZ_app, !lenZ_zeros by (unfold pc; lia).
        unfold KI. rewrite ellipse_cols by (unfold pr in *; lia). unfold pc. lia.
      + unfold pad_kernel. rewrite nthZ_app by lia. rewrite lenZ_repeat.
        destruct (j <? Z.of_nat (Z.to_nat pr)) eqn:E1; [unfold pr in *; lia|].
        rewrite nthZ_app by lia. rewrite lenZ_map.
        destruct (j - Z.of_nat (Z.to_nat pr) <? lenZ KI) eqn:E2; [unfold pr in *; lia|].
        rewrite nthZ_repeat_in by (unfold pr in *; lia).
        unfold KI. rewrite kcols_ellipse by lia. rewrite lenZ_zeros by (unfold pc; lia). unfold pc. lia. }
  split; [rewrite lenZ_kernel_sub; lia|]. split.
  - intros j Hj. rewrite nthZ_kernel_sub by lia. rewrite lenZ_zip_sub, Hrowlen by lia.
    unfold KO. rewrite ellipse_cols by lia. lia.
  - intros j i Hj Hi.
    assert (Hget : kget (kernel_sub KO (pad_kernel pr pc KI)) j i
                   = kget KO j i - kget (pad_kernel pr pc KI) j i).
    { unfold kget. rewrite nthZ_kernel_sub by lia. apply nthZ_zip_sub.
      - unfold KO. rewrite ellipse_cols by lia. lia.
      - rewrite Hrowlen by lia. lia. }
    assert (Hpad : kget (pad_kernel pr pc KI) j i = centred_inner hwo hho hwi hhi j i).
    { unfold centred_inner. destruct (Z_lt_dec j pr) as [Hlt|Hge].
      - rewrite pad_get_outer_rows by (unfold pr in *; lia).
        destruct (Z.abs (j - hho) <=? hhi) eqn:E1; [unfold pr in *; lia|reflexivity].
      - destruct (Z_lt_dec j (pr + lenZ KI)) as [Hin|Hout].
        + rewrite pad_get_inner by (unfold pr, pc in *; lia).
          unfold KI at 1. rewrite ellipse_cols by (unfold pr in *; lia).
          destruct (Z.abs (j - hho) <=? hhi) eqn:E1; [|unfold pr in *; lia]. cbn [andb].
          destruct ((pc <=? i) && (i <? pc + (2 * hwi + 1))) eqn:E2.
          * destruct (Z.abs (i - hwo) <=? hwi) eqn:E3; [|unfold pc in *; lia].
            unfold KI. rewrite ellipse_get by (unfold pr, pc in *; lia). f_equal; unfold pr, pc; lia.
          * destruct (Z.abs (i - hwo) <=? hwi) eqn:E3; [unfold pc in *; lia|reflexivity].
        + rewrite pad_get_outer_rows by (unfold pr in *; lia).
          destruct (Z.abs (j - hho) <=? hhi) eqn:E1; [unfold pr in *; lia|reflexivity]. }
    rewrite Hget, Hpad. split; [reflexivity|].
    unfold KO. rewrite ellipse_get by lia. unfold centred_inner.
    destruct ((Z.abs (j - hho) <=? hhi) && (Z.abs (i - hwo) <=? hwi)) eqn:E1.
    + destruct (ellipse_cell_01 hwi hhi (i - hwo) (j - hho)) as [H0|H1].
      * rewrite H0. destruct (ellipse_cell_01 hwo hho (i - hwo) (j - hho)) as [->| ->]; lia.
      * rewrite H1. rewrite (ellipse_subset hwi hhi hwo hho (i - hwo) (j - hho)); lia.
    + destruct (ellipse_cell_01 hwo hho (i - hwo) (j - hho)) as [->| ->]; lia.
Qed.

(* a negative pad width (inner kernel larger than the outer one) is np.pad's ValueError *)
Lemma annulus_inner_larger hwo hho hwi hhi :
  0 <= hwo -> 0 <= hho -> 0 <= hwi -> 0 <= hhi -> (hwo < hwi \/ hho < hhi) ->
  annulus_hw hwo hho hwi hhi = None.
Proof.
  intros. unfold annulus_hw, krows. rewrite !ellipse_rows, !kcols_ellipse by lia.
  destruct ((2 * hho + 1 - (2 * hhi + 1)) / 2 <? 0) eqn:E1; [reflexivity|].
  destruct ((2 * hwo + 1 - (2 * hwi + 1)) / 2 <? 0) eqn:E2; [reflexivity|]. lia.
Qed.
