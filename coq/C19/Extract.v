Require Import Extraction ExtrOcamlBasic ExtrOCamlFloats.
Require Import Base.Prelude C19.GeneratedFacts C19.Model.
Extraction Language OCaml.
Extraction "model.ml" f_euclid f_manhattan f_great_circle f_get_distance f_calc_cellsize f_calc_res f_calc_cellsize_full
  circle_kernel annulus_kernel ellipse_kernel annulus_hw splits.
