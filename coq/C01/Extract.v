Require Import Extraction ExtrOcamlBasic.
Require Import Base.Prelude Base.XVal C01.Model.
Extraction Language OCaml.
Extraction "model.ml" run_whole run_overlap run_blocks xconv xcurv xhorn xhill xapply xmean_part zramp_whole zramp_blocks.
