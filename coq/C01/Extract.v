Require Import Extraction ExtrOcamlBasic.
Require Import Base.Prelude Base.XVal C01.Model.
Extraction Language OCaml.
Extraction "model.ml" run_whole run_overlap run_blocks xconv xcurv xhorn xapply xmean_part.
