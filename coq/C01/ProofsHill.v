(* C01/ProofsHill.v — hillshade._run_numpy (np.gradient with its one-sided edge
   differences, a per-cell shading, then the explicit NaN frame) is LocalNaN 1 1:
   on every cell it equals the shading of the two CENTRAL differences of the
   NaN-extended window, so map_overlap_whole applies to it. *)
Require Import Base.Prelude Base.XVal C01.Model C01.ProofsChunk.

Section Hill.
  Context {T : Type}.
  Variable nan : T.
  Variable sub : T -> T -> T.
  Variable half : T -> T.
  Variable shade : T -> T -> T.
  Hypothesis sub_nan_l : forall a, sub nan a = nan.
  Hypothesis sub_nan_r : forall a, sub a nan = nan.
  Hypothesis half_nan : half nan = nan.
  Hypothesis shade_nan_l : forall b, shade nan b = nan.
  Hypothesis shade_nan_r : forall a, shade a nan = nan.

  Definition hill_f (w : Z -> Z -> T) : T :=
    shade (half (sub (w 1 0) (w (-1) 0))) (half (sub (w 0 1) (w 0 (-1)))).

  Lemma hillshade_local : LocalNaN nan (hillshade_np nan sub half shade) 1 1.
  Proof.
    split; [intros X; split; reflexivity|].
    exists hill_f. split.
    - intros w w' H. unfold hill_f. rewrite !H by lia. reflexivity.
    - intros X y x (Hy & Hx). unfold hill_f.
      cbn [hillshade_np get rows cols grad_rows grad_cols].
      rewrite !Z.add_0_r.
      destruct ((y =? 0) || (y =? rows X - 1) || (x =? 0) || (x =? cols X - 1)) eqn:E.
      + symmetry.
        assert (Hcase : y = 0 \/ y = rows X - 1 \/ x = 0 \/ x = cols X - 1) by lia.
        destruct Hcase as [Hc|[Hc|[Hc|Hc]]].
        * rewrite (ext_outside nan X (y + -1) x) by (unfold inside; lia).
          now rewrite sub_nan_r, half_nan, shade_nan_l.
        * rewrite (ext_outside nan X (y + 1) x) by (unfold inside; lia).
          now rewrite sub_nan_l, half_nan, shade_nan_l.
        * rewrite (ext_outside nan X y (x + -1)) by (unfold inside; lia).
          now rewrite sub_nan_r, half_nan, shade_nan_r.
        * rewrite (ext_outside nan X y (x + 1)) by (unfold inside; lia).
          now rewrite sub_nan_l, half_nan, shade_nan_r.
      + unfold grad1d.
        destruct (y =? 0) eqn:E1; [lia|]. destruct (y =? rows X - 1) eqn:E2; [lia|].
        destruct (x =? 0) eqn:E3; [lia|]. destruct (x =? cols X - 1) eqn:E4; [lia|].
        rewrite !ext_inside by (unfold inside; lia).
        replace (y + -1) with (y - 1) by lia. replace (x + -1) with (x - 1) by lia.
        reflexivity.
  Qed.
End Hill.

Lemma xhill_local : LocalNaN XNaN xhill 1 1.
Proof.
  unfold xhill. apply hillshade_local.
  - intros a; reflexivity.
  - intros a; destruct a; reflexivity.
  - reflexivity.
  - intros b; reflexivity.
  - intros a; destruct a; reflexivity.
Qed.
