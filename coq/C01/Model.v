(* C01/Model.v — executable model of the Dask plans of xarray-spatial
   (map_overlap / map_blocks around the NumPy kernels) and of the NumPy
   kernels they map.  Definitions only.

   Rasters are total functions Z -> Z -> T plus dimensions; reading outside
   the domain is only ever done through [ext] (the NaN-extension).  A chunking
   of n is a [list positive] summing to n, so "every composition of H times
   every composition of W" is the quantified type of the theorems. *)
Require Import Base.Prelude Base.XVal.

Definition zrange (lo hi : Z) : list Z := ziota lo (Z.to_nat (hi - lo)).

Section Raster.
  Context {T : Type}.
  Variable nan : T.

  Record raster := mkR { rows : Z; cols : Z; get : Z -> Z -> T }.

  Definition inb (X : raster) (y x : Z) : bool :=
    (0 <=? y) && (y <? rows X) && (0 <=? x) && (x <? cols X).
  (* NaN-extension of the whole raster: boundary=np.nan *)
  Definition ext (X : raster) (y x : Z) : T := if inb X y x then get X y x else nan.

  (* ---- chunkings ------------------------------------------------------ *)
  Fixpoint sumP (cs : list positive) : Z :=
    match cs with [] => 0 | c :: r => Zpos c + sumP r end.
  (* (start, length) of every chunk, starting at s *)
  Fixpoint spans (s : Z) (cs : list positive) : list (Z * Z) :=
    match cs with [] => [] | c :: r => (s, Zpos c) :: spans (s + Zpos c) r end.

  (* one block of the raster (what map_blocks hands to the mapped function) *)
  Definition block (X : raster) (by_ bx : Z * Z) : raster :=
    mkR (snd by_) (snd bx) (fun i j => get X (fst by_ + i) (fst bx + j)).
  (* the block plus a halo of dy rows / dx columns on every side, taken from
     the neighbouring blocks where they exist and filled with NaN outside the
     raster: dask.array.overlap.overlap(x, depth=(dy,dx), boundary=nan) *)
  Definition pad_nan (dy dx : Z) (X : raster) (by_ bx : Z * Z) : raster :=
    mkR (snd by_ + 2 * dy) (snd bx + 2 * dx)
        (fun i j => ext X (fst by_ - dy + i) (fst bx - dx + j)).
  (* dask.array.overlap.trim_internal *)
  Definition trim (dy dx : Z) (P : raster) : raster :=
    mkR (rows P - 2 * dy) (cols P - 2 * dx) (fun i j => get P (i + dy) (j + dx)).

  (* concatenation of result tiles (da.block) *)
  Definition hcat (A B : raster) : raster :=
    mkR (rows A) (cols A + cols B)
        (fun y x => if x <? cols A then get A y x else get B y (x - cols A)).
  Definition vcat (A B : raster) : raster :=
    mkR (rows A + rows B) (cols A)
        (fun y x => if y <? rows A then get A y x else get B (y - rows A) x).
  Definition rempty : raster := mkR 0 0 (fun _ _ => nan).
  Definition hcat_all (l : list raster) : raster := fold_right hcat rempty l.
  Definition vcat_all (l : list raster) : raster := fold_right vcat rempty l.

  (* data.map_overlap(F, depth=(dy,dx), boundary=np.nan) on chunks (cy, cx) *)
  Definition map_overlap (F : raster -> raster) (dy dx : Z) (cy cx : list positive)
             (X : raster) : raster :=
    vcat_all (map (fun by_ =>
      hcat_all (map (fun bx => trim dy dx (F (pad_nan dy dx X by_ bx))) (spans 0 cx)))
      (spans 0 cy)).
  (* data.map_blocks(F) *)
  Definition map_blocks (F : raster -> raster) (cy cx : list positive) (X : raster) : raster :=
    vcat_all (map (fun by_ => hcat_all (map (fun bx => F (block X by_ bx)) (spans 0 cx)))
      (spans 0 cy)).

  Fixpoint iter (n : nat) (G : raster -> raster) (X : raster) : raster :=
    match n with O => X | S k => iter k G (G X) end.

  (* all cells, row major *)
  Definition cells (X : raster) : list T :=
    flat_map (fun y => map (get X y) (zrange 0 (cols X))) (zrange 0 (rows X)).
  Definition blocks (cy cx : list positive) (X : raster) : list raster :=
    flat_map (fun by_ => map (fun bx => block X by_ bx) (spans 0 cx)) (spans 0 cy).

  (* ---- the NumPy kernels, with the loop bounds they have ---------------- *)

  (* slope._cpu / aspect._run_numpy / curvature._cpu shape:
       out[:] = nan
       for y in range(ry, rows - ry): for x in range(rx, cols - rx):
           out[y, x] = g(data[y + oy, x + ox] for (oy, ox) in offs)            *)
  Definition stencil (offs : list (Z * Z)) (g : list T -> T) (ry rx : Z) (X : raster) : raster :=
    mkR (rows X) (cols X) (fun y x =>
      if (ry <=? y) && (y <? rows X - ry) && (rx <=? x) && (x <? cols X - rx)
      then g (map (fun o => get X (y + fst o) (x + snd o)) offs)
      else nan).

  (* convolution._convolve_2d_numpy *)
  Section Conv.
    Variable zero : T.
    Variables add mul : T -> T -> T.
    Definition conv_cell (K : Z -> Z -> T) (wkx wky : Z) (X : raster) (i j : Z) : T :=
      let iimin := Z.max (i - wkx) 0 in
      let iimax := Z.min (i + wkx + 1) (rows X) in
      let jjmin := Z.max (j - wky) 0 in
      let jjmax := Z.min (j + wky + 1) (cols X) in
      fold_left (fun num ii =>
        fold_left (fun num jj => add num (mul (K (wkx + ii - i) (wky + jj - j)) (get X ii jj)))
                  (zrange jjmin jjmax) num)
        (zrange iimin iimax) zero.
    Definition conv (K : Z -> Z -> T) (nkx nky : Z) (X : raster) : raster :=
      let wkx := nkx / 2 in
      let wky := nky / 2 in
      mkR (rows X) (cols X) (fun i j =>
        if (wkx <=? i) && (i <? rows X - wkx) && (wky <=? j) && (j <? cols X - wky)
        then conv_cell K wkx wky X i j else nan).
  End Conv.

  (* focal._apply_numpy: kernel_values filled with NaN, then the in-raster cells
     under the 1-entries of the kernel; out[y, x] = func(kernel_values) *)
  Definition apply_values (K : Z -> Z -> bool) (hrows hcols : Z) (X : raster) (y x : Z)
    : list (list T) :=
    map (fun kyidx => map (fun kxidx =>
           let ky := y - hrows + kyidx in
           let kx := x - hcols + kxidx in
           if inb X ky kx && K kyidx kxidx then get X ky kx else nan)
         (zrange 0 (2 * hcols + 1))) (zrange 0 (2 * hrows + 1)).
  Definition focal_apply (K : Z -> Z -> bool) (krows kcols : Z) (func : list (list T) -> T)
             (X : raster) : raster :=
    mkR (rows X) (cols X) (fun y x => func (apply_values K (krows / 2) (kcols / 2) X y x)).

  (* focal._mean_numpy: excluded cells are copied; otherwise np.nanmean of the
     3x3 window CLIPPED to the raster.  np.nanmean is [reduce] of the non-NaN
     values in row-major order. *)
  Section Mean.
    Variable isnan : T -> bool.
    Variable excl : T -> bool.
    Variable reduce : list T -> T.
    Definition nanmean (l : list T) : T := reduce (filter (fun v => negb (isnan v)) l).
    Definition mean_cell (X : raster) (y x : Z) : T :=
      if excl (get X y x) then get X y x
      else
        let left := Z.max (x - 1) 0 in
        let right := Z.min (x + 2) (cols X) in
        let bottom := Z.max (y - 1) 0 in
        let top := Z.min (y + 2) (rows X) in
        nanmean (flat_map (fun yy => map (get X yy) (zrange left right)) (zrange bottom top)).
    Definition mean3 (X : raster) : raster := mkR (rows X) (cols X) (mean_cell X).
  End Mean.

  (* hillshade._run_numpy:  x, y = np.gradient(data)  (spacing 1, edge_order 1:
     central difference (f[i+1]-f[i-1])/2 inside, one-sided f[1]-f[0] and
     f[n-1]-f[n-2] on the two edge rows / columns), a per-cell shading of the two
     gradients, then  result[(0,-1), :] = nan ; result[:, (0,-1)] = nan *)
  Section Hill.
    Variable sub : T -> T -> T.
    Variable half : T -> T.
    Variable shade : T -> T -> T.
    Definition grad1d (n : Z) (f : Z -> T) (i : Z) : T :=
      if i =? 0 then sub (f 1) (f 0)
      else if i =? n - 1 then sub (f (n - 1)) (f (n - 2))
      else half (sub (f (i + 1)) (f (i - 1))).
    Definition grad_rows (X : raster) : raster :=
      mkR (rows X) (cols X) (fun y x => grad1d (rows X) (fun k => get X k x) y).
    Definition grad_cols (X : raster) : raster :=
      mkR (rows X) (cols X) (fun y x => grad1d (cols X) (fun k => get X y k) x).
    Definition hillshade_np (X : raster) : raster :=
      let gx := grad_rows X in
      let gy := grad_cols X in
      mkR (rows X) (cols X) (fun y x =>
        if (y =? 0) || (y =? rows X - 1) || (x =? 0) || (x =? cols X - 1) then nan
        else shade (get gx y x) (get gy y x)).
  End Hill.

  (* perlin._perlin_dask_numpy / terrain._terrain_dask_numpy: a per-cell function g
     of two COORDINATE ramps  linx = linspace(ax, bx, W, endpoint=False) (columns),
     liny = linspace(ay, by, H, endpoint=False) (rows), meshgrid, map_blocks.
     np.linspace: value i is  a + i*step.  da.linspace: chunk k is
     linspace(blockstart_k, ..)[i] = blockstart_k + i*step  with
     blockstart_0 = a, blockstart_{k+1} = blockstart_k + step*len_k. *)
  Section Ramp.
    Variable add : T -> T -> T.
    Variable scale : Z -> T -> T.
    Definition ramp (a st : T) (i : Z) : T := add a (scale i st).
    Fixpoint block_starts (b st : T) (cs : list positive) : list T :=
      match cs with
      | [] => []
      | c :: r => b :: block_starts (add b (scale (Zpos c) st)) st r
      end.
    Definition coord_whole (g : T -> T -> T) (ax stx ay sty : T) (H W : Z) : raster :=
      mkR H W (fun y x => g (ramp ax stx x) (ramp ay sty y)).
    Definition coord_tile (g : T -> T -> T) (stx sty : T) (by_ bx : (Z * Z) * T) : raster :=
      mkR (snd (fst by_)) (snd (fst bx)) (fun i j => g (ramp (snd bx) stx j) (ramp (snd by_) sty i)).
    Definition coord_blocks (g : T -> T -> T) (ax stx ay sty : T) (cy cx : list positive) : raster :=
      vcat_all (map (fun by_ =>
        hcat_all (map (fun bx => coord_tile g stx sty by_ bx)
                      (combine (spans 0 cx) (block_starts ax stx cx))))
        (combine (spans 0 cy) (block_starts ay sty cy))).
  End Ramp.

  (* per-cell kernels (classify._cpu_binary/_cpu_bin, every spectral index on a
     raster of band tuples, _normalize_data_cpu, _calc_hotspots_numpy) *)
  Definition pointwise (h : T -> T) (X : raster) : raster :=
    mkR (rows X) (cols X) (fun y x => h (get X y x)).

  (* lists <-> rasters, for running the model *)
  Definition tabulate (X : raster) : list (list T) :=
    map (fun y => map (get X y) (zrange 0 (cols X))) (zrange 0 (rows X)).
  Definition of_lists (l : list (list T)) : raster :=
    mkR (lenZ l) (lenZ (hd [] l)) (fun y x => nthZ nan (nthZ [] l y) x).
End Raster.

Arguments raster : clear implicits.
Arguments mkR {T}.
Arguments rows {T}.
Arguments cols {T}.
Arguments get {T}.

(* ---- executable instance: xv cells, exact integer arithmetic with NaN ----
   (the harness feeds NaN and small integers only; +-inf cells are compared
   relationally Dask-vs-NumPy by the oracle, not by the model) *)
Definition xadd (a b : xv) : xv := match a, b with XFin x, XFin y => XFin (x + y) | _, _ => XNaN end.
Definition xmul (a b : xv) : xv := match a, b with XFin x, XFin y => XFin (x * y) | _, _ => XNaN end.

Definition grid_fun (d : xv) (k : list (list xv)) : Z -> Z -> xv :=
  fun i j => nthZ d (nthZ [] k i) j.

Definition xconv (k : list (list xv)) : raster xv -> raster xv :=
  conv XNaN (XFin 0) xadd xmul (grid_fun XNaN k) (lenZ k) (lenZ (hd [] k)).

Fixpoint all_fin (l : list xv) : option (list Z) :=
  match l with
  | [] => Some []
  | XFin z :: r => match all_fin r with Some zs => Some (z :: zs) | None => None end
  | _ :: _ => None
  end.

(* curvature._cpu with cellsize = 1 on integer data:
     d = (dn + up)/2 - c ; e = (rt + lf)/2 - c ; out = -2*(d+e)*100/(1*1)
   which is the integer  -100 * (dn + up + rt + lf - 4 c)  (exact in float32
   for the magnitudes the harness uses); any NaN operand gives NaN *)
Definition curv_offs : list (Z * Z) := [(1, 0); (-1, 0); (0, 1); (0, -1); (0, 0)].
Definition xcurv_g (l : list xv) : xv :=
  match all_fin l with
  | Some [dn; up; rt; lf; c] => XFin (-100 * (dn + up + rt + lf - 4 * c))
  | _ => XNaN
  end.
Definition xcurv : raster xv -> raster xv := stencil XNaN curv_offs xcurv_g 1 1.

(* slope._cpu reads a b c d f g h i in this order.  The executable stand-in
   for the Horn formula is 64 * (dz_dx^2 + dz_dy^2) at cellsize 1 (the code
   goes on with sqrt/arctan, which are libm calls and are not modelled); it is
   used for the non-vacuity examples, not compared with slope(). *)
Definition horn_offs : list (Z * Z) :=
  [(1, -1); (1, 0); (1, 1); (0, -1); (0, 1); (-1, -1); (-1, 0); (-1, 1)].
Definition xhorn_g (l : list xv) : xv :=
  match all_fin l with
  | Some [a; b; c; d; f; g; h; i] =>
      XFin (((c + 2 * f + i) - (a + 2 * d + g)) * ((c + 2 * f + i) - (a + 2 * d + g))
            + ((g + 2 * h + i) - (a + 2 * b + c)) * ((g + 2 * h + i) - (a + 2 * b + c)))
  | _ => XNaN
  end.
Definition xhorn : raster xv -> raster xv := stencil XNaN horn_offs xhorn_g 1 1.

(* focal.apply with the integer-exact reducers nansum / nanmax / nanmin *)
Definition xnansum (g : list (list xv)) : xv :=
  fold_left (fun acc v => match acc, v with XFin s, XFin z => XFin (s + z) | _, _ => acc end)
            (concat g) (XFin 0).
Definition xnanext (pick : Z -> Z -> Z) (g : list (list xv)) : xv :=
  fold_left (fun acc v => match acc, v with
                          | XNaN, _ => v
                          | XFin s, XFin z => XFin (pick s z)
                          | _, _ => acc end) (concat g) XNaN.
Definition kernel_is_one (k : list (list xv)) : Z -> Z -> bool :=
  fun i j => match grid_fun XNaN k i j with XFin 1 => true | _ => false end.
Definition xapply (which : Z) (k : list (list xv)) : raster xv -> raster xv :=
  focal_apply XNaN (kernel_is_one k) (lenZ k) (lenZ (hd [] k))
    (if which =? 0 then xnansum else if which =? 1 then xnanext Z.max else xnanext Z.min).

(* focal mean (default excludes=[nan]), one pass, on integers: np.nanmean is
   sum / count of the non-NaN window cells; the model is run twice, once with
   the reducer "exact sum" and once with "count" (the harness divides) *)
Definition xcount (l : list xv) : xv := XFin (lenZ l).
Definition xsum (l : list xv) : xv :=
  fold_left (fun acc v => match acc, v with XFin s, XFin z => XFin (s + z) | _, _ => acc end) l (XFin 0).
Definition xmean_part (which : Z) : raster xv -> raster xv :=
  mean3 xisnan xisnan (if which =? 0 then xsum else xcount).

(* hillshade stand-in for execution: the model is run on 2*data (even integers),
   so [half] is exact, and the shading is gx^2 + gy^2 = 4 * |gradient(data)|^2
   (the code goes on with arctan/sin/cos, libm, not modelled) *)
Definition xsub (a b : xv) : xv := match a, b with XFin x, XFin y => XFin (x - y) | _, _ => XNaN end.
Definition xhalf (a : xv) : xv := match a with XFin x => XFin (x / 2) | _ => XNaN end.
Definition xhill : raster xv -> raster xv := hillshade_np XNaN xsub xhalf (fun a b => xadd (xmul a a) (xmul b b)).

(* coordinate ramps over Z (numerators of the rational coordinates): the per-cell
   function packs the two coordinates so that both can be read back *)
Definition zramp_whole (ax stx ay sty H W : Z) : list (list Z) :=
  tabulate (coord_whole Z.add Z.mul (fun x y => x * 1000003 + y) ax stx ay sty H W).
Definition zramp_blocks (ax stx ay sty : Z) (cy cx : list positive) : list (list Z) :=
  tabulate (coord_blocks 0 Z.add Z.mul (fun x y => x * 1000003 + y) ax stx ay sty cy cx).

(* what the driver calls: whole-raster result and chunked result *)
Definition run_whole (F : raster xv -> raster xv) (data : list (list xv)) : list (list xv) :=
  tabulate (F (of_lists XNaN data)).
Definition run_overlap (F : raster xv -> raster xv) (dy dx : Z) (cy cx : list positive)
           (data : list (list xv)) : list (list xv) :=
  tabulate (map_overlap XNaN F dy dx cy cx (of_lists XNaN data)).
Definition run_blocks (F : raster xv -> raster xv) (cy cx : list positive)
           (data : list (list xv)) : list (list xv) :=
  tabulate (map_blocks XNaN F cy cx (of_lists XNaN data)).
