(* C01/ProofsKernels.v — the NumPy kernels, written with the loop bounds and
   clipping they have in the source, are LocalNaN: on every cell (border cells
   included) they equal a fixed function of the NaN-extended window.  This is
   what makes map_overlap_whole apply to them. *)
Require Import Base.Prelude Base.XVal C01.Model C01.ProofsChunk.

Lemma ziota_shift i s n : ziota (i + s) n = map (Z.add i) (ziota s n).
Proof.
  revert s. induction n as [|n IH]; intros s; simpl; [reflexivity|].
  f_equal. replace (i + s + 1) with (i + (s + 1)) by lia. apply IH.
Qed.
Lemma zrange_In lo hi x : In x (zrange lo hi) <-> lo <= x < hi.
Proof. unfold zrange. rewrite ziota_In. lia. Qed.
Lemma zrange_shift i lo hi : zrange (i + lo) (i + hi) = map (Z.add i) (zrange lo hi).
Proof.
  unfold zrange. replace (i + hi - (i + lo)) with (hi - lo) by lia. apply ziota_shift.
Qed.

Lemma fold_left_map {A B C} (f : A -> B -> A) (h : C -> B) l a :
  fold_left f (map h l) a = fold_left (fun acc x => f acc (h x)) l a.
Proof. revert a. induction l as [|x l IH]; intros a; simpl; auto. Qed.
Lemma fold_left_ext_in {A B} (f g : A -> B -> A) l a :
  (forall acc x, In x l -> f acc x = g acc x) -> fold_left f l a = fold_left g l a.
Proof.
  revert a. induction l as [|x l IH]; intros a H; simpl; [reflexivity|].
  rewrite H by (simpl; auto). apply IH. intros; apply H; simpl; auto.
Qed.

Section Kernels.
  Context {T : Type}.
  Variable nan : T.
  Notation raster := (raster T).
  Notation LocalNaN := (LocalNaN nan).

  (* ---- per-cell kernels: radius 0 ---------------------------------------- *)
  Lemma pointwise_local h : LocalNaN (pointwise h) 0 0.
  Proof.
    split; [intros X; split; reflexivity|].
    exists (fun w => h (w 0 0)). split.
    - intros w w' H. f_equal. apply H; lia.
    - intros X y x Hi. cbn [pointwise get]. rewrite !Z.add_0_r.
      now rewrite (ext_inside nan X y x Hi).
  Qed.

  (* ---- fixed-offset stencils with a NaN frame (slope, aspect, curvature) -- *)
  Lemma stencil_local offs g ry rx :
    0 <= ry -> 0 <= rx ->
    (forall l, In nan l -> g l = nan) ->
    (forall o, In o offs -> - ry <= fst o <= ry /\ - rx <= snd o <= rx) ->
    (exists o, In o offs /\ fst o = - ry) -> (exists o, In o offs /\ fst o = ry) ->
    (exists o, In o offs /\ snd o = - rx) -> (exists o, In o offs /\ snd o = rx) ->
    LocalNaN (stencil nan offs g ry rx) ry rx.
  Proof.
    intros Hry Hrx Hg Hoffs (oU & HoU & EU) (oD & HoD & ED) (oL & HoL & EL) (oR & HoR & ER).
    split; [intros X; split; reflexivity|].
    exists (fun w => g (map (fun o => w (fst o) (snd o)) offs)). split.
    - intros w w' H. f_equal. apply map_ext_in. intros o Ho.
      destruct (Hoffs o Ho). apply H; lia.
    - intros X y x (Hy & Hx). cbn [stencil get rows cols].
      destruct ((ry <=? y) && (y <? rows X - ry) && (rx <=? x) && (x <? cols X - rx)) eqn:E.
      + f_equal. apply map_ext_in. intros o Ho. destruct (Hoffs o Ho).
        symmetry. apply ext_inside. unfold inside. lia.
      + symmetry. apply Hg.
        assert (Hcase : y < ry \/ rows X - ry <= y \/ x < rx \/ cols X - rx <= x) by lia.
        apply in_map_iff.
        destruct Hcase as [Hc|[Hc|[Hc|Hc]]].
        * exists oU. split; [|assumption]. apply ext_outside. unfold inside. lia.
        * exists oD. split; [|assumption]. apply ext_outside. unfold inside. lia.
        * exists oL. split; [|assumption]. apply ext_outside. unfold inside. lia.
        * exists oR. split; [|assumption]. apply ext_outside. unfold inside. lia.
  Qed.

  (* ---- convolution._convolve_2d_numpy ------------------------------------ *)
  Section ConvProof.
    Variable zero : T.
    Variables add mul : T -> T -> T.
    Hypothesis add_nan_l : forall x, add nan x = nan.
    Hypothesis add_nan_r : forall x, add x nan = nan.
    Hypothesis mul_nan_r : forall k, mul k nan = nan.

    Definition wsum (K : Z -> Z -> T) (wkx wky : Z) (w : Z -> Z -> T) : T :=
      fold_left (fun num a =>
        fold_left (fun num b => add num (mul (K (wkx + a) (wky + b)) (w a b)))
                  (zrange (- wky) (wky + 1)) num)
        (zrange (- wkx) (wkx + 1)) zero.

    Lemma fold_absorb {A} (step : T -> A -> T) l :
      (forall x, In x l -> step nan x = nan) -> fold_left step l nan = nan.
    Proof.
      induction l as [|x l IH]; intros H; simpl; [reflexivity|].
      rewrite H by (simpl; auto). apply IH. intros; apply H; simpl; auto.
    Qed.
    Lemma fold_hits {A} (step : T -> A -> T) l a0 acc :
      (forall x, In x l -> step nan x = nan) -> In a0 l -> (forall acc, step acc a0 = nan) ->
      fold_left step l acc = nan.
    Proof.
      revert acc. induction l as [|x l IH]; intros acc Habs Hin Hhit; simpl; [contradiction|].
      destruct Hin as [->|Hin].
      - rewrite Hhit. apply fold_absorb. intros; apply Habs; simpl; auto.
      - apply IH; auto. intros; apply Habs; simpl; auto.
    Qed.

    Lemma wsum_nan K wkx wky w a0 b0 :
      - wkx <= a0 <= wkx -> - wky <= b0 <= wky -> w a0 b0 = nan -> wsum K wkx wky w = nan.
    Proof.
      intros Ha Hb Hw. unfold wsum.
      apply fold_hits with (a0 := a0).
      - intros a _. apply fold_absorb. intros b _. apply add_nan_l.
      - apply zrange_In. lia.
      - intros acc. apply fold_hits with (a0 := b0).
        + intros b _. apply add_nan_l.
        + apply zrange_In. lia.
        + intros acc'. rewrite Hw, mul_nan_r. apply add_nan_r.
    Qed.

    Lemma wsum_local K wkx wky w w' :
      (forall a b, - wkx <= a <= wkx -> - wky <= b <= wky -> w a b = w' a b) ->
      wsum K wkx wky w = wsum K wkx wky w'.
    Proof.
      intros H. unfold wsum. apply fold_left_ext_in. intros acc a Ha.
      apply fold_left_ext_in. intros acc' b Hb.
      apply zrange_In in Ha. apply zrange_In in Hb. rewrite H by lia. reflexivity.
    Qed.

    Lemma conv_cell_interior K wkx wky (X : raster) i j :
      0 <= wkx -> 0 <= wky -> wkx <= i < rows X - wkx -> wky <= j < cols X - wky ->
      conv_cell zero add mul K wkx wky X i j = wsum K wkx wky (fun a b => ext nan X (i + a) (j + b)).
    Proof.
      intros Hkx Hky Hi Hj. unfold conv_cell, wsum.
      rewrite (Z.max_l (i - wkx) 0), (Z.min_l (i + wkx + 1) (rows X)) by lia.
      rewrite (Z.max_l (j - wky) 0), (Z.min_l (j + wky + 1) (cols X)) by lia.
      replace (i - wkx) with (i + - wkx) by lia.
      replace (i + wkx + 1) with (i + (wkx + 1)) by lia.
      replace (j - wky) with (j + - wky) by lia.
      replace (j + wky + 1) with (j + (wky + 1)) by lia.
      rewrite !zrange_shift, fold_left_map.
      apply fold_left_ext_in. intros acc a Ha. rewrite fold_left_map.
      apply fold_left_ext_in. intros acc' b Hb.
      apply zrange_In in Ha. apply zrange_In in Hb.
      rewrite ext_inside by (unfold inside; lia).
      replace (wkx + (i + a) - i) with (wkx + a) by lia.
      replace (wky + (j + b) - j) with (wky + b) by lia.
      reflexivity.
    Qed.

    (* every odd (indeed every non-negative) kernel shape, non-square included *)
    Lemma conv_local K nkx nky :
      0 <= nkx -> 0 <= nky -> LocalNaN (conv nan zero add mul K nkx nky) (nkx / 2) (nky / 2).
    Proof.
      intros Hkx Hky.
      assert (Hwx : 0 <= nkx / 2) by (apply Z.div_pos; lia).
      assert (Hwy : 0 <= nky / 2) by (apply Z.div_pos; lia).
      split; [intros X; split; reflexivity|].
      exists (wsum K (nkx / 2) (nky / 2)). split.
      - intros w w' H. now apply wsum_local.
      - intros X y x (Hy & Hx). cbn [conv get rows cols].
        set (wkx := nkx / 2) in *. set (wky := nky / 2) in *.
        destruct ((wkx <=? y) && (y <? rows X - wkx) && (wky <=? x) && (x <? cols X - wky)) eqn:E.
        + apply conv_cell_interior; lia.
        + symmetry.
          assert (Hcase : y < wkx \/ rows X - wkx <= y \/ x < wky \/ cols X - wky <= x) by lia.
          destruct Hcase as [Hc|[Hc|[Hc|Hc]]].
          * apply wsum_nan with (a0 := - wkx) (b0 := 0); try lia.
            apply ext_outside. unfold inside. lia.
          * apply wsum_nan with (a0 := wkx) (b0 := 0); try lia.
            apply ext_outside. unfold inside. lia.
          * apply wsum_nan with (a0 := 0) (b0 := - wky); try lia.
            apply ext_outside. unfold inside. lia.
          * apply wsum_nan with (a0 := 0) (b0 := wky); try lia.
            apply ext_outside. unfold inside. lia.
    Qed.
  End ConvProof.

  (* ---- focal._apply_numpy: any reducer [func], any 0/1 kernel ------------ *)
  Lemma focal_apply_local K krows kcols func :
    0 <= krows -> 0 <= kcols -> LocalNaN (focal_apply nan K krows kcols func) (krows / 2) (kcols / 2).
  Proof.
    intros Hkr Hkc.
    assert (Hh : 0 <= krows / 2) by (apply Z.div_pos; lia).
    assert (Hw : 0 <= kcols / 2) by (apply Z.div_pos; lia).
    set (hrows := krows / 2) in *. set (hcols := kcols / 2) in *.
    split; [intros X; split; reflexivity|].
    exists (fun w => func (map (fun kyidx => map (fun kxidx =>
              if K kyidx kxidx then w (kyidx - hrows) (kxidx - hcols) else nan)
              (zrange 0 (2 * hcols + 1))) (zrange 0 (2 * hrows + 1)))).
    split.
    - intros w w' H. f_equal. apply map_ext_in. intros ky Hky. apply map_ext_in. intros kx Hkx.
      apply zrange_In in Hky. apply zrange_In in Hkx.
      destruct (K ky kx); [|reflexivity]. apply H; lia.
    - intros X y x _. cbn [focal_apply get]. fold hrows hcols. unfold apply_values. f_equal.
      apply map_ext_in. intros ky Hky. apply map_ext_in. intros kx Hkx.
      cbv zeta. unfold ext.
      replace (y + (ky - hrows)) with (y - hrows + ky) by lia.
      replace (x + (kx - hcols)) with (x - hcols + kx) by lia.
      destruct (inb X (y - hrows + ky) (x - hcols + kx)), (K ky kx); reflexivity.
  Qed.
End Kernels.

(* ---- the concrete, executable instances over xv (so nothing above is
   vacuous: the hypotheses are satisfied by real arithmetic with NaN) ------- *)
Lemma all_fin_nan l : In XNaN l -> all_fin l = None.
Proof.
  induction l as [|a l IH]; intros Hin; [contradiction|].
  destruct Hin as [->|Hin]; [reflexivity|].
  simpl. destruct a; try reflexivity. now rewrite IH.
Qed.

Lemma xconv_local k : LocalNaN XNaN (xconv k) (lenZ k / 2) (lenZ (hd [] k) / 2).
Proof.
  unfold xconv. apply conv_local.
  - reflexivity.
  - intros x; destruct x; reflexivity.
  - intros x; destruct x; reflexivity.
  - apply lenZ_nonneg.
  - apply lenZ_nonneg.
Qed.

Lemma xcurv_local : LocalNaN XNaN xcurv 1 1.
Proof.
  unfold xcurv. apply stencil_local; try lia.
  - intros l Hin. unfold xcurv_g. now rewrite all_fin_nan.
  - intros o Ho. simpl in Ho.
    repeat (destruct Ho as [<-|Ho]; [simpl; lia|]). contradiction.
  - exists (-1, 0). split; [simpl; tauto|reflexivity].
  - exists (1, 0). split; [simpl; tauto|reflexivity].
  - exists (0, -1). split; [simpl; tauto|reflexivity].
  - exists (0, 1). split; [simpl; tauto|reflexivity].
Qed.

Lemma xhorn_local : LocalNaN XNaN xhorn 1 1.
Proof.
  unfold xhorn. apply stencil_local; try lia.
  - intros l Hin. unfold xhorn_g. now rewrite all_fin_nan.
  - intros o Ho. simpl in Ho.
    repeat (destruct Ho as [<-|Ho]; [simpl; lia|]). contradiction.
  - exists (-1, 0). split; [simpl; tauto|reflexivity].
  - exists (1, 0). split; [simpl; tauto|reflexivity].
  - exists (0, -1). split; [simpl; tauto|reflexivity].
  - exists (0, 1). split; [simpl; tauto|reflexivity].
Qed.

Lemma xapply_local which k : LocalNaN XNaN (xapply which k) (lenZ k / 2) (lenZ (hd [] k) / 2).
Proof. unfold xapply. apply focal_apply_local; apply lenZ_nonneg. Qed.
