(* C01/ProofsReduce.v — global reductions: the cells of the blocks of any
   chunking are a permutation of the cells of the whole raster, so every
   reduction by an associative-commutative operation (min, max; sum at the
   exact instance) over the blocks — flat or block-wise then combined — equals
   the reduction over the whole array. *)
Require Import Base.Prelude C01.Model C01.ProofsChunk C01.ProofsKernels C01.ProofsMean.
Require Import Permutation.

Lemma zrange_app lo mid hi : lo <= mid <= hi -> zrange lo hi = zrange lo mid ++ zrange mid hi.
Proof.
  intros H. unfold zrange.
  replace (Z.to_nat (hi - lo)) with (Z.to_nat (mid - lo) + Z.to_nat (hi - mid))%nat by lia.
  remember (Z.to_nat (hi - mid)) as m eqn:Em.
  assert (Hmid : mid = lo + Z.of_nat (Z.to_nat (mid - lo))) by lia.
  remember (Z.to_nat (mid - lo)) as n eqn:En. clear En Em H hi.
  revert lo mid Hmid. induction n as [|n IH]; intros lo mid Hmid.
  - simpl. replace mid with lo by lia. reflexivity.
  - simpl. f_equal. apply IH. lia.
Qed.

Lemma flat_map_app_perm {A B} (f g : A -> list B) l :
  Permutation (flat_map (fun y => f y ++ g y) l) (flat_map f l ++ flat_map g l).
Proof.
  induction l as [|a l IH]; simpl; [constructor|].
  rewrite <- !app_assoc. apply Permutation_app_head.
  rewrite IH. apply Permutation_app_swap_app.
Qed.

Lemma flat_map_map' {A B C} (f : B -> list C) (g : A -> B) l :
  flat_map f (map g l) = flat_map (fun x => f (g x)) l.
Proof. induction l as [|a l IH]; simpl; [reflexivity|]. now rewrite IH. Qed.

Lemma flat_map_flat_map' {A B C} (f : B -> list C) (g : A -> list B) l :
  flat_map f (flat_map g l) = flat_map (fun x => flat_map f (g x)) l.
Proof. induction l as [|a l IH]; simpl; [reflexivity|]. now rewrite flat_map_app, IH. Qed.

Section Reduce.
  Context {T : Type}.
  Notation raster := (raster T).

  Definition cells_rect (g : Z -> Z -> T) (y0 h x0 w : Z) : list T :=
    flat_map (fun y => map (g y) (zrange x0 (x0 + w))) (zrange y0 (y0 + h)).

  Lemma cells_block (X : raster) by_ bx :
    cells (block X by_ bx) = cells_rect (get X) (fst by_) (snd by_) (fst bx) (snd bx).
  Proof.
    destruct by_ as [y0 h], bx as [x0 w]. unfold cells, cells_rect, block. cbn [rows cols get fst snd].
    replace (zrange y0 (y0 + h)) with (map (Z.add y0) (zrange 0 h))
      by (rewrite <- zrange_shift; f_equal; lia).
    replace (zrange x0 (x0 + w)) with (map (Z.add x0) (zrange 0 w))
      by (rewrite <- zrange_shift; f_equal; lia).
    rewrite flat_map_map'. apply flat_map_ext. intros i. now rewrite map_map.
  Qed.

  Lemma cells_whole (X : raster) : cells X = cells_rect (get X) 0 (rows X) 0 (cols X).
  Proof. reflexivity. Qed.

  Lemma rect_split_cols g y0 h x0 w1 w2 :
    0 <= w1 -> 0 <= w2 ->
    Permutation (cells_rect g y0 h x0 (w1 + w2))
                (cells_rect g y0 h x0 w1 ++ cells_rect g y0 h (x0 + w1) w2).
  Proof.
    intros H1 H2. unfold cells_rect.
    rewrite (zrange_app x0 (x0 + w1) (x0 + (w1 + w2))) by lia.
    replace (x0 + (w1 + w2)) with (x0 + w1 + w2) by lia.
    rewrite <- flat_map_app_perm.
    erewrite flat_map_ext; [reflexivity|]. intros y. cbv beta. now rewrite map_app.
  Qed.

  Lemma rect_split_rows g y0 h1 h2 x0 w :
    0 <= h1 -> 0 <= h2 ->
    cells_rect g y0 (h1 + h2) x0 w = cells_rect g y0 h1 x0 w ++ cells_rect g (y0 + h1) h2 x0 w.
  Proof.
    intros H1 H2. unfold cells_rect.
    rewrite (zrange_app y0 (y0 + h1) (y0 + (h1 + h2))) by lia.
    replace (y0 + (h1 + h2)) with (y0 + h1 + h2) by lia.
    apply flat_map_app.
  Qed.

  Lemma rect_empty_cols g y0 h x0 : cells_rect g y0 h x0 0 = [].
  Proof.
    unfold cells_rect. rewrite (zrange_nil x0 (x0 + 0)) by lia.
    induction (zrange y0 (y0 + h)); simpl; auto.
  Qed.
  Lemma rect_empty_rows g y0 x0 w : cells_rect g y0 0 x0 w = [].
  Proof. unfold cells_rect. rewrite (zrange_nil y0 (y0 + 0)) by lia. reflexivity. Qed.

  Lemma row_of_blocks_perm g y0 h cx s :
    Permutation (flat_map (fun bx => cells_rect g y0 h (fst bx) (snd bx)) (spans s cx))
                (cells_rect g y0 h s (sumP cx)).
  Proof.
    revert s. induction cx as [|c r IH]; intros s; cbn [spans flat_map sumP].
    - now rewrite rect_empty_cols.
    - cbn [fst snd]. pose proof (sumP_nonneg r).
      rewrite (rect_split_cols g y0 h s (Z.pos c) (sumP r)) by lia.
      apply Permutation_app_head. apply IH.
  Qed.

  Lemma blocks_perm_gen g cy cx s :
    Permutation
      (flat_map (fun by_ => flat_map (fun bx => cells_rect g (fst by_) (snd by_) (fst bx) (snd bx)) (spans 0 cx))
                (spans s cy))
      (cells_rect g s (sumP cy) 0 (sumP cx)).
  Proof.
    revert s. induction cy as [|c r IH]; intros s; cbn [spans flat_map sumP].
    - now rewrite rect_empty_rows.
    - cbn [fst snd]. pose proof (sumP_nonneg r).
      rewrite (rect_split_rows g s (Z.pos c) (sumP r)) by lia.
      apply Permutation_app; [apply row_of_blocks_perm|apply IH].
  Qed.

  (* the cells of all blocks, block after block, are a permutation of the cells of the raster *)
  Theorem blocks_cells_perm (X : raster) cy cx :
    sumP cy = rows X -> sumP cx = cols X ->
    Permutation (flat_map cells (blocks cy cx X)) (cells X).
  Proof.
    intros Hcy Hcx. rewrite cells_whole, <- Hcy, <- Hcx.
    rewrite <- (blocks_perm_gen (get X) cy cx 0).
    unfold blocks. rewrite flat_map_flat_map'.
    match goal with |- Permutation ?a ?b => replace a with b; [reflexivity|] end.
    symmetry. apply flat_map_ext. intros by_.
    rewrite flat_map_map'. apply flat_map_ext. intros bx. apply cells_block.
  Qed.

  (* reductions *)
  Variable op : T -> T -> T.
  Hypothesis op_assoc : forall a b c, op a (op b c) = op (op a b) c.
  Hypothesis op_comm : forall a b, op a b = op b a.

  Lemma fold_right_perm e l l' : Permutation l l' -> fold_right op e l = fold_right op e l'.
  Proof.
    induction 1; simpl; try congruence; rewrite !op_assoc; f_equal; apply op_comm.
  Qed.

  Theorem reduce_blocks_flat (X : raster) cy cx e :
    sumP cy = rows X -> sumP cx = cols X ->
    fold_right op e (flat_map cells (blocks cy cx X)) = fold_right op e (cells X).
  Proof. intros. apply fold_right_perm. now apply blocks_cells_perm. Qed.

  (* Dask's tree reduction: reduce every block, then combine the partial results;
     e is a neutral element (NaN for nanmin/nanmax, 0 for the exact sum) *)
  Hypothesis e : T.
  Hypothesis op_neutral : forall a, op e a = a.
  Lemma fold_right_app_neutral l l' :
    fold_right op e (l ++ l') = op (fold_right op e l) (fold_right op e l').
  Proof.
    induction l as [|a l IH]; simpl; [now rewrite op_neutral|].
    now rewrite IH, op_assoc.
  Qed.
  Lemma fold_blockwise (ls : list (list T)) :
    fold_right op e (map (fold_right op e) ls) = fold_right op e (concat ls).
  Proof.
    induction ls as [|l ls IH]; simpl; [reflexivity|].
    now rewrite fold_right_app_neutral, IH.
  Qed.

  Theorem reduce_blocks_tree (X : raster) cy cx :
    sumP cy = rows X -> sumP cx = cols X ->
    fold_right op e (map (fun B => fold_right op e (cells B)) (blocks cy cx X)) = fold_right op e (cells X).
  Proof.
    intros Hcy Hcx.
    rewrite <- (reduce_blocks_flat X cy cx e Hcy Hcx).
    rewrite flat_map_concat_map, <- fold_blockwise, map_map. reflexivity.
  Qed.
End Reduce.
