(* C01/ProofsChunk.v — chunked evaluation = whole-raster evaluation.
   Everything here is unbounded in the raster size, the chunking, the halo
   depth and the kernel radius. *)
Require Import Base.Prelude C01.Model.
Require Import Permutation.

Section Chunk.
  Context {T : Type}.
  Variable nan : T.
  Notation raster := (raster T).

  Definition inside (X : raster) (y x : Z) : Prop := 0 <= y < rows X /\ 0 <= x < cols X.

  (* cell-for-cell equality of two rasters *)
  Definition req (A B : raster) : Prop :=
    rows A = rows B /\ cols A = cols B /\ forall y x, inside A y x -> get A y x = get B y x.

  (* F's output at a cell is a fixed function f of the NaN-extended
     (2ry+1) x (2rx+1) window around the cell — f does not see the position,
     the raster size, or anything outside the window. *)
  Definition LocalNaN (F : raster -> raster) (ry rx : Z) : Prop :=
    (forall X, rows (F X) = rows X /\ cols (F X) = cols X) /\
    exists f : (Z -> Z -> T) -> T,
      (forall w w', (forall a b, - ry <= a <= ry -> - rx <= b <= rx -> w a b = w' a b) -> f w = f w') /\
      (forall X y x, inside X y x -> get (F X) y x = f (fun a b => ext nan X (y + a) (x + b))).

  Lemma inb_true X y x : inb X y x = true <-> inside X y x.
  Proof. unfold inb, inside. lia. Qed.
  Lemma inb_false X y x : inb X y x = false <-> ~ inside X y x.
  Proof. unfold inb, inside. lia. Qed.
  Lemma ext_inside X y x : inside X y x -> ext nan X y x = get X y x.
  Proof. intros H. unfold ext. apply inb_true in H. now rewrite H. Qed.
  Lemma ext_outside X y x : ~ inside X y x -> ext nan X y x = nan.
  Proof. intros H. unfold ext. apply inb_false in H. now rewrite H. Qed.

  Lemma req_refl A : req A A.
  Proof. repeat split; auto. Qed.
  Lemma req_sym A B : req A B -> req B A.
  Proof.
    intros (Hr & Hc & Hg). repeat split; auto.
    intros y x Hi. symmetry. apply Hg. unfold inside in *. lia.
  Qed.
  Lemma req_trans A B C : req A B -> req B C -> req A C.
  Proof.
    intros (Hr & Hc & Hg) (Hr' & Hc' & Hg'). repeat split; try congruence.
    intros y x Hi. rewrite Hg by assumption. apply Hg'. unfold inside in *. lia.
  Qed.
  Lemma req_ext A B : req A B -> forall y x, ext nan A y x = ext nan B y x.
  Proof.
    intros (Hr & Hc & Hg) y x. unfold ext.
    destruct (inb A y x) eqn:E.
    - assert (E' : inb B y x = true) by (unfold inb in *; lia).
      rewrite E'. apply Hg. now apply inb_true.
    - assert (E' : inb B y x = false) by (unfold inb in *; lia).
      now rewrite E'.
  Qed.

  (* a local function respects cell-for-cell equality *)
  Lemma LocalNaN_req F ry rx : LocalNaN F ry rx -> forall A B, req A B -> req (F A) (F B).
  Proof.
    intros (Hd & f & Hloc & Hf) A B HAB.
    destruct (Hd A) as (HrA & HcA). destruct (Hd B) as (HrB & HcB).
    pose proof HAB as (Hr & Hc & _).
    repeat split; try congruence.
    intros y x Hi.
    assert (HiA : inside A y x) by (unfold inside in *; lia).
    assert (HiB : inside B y x) by (unfold inside in *; lia).
    rewrite (Hf A y x HiA), (Hf B y x HiB).
    apply Hloc. intros a b _ _. now apply req_ext.
  Qed.

  (* ---- chunk spans ------------------------------------------------------ *)
  Lemma sumP_nonneg cs : 0 <= sumP cs.
  Proof. induction cs as [|c r IH]; cbn [sumP]; lia. Qed.

  Lemma spans_In s cs b :
    In b (spans s cs) -> s <= fst b /\ 0 < snd b /\ fst b + snd b <= s + sumP cs.
  Proof.
    revert s. induction cs as [|c r IH]; intros s Hin; cbn [spans sumP In] in *; [contradiction|].
    pose proof (sumP_nonneg r).
    destruct Hin as [<-|Hin]; cbn [fst snd]; [lia|].
    specialize (IH _ Hin). lia.
  Qed.

  Lemma spans_nonempty s cs : 0 < sumP cs -> exists b l, spans s cs = b :: l.
  Proof. destruct cs; cbn [sumP spans]; [lia|eauto]. Qed.

  Lemma hcat_all_spans (g : Z * Z -> raster) cs s :
    (forall b, In b (spans s cs) -> cols (g b) = snd b) ->
    cols (hcat_all nan (map g (spans s cs))) = sumP cs /\
    forall y x, 0 <= x < sumP cs ->
      exists b, In b (spans s cs) /\ fst b <= s + x < fst b + snd b /\
        get (hcat_all nan (map g (spans s cs))) y x = get (g b) y (s + x - fst b).
  Proof.
    revert s. induction cs as [|c r IH]; intros s Hc.
    - simpl. split; [reflexivity|]. intros; lia.
    - cbn [spans map hcat_all fold_right sumP].
      assert (Hc0 : cols (g (s, Zpos c)) = Zpos c) by (apply (Hc (s, Zpos c)); simpl; auto).
      destruct (IH (s + Zpos c)) as (IHc & IHg).
      { intros b Hb. apply Hc. simpl. auto. }
      fold (hcat_all nan (map g (spans (s + Z.pos c) r))).
      split.
      + cbn [hcat cols]. rewrite Hc0, IHc. reflexivity.
      + intros y x Hx. cbn [hcat get]. rewrite Hc0.
        destruct (x <? Z.pos c) eqn:E.
        * exists (s, Zpos c). simpl. split; [auto|]. split; [lia|].
          f_equal. lia.
        * destruct (IHg y (x - Zpos c)) as (b & Hb & Hr & Hgb); [lia|].
          exists b. split; [simpl; auto|]. split; [lia|].
          rewrite Hgb. f_equal. lia.
  Qed.

  Lemma vcat_all_spans (g : Z * Z -> raster) cs s :
    (forall b, In b (spans s cs) -> rows (g b) = snd b) ->
    rows (vcat_all nan (map g (spans s cs))) = sumP cs /\
    forall y x, 0 <= y < sumP cs ->
      exists b, In b (spans s cs) /\ fst b <= s + y < fst b + snd b /\
        get (vcat_all nan (map g (spans s cs))) y x = get (g b) (s + y - fst b) x.
  Proof.
    revert s. induction cs as [|c r IH]; intros s Hc.
    - simpl. split; [reflexivity|]. intros; lia.
    - cbn [spans map vcat_all fold_right sumP].
      assert (Hc0 : rows (g (s, Zpos c)) = Zpos c) by (apply (Hc (s, Zpos c)); simpl; auto).
      destruct (IH (s + Zpos c)) as (IHc & IHg).
      { intros b Hb. apply Hc. simpl. auto. }
      fold (vcat_all nan (map g (spans (s + Z.pos c) r))).
      split.
      + cbn [vcat rows]. rewrite Hc0, IHc. reflexivity.
      + intros y x Hy. cbn [vcat get]. rewrite Hc0.
        destruct (y <? Z.pos c) eqn:E.
        * exists (s, Zpos c). simpl. split; [auto|]. split; [lia|].
          f_equal. lia.
        * destruct (IHg (y - Zpos c) x) as (b & Hb & Hr & Hgb); [lia|].
          exists b. split; [simpl; auto|]. split; [lia|].
          rewrite Hgb. f_equal. lia.
  Qed.

  (* assembling tiles that agree with R on their own span gives R *)
  Lemma tile_assemble (tile : Z * Z -> Z * Z -> raster) cy cx (R : raster) :
    0 < sumP cy -> 0 < sumP cx -> rows R = sumP cy -> cols R = sumP cx ->
    (forall by_ bx, In by_ (spans 0 cy) -> In bx (spans 0 cx) ->
       rows (tile by_ bx) = snd by_ /\ cols (tile by_ bx) = snd bx /\
       forall y x, fst by_ <= y < fst by_ + snd by_ -> fst bx <= x < fst bx + snd bx ->
                   get (tile by_ bx) (y - fst by_) (x - fst bx) = get R y x) ->
    req (vcat_all nan (map (fun by_ => hcat_all nan (map (tile by_) (spans 0 cx))) (spans 0 cy))) R.
  Proof.
    intros Hpy Hpx HrR HcR Htile.
    set (g := fun by_ => hcat_all nan (map (tile by_) (spans 0 cx))).
    assert (Hgc : forall by_, In by_ (spans 0 cy) ->
              cols (g by_) = sumP cx /\ rows (g by_) = snd by_ /\
              forall y x, 0 <= x < sumP cx -> exists bx, In bx (spans 0 cx) /\
                 fst bx <= x < fst bx + snd bx /\ get (g by_) y x = get (tile by_ bx) y (x - fst bx)).
    { intros by_ Hby. unfold g.
      destruct (hcat_all_spans (tile by_) cx 0) as (Hc & Hg).
      { intros b Hb. now apply Htile. }
      split; [exact Hc|]. split.
      - destruct (spans_nonempty 0 cx Hpx) as (b & l & E).
        rewrite E. cbn [map hcat_all fold_right hcat rows].
        apply Htile; [assumption|]. rewrite E. simpl. auto.
      - intros y x Hx. destruct (Hg y x Hx) as (bx & Hbx & Hr & Hgb).
        exists bx. split; [assumption|]. split; [lia|].
        rewrite Hgb. f_equal. }
    destruct (vcat_all_spans g cy 0) as (Hrows & Hget).
    { intros b Hb. now apply Hgc. }
    fold g.
    assert (Hcols : cols (vcat_all nan (map g (spans 0 cy))) = sumP cx).
    { destruct (spans_nonempty 0 cy Hpy) as (b & l & E).
      rewrite E. cbn [map vcat_all fold_right vcat cols].
      apply Hgc. rewrite E. simpl. auto. }
    split; [congruence|]. split; [congruence|].
    intros y x (Hy & Hx). rewrite Hrows in Hy. rewrite Hcols in Hx.
    destruct (Hget y x Hy) as (by_ & Hby & Hry & Hgy). rewrite Hgy.
    destruct (Hgc by_ Hby) as (_ & _ & Hgx).
    destruct (Hgx (0 + y - fst by_) x Hx) as (bx & Hbx & Hrx & Hgbx). rewrite Hgbx.
    destruct (Htile by_ bx Hby Hbx) as (_ & _ & Ht).
    replace (0 + y - fst by_) with (y - fst by_) by lia.
    apply Ht; lia.
  Qed.

  (* ---- one tile of map_overlap ----------------------------------------- *)
  Lemma overlap_cell F ry rx dy dx :
    LocalNaN F ry rx -> 0 <= ry <= dy -> 0 <= rx <= dx ->
    forall X by_ bx y x,
      0 <= fst by_ -> fst by_ + snd by_ <= rows X ->
      0 <= fst bx -> fst bx + snd bx <= cols X ->
      fst by_ <= y < fst by_ + snd by_ -> fst bx <= x < fst bx + snd bx ->
      get (trim dy dx (F (pad_nan nan dy dx X by_ bx))) (y - fst by_) (x - fst bx) = get (F X) y x.
  Proof.
    intros (Hd & f & Hloc & Hf) Hry Hrx X [y0 h] [x0 w] y x; cbn [fst snd].
    intros Hy0 Hyh Hx0 Hxw Hy Hx.
    set (P := pad_nan nan dy dx X (y0, h) (x0, w)).
    cbn [trim get].
    assert (HiP : inside P (y - y0 + dy) (x - x0 + dx)).
    { unfold inside, P, pad_nan; cbn [rows cols fst snd]. lia. }
    assert (HiX : inside X y x) by (unfold inside; lia).
    rewrite (Hf P _ _ HiP), (Hf X _ _ HiX).
    apply Hloc. intros a b Ha Hb.
    rewrite ext_inside.
    - unfold P, pad_nan; cbn [get fst snd]. f_equal; lia.
    - unfold inside, P, pad_nan; cbn [rows cols fst snd]. lia.
  Qed.

  (* MAIN THEOREM: map_overlap with a NaN halo at least as deep as the kernel
     radius equals the whole-raster kernel, for every chunking. *)
  Theorem map_overlap_whole F ry rx dy dx :
    LocalNaN F ry rx -> 0 <= ry <= dy -> 0 <= rx <= dx ->
    forall (X : raster) (cy cx : list positive),
      sumP cy = rows X -> sumP cx = cols X -> 0 < rows X -> 0 < cols X ->
      req (map_overlap nan F dy dx cy cx X) (F X).
  Proof.
    intros HL Hry Hrx X cy cx Hcy Hcx Hr Hc.
    pose proof HL as (Hd & _).
    unfold map_overlap.
    apply tile_assemble; [lia|lia|destruct (Hd X); lia|destruct (Hd X); lia|].
    - intros by_ bx Hby Hbx.
      pose proof (spans_In _ _ _ Hby) as (Hy1 & Hy2 & Hy3).
      pose proof (spans_In _ _ _ Hbx) as (Hx1 & Hx2 & Hx3).
      split; [|split].
      + cbn [trim rows]. destruct (Hd (pad_nan nan dy dx X by_ bx)) as (E & _).
        rewrite E. cbn [pad_nan rows]. lia.
      + cbn [trim cols]. destruct (Hd (pad_nan nan dy dx X by_ bx)) as (_ & E).
        rewrite E. cbn [pad_nan cols]. lia.
      + intros y x Hy Hx. eapply overlap_cell; eauto; lia.
  Qed.

  (* radius 0: map_blocks (no halo at all) *)
  Theorem map_blocks_whole F :
    LocalNaN F 0 0 ->
    forall (X : raster) (cy cx : list positive),
      sumP cy = rows X -> sumP cx = cols X -> 0 < rows X -> 0 < cols X ->
      req (map_blocks nan F cy cx X) (F X).
  Proof.
    intros HL X cy cx Hcy Hcx Hr Hc.
    pose proof HL as (Hd & f & Hloc & Hf).
    unfold map_blocks.
    apply tile_assemble; [lia|lia|destruct (Hd X); lia|destruct (Hd X); lia|].
    - intros by_ bx Hby Hbx.
      pose proof (spans_In _ _ _ Hby) as (Hy1 & Hy2 & Hy3).
      pose proof (spans_In _ _ _ Hbx) as (Hx1 & Hx2 & Hx3).
      destruct (Hd (block X by_ bx)) as (Er & Ec).
      split; [|split].
      + rewrite Er. reflexivity.
      + rewrite Ec. reflexivity.
      + intros y x Hy Hx.
        assert (HiB : inside (block X by_ bx) (y - fst by_) (x - fst bx)).
        { unfold inside, block; cbn [rows cols]. lia. }
        assert (HiX : inside X y x) by (unfold inside; lia).
        rewrite (Hf _ _ _ HiB), (Hf X _ _ HiX).
        apply Hloc. intros a b Ha Hb.
        assert (a = 0) by lia. assert (b = 0) by lia. subst a b.
        rewrite !Z.add_0_r.
        rewrite (ext_inside _ _ _ HiB), (ext_inside _ _ _ HiX).
        unfold block; cbn [get]. f_equal; lia.
  Qed.

  (* focal.mean(passes = n): every pass is a map_overlap of the same kernel *)
  Lemma rows_cols_iter (G : raster -> raster) :
    (forall X, rows (G X) = rows X /\ cols (G X) = cols X) ->
    forall n X, rows (iter n G X) = rows X /\ cols (iter n G X) = cols X.
  Proof.
    intros HG n. induction n as [|n IH]; intros X; simpl; [auto|].
    destruct (IH (G X)) as (E1 & E2). destruct (HG X). split; congruence.
  Qed.

  Theorem iterate_overlap_whole F ry rx dy dx :
    LocalNaN F ry rx -> 0 <= ry <= dy -> 0 <= rx <= dx ->
    forall (passes : nat) (X : raster) (cy cx : list positive),
      sumP cy = rows X -> sumP cx = cols X -> 0 < rows X -> 0 < cols X ->
      req (iter passes (map_overlap nan F dy dx cy cx) X) (iter passes F X).
  Proof.
    intros HL Hry Hrx passes.
    pose proof HL as (Hd & _).
    (* generalise: start the two iterations from req-equal rasters *)
    assert (Hgen : forall (n : nat) (A B : raster) cy cx,
               req A B -> sumP cy = rows A -> sumP cx = cols A -> 0 < rows A -> 0 < cols A ->
               req (iter n (map_overlap nan F dy dx cy cx) A) (iter n F B)).
    { induction n as [|n IH]; intros A B cy cx HAB Hcy Hcx Hr Hc; simpl; [assumption|].
      pose proof (map_overlap_whole F ry rx dy dx HL Hry Hrx A cy cx Hcy Hcx Hr Hc) as Hstep.
      pose proof Hstep as (E1 & E2 & _).
      destruct (Hd A) as (E3 & E4).
      apply IH; try lia.
      eapply req_trans; [exact Hstep|]. eapply LocalNaN_req; eauto. }
    intros X cy cx Hcy Hcx Hr Hc. apply Hgen; auto using req_refl.
  Qed.
End Chunk.
