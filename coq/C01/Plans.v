(* C01/Plans.v — proof obligations over the GENERATED description of the
   Dask plans in the source (Generated.v is rewritten from /repo on every run):
   every map_overlap halo is at least as deep as the radius of the kernel it
   maps, in (rows, cols) order and for every kernel shape; the halo is NaN;
   no mapped kernel reduces over its block; the NumPy backend runs the same
   kernel; the global reductions are taken at plan level on the whole array.
   An edit like depth=(pad_w, pad_h), depth=(0, 1), boundary=0 or moving
   np.nanmin into the mapped function, or a layer name= whose token leaves out
   an argument, makes this file fail to compile. *)
Require Import Base.Prelude C01.Model C01.ProofsChunk C01.Generated.
Require Import Coq.Strings.String.

(* an explicit layer name must be a function of EVERY argument of the mapped call:
   two lazy results with the same name share their task keys, and computing them
   together silently gives one of them the other's blocks *)
Definition name_ok (n : taskname) : Prop :=
  match n with NameAuto => True | NameToken u => u = [] | NameFixed => False end.

Definition plan_ok (p : plan) : Prop :=
  p_block_reductions p = [] /\ p_same_kernel p = true /\ name_ok (p_name p) /\
  match p_kind p with
  | MapOverlap =>
      p_boundary p = BNaN /\
      forall kr kc, 0 <= kr -> 0 <= kc ->
        0 <= fst (p_radius p kr kc) <= fst (p_depth p kr kc) /\
        0 <= snd (p_radius p kr kc) <= snd (p_depth p kr kc)
  | MapBlocks => forall kr kc, 0 <= kr -> 0 <= kc -> p_radius p kr kc = (0, 0)
  end.

Ltac solve_plan :=
  unfold plan_ok;
  cbn [p_block_reductions p_same_kernel p_kind p_boundary p_radius p_depth p_name name_ok];
  split; [reflexivity|]; split; [reflexivity|]; split; [first [exact I | reflexivity]|];
  first [ split; [reflexivity|]; intros kr kc Hkr Hkc; cbn [fst snd]; lia
        | intros kr kc Hkr Hkc; f_equal; lia ].

Theorem all_plans_ok : Forall plan_ok plans.
Proof.
  unfold plans.
  repeat (first [apply Forall_nil | apply Forall_cons; [solve_plan|]]).
Qed.

(* the generated depth/boundary of a plan, plugged into the main theorem *)
Theorem plan_overlap_sound (p : plan) :
  plan_ok p -> p_kind p = MapOverlap ->
  forall (T : Type) (nan : T) (F : raster T -> raster T) kr kc,
    0 <= kr -> 0 <= kc ->
    LocalNaN nan F (fst (p_radius p kr kc)) (snd (p_radius p kr kc)) ->
    forall (X : raster T) (cy cx : list positive),
      sumP cy = rows X -> sumP cx = cols X -> 0 < rows X -> 0 < cols X ->
      req (map_overlap nan F (fst (p_depth p kr kc)) (snd (p_depth p kr kc)) cy cx X) (F X).
Proof.
  intros (_ & _ & _ & Hk) Hkind T nan F kr kc Hkr Hkc HL X cy cx Hcy Hcx Hr Hc.
  rewrite Hkind in Hk. destruct Hk as (_ & Hd). destruct (Hd kr kc Hkr Hkc) as (H1 & H2).
  eapply map_overlap_whole; eauto.
Qed.

Theorem plan_blocks_sound (p : plan) :
  plan_ok p -> p_kind p = MapBlocks ->
  forall (T : Type) (nan : T) (F : raster T -> raster T) kr kc,
    0 <= kr -> 0 <= kc ->
    LocalNaN nan F (fst (p_radius p kr kc)) (snd (p_radius p kr kc)) ->
    forall (X : raster T) (cy cx : list positive),
      sumP cy = rows X -> sumP cx = cols X -> 0 < rows X -> 0 < cols X ->
      req (map_blocks nan F cy cx X) (F X).
Proof.
  intros (_ & _ & _ & Hk) Hkind T nan F kr kc Hkr Hkc HL X cy cx Hcy Hcx Hr Hc.
  rewrite Hkind in Hk. rewrite (Hk kr kc Hkr Hkc) in HL. cbn [fst snd] in HL.
  now apply map_blocks_whole.
Qed.

(* global reductions that feed a per-cell stage must be present at plan level *)
Definition eq3 (a b : string * string * string) : bool :=
  let '(a1, a2, a3) := a in let '(b1, b2, b3) := b in
  (String.eqb a1 b1 && String.eqb a2 b2 && String.eqb a3 b3)%bool.
Definition required_global : list (string * string * string) :=
  [ ("focal.py:_hotspots_dask_numpy", "da.nanmean", "data")
  ; ("focal.py:_hotspots_dask_numpy", "da.nanstd", "data")
  ; ("multispectral.py:_normalize_data_dask", "da.nanmin", "data")
  ; ("multispectral.py:_normalize_data_dask", "da.nanmax", "data")
  ; ("perlin.py:_perlin_dask_numpy", "da.min", "data")
  ; ("perlin.py:_perlin_dask_numpy", "da.ptp", "data")
  ; ("terrain.py:_terrain_dask_numpy", "np.min", "data")
  ; ("terrain.py:_terrain_dask_numpy", "np.ptp", "data")
  ; ("classify.py:_run_equal_interval", "module.nanmin", "data")
  ; ("classify.py:_run_equal_interval", "module.nanmax", "data") ]%string.
Theorem global_reductions_at_plan_level :
  forallb (fun r => existsb (eq3 r) global_reductions) required_global = true.
Proof. vm_compute. reflexivity. Qed.

(* the anchored public functions all have their plan in the generated list *)
Definition required_sites : list string :=
  [ "slope.py:_run_dask_numpy"; "aspect.py:_run_dask_numpy"; "curvature.py:_run_dask_numpy"
  ; "hillshade.py:_run_dask_numpy"; "convolution.py:_convolve_2d_dask_numpy"
  ; "focal.py:_mean_dask_numpy"; "focal.py:_apply_dask_numpy"; "focal.py:_hotspots_dask_numpy"
  ; "classify.py:_run_dask_numpy_binary"; "classify.py:_run_dask_numpy_bin"
  ; "multispectral.py:_arvi_dask"; "multispectral.py:_evi_dask"; "multispectral.py:_gci_dask"
  ; "multispectral.py:_run_normalized_ratio_dask"; "multispectral.py:_savi_dask"
  ; "multispectral.py:_sipi_dask"; "multispectral.py:_ebbi_dask"
  ; "multispectral.py:_normalize_data_dask"; "perlin.py:_perlin_dask_numpy"
  ; "terrain.py:_terrain_dask_numpy" ]%string.
Theorem required_sites_present :
  forallb (fun s => existsb (fun p => String.eqb s (p_site p)) plans) required_sites = true.
Proof. vm_compute. reflexivity. Qed.

(* ---- coordinate-ramp plans (perlin, generate_terrain) ----------------------
   The Dask plan maps the per-cell kernel over the blocks of
   meshgrid(linx, liny).  Obligation: each coordinate argument is fed, on the
   Dask path, by the SAME linspace (start, stop, num, endpoint, dtype, factor)
   as on the NumPy path; the first coordinate varies along the columns with
   num = cols, the second along the rows with num = rows; endpoint=False (the
   rule ProofsRamp.coord_blocks_whole models).  Feeding liny from the x range
   (or with the other axis' length, or another endpoint rule) breaks this. *)
Definition ramp_eqb (a b : ramp) : bool :=
  ((r_axis a =? r_axis b) && String.eqb (r_start a) (r_start b) && String.eqb (r_stop a) (r_stop b)
   && String.eqb (r_num a) (r_num b) && Bool.eqb (r_endpoint a) (r_endpoint b)
   && String.eqb (r_dtype a) (r_dtype b) && String.eqb (r_mult a) (r_mult b))%bool.
Definition coord_ok (cp : coordplan) : bool :=
  (ramp_eqb (cp_dask_x cp) (cp_numpy_x cp) && ramp_eqb (cp_dask_y cp) (cp_numpy_y cp)
   && (r_axis (cp_dask_x cp) =? 1) && (r_axis (cp_dask_y cp) =? 0)
   && String.eqb (r_num (cp_dask_x cp)) "cols" && String.eqb (r_num (cp_dask_y cp)) "rows"
   && negb (r_endpoint (cp_dask_x cp)) && negb (r_endpoint (cp_dask_y cp)))%bool.
Definition required_coord_sites : list string :=
  [ "perlin.py:_perlin_dask_numpy"; "terrain.py:_terrain_dask_numpy" ]%string.
Theorem ramps_match_numpy_plan :
  forallb coord_ok coord_plans = true /\
  forallb (fun s => existsb (fun cp => String.eqb s (cp_site cp)) coord_plans) required_coord_sites = true /\
  (* every coordinate plan is one of the map_blocks plans checked by all_plans_ok *)
  forallb (fun cp => existsb (fun p => String.eqb (cp_site cp) (p_site p)) plans) coord_plans = true.
Proof. vm_compute. repeat split; reflexivity. Qed.
