(* C01/ProofsRamp.v — the coordinate-ramp plans of perlin / generate_terrain:
   the blocks of linspace(a, b, n, endpoint=False) chunked by ANY composition,
   built the way da.linspace builds them (running block start), are the slices
   of the whole linspace; hence map_blocks of any per-cell function of the two
   coordinates over the chunked meshgrid equals the whole-array evaluation. *)
Require Import Base.Prelude C01.Model C01.ProofsChunk.

Section Ramp.
  Context {T : Type}.
  Variable nan : T.
  Variable add : T -> T -> T.
  Variable scale : Z -> T -> T.
  (* exact arithmetic: Z, Q, R satisfy these; IEEE floats only up to rounding *)
  Hypothesis add_assoc : forall a b c, add (add a b) c = add a (add b c).
  Hypothesis scale_add : forall i j st, scale (i + j) st = add (scale i st) (scale j st).
  Hypothesis ramp_0 : forall a st, add a (scale 0 st) = a.
  Notation ramp := (ramp add scale).
  Notation block_starts := (block_starts add scale).

  Lemma ramp_ramp a st s j : ramp (ramp a st s) st j = ramp a st (s + j).
  Proof. unfold Model.ramp. now rewrite add_assoc, <- scale_add. Qed.

  (* da.linspace's running block starts are the whole ramp at the chunk offsets *)
  Lemma block_starts_spans a st cs s :
    combine (spans s cs) (block_starts (ramp a st s) st cs)
    = map (fun b => (b, ramp a st (fst b))) (spans s cs).
  Proof.
    revert s. induction cs as [|c r IH]; intros s; cbn [spans Model.block_starts combine map]; [reflexivity|].
    cbn [fst]. f_equal.
    replace (add (ramp a st s) (scale (Z.pos c) st)) with (ramp a st (s + Z.pos c)).
    - apply IH.
    - unfold Model.ramp. now rewrite add_assoc, <- scale_add.
  Qed.

  (* every chunk of the chunked linspace is the corresponding slice of the whole *)
  Theorem linspace_blocks_are_slices a st cs :
    Forall (fun bs : (Z * Z) * T => forall i, ramp (snd bs) st i = ramp a st (fst (fst bs) + i))
           (combine (spans 0 cs) (block_starts a st cs)).
  Proof.
    assert (E : block_starts a st cs = block_starts (ramp a st 0) st cs)
      by (unfold Model.ramp; now rewrite ramp_0).
    rewrite E, block_starts_spans. apply Forall_forall. intros bs Hin.
    apply in_map_iff in Hin. destruct Hin as (b & <- & _). cbn [fst snd].
    intros i. apply ramp_ramp.
  Qed.

  Theorem coord_blocks_whole (g : T -> T -> T) ax stx ay sty (cy cx : list positive) H W :
    sumP cy = H -> sumP cx = W -> 0 < H -> 0 < W ->
    req (coord_blocks nan add scale g ax stx ay sty cy cx) (coord_whole add scale g ax stx ay sty H W).
  Proof.
    intros Hcy Hcx HH HW. unfold coord_blocks.
    assert (Ex : block_starts ax stx cx = block_starts (ramp ax stx 0) stx cx)
      by (unfold Model.ramp; now rewrite ramp_0).
    assert (Ey : block_starts ay sty cy = block_starts (ramp ay sty 0) sty cy)
      by (unfold Model.ramp; now rewrite ramp_0).
    rewrite Ex, Ey, !block_starts_spans. rewrite map_map.
    erewrite map_ext; [|intros by_; rewrite map_map; reflexivity].
    apply (tile_assemble nan
             (fun by_ bx => coord_tile add scale g stx sty (by_, ramp ay sty (fst by_)) (bx, ramp ax stx (fst bx)))
             cy cx (coord_whole add scale g ax stx ay sty H W)); cbn [coord_whole rows cols]; try lia.
    intros by_ bx _ _. cbn [coord_tile coord_whole rows cols get fst snd].
    split; [reflexivity|]. split; [reflexivity|].
    intros y x Hy Hx. rewrite !ramp_ramp. f_equal; f_equal; lia.
  Qed.
End Ramp.

(* the executable instance: integer numerators *)
Lemma zramp_chunked ax stx ay sty cy cx :
  0 < sumP cy -> 0 < sumP cx ->
  req (coord_blocks 0 Z.add Z.mul (fun x y => x * 1000003 + y) ax stx ay sty cy cx)
      (coord_whole Z.add Z.mul (fun x y => x * 1000003 + y) ax stx ay sty (sumP cy) (sumP cx)).
Proof.
  intros Hy Hx. apply coord_blocks_whole; auto; intros; lia.
Qed.
