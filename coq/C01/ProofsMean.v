(* C01/ProofsMean.v — focal._mean_numpy (np.nanmean of the 3x3 window CLIPPED
   to the raster; excluded cells copied) is LocalNaN 1 1: clipping the window
   and NaN-extending it give the same non-NaN values in the same order. *)
Require Import Base.Prelude C01.Model C01.ProofsChunk C01.ProofsKernels.

Lemma zrange_cons lo hi : lo < hi -> zrange lo hi = lo :: zrange (lo + 1) hi.
Proof.
  intros H. unfold zrange.
  replace (Z.to_nat (hi - lo)) with (S (Z.to_nat (hi - (lo + 1)))) by lia.
  reflexivity.
Qed.
Lemma zrange_nil lo hi : hi <= lo -> zrange lo hi = [].
Proof. intros H. unfold zrange. replace (Z.to_nat (hi - lo)) with O by lia. reflexivity. Qed.

Lemma map_as_flat_map {A B} (g : A -> B) l : map g l = flat_map (fun x => [g x]) l.
Proof. induction l as [|a l IH]; simpl; [reflexivity|]. now rewrite IH. Qed.

Section Mean.
  Context {T : Type}.
  Variable nan : T.
  Variable isnan : T -> bool.
  Variable excl : T -> bool.
  Variable reduce : list T -> T.
  Hypothesis isnan_nan : isnan nan = true.
  Notation nn := (fun v : T => negb (isnan v)).

  (* one axis: the clipped index range and the full offsets -1,0,1 give the
     same filtered concatenation *)
  Lemma clip3 (n x : Z) (G G' : Z -> list T) :
    0 <= x < n ->
    (forall a, - 1 <= a <= 1 -> 0 <= x + a < n -> filter nn (G (x + a)) = filter nn (G' a)) ->
    (forall a, - 1 <= a <= 1 -> ~ 0 <= x + a < n -> filter nn (G' a) = []) ->
    filter nn (flat_map G (zrange (Z.max (x - 1) 0) (Z.min (x + 2) n)))
    = filter nn (flat_map G' [-1; 0; 1]).
  Proof.
    intros Hx Hin Hout.
    cbn [flat_map]. rewrite !filter_app. cbn [filter]. rewrite app_nil_r.
    assert (H0 : filter nn (G x) = filter nn (G' 0)).
    { replace x with (x + 0) at 1 by lia. apply Hin; lia. }
    destruct (Z.eq_dec x 0) as [E0|E0]; destruct (Z.eq_dec x (n - 1)) as [E1|E1].
    - (* n = 1 *)
      rewrite (Z.max_r (x - 1) 0), (Z.min_r (x + 2) n) by lia.
      rewrite (zrange_cons 0 n) by lia. rewrite (zrange_nil (0 + 1) n) by lia.
      cbn [flat_map]. rewrite app_nil_r.
      rewrite (Hout (-1)), (Hout 1) by lia. rewrite app_nil_r. cbn [app].
      rewrite <- H0. now rewrite E0.
    - rewrite (Z.max_r (x - 1) 0), (Z.min_l (x + 2) n) by lia.
      rewrite (zrange_cons 0 (x + 2)) by lia. rewrite (zrange_cons (0 + 1) (x + 2)) by lia.
      rewrite (zrange_nil (0 + 1 + 1) (x + 2)) by lia.
      cbn [flat_map]. rewrite app_nil_r, filter_app.
      rewrite (Hout (-1)) by lia. cbn [app].
      rewrite <- H0, <- (Hin 1) by lia. rewrite E0. reflexivity.
    - rewrite (Z.max_l (x - 1) 0), (Z.min_r (x + 2) n) by lia.
      rewrite (zrange_cons (x - 1) n) by lia. rewrite (zrange_cons (x - 1 + 1) n) by lia.
      rewrite (zrange_nil (x - 1 + 1 + 1) n) by lia.
      cbn [flat_map]. rewrite app_nil_r, filter_app.
      rewrite (Hout 1) by lia. rewrite app_nil_r.
      rewrite <- H0, <- (Hin (-1)) by lia.
      replace (x - 1 + 1) with x by lia. replace (x + -1) with (x - 1) by lia. reflexivity.
    - rewrite (Z.max_l (x - 1) 0), (Z.min_l (x + 2) n) by lia.
      rewrite (zrange_cons (x - 1) (x + 2)) by lia. rewrite (zrange_cons (x - 1 + 1) (x + 2)) by lia.
      rewrite (zrange_cons (x - 1 + 1 + 1) (x + 2)) by lia.
      rewrite (zrange_nil (x - 1 + 1 + 1 + 1) (x + 2)) by lia.
      cbn [flat_map]. rewrite app_nil_r, !filter_app.
      rewrite <- H0, <- (Hin (-1)), <- (Hin 1) by lia.
      replace (x - 1 + 1) with x by lia. replace (x + -1) with (x - 1) by lia. reflexivity.
  Qed.

  Definition mean_f (w : Z -> Z -> T) : T :=
    if excl (w 0 0) then w 0 0
    else reduce (filter nn (flat_map (fun a => flat_map (fun b => [w a b]) [-1; 0; 1]) [-1; 0; 1])).

  Lemma mean3_local : LocalNaN nan (mean3 isnan excl reduce) 1 1.
  Proof.
    split; [intros X; split; reflexivity|].
    exists mean_f. split.
    - intros w w' H. unfold mean_f. cbn [flat_map app].
      rewrite !H by lia. reflexivity.
    - intros X y x (Hy & Hx). cbn [mean3 get]. unfold mean_cell, mean_f.
      rewrite !Z.add_0_r.
      rewrite (ext_inside nan X y x) by (unfold inside; lia).
      destruct (excl (get X y x)); [reflexivity|].
      unfold nanmean. f_equal.
      apply (clip3 (rows X) y
               (fun yy => map (get X yy) (zrange (Z.max (x - 1) 0) (Z.min (x + 2) (cols X))))
               (fun a => flat_map (fun b => [ext nan X (y + a) (x + b)]) [-1; 0; 1])); [lia| |].
      + intros a Ha Hya. rewrite map_as_flat_map.
        apply (clip3 (cols X) x (fun xx => [get X (y + a) xx]) (fun b => [ext nan X (y + a) (x + b)])); [lia| |].
        * intros b Hb Hxb. rewrite ext_inside by (unfold inside; lia). reflexivity.
        * intros b Hb Hxb. rewrite ext_outside by (unfold inside; lia).
          cbn [filter]. now rewrite isnan_nan.
      + intros a Ha Hya. cbn [flat_map app].
        rewrite !ext_outside by (unfold inside; lia).
        cbn [filter]. now rewrite isnan_nan.
  Qed.
End Mean.

(* the executable instance (default excludes=[nan]) *)
Lemma xmean_part_local which : LocalNaN XVal.XNaN (xmean_part which) 1 1.
Proof. unfold xmean_part. apply mean3_local. reflexivity. Qed.
