(* C01/Props.v — the property theorems claimed for C01, nothing else. *)
Require Import Base.Prelude Base.XVal.
Require Import C01.Model C01.ProofsChunk C01.ProofsKernels C01.ProofsMean C01.ProofsReduce C01.ProofsHill C01.ProofsRamp C01.Generated C01.Plans.
Require Import Permutation.

(* map_overlap(F, depth=(dy,dx), boundary=nan) = F on the whole raster, cell for
   cell, for EVERY raster size, EVERY chunking (any composition of the rows times
   any composition of the columns: 1-cell chunks and chunks smaller than the
   kernel included), every halo depth >= the kernel radius per axis, and every
   kernel F that is a function of the NaN-extended (2ry+1)x(2rx+1) window. *)
Theorem C01_map_overlap_whole :
  forall (T : Type) (nan : T) (F : raster T -> raster T) (ry rx dy dx : Z),
    LocalNaN nan F ry rx -> 0 <= ry <= dy -> 0 <= rx <= dx ->
    forall (X : raster T) (cy cx : list positive),
      sumP cy = rows X -> sumP cx = cols X -> 0 < rows X -> 0 < cols X ->
      req (map_overlap nan F dy dx cy cx X) (F X).
Proof. exact @map_overlap_whole. Qed.
Print Assumptions C01_map_overlap_whole.

(* map_blocks (no halo) for per-cell kernels *)
Theorem C01_map_blocks_whole :
  forall (T : Type) (nan : T) (F : raster T -> raster T),
    LocalNaN nan F 0 0 ->
    forall (X : raster T) (cy cx : list positive),
      sumP cy = rows X -> sumP cx = cols X -> 0 < rows X -> 0 < cols X ->
      req (map_blocks nan F cy cx X) (F X).
Proof. exact @map_blocks_whole. Qed.
Print Assumptions C01_map_blocks_whole.

(* focal.mean(passes=n): n chunked passes = n whole-raster passes *)
Theorem C01_iterate_overlap_whole :
  forall (T : Type) (nan : T) (F : raster T -> raster T) (ry rx dy dx : Z),
    LocalNaN nan F ry rx -> 0 <= ry <= dy -> 0 <= rx <= dx ->
    forall (passes : nat) (X : raster T) (cy cx : list positive),
      sumP cy = rows X -> sumP cx = cols X -> 0 < rows X -> 0 < cols X ->
      req (iter passes (map_overlap nan F dy dx cy cx) X) (iter passes F X).
Proof. exact @iterate_overlap_whole. Qed.
Print Assumptions C01_iterate_overlap_whole.

(* the kernels as written in the source (loops ry..rows-ry-1 with a NaN frame;
   clipped windows) ARE functions of the NaN-extended window: *)
Theorem C01_stencil_local :
  forall (T : Type) (nan : T) (offs : list (Z * Z)) (g : list T -> T) (ry rx : Z),
    0 <= ry -> 0 <= rx ->
    (forall l, In nan l -> g l = nan) ->
    (forall o, In o offs -> - ry <= fst o <= ry /\ - rx <= snd o <= rx) ->
    (exists o, In o offs /\ fst o = - ry) -> (exists o, In o offs /\ fst o = ry) ->
    (exists o, In o offs /\ snd o = - rx) -> (exists o, In o offs /\ snd o = rx) ->
    LocalNaN nan (stencil nan offs g ry rx) ry rx.
Proof. exact @stencil_local. Qed.
Print Assumptions C01_stencil_local.

Theorem C01_conv_local :
  forall (T : Type) (nan zero : T) (add mul : T -> T -> T),
    (forall x, add nan x = nan) -> (forall x, add x nan = nan) -> (forall k, mul k nan = nan) ->
    forall (K : Z -> Z -> T) (nkx nky : Z), 0 <= nkx -> 0 <= nky ->
      LocalNaN nan (conv nan zero add mul K nkx nky) (nkx / 2) (nky / 2).
Proof. exact @conv_local. Qed.
Print Assumptions C01_conv_local.

Theorem C01_focal_apply_local :
  forall (T : Type) (nan : T) (K : Z -> Z -> bool) (krows kcols : Z) (func : list (list T) -> T),
    0 <= krows -> 0 <= kcols ->
    LocalNaN nan (focal_apply nan K krows kcols func) (krows / 2) (kcols / 2).
Proof. exact @focal_apply_local. Qed.
Print Assumptions C01_focal_apply_local.

Theorem C01_pointwise_local :
  forall (T : Type) (nan : T) (h : T -> T), LocalNaN nan (pointwise h) 0 0.
Proof. exact @pointwise_local. Qed.
Print Assumptions C01_pointwise_local.

(* ... and therefore, for the concrete executable kernels (the ones the
   correspondence runs against convolution_2d / curvature / focal.apply): *)
Theorem C01_xconv_chunked :
  forall (k : list (list xv)) (X : raster xv) (cy cx : list positive),
    sumP cy = rows X -> sumP cx = cols X -> 0 < rows X -> 0 < cols X ->
    req (map_overlap XNaN (xconv k) (lenZ k / 2) (lenZ (hd [] k) / 2) cy cx X) (xconv k X).
Proof.
  intros k X cy cx. apply (map_overlap_whole XNaN (xconv k) _ _ _ _ (xconv_local k)).
  - pose proof (lenZ_nonneg k). split; [apply Z.div_pos; lia|lia].
  - pose proof (lenZ_nonneg (hd [] k)). split; [apply Z.div_pos; lia|lia].
Qed.
Print Assumptions C01_xconv_chunked.

Theorem C01_xstencils_chunked :
  forall (X : raster xv) (cy cx : list positive),
    sumP cy = rows X -> sumP cx = cols X -> 0 < rows X -> 0 < cols X ->
    req (map_overlap XNaN xcurv 1 1 cy cx X) (xcurv X) /\
    req (map_overlap XNaN xhorn 1 1 cy cx X) (xhorn X).
Proof.
  intros X cy cx H1 H2 H3 H4. split.
  - apply (map_overlap_whole XNaN xcurv 1 1 1 1 xcurv_local); auto; lia.
  - apply (map_overlap_whole XNaN xhorn 1 1 1 1 xhorn_local); auto; lia.
Qed.
Print Assumptions C01_xstencils_chunked.

Theorem C01_xapply_chunked :
  forall (which : Z) (k : list (list xv)) (X : raster xv) (cy cx : list positive),
    sumP cy = rows X -> sumP cx = cols X -> 0 < rows X -> 0 < cols X ->
    req (map_overlap XNaN (xapply which k) (lenZ k / 2) (lenZ (hd [] k) / 2) cy cx X) (xapply which k X).
Proof.
  intros which k X cy cx. apply (map_overlap_whole XNaN (xapply which k) _ _ _ _ (xapply_local which k)).
  - pose proof (lenZ_nonneg k). split; [apply Z.div_pos; lia|lia].
  - pose proof (lenZ_nonneg (hd [] k)). split; [apply Z.div_pos; lia|lia].
Qed.
Print Assumptions C01_xapply_chunked.

(* focal._mean_numpy: np.nanmean over the 3x3 window clipped to the raster (excluded
   cells copied) is a function of the NaN-extended window, whatever [reduce] does
   with the non-NaN values in row-major order *)
Theorem C01_mean3_local :
  forall (T : Type) (nan : T) (isnan excl : T -> bool) (reduce : list T -> T),
    isnan nan = true -> LocalNaN nan (mean3 isnan excl reduce) 1 1.
Proof. exact @mean3_local. Qed.
Print Assumptions C01_mean3_local.

Theorem C01_xmean_passes_chunked :
  forall (which : Z) (passes : nat) (X : raster xv) (cy cx : list positive),
    sumP cy = rows X -> sumP cx = cols X -> 0 < rows X -> 0 < cols X ->
    req (iter passes (map_overlap XNaN (xmean_part which) 1 1 cy cx) X) (iter passes (xmean_part which) X).
Proof.
  intros which passes X cy cx.
  apply (iterate_overlap_whole XNaN (xmean_part which) 1 1 1 1 (xmean_part_local which)); lia.
Qed.
Print Assumptions C01_xmean_passes_chunked.

(* global reductions: the cells of the blocks of ANY chunking are a permutation of
   the cells of the raster; hence any associative-commutative reduction (min, max,
   exact sum) over the blocks equals the reduction over the whole array, flat or
   as Dask's per-block-then-combine tree *)
Theorem C01_blocks_cells_perm :
  forall (T : Type) (X : raster T) (cy cx : list positive),
    sumP cy = rows X -> sumP cx = cols X ->
    Permutation (flat_map cells (blocks cy cx X)) (cells X).
Proof. exact @blocks_cells_perm. Qed.
Print Assumptions C01_blocks_cells_perm.

Theorem C01_reduce_blocks :
  forall (T : Type) (op : T -> T -> T),
    (forall a b c, op a (op b c) = op (op a b) c) -> (forall a b, op a b = op b a) ->
    forall (X : raster T) (cy cx : list positive),
      sumP cy = rows X -> sumP cx = cols X ->
      (forall e, fold_right op e (flat_map cells (blocks cy cx X)) = fold_right op e (cells X)) /\
      (forall e, (forall a, op e a = a) ->
         fold_right op e (map (fun B => fold_right op e (cells B)) (blocks cy cx X)) = fold_right op e (cells X)).
Proof.
  intros T op Ha Hc X cy cx Hcy Hcx. split.
  - intros e. now apply reduce_blocks_flat.
  - intros e He. now apply reduce_blocks_tree.
Qed.
Print Assumptions C01_reduce_blocks.

(* non-vacuity of the reduction theorem: max and exact sum on a concrete chunking *)
Example C01_reduce_nonvacuous :
  let X := mkR 3 4 (fun y x => 10 * y + x) in
  let cy := [2; 1]%positive in let cx := [1; 3]%positive in
  sumP cy = rows X /\ sumP cx = cols X /\
  fold_right Z.add 0 (map (fun B => fold_right Z.add 0 (cells B)) (blocks cy cx X)) = 138 /\
  fold_right Z.add 0 (cells X) = 138 /\
  fold_right Z.max 0 (flat_map cells (blocks cy cx X)) = 23.
Proof. vm_compute. repeat split; reflexivity. Qed.

(* hillshade._run_numpy: np.gradient (central difference inside, one-sided on the
   edge rows/columns), per-cell shading, explicit NaN frame — is a function of the
   NaN-extended 3x3 window, for any arithmetic whose sub/half/shade absorb NaN *)
Theorem C01_hillshade_local :
  forall (T : Type) (nan : T) (sub : T -> T -> T) (half : T -> T) (shade : T -> T -> T),
    (forall a, sub nan a = nan) -> (forall a, sub a nan = nan) -> half nan = nan ->
    (forall b, shade nan b = nan) -> (forall a, shade a nan = nan) ->
    LocalNaN nan (hillshade_np nan sub half shade) 1 1.
Proof. exact @hillshade_local. Qed.
Print Assumptions C01_hillshade_local.

Theorem C01_xhill_chunked :
  forall (X : raster xv) (cy cx : list positive),
    sumP cy = rows X -> sumP cx = cols X -> 0 < rows X -> 0 < cols X ->
    req (map_overlap XNaN xhill 1 1 cy cx X) (xhill X).
Proof.
  intros X cy cx H1 H2 H3 H4.
  apply (map_overlap_whole XNaN xhill 1 1 1 1 xhill_local); auto; lia.
Qed.
Print Assumptions C01_xhill_chunked.

(* perlin / generate_terrain: da.linspace's chunks (running block start) are the
   slices of the whole linspace for EVERY chunking, in any exact arithmetic ... *)
Theorem C01_linspace_blocks_are_slices :
  forall (T : Type) (add : T -> T -> T) (scale : Z -> T -> T),
    (forall a b c, add (add a b) c = add a (add b c)) ->
    (forall i j st, scale (i + j) st = add (scale i st) (scale j st)) ->
    (forall a st, add a (scale 0 st) = a) ->
    forall (a st : T) (cs : list positive),
      Forall (fun bs : (Z * Z) * T =>
                forall i, Model.ramp add scale (snd bs) st i = Model.ramp add scale a st (fst (fst bs) + i))
             (combine (spans 0 cs) (block_starts add scale a st cs)).
Proof. exact @linspace_blocks_are_slices. Qed.
Print Assumptions C01_linspace_blocks_are_slices.

(* ... hence map_blocks of ANY per-cell function g(x, y) over the chunked
   meshgrid of the two ramps equals g over the whole coordinate arrays *)
Theorem C01_coord_blocks_whole :
  forall (T : Type) (nan : T) (add : T -> T -> T) (scale : Z -> T -> T),
    (forall a b c, add (add a b) c = add a (add b c)) ->
    (forall i j st, scale (i + j) st = add (scale i st) (scale j st)) ->
    (forall a st, add a (scale 0 st) = a) ->
    forall (g : T -> T -> T) (ax stx ay sty : T) (cy cx : list positive) (H W : Z),
      sumP cy = H -> sumP cx = W -> 0 < H -> 0 < W ->
      req (coord_blocks nan add scale g ax stx ay sty cy cx) (coord_whole add scale g ax stx ay sty H W).
Proof. exact @coord_blocks_whole. Qed.
Print Assumptions C01_coord_blocks_whole.

(* generated: on the Dask path each axis ramp is the NumPy path's ramp (same range,
   length and endpoint rule), x along the columns, y along the rows *)
Theorem C01_ramps_match_numpy_plan :
  forallb coord_ok coord_plans = true /\
  forallb (fun s => existsb (fun cp => String.eqb s (cp_site cp)) coord_plans) required_coord_sites = true /\
  forallb (fun cp => existsb (fun p => String.eqb (cp_site cp) (p_site p)) plans) coord_plans = true.
Proof. exact ramps_match_numpy_plan. Qed.
Print Assumptions C01_ramps_match_numpy_plan.

(* non-vacuity: np.gradient's edge rule really is one-sided in the model (the
   unframed gradient of a 3x3 ramp), and the chunked hillshade equals the whole *)
Example C01_hill_nonvacuous :
  let d := [ [XFin 0; XFin 2; XFin 8]; [XFin 4; XFin 10; XFin 6]; [XFin 2; XFin 2; XFin 20]; [XFin 0; XFin 6; XFin 4] ] in
  tabulate (grad_rows xsub xhalf (of_lists XNaN d))
    = [ [XFin 4; XFin 8; XFin (-2)]; [XFin 1; XFin 0; XFin 6]; [XFin (-2); XFin (-2); XFin (-1)]; [XFin (-2); XFin 4; XFin (-16)] ] /\
  run_whole xhill d = [ [XNaN; XNaN; XNaN]; [XNaN; XFin 1; XNaN]; [XNaN; XFin 85; XNaN]; [XNaN; XNaN; XNaN] ] /\
  run_overlap xhill 1 1 [1; 2; 1]%positive [1; 1; 1]%positive d = run_whole xhill d /\
  run_overlap xhill 0 1 [1; 2; 1]%positive [1; 1; 1]%positive d <> run_whole xhill d.
Proof.
  cbv zeta. split; [vm_compute; reflexivity|]. split; [vm_compute; reflexivity|].
  split; [vm_compute; reflexivity|]. vm_compute. discriminate.
Qed.

(* non-vacuity of the ramp theorem: Z satisfies the hypotheses; a tile covering
   x in [0,250) and y in [250,500) of a 500 extent; and feeding the row ramp from
   the x range (the seeded change C01-D) gives a different raster *)
Example C01_ramp_nonvacuous :
  (forall a b c : Z, a + b + c = a + (b + c)) /\
  zramp_blocks 0 50 250 125 [1; 1]%positive [2; 3]%positive = zramp_whole 0 50 250 125 2 5 /\
  zramp_whole 0 50 250 125 2 5 =
    [ [250; 50000400; 100000550; 150000700; 200000850]
    ; [375; 50000525; 100000675; 150000825; 200000975] ] /\
  zramp_whole 0 50 0 125 2 5 <> zramp_whole 0 50 250 125 2 5 /\
  lenZ coord_plans = 2.
Proof.
  split; [intros; lia|]. split; [vm_compute; reflexivity|]. split; [vm_compute; reflexivity|].
  split; [vm_compute; discriminate|vm_compute; reflexivity].
Qed.

(* obligations over the plans GENERATED from the source on this run *)
Theorem C01_all_plans_ok : Forall plan_ok plans.
Proof. exact all_plans_ok. Qed.
Print Assumptions C01_all_plans_ok.

Theorem C01_plan_overlap_sound :
  forall p : plan, In p plans -> p_kind p = MapOverlap ->
  forall (T : Type) (nan : T) (F : raster T -> raster T) kr kc,
    0 <= kr -> 0 <= kc ->
    LocalNaN nan F (fst (p_radius p kr kc)) (snd (p_radius p kr kc)) ->
    forall (X : raster T) (cy cx : list positive),
      sumP cy = rows X -> sumP cx = cols X -> 0 < rows X -> 0 < cols X ->
      req (map_overlap nan F (fst (p_depth p kr kc)) (snd (p_depth p kr kc)) cy cx X) (F X).
Proof.
  intros p Hin. apply plan_overlap_sound.
  pose proof all_plans_ok as H. rewrite Forall_forall in H. now apply H.
Qed.
Print Assumptions C01_plan_overlap_sound.

Theorem C01_plan_blocks_sound :
  forall p : plan, In p plans -> p_kind p = MapBlocks ->
  forall (T : Type) (nan : T) (F : raster T -> raster T) kr kc,
    0 <= kr -> 0 <= kc ->
    LocalNaN nan F (fst (p_radius p kr kc)) (snd (p_radius p kr kc)) ->
    forall (X : raster T) (cy cx : list positive),
      sumP cy = rows X -> sumP cx = cols X -> 0 < rows X -> 0 < cols X ->
      req (map_blocks nan F cy cx X) (F X).
Proof.
  intros p Hin. apply plan_blocks_sound.
  pose proof all_plans_ok as H. rewrite Forall_forall in H. now apply H.
Qed.
Print Assumptions C01_plan_blocks_sound.

Theorem C01_global_reductions_at_plan_level :
  forallb (fun r => existsb (eq3 r) global_reductions) required_global = true /\
  forallb (fun s => existsb (fun p => String.eqb s (p_site p)) plans) required_sites = true.
Proof. split; [exact global_reductions_at_plan_level|exact required_sites_present]. Qed.
Print Assumptions C01_global_reductions_at_plan_level.

(* ---- non-vacuity: concrete rasters / chunkings / kernels ------------------ *)
Definition ex_data : list (list xv) :=
  [ [XFin 1; XFin 2; XNaN;  XFin 4; XFin 0]
  ; [XFin 5; XFin 6; XFin 7; XFin 8; XFin 1]
  ; [XFin 9; XFin 1; XFin 2; XFin 3; XFin 7]
  ; [XFin 4; XFin 4; XFin 0; XFin 6; XFin 2] ].
Definition ex_kernel : list (list xv) := [ [XFin 1; XFin 2; XFin 3] ].      (* 1 x 3, non-square *)
Definition ex_kernel2 : list (list xv) := [ [XFin 1]; [XFin 0]; [XFin 1] ].  (* 3 x 1 *)

(* 1-cell chunks; the hypotheses of C01_xconv_chunked hold; the chunked and
   whole results coincide and are the expected numbers *)
Example C01_nonvacuous_conv :
  let X := of_lists XNaN ex_data in
  let cy := [1; 1; 1; 1]%positive in let cx := [1; 1; 1; 1; 1]%positive in
  sumP cy = rows X /\ sumP cx = cols X /\ 0 < rows X /\ 0 < cols X /\
  run_overlap (xconv ex_kernel) 0 1 cy cx ex_data = run_whole (xconv ex_kernel) ex_data /\
  run_whole (xconv ex_kernel) ex_data =
    [ [XNaN; XNaN;    XNaN;    XNaN;    XNaN]
    ; [XNaN; XFin 38; XFin 44; XFin 26; XNaN]
    ; [XNaN; XFin 17; XFin 14; XFin 29; XNaN]
    ; [XNaN; XFin 12; XFin 22; XFin 18; XNaN] ].
Proof. vm_compute. repeat split; reflexivity. Qed.

(* chunks smaller than the kernel (3 x 1 kernel, 1-row chunks), uneven columns *)
Example C01_nonvacuous_conv2 :
  run_overlap (xconv ex_kernel2) 1 0 [1; 2; 1]%positive [2; 3]%positive ex_data
  = run_whole (xconv ex_kernel2) ex_data /\
  run_whole (xconv ex_kernel2) ex_data =
    [ [XNaN; XNaN; XNaN; XNaN; XNaN]
    ; [XFin 10; XFin 3; XNaN; XFin 7; XFin 7]
    ; [XFin 9; XFin 10; XFin 7; XFin 14; XFin 3]
    ; [XNaN; XNaN; XNaN; XNaN; XNaN] ].
Proof. vm_compute. split; reflexivity. Qed.

(* a halo that is one cell short on one axis (depth (1,0) for the 3x3 stencil)
   is NOT enough: the theorem's hypothesis rx <= dx is needed *)
Example C01_short_halo_refuted :
  run_overlap xcurv 1 0 [2; 2]%positive [2; 3]%positive ex_data <> run_whole xcurv ex_data /\
  run_overlap xcurv 1 1 [2; 2]%positive [2; 3]%positive ex_data = run_whole xcurv ex_data.
Proof. split; [vm_compute; discriminate|vm_compute; reflexivity]. Qed.

(* swapped (cols, rows) depth for a non-square kernel is NOT enough either *)
Example C01_swapped_depth_refuted :
  run_overlap (xconv ex_kernel) 1 0 [2; 2]%positive [2; 3]%positive ex_data
  <> run_whole (xconv ex_kernel) ex_data.
Proof. vm_compute. discriminate. Qed.

Example C01_plans_nonvacuous : 20 <= n_plans /\ lenZ plans = n_plans.
Proof. vm_compute. split; [discriminate|reflexivity]. Qed.
