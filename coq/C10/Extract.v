Require Import Extraction ExtrOcamlBasic.
Require Import Base.Prelude C10.Model.
Extraction Language OCaml.
Extraction "model.ml" analyse noninterfering run.
