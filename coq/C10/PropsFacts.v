(* C10/PropsFacts.v — the claimed theorems about the facts REGENERATED from the source of the checked tree
   (Generated.v), and their combination with the checker's soundness. *)
Require Import Base.Prelude C10.Model C10.Proofs C10.Generated C10.Spec C10.Bridge.
Require Import String.

(* ---- 2. Obligations on the facts regenerated from the source of the checked tree --------------- *)

(* every public function of xrspatial/*.py is classified: raster-in/raster-out (with its documented
   exception, if any) or explicitly not a raster function; and the tables name only existing functions *)
Theorem C10_every_public_function_classified :
  forallb classified functions = true /\ tables_live = true.
Proof. split; vm_compute; reflexivity. Qed.
Print Assumptions C10_every_public_function_classified.

(* per raster function: no in-place write through any variable that may denote a protected argument
   (all non-scalar parameters, object and buffer), except exactly the documented ones (zonal.apply replaces
   values' data; viewshed widens raster's dtype; x.data = x.data.rechunk(..) re-binds equal values); the
   returned object/buffer aliases no argument except exactly trim/crop (windows) and the unproved
   polygonize case; the wrapper's return sites rebuild coords/dims/attrs from one raster argument *)
Theorem C10_static_obligations : forallb check_fn functions = true.
Proof. vm_compute. reflexivity. Qed.
Print Assumptions C10_static_obligations.

(* the translator's own taint computation (python) and the model's agree on every parameter of every
   public function: same argument-hitting sites, same return aliasing — [inventory_covered] *)
Theorem C10_inventory_covered : forallb py_ok functions = true.
Proof. vm_compute. reflexivity. Qed.
Print Assumptions C10_inventory_covered.

(* ---- 3. The semantic statement for the functions of the tree: combine 1 and 2 ------------------- *)


Theorem C10_inputs_unmodified : forall f e, In f functions -> lookup (fn_name f) raster_funcs = Some e ->
  forall (P : loc -> Prop) t s, over t (fn_prog f) ->
    sep P (taint (fn_prog f) (roots_except f (wparams e))) s ->
    forall l, P l -> heap (run t s) l = heap s l.
Proof.
  intros f e Hin Hl P t s Ho Hs l HP.
  pose proof C10_static_obligations as H. rewrite forallb_forall in H. specialize (H f Hin).
  destruct (check_fn_raster f e Hl H) as [Hw _].
  exact (writes_nothing_sound _ _ Hw P t s Ho Hs l HP).
Qed.
Print Assumptions C10_inputs_unmodified.

Theorem C10_output_shares_nothing : forall f e, In f functions -> lookup (fn_name f) raster_funcs = Some e ->
  forall (P : loc -> Prop) t s, over t (fn_prog f) ->
    sep P (taint (fn_prog f) (roots_except f (e_alias e))) s -> ret s = [] ->
    forall l, In l (ret (run t s)) -> ~ P l.
Proof.
  intros f e Hin Hl P t s Ho Hs Hr l Hret.
  pose proof C10_static_obligations as H. rewrite forallb_forall in H. specialize (H f Hin).
  destruct (check_fn_raster f e Hl H) as [_ Hf].
  exact (returns_fresh_sound _ _ Hf P t s Ho Hs Hr l Hret).
Qed.
Print Assumptions C10_output_shares_nothing.

Local Open Scope positive_scope.
(* the generated programs are the real thing: slope's program has hundreds of instructions and the
   documented exceptions are visible in the analysis *)
Example C10_generated_nonvacuous :
  (100 <? Z.of_nat (List.length (fn_prog f_slope_slope)))%Z = true /\
  (exists s, analyse (fn_prog f_zonal_apply) (roots_except f_zonal_apply ["zones"%string]) = (true, [(s, 2%Z)], false)) /\
  (let '(_, _, r) := analyse (fn_prog f_zonal_trim) (all_roots f_zonal_trim) in r) = true.
Proof.
  split; [vm_compute; reflexivity|]. split; [eexists; vm_compute; reflexivity|vm_compute; reflexivity].
Qed.
