(* C10/Model.v — effect IR of the xrspatial wrappers and kernels, its small-step
   semantics over a heap of arrays/objects with provenance, and the boolean
   non-interference checker.  Executable definitions only.

   What is modelled.  Every Python value the wrappers handle is given two IR
   variables: its OBJECT (the DataArray/ndarray object: name, attrs, coords
   mapping, pointer to its data) and its BUFFER (the array memory).  The facts
   translator (harness/props/c10.py, regenerated from /repo on every run) maps
   every binding site of every function reachable from a public function to
   such a pair and every statement to the instructions below:

     IFresh x        x := newly allocated (np.zeros/empty/full, arithmetic,
                     reductions, boolean/fancy indexing, xr.DataArray(...) object)
     ICopy  x y      x := fresh copy of y (astype, copy, flatten, deepcopy, np.array)
     IView  x y      x := alias of y (plain assignment, .data/.values/.attrs,
                     ravel/reshape/asarray/basic slicing/transpose, argument
                     passing, return-value passing, container membership)
     IWrite x k s    in-place modification through x at source site s:
                     KBuf   subscript / augmented assignment, mutating method
                            (sort, fill, ...), out= keyword
                     KAttr  attribute assignment  x.a = ...
                     KSetData  x.values = ... / x.data = ... (xarray setter)
     ITouch x k s    value-preserving rebind of x's data:
                     TRechunk  x.data = x.data.rechunk(...)
                     TWiden    x.values = x.values.astype(...)
     IRet x          x is (part of) the value returned by the public function

   The program of a public function is the BAG of instructions of its own body
   and of every function it can reach (context-insensitive inlining: argument
   and result passing are IView edges).  Control flow is abstracted completely:
   the semantics below runs ANY finite sequence of instructions drawn from the
   program, in any order, with any repetition, writing arbitrary values — which
   covers every branch, loop, exception path and call order of the real code. *)
Require Import Base.Prelude.
Require Import FSets.FSetPositive.
Module PS := PositiveSet.

Definition var := positive.
Definition loc := Z.

Inductive wkind := KBuf | KAttr | KSetData.
Inductive tkind := TRechunk | TWiden.

Inductive instr :=
| IFresh (x : var)
| ICopy (x y : var)
| IView (x y : var)
| IWrite (x : var) (k : wkind) (site : Z)
| ITouch (x : var) (k : tkind) (site : Z)
| IRet (x : var).

(* ---- semantics ---------------------------------------------------------- *)
Record state := mkState {
  env  : var -> option loc;     (* which location a variable denotes (None: unbound) *)
  heap : loc -> Z;              (* abstract content of a location *)
  next : loc;                   (* allocation pointer: every location >= next is unused *)
  ret  : list loc               (* locations handed back to the caller so far *)
}.

Definition upd_env (e : var -> option loc) (x : var) (v : option loc) : var -> option loc :=
  fun y => if Pos.eqb y x then v else e y.
Definition upd_heap (h : loc -> Z) (l : loc) (v : Z) : loc -> Z :=
  fun l' => if Z.eqb l' l then v else h l'.

(* one instruction; [v] is the (arbitrary) value an allocation is filled with /
   a write stores *)
Definition step (i : instr) (v : Z) (s : state) : state :=
  match i with
  | IFresh x =>
      mkState (upd_env (env s) x (Some (next s))) (upd_heap (heap s) (next s) v) (next s + 1) (ret s)
  | ICopy x y =>
      let c := match env s y with Some l => heap s l | None => v end in
      mkState (upd_env (env s) x (Some (next s))) (upd_heap (heap s) (next s) c) (next s + 1) (ret s)
  | IView x y =>
      match env s y with
      | Some l => mkState (upd_env (env s) x (Some l)) (heap s) (next s) (ret s)
      | None => s                                   (* y unbound on this path: nothing flows *)
      end
  | IWrite x _ _ =>
      match env s x with
      | Some l => mkState (env s) (upd_heap (heap s) l v) (next s) (ret s)
      | None => s
      end
  | ITouch _ _ _ => s                               (* same values re-bound: content unchanged *)
  | IRet x =>
      match env s x with
      | Some l => mkState (env s) (heap s) (next s) (l :: ret s)
      | None => s
      end
  end.

Definition run (t : list (instr * Z)) (s : state) : state :=
  fold_left (fun s iv => step (fst iv) (snd iv) s) t s.

(* ---- the checker -------------------------------------------------------- *)
Definition set_of (l : list var) : PS.t := fold_left (fun S x => PS.add x S) l PS.empty.

(* one propagation pass: the target of a view of a tainted variable is tainted *)
Definition grow (p : list instr) (S : PS.t) : PS.t :=
  fold_left (fun S i => match i with
                        | IView x y => if PS.mem y S then PS.add x S else S
                        | _ => S end) p S.

Definition view_closed_instr (S : PS.t) (i : instr) : bool :=
  match i with IView x y => if PS.mem y S then PS.mem x S else true | _ => true end.
Definition closedb (p : list instr) (S : PS.t) : bool := forallb (view_closed_instr S) p.

Fixpoint closure (fuel : nat) (p : list instr) (S : PS.t) : PS.t :=
  match fuel with
  | O => S
  | Datatypes.S f => if closedb p S then S else closure f p (grow p S)
  end.

(* every variable that may denote a location of the protected roots *)
Definition taint (p : list instr) (roots : list var) : PS.t :=
  closure (length p) p (set_of roots).

Definition write_free_instr (S : PS.t) (i : instr) : bool :=
  match i with IWrite x _ _ => negb (PS.mem x S) | _ => true end.
Definition ret_free_instr (S : PS.t) (i : instr) : bool :=
  match i with IRet x => negb (PS.mem x S) | _ => true end.

Definition write_free (p : list instr) (S : PS.t) : bool := forallb (write_free_instr S) p.
Definition ret_free (p : list instr) (S : PS.t) : bool := forallb (ret_free_instr S) p.

(* inputs unmodified *)
Definition writes_nothing (p : list instr) (roots : list var) : bool :=
  let S := taint p roots in closedb p S && write_free p S.
(* output shares no location with the inputs *)
Definition returns_fresh (p : list instr) (roots : list var) : bool :=
  let S := taint p roots in closedb p S && ret_free p S.
Definition noninterfering (p : list instr) (roots : list var) : bool :=
  writes_nothing p roots && returns_fresh p roots.

(* the inventory the model derives: write / touch sites that may hit the roots,
   and whether the returned value may alias them (for the documented exceptions
   and for the cross-check against the translator's own inventory) *)
Definition wkind_code (k : wkind) : Z := match k with KBuf => 0 | KAttr => 1 | KSetData => 2 end.
Definition tkind_code (k : tkind) : Z := match k with TRechunk => 10 | TWiden => 11 end.

Definition hits (p : list instr) (S : PS.t) : list (Z * Z) :=
  flat_map (fun i => match i with
                     | IWrite x k s => if PS.mem x S then [(s, wkind_code k)] else []
                     | ITouch x k s => if PS.mem x S then [(s, tkind_code k)] else []
                     | _ => [] end) p.
Definition ret_hits (p : list instr) (S : PS.t) : bool :=
  existsb (fun i => match i with IRet x => PS.mem x S | _ => false end) p.

(* sorted-free comparison of inventories: same elements both ways *)
Definition pair_eqb (a b : Z * Z) : bool := Z.eqb (fst a) (fst b) && Z.eqb (snd a) (snd b).
Definition pair_mem (a : Z * Z) (l : list (Z * Z)) : bool := existsb (pair_eqb a) l.
Definition same_inventory (a b : list (Z * Z)) : bool :=
  forallb (fun x => pair_mem x b) a && forallb (fun x => pair_mem x a) b.

(* analysis of one root set, used by the obligations and by the extracted driver:
   (closed?, hits, return may alias) *)
Definition analyse (p : list instr) (roots : list var) : bool * list (Z * Z) * bool :=
  let S := taint p roots in (closedb p S, hits p S, ret_hits p S).
