(* C10/Spec.v — the scope of the property and its documented exceptions (hand written from the
   property text), and the boolean obligation evaluated on the generated facts. *)
Require Import Base.Prelude C10.Model C10.Generated.
Require Import String.
Local Open Scope string_scope.
Local Open Scope Z_scope.

(* identity classes: Like = the wrapper ends in DataArray(out, coords=p.coords, dims=p.dims, attrs=p.attrs)
   for one protected raster parameter p; LikeUnit = same but attrs is a deep copy extended with 'unit'
   (hotspots); Window = a slice of the parameter (trim/crop); Own/NoRaster = defines its own shape or returns
   no raster (generators, focal_stats, true_color, polygonize, zonal tables, local.* over a Dataset, helpers) *)
Inductive idclass := Like | LikeUnit | Window | Own | NoRaster.

Record exc := mkExc {
  e_writes : list (string * Z);   (* (parameter, kind code) allowed to be hit: 2 = data replaced, 11 = widened *)
  e_alias  : list string;         (* parameters the returned value may be a view of *)
  e_id     : idclass
}.
Definition strict := mkExc [] [] Like.
Definition own := mkExc [] [] Own.
Definition helper := mkExc [] [] NoRaster.

Definition raster_funcs : list (string * exc) := [
  ("aspect.aspect", strict); ("classify.binary", strict); ("classify.reclassify", strict);
  ("classify.quantile", strict); ("classify.natural_breaks", strict); ("classify.equal_interval", strict);
  ("convolution.convolution_2d", strict); ("curvature.curvature", strict); ("focal.mean", strict);
  ("focal.apply", strict); ("focal.hotspots", mkExc [] [] LikeUnit); ("focal.focal_stats", own);
  ("hillshade.hillshade", strict);
  ("multispectral.arvi", strict); ("multispectral.evi", strict); ("multispectral.gci", strict);
  ("multispectral.nbr", strict); ("multispectral.nbr2", strict); ("multispectral.ndvi", strict);
  ("multispectral.ndmi", strict); ("multispectral.savi", strict); ("multispectral.sipi", strict);
  ("multispectral.ebbi", strict); ("multispectral.true_color", own);
  ("pathfinding.a_star_search", strict); ("perlin.perlin", own);
  ("proximity.proximity", strict); ("proximity.allocation", strict); ("proximity.direction", strict);
  ("slope.slope", strict); ("terrain.generate_terrain", own);
  (* viewshed may widen the input's dtype without changing a value *)
  ("viewshed.viewshed", mkExc [("raster", 11)] [] Like);
  ("zonal.stats", own); ("zonal.crosstab", own);
  (* zonal.apply updates `values` in place by contract *)
  ("zonal.apply", mkExc [("values", 2)] [] NoRaster);
  ("zonal.regions", strict);
  (* trim / crop return windows (views) of their input *)
  ("zonal.trim", mkExc [] ["raster"] Window); ("zonal.crop", mkExc [] ["values"] Window);
  (* polygonize: own shape; the analysis cannot separate `column.append(values[ij])` (a scalar) from a view,
     so freshness of its output is NOT claimed statically (dynamic probe only) *)
  ("experimental.polygonize.polygonize", mkExc [] ["raster"] Own);
  ("local.cell_stats", own); ("local.combine", own); ("local.lesser_frequency", own);
  ("local.equal_frequency", own); ("local.greater_frequency", own); ("local.lowest_position", own);
  ("local.highest_position", own); ("local.popularity", own); ("local.rank", own);
  ("utils.validate_arrays", helper); ("utils.get_xy_range", helper); ("utils.calc_res", helper);
  ("convolution.calc_cellsize", helper); ("utils.canvas_like", own)
].

(* public functions that are not raster-in/raster-out analysis functions: recorded, no obligation *)
Definition non_raster_funcs : list string := [
  "utils.not_implemented_func"; "utils.lnglat_to_meters"; "utils.height_implied_by_aspect_ratio";
  "utils.bands_to_img"; "utils.color_values"; "utils.get_dataarray_resolution";
  "analytics.summarize_terrain"; "bump.bump"; "convolution.circle_kernel"; "convolution.annulus_kernel";
  "convolution.custom_kernel"; "convolution.convolve_2d"; "proximity.euclidean_distance";
  "proximity.manhattan_distance"; "proximity.great_circle_distance"; "zonal.get_full_extent";
  "zonal.suggest_zonal_canvas"; "experimental.polygonize.generated_jit"
].

Fixpoint lookup {A} (k : string) (l : list (string * A)) : option A :=
  match l with [] => None | (k', v) :: r => if String.eqb k k' then Some v else lookup k r end.
Definition mem_str (k : string) (l : list string) : bool := existsb (String.eqb k) l.
Definition mem_sk (p : string) (k : Z) (l : list (string * Z)) : bool :=
  existsb (fun q => String.eqb p (fst q) && Z.eqb k (snd q)) l.

(* roots: object and buffer variables of the protected parameters, minus a list of excepted parameters *)
Definition roots_except (f : fn) (skip : list string) : list var :=
  flat_map (fun q => match q with (p, vars, prot) => if prot && negb (mem_str p skip) then vars else [] end)
           (fn_params f).
Definition all_roots (f : fn) : list var := roots_except f [].

(* parameters with a real in-place exception (kind codes < 10 are writes, >= 10 value-preserving touches) *)
Definition wparams (e : exc) : list string := map fst (filter (fun q => snd q <? 10) (e_writes e)).

Definition kinds_ok (p : string) (e : exc) (hs : list (Z * Z)) : bool :=
  forallb (fun h => Z.eqb (snd h) 10 || mem_sk p (snd h) (e_writes e)) hs &&
  forallb (fun q => negb (String.eqb p (fst q)) || existsb (fun h => Z.eqb (snd h) (snd q)) hs) (e_writes e).

(* per protected parameter: only the allowed kinds hit it and every allowed kind really occurs (exactness);
   the return aliases it iff the exception says so *)
Definition param_ok (f : fn) (e : exc) (q : string * list var * bool) : bool :=
  match q with
  | (p, vars, true) =>
      match analyse (fn_prog f) vars with
      | (closed, hs, r) => closed && kinds_ok p e hs && Bool.eqb r (mem_str p (e_alias e))
      end
  | (_, _, false) => true
  end.

Definition is_wrap_of (f : fn) (attrs_same : bool) (r : string * string * string * string) : bool :=
  match r with
  | (k, c, d, a) =>
      String.eqb k "wrap" && String.eqb c d && (if attrs_same then String.eqb a c else String.eqb a "?") &&
      existsb (fun q => match q with (p, _, prot) => prot && String.eqb p c end) (fn_params f)
  end.
Definition is_window_of (f : fn) (e : exc) (r : string * string * string * string) : bool :=
  match r with (k, c, _, _) => String.eqb k "slice" && mem_str c (e_alias e) end.

Definition identity_ok (f : fn) (e : exc) : bool :=
  match e_id e with
  | Like => negb (Nat.eqb (List.length (fn_ret f)) 0) && forallb (is_wrap_of f true) (fn_ret f)
  | LikeUnit => negb (Nat.eqb (List.length (fn_ret f)) 0) && forallb (is_wrap_of f false) (fn_ret f)
  | Window => negb (Nat.eqb (List.length (fn_ret f)) 0) && forallb (is_window_of f e) (fn_ret f)
  | Own | NoRaster => true
  end.

Definition check_raster (f : fn) (e : exc) : bool :=
  writes_nothing (fn_prog f) (roots_except f (wparams e)) &&
  returns_fresh (fn_prog f) (roots_except f (e_alias e)) &&
  forallb (param_ok f e) (fn_params f) &&
  identity_ok f e.

Definition classified (f : fn) : bool :=
  match lookup (fn_name f) raster_funcs with
  | Some _ => true
  | None => mem_str (fn_name f) non_raster_funcs
  end.

Definition check_fn (f : fn) : bool :=
  match lookup (fn_name f) raster_funcs with
  | Some e => check_raster f e
  | None => mem_str (fn_name f) non_raster_funcs
  end.

(* cross-check of the translator's own (python) taint computation against the model's *)
Definition py_ok (f : fn) : bool :=
  forallb (fun q => match q with (p, vars, _) =>
     match lookup p (map (fun t => match t with (a, b, c) => (a, (b, c)) end) (fn_py f)) with
     | Some (hs, r) => match analyse (fn_prog f) vars with
                       | (closed, hs', r') => closed && same_inventory hs hs' && Bool.eqb r r' end
     | None => false
     end end) (fn_params f).

(* every table entry names an existing public function *)
Definition tables_live : bool :=
  forallb (fun q => existsb (fun f => String.eqb (fn_name f) (fst q)) functions) raster_funcs &&
  forallb (fun n => existsb (fun f => String.eqb (fn_name f) n) functions) non_raster_funcs.
