(* C10/Props.v — the claimed theorems for C10, nothing else. *)
Require Import Base.Prelude C10.Model C10.Proofs.
Require Import String.

(* ---- 1. The checker is sound: for EVERY program, EVERY finite trace over its instructions (any order,
   any repetition — hence every branch, loop, call order and exception path), EVERY heap, EVERY written
   value and EVERY set P of protected locations: if the initial state keeps non-tainted variables away
   from P, then [writes_nothing] implies that no protected location changes, and [returns_fresh] that no
   location handed back to the caller is protected. *)
Theorem C10_writes_nothing_sound : forall p roots, writes_nothing p roots = true ->
  forall (P : loc -> Prop) t s, over t p -> sep P (taint p roots) s ->
    forall l, P l -> heap (run t s) l = heap s l.
Proof. exact writes_nothing_sound. Qed.
Print Assumptions C10_writes_nothing_sound.

Theorem C10_returns_fresh_sound : forall p roots, returns_fresh p roots = true ->
  forall (P : loc -> Prop) t s, over t p -> sep P (taint p roots) s -> ret s = [] ->
    forall l, In l (ret (run t s)) -> ~ P l.
Proof. exact returns_fresh_sound. Qed.
Print Assumptions C10_returns_fresh_sound.

Theorem C10_noninterfering_sound : forall p roots, noninterfering p roots = true ->
  forall (P : loc -> Prop) t s, over t p -> sep P (taint p roots) s -> ret s = [] ->
    (forall l, P l -> heap (run t s) l = heap s l) /\
    (forall l, In l (ret (run t s)) -> ~ P l).
Proof. exact noninterfering_sound. Qed.
Print Assumptions C10_noninterfering_sound.

(* ---- non-vacuity and refutation witnesses ------------------------------------------------------- *)
Local Open Scope positive_scope.

(* a wrapper in the style of slope: agg(1,2) -> data := agg.data (3,4) -> data2 := data.astype (5,6)
   -> out := zeros (7,8); out[..] := ..; return DataArray(out) (9,10) *)
Definition ex_good : list instr :=
  [IView 3 2; IView 4 2; ICopy 6 4; IFresh 5; IFresh 7; IFresh 8; IWrite 8 KBuf 1%Z;
   IFresh 9; IView 10 8; IRet 9; IRet 10].
(* the perlin shape before the fix: data := agg.data; data[:] = ...; return DataArray(data) *)
Definition ex_perlin_unfixed : list instr :=
  [IView 3 2; IView 4 2; IWrite 4 KBuf 1%Z; IFresh 9; IView 10 4; IRet 9; IRet 10].

Example C10_nonvacuous_checker :
  noninterfering ex_good [1; 2] = true /\
  analyse ex_perlin_unfixed [1; 2] = (true, [(1, 0)%Z], true).
Proof. split; vm_compute; reflexivity. Qed.

(* the hypotheses of the soundness theorem are satisfiable by a concrete initial state (argument variables
   1,2 bound to the protected locations 100,101; allocation pointer above), and running the good program
   in order leaves them alone while the unfixed perlin shape overwrites location 101 and returns it *)
Definition s0 : state :=
  mkState (fun x => if Pos.eqb x 1 then Some 100%Z else if Pos.eqb x 2 then Some 101%Z else None)
          (fun l => l) 200%Z [].
Definition Pex (l : loc) : Prop := l = 100%Z \/ l = 101%Z.

Example C10_nonvacuous_hypotheses : sep Pex (taint ex_good [1; 2]) s0.
Proof.
  apply initial_sep.
  - intros x l Hx _. unfold s0 in Hx. cbn [env] in Hx.
    destruct (Pos.eqb x 1) eqn:E1.
    + apply Pos.eqb_eq in E1. subst x. vm_compute. reflexivity.
    + destruct (Pos.eqb x 2) eqn:E2.
      * apply Pos.eqb_eq in E2. subst x. vm_compute. reflexivity.
      * discriminate Hx.
  - intros l [-> | ->]; lia.
Qed.

Example C10_perlin_unfixed_refuted :
  let s' := run (map (fun i => (i, 7%Z)) ex_perlin_unfixed) s0 in
  heap s' 101%Z = 7%Z /\ heap s0 101%Z = 101%Z /\ In 101%Z (ret s').
Proof. vm_compute. repeat split; auto. Qed.

Example C10_good_run :
  let s' := run (map (fun i => (i, 7%Z)) ex_good) s0 in
  heap s' 100%Z = 100%Z /\ heap s' 101%Z = 101%Z /\ ret s' = [203%Z; 204%Z].
Proof. vm_compute. repeat split; reflexivity. Qed.

