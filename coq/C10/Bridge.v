(* C10/Bridge.v — from the boolean obligation of Spec.v to the two checker facts used by Props.v *)
Require Import Base.Prelude C10.Model C10.Generated C10.Spec.
Require Import String.

Lemma check_fn_raster f e : lookup (fn_name f) raster_funcs = Some e -> check_fn f = true ->
  writes_nothing (fn_prog f) (roots_except f (wparams e)) = true /\
  returns_fresh (fn_prog f) (roots_except f (e_alias e)) = true.
Proof.
  unfold check_fn. intros -> H. unfold check_raster in H.
  apply andb_true_iff in H as [H _]. apply andb_true_iff in H as [H _].
  apply andb_true_iff in H as [H1 H2]. split; assumption.
Qed.
