(* C10/Proofs.v — soundness of the non-interference checker for ALL programs,
   ALL traces over them, ALL heaps and ALL protected location sets. *)
Require Import Base.Prelude.
Require Import FSets.FSetPositive.
Require Import C10.Model.

(* separation invariant: a variable that denotes a protected location is in
   the tainted set, and protected locations are below the allocation pointer *)
Definition sep (P : loc -> Prop) (S : PS.t) (s : state) : Prop :=
  (forall x l, env s x = Some l -> P l -> PS.mem x S = true) /\
  (forall l, P l -> l < next s).

Definition agree (P : loc -> Prop) (h h' : loc -> Z) : Prop := forall l, P l -> h' l = h l.
Definition ret_outside (P : loc -> Prop) (s : state) : Prop := forall l, In l (ret s) -> ~ P l.

Lemma forallb_In {A} (f : A -> bool) l x : forallb f l = true -> In x l -> f x = true.
Proof. intros H Hin. rewrite forallb_forall in H. auto. Qed.

Lemma upd_env_same e x v : upd_env e x v x = v.
Proof. unfold upd_env. now rewrite Pos.eqb_refl. Qed.
Lemma upd_env_other e x v y : y <> x -> upd_env e x v y = e y.
Proof. unfold upd_env. intros H. destruct (Pos.eqb y x) eqn:E; [apply Pos.eqb_eq in E; contradiction|reflexivity]. Qed.
Lemma upd_heap_other h l v l' : l' <> l -> upd_heap h l v l' = h l'.
Proof. unfold upd_heap. intros H. destruct (Z.eqb l' l) eqn:E; [apply Z.eqb_eq in E; contradiction|reflexivity]. Qed.

(* allocation keeps the invariant and the protected content *)
Lemma alloc_sep P S s x c :
  sep P S s ->
  sep P S (mkState (upd_env (env s) x (Some (next s))) (upd_heap (heap s) (next s) c) (next s + 1) (ret s)) /\
  agree P (heap s) (upd_heap (heap s) (next s) c).
Proof.
  intros [He Hn]. split; [split|]; cbn [env heap next ret].
  - intros y l Hy Hl. destruct (Pos.eq_dec y x) as [->|Hne].
    + rewrite upd_env_same in Hy. inversion Hy; subst l. specialize (Hn _ Hl). lia.
    + rewrite upd_env_other in Hy by assumption. eauto.
  - intros l Hl. specialize (Hn _ Hl). lia.
  - intros l Hl. apply upd_heap_other. specialize (Hn _ Hl). lia.
Qed.

(* one step: invariant preserved always; content preserved when the step is
   not a write through a tainted variable *)
Lemma step_sep P S p i v s :
  closedb p S = true -> In i p -> sep P S s -> sep P S (step i v s).
Proof.
  intros Hc Hin Hs. pose proof Hs as [He Hn].
  destruct i as [x|x y|x y|x k site|x k site|x]; cbn [step].
  - apply alloc_sep; assumption.
  - apply alloc_sep; assumption.
  - destruct (env s y) as [l|] eqn:Ey; [|assumption].
    split; cbn [env heap next ret]; [|assumption].
    intros z l' Hz Hl'. destruct (Pos.eq_dec z x) as [->|Hne].
    + rewrite upd_env_same in Hz. inversion Hz; subst l'.
      pose proof (He _ _ Ey Hl') as Hy.
      pose proof (forallb_In _ _ _ Hc Hin) as Hv. cbn [view_closed_instr] in Hv.
      rewrite Hy in Hv. exact Hv.
    + rewrite upd_env_other in Hz by assumption. eauto.
  - destruct (env s x) as [l|]; [|assumption]. split; cbn [env heap next ret]; assumption.
  - assumption.
  - destruct (env s x) as [l|]; [|assumption]. split; cbn [env heap next ret]; assumption.
Qed.

Lemma step_agree P S p i v s :
  write_free p S = true -> In i p -> sep P S s -> agree P (heap s) (heap (step i v s)).
Proof.
  intros Hw Hin Hs. pose proof Hs as [He Hn].
  destruct i as [x|x y|x y|x k site|x k site|x]; cbn [step].
  - apply (alloc_sep P S s x v Hs).
  - apply (alloc_sep P S s x _ Hs).
  - destruct (env s y); intros l0 Hl0; reflexivity.
  - destruct (env s x) as [l|] eqn:Ex; [|intros l0 Hl0; reflexivity].
    cbn [heap]. intros l' Hl'. apply upd_heap_other. intros ->.
    pose proof (He _ _ Ex Hl') as Hm.
    pose proof (forallb_In _ _ _ Hw Hin) as Hf. cbn [write_free_instr] in Hf.
    rewrite Hm in Hf. discriminate.
  - intros l0 Hl0; reflexivity.
  - destruct (env s x); intros l0 Hl0; reflexivity.
Qed.

Lemma step_ret P S p i v s :
  ret_free p S = true -> In i p -> sep P S s -> ret_outside P s -> ret_outside P (step i v s).
Proof.
  intros Hr Hin [He Hn] Ho.
  destruct i as [x|x y|x y|x k site|x k site|x]; cbn [step]; try assumption.
  - destruct (env s y); assumption.
  - destruct (env s x); assumption.
  - destruct (env s x) as [l|] eqn:Ex; [|assumption].
    intros l' [<-|Hin']; [|auto].
    intros Hl. pose proof (He _ _ Ex Hl) as Hm.
    pose proof (forallb_In _ _ _ Hr Hin) as Hf. cbn [ret_free_instr] in Hf.
    rewrite Hm in Hf. discriminate.
Qed.

Definition over (t : list (instr * Z)) (p : list instr) : Prop := forall iv, In iv t -> In (fst iv) p.

Lemma run_cons i v t s : run ((i, v) :: t) s = run t (step i v s).
Proof. reflexivity. Qed.

Lemma run_sep P S p : closedb p S = true ->
  forall t s, over t p -> sep P S s -> sep P S (run t s).
Proof.
  intros Hc t. induction t as [|[i v] t IH]; intros s Ho Hs; [assumption|].
  rewrite run_cons. apply IH.
  - intros iv Hiv. apply Ho. now right.
  - eapply step_sep; eauto. apply (Ho (i, v)). now left.
Qed.

Lemma run_agree P S p : closedb p S = true -> write_free p S = true ->
  forall t s, over t p -> sep P S s -> agree P (heap s) (heap (run t s)).
Proof.
  intros Hc Hw t. induction t as [|[i v] t IH]; intros s Ho Hs; [intros l Hl; reflexivity|].
  rewrite run_cons.
  assert (Hi : In i p) by (apply (Ho (i, v)); now left).
  assert (Ho' : over t p) by (intros iv Hiv; apply Ho; now right).
  pose proof (step_sep P S p i v s Hc Hi Hs) as Hs'.
  pose proof (step_agree P S p i v s Hw Hi Hs) as Ha.
  intros l Hl. rewrite (IH _ Ho' Hs' l Hl). apply Ha; assumption.
Qed.

Lemma run_ret P S p : closedb p S = true -> ret_free p S = true ->
  forall t s, over t p -> sep P S s -> ret_outside P s -> ret_outside P (run t s).
Proof.
  intros Hc Hr t. induction t as [|[i v] t IH]; intros s Ho Hs Hro; [assumption|].
  rewrite run_cons.
  assert (Hi : In i p) by (apply (Ho (i, v)); now left).
  assert (Ho' : over t p) by (intros iv Hiv; apply Ho; now right).
  apply IH; [assumption| |].
  - eapply step_sep; eauto.
  - eapply step_ret; eauto.
Qed.

(* ---- the theorems about the checker ------------------------------------- *)
Lemma writes_nothing_sound p roots : writes_nothing p roots = true ->
  forall (P : loc -> Prop) t s, over t p -> sep P (taint p roots) s ->
    forall l, P l -> heap (run t s) l = heap s l.
Proof.
  unfold writes_nothing. intros H P t s Ho Hs l Hl.
  apply andb_true_iff in H as [Hc Hw].
  exact (run_agree P _ p Hc Hw t s Ho Hs l Hl).
Qed.

Lemma returns_fresh_sound p roots : returns_fresh p roots = true ->
  forall (P : loc -> Prop) t s, over t p -> sep P (taint p roots) s -> ret s = [] ->
    forall l, In l (ret (run t s)) -> ~ P l.
Proof.
  unfold returns_fresh. intros H P t s Ho Hs Hr0.
  apply andb_true_iff in H as [Hc Hr].
  apply (run_ret P _ p Hc Hr t s Ho Hs). intros l Hl. rewrite Hr0 in Hl. destruct Hl.
Qed.

Lemma noninterfering_sound p roots : noninterfering p roots = true ->
  forall (P : loc -> Prop) t s, over t p -> sep P (taint p roots) s -> ret s = [] ->
    (forall l, P l -> heap (run t s) l = heap s l) /\
    (forall l, In l (ret (run t s)) -> ~ P l).
Proof.
  unfold noninterfering. intros H P t s Ho Hs Hr0.
  apply andb_true_iff in H as [Hw Hr]. split.
  - apply (writes_nothing_sound p roots Hw P t s Ho Hs).
  - apply (returns_fresh_sound p roots Hr P t s Ho Hs Hr0).
Qed.

(* the analysis is exactly as informative as the booleans: an empty hit list
   is write-freedom (used to read the generated obligations) *)
Lemma hits_nil_write_free p S : hits p S = [] -> write_free p S = true.
Proof.
  unfold hits, write_free. induction p as [|i p IH]; intros H; [reflexivity|].
  cbn [flat_map] in H. apply app_eq_nil in H as [H1 H2].
  cbn [forallb]. rewrite (IH H2), andb_true_r.
  destruct i; cbn [write_free_instr]; try reflexivity.
  destruct (PS.mem x S); [discriminate|reflexivity].
Qed.

Lemma ret_hits_false_ret_free p S : ret_hits p S = false -> ret_free p S = true.
Proof.
  unfold ret_hits, ret_free. induction p as [|i p IH]; intros H; [reflexivity|].
  cbn [existsb] in H. apply orb_false_iff in H as [H1 H2].
  cbn [forallb]. rewrite (IH H2), andb_true_r.
  destruct i; cbn [ret_free_instr]; try reflexivity. now rewrite H1.
Qed.

(* a state in which the argument variables denote the protected locations and
   nothing else does satisfies the invariant, provided the roots are tainted *)
Lemma initial_sep (P : loc -> Prop) S (e : var -> option loc) h n :
  (forall x l, e x = Some l -> P l -> PS.mem x S = true) ->
  (forall l, P l -> l < n) ->
  sep P S (mkState e h n []).
Proof. intros H1 H2. split; assumption. Qed.
