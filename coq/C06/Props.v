(* C06/Props.v — the property theorems claimed for C06, nothing else.
   Model: C06/Model.v ([process] = _process_numpy with _process_proximity_line inlined per pixel).
   Everything below holds for EVERY metric key, EVERY tie-rounding function tie_up, EVERY pair of
   thresholds R (2*max_distance^2, strict) and M (max_distance^2, inclusive), EVERY target_values
   list and EVERY raster size. *)
Require Import Base.Prelude Base.XVal C06.Model C06.Proofs C06.ProofsSpec C06.ProofsFill C06.Bounded.
Require Import C06.Bearing C06.BearingProofs C06.BearingRange C06.Metric C06.MetricProofs.
From Coq Require Import PrimFloat SpecFloat.

(* every non-NaN proximity is the distance key from the cell to ONE real target cell (in bounds,
   passing the target test) — the cell remembered in output_img, i.e. the one whose value allocation
   reports ([alloc_of]) and to which direction takes the bearing — and is <= max_distance *)
Theorem C06_named_target_real :
  forall key tie_up R M xc yc values img r c e,
  let g := process key tie_up R M xc yc values img in
  let h := lenZ img in let w := lenZ (nthZ [] img 0) in
  coords_ok xc w -> coords_ok yc h -> key_self0_on key xc yc -> ele (EFin 0) M = true ->
  0 <= r < h -> 0 <= c < w ->
  prox_of g r c = LVal e ->
  exists tr tc d,
    index_of g r c = Some (tr, tc) /\ alloc_of img g r c = cellv img tr tc /\
    is_target values (cellv img tr tc) = true /\ 0 <= tr < h /\ 0 <= tc < lenZ (nthZ [] img tr) /\
    dist2 key xc yc tr tc r c = Some d /\ e = EFin d /\ ele (EFin d) M = true.
Proof.
  intros key tie_up R M xc yc values img r c e g h w Hx Hy Hk HM Hr Hc He.
  destruct (named_target key tie_up R M xc yc values img Hx Hy Hk HM r c e Hr Hc He)
    as (tr & tc & d & Hi & HT & Hd & He' & Hm).
  exists tr, tc, d. destruct (Tgt_inbounds _ _ _ _ HT) as (H1 & H2).
  unfold alloc_of. subst g. rewrite Hi. simpl. repeat split; auto; lia.
Qed.
Print Assumptions C06_named_target_real.

(* proximity is 0 exactly on target cells *)
Theorem C06_prox_zero_iff_target :
  forall key tie_up R M xc yc values img r c,
  let g := process key tie_up R M xc yc values img in
  let h := lenZ img in let w := lenZ (nthZ [] img 0) in
  coords_ok xc w -> coords_ok yc h -> coords_inj xc w -> coords_inj yc h ->
  key_pd key -> ele (EFin 0) M = true -> rect img ->
  0 <= r < h -> 0 <= c < w ->
  (prox_of g r c = LVal (EFin 0) <-> is_target values (cellv img r c) = true).
Proof.
  intros key tie_up R M xc yc values img r c g h w Hx Hy Hix Hiy Hpd HM Hrect Hr Hc.
  assert (Hk : key_self0_on key xc yc) by (intros i j x y _ _; apply Hpd; auto).
  exact (zero_iff_target key tie_up R M xc yc values img Hx Hy Hk HM Hrect Hpd Hix Hiy r c Hr Hc).
Qed.
Print Assumptions C06_prox_zero_iff_target.

(* never underestimated: a non-NaN proximity is >= the brute-force minimum over all target cells *)
Theorem C06_never_underestimated :
  forall key tie_up R M xc yc values img r c d,
  let g := process key tie_up R M xc yc values img in
  let h := lenZ img in let w := lenZ (nthZ [] img 0) in
  coords_ok xc w -> coords_ok yc h -> key_self0_on key xc yc -> ele (EFin 0) M = true -> rect img ->
  0 <= r < h -> 0 <= c < w ->
  prox_of g r c = LVal (EFin d) ->
  exists b, brute key xc yc values img r c = Some b /\ b <= d.
Proof.
  intros key tie_up R M xc yc values img r c d g h w Hx Hy Hk HM Hrect Hr Hc He.
  exact (never_under key tie_up R M xc yc values img Hx Hy Hk HM Hrect r c d Hr Hc He).
Qed.
Print Assumptions C06_never_underestimated.

(* a cell is NaN in proximity iff it is NaN in allocation and direction (nothing remembered) *)
Theorem C06_nan_consistent :
  forall key tie_up R M xc yc values img r c,
  let g := process key tie_up R M xc yc values img in
  0 <= r < lenZ img -> 0 <= c < lenZ (nthZ [] img 0) ->
  (prox_of g r c = LUnset <-> index_of g r c = None).
Proof.
  intros key tie_up R M xc yc values img r c g Hr Hc.
  pose proof (process_rows key tie_up R M xc yc values img r c Hr Hc) as H. fold g in H.
  destruct (prox_of g r c) as [|e].
  - split; auto.
  - destruct H as (t & _ & Hi). rewrite Hi. split; discriminate.
Qed.
Print Assumptions C06_nan_consistent.

(* a cell with no target within max_distance is NaN in all three outputs *)
Theorem C06_nan_beyond_max_distance :
  forall key tie_up R M xc yc values img r c,
  let g := process key tie_up R M xc yc values img in
  let h := lenZ img in let w := lenZ (nthZ [] img 0) in
  coords_ok xc w -> coords_ok yc h -> key_self0_on key xc yc -> ele (EFin 0) M = true ->
  0 <= r < h -> 0 <= c < w ->
  (forall tr tc d, is_target values (cellv img tr tc) = true ->
                   dist2 key xc yc tr tc r c = Some d -> ele (EFin d) M = false) ->
  prox_of g r c = LUnset /\ index_of g r c = None /\ alloc_of img g r c = XNaN.
Proof.
  intros key tie_up R M xc yc values img r c g h w Hx Hy Hk HM Hr Hc Hfar.
  assert (H1 : prox_of g r c = LUnset).
  { destruct (prox_of g r c) as [|e] eqn:Ep; auto.
    destruct (named_target key tie_up R M xc yc values img Hx Hy Hk HM r c e Hr Hc Ep)
      as (tr & tc & d & _ & HT & Hd & _ & Hm).
    rewrite (Hfar tr tc d HT Hd) in Hm. discriminate. }
  assert (H2 : index_of g r c = None).
  { pose proof (process_rows key tie_up R M xc yc values img r c Hr Hc) as H. fold g in H.
    rewrite H1 in H. exact H. }
  unfold alloc_of. rewrite H2. auto.
Qed.
Print Assumptions C06_nan_beyond_max_distance.

(* with at least one target and unbounded max_distance (R = M = +inf) no cell is NaN - in any of the
   three outputs (by C06_nan_consistent) *)
Theorem C06_no_nan_unbounded :
  forall key tie_up xc yc values img r0 c0 r c,
  let g := process key tie_up EInf EInf xc yc values img in
  let h := lenZ img in let w := lenZ (nthZ [] img 0) in
  coords_ok xc w -> coords_ok yc h -> rect img ->
  is_target values (cellv img r0 c0) = true ->
  0 <= r < h -> 0 <= c < w ->
  prox_of g r c <> LUnset /\ index_of g r c <> None.
Proof.
  intros key tie_up xc yc values img r0 c0 r c g h w Hx Hy Hrect HT Hr Hc.
  assert (H1 : prox_of g r c <> LUnset)
    by exact (fill_final key tie_up xc yc values img Hx Hy Hrect r0 c0 HT r c Hr Hc).
  split; auto. intros Hn. apply H1.
  pose proof (process_rows key tie_up EInf EInf xc yc values img r c Hr Hc) as H. fold g in H.
  destruct (prox_of g r c) as [|e]; auto.
  destruct H as (t & _ & Hi). congruence.
Qed.
Print Assumptions C06_no_nan_unbounded.

(* single target, unbounded max_distance: every cell gets exactly the distance to that target,
   remembers it, and allocation reports its value *)
Theorem C06_single_target_exact :
  forall key tie_up xc yc values img r0 c0 r c,
  let g := process key tie_up EInf EInf xc yc values img in
  let h := lenZ img in let w := lenZ (nthZ [] img 0) in
  coords_ok xc w -> coords_ok yc h -> rect img -> key_self0_on key xc yc ->
  is_target values (cellv img r0 c0) = true ->
  (forall r' c', is_target values (cellv img r' c') = true -> r' = r0 /\ c' = c0) ->
  0 <= r < h -> 0 <= c < w ->
  exists d, dist2 key xc yc r0 c0 r c = Some d /\ prox_of g r c = LVal (EFin d) /\
            index_of g r c = Some (r0, c0) /\ alloc_of img g r c = cellv img r0 c0.
Proof.
  intros key tie_up xc yc values img r0 c0 r c g h w Hx Hy Hrect Hk HT Huniq Hr Hc.
  assert (H1 : prox_of g r c <> LUnset)
    by exact (fill_final key tie_up xc yc values img Hx Hy Hrect r0 c0 HT r c Hr Hc).
  destruct (prox_of g r c) as [|e] eqn:Ep; [congruence|].
  destruct (named_target key tie_up EInf EInf xc yc values img Hx Hy Hk eq_refl r c e Hr Hc Ep)
    as (tr & tc & d & Hi & HTt & Hd & He & _).
  destruct (Huniq tr tc HTt) as (-> & ->).
  exists d. subst e. unfold alloc_of. subst g. rewrite Hi. auto.
Qed.
Print Assumptions C06_single_target_exact.

(* ---- direction: the bearing of _calc_direction (C06/Bearing.v: binary64 arithmetic, libm atan2 a parameter,
   float32 store) to the SAME remembered target that proximity and allocation name ---- *)
Theorem C06_direction_names_same_target :
  forall atan2 key tie_up R M xc yc values img fxs fys r c e,
  let g := process key tie_up R M xc yc values img in
  let h := lenZ img in let w := lenZ (nthZ [] img 0) in
  coords_ok xc w -> coords_ok yc h -> key_self0_on key xc yc -> ele (EFin 0) M = true ->
  0 <= r < h -> 0 <= c < w ->
  prox_of g r c = LVal e ->
  exists tr tc d,
    index_of g r c = Some (tr, tc) /\ is_target values (cellv img tr tc) = true /\
    dist2 key xc yc tr tc r c = Some d /\ e = EFin d /\
    alloc_of img g r c = cellv img tr tc /\
    direction_of atan2 fxs fys g r c =
      calc_direction atan2 (nthZ nan fxs c) (nthZ nan fxs tc) (nthZ nan fys r) (nthZ nan fys tr).
Proof.
  intros atan2 key tie_up R M xc yc values img fxs fys r c e g h w Hx Hy Hk HM Hr Hc He.
  destruct (named_target key tie_up R M xc yc values img Hx Hy Hk HM r c e Hr Hc He)
    as (tr & tc & d & Hi & HT & Hd & He' & Hm).
  exists tr, tc, d. unfold alloc_of, direction_of. subst g. rewrite Hi. simpl. repeat split; auto.
Qed.
Print Assumptions C06_direction_names_same_target.

(* the direction output is NaN exactly where proximity is NaN *)
Theorem C06_direction_nan_iff :
  forall atan2 key tie_up R M xc yc values img fxs fys r c,
  let g := process key tie_up R M xc yc values img in
  0 <= r < lenZ img -> 0 <= c < lenZ (nthZ [] img 0) ->
  prox_of g r c = LUnset -> direction_of atan2 fxs fys g r c = S754_nan.
Proof.
  intros atan2 key tie_up R M xc yc values img fxs fys r c g Hr Hc Hp.
  pose proof (process_rows key tie_up R M xc yc values img r c Hr Hc) as H. fold g in H.
  rewrite Hp in H. unfold direction_of. rewrite H. reflexivity.
Qed.
Print Assumptions C06_direction_nan_iff.

(* 0 for the cell itself; exactly 90 / 180 / 270 / 360 for a target straight along +x / +y / -x / -y
   (premises: the C99 Annex F values of atan2 on the axes) *)
Theorem C06_bearing_axes :
  forall atan2,
  (forall x, (0 <? x)%float = true -> atan2 0%float x = 0%float /\ atan2 (-0)%float x = (-0)%float) ->
  (forall x, (x <? 0)%float = true -> atan2 0%float x = PI /\ atan2 (-0)%float x = (- PI)%float) ->
  (forall y x, (0 <? y)%float = true -> fzero x -> atan2 y x = PIO2) ->
  (forall y x, (y <? 0)%float = true -> fzero x -> atan2 y x = (- PIO2)%float) ->
  forall x1 x2 y1 y2,
  (is_self x1 x2 y1 y2 = true -> calc_direction atan2 x1 x2 y1 y2 = S754_zero false) /\
  (is_self x1 x2 y1 y2 = false ->
     ((0 <? x2 - x1)%float = true -> fzero (y2 - y1)%float -> calc_direction atan2 x1 x2 y1 y2 = b32_of_Z 90) /\
     ((0 <? y2 - y1)%float = true -> fzero (x2 - x1)%float -> calc_direction atan2 x1 x2 y1 y2 = b32_of_Z 180) /\
     ((x2 - x1 <? 0)%float = true -> fzero (y2 - y1)%float -> calc_direction atan2 x1 x2 y1 y2 = b32_of_Z 270) /\
     ((y2 - y1 <? 0)%float = true -> fzero (x2 - x1)%float -> calc_direction atan2 x1 x2 y1 y2 = b32_of_Z 360)).
Proof.
  intros atan2 H1 H2 H3 H4 x1 x2 y1 y2. split.
  - apply direction_self.
  - intros Hs. repeat split; intros.
    + apply direction_east; auto.
    + apply direction_south; auto.
    + apply direction_west; auto.
    + apply direction_north; auto.
Qed.
Print Assumptions C06_bearing_axes.

(* a non-self target gets a direction in (0, 360] (premise: atan2 of finite arguments is finite with magnitude
   <= the double nearest pi); the strict lower bound needs atan2(-y, x) * 57.29578 <> 90.0 exactly - see the
   witness C06_bearing_zero_nonself_witness *)
Theorem C06_bearing_range :
  forall atan2,
  (forall y x, PrimFloat.is_finite y = true -> PrimFloat.is_finite x = true ->
     PrimFloat.is_finite (atan2 y x) = true /\ (abs (atan2 y x) <=? PI)%float = true) ->
  forall x1 x2 y1 y2,
  is_self x1 x2 y1 y2 = false ->
  PrimFloat.is_finite (x2 - x1)%float = true -> PrimFloat.is_finite (y2 - y1)%float = true ->
  let r := calc_direction atan2 x1 x2 y1 y2 in
  SFleb (S754_zero false) r = true /\ SFleb r (b32_of_Z 360) = true /\
  ((atan2 (- (y2 - y1)) (x2 - x1) * DEG =? 90)%float = false -> SFltb (S754_zero false) r = true).
Proof. exact direction_range. Qed.
Print Assumptions C06_bearing_range.

(* direction = 0 iff the cell is its own target (same premises) *)
Theorem C06_bearing_zero_iff_self :
  forall atan2,
  (forall y x, PrimFloat.is_finite y = true -> PrimFloat.is_finite x = true ->
     PrimFloat.is_finite (atan2 y x) = true /\ (abs (atan2 y x) <=? PI)%float = true) ->
  forall x1 x2 y1 y2,
  (is_self x1 x2 y1 y2 = false ->
     PrimFloat.is_finite (x2 - x1)%float = true /\ PrimFloat.is_finite (y2 - y1)%float = true /\
     (atan2 (- (y2 - y1)) (x2 - x1) * DEG =? 90)%float = false) ->
  (calc_direction atan2 x1 x2 y1 y2 = S754_zero false <-> is_self x1 x2 y1 y2 = true).
Proof. exact direction_zero_iff_self. Qed.
Print Assumptions C06_bearing_zero_iff_self.

(* the libm premises are satisfiable: a function with the C99 axis values, finite and bounded by pi elsewhere *)
Definition toy_atan2 (y x : float) : float :=
  if (y =? 0)%float then
    (if (0 <? x)%float then y
     else if (x <? 0)%float then (if (get_sign y) then (- PI)%float else PI) else y)
  else if (x =? 0)%float then (if (0 <? y)%float then PIO2 else if (y <? 0)%float then (- PIO2)%float else 0%float)
  else 1%float.
Example C06_bearing_premises_satisfiable :
  toy_atan2 0%float 2%float = 0%float /\ toy_atan2 (-0)%float 2%float = (-0)%float /\
  toy_atan2 0%float (-2)%float = PI /\ toy_atan2 (-0)%float (-2)%float = (- PI)%float /\
  toy_atan2 3%float 0%float = PIO2 /\ toy_atan2 (-3)%float (-0)%float = (- PIO2)%float /\
  map (fun q => calc_direction toy_atan2 (fst (fst q)) (snd (fst q)) (fst (snd q)) (snd (snd q)))
      [((1, 1), (5, 5)); ((1, 4), (5, 5)); ((1, 1), (5, 7)); ((4, 1), (5, 5)); ((1, 1), (7, 5))]%float
  = [S754_zero false; b32_of_Z 90; b32_of_Z 180; b32_of_Z 270; b32_of_Z 360].
Proof. vm_compute. repeat split. Qed.

(* boundary witness (the implementation behaves the same: rounding at the 0/360 seam, the target is due north up to 1.5e-6 degrees): when atan2 returns the double
   0x1.921fb50aed4d0p+0 (so that the product with 57.29578 rounds to exactly 90.0) a NON-self target gets direction 0 *)
Example C06_bearing_zero_nonself_witness :
  let at2 := fun _ _ : float => 0x1.921fb50aed4d0p+0%float in
  is_self 0 0x1.caac24234c3ffp-27 1 0 = false /\
  calc_direction at2 0 0x1.caac24234c3ffp-27 1 0 = S754_zero false.
Proof. vm_compute. split; reflexivity. Qed.

(* ---- GREAT_CIRCLE: every theorem above is generic in [key]; with key := gc_key sin cos asin (C06/Metric.v) the only
   premise about the metric they use, key_self0_on, follows from three libm premises ---- *)
Theorem C06_great_circle_key_self0 :
  forall sin cos asin : float -> float,
  sin 0%float = 0%float -> asin 0%float = 0%float ->
  (forall v, PrimFloat.is_finite v = true ->
     PrimFloat.is_finite (cos v) = true /\ (abs (cos v) <=? 1)%float = true) ->
  forall xc yc,
  (forall i x, coord xc i = Some x -> PrimFloat.is_finite (Z_to_float x * DEG2RAD)%float = true) ->
  (forall j y, coord yc j = Some y -> PrimFloat.is_finite (Z_to_float y * DEG2RAD)%float = true) ->
  key_self0_on (gc_key sin cos asin) xc yc.
Proof.
  intros sin cos asin Hs Ha Hc xc yc Hx Hy i j x y Ex Ey.
  apply gc_key_self; eauto.
Qed.
Print Assumptions C06_great_circle_key_self0.

(* the GREAT_CIRCLE premises are satisfiable (toy libm: sin v = asin v = v, cos v = 1), and the key then behaves as a key *)
Example C06_great_circle_premises_satisfiable :
  let sin := fun v : float => v in let asin := fun v : float => v in let cos := fun _ : float => 1%float in
  sin 0%float = 0%float /\ asin 0%float = 0%float /\
  (PrimFloat.is_finite (cos 7%float) = true /\ (abs (cos 7%float) <=? 1)%float = true) /\
  gc_key sin cos asin 10 10 (-20) (-20) = 0 /\ 0 < gc_key sin cos asin 10 11 (-20) (-20) < gc_key sin cos asin 10 12 (-20) (-20).
Proof. vm_compute. repeat split; congruence. Qed.

(* bounded supplement (vm_compute): for EVERY target layout on EVERY grid up to 3x4 / 4x3 with unit
   cells, EUCLIDEAN, max_distance in {inf, 1, sqrt 2, 2}: proximity = exact brute-force nearest
   distance (NaN exactly when it exceeds max_distance) *)
Theorem C06_bounded_exact_small :
  forall s rm img, In s small_shapes -> In rm small_thresholds -> In img (shape_layouts s) ->
  exact_at (fun _ => false) s rm img = true.
Proof. exact all_exact_forall. Qed.
Print Assumptions C06_bounded_exact_small.

(* ---- unclaimed: exactness for all layouts; refuted by the witness below ---- *)
Definition C06_exact_full_statement : Prop :=
  forall xc yc img r c, 0 <= r < lenZ img -> 0 <= c < lenZ (nthZ [] img 0) ->
    prox_of (process (metric_of_key key_euclid) (fun _ => false) EInf EInf xc yc [] img) r c =
    expected EInf (brute (metric_of_key key_euclid) xc yc [] img r c).
Example C06_not_exact_witness : ~ C06_exact_full_statement.
Proof.
  intros H. apply witness_neq. apply H; vm_compute; split; congruence.
Qed.

(* ---- non-vacuity: concrete inputs satisfy the hypotheses; the model computes the expected cells ---- *)
Example C06_nonvacuous :
  let xc := map Some [10; 12; 14] in let yc := map Some [5; 4] in
  let img := [[XFin 0; XFin 7; XFin 0]; [XFin 0; XFin 0; XNaN]] in
  coords_ok xc 3 /\ coords_ok yc 2 /\ coords_inj xc 3 /\ coords_inj yc 2 /\ rect img /\
  key_pd (metric_of_key key_euclid) /\ key_pd (metric_of_key key_manhattan) /\
  let g := process (metric_of_key key_euclid) (fun _ => false) (EFin 9) (EFin 4) xc yc [] img in
  map (fun c => prox_of g 0 c) [0; 1; 2] = [LVal (EFin 4); LVal (EFin 0); LVal (EFin 4)] /\
  map (fun c => prox_of g 1 c) [0; 1; 2] = [LUnset; LVal (EFin 1); LUnset] /\
  map (fun c => index_of g 1 c) [0; 1; 2] = [None; Some (0, 1); None] /\
  alloc_of img g 1 1 = XFin 7.
Proof.
  cbv zeta.
  assert (Hok : forall l n, (forall i, 0 <= i < n -> nthZ None l i <> None) -> coords_ok l n).
  { intros l n H i Hi. unfold coord. specialize (H i Hi). destruct (nthZ None l i); [eauto|congruence]. }
  split; [apply Hok; intros i Hi; assert (i = 0 \/ i = 1 \/ i = 2) as [->|[->| ->]] by lia; discriminate|].
  split; [apply Hok; intros i Hi; assert (i = 0 \/ i = 1) as [->| ->] by lia; discriminate|].
  split; [intros i j Hi Hj; assert (i = 0 \/ i = 1 \/ i = 2) as [->|[->| ->]] by lia;
          assert (j = 0 \/ j = 1 \/ j = 2) as [->|[->| ->]] by lia; vm_compute; congruence|].
  split; [intros i j Hi Hj; assert (i = 0 \/ i = 1) as [->| ->] by lia;
          assert (j = 0 \/ j = 1) as [->| ->] by lia; vm_compute; congruence|].
  split; [intros r Hr; assert (r = 0 \/ r = 1) as [->| ->] by (unfold lenZ in Hr; simpl in Hr; lia); reflexivity|].
  split; [unfold key_pd, metric_of_key, key_euclid; intros x1 x2 y1 y2; split;
          [intros H; pose proof (Z.square_nonneg (x1 - x2)); pose proof (Z.square_nonneg (y1 - y2));
           assert (Ha : (x1 - x2) * (x1 - x2) = 0) by lia; assert (Hb : (y1 - y2) * (y1 - y2) = 0) by lia;
           apply Z.mul_eq_0 in Ha; apply Z.mul_eq_0 in Hb; lia
          |intros [-> ->]; rewrite !Z.sub_diag; reflexivity]|].
  split; [unfold key_pd, metric_of_key, key_manhattan; intros x1 x2 y1 y2; split;
          [intros H; apply Z.mul_eq_0 in H; lia
          |intros [-> ->]; rewrite !Z.sub_diag; reflexivity]|].
  vm_compute. repeat split.
Qed.
