Require Import Base.Prelude Base.XVal C06.Model C06.Proofs.
