(* C06/ProofsFill.v — invariant I4 of DESIGN.md §12: with unbounded max_distance (R = M = +inf)
   a set pan_near entry is never forgotten and spreads along every scan line, so one target
   anywhere fills every cell; corollary: a single target is found exactly. *)
Require Import Base.Prelude Base.XVal C06.Model C06.Proofs C06.ProofsSpec.

Lemma fold_left_map {A B C} (f : A -> B -> A) (g : C -> B) l a :
  fold_left f (map g l) a = fold_left (fun a c => f a (g c)) l a.
Proof. revert a; induction l as [|c l IH]; intros a; simpl; auto. Qed.

Lemma ele_inf n : ele n EInf = true.
Proof. destruct n; reflexivity. Qed.

Definition setp (p : Z * Z) : Prop := unset p = false.

Section Fill.
  Variable key : Z -> Z -> Z -> Z -> Z.
  Variable tie_up : Z -> bool.
  Variables xc yc : list (option Z).
  Variable values : list xv.
  Variable img : list (list xv).
  Let h := lenZ img.
  Let w := lenZ (nthZ [] img 0).
  Hypothesis Hx : coords_ok xc w.
  Hypothesis Hy : coords_ok yc h.
  Hypothesis Hrect : rect img.

  Notation is_target := (is_target values).
  Notation dist2 := (dist2 key xc yc).
  Notation step_pixel := (step_pixel key tie_up EInf EInf xc yc values).
  Notation process_line := (process_line key tie_up EInf EInf xc yc values).
  Notation cand := (cand key xc yc).
  Notation okp := (okp values img).
  Notation J := (J key EInf xc yc values img w).

  Lemma target_dist p ln pixel : okp p -> setp p -> 0 <= ln < h -> 0 <= pixel < w ->
    exists d, dist2 (snd p) (fst p) ln pixel = Some d.
  Proof.
    intros [Hu|HT] Hs Hl Hp; [unfold setp in Hs; congruence|].
    destruct (Tgt_inbounds _ _ _ _ HT) as (Hr & Hc). rewrite Hrect in Hc by auto.
    unfold Model.dist2.
    destruct (Hx _ Hc) as (x1 & ->). destruct (Hx _ Hp) as (x2 & ->).
    destruct (Hy _ Hr) as (y1 & ->). destruct (Hy _ Hl) as (y2 & ->). eauto.
  Qed.

  (* candidate chain state: an unset entry still has the initial bound +inf *)
  Definition A (pixel : Z) (st : ext * list (Z * Z)) : Prop :=
    lenZ (snd st) = w /\ Forall okp (snd st) /\
    (unset (nthZ NONE (snd st) pixel) = true -> fst st = EInf).

  Lemma cand_other ln pixel guard j st c : c <> pixel ->
    nthZ NONE (snd (cand ln pixel guard j st)) c = nthZ NONE (snd st) c.
  Proof.
    intros Hne. destruct st as [nds pn]; unfold Model.cand.
    destruct (guard && _); simpl; auto.
    destruct (closer _ nds); simpl; auto. apply nthZ_updZ_other; lia.
  Qed.

  Lemma cand_A ln pixel guard j st : 0 <= pixel < w -> A pixel st -> A pixel (cand ln pixel guard j st).
  Proof.
    intros Hp (Hl & Hf & Hn). destruct st as [nds pn]; unfold Model.cand; simpl in *.
    destruct (guard && negb (unset (nthZ NONE pn j))) eqn:Eg; [|repeat split; auto].
    destruct (closer _ nds) as [a|] eqn:Ec; [|repeat split; auto].
    apply andb_true_iff in Eg as [_ Eu]. apply negb_true_iff in Eu.
    unfold A; simpl. split; [unfold lenZ in *; rewrite updZ_length; auto|].
    split; [apply Forall_updZ; auto; apply Forall_nthZ; auto; left; reflexivity|].
    rewrite nthZ_updZ_same by lia. congruence.
  Qed.

  Lemma cand_keep ln pixel guard j st : 0 <= pixel < w -> A pixel st ->
    setp (nthZ NONE (snd st) pixel) -> setp (nthZ NONE (snd (cand ln pixel guard j st)) pixel).
  Proof.
    intros Hp (Hl & Hf & Hn) Hs. destruct st as [nds pn]; unfold Model.cand; simpl in *.
    destruct (guard && negb (unset (nthZ NONE pn j))) eqn:Eg; auto.
    destruct (closer _ nds) as [a|] eqn:Ec; auto. simpl.
    apply andb_true_iff in Eg as [_ Eu]. apply negb_true_iff in Eu.
    rewrite nthZ_updZ_same by lia. exact Eu.
  Qed.

  Lemma cand_spread ln pixel j st : 0 <= pixel < w -> 0 <= ln < h -> A pixel st ->
    setp (nthZ NONE (snd st) j) -> setp (nthZ NONE (snd (cand ln pixel true j st)) pixel).
  Proof.
    intros Hp Hln (Hl & Hf & Hn) Hs. destruct st as [nds pn]; unfold Model.cand; simpl in *.
    unfold setp in Hs. rewrite Hs. simpl.
    assert (Hok : okp (nthZ NONE pn j)) by (apply Forall_nthZ; auto; left; reflexivity).
    destruct (target_dist _ ln pixel Hok Hs Hln Hp) as (d & Hd). rewrite Hd.
    destruct (unset (nthZ NONE pn pixel)) eqn:Eu.
    - rewrite (Hn eq_refl). simpl. rewrite nthZ_updZ_same by lia. exact Hs.
    - destruct (closer (Some d) nds); simpl; auto. rewrite nthZ_updZ_same by lia. exact Hs.
  Qed.

  Section Step.
    Variables (src : list xv) (ln start end_ step : Z) (orow : list (option (Z * Z))).
    Hypothesis Hsrc : src = nthZ [] img ln.
    Hypothesis Hln : 0 <= ln < h.
    Hypothesis Hstep : step = 1 \/ step = -1.

    Lemma step_pan_other s pixel c : c <> pixel ->
      nthZ NONE (pan (step_pixel src ln start end_ step s pixel)) c = nthZ NONE (pan s) c.
    Proof.
      intros Hne. unfold Model.step_pixel. destruct (is_target _); simpl.
      - apply nthZ_updZ_other; lia.
      - match goal with |- nthZ NONE (pan (if ?b then _ else _)) c = _ => destruct b end; simpl;
          rewrite !cand_other by auto;
          (destruct (negb (unset (nthZ NONE (pan s) pixel))); simpl; auto;
           destruct (closer _ EInf); simpl; auto; apply nthZ_updZ_other; lia).
    Qed.

    Lemma step_lp_keep s pixel c : nthZ LUnset (lp s) c <> LUnset ->
      nthZ LUnset (lp (step_pixel src ln start end_ step s pixel)) c <> LUnset.
    Proof.
      intros Hc. destruct (Z.eq_dec c pixel) as [->|Hne].
      - destruct (Z_lt_ge_dec pixel 0) as [Hneg|Hnn].
        { unfold nthZ in Hc. destruct (pixel <? 0) eqn:E; [congruence|lia]. }
        destruct (Z_lt_ge_dec pixel (lenZ (lp s))) as [Hlt|Hge].
        + unfold Model.step_pixel. destruct (is_target _); simpl.
          * rewrite nthZ_updZ_same by lia. discriminate.
          * match goal with |- nthZ LUnset (lp (if ?b then _ else _)) _ <> _ => destruct b end; simpl; auto.
            rewrite nthZ_updZ_same by lia. discriminate.
        + rewrite nthZ_out in Hc by lia. congruence.
      - rewrite step_pixel_lp_other by auto. exact Hc.
    Qed.

    (* the pixel's own entry after its step *)
    Lemma step_set s pixel : J ln orow s -> 0 <= pixel < w ->
      (is_target (nthZ XNaN src pixel) = true \/ setp (nthZ NONE (pan s) pixel) \/
       (pixel <> start /\ setp (nthZ NONE (pan s) (pixel - step)))) ->
      setp (nthZ NONE (pan (step_pixel src ln start end_ step s pixel)) pixel).
    Proof.
      intros (Hl1 & Hl2 & Hl3 & Hpan & Hnear & _) Hp Hcase.
      unfold Model.step_pixel.
      destruct (is_target (nthZ XNaN src pixel)) eqn:Et; simpl.
      - rewrite !nthZ_updZ_same by lia.
        unfold setp, unset; simpl. destruct (pixel =? -1) eqn:E; [lia|reflexivity].
      - destruct Hcase as [Hc|Hcase]; [discriminate|].
        set (p0 := nthZ NONE (pan s) pixel) in *.
        set (st1 := if negb (unset p0)
                    then match closer (dist2 (snd p0) (fst p0) ln pixel) EInf with
                         | Some a => (EFin a, pan s)
                         | None => (EInf, updZ (pan s) pixel NONE)
                         end
                    else (EInf, pan s)).
        assert (A1 : A pixel st1 /\ (setp p0 -> setp (nthZ NONE (snd st1) pixel)) /\
                     (forall c, c <> pixel -> nthZ NONE (snd st1) c = nthZ NONE (pan s) c)).
        { unfold st1. destruct (unset p0) eqn:Eu; simpl.
          - split; [repeat split; auto|]. split; [unfold setp; congruence|auto].
          - assert (Hok : okp p0) by (apply Forall_nthZ; auto; left; reflexivity).
            destruct (target_dist _ ln pixel Hok Eu Hln Hp) as (d & Hd). rewrite Hd. simpl.
            split; [|split; auto].
            unfold A; simpl. split; [auto|]. split; [auto|].
            intros Hu. change (nthZ NONE (pan s) pixel) with p0 in Hu. congruence. }
        destruct A1 as (A1 & Hk1 & Ho1).
        set (st2 := cand ln pixel (negb (pixel =? start)) (pixel - step) st1).
        assert (A2 : A pixel st2) by (apply cand_A; auto).
        set (st3 := cand ln pixel (negb (pixel + step =? end_)) (pixel + step) st2).
        assert (Hset3 : setp (nthZ NONE (snd st3) pixel)).
        { apply cand_keep; auto. destruct Hcase as [Hs0|(Hns & Hsl)].
          - apply cand_keep; auto.
          - unfold st2. replace (negb (pixel =? start)) with true
              by (symmetry; apply negb_true_iff; lia).
            apply cand_spread; auto. rewrite Ho1 by lia. exact Hsl. }
        match goal with |- setp (nthZ NONE (pan (if ?b then _ else _)) _) => destruct b end; simpl; exact Hset3.
    Qed.

    (* with M = +inf a set pan_near entry always gives the pixel a distance *)
    Lemma step_lp_set s pixel : J ln orow s -> 0 <= pixel < w ->
      setp (nthZ NONE (pan (step_pixel src ln start end_ step s pixel)) pixel) ->
      nthZ LUnset (lp (step_pixel src ln start end_ step s pixel)) pixel <> LUnset.
    Proof.
      intros (Hl1 & Hl2 & Hl3 & Hpan & Hnear & _) Hp.
      unfold Model.step_pixel.
      destruct (is_target (nthZ XNaN src pixel)) eqn:Et; simpl.
      - intros _. rewrite !nthZ_updZ_same by lia. discriminate.
      - match goal with |- context [cand ln pixel ?g3 ?j3 (cand ln pixel ?g2 ?j2 ?st1)] =>
          set (st3 := cand ln pixel g3 j3 (cand ln pixel g2 j2 st1)) end.
        clearbody st3.
        destruct (unset (nthZ NONE (snd st3) pixel)) eqn:Eu; simpl.
        + unfold setp. congruence.
        + intros _. rewrite ele_inf. simpl.
          destruct (nthZ LUnset (lp s) pixel) as [|m] eqn:El.
          * simpl. rewrite nthZ_updZ_same by lia. discriminate.
          * destruct (lt_sq tie_up (fst st3) m); simpl.
            -- rewrite nthZ_updZ_same by lia. discriminate.
            -- rewrite El. discriminate.
    Qed.
  End Step.

  (* ---- one call of _process_proximity_line ---- *)
  Definition before (fwd : bool) (c0 c : Z) : Prop := if fwd then c0 <= c else c <= c0.

  Lemma line_fill src fwd ln orow s :
    src = nthZ [] img ln -> 0 <= ln < h -> J ln orow s ->
    let s' := process_line src fwd ln w s in
    J ln orow s' /\
    (forall c c0, 0 <= c < w -> 0 <= c0 < w -> before fwd c0 c ->
       (setp (nthZ NONE (pan s) c0) \/ is_target (nthZ XNaN src c0) = true) ->
       setp (nthZ NONE (pan s') c)) /\
    (forall c, 0 <= c < w -> setp (nthZ NONE (pan s') c) -> nthZ LUnset (lp s') c <> LUnset) /\
    (forall c, nthZ LUnset (lp s) c <> LUnset -> nthZ LUnset (lp s') c <> LUnset).
  Proof.
    intros Hsrc Hln HJ. cbv zeta. unfold Model.process_line.
    set (start := if fwd then 0 else w - 1).
    set (end_ := if fwd then w else -1).
    set (step := if fwd then 1 else -1).
    assert (Hstep : step = 1 \/ step = -1) by (unfold step; destruct fwd; auto).
    assert (Hw : 0 <= w) by apply lenZ_nonneg.
    set (pos := fun k => start + step * k).
    unfold pixels. rewrite fold_left_map. fold pos.
    set (f := fun a c => step_pixel src ln start end_ step a (pos c)).
    set (P := fun k a =>
      J ln orow a /\
      (forall j, k <= j < w -> nthZ NONE (pan a) (pos j) = nthZ NONE (pan s) (pos j)) /\
      (forall j j0, 0 <= j < k -> 0 <= j0 <= j ->
         (setp (nthZ NONE (pan s) (pos j0)) \/ is_target (nthZ XNaN src (pos j0)) = true) ->
         setp (nthZ NONE (pan a) (pos j))) /\
      (forall j, 0 <= j < k -> setp (nthZ NONE (pan a) (pos j)) -> nthZ LUnset (lp a) (pos j) <> LUnset) /\
      (forall c, nthZ LUnset (lp s) c <> LUnset -> nthZ LUnset (lp a) c <> LUnset)).
    assert (Hpos : forall j, 0 <= j < w -> 0 <= pos j < w)
      by (intros j Hj; unfold pos, start, step; destruct fwd; lia).
    assert (Hinj : forall i j, i <> j -> pos i <> pos j)
      by (intros i j Hij; unfold pos, step; destruct fwd; lia).
    assert (HP : P (0 + Z.of_nat (Z.to_nat w)) (fold_left f (ziota 0 (Z.to_nat w)) s)).
    { apply fold_left_ziota_inv with (P := P).
      - unfold P. split; [auto|]. split; [auto|]. split; [intros; lia|]. split; [intros; lia|auto].
      - intros k a Hk (Ja & Hun & Hsp & Hlp & Hkeep). unfold P, f.
        assert (Hpk : 0 <= pos k < w) by (apply Hpos; lia).
        split; [apply step_pixel_J; auto|].
        split; [intros j Hj; rewrite step_pan_other by (apply Hinj; lia); apply Hun; lia|].
        assert (Hown : forall j0, 0 <= j0 <= k ->
                  (setp (nthZ NONE (pan s) (pos j0)) \/ is_target (nthZ XNaN src (pos j0)) = true) ->
                  setp (nthZ NONE (pan (step_pixel src ln start end_ step a (pos k))) (pos k))).
        { intros j0 Hj0 Hseed. apply step_set with (orow := orow); auto.
          destruct (Z.eq_dec j0 k) as [->|Hne].
          - destruct Hseed as [Hs|Ht]; [|left; exact Ht].
            right; left. rewrite Hun by lia. exact Hs.
          - right; right. split; [replace start with (pos 0) by (unfold pos; lia); apply Hinj; lia|].
            replace (pos k - step) with (pos (k - 1)) by (unfold pos; lia).
            apply (Hsp (k - 1) j0); auto; lia. }
        split; [|split].
        + intros j j0 Hj Hj0 Hseed. destruct (Z.eq_dec j k) as [->|Hne].
          * apply (Hown j0 Hj0 Hseed).
          * rewrite step_pan_other by (apply Hinj; lia). apply (Hsp j j0); auto; lia.
        + intros j Hj Hs. destruct (Z.eq_dec j k) as [->|Hne].
          * apply step_lp_set with (orow := orow); auto.
          * rewrite step_pan_other in Hs by (apply Hinj; lia).
            apply step_lp_keep. apply Hlp; auto; lia.
        + intros c Hc. apply step_lp_keep. apply Hkeep; auto. }
    replace (0 + Z.of_nat (Z.to_nat w)) with w in HP by lia.
    destruct HP as (Ja & _ & Hsp & Hlp & Hkeep).
    split; [exact Ja|]. split; [|split; [|exact Hkeep]].
    - intros c c0 Hc Hc0 Hb Hseed.
      set (j := if fwd then c else w - 1 - c). set (j0 := if fwd then c0 else w - 1 - c0).
      assert (Hcj : pos j = c) by (unfold pos, j, start, step; destruct fwd; lia).
      assert (Hcj0 : pos j0 = c0) by (unfold pos, j0, start, step; destruct fwd; lia).
      rewrite <- Hcj. apply (Hsp j j0).
      + unfold j; destruct fwd; lia.
      + unfold j, j0, before in *; destruct fwd; lia.
      + rewrite Hcj0. exact Hseed.
    - intros c Hc Hs.
      set (j := if fwd then c else w - 1 - c).
      assert (Hcj : pos j = c) by (unfold pos, j, start, step; destruct fwd; lia).
      rewrite <- Hcj in *. apply Hlp; auto. unfold j; destruct fwd; lia.
  Qed.

  (* ---- the two calls on one row (either order) ---- *)

  Lemma two_calls_fill src d ln orow s0 :
    src = nthZ [] img ln -> 0 <= ln < h -> lenZ orow = w -> J ln orow s0 ->
    let s1 := process_line src d ln w s0 in
    let s2 := process_line src (negb d) ln w (mkL (pan s1) (lp s1) (fill w NONE)) in
    (forall c, nthZ LUnset (lp s0) c <> LUnset -> nthZ LUnset (lp s2) c <> LUnset) /\
    ((exists c0, 0 <= c0 < w /\ (setp (nthZ NONE (pan s0) c0) \/ is_target (nthZ XNaN src c0) = true)) ->
     forall c, 0 <= c < w -> setp (nthZ NONE (pan s2) c) /\ nthZ LUnset (lp s2) c <> LUnset).
  Proof.
    intros Hsrc Hln Ho J0. cbv zeta.
    destruct (line_fill src d ln orow s0 Hsrc Hln J0) as (J1 & Hsp1 & Hlp1 & Hk1).
    set (s1 := process_line src d ln w s0) in *.
    destruct (J_flush key tie_up EInf xc yc values img w (lenZ_nonneg _) ln orow s1 Ho J1) as (J1' & _ & Ho1).
    destruct (line_fill src (negb d) ln _ _ Hsrc Hln J1') as (J2 & Hsp2 & Hlp2 & Hk2).
    simpl pan in *. simpl lp in *.
    set (s2 := process_line src (negb d) ln w _) in *.
    split; [intros c Hc; apply Hk2, Hk1, Hc|].
    intros (c0 & Hc0 & Hseed) c Hc.
    assert (Hset : setp (nthZ NONE (pan s2) c)).
    { assert (H0 : setp (nthZ NONE (pan s1) c0)) by (apply (Hsp1 c0 c0); auto; unfold before; destruct d; lia).
      destruct (Z_le_gt_dec c0 c) as [Hle|Hgt].
      - destruct d.
        + (* first call forward reaches c; second keeps it *)
          apply (Hsp2 c c); auto; try (unfold before; simpl; lia). left.
          apply (Hsp1 c c0); auto; try (unfold before; lia).
        + (* first call backward set c0; second (forward) spreads from c0 *)
          apply (Hsp2 c c0); auto; try (unfold before; simpl; lia).
      - destruct d.
        + apply (Hsp2 c c0); auto; try (unfold before; simpl; lia).
        + apply (Hsp2 c c); auto; try (unfold before; simpl; lia). left.
          apply (Hsp1 c c0); auto; try (unfold before; lia). }
    split; auto.
  Qed.

  (* ---- the passes ---- *)
  Variables r0 c0 : Z.
  Hypothesis HT0 : Tgt values img r0 c0.

  Notation GD := (GD key EInf xc yc values img w h).
  Notation GU := (GU key EInf xc yc values img w h).
  Notation down_line := (down_line key tie_up EInf EInf xc yc values).
  Notation up_line := (up_line key tie_up EInf EInf xc yc values).

  Lemma T0_bounds : 0 <= r0 < h /\ 0 <= c0 < w.
  Proof. destruct (Tgt_inbounds _ _ _ _ HT0) as (H1 & H2). rewrite Hrect in H2; auto. Qed.

  Definition filled (g : gst) (r : Z) : Prop := forall c, 0 <= c < w -> nthZ LUnset (nthZ [] (gdist g) r) c <> LUnset.
  Definition panfull (g : gst) : Prop := forall c, 0 <= c < w -> setp (nthZ NONE (gpan g) c).

  Definition FD (k : Z) (g : gst) : Prop :=
    GD k g /\ (r0 < k -> panfull g /\ forall r, r0 <= r < k -> filled g r).

  Lemma down_line_FD k g : 0 <= k < h -> FD k g -> FD (k + 1) (down_line img w g k).
  Proof.
    intros Hk (HG & HF).
    assert (Hw : 0 <= w) by apply lenZ_nonneg.
    assert (Hh : 0 <= h) by apply lenZ_nonneg.
    split; [apply down_line_GD; auto|].
    intros Hr0.
    destruct HG as (Hlp & Hpan & Hld & Hlo & Hdone & Htodo).
    destruct (Htodo k ltac:(lia)) as (Hlrow & Hnone).
    assert (J0 : J k (nthZ [] (gout g) k) (mkL (gpan g) (fill w LUnset) (fill w NONE))).
    { unfold Proofs.J; simpl. repeat split; auto.
      - unfold lenZ; rewrite fill_length; lia.
      - unfold lenZ; rewrite fill_length; lia.
      - apply Forall_fill; left; reflexivity.
      - intros c Hcr. unfold Proofs.Jcell; simpl. rewrite nthZ_fill by lia. auto. }
    destruct (two_calls_fill (nthZ [] img k) true k _ _ eq_refl Hk Hlrow J0) as (_ & Hfill).
    simpl negb in Hfill. simpl pan in Hfill.
    assert (Hseed : exists c1, 0 <= c1 < w /\
              (setp (nthZ NONE (gpan g) c1) \/ is_target (nthZ XNaN (nthZ [] img k) c1) = true)).
    { destruct T0_bounds as (Hb1 & Hb2). exists c0. split; auto.
      destruct (Z.eq_dec k r0) as [->|Hne].
      - right. exact HT0.
      - left. apply HF; auto; lia. }
    specialize (Hfill Hseed).
    unfold Model.down_line. split.
    - intros c Hc. simpl. apply Hfill; auto.
    - intros r Hr c Hc. simpl. destruct (Z.eq_dec r k) as [->|Hne].
      + rewrite nthZ_updZ_same by lia. apply Hfill; auto.
      + rewrite nthZ_updZ_other by lia. apply HF; auto; lia.
  Qed.

  (* bottom-up pass: j lines done, the next line is h-1-j *)
  Definition FU (j : Z) (g : gst) : Prop :=
    GU g /\ (forall r, r0 <= r < h -> filled g r) /\
    (h - 1 - j < r0 -> panfull g /\ forall r, h - 1 - j < r <= r0 -> filled g r).

  Lemma up_line_FU j g : 0 <= j < h -> FU j g -> FU (j + 1) (up_line img w g (h - 1 - j)).
  Proof.
    intros Hj (HG & Hlow & HF).
    assert (Hw : 0 <= w) by apply lenZ_nonneg.
    assert (Hh : 0 <= h) by apply lenZ_nonneg.
    set (k := h - 1 - j) in *. assert (Hk : 0 <= k < h) by (unfold k; lia).
    split; [apply up_line_GU; auto|].
    destruct HG as (Hlp & Hpan & Hld & Hlo & Hrows).
    destruct (Hrows k Hk) as (Hldrow & Hlrow & Hcells).
    assert (J0 : J k (nthZ [] (gout g) k) (mkL (gpan g) (nthZ [] (gdist g) k) (fill w NONE))).
    { unfold Proofs.J; simpl. repeat split; auto.
      - unfold lenZ; rewrite fill_length; lia.
      - apply Forall_fill; left; reflexivity.
      - intros c Hcr. unfold Proofs.Jcell; simpl. specialize (Hcells c Hcr).
        destruct (nthZ LUnset (nthZ [] (gdist g) k) c); auto. rewrite nthZ_fill by lia. simpl. exact Hcells. }
    destruct (two_calls_fill (nthZ [] img k) false k _ _ eq_refl Hk Hlrow J0) as (Hkeep & Hfill).
    simpl negb in Hfill, Hkeep. simpl pan in Hfill. simpl lp in Hkeep.
    unfold Model.up_line. split.
    - intros r Hr c Hc. simpl. destruct (Z.eq_dec r k) as [->|Hne].
      + rewrite nthZ_updZ_same by lia. apply Hkeep. apply Hlow; auto.
      + rewrite nthZ_updZ_other by lia. apply Hlow; auto.
    - intros Hr0.
      assert (Hseed : exists c1, 0 <= c1 < w /\
                (setp (nthZ NONE (gpan g) c1) \/ is_target (nthZ XNaN (nthZ [] img k) c1) = true)).
      { destruct T0_bounds as (Hb1 & Hb2). exists c0. split; auto.
        destruct (Z.eq_dec k r0) as [->|Hne].
        - right. exact HT0.
        - left. apply HF; auto; lia. }
      specialize (Hfill Hseed). split.
      + intros c Hc. simpl. apply Hfill; auto.
      + intros r Hr c Hc. simpl. destruct (Z.eq_dec r k) as [->|Hne].
        * rewrite nthZ_updZ_same by lia. apply Hfill; auto.
        * rewrite nthZ_updZ_other by lia. apply HF; auto; lia.
  Qed.
End Fill.

Lemma ziota_snoc s n : ziota s (S n) = ziota s n ++ [s + Z.of_nat n].
Proof.
  revert s; induction n as [|n IH]; intros s.
  - cbn [ziota app]. f_equal. lia.
  - change (ziota s (S (S n))) with (s :: ziota (s + 1) (S n)). rewrite IH.
    change (ziota s (S n)) with (s :: ziota (s + 1) n). cbn [app]. f_equal. f_equal. f_equal. lia.
Qed.

Lemma fold_left_rev_ziota_inv {A} (f : A -> Z -> A) (P : Z -> A -> Prop) s n a :
  P (s + Z.of_nat n) a -> (forall k a, s <= k < s + Z.of_nat n -> P (k + 1) a -> P k (f a k)) ->
  P s (fold_left f (rev (ziota s n)) a).
Proof.
  revert a; induction n as [|n IH]; intros a Ha Hs.
  - simpl. replace (s + Z.of_nat 0) with s in Ha by lia. exact Ha.
  - rewrite ziota_snoc, rev_app_distr. simpl.
    apply IH.
    + apply Hs; [lia|]. replace (s + Z.of_nat n + 1) with (s + Z.of_nat (S n)) by lia. exact Ha.
    + intros k b Hk Hb. apply Hs; [lia|exact Hb].
Qed.

Section FillFinal.
  Variable key : Z -> Z -> Z -> Z -> Z.
  Variable tie_up : Z -> bool.
  Variables xc yc : list (option Z).
  Variable values : list xv.
  Variable img : list (list xv).
  Let h := lenZ img.
  Let w := lenZ (nthZ [] img 0).
  Hypothesis Hx : coords_ok xc w.
  Hypothesis Hy : coords_ok yc h.
  Hypothesis Hrect : rect img.

  (* with at least one target and unbounded max_distance no cell stays unset (NaN) *)
  Theorem fill_final : forall r0 c0, Tgt values img r0 c0 ->
    forall r c, 0 <= r < h -> 0 <= c < w ->
    prox_of (process key tie_up EInf EInf xc yc values img) r c <> LUnset.
  Proof.
    intros r0 c0 HT0 r c Hr Hc.
    assert (Hw : 0 <= w) by apply lenZ_nonneg.
    assert (Hh : 0 <= h) by apply lenZ_nonneg.
    destruct (T0_bounds values img Hrect r0 c0 HT0) as (Hb1 & Hb2). fold h w in Hb1, Hb2.
    unfold Model.process. fold h w.
    set (g0 := mkG (fill w NONE) (fill h (fill w (LVal (EFin 0)))) (fill h (fill w None))).
    assert (G0 : GD key EInf xc yc values img w h 0 g0).
    { unfold GD, g0; simpl. unfold lenZ; rewrite !fill_length.
      split; [lia|]. split; [apply Forall_fill; left; reflexivity|].
      split; [lia|]. split; [lia|]. split; [intros; lia|].
      intros r1 Hr1. rewrite nthZ_fill by lia. rewrite fill_length. split; [lia|].
      intros c1 Hc1. apply nthZ_fill; lia. }
    set (g1 := fold_left (down_line key tie_up EInf EInf xc yc values img w) (ziota 0 (Z.to_nat h)) g0).
    assert (F1 : FD key xc yc values img r0 h g1).
    { replace h with (0 + Z.of_nat (Z.to_nat h)) at 1 by lia. unfold g1.
      apply fold_left_ziota_inv with (P := FD key xc yc values img r0).
      - split; [exact G0|]. intros; lia.
      - intros k a Hk Ha. apply down_line_FD with (c0 := c0); auto; lia. }
    destruct F1 as (G1 & F1). destruct (F1 ltac:(lia)) as (_ & Hfilled1).
    destruct G1 as (_ & _ & Hld & Hlo & Hrows & _).
    set (g1' := mkG (fill w NONE) (gdist g1) (gout g1)).
    assert (FU0 : FU key xc yc values img r0 0 g1').
    { split; [|split].
      - unfold GU, g1'; simpl. unfold lenZ; rewrite fill_length.
        split; [unfold w, lenZ in *; lia|]. split; [apply Forall_fill; left; reflexivity|]. auto.
      - intros r1 Hr1. unfold filled, g1'; simpl. apply Hfilled1; lia.
      - intros; lia. }
    assert (FUh : FU key xc yc values img r0 (h - 0)
                    (fold_left (up_line key tie_up EInf EInf xc yc values img w) (rev (ziota 0 (Z.to_nat h))) g1')).
    { apply fold_left_rev_ziota_inv with (P := fun k g => FU key xc yc values img r0 (h - k) g).
      - replace (h - (0 + Z.of_nat (Z.to_nat h))) with 0 by lia. exact FU0.
      - intros k a Hk Ha.
        replace (h - k) with ((h - (k + 1)) + 1) by lia.
        replace k with (h - 1 - (h - (k + 1))) at 2 by lia.
        apply up_line_FU with (c0 := c0); auto; lia. }
    destruct FUh as (_ & Hhigh & Hlow).
    unfold prox_of.
    destruct (Z_le_gt_dec r0 r) as [Hge|Hlt].
    - apply Hhigh; auto; lia.
    - destruct (Hlow ltac:(lia)) as (_ & Hl). apply Hl; auto; lia.
  Qed.
End FillFinal.
