(* C06/ProofsSpec.v — the invariants of Proofs.v turned into the statements of the property:
   real target cells are in bounds, brute-force minimum, zero iff target, named target, NaN consistency. *)
Require Import Base.Prelude Base.XVal C06.Model C06.Proofs.

Lemma nthZ_out {A} (d : A) l i : ~ (0 <= i < lenZ l) -> nthZ d l i = d.
Proof.
  unfold nthZ, lenZ; intros H. destruct (i <? 0) eqn:E; auto.
  apply nth_overflow; lia.
Qed.

Lemma is_target_nan values : is_target values XNaN = false.
Proof.
  unfold is_target. destruct values as [|v vs]; [reflexivity|].
  generalize (v :: vs); intros l; induction l as [|a l IH]; simpl; auto.
Qed.

Definition rect (img : list (list xv)) : Prop :=
  forall r, 0 <= r < lenZ img -> lenZ (nthZ [] img r) = lenZ (nthZ [] img 0).

Lemma Tgt_inbounds values img r c : Tgt values img r c ->
  0 <= r < lenZ img /\ 0 <= c < lenZ (nthZ [] img r).
Proof.
  unfold Tgt, cellv; intros H.
  assert (Hr : 0 <= r < lenZ img).
  { destruct (Z_lt_ge_dec r 0); [|destruct (Z_lt_ge_dec r (lenZ img)); [lia|]];
      (rewrite (nthZ_out [] img r) in H by lia; rewrite (nthZ_out XNaN [] c) in H
         by (unfold lenZ; simpl; lia); rewrite is_target_nan in H; discriminate). }
  split; auto.
  destruct (Z_lt_ge_dec c 0); [|destruct (Z_lt_ge_dec c (lenZ (nthZ [] img r))); [lia|]];
    (rewrite (nthZ_out XNaN _ c) in H by lia; rewrite is_target_nan in H; discriminate).
Qed.

(* ---------- brute force ---------- *)
Lemma omin_le_l a b x : omin a b = Some x -> forall y, a = Some y -> x <= y.
Proof. destruct a, b; simpl; intros H y Hy; inversion Hy; inversion H; subst; lia. Qed.

Lemma in_all_cells h w r c : 0 <= r < h -> 0 <= c < w -> In (r, c) (all_cells h w).
Proof.
  intros Hr Hc. unfold all_cells. apply in_flat_map. exists r. split; [apply ziota_In; lia|].
  apply in_map_iff. exists c. split; auto. apply ziota_In; lia.
Qed.

Section Brute.
  Variable key : Z -> Z -> Z -> Z -> Z.
  Variables xc yc : list (option Z).
  Variable values : list xv.
  Variable img : list (list xv).

  Let f (r c : Z) := fun (acc : option Z) (t : Z * Z) =>
    if is_target values (cellv img (fst t) (snd t))
    then omin acc (dist2 key xc yc (fst t) (snd t) r c) else acc.

  Lemma brute_fold_mono r c l acc x :
    acc = Some x -> exists y, fold_left (f r c) l acc = Some y /\ y <= x.
  Proof.
    revert acc x; induction l as [|t l IH]; intros acc x Ha; simpl.
    - exists x; split; auto; lia.
    - unfold f at 2. destruct (is_target values _).
      + destruct (dist2 key xc yc (fst t) (snd t) r c) as [d|] eqn:Ed; subst acc; simpl.
        * destruct (IH (Some (Z.min x d)) _ eq_refl) as (y & Hy & Hle). exists y; split; auto; lia.
        * apply IH; auto.
      + apply IH; auto.
  Qed.

  Lemma brute_fold_le r c l acc t d :
    In t l -> is_target values (cellv img (fst t) (snd t)) = true ->
    dist2 key xc yc (fst t) (snd t) r c = Some d ->
    exists y, fold_left (f r c) l acc = Some y /\ y <= d.
  Proof.
    revert acc; induction l as [|t' l IH]; intros acc Hin Ht Hd; [destruct Hin|].
    simpl. destruct Hin as [->|Hin]; [|apply IH; auto].
    unfold f at 2. rewrite Ht, Hd.
    destruct acc as [a|]; simpl.
    - destruct (brute_fold_mono r c l (Some (Z.min a d)) _ eq_refl) as (y & Hy & Hle).
      exists y; split; auto; lia.
    - apply brute_fold_mono; auto.
  Qed.

  (* the brute-force value is a lower bound of the distance to every target cell *)
  Lemma brute_le r c tr tc d : rect img ->
    Tgt values img tr tc -> dist2 key xc yc tr tc r c = Some d ->
    exists b, brute key xc yc values img r c = Some b /\ b <= d.
  Proof.
    intros Hrect HT Hd. unfold brute. fold (f r c).
    destruct (Tgt_inbounds _ _ _ _ HT) as (Hr & Hc). rewrite Hrect in Hc by auto.
    apply brute_fold_le with (t := (tr, tc)); auto.
    apply in_all_cells; auto.
  Qed.
End Brute.

(* ---------- the statements ---------- *)
Definition coords_ok (l : list (option Z)) (n : Z) : Prop :=
  forall i, 0 <= i < n -> exists z, coord l i = Some z.
Definition coords_inj (l : list (option Z)) (n : Z) : Prop :=
  forall i j, 0 <= i < n -> 0 <= j < n -> coord l i = coord l j -> i = j.
Definition key_pd (key : Z -> Z -> Z -> Z -> Z) : Prop :=
  forall x1 x2 y1 y2, key x1 x2 y1 y2 = 0 <-> (x1 = x2 /\ y1 = y2).
Definition key_self0 (key : Z -> Z -> Z -> Z -> Z) : Prop := forall x y, key x x y y = 0.
(* ... needed only at the raster's own coordinates *)
Definition key_self0_on (key : Z -> Z -> Z -> Z -> Z) (xc yc : list (option Z)) : Prop :=
  forall i j x y, coord xc i = Some x -> coord yc j = Some y -> key x x y y = 0.
Lemma key_self0_everywhere key xc yc : key_self0 key -> key_self0_on key xc yc.
Proof. intros H i j x y _ _; apply H. Qed.

Section Spec.
  Variable key : Z -> Z -> Z -> Z -> Z.
  Variable tie_up : Z -> bool.
  Variables R M : ext.
  Variables xc yc : list (option Z).
  Variable values : list xv.
  Variable img : list (list xv).
  Let h := lenZ img.
  Let w := lenZ (nthZ [] img 0).
  Let g := process key tie_up R M xc yc values img.
  Hypothesis Hx : coords_ok xc w.
  Hypothesis Hy : coords_ok yc h.
  Hypothesis Hk0 : key_self0_on key xc yc.
  Hypothesis HM0 : ele (EFin 0) M = true.

  Lemma named_target : forall r c e, 0 <= r < h -> 0 <= c < w ->
    prox_of g r c = LVal e ->
    exists tr tc d, index_of g r c = Some (tr, tc) /\ Tgt values img tr tc /\
      dist2 key xc yc tr tc r c = Some d /\ e = EFin d /\ ele (EFin d) M = true.
  Proof.
    intros r c e Hr Hc He.
    pose proof (process_rows key tie_up R M xc yc values img r c Hr Hc) as H.
    fold g in H. rewrite He in H. destruct H as ([tx ty] & (HT & HP) & Hi). simpl in *.
    exists ty, tx. destruct HP as [(-> & -> & ->)|(d & Hd & -> & Hm)].
    - exists 0. repeat split; auto.
      unfold dist2. destruct (Hx c Hc) as (x & Ex). destruct (Hy r Hr) as (y & Ey).
      rewrite Ex, Ey. rewrite (Hk0 c r x y Ex Ey). reflexivity.
    - exists d. repeat split; auto.
  Qed.

  Lemma nan_consistent : forall r c, 0 <= r < h -> 0 <= c < w ->
    (prox_of g r c = LUnset <-> index_of g r c = None).
  Proof.
    intros r c Hr Hc.
    pose proof (process_rows key tie_up R M xc yc values img r c Hr Hc) as H. fold g in H.
    destruct (prox_of g r c) as [|e].
    - split; auto.
    - destruct H as (t & _ & Hi). rewrite Hi. split; discriminate.
  Qed.

  Lemma zero_iff_target : rect img -> key_pd key -> coords_inj xc w -> coords_inj yc h ->
    forall r c, 0 <= r < h -> 0 <= c < w ->
    (prox_of g r c = LVal (EFin 0) <-> Tgt values img r c).
  Proof.
    intros Hrect Hpd Hix Hiy r c Hr Hc. split.
    - intros He. destruct (named_target r c _ Hr Hc He) as (tr & tc & d & _ & HT & Hd & Hd0 & _).
      inversion Hd0; subst d.
      destruct (Tgt_inbounds _ _ _ _ HT) as (Htr & Htc). rewrite Hrect in Htc by auto.
      unfold dist2 in Hd.
      destruct (coord xc tc) as [x1|] eqn:E1; [|discriminate].
      destruct (coord xc c) as [x2|] eqn:E2; [|discriminate].
      destruct (coord yc tr) as [y1|] eqn:E3; [|discriminate].
      destruct (coord yc r) as [y2|] eqn:E4; [|discriminate].
      inversion Hd as [Hkey]. apply Hpd in Hkey as (Hdx & Hdy).
      assert (tc = c) by (apply Hix; auto; rewrite E1, E2; f_equal; lia).
      assert (tr = r) by (apply Hiy; auto; rewrite E3, E4; f_equal; lia).
      subst; auto.
    - intros HT. apply process_target_zero; auto.
  Qed.

  (* never below the true nearest distance (the executable brute-force minimum over all target cells) *)
  Lemma never_under : rect img -> forall r c d, 0 <= r < h -> 0 <= c < w ->
    prox_of g r c = LVal (EFin d) ->
    exists b, brute key xc yc values img r c = Some b /\ b <= d.
  Proof.
    intros Hrect r c d Hr Hc He.
    destruct (named_target r c _ Hr Hc He) as (tr & tc & d' & _ & HT & Hd & Hd0 & _).
    inversion Hd0; subst d'. eapply brute_le; eauto.
  Qed.
End Spec.
