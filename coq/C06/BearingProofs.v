(* C06/BearingProofs.v — _calc_direction: 0 for the cell itself; exactly 90 / 180 / 270 / 360 for a
   target straight along +x / +y / -x / -y (the code's convention: "south" is increasing y); the
   DIRECTION output is this function of the offset to the remembered target.
   libm premises (C99 Annex F.10.1.4 values of atan2 on the axes, with the correctly rounded
   constants pi and pi/2 as glibc returns them) are Section hypotheses. *)
Require Import Base.Prelude Base.XVal C06.Model C06.Bearing.
From Coq Require Import PrimFloat SpecFloat FloatOps FloatAxioms.

(* sign facts of binary64 negation, from the FloatAxioms specification of the primitives *)
Lemma ltb_opp_pos (y : float) : (0 <? y)%float = true -> (- y <? 0)%float = true.
Proof.
  rewrite !ltb_spec, opp_spec. change (Prim2SF 0) with (S754_zero false).
  destruct (Prim2SF y) as [[|]|[|]| |[|] m e]; cbv; congruence.
Qed.
Lemma ltb_opp_neg (y : float) : (y <? 0)%float = true -> (0 <? - y)%float = true.
Proof.
  rewrite !ltb_spec, opp_spec. change (Prim2SF 0) with (S754_zero false).
  destruct (Prim2SF y) as [[|]|[|]| |[|] m e]; cbv; congruence.
Qed.

Definition fzero (y : float) : Prop := y = 0%float \/ y = (-0)%float.

Section Axes.
  Variable atan2 : float -> float -> float.
  (* atan2(+-0, x) = +-0 for x > 0 *)
  Hypothesis atan2_zero_pos : forall x, (0 <? x)%float = true ->
    atan2 0%float x = 0%float /\ atan2 (-0)%float x = (-0)%float.
  (* atan2(+-0, x) = +-pi for x < 0 *)
  Hypothesis atan2_zero_neg : forall x, (x <? 0)%float = true ->
    atan2 0%float x = PI /\ atan2 (-0)%float x = (- PI)%float.
  (* atan2(y, +-0) = pi/2 for y > 0, -pi/2 for y < 0 *)
  Hypothesis atan2_pos_zero : forall y x, (0 <? y)%float = true -> fzero x -> atan2 y x = PIO2.
  Hypothesis atan2_neg_zero : forall y x, (y <? 0)%float = true -> fzero x -> atan2 y x = (- PIO2)%float.

  Notation calc_direction := (calc_direction atan2).

  Theorem direction_self x1 x2 y1 y2 :
    is_self x1 x2 y1 y2 = true -> calc_direction x1 x2 y1 y2 = S754_zero false.
  Proof. intros H; unfold Bearing.calc_direction; rewrite H; reflexivity. Qed.

  (* target straight to the east: x2 - x1 > 0, y2 - y1 = +-0 *)
  Theorem direction_east x1 x2 y1 y2 :
    is_self x1 x2 y1 y2 = false -> (0 <? x2 - x1)%float = true -> fzero (y2 - y1)%float ->
    calc_direction x1 x2 y1 y2 = b32_of_Z 90.
  Proof.
    intros Hs Hx Hy. unfold Bearing.calc_direction, bearing64. rewrite Hs.
    destruct (atan2_zero_pos _ Hx) as (Ha & Hb).
    destruct Hy as [-> | ->].
    - change (- 0)%float with (-0)%float. rewrite Hb. vm_compute. reflexivity.
    - change (- -0)%float with 0%float. rewrite Ha. vm_compute. reflexivity.
  Qed.

  (* target straight to the west *)
  Theorem direction_west x1 x2 y1 y2 :
    is_self x1 x2 y1 y2 = false -> (x2 - x1 <? 0)%float = true -> fzero (y2 - y1)%float ->
    calc_direction x1 x2 y1 y2 = b32_of_Z 270.
  Proof.
    intros Hs Hx Hy. unfold Bearing.calc_direction, bearing64. rewrite Hs.
    destruct (atan2_zero_neg _ Hx) as (Ha & Hb).
    destruct Hy as [-> | ->].
    - change (- 0)%float with (-0)%float. rewrite Hb. vm_compute. reflexivity.
    - change (- -0)%float with 0%float. rewrite Ha. vm_compute. reflexivity.
  Qed.

  (* target straight towards increasing y ("south" in the code's convention) *)
  Theorem direction_south x1 x2 y1 y2 :
    is_self x1 x2 y1 y2 = false -> (0 <? y2 - y1)%float = true -> fzero (x2 - x1)%float ->
    calc_direction x1 x2 y1 y2 = b32_of_Z 180.
  Proof.
    intros Hs Hy Hx. unfold Bearing.calc_direction, bearing64. rewrite Hs.
    rewrite (atan2_neg_zero _ _ (ltb_opp_pos _ Hy) Hx). vm_compute. reflexivity.
  Qed.

  (* target straight towards decreasing y ("north") *)
  Theorem direction_north x1 x2 y1 y2 :
    is_self x1 x2 y1 y2 = false -> (y2 - y1 <? 0)%float = true -> fzero (x2 - x1)%float ->
    calc_direction x1 x2 y1 y2 = b32_of_Z 360.
  Proof.
    intros Hs Hy Hx. unfold Bearing.calc_direction, bearing64. rewrite Hs.
    rewrite (atan2_pos_zero _ _ (ltb_opp_neg _ Hy) Hx). vm_compute. reflexivity.
  Qed.
End Axes.
