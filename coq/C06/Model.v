(* C06/Model.v — executable model of xrspatial/proximity.py:
   _process_proximity_line (target test, pan_near_x/y, nearest_xs/ys, the
   candidate reset against max_distance, the three candidates above / previous /
   diagonal), and _process_numpy (top-down pass L->R then R->L, bottom-up pass
   R->L then L->R, the output_img updates of ALLOCATION / DIRECTION, the final
   NaN post-processing).  Definitions only.

   Exact instance: distances are compared through an integer KEY
   key x1 x2 y1 y2 = _distance(x1, x2, y1, y2) as an integer (any metric: the model and
   every theorem are generic in it); for EUCLIDEAN / MANHATTAN it is a function of the
   coordinate differences, [metric_of_key]: dx*dx+dy*dy resp. (|dx|+|dy|)^2;
   for GREAT_CIRCLE it depends on the coordinates themselves (C06/Metric.v);
   the key which stands for the code's  float32(d)**2  (a float32) ; the three
   float comparisons of the code become
     dist_sqr < near_distance_square        key <  key          (or key < R at the initial value 2*max_distance^2)
     max_distance*max_distance >= nds       key <= M
     nds < line_proximity*line_proximity    key <  key', or key = key' and tie_up key'
                                            (tie_up key' = the float32 product lp*lp exceeds dist_sqr for that key;
                                             with Numba's float32 typing of dist**2 it never does, the harness
                                             recomputes it per case; the theorems hold for every tie_up)
   R, M, tie_up are computed from the float chain by the harness (see TRUSTED).
   The model returns, per cell, the distance key (line_proximity / img_distance)
   and the remembered target index (what output_img was last written from);
   distance, allocation value and bearing are functions of them. *)
Require Import Base.Prelude Base.XVal.

(* ---- arrays ---- *)
Fixpoint updn {A} (l : list A) (n : nat) (v : A) : list A :=
  match l, n with
  | [], _ => []
  | _ :: t, O => v :: t
  | a :: t, S k => a :: updn t k v
  end.
Definition updZ {A} (l : list A) (i : Z) (v : A) : list A :=
  if i <? 0 then l else updn l (Z.to_nat i) v.
Definition fill {A} (n : Z) (v : A) : list A := repeat v (Z.to_nat n).

(* near_distance_square / thresholds: +inf or a key *)
Inductive ext := EInf | EFin (z : Z).
(* line_proximity entry: -1.0 (not set; printed NaN at the end) or sqrt of a key *)
Inductive lpv := LUnset | LVal (e : ext).

(* dist_sqr < nds   (dist_sqr = None: NaN coordinates, every comparison false) *)
Definition closer (d : option Z) (nds : ext) : option Z :=
  match d with
  | None => None
  | Some a => if (match nds with EInf => true | EFin b => a <? b end) then Some a else None
  end.
(* max_distance*max_distance >= nds *)
Definition ele (n m : ext) : bool :=
  match n, m with
  | _, EInf => true
  | EInf, EFin _ => false
  | EFin a, EFin b => a <=? b
  end.
Definition lp_ge0 (v : lpv) : bool := match v with LUnset => false | LVal _ => true end.

(* pan_near_x/pan_near_y and nearest_xs/nearest_ys are always written together:
   one array of pairs (x, y); "unset" is tested on x only, as in the code *)
Definition NONE : Z * Z := (-1, -1).
Definition unset (p : Z * Z) : bool := fst p =? -1.

Definition key_euclid (dx dy : Z) : Z := dx * dx + dy * dy.
Definition key_manhattan (dx dy : Z) : Z := (Z.abs dx + Z.abs dy) * (Z.abs dx + Z.abs dy).
(* a metric that only looks at coordinate differences (x = x1 - x2, y = y1 - y2 as in the code) *)
Definition metric_of_key (k : Z -> Z -> Z) : Z -> Z -> Z -> Z -> Z :=
  fun x1 x2 y1 y2 => k (x1 - x2) (y1 - y2).

Record lst := mkL { pan : list (Z * Z); lp : list lpv; near : list (Z * Z) }.
Record gst := mkG { gpan : list (Z * Z); gdist : list (list lpv); gout : list (list (option (Z * Z))) }.

Section Prox.
  Variable key : Z -> Z -> Z -> Z -> Z.   (* the metric: _distance(x1, x2, y1, y2) as an integer key *)
  Variable tie_up : Z -> bool.         (* float32(lp*lp) > lp^2 for this key *)
  Variables R M : ext.                 (* 2*max_distance^2 (strict) and max_distance^2 (inclusive) in key space *)
  Variables xc yc : list (option Z).   (* x coordinate of a column, y coordinate of a row; None = NaN (Dask halo) *)
  Variable values : list xv.           (* target_values *)

  (* if n_values == 0: v != 0 and isfinite(v)   else: any(v == values[i]) *)
  Definition is_target (v : xv) : bool :=
    match values with
    | [] => negb (xeqb v (XFin 0)) && xisfinite v
    | _ => existsb (fun t => xeqb v t) values
    end.

  Definition coord (l : list (option Z)) (i : Z) : option Z := nthZ None l i.
  (* _distance(xs[ty,tx], xs[r,c], ys[ty,tx], ys[r,c]) ** 2 *)
  Definition dist2 (ty tx r c : Z) : option Z :=
    match coord xc tx, coord xc c, coord yc ty, coord yc r with
    | Some x1, Some x2, Some y1, Some y2 => Some (key x1 x2 y1 y2)
    | _, _, _, _ => None
    end.

  (* near_distance_square < line_proximity[pixel] * line_proximity[pixel] *)
  Definition lt_sq (nds : ext) (m : ext) : bool :=
    match nds, m with
    | EInf, _ => false
    | EFin _, EInf => true
    | EFin a, EFin b => (a <? b) || ((a =? b) && tie_up b)
    end.

  (* "previous" and "diagonal" candidate: if guard and pan_near_x[j] != -1 and
     dist_sqr < nds then nds = dist_sqr; pan_near[pixel] = pan_near[j] *)
  Definition cand (line_id pixel : Z) (guard : bool) (j : Z) (st : ext * list (Z * Z)) : ext * list (Z * Z) :=
    let '(nds, pn) := st in
    let q := nthZ NONE pn j in
    if guard && negb (unset q) then
      match closer (dist2 (snd q) (fst q) line_id pixel) nds with
      | Some a => (EFin a, updZ pn pixel q)
      | None => (nds, pn)
      end
    else (nds, pn).

  (* body of the pixel loop of _process_proximity_line *)
  Definition step_pixel (src : list xv) (line_id start end_ step : Z) (s : lst) (pixel : Z) : lst :=
    if is_target (nthZ XNaN src pixel) then
      mkL (updZ (pan s) pixel (pixel, line_id))
          (updZ (lp s) pixel (LVal (EFin 0)))
          (updZ (near s) pixel (pixel, line_id))
    else
      (* above (below): keep it if nearer than the initial bound, else forget it *)
      let p0 := nthZ NONE (pan s) pixel in
      let st1 :=
        if negb (unset p0) then
          match closer (dist2 (snd p0) (fst p0) line_id pixel) R with
          | Some a => (EFin a, pan s)
          | None => (R, updZ (pan s) pixel NONE)
          end
        else (R, pan s) in
      let st2 := cand line_id pixel (negb (pixel =? start)) (pixel - step) st1 in
      let st3 := cand line_id pixel (negb (pixel + step =? end_)) (pixel + step) st2 in
      let nds := fst st3 in
      let pn := snd st3 in
      let pf := nthZ NONE pn pixel in
      if negb (unset pf) && ele nds M &&
         (match nthZ LUnset (lp s) pixel with LUnset => true | LVal m => lt_sq nds m end)
      then mkL pn (updZ (lp s) pixel (LVal nds)) (updZ (near s) pixel pf)
      else mkL pn (lp s) (near s).

  (* for pixel in range(start, end, step) *)
  Definition pixels (start step w : Z) : list Z :=
    map (fun k => start + step * k) (ziota 0 (Z.to_nat w)).

  Definition process_line (src : list xv) (fwd : bool) (line_id w : Z) (s : lst) : lst :=
    let start := if fwd then 0 else w - 1 in
    let end_ := if fwd then w else -1 in
    let step := if fwd then 1 else -1 in
    fold_left (step_pixel src line_id start end_ step) (pixels start step w) s.

  (* if nearest_xs[i] != -1 and line_proximity[i] >= 0: output_img[line][i] = f(nearest_ys[i], nearest_xs[i]) *)
  Definition upd_out (orow : list (option (Z * Z))) (nr : list (Z * Z)) (l : list lpv) : list (option (Z * Z)) :=
    map (fun i => let n := nthZ NONE nr i in
                  if negb (unset n) && lp_ge0 (nthZ LUnset l i) then Some (snd n, fst n)
                  else nthZ None orow i)
        (ziota 0 (length orow)).

  (* one iteration of "Loop from top to bottom of the image" *)
  Definition down_line (img : list (list xv)) (w : Z) (g : gst) (line : Z) : gst :=
    let src := nthZ [] img line in
    let s1 := process_line src true line w (mkL (gpan g) (fill w LUnset) (fill w NONE)) in
    let o1 := upd_out (nthZ [] (gout g) line) (near s1) (lp s1) in
    let s2 := process_line src false line w (mkL (pan s1) (lp s1) (fill w NONE)) in
    let o2 := upd_out o1 (near s2) (lp s2) in
    mkG (pan s2) (updZ (gdist g) line (lp s2)) (updZ (gout g) line o2).

  (* one iteration of "Loop from bottom to top of the image"; line_proximity < 0 becomes NaN,
     which stays LUnset here (it is never read again) *)
  Definition up_line (img : list (list xv)) (w : Z) (g : gst) (line : Z) : gst :=
    let src := nthZ [] img line in
    let s1 := process_line src false line w (mkL (gpan g) (nthZ [] (gdist g) line) (fill w NONE)) in
    let o1 := upd_out (nthZ [] (gout g) line) (near s1) (lp s1) in
    let s2 := process_line src true line w (mkL (pan s1) (lp s1) (fill w NONE)) in
    let o2 := upd_out o1 (near s2) (lp s2) in
    mkG (pan s2) (updZ (gdist g) line (lp s2)) (updZ (gout g) line o2).

  Definition process (img : list (list xv)) : gst :=
    let h := lenZ img in
    let w := lenZ (nthZ [] img 0) in
    let g0 := mkG (fill w NONE) (fill h (fill w (LVal (EFin 0)))) (fill h (fill w None)) in
    let g1 := fold_left (down_line img w) (ziota 0 (Z.to_nat h)) g0 in
    fold_left (up_line img w) (rev (ziota 0 (Z.to_nat h))) (mkG (fill w NONE) (gdist g1) (gout g1)).

  (* the three outputs, as functions of the final state *)
  Definition prox_of (g : gst) (r c : Z) : lpv := nthZ LUnset (nthZ [] (gdist g) r) c.
  Definition index_of (g : gst) (r c : Z) : option (Z * Z) := nthZ None (nthZ [] (gout g) r) c.

  (* ---- specification side: brute force nearest target ---- *)
  Definition cellv (img : list (list xv)) (r c : Z) : xv := nthZ XNaN (nthZ [] img r) c.
  (* allocation output: the raster value at the remembered target (NaN where nothing is remembered) *)
  Definition alloc_of (img : list (list xv)) (g : gst) (r c : Z) : xv :=
    match index_of g r c with None => XNaN | Some t => cellv img (fst t) (snd t) end.
  Definition all_cells (h w : Z) : list (Z * Z) :=
    flat_map (fun r => map (fun c => (r, c)) (ziota 0 (Z.to_nat w))) (ziota 0 (Z.to_nat h)).
  Definition omin (a : option Z) (b : option Z) : option Z :=
    match a, b with
    | None, x | x, None => x
    | Some x, Some y => Some (Z.min x y)
    end.
  (* smallest key from (r,c) to a target cell; None = no target *)
  Definition brute (img : list (list xv)) (r c : Z) : option Z :=
    fold_left (fun acc t => if is_target (cellv img (fst t) (snd t)) then omin acc (dist2 (fst t) (snd t) r c) else acc)
              (all_cells (lenZ img) (lenZ (nthZ [] img 0))) None.
End Prox.

(* flat results for the driver: per cell (key or -1 = NaN / -2 = inf, row or -1, col or -1) *)
Definition enc_lpv (v : lpv) : Z := match v with LUnset => -1 | LVal EInf => -2 | LVal (EFin k) => k end.
Definition run_model (metric : Z) (ties : list Z) (R M : ext) (xc yc : list (option Z)) (values : list xv)
           (img : list (list xv)) : list (list (Z * (Z * Z))) :=
  let key := metric_of_key (if metric =? 2 then key_manhattan else key_euclid) in
  let tie := fun k => existsb (Z.eqb k) ties in
  let g := process key tie R M xc yc values img in
  map (fun r => map (fun c => (enc_lpv (prox_of g r c),
                               match index_of g r c with None => (-1, -1) | Some t => t end))
                    (ziota 0 (length (nthZ [] img 0))))
      (ziota 0 (length img)).
