(* C06/MetricProofs.v — the GREAT_CIRCLE key of a point to itself is 0, from explicit libm premises
   (sin 0 = 0, asin 0 = 0, cos of a finite argument is finite with magnitude <= 1), via Flocq. *)
From Coq Require Import ZArith Reals Lra Floats SpecFloat.
From Flocq Require Import Core BinarySingleNaN PrimFloat.
Require Import C06.Bearing C06.BearingRange C06.Metric.
Open Scope R_scope.

Lemma FR_1 : FR 1%float = 1. Proof. fr_const 1%float. Qed.

(* a finite binary64 value with real value 0 and positive sign is +0 *)
Lemma is_pos_zero f : fin f -> FR f = 0 -> Bsign (Prim2B f) = false -> f = 0%float.
Proof.
  unfold fin, FR. intros Hf Hr Hs. apply Prim2B_inj.
  replace (Prim2B 0%float) with (B754_zero false : binary_float prec emax)
    by (apply B2SF_inj; rewrite B2SF_Prim2B; reflexivity).
  destruct (Prim2B f) as [s|s| |s m e He]; simpl in *; try discriminate.
  - now subst s.
  - exfalso. apply eq_0_F2R in Hr. destruct s; discriminate.
Qed.

(* x - x = +0 for finite x *)
Lemma sub_self x : PrimFloat.is_finite x = true -> (x - x)%float = 0%float.
Proof.
  intros Hx. assert (Fx : fin x) by (apply fin_const; exact Hx).
  unfold fin in Fx.
  pose proof (Bminus_correct prec emax Hprec Hmax mode_NE (Prim2B x) (Prim2B x) Fx Fx) as H.
  replace (B2R (Prim2B x) - B2R (Prim2B x)) with 0 in H by lra.
  rewrite round_0 in H by apply valid_rnd_round_mode.
  rewrite Rabs_R0, Rlt_bool_true in H by apply bpow_gt_0.
  destruct H as (H1 & H2 & H3). rewrite Rcompare_Eq in H3 by reflexivity.
  apply is_pos_zero; unfold fin, FR; rewrite sub_equiv; auto.
  rewrite H3. destruct (Bsign (Prim2B x)); reflexivity.
Qed.

Section GCSelf.
  Variables sin cos asin : PrimFloat.float -> PrimFloat.float.
  Hypothesis sin_0 : sin 0%float = 0%float.
  Hypothesis asin_0 : asin 0%float = 0%float.
  Hypothesis cos_range : forall v, PrimFloat.is_finite v = true ->
    PrimFloat.is_finite (cos v) = true /\ (abs (cos v) <=? 1)%float = true.

  Lemma cos_sq_times_zero v : PrimFloat.is_finite v = true -> (cos v * cos v * 0)%float = 0%float.
  Proof.
    intros Hv. destruct (cos_range v Hv) as (Hf & Hb).
    set (u := cos v) in *.
    assert (Fu : fin u) by (apply fin_const; exact Hf).
    destruct (abs_fr u Fu) as (Fa & Ha).
    assert (F1 : fin 1%float) by (apply fin_const; reflexivity).
    rewrite (leb_fr _ _ Fa F1), Ha, FR_1 in Hb.
    destruct (Rle_bool_spec (Rabs (FR u)) 1) as [Hu|]; [|discriminate].
    assert (Huu : Rabs (FR u * FR u) <= 1024).
    { rewrite Rabs_mult. apply Rle_trans with (1 * 1); [|lra].
      apply Rmult_le_compat; auto using Rabs_pos. }
    destruct (mul_fr u u Fu Fu Huu) as (Fuu & Ruu).
    assert (F0 : fin 0%float) by (apply fin_const; reflexivity).
    assert (Hz : Rabs (FR (u * u)%float * FR 0%float) <= 1024) by (rewrite FR_0, Rmult_0_r, Rabs_R0; lra).
    destruct (mul_fr _ _ Fuu F0 Hz) as (Fp & Rp).
    apply is_pos_zero; auto.
    - rewrite Rp, FR_0, Rmult_0_r. apply round_0. apply valid_rnd_round_mode.
    - (* sign: (u*u) is not negative, 0 is +0 *)
      unfold fin in *. rewrite mul_equiv.
      pose proof (Bmult_correct prec emax Hprec Hmax mode_NE (Prim2B (u * u)%float) (Prim2B 0%float)) as H.
      fold (FR (u * u)%float) in H. fold (FR 0%float) in H.
      rewrite (no_ovf _ Hz) in H. destruct H as (_ & Hfin & Hsign).
      rewrite Hsign.
      + replace (Bsign (Prim2B 0%float)) with false
          by (replace (Prim2B 0%float) with (B754_zero false : binary_float prec emax)
                by (apply B2SF_inj; rewrite B2SF_Prim2B; reflexivity); reflexivity).
        rewrite Bool.xorb_false_r.
        rewrite mul_equiv.
        pose proof (Bmult_correct prec emax Hprec Hmax mode_NE (Prim2B u) (Prim2B u)) as H'.
        fold (FR u) in H'. rewrite (no_ovf _ Huu) in H'. destruct H' as (_ & Hfin' & Hsign').
        rewrite Hsign'; [apply Bool.xorb_nilpotent|].
        apply Bool.not_true_is_false. intros Hn.
        rewrite <- mul_equiv in Hn. unfold fin in Fuu.
        destruct (Prim2B (u * u)%float); simpl in *; discriminate.
      + apply Bool.not_true_is_false. intros Hn. rewrite <- mul_equiv in Hn.
        destruct (Prim2B (u * u * 0)%float); simpl in *; discriminate.
  Qed.

  (* the distance of a point to itself is (+)0, hence the key is 0 *)
  Theorem great_circle_self X Y :
    PrimFloat.is_finite (X * DEG2RAD)%float = true -> PrimFloat.is_finite (Y * DEG2RAD)%float = true ->
    great_circle sin cos asin X X Y Y = 0%float.
  Proof.
    intros HX HY. unfold great_circle.
    rewrite (sub_self _ HX), (sub_self _ HY).
    change (0 / 2)%float with 0%float. rewrite sin_0.
    change (0 * 0)%float with 0%float.
    rewrite (cos_sq_times_zero _ HY).
    change (0 + 0)%float with 0%float. change (sqrt 0)%float with 0%float.
    rewrite asin_0. reflexivity.
  Qed.

  Theorem gc_key_self x y :
    PrimFloat.is_finite (Z_to_float x * DEG2RAD)%float = true ->
    PrimFloat.is_finite (Z_to_float y * DEG2RAD)%float = true ->
    gc_key sin cos asin x x y y = 0%Z.
  Proof. intros Hx Hy. unfold gc_key. rewrite great_circle_self by auto. reflexivity. Qed.
End GCSelf.
