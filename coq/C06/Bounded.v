(* C06/Bounded.v — finite-domain supplement, by vm_compute: on every grid up to 3x4 / 4x3
   (unit cells, EUCLIDEAN key) and for EVERY target layout the four-sweep heuristic returns the
   exact nearest-target distance (within max_distance).  Also the witness that this is NOT true
   in general on larger grids. *)
Require Import Base.Prelude Base.XVal C06.Model.

Definition unit_coords (n : Z) : list (option Z) := map Some (ziota 0 (Z.to_nat n)).

(* all 0/1 lists of length n *)
Fixpoint bitlists (n : nat) : list (list xv) :=
  match n with
  | O => [[]]
  | S k => flat_map (fun l => [XFin 0 :: l; XFin 1 :: l]) (bitlists k)
  end.
Fixpoint chunk (w : nat) (rows : nat) (l : list xv) : list (list xv) :=
  match rows with
  | O => []
  | S k => firstn w l :: chunk w k (skipn w l)
  end.
(* every raster of shape h x w with cells in {0,1}: every target layout under the default rule *)
Definition layouts (h w : nat) : list (list (list xv)) := map (chunk w h) (bitlists (h * w)).

Definition expected (M : ext) (b : option Z) : lpv :=
  match b with
  | None => LUnset
  | Some k => if ele (EFin k) M then LVal (EFin k) else LUnset
  end.
Definition lpv_eqb (a b : lpv) : bool :=
  match a, b with
  | LUnset, LUnset => true
  | LVal EInf, LVal EInf => true
  | LVal (EFin x), LVal (EFin y) => x =? y
  | _, _ => false
  end.

(* the model's proximity equals the brute-force nearest distance (NaN beyond M) on every cell *)
Definition exact_on (tie : Z -> bool) (R M : ext) (h w : nat) (img : list (list xv)) : bool :=
  let xc := unit_coords (Z.of_nat w) in
  let yc := unit_coords (Z.of_nat h) in
  let g := process (metric_of_key key_euclid) tie R M xc yc [] img in
  forallb (fun t => lpv_eqb (prox_of g (fst t) (snd t))
                            (expected M (brute (metric_of_key key_euclid) xc yc [] img (fst t) (snd t))))
          (all_cells (Z.of_nat h) (Z.of_nat w)).

(* shapes up to 3x4 and 4x3 *)
Definition small_shapes : list (nat * nat) :=
  filter (fun s => ((fst s <=? 3) && (snd s <=? 4) || (fst s <=? 4) && (snd s <=? 3))%nat)
         (flat_map (fun a => map (fun b => (a, b)) (seq 1 4)) (seq 1 4)).

(* (R, M) of max_distance = 1, sqrt 2, 2 (as the float chain gives them) and inf *)
Definition small_thresholds : list (ext * ext) :=
  [(EInf, EInf); (EFin 3, EFin 1); (EFin 5, EFin 2); (EFin 9, EFin 4)].

Definition exact_at (tie : Z -> bool) (s : nat * nat) (rm : ext * ext) (img : list (list xv)) : bool :=
  exact_on tie (fst rm) (snd rm) (fst s) (snd s) img.
Definition shape_layouts (s : nat * nat) : list (list (list xv)) := layouts (fst s) (snd s).

Lemma all_exact_false :
  forallb (fun s => forallb (fun rm => forallb (exact_at (fun _ => false) s rm) (shape_layouts s)) small_thresholds)
          small_shapes = true.
Proof. vm_cast_no_check (eq_refl true). Qed.

(* the heuristic is NOT exact in general: 4x4, three targets; cell (0,0) gets key 9 (distance 3)
   although the target at (2,2) is at key 8 (distance sqrt 8) *)
Definition witness_img : list (list xv) :=
  [[XFin 0; XFin 0; XFin 0; XFin 1];
   [XFin 0; XFin 0; XFin 0; XFin 0];
   [XFin 0; XFin 0; XFin 1; XFin 0];
   [XFin 1; XFin 0; XFin 0; XFin 0]].
Lemma witness_not_exact :
  let xc := unit_coords 4 in
  prox_of (process (metric_of_key key_euclid) (fun _ => false) EInf EInf xc xc [] witness_img) 0 0 = LVal (EFin 9) /\
  index_of (process (metric_of_key key_euclid) (fun _ => false) EInf EInf xc xc [] witness_img) 0 0 = Some (0, 3) /\
  brute (metric_of_key key_euclid) xc xc [] witness_img 0 0 = Some 8.
Proof. vm_compute. repeat split. Qed.
Lemma witness_neq :
  prox_of (process (metric_of_key key_euclid) (fun _ => false) EInf EInf (unit_coords 4) (unit_coords 4) [] witness_img) 0 0 <>
  expected EInf (brute (metric_of_key key_euclid) (unit_coords 4) (unit_coords 4) [] witness_img 0 0).
Proof. vm_compute. discriminate. Qed.

Lemma forallb3 {A B C} (f : A -> B -> C -> bool) (la : list A) (lb : list B) (lc : A -> list C) :
  forallb (fun a => forallb (fun b => forallb (f a b) (lc a)) lb) la = true ->
  forall a b c, In a la -> In b lb -> In c (lc a) -> f a b c = true.
Proof.
  intros H a b c Ha Hb Hc.
  apply (proj1 (forallb_forall _ _)) with (x := a) in H; auto.
  apply (proj1 (forallb_forall _ _)) with (x := b) in H; auto.
  apply (proj1 (forallb_forall _ _)) with (x := c) in H; auto.
Qed.

Lemma all_exact_forall : forall s rm img,
  In s small_shapes -> In rm small_thresholds -> In img (shape_layouts s) ->
  exact_at (fun _ => false) s rm img = true.
Proof.
  apply (forallb3 (exact_at (fun _ => false)) small_shapes small_thresholds shape_layouts).
  exact all_exact_false.
Qed.
