(* C06/Metric.v — the GREAT_CIRCLE metric as _process_proximity_line uses it:
   np.float32(great_circle_distance(x1, x2, y1, y2)) as an integer key (the float32 value times 2^149: exact and
   order preserving on the non-negative binary32 numbers), over binary64 (PrimFloat) with libm sin, cos, asin as
   Section variables.  The model of the sweeps and every theorem of C06/Props.v is generic in the metric key, so
   this is just one more instance of [key] (beside [metric_of_key key_euclid] / [metric_of_key key_manhattan]). *)
Require Import Base.Prelude Base.XVal C06.Model C06.Bearing.
From Coq Require Import PrimFloat SpecFloat FloatOps.

Definition DEG2RAD : float := 0x1.1df46a2529d39p-6%float.     (* math.pi / 180 *)
Definition EARTH2 : float := 12756274%float.                   (* radius * 2 with radius = 6378137 *)

(* a non-negative finite binary32 number times 2^149 (its smallest exponent is -149); 0 for zeros;
   NaN / infinity / negative numbers do not occur for coordinates in range: mapped to -1 *)
Definition key_of_b32 (x : spec_float) : Z :=
  match x with
  | S754_zero _ => 0
  | S754_finite false m e => Z.shiftl (Zpos m) (e + 149)
  | _ => -1
  end.

Section GC.
  Variables sin cos asin : float -> float.

  (* great_circle_distance(x1, x2, y1, y2) for coordinates inside [-180,180] x [-90,90] (outside it raises) *)
  Definition great_circle (x1 x2 y1 y2 : float) : float :=
    let lat1 := (y1 * DEG2RAD)%float in
    let lon1 := (x1 * DEG2RAD)%float in
    let lat2 := (y2 * DEG2RAD)%float in
    let lon2 := (x2 * DEG2RAD)%float in
    let dlon := (lon2 - lon1)%float in
    let dlat := (lat2 - lat1)%float in
    let s1 := sin (dlat / 2)%float in
    let s2 := sin (dlon / 2)%float in
    let a := (s1 * s1 + cos lat1 * cos lat2 * (s2 * s2))%float in
    (EARTH2 * asin (sqrt a))%float.

  (* _distance(..., GREAT_CIRCLE) = np.float32(d), as a key *)
  Definition gc_key (x1 x2 y1 y2 : Z) : Z :=
    key_of_b32 (b32_of_f64 (great_circle (Z_to_float x1) (Z_to_float x2) (Z_to_float y1) (Z_to_float y2))).
End GC.
