Require Import Extraction ExtrOcamlBasic ExtrOCamlFloats ExtrOCamlInt63.
Require Import Base.Prelude Base.XVal C06.Model C06.Bearing C06.Metric.
Extraction Language OCaml.
Extraction "model.ml" run_model brute key_euclid key_manhattan metric_of_key run_model_full calc_direction gc_key.
