Require Import Extraction ExtrOcamlBasic.
Require Import Base.Prelude Base.XVal C06.Model.
Extraction Language OCaml.
Extraction "model.ml" run_model brute key_euclid key_manhattan.
