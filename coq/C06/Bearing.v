(* C06/Bearing.v — executable model of proximity._calc_direction, exactly as written:

     if x1 == x2 and y1 == y2: return 0
     x = x2 - x1;  y = y2 - y1
     d = np.arctan2(-y, x) * 57.29578
     if d < 0: d = 90.0 - d   elif d > 90.0: d = 360.0 - d + 90.0   else: d = 90.0 - d
     return np.float32(d)

   over binary64 (PrimFloat) with the store into the float32 output array as a final round to
   binary32 (SpecFloat, prec 24 / emax 128); libm atan2 is a Section variable (the OCaml driver
   passes Stdlib.Float.atan2, bit-identical with the one Numba calls).  Also: the DIRECTION output
   of _process_numpy as a function of the remembered target of the C06 model, and the whole
   three-output run used by the driver. *)
Require Import Base.Prelude Base.XVal C06.Model.
From Coq Require Import PrimFloat SpecFloat FloatOps FloatAxioms.

Definition prec32 : Z := 24.
Definition emax32 : Z := 128.
(* binary64 -> binary32, round to nearest even: the store into the float32 output image *)
Definition b32_of_f64 (x : float) : spec_float :=
  match Prim2SF x with
  | S754_finite s m e => binary_round prec32 emax32 s m e
  | y => y
  end.
Definition b32_of_Z (z : Z) : spec_float := binary_normalize prec32 emax32 z 0 false.

(* Z -> binary64 from float operations only (exact below 2^53) *)
Fixpoint pos_to_float (p : positive) : float :=
  match p with
  | xH => 1%float
  | xO q => (2 * pos_to_float q)%float
  | xI q => (2 * pos_to_float q + 1)%float
  end.
Definition Z_to_float (z : Z) : float :=
  match z with
  | Z0 => 0%float
  | Zpos p => pos_to_float p
  | Zneg p => (- pos_to_float p)%float
  end.

Definition DEG : float := 0x1.ca5dc1e7967cbp+5%float.      (* the literal 57.29578 *)
Definition PI : float := 0x1.921fb54442d18p+1%float.       (* the double nearest pi *)
Definition PIO2 : float := 0x1.921fb54442d18p+0%float.     (* the double nearest pi/2 *)

Section Bearing.
  Variable atan2 : float -> float -> float.   (* libm atan2(y, x) *)

  (* the float64 value of d just before `return np.float32(d)` (for a non-self target) *)
  Definition bearing64 (x y : float) : float :=
    let d := (atan2 (- y) x * DEG)%float in
    if (d <? 0)%float then (90 - d)%float
    else if (90 <? d)%float then (360 - d + 90)%float
    else (90 - d)%float.

  Definition is_self (x1 x2 y1 y2 : float) : bool := ((x1 =? x2) && (y1 =? y2))%float.

  Definition calc_direction (x1 x2 y1 y2 : float) : spec_float :=
    if is_self x1 x2 y1 y2 then S754_zero false
    else b32_of_f64 (bearing64 (x2 - x1) (y2 - y1)).

  (* output_img[line][i] = _calc_direction(x_coords[line, i], x_coords[ny, nx], y_coords[line, i], y_coords[ny, nx])
     for the remembered (ny, nx); NaN where nothing is remembered *)
  Definition direction_of (fxs fys : list float) (g : gst) (r c : Z) : spec_float :=
    match index_of g r c with
    | None => S754_nan
    | Some t => calc_direction (nthZ nan fxs c) (nthZ nan fxs (snd t)) (nthZ nan fys r) (nthZ nan fys (fst t))
    end.

  (* all three outputs of one run on integer coordinates: (distance key, remembered target, direction) per cell *)
  Definition fcoords (l : list (option Z)) : list float :=
    map (fun o => match o with Some z => Z_to_float z | None => nan end) l.
  Definition run_model_full (key : Z -> Z -> Z -> Z -> Z) (ties : list Z) (R M : ext) (xc yc : list (option Z))
             (values : list xv) (img : list (list xv)) : list (list ((Z * (Z * Z)) * spec_float)) :=
    let tie := fun k => existsb (Z.eqb k) ties in
    let g := process key tie R M xc yc values img in
    let fxs := fcoords xc in let fys := fcoords yc in
    map (fun r => map (fun c => ((enc_lpv (prox_of g r c),
                                  match index_of g r c with None => (-1, -1) | Some t => t end),
                                 direction_of fxs fys g r c))
                      (ziota 0 (length (nthZ [] img 0))))
        (ziota 0 (length img)).
End Bearing.
