(* C06/Proofs.v — invariants of the four sweeps (I1-I3 of DESIGN.md §12):
   every pan_near / nearest entry is unset or a real target cell; whenever
   line_proximity[c] is set it is the key of the distance to the cell that
   output_img[line][c] is (going to be) written from. *)
Require Import Base.Prelude Base.XVal C06.Model.

(* ---------- arrays ---------- *)
Lemma updn_length {A} (l : list A) n v : length (updn l n v) = length l.
Proof. revert n; induction l as [|a l IH]; intros [|n]; simpl; auto. Qed.

Lemma nth_updn_same {A} (l : list A) n v d : (n < length l)%nat -> nth n (updn l n v) d = v.
Proof. revert n; induction l as [|a l IH]; intros [|n] H; simpl in *; try lia; auto. apply IH; lia. Qed.

Lemma nth_updn_other {A} (l : list A) n m v d : n <> m -> nth m (updn l n v) d = nth m l d.
Proof.
  revert n m; induction l as [|a l IH]; intros [|n] [|m] H; simpl; auto; try congruence.
Qed.

Lemma updZ_length {A} (l : list A) i v : length (updZ l i v) = length l.
Proof. unfold updZ; destruct (i <? 0); auto using updn_length. Qed.

Lemma nthZ_updZ_same {A} (d : A) l i v : 0 <= i < lenZ l -> nthZ d (updZ l i v) i = v.
Proof.
  unfold nthZ, updZ, lenZ; intros H. destruct (i <? 0) eqn:E; [lia|].
  apply nth_updn_same; lia.
Qed.

Lemma nthZ_updZ_other {A} (d : A) l i j v : i <> j -> nthZ d (updZ l i v) j = nthZ d l j.
Proof.
  unfold nthZ, updZ; intros H. destruct (j <? 0) eqn:Ej; destruct (i <? 0) eqn:Ei; auto.
  apply nth_updn_other; lia.
Qed.

Lemma Forall_updn {A} (P : A -> Prop) l n v : Forall P l -> P v -> Forall P (updn l n v).
Proof.
  intros H Hv; revert n; induction H as [|a l Ha Hl IH]; intros [|n]; simpl; auto.
Qed.

Lemma Forall_updZ {A} (P : A -> Prop) l i v : Forall P l -> P v -> Forall P (updZ l i v).
Proof. unfold updZ; destruct (i <? 0); auto using Forall_updn. Qed.

Lemma Forall_nthZ {A} (P : A -> Prop) d l i : Forall P l -> P d -> P (nthZ d l i).
Proof.
  intros H Hd; unfold nthZ. destruct (i <? 0); auto.
  destruct (Nat.lt_ge_cases (Z.to_nat i) (length l)) as [Hlt|Hge].
  - rewrite Forall_forall in H; apply H, nth_In; auto.
  - rewrite nth_overflow; auto.
Qed.

Lemma fill_length {A} n (v : A) : length (fill n v) = Z.to_nat n.
Proof. unfold fill; apply repeat_length. Qed.

Lemma nthZ_fill {A} (d v : A) n i : 0 <= i < n -> nthZ d (fill n v) i = v.
Proof.
  unfold nthZ, fill; intros H. destruct (i <? 0) eqn:E; [lia|].
  rewrite nth_indep with (d' := v) by (rewrite repeat_length; lia).
  apply nth_repeat.
Qed.

Lemma Forall_fill {A} (P : A -> Prop) n v : P v -> Forall P (fill n v).
Proof. intros; unfold fill; apply Forall_forall; intros x Hx; apply repeat_spec in Hx; subst; auto. Qed.

Lemma nthZ_ziota d s n i : 0 <= i < Z.of_nat n -> nthZ d (ziota s n) i = s + i.
Proof.
  revert s i; induction n as [|n IH]; intros s i H; [lia|].
  simpl ziota. destruct (Z.eq_dec i 0) as [->|Hn].
  - rewrite nthZ_cons_0; lia.
  - rewrite nthZ_cons_S by lia. rewrite IH by lia. lia.
Qed.

Lemma nthZ_map_ziota {B} (f : Z -> B) d n i :
  0 <= i < Z.of_nat n -> nthZ d (map f (ziota 0 n)) i = f i.
Proof.
  intros H. rewrite nthZ_map with (da := 0) by (unfold lenZ; rewrite ziota_length; lia).
  rewrite nthZ_ziota by lia. f_equal.
Qed.

Lemma fold_left_inv {A B} (f : A -> B -> A) (P : A -> Prop) l a :
  P a -> (forall a b, In b l -> P a -> P (f a b)) -> P (fold_left f l a).
Proof.
  revert a; induction l as [|b l IH]; intros a Ha Hs; simpl; auto.
  apply IH; [apply Hs; simpl; auto|]. intros; apply Hs; simpl; auto.
Qed.

Lemma fold_left_ziota_inv {A} (f : A -> Z -> A) (P : Z -> A -> Prop) s n a :
  P s a -> (forall k a, s <= k < s + Z.of_nat n -> P k a -> P (k + 1) (f a k)) ->
  P (s + Z.of_nat n) (fold_left f (ziota s n) a).
Proof.
  revert s a; induction n as [|n IH]; intros s a Ha Hs.
  - cbn [ziota fold_left]. replace (s + Z.of_nat 0) with s by lia. auto.
  - simpl ziota. simpl fold_left. replace (s + Z.of_nat (S n)) with ((s + 1) + Z.of_nat n) by lia.
    apply IH; [apply Hs; [lia|auto]|]. intros; apply Hs; [lia|auto].
Qed.

(* a property of position p established by the step at p and kept by the other steps,
   under an invariant Iv of the state *)
Lemma fold_left_touch {A B} (f : A -> B -> A) (Iv P : A -> Prop) (p : B) l a :
  Iv a -> (forall a q, In q l -> Iv a -> Iv (f a q)) ->
  (forall a, Iv a -> P (f a p)) -> (forall a q, In q l -> Iv a -> P a -> P (f a q)) ->
  In p l -> P (fold_left f l a).
Proof.
  intros Ha HI H1 H2; revert a Ha; induction l as [|b l IH]; intros a Ha Hin; [destruct Hin|].
  simpl. destruct Hin as [->|Hin].
  - assert (Hboth : Iv (fold_left f l (f a p)) /\ P (fold_left f l (f a p))).
    { apply fold_left_inv with (P := fun x => Iv x /\ P x).
      - split; [apply HI; simpl; auto|apply H1; auto].
      - intros x q Hq [Hx1 Hx2]. split; [apply HI; simpl; auto|apply H2; simpl; auto]. }
    apply Hboth.
  - apply IH; auto.
    + intros; apply HI; simpl; auto.
    + intros; apply H2; simpl; auto.
    + apply HI; simpl; auto.
Qed.

Lemma pixels_range start step w p :
  (start = 0 /\ step = 1) \/ (start = w - 1 /\ step = -1) ->
  In p (pixels start step w) -> 0 <= p < w.
Proof.
  unfold pixels; intros Hd Hin. apply in_map_iff in Hin as (k & <- & Hk).
  apply ziota_In in Hk. destruct Hd as [[-> ->]|[-> ->]]; lia.
Qed.

Lemma pixels_complete start step w p :
  (start = 0 /\ step = 1) \/ (start = w - 1 /\ step = -1) ->
  0 <= p < w -> In p (pixels start step w).
Proof.
  unfold pixels; intros Hd Hp. apply in_map_iff.
  destruct Hd as [[-> ->]|[-> ->]].
  - exists p; split; [lia|apply ziota_In; lia].
  - exists (w - 1 - p); split; [lia|apply ziota_In; lia].
Qed.

Lemma closer_some d nds a : closer d nds = Some a -> d = Some a.
Proof.
  unfold closer; destruct d as [x|]; [|discriminate].
  destruct (match nds with EInf => true | EFin b => x <? b end); congruence.
Qed.

Section Inv.
  Variable key : Z -> Z -> Z -> Z -> Z.
  Variable tie_up : Z -> bool.
  Variables R M : ext.
  Variables xc yc : list (option Z).
  Variable values : list xv.
  Variable img : list (list xv).
  Variable w : Z.
  Hypothesis Hw : 0 <= w.

  Notation is_target := (is_target values).
  Notation dist2 := (dist2 key xc yc).
  Notation step_pixel := (step_pixel key tie_up R M xc yc values).
  Notation process_line := (process_line key tie_up R M xc yc values).
  Notation cand := (cand key xc yc).

  (* a real target cell: the target test holds of the raster value there
     (out-of-range reads give NaN, which is never a target: see Tgt_inbounds) *)
  Definition Tgt (r c : Z) : Prop := is_target (cellv img r c) = true.
  Definition okp (p : Z * Z) : Prop := unset p = true \/ Tgt (snd p) (fst p).

  (* what a set line_proximity entry e of cell (ln,c) means w.r.t. its writer t = (x, y) *)
  Definition P_cell (ln c : Z) (t : Z * Z) (e : ext) : Prop :=
    Tgt (snd t) (fst t) /\
    ((fst t = c /\ snd t = ln /\ e = EFin 0) \/
     (exists d, dist2 (snd t) (fst t) ln c = Some d /\ e = EFin d /\ ele e M = true)).

  Definition Jcell (ln : Z) (orow : list (option (Z * Z))) (s : lst) (c : Z) : Prop :=
    match nthZ LUnset (lp s) c with
    | LUnset => nthZ None orow c = None
    | LVal e => exists t, P_cell ln c t e /\
        (if unset (nthZ NONE (near s) c) then nthZ None orow c = Some (snd t, fst t)
         else nthZ NONE (near s) c = t)
    end.

  Definition J (ln : Z) (orow : list (option (Z * Z))) (s : lst) : Prop :=
    lenZ (pan s) = w /\ lenZ (lp s) = w /\ lenZ (near s) = w /\
    Forall okp (pan s) /\ Forall okp (near s) /\
    forall c, 0 <= c < w -> Jcell ln orow s c.

  Lemma okp_NONE : okp NONE.
  Proof. left; reflexivity. Qed.

  (* state of the candidate chain for one pixel *)
  Definition Q (ln pixel : Z) (st : ext * list (Z * Z)) : Prop :=
    lenZ (snd st) = w /\ Forall okp (snd st) /\
    (unset (nthZ NONE (snd st) pixel) = true \/
     exists d, fst st = EFin d /\
       dist2 (snd (nthZ NONE (snd st) pixel)) (fst (nthZ NONE (snd st) pixel)) ln pixel = Some d).

  Lemma cand_Q ln pixel guard j st : 0 <= pixel < w -> Q ln pixel st -> Q ln pixel (cand ln pixel guard j st).
  Proof.
    intros Hp (Hl & Hf & Hq). destruct st as [nds pn]; unfold cand; simpl in *.
    destruct (guard && negb (unset (nthZ NONE pn j))) eqn:Eg; [|repeat split; auto].
    destruct (closer _ nds) as [a|] eqn:Ec; [|repeat split; auto].
    apply closer_some in Ec. apply andb_true_iff in Eg as [_ Eu].
    unfold Q; simpl. split; [unfold lenZ in *; rewrite updZ_length; auto|].
    split; [apply Forall_updZ; auto; apply Forall_nthZ; auto using okp_NONE|].
    right. exists a. split; auto. rewrite nthZ_updZ_same by lia. auto.
  Qed.

  Lemma step_pixel_J src ln start end_ step orow s pixel :
    src = nthZ [] img ln -> 0 <= pixel < w ->
    J ln orow s -> J ln orow (step_pixel src ln start end_ step s pixel).
  Proof.
    intros Hsrc Hp (Hl1 & Hl2 & Hl3 & Hpan & Hnear & Hc).
    unfold Model.step_pixel.
    destruct (is_target (nthZ XNaN src pixel)) eqn:Et.
    - (* target pixel *)
      assert (HT : Tgt ln pixel) by (unfold Tgt, cellv; rewrite <- Hsrc; exact Et).
      assert (Hok : okp (pixel, ln)) by (right; exact HT).
      unfold J; simpl. unfold lenZ in *; rewrite !updZ_length.
      repeat split; auto using Forall_updZ.
      intros c Hcr. unfold Jcell; simpl.
      destruct (Z.eq_dec c pixel) as [->|Hne].
      + rewrite !nthZ_updZ_same by (unfold lenZ; lia).
        exists (pixel, ln). split.
        * split; [exact HT|]. left; auto.
        * unfold unset; simpl. destruct (pixel =? -1) eqn:E; [lia|reflexivity].
      + rewrite !nthZ_updZ_other by lia. apply (Hc c Hcr).
    - (* not a target: candidate chain *)
      set (p0 := nthZ NONE (pan s) pixel).
      set (st1 := if negb (unset p0)
                  then match closer (dist2 (snd p0) (fst p0) ln pixel) R with
                       | Some a => (EFin a, pan s)
                       | None => (R, updZ (pan s) pixel NONE)
                       end
                  else (R, pan s)).
      assert (Q1 : Q ln pixel st1).
      { unfold st1. destruct (negb (unset p0)) eqn:Eu.
        - destruct (closer _ R) as [a|] eqn:Ec.
          + apply closer_some in Ec. repeat split; auto. right; exists a; split; auto.
          + unfold Q; simpl. split; [unfold lenZ in *; rewrite updZ_length; auto|].
            split; [apply Forall_updZ; auto using okp_NONE|].
            left. rewrite nthZ_updZ_same by lia. reflexivity.
        - repeat split; auto. left. apply negb_false_iff in Eu. exact Eu. }
      set (st2 := cand ln pixel (negb (pixel =? start)) (pixel - step) st1).
      assert (Q2 : Q ln pixel st2) by (apply cand_Q; auto).
      set (st3 := cand ln pixel (negb (pixel + step =? end_)) (pixel + step) st2).
      assert (Q3 : Q ln pixel st3) by (apply cand_Q; auto).
      clearbody st3. clear Q2 st2 Q1 st1.
      destruct Q3 as (Hl & Hf & Hq).
      set (pf := nthZ NONE (snd st3) pixel) in *.
      match goal with |- J _ _ (if ?b then _ else _) => destruct b eqn:Ecd end.
      + apply andb_true_iff in Ecd as [Ecd _]. apply andb_true_iff in Ecd as [Eu Em].
        apply negb_true_iff in Eu.
        destruct Hq as [Hq|(d & Hnds & Hd)]; [congruence|].
        assert (Hokf : okp pf) by (apply Forall_nthZ; auto using okp_NONE).
        destruct Hokf as [Hokf|HT]; [congruence|].
        unfold J; simpl. unfold lenZ in *; rewrite !updZ_length.
        repeat split; auto.
        { apply Forall_updZ; auto. right; exact HT. }
        intros c Hcr. unfold Jcell; simpl.
        destruct (Z.eq_dec c pixel) as [->|Hne].
        * rewrite !nthZ_updZ_same by (unfold lenZ; lia).
          exists pf. split.
          -- split; [exact HT|]. right. exists d. rewrite Hnds in *. auto.
          -- fold pf. rewrite Eu. reflexivity.
        * rewrite !nthZ_updZ_other by lia. apply (Hc c Hcr).
      + unfold J; simpl. repeat split; auto.
  Qed.

  Lemma process_line_J src fwd ln orow s :
    src = nthZ [] img ln -> J ln orow s -> J ln orow (process_line src fwd ln w s).
  Proof.
    intros Hsrc HJ. unfold Model.process_line.
    apply fold_left_inv; auto.
    intros a b Hin Ha. apply step_pixel_J; auto.
    eapply pixels_range; [|exact Hin]. destruct fwd; [left|right]; auto.
  Qed.
End Inv.

Section Global.
  Variable key : Z -> Z -> Z -> Z -> Z.
  Variable tie_up : Z -> bool.
  Variables R M : ext.
  Variables xc yc : list (option Z).
  Variable values : list xv.
  Variable img : list (list xv).
  Variable w h : Z.
  Hypothesis Hw : 0 <= w.
  Hypothesis Hh : 0 <= h.

  Notation is_target := (is_target values).
  Notation dist2 := (dist2 key xc yc).
  Notation process_line := (process_line key tie_up R M xc yc values).
  Notation down_line := (down_line key tie_up R M xc yc values).
  Notation up_line := (up_line key tie_up R M xc yc values).
  Notation Tgt := (Tgt values img).
  Notation okp := (okp values img).
  Notation P_cell := (P_cell key M xc yc values img).
  Notation J := (J key M xc yc values img w).
  Notation Jcell := (Jcell key M xc yc values img).

  (* a finished row: distance row and output_img row agree *)
  Definition RowOK (r : Z) (drow : list lpv) (orow : list (option (Z * Z))) : Prop :=
    lenZ drow = w /\ lenZ orow = w /\
    forall c, 0 <= c < w ->
      match nthZ LUnset drow c with
      | LUnset => nthZ None orow c = None
      | LVal e => exists t, P_cell r c t e /\ nthZ None orow c = Some (snd t, fst t)
      end.

  Lemma upd_out_length orow nr l : length (upd_out orow nr l) = length orow.
  Proof. unfold upd_out; rewrite map_length, ziota_length; auto. Qed.

  Lemma upd_out_nth orow nr l c : 0 <= c < lenZ orow ->
    nthZ None (upd_out orow nr l) c =
    (let n := nthZ NONE nr c in
     if negb (unset n) && lp_ge0 (nthZ LUnset l c) then Some (snd n, fst n) else nthZ None orow c).
  Proof. intros H; unfold upd_out. rewrite nthZ_map_ziota by (unfold lenZ in H; lia). reflexivity. Qed.

  Lemma J_flush ln orow s : lenZ orow = w -> J ln orow s ->
    let o' := upd_out orow (near s) (lp s) in
    J ln o' (mkL (pan s) (lp s) (fill w NONE)) /\ RowOK ln (lp s) o' /\ lenZ o' = w.
  Proof.
    intros Ho (Hl1 & Hl2 & Hl3 & Hpan & Hnear & Hc). cbv zeta.
    assert (Hlo : lenZ (upd_out orow (near s) (lp s)) = w)
      by (unfold lenZ in *; rewrite upd_out_length; auto).
    assert (Hcell : forall c, 0 <= c < w ->
      match nthZ LUnset (lp s) c with
      | LUnset => nthZ None (upd_out orow (near s) (lp s)) c = None
      | LVal e => exists t, P_cell ln c t e /\ nthZ None (upd_out orow (near s) (lp s)) c = Some (snd t, fst t)
      end).
    { intros c Hcr. specialize (Hc c Hcr). unfold Proofs.Jcell in Hc.
      rewrite upd_out_nth by lia. cbv zeta.
      destruct (nthZ LUnset (lp s) c) as [|e] eqn:El; simpl lp_ge0.
      - rewrite andb_false_r. exact Hc.
      - destruct Hc as (t & HP & Hwr). exists t; split; auto.
        rewrite andb_true_r. destruct (unset (nthZ NONE (near s) c)) eqn:Eu; simpl negb; cbv iota.
        + exact Hwr.
        + subst t; reflexivity. }
    split; [|split; auto].
    - unfold Proofs.J; simpl. repeat split; auto.
      + unfold lenZ; rewrite fill_length; lia.
      + apply Forall_fill. left; reflexivity.
      + intros c Hcr. unfold Proofs.Jcell; simpl. specialize (Hcell c Hcr).
        destruct (nthZ LUnset (lp s) c) as [|e]; auto.
        rewrite nthZ_fill by lia. simpl. exact Hcell.
    - repeat split; auto.
  Qed.

  (* ---- top-down pass ---- *)
  Definition GD (k : Z) (g : gst) : Prop :=
    lenZ (gpan g) = w /\ Forall okp (gpan g) /\ lenZ (gdist g) = h /\ lenZ (gout g) = h /\
    (forall r, 0 <= r < k -> RowOK r (nthZ [] (gdist g) r) (nthZ [] (gout g) r)) /\
    (forall r, k <= r < h -> lenZ (nthZ [] (gout g) r) = w /\
                             forall c, 0 <= c < w -> nthZ None (nthZ [] (gout g) r) c = None).

  Lemma J_pan ln orow s : J ln orow s -> lenZ (pan s) = w /\ Forall okp (pan s).
  Proof. intros (H1 & _ & _ & H2 & _); auto. Qed.

  Lemma down_line_GD k g : 0 <= k < h -> GD k g -> GD (k + 1) (down_line img w g k).
  Proof.
    intros Hk (Hlp & Hpan & Hld & Hlo & Hdone & Htodo).
    unfold Model.down_line.
    set (src := nthZ [] img k).
    destruct (Htodo k ltac:(lia)) as (Hlrow & Hnone).
    set (orow := nthZ [] (gout g) k) in *.
    assert (J0 : J k orow (mkL (gpan g) (fill w LUnset) (fill w NONE))).
    { unfold Proofs.J; simpl. repeat split; auto.
      - unfold lenZ; rewrite fill_length; lia.
      - unfold lenZ; rewrite fill_length; lia.
      - apply Forall_fill; left; reflexivity.
      - intros c Hcr. unfold Proofs.Jcell; simpl. rewrite nthZ_fill by lia. auto. }
    apply (process_line_J key tie_up R M xc yc values img w src true k orow _ eq_refl) in J0.
    set (s1 := process_line src true k w _) in *.
    destruct (J_flush k orow s1 Hlrow J0) as (J1 & _ & Hl1).
    set (o1 := upd_out orow (near s1) (lp s1)) in *.
    apply (process_line_J key tie_up R M xc yc values img w src false k o1 _ eq_refl) in J1.
    set (s2 := process_line src false k w _) in *.
    destruct (J_flush k o1 s2 Hl1 J1) as (J2 & Hrow & Hl2).
    set (o2 := upd_out o1 (near s2) (lp s2)) in *.
    destruct (J_pan _ _ _ J2) as (Hp2 & Hf2). simpl in Hp2, Hf2.
    unfold GD; simpl. unfold lenZ in *; rewrite !updZ_length.
    split; [auto|]. split; [auto|]. split; [auto|]. split; [auto|]. split.
    - intros r Hr. destruct (Z.eq_dec r k) as [->|Hne].
      + rewrite !nthZ_updZ_same by (unfold lenZ; lia). exact Hrow.
      + rewrite !nthZ_updZ_other by lia. apply Hdone; lia.
    - intros r Hr. rewrite nthZ_updZ_other by lia. apply Htodo; lia.
  Qed.

  (* ---- bottom-up pass ---- *)
  Definition GU (g : gst) : Prop :=
    lenZ (gpan g) = w /\ Forall okp (gpan g) /\ lenZ (gdist g) = h /\ lenZ (gout g) = h /\
    (forall r, 0 <= r < h -> RowOK r (nthZ [] (gdist g) r) (nthZ [] (gout g) r)).

  Lemma up_line_GU k g : 0 <= k < h -> GU g -> GU (up_line img w g k).
  Proof.
    intros Hk (Hlp & Hpan & Hld & Hlo & Hrows).
    unfold Model.up_line.
    set (src := nthZ [] img k).
    destruct (Hrows k Hk) as (Hldrow & Hlrow & Hcells).
    set (orow := nthZ [] (gout g) k) in *.
    set (drow := nthZ [] (gdist g) k) in *.
    assert (J0 : J k orow (mkL (gpan g) drow (fill w NONE))).
    { unfold Proofs.J; simpl. repeat split; auto.
      - unfold lenZ; rewrite fill_length; lia.
      - apply Forall_fill; left; reflexivity.
      - intros c Hcr. unfold Proofs.Jcell; simpl. specialize (Hcells c Hcr).
        destruct (nthZ LUnset drow c); auto. rewrite nthZ_fill by lia. simpl. exact Hcells. }
    apply (process_line_J key tie_up R M xc yc values img w src false k orow _ eq_refl) in J0.
    set (s1 := process_line src false k w _) in *.
    destruct (J_flush k orow s1 Hlrow J0) as (J1 & _ & Hl1).
    set (o1 := upd_out orow (near s1) (lp s1)) in *.
    apply (process_line_J key tie_up R M xc yc values img w src true k o1 _ eq_refl) in J1.
    set (s2 := process_line src true k w _) in *.
    destruct (J_flush k o1 s2 Hl1 J1) as (J2 & Hrow & Hl2).
    set (o2 := upd_out o1 (near s2) (lp s2)) in *.
    destruct (J_pan _ _ _ J2) as (Hp2 & Hf2). simpl in Hp2, Hf2.
    unfold GU; simpl. unfold lenZ in *; rewrite !updZ_length.
    split; [auto|]. split; [auto|]. split; [auto|]. split; [auto|].
    intros r Hr. destruct (Z.eq_dec r k) as [->|Hne].
    + rewrite !nthZ_updZ_same by (unfold lenZ; lia). exact Hrow.
    + rewrite !nthZ_updZ_other by lia. apply Hrows; lia.
  Qed.
End Global.

(* ---------- target cells end with distance 0 ---------- *)
Section Zero.
  Variable key : Z -> Z -> Z -> Z -> Z.
  Variable tie_up : Z -> bool.
  Variables R M : ext.
  Variables xc yc : list (option Z).
  Variable values : list xv.
  Notation step_pixel := (step_pixel key tie_up R M xc yc values).
  Notation process_line := (process_line key tie_up R M xc yc values).

  Lemma step_pixel_lp_len src ln start end_ step s pixel :
    length (lp (step_pixel src ln start end_ step s pixel)) = length (lp s).
  Proof.
    unfold Model.step_pixel. destruct (is_target values _); simpl; [apply updZ_length|].
    match goal with |- context [if ?b then _ else _] => destruct b end; simpl; auto using updZ_length.
  Qed.

  Lemma step_pixel_lp_other src ln start end_ step s pixel c : c <> pixel ->
    nthZ LUnset (lp (step_pixel src ln start end_ step s pixel)) c = nthZ LUnset (lp s) c.
  Proof.
    intros Hne. unfold Model.step_pixel. destruct (is_target values _); simpl.
    - apply nthZ_updZ_other; lia.
    - match goal with |- context [if ?b then _ else _] => destruct b end; simpl; auto.
      apply nthZ_updZ_other; lia.
  Qed.

  Lemma step_pixel_lp_target src ln start end_ step s pixel :
    0 <= pixel < lenZ (lp s) -> is_target values (nthZ XNaN src pixel) = true ->
    nthZ LUnset (lp (step_pixel src ln start end_ step s pixel)) pixel = LVal (EFin 0).
  Proof.
    intros Hp Ht. unfold Model.step_pixel. rewrite Ht; simpl. apply nthZ_updZ_same; auto.
  Qed.

  Lemma process_line_lp_len src fwd ln w s : length (lp (process_line src fwd ln w s)) = length (lp s).
  Proof.
    unfold Model.process_line. apply fold_left_inv with (P := fun x => length (lp x) = length (lp s)); auto.
    intros a b _ Ha. rewrite step_pixel_lp_len; auto.
  Qed.

  Lemma process_line_target_zero src fwd ln w s c :
    lenZ (lp s) = w -> 0 <= c < w -> is_target values (nthZ XNaN src c) = true ->
    nthZ LUnset (lp (process_line src fwd ln w s)) c = LVal (EFin 0).
  Proof.
    intros Hl Hc Ht. unfold Model.process_line.
    apply fold_left_touch with (Iv := fun a => lenZ (lp a) = w) (p := c); auto.
    - intros a q _ Ha. unfold lenZ in *; rewrite step_pixel_lp_len; auto.
    - intros a Ha. apply step_pixel_lp_target; auto; lia.
    - intros a q _ Ha HP. destruct (Z.eq_dec c q) as [<-|Hne].
      + apply step_pixel_lp_target; auto; lia.
      + rewrite step_pixel_lp_other; auto.
    - apply pixels_complete; auto. destruct fwd; [left|right]; auto.
  Qed.
End Zero.

(* ---------- the whole algorithm ---------- *)
Section Whole.
  Variable key : Z -> Z -> Z -> Z -> Z.
  Variable tie_up : Z -> bool.
  Variables R M : ext.
  Variables xc yc : list (option Z).
  Variable values : list xv.
  Variable img : list (list xv).
  Notation process := (process key tie_up R M xc yc values).
  Notation up_line := (up_line key tie_up R M xc yc values).
  Notation down_line := (down_line key tie_up R M xc yc values).
  Let h := lenZ img.
  Let w := lenZ (nthZ [] img 0).

  Lemma GU_final : GU key M xc yc values img w h (process img).
  Proof.
    assert (Hw : 0 <= w) by apply lenZ_nonneg.
    assert (Hh : 0 <= h) by apply lenZ_nonneg.
    unfold Model.process. fold h w.
    set (g0 := mkG (fill w NONE) (fill h (fill w (LVal (EFin 0)))) (fill h (fill w None))).
    assert (G0 : GD key M xc yc values img w h 0 g0).
    { unfold GD, g0; simpl. unfold lenZ; rewrite !fill_length.
      split; [lia|]. split; [apply Forall_fill; left; reflexivity|].
      split; [lia|]. split; [lia|]. split; [intros; lia|].
      intros r Hr. rewrite nthZ_fill by lia. rewrite fill_length. split; [lia|].
      intros c Hc. apply nthZ_fill; lia. }
    set (g1 := fold_left (down_line img w) (ziota 0 (Z.to_nat h)) g0).
    assert (G1 : GD key M xc yc values img w h h g1).
    { replace h with (0 + Z.of_nat (Z.to_nat h)) at 2 by lia. unfold g1.
      apply fold_left_ziota_inv with (P := GD key M xc yc values img w h); auto.
      intros k a Hk Ha. apply down_line_GD; auto; lia. }
    destruct G1 as (_ & _ & Hld & Hlo & Hrows & _).
    apply fold_left_inv.
    - unfold GU; simpl. unfold lenZ; rewrite fill_length.
      split; [lia|]. split; [apply Forall_fill; left; reflexivity|]. auto.
    - intros a b Hb Ha. apply up_line_GU; auto.
      apply in_rev in Hb. apply ziota_In in Hb. lia.
  Qed.

  Theorem process_rows : forall r c, 0 <= r < h -> 0 <= c < w ->
    match prox_of (process img) r c with
    | LUnset => index_of (process img) r c = None
    | LVal e => exists t, P_cell key M xc yc values img r c t e /\
                          index_of (process img) r c = Some (snd t, fst t)
    end.
  Proof.
    intros r c Hr Hc. destruct GU_final as (_ & _ & _ & _ & Hrows).
    destruct (Hrows r Hr) as (_ & _ & Hcells). exact (Hcells c Hc).
  Qed.

  Theorem process_target_zero : forall r c, 0 <= r < h -> 0 <= c < w ->
    Tgt values img r c -> prox_of (process img) r c = LVal (EFin 0).
  Proof.
    intros r c Hr Hc HT.
    assert (Hw : 0 <= w) by apply lenZ_nonneg.
    assert (Hh : 0 <= h) by apply lenZ_nonneg.
    unfold prox_of, Model.process. fold h w.
    match goal with |- context [fold_left ?f (rev ?l) ?a] => set (g1' := a) end.
    assert (G1 : GU key M xc yc values img w h g1').
    { pose proof GU_final as HF. unfold Model.process in HF. fold h w in HF.
      (* re-derive GU of the start of the bottom-up pass exactly as in GU_final *)
      clear HF. unfold g1'.
      set (g0 := mkG (fill w NONE) (fill h (fill w (LVal (EFin 0)))) (fill h (fill w None))).
      assert (G0 : GD key M xc yc values img w h 0 g0).
      { unfold GD, g0; simpl. unfold lenZ; rewrite !fill_length.
        split; [lia|]. split; [apply Forall_fill; left; reflexivity|].
        split; [lia|]. split; [lia|]. split; [intros; lia|].
        intros r0 Hr0. rewrite nthZ_fill by lia. rewrite fill_length. split; [lia|].
        intros c0 Hc0. apply nthZ_fill; lia. }
      assert (G1 : GD key M xc yc values img w h h (fold_left (down_line img w) (ziota 0 (Z.to_nat h)) g0)).
      { replace h with (0 + Z.of_nat (Z.to_nat h)) at 2 by lia.
        apply fold_left_ziota_inv with (P := GD key M xc yc values img w h); auto.
        intros k a Hk Ha. apply down_line_GD; auto; lia. }
      destruct G1 as (_ & _ & Hld & Hlo & Hrows & _).
      unfold GU; simpl. unfold lenZ; rewrite fill_length.
      split; [lia|]. split; [apply Forall_fill; left; reflexivity|]. auto. }
    apply fold_left_touch with (Iv := GU key M xc yc values img w h) (p := r)
      (P := fun g => nthZ LUnset (nthZ [] (gdist g) r) c = LVal (EFin 0)); auto.
    - intros a q Hq Ha. apply up_line_GU; auto. apply in_rev in Hq. apply ziota_In in Hq. lia.
    - intros a Ha. destruct Ha as (_ & _ & Hld & _ & Hrows).
      unfold Model.up_line; simpl. rewrite nthZ_updZ_same by lia.
      apply process_line_target_zero with (w := w); auto.
      unfold lenZ; cbn [lp]; rewrite process_line_lp_len; cbn [lp].
      destruct (Hrows r Hr) as (Hl & _). exact Hl.
    - intros a q Hq Ha HP. destruct (Z.eq_dec r q) as [<-|Hne].
      + destruct Ha as (_ & _ & Hld & _ & Hrows).
        unfold Model.up_line; simpl. rewrite nthZ_updZ_same by lia.
        apply process_line_target_zero with (w := w); auto.
        unfold lenZ; cbn [lp]; rewrite process_line_lp_len; cbn [lp].
        destruct (Hrows r Hr) as (Hl & _). exact Hl.
      + unfold Model.up_line; simpl. rewrite nthZ_updZ_other by lia. exact HP.
    - apply in_rev. rewrite rev_involutive. apply ziota_In. lia.
  Qed.
End Whole.
