(* C06/BearingRange.v — the range of _calc_direction for a non-self target, through Flocq's real-number
   semantics of the binary64 primitives (Flocq.IEEE754.PrimFloat) and of the binary32 rounding:
   if libm atan2 returns a finite value of magnitude <= pi (the double nearest pi), the float64 value before the
   float32 store lies in [0, 360], and in [2^-46, 360] unless atan2(..)*57.29578 is exactly 90.0; the stored
   float32 then lies in (0, 360].  Uses the axioms of the Coq Reals library (listed by Print Assumptions). *)
From Coq Require Import ZArith Reals Lra Floats SpecFloat.
From Flocq Require Import Core BinarySingleNaN PrimFloat.
Require Import C06.Bearing.
Open Scope R_scope.

Definition FR (x : PrimFloat.float) : R := B2R (Prim2B x).
Definition fin (x : PrimFloat.float) : Prop := is_finite (Prim2B x) = true.
Notation rnd64 := (round radix2 (fexp prec emax) (round_mode mode_NE)).

Lemma fin_const x : PrimFloat.is_finite x = true -> fin x.
Proof. unfold fin; now rewrite <- is_finite_equiv. Qed.

Lemma rnd_abs_le x b : generic_format radix2 (fexp prec emax) b -> Rabs x <= b -> Rabs (rnd64 x) <= b.
Proof. intros; apply abs_round_le_generic; auto; [apply (fexp_correct prec emax Hprec)|apply valid_rnd_round_mode]. Qed.

Lemma gf1024 : generic_format radix2 (fexp prec emax) (bpow radix2 10).
Proof. apply generic_format_bpow. vm_compute. discriminate. Qed.

Lemma no_ovf x : Rabs x <= 1024 -> Rlt_bool (Rabs (rnd64 x)) (bpow radix2 emax) = true.
Proof.
  intros H. apply Rlt_bool_true.
  apply Rle_lt_trans with (bpow radix2 10).
  - apply rnd_abs_le; [apply gf1024|]. replace (bpow radix2 10) with 1024 by (simpl; lra). exact H.
  - apply bpow_lt. vm_compute. reflexivity.
Qed.

Lemma mul_fr x y : fin x -> fin y -> Rabs (FR x * FR y) <= 1024 ->
  fin (x * y)%float /\ FR (x * y)%float = rnd64 (FR x * FR y).
Proof.
  intros Hx Hy Hb. unfold fin, FR in *. rewrite mul_equiv.
  pose proof (Bmult_correct prec emax Hprec Hmax mode_NE (Prim2B x) (Prim2B y)) as H.
  rewrite (no_ovf _ Hb) in H. destruct H as (H1 & H2 & _). rewrite H2, Hx, Hy. auto.
Qed.

Lemma sub_fr x y : fin x -> fin y -> Rabs (FR x - FR y) <= 1024 ->
  fin (x - y)%float /\ FR (x - y)%float = rnd64 (FR x - FR y).
Proof.
  intros Hx Hy Hb. unfold fin, FR in *. rewrite sub_equiv.
  pose proof (Bminus_correct prec emax Hprec Hmax mode_NE (Prim2B x) (Prim2B y) Hx Hy) as H.
  rewrite (no_ovf _ Hb) in H. destruct H as (H1 & H2 & _). auto.
Qed.

Lemma add_fr x y : fin x -> fin y -> Rabs (FR x + FR y) <= 1024 ->
  fin (x + y)%float /\ FR (x + y)%float = rnd64 (FR x + FR y).
Proof.
  intros Hx Hy Hb. unfold fin, FR in *. rewrite add_equiv.
  pose proof (Bplus_correct prec emax Hprec Hmax mode_NE (Prim2B x) (Prim2B y) Hx Hy) as H.
  rewrite (no_ovf _ Hb) in H. destruct H as (H1 & H2 & _). auto.
Qed.

Lemma ltb_fr x y : fin x -> fin y -> (x <? y)%float = Rlt_bool (FR x) (FR y).
Proof. intros Hx Hy. rewrite ltb_equiv. apply Bltb_correct; auto. Qed.

Lemma leb_fr x y : fin x -> fin y -> (x <=? y)%float = Rle_bool (FR x) (FR y).
Proof. intros Hx Hy. rewrite leb_equiv. apply Bleb_correct; auto. Qed.

Lemma abs_fr x : fin x -> fin (abs x) /\ FR (abs x) = Rabs (FR x).
Proof.
  unfold fin, FR. intros Hx. rewrite abs_equiv. rewrite is_finite_Babs, B2R_Babs. auto.
Qed.

(* monotone rounding between representable bounds *)
Lemma rnd_between lo hi x : generic_format radix2 (fexp prec emax) lo -> generic_format radix2 (fexp prec emax) hi ->
  lo <= x <= hi -> lo <= rnd64 x <= hi.
Proof.
  intros Hlo Hhi [H1 H2]. split.
  - rewrite <- (round_generic radix2 (fexp prec emax) (round_mode mode_NE) lo Hlo).
    apply round_le; auto; [apply (fexp_correct prec emax Hprec)|apply valid_rnd_round_mode].
  - rewrite <- (round_generic radix2 (fexp prec emax) (round_mode mode_NE) hi Hhi).
    apply round_le; auto; [apply (fexp_correct prec emax Hprec)|apply valid_rnd_round_mode].
Qed.

Lemma gf_FR x : generic_format radix2 (fexp prec emax) (FR x).
Proof. apply generic_format_B2R. Qed.

Ltac fr_const c :=
  unfold FR, Prim2B; rewrite B2R_SF2B;
  let sf := eval vm_compute in (Prim2SF c) in change (Prim2SF c) with sf;
  unfold SF2R, cond_Zopp, F2R; simpl; lra.

Lemma FR_90 : FR 90%float = 90. Proof. fr_const 90%float. Qed.
Lemma FR_360 : FR 360%float = 360. Proof. fr_const 360%float. Qed.
Lemma FR_0 : FR 0%float = 0.
Proof. unfold FR, Prim2B; rewrite B2R_SF2B. replace (Prim2SF 0%float) with (S754_zero false) by (vm_compute; reflexivity). reflexivity. Qed.

Notation F64 := (generic_format radix2 (fexp prec emax)).
Lemma mag90 : mag radix2 90 = 7%Z :> Z.
Proof. apply mag_unique. rewrite Rabs_pos_eq by lra. simpl. lra. Qed.
Lemma pred90 : pred radix2 (fexp prec emax) 90 = 90 - / 70368744177664.
Proof.
  rewrite pred_eq_pos by lra. unfold pred_pos. rewrite mag90.
  rewrite Req_bool_false by (simpl; lra).
  rewrite ulp_neq_0 by lra. unfold cexp. rewrite mag90. vm_compute (fexp prec emax 7).
  simpl. lra.
Qed.
Lemma below90 x : F64 x -> x < 90 -> x <= 90 - / 70368744177664.
Proof.
  intros Hx Hlt. rewrite <- pred90. apply pred_ge_gt; auto.
  - apply (fexp_correct prec emax Hprec).
  - rewrite <- FR_90. apply gf_FR.
Qed.



Lemma FR_DEG : FR DEG = 8063664170559435 / 140737488355328.
Proof. unfold DEG. fr_const 0x1.ca5dc1e7967cbp+5%float. Qed.
Lemma FR_PI : FR PI = 7074237752028440 / 2251799813685248.
Proof. unfold PI. fr_const 0x1.921fb54442d18p+1%float. Qed.
Lemma FR_181 : FR 181%float = 181. Proof. fr_const 181%float. Qed.
Lemma FR_271 : FR 271%float = 271. Proof. fr_const 271%float. Qed.
Lemma FR_179 : FR 179%float = 179. Proof. fr_const 179%float. Qed.
Lemma FR_270 : FR 270%float = 270. Proof. fr_const 270%float. Qed.
Lemma FR_269 : FR 269%float = 269. Proof. fr_const 269%float. Qed.
Lemma FR_tiny : FR 0x1p-46%float = / 70368744177664.
Proof. fr_const 0x1p-46%float. Qed.

Ltac gf c := match goal with |- generic_format _ _ ?v => idtac end.
Lemma F64_opp x : F64 x -> F64 (- x). Proof. apply generic_format_opp. Qed.
Lemma F64_0 : F64 0. Proof. apply generic_format_0. Qed.
Lemma F64_90 : F64 90. Proof. rewrite <- FR_90; apply gf_FR. Qed.
Lemma F64_360 : F64 360. Proof. rewrite <- FR_360; apply gf_FR. Qed.
Lemma F64_181 : F64 181. Proof. rewrite <- FR_181; apply gf_FR. Qed.
Lemma F64_271 : F64 271. Proof. rewrite <- FR_271; apply gf_FR. Qed.
Lemma F64_179 : F64 179. Proof. rewrite <- FR_179; apply gf_FR. Qed.
Lemma F64_270 : F64 270. Proof. rewrite <- FR_270; apply gf_FR. Qed.
Lemma F64_269 : F64 269. Proof. rewrite <- FR_269; apply gf_FR. Qed.
Lemma F64_tiny : F64 (/ 70368744177664). Proof. rewrite <- FR_tiny; apply gf_FR. Qed.

Section Range.
  Variable t : PrimFloat.float.     (* the value returned by atan2 *)
  Hypothesis Hfin : PrimFloat.is_finite t = true.
  Hypothesis Hpi : (abs t <=? PI)%float = true.

  Let a := (t * DEG)%float.
  Definition dval : PrimFloat.float :=
    if (a <? 0)%float then (90 - a)%float
    else if (90 <? a)%float then (360 - a + 90)%float
    else (90 - a)%float.

  Lemma t_bound : fin t /\ Rabs (FR t) <= 7074237752028440 / 2251799813685248.
  Proof.
    assert (Ft : fin t) by (apply fin_const; exact Hfin).
    split; auto.
    destruct (abs_fr t Ft) as (Fa & Ha).
    assert (Fp : fin PI) by (apply fin_const; reflexivity).
    rewrite (leb_fr _ _ Fa Fp) in Hpi. rewrite Ha, FR_PI in Hpi.
    destruct (Rle_bool_spec (Rabs (FR t)) (7074237752028440 / 2251799813685248)); [auto|discriminate].
  Qed.

  Lemma a_bound : fin a /\ -181 <= FR a <= 181.
  Proof.
    destruct t_bound as (Ft & Hb).
    assert (Fd : fin DEG) by (apply fin_const; reflexivity).
    assert (Hprod : Rabs (FR t * FR DEG) <= 181).
    { rewrite Rabs_mult, FR_DEG. rewrite (Rabs_pos_eq (8063664170559435 / 140737488355328)) by lra.
      apply Rle_trans with (7074237752028440 / 2251799813685248 * (8063664170559435 / 140737488355328)); [|lra].
      apply Rmult_le_compat_r; lra. }
    destruct (mul_fr t DEG Ft Fd) as (Fa & Ha); [lra|].
    split; [exact Fa|]. fold a in Ha. rewrite Ha.
    apply rnd_between; [apply F64_opp, F64_181|apply F64_181|].
    apply Rabs_le_inv in Hprod. lra.
  Qed.

  (* the float64 value before the float32 store: finite, in [0, 360]; at least 2^-46 unless t*57.29578 is exactly 90.0 *)
  Lemma dval_bound : fin dval /\ 0 <= FR dval <= 360 /\ ((a =? 90)%float = false -> / 70368744177664 <= FR dval).
  Proof.
    destruct a_bound as (Fa & Hab).
    assert (F0 : fin 0%float) by (apply fin_const; reflexivity).
    assert (F90 : fin 90%float) by (apply fin_const; reflexivity).
    assert (F360 : fin 360%float) by (apply fin_const; reflexivity).
    unfold dval.
    rewrite (ltb_fr _ _ Fa F0), FR_0.
    destruct (Rlt_bool_spec (FR a) 0) as [Hneg|Hnn].
    - (* d = 90 - a, a < 0 *)
      destruct (sub_fr _ _ F90 Fa) as (Fd & Hd); [rewrite FR_90; apply Rabs_le; lra|].
      rewrite Hd, FR_90.
      assert (90 <= rnd64 (90 - FR a) <= 271) by (apply rnd_between; [apply F64_90|apply F64_271|lra]).
      split; [exact Fd|]. split; lra.
    - rewrite (ltb_fr _ _ F90 Fa), FR_90.
      destruct (Rlt_bool_spec 90 (FR a)) as [Hgt|Hle].
      + (* d = 360 - a + 90, 90 < a <= 181 *)
        destruct (sub_fr _ _ F360 Fa) as (Fe & He); [rewrite FR_360; apply Rabs_le; lra|].
        rewrite FR_360 in He.
        assert (Hb : 179 <= rnd64 (360 - FR a) <= 270) by (apply rnd_between; [apply F64_179|apply F64_270|lra]).
        destruct (add_fr _ _ Fe F90) as (Fd & Hd); [rewrite He, FR_90; apply Rabs_le; lra|].
        rewrite Hd, He, FR_90.
        assert (269 <= rnd64 (rnd64 (360 - FR a) + 90) <= 360) by (apply rnd_between; [apply F64_269|apply F64_360|lra]).
        split; [exact Fd|]. split; lra.
      + (* d = 90 - a, 0 <= a <= 90 *)
        destruct (sub_fr _ _ F90 Fa) as (Fd & Hd); [rewrite FR_90; apply Rabs_le; lra|].
        rewrite Hd, FR_90.
        assert (0 <= rnd64 (90 - FR a) <= 90) by (apply rnd_between; [apply F64_0|apply F64_90|lra]).
        split; [exact Fd|]. split; [lra|].
        intros Hne. rewrite eqb_equiv in Hne.
        rewrite (Beqb_correct _ _ (Prim2B a) (Prim2B 90%float) Fa F90) in Hne.
        fold (FR a) in Hne. fold (FR 90%float) in Hne. rewrite FR_90 in Hne.
        destruct (Req_bool_spec (FR a) 90) as [|Hneq]; [discriminate|].
        assert (FR a <= 90 - / 70368744177664) by (apply below90; [apply gf_FR|lra]).
        assert (/ 70368744177664 <= rnd64 (90 - FR a) <= 90) by (apply rnd_between; [apply F64_tiny|apply F64_90|lra]).
        lra.
  Qed.
End Range.


Lemma Hprec32 : Prec_gt_0 prec32. Proof. reflexivity. Qed.
Lemma Hmax32 : Prec_lt_emax prec32 emax32. Proof. reflexivity. Qed.
Notation F32 := (generic_format radix2 (fexp prec32 emax32)).
Notation rnd32 := (round radix2 (fexp prec32 emax32) (round_mode mode_NE)).

Lemma round_nearest_even_equiv' s m l : round_nearest_even m l = choice_mode mode_NE s m l.
Proof.
  case l; [reflexivity|intro c]. case c; [ | reflexivity..].
  now simpl; unfold Round.cond_incr; case Z.even.
Qed.
Lemma binary_round_aux_equiv32 sx mx ex lx :
  SpecFloat.binary_round_aux prec32 emax32 sx mx ex lx = binary_round_aux prec32 emax32 mode_NE sx mx ex lx.
Proof.
  unfold SpecFloat.binary_round_aux, binary_round_aux.
  set (mrse' := shr_fexp _ _ _). case mrse'; intros mrs' e'; simpl.
  now rewrite (round_nearest_even_equiv' sx).
Qed.
Lemma binary_round_equiv32 s m e :
  SpecFloat.binary_round prec32 emax32 s m e = binary_round prec32 emax32 mode_NE s m e.
Proof.
  unfold SpecFloat.binary_round, binary_round, shl_align_fexp.
  set (mez := shl_align _ _ _); case mez as [mz ez]. apply binary_round_aux_equiv32.
Qed.

Definition s360 : spec_float := Eval vm_compute in b32_of_Z 360.
Lemma s360_valid : valid_binary prec32 emax32 s360 = true. Proof. reflexivity. Qed.
Definition b360 : binary_float prec32 emax32 := SF2B s360 s360_valid.
Lemma b360_R : B2R b360 = 360.
Proof. unfold b360. rewrite B2R_SF2B. unfold s360, SF2R, cond_Zopp, F2R; simpl; lra. Qed.
Lemma F32_360 : F32 360. Proof. rewrite <- b360_R. apply generic_format_B2R. Qed.
Lemma F32_tiny : F32 (/ 70368744177664).
Proof.
  replace (/ 70368744177664) with (bpow radix2 (-46)) by (simpl; lra).
  apply generic_format_bpow. vm_compute. discriminate.
Qed.
Lemma F32_0 : F32 0. Proof. apply generic_format_0. Qed.

Lemma rnd32_between lo hi x : F32 lo -> F32 hi -> lo <= x <= hi -> lo <= rnd32 x <= hi.
Proof.
  intros Hlo Hhi [H1 H2]. split.
  - rewrite <- (round_generic radix2 (fexp prec32 emax32) (round_mode mode_NE) lo Hlo).
    apply round_le; auto; [apply (fexp_correct prec32 emax32 Hprec32)|apply valid_rnd_round_mode].
  - rewrite <- (round_generic radix2 (fexp prec32 emax32) (round_mode mode_NE) hi Hhi).
    apply round_le; auto; [apply (fexp_correct prec32 emax32 Hprec32)|apply valid_rnd_round_mode].
Qed.

(* the float32 store of a finite binary64 value in [lo, 360], lo >= 0 a binary32 number *)
Lemma store32 d lo : fin d -> F32 lo -> 0 <= lo -> lo <= FR d <= 360 ->
  exists z, b32_of_f64 d = z /\ valid_binary prec32 emax32 z = true /\ is_finite_SF z = true /\
            lo <= SF2R radix2 z <= 360.
Proof.
  intros Fd Hlo Hlo0 Hb. unfold b32_of_f64. rewrite <- B2SF_Prim2B. unfold fin, FR in *.
  destruct (Prim2B d) as [s|s| |s m e He] eqn:Ed; simpl in *; try discriminate.
  - (* zero *) exists (S754_zero s). split; [reflexivity|]. split; [reflexivity|]. split; [reflexivity|]. simpl. lra.
  - rewrite binary_round_equiv32.
    pose proof (binary_round_correct prec32 emax32 Hprec32 Hmax32 mode_NE s m e) as (Hv & Hr).
    cbv zeta in Hr.
    set (x := F2R (Float radix2 (cond_Zopp s (Z.pos m)) e)) in *.
    assert (Hx : lo <= rnd32 x <= 360) by (apply rnd32_between; auto using F32_360).
    rewrite Rlt_bool_true in Hr.
    + destruct Hr as (H1 & H2 & _). eexists; split; [reflexivity|]. rewrite H1. auto.
    + apply Rle_lt_trans with 360; [apply Rabs_le; lra|].
      apply Rlt_le_trans with (bpow radix2 10); [simpl; lra|apply bpow_le; vm_compute; discriminate].
Qed.

Lemma sf_cmp z : valid_binary prec32 emax32 z = true -> is_finite_SF z = true ->
  SFltb (S754_zero false) z = Rlt_bool 0 (SF2R radix2 z) /\
  SFleb (S754_zero false) z = Rle_bool 0 (SF2R radix2 z) /\
  SFleb z s360 = Rle_bool (SF2R radix2 z) 360.
Proof.
  intros Hv Hf.
  set (bz := SF2B z Hv).
  assert (Hbz : B2SF bz = z) by apply B2SF_SF2B.
  assert (Fbz : is_finite bz = true) by (unfold bz; rewrite is_finite_SF2B; exact Hf).
  assert (Rbz : B2R bz = SF2R radix2 z) by apply B2R_SF2B.
  set (b0 := B754_zero false : binary_float prec32 emax32).
  assert (H360 : B2SF b360 = s360) by (unfold b360; apply B2SF_SF2B).
  assert (E1 : SFltb (S754_zero false) z = Bltb b0 bz) by (unfold Bltb; rewrite Hbz; reflexivity).
  assert (E2 : SFleb (S754_zero false) z = Bleb b0 bz) by (unfold Bleb; rewrite Hbz; reflexivity).
  assert (E3 : SFleb z s360 = Bleb bz b360) by (unfold Bleb; rewrite Hbz, H360; reflexivity).
  rewrite E1, E2, E3.
  rewrite (Bltb_correct _ _ b0 bz eq_refl Fbz), (Bleb_correct _ _ b0 bz eq_refl Fbz).
  rewrite (Bleb_correct _ _ bz b360 Fbz eq_refl).
  rewrite Rbz, b360_R. auto.
Qed.

(* ---------- the statements about calc_direction ---------- *)
Lemma fin_opp y : PrimFloat.is_finite y = true -> PrimFloat.is_finite (- y)%float = true.
Proof.
  rewrite !is_finite_equiv, opp_equiv. intros H. now rewrite is_finite_Bopp.
Qed.

Lemma s360_eq : Bearing.b32_of_Z 360 = s360.
Proof. vm_compute. reflexivity. Qed.

Section DirectionRange.
  Variable atan2 : PrimFloat.float -> PrimFloat.float -> PrimFloat.float.
  (* libm premise: for finite arguments atan2 returns a finite value in [-pi, pi] (pi = the double nearest pi) *)
  Hypothesis atan2_range : forall y x,
    PrimFloat.is_finite y = true -> PrimFloat.is_finite x = true ->
    PrimFloat.is_finite (atan2 y x) = true /\ (abs (atan2 y x) <=? PI)%float = true.

  Lemma bearing64_dval x y : bearing64 atan2 x y = dval (atan2 (- y) x).
  Proof. reflexivity. Qed.

  (* non-self target, finite offsets: the stored float32 lies in [0, 360]; it is > 0 unless
     atan2(-y, x) * 57.29578 is exactly 90.0 *)
  Theorem direction_range x1 x2 y1 y2 :
    is_self x1 x2 y1 y2 = false ->
    PrimFloat.is_finite (x2 - x1)%float = true -> PrimFloat.is_finite (y2 - y1)%float = true ->
    let r := calc_direction atan2 x1 x2 y1 y2 in
    SFleb (S754_zero false) r = true /\ SFleb r (Bearing.b32_of_Z 360) = true /\
    ((atan2 (- (y2 - y1)) (x2 - x1) * DEG =? 90)%float = false -> SFltb (S754_zero false) r = true).
  Proof.
    intros Hs Hx Hy. cbv zeta. unfold calc_direction. rewrite Hs. rewrite bearing64_dval.
    destruct (atan2_range _ _ (fin_opp _ Hy) Hx) as (Hf & Hp).
    set (t := atan2 (- (y2 - y1))%float (x2 - x1)%float) in *.
    destruct (dval_bound t Hf Hp) as (Fd & (H0 & H360) & Hpos).
    rewrite s360_eq.
    split; [|split].
    - destruct (store32 (dval t) 0 Fd F32_0 (Rle_refl 0) (conj H0 H360)) as (z & -> & Hv & Hfz & Hz).
      destruct (sf_cmp z Hv Hfz) as (_ & E2 & _). rewrite E2. apply Rle_bool_true. lra.
    - destruct (store32 (dval t) 0 Fd F32_0 (Rle_refl 0) (conj H0 H360)) as (z & -> & Hv & Hfz & Hz).
      destruct (sf_cmp z Hv Hfz) as (_ & _ & E3). rewrite E3. apply Rle_bool_true. lra.
    - intros Hne. specialize (Hpos Hne).
      assert (Ht : 0 <= / 70368744177664) by lra.
      destruct (store32 (dval t) _ Fd F32_tiny Ht (conj Hpos H360)) as (z & -> & Hv & Hfz & Hz).
      destruct (sf_cmp z Hv Hfz) as (E1 & _ & _). rewrite E1. apply Rlt_bool_true. lra.
  Qed.

  (* direction = 0 iff the cell is its own target *)
  Theorem direction_zero_iff_self x1 x2 y1 y2 :
    (is_self x1 x2 y1 y2 = false ->
       PrimFloat.is_finite (x2 - x1)%float = true /\ PrimFloat.is_finite (y2 - y1)%float = true /\
       (atan2 (- (y2 - y1)) (x2 - x1) * DEG =? 90)%float = false) ->
    (calc_direction atan2 x1 x2 y1 y2 = S754_zero false <-> is_self x1 x2 y1 y2 = true).
  Proof.
    intros H. split.
    - intros Hz. destruct (is_self x1 x2 y1 y2) eqn:Hs; auto.
      destruct (H eq_refl) as (Hx & Hy & Hne).
      destruct (direction_range x1 x2 y1 y2 Hs Hx Hy) as (_ & _ & Hpos).
      specialize (Hpos Hne). rewrite Hz in Hpos. discriminate.
    - intros Hs. unfold calc_direction. rewrite Hs. reflexivity.
  Qed.
End DirectionRange.
