Require Import Extraction ExtrOcamlBasic.
Require Import Base.Prelude Base.XVal C16.Model.
Extraction Language OCaml.
Extraction "model.ml" regions_model pass1_model.
