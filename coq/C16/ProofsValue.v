(* C16/ProofsValue.v — consequences of "labels = components": every region holds ONE value, and
   connectivity is an equivalence relation (so "the components" are a partition). *)
Require Import Base.Prelude Base.XVal C16.Model C16.Proofs.

Lemma conn_same_value n8 rows cols data p q : conn n8 rows cols data p q -> p = q \/ data p = data q.
Proof.
  intros H. induction H as [|s r H IH L]; [left; reflexivity|].
  destruct L as (_ & _ & _ & v & Es & Er). right.
  destruct IH as [->|E]; congruence.
Qed.

Lemma region_single_valued n8 rows cols d : intdata rows cols d -> forall p q l,
  inr (Z.of_nat rows) (Z.of_nat cols) p -> inr (Z.of_nat rows) (Z.of_nat cols) q ->
  cell (regions_model n8 rows cols d) p = XFin l -> cell (regions_model n8 rows cols d) q = XFin l ->
  cell d p = cell d q.
Proof.
  intros Hd p q l Hp Hq Ep Eq.
  destruct (conn_same_value _ _ _ _ _ _ (L_sound n8 rows cols d Hd p q l Hp Hq Ep Eq)) as [->|E]; [reflexivity|exact E].
Qed.

Lemma conn_equivalence n8 rows cols data :
  (forall p, conn n8 rows cols data p p) /\
  (forall p q, conn n8 rows cols data p q -> conn n8 rows cols data q p) /\
  (forall p q r, conn n8 rows cols data p q -> conn n8 rows cols data q r -> conn n8 rows cols data p r).
Proof.
  split; [intros p; apply conn_refl|]. split; [apply conn_sym|apply conn_trans].
Qed.
