(* C16/Props.v — the property theorems claimed for C16 (regions labels are exactly the connected
   components of equal value), nothing else.  All are universal: any shape (incl. 1xN, Nx1, empty),
   both neighbourhoods (n8 = false: 4, n8 = true: 8), any integer-valued raster with NaN cells.
   [adj n8 p q]  : geometric adjacency of positions (edge-sharing; plus corner-sharing when n8)
   [conn .. p q] : p and q are joined by a path of adjacent in-range cells all holding the same number
   [cell (regions_model ..) p] : the label the (modelled) two-pass algorithm returns at p. *)
Require Import Base.Prelude Base.XVal C16.Model C16.Proofs C16.ProofsValue.

(* the clamped window of the code is exactly "the cell itself or its in-range neighbours" *)
Theorem C16_window_is_neighbourhood : forall n8 rows cols p q, inr rows cols p ->
  (In q (window n8 rows cols p) -> inr rows cols q /\ (q = p \/ adj n8 p q)) /\
  (inr rows cols q -> adj n8 p q -> In q (window n8 rows cols p)).
Proof.
  intros n8 rows cols p q Hp. split.
  - intros H. split; [eapply win_inr; eassumption|eapply win_self_or_adj; eassumption].
  - intros Hq Ha. apply adj_in_win; assumption.
Qed.
Print Assumptions C16_window_is_neighbourhood.

(* NaN cells stay NaN *)
Theorem C16_nan_stays_nan : forall n8 rows cols d, intdata rows cols d -> forall p,
  inr (Z.of_nat rows) (Z.of_nat cols) p -> cell d p = XNaN ->
  cell (regions_model n8 rows cols d) p = XNaN.
Proof. exact L_nan. Qed.
Print Assumptions C16_nan_stays_nan.

(* labels of non-NaN cells are positive integers *)
Theorem C16_labels_positive : forall n8 rows cols d, intdata rows cols d -> forall p,
  inr (Z.of_nat rows) (Z.of_nat cols) p -> cell d p <> XNaN ->
  exists l, cell (regions_model n8 rows cols d) p = XFin l /\ 1 <= l.
Proof. exact L_pos. Qed.
Print Assumptions C16_labels_positive.

(* soundness: two cells with the same (numeric) label are joined by a path of adjacent equal-valued cells *)
Theorem C16_same_label_sound : forall n8 rows cols d, intdata rows cols d -> forall p q l,
  inr (Z.of_nat rows) (Z.of_nat cols) p -> inr (Z.of_nat rows) (Z.of_nat cols) q ->
  cell (regions_model n8 rows cols d) p = XFin l -> cell (regions_model n8 rows cols d) q = XFin l ->
  conn n8 (Z.of_nat rows) (Z.of_nat cols) (cell d) p q.
Proof. exact L_sound. Qed.
Print Assumptions C16_same_label_sound.

(* completeness: adjacent cells holding the same number get the same label *)
Theorem C16_same_label_complete : forall n8 rows cols d, intdata rows cols d -> forall p q v,
  inr (Z.of_nat rows) (Z.of_nat cols) p -> inr (Z.of_nat rows) (Z.of_nat cols) q ->
  adj n8 p q -> cell d p = XFin v -> cell d q = XFin v ->
  cell (regions_model n8 rows cols d) p = cell (regions_model n8 rows cols d) q.
Proof. exact L_complete_adj. Qed.
Print Assumptions C16_same_label_complete.

(* the property: two non-NaN cells carry the same label EXACTLY when they are joined by a path of
   4- (8-) adjacent cells holding the same value *)
Theorem C16_regions_are_components : forall n8 rows cols d, intdata rows cols d -> forall p q,
  inr (Z.of_nat rows) (Z.of_nat cols) p -> inr (Z.of_nat rows) (Z.of_nat cols) q ->
  cell d p <> XNaN -> cell d q <> XNaN ->
  (cell (regions_model n8 rows cols d) p = cell (regions_model n8 rows cols d) q <->
   conn n8 (Z.of_nat rows) (Z.of_nat cols) (cell d) p q).
Proof. exact L_components. Qed.
Print Assumptions C16_regions_are_components.

(* "of equal value": all cells carrying one label hold the same value of the input raster *)
Theorem C16_region_single_valued : forall n8 rows cols d, intdata rows cols d -> forall p q l,
  inr (Z.of_nat rows) (Z.of_nat cols) p -> inr (Z.of_nat rows) (Z.of_nat cols) q ->
  cell (regions_model n8 rows cols d) p = XFin l -> cell (regions_model n8 rows cols d) q = XFin l ->
  cell d p = cell d q.
Proof. exact region_single_valued. Qed.
Print Assumptions C16_region_single_valued.

(* "the connected components": the path relation the labels decide is an equivalence, so regions partition
   the non-NaN cells (any grid function, any bounds, both neighbourhoods) *)
Theorem C16_connectivity_is_equivalence : forall n8 rows cols data,
  (forall p, conn n8 rows cols data p p) /\
  (forall p q, conn n8 rows cols data p q -> conn n8 rows cols data q p) /\
  (forall p q r, conn n8 rows cols data p q -> conn n8 rows cols data q r -> conn n8 rows cols data p r).
Proof. exact conn_equivalence. Qed.
Print Assumptions C16_connectivity_is_equivalence.

(* the output has the input's shape *)
Theorem C16_shape_preserved : forall n8 rows cols d,
  length (regions_model n8 rows cols d) = rows /\
  forall row, In row (regions_model n8 rows cols d) -> length row = cols.
Proof. exact regions_model_shape. Qed.
Print Assumptions C16_shape_preserved.

(* ---- non-vacuity: concrete rasters satisfy the hypotheses; the model computes the expected labels ---- *)
(* a U of 7s around a 0 with a NaN: after the first pass the two arms of the U carry different labels
   (1 and 3), the second pass merges them when it reaches the bottom row *)
Example C16_nonvacuous_U :
  let d := [[XFin 7; XFin 0; XFin 7]; [XFin 7; XNaN; XFin 7]; [XFin 7; XFin 7; XFin 7]] in
  intdata 3 3 d /\
  pass1_model false 3 3 d = [[XFin 1; XFin 2; XFin 3]; [XFin 1; XNaN; XFin 3]; [XFin 1; XFin 1; XFin 1]] /\
  regions_model false 3 3 d = [[XFin 1; XFin 2; XFin 1]; [XFin 1; XNaN; XFin 1]; [XFin 1; XFin 1; XFin 1]] /\
  conn false 3 3 (cell d) (0, 0) (0, 2).
Proof.
  cbv zeta. split; [apply intdata_check; vm_compute; reflexivity|]. split; [vm_compute; reflexivity|].
  split; [vm_compute; reflexivity|].
  assert (L : forall p q, inr 3 3 p -> inr 3 3 q -> adj false p q ->
            cell [[XFin 7; XFin 0; XFin 7]; [XFin 7; XNaN; XFin 7]; [XFin 7; XFin 7; XFin 7]] p = XFin 7 ->
            cell [[XFin 7; XFin 0; XFin 7]; [XFin 7; XNaN; XFin 7]; [XFin 7; XFin 7; XFin 7]] q = XFin 7 ->
            link false 3 3 (cell [[XFin 7; XFin 0; XFin 7]; [XFin 7; XNaN; XFin 7]; [XFin 7; XFin 7; XFin 7]]) p q).
  { intros p q Hp Hq Ha E1 E2. split; [exact Hp|]. split; [exact Hq|]. split; [exact Ha|]. exists 7; auto. }
  eapply conn_step with (q := (1, 2)); [|apply L; unfold inr, adj; cbn; try lia; reflexivity].
  eapply conn_step with (q := (2, 2)); [|apply L; unfold inr, adj; cbn; try lia; reflexivity].
  eapply conn_step with (q := (2, 1)); [|apply L; unfold inr, adj; cbn; try lia; reflexivity].
  eapply conn_step with (q := (2, 0)); [|apply L; unfold inr, adj; cbn; try lia; reflexivity].
  eapply conn_step with (q := (1, 0)); [|apply L; unfold inr, adj; cbn; try lia; reflexivity].
  eapply conn_step with (q := (0, 0)); [apply conn_refl|apply L; unfold inr, adj; cbn; try lia; reflexivity].
Qed.

(* 8-neighbourhood: a diagonal of 1s is one region, under 4 it is four regions *)
Example C16_nonvacuous_diag :
  let d := [[XFin 1; XFin 0; XFin 0; XFin 0]; [XFin 0; XFin 1; XFin 0; XFin 0];
            [XFin 0; XFin 0; XFin 1; XFin 0]; [XFin 0; XFin 0; XFin 0; XFin 1]] in
  intdata 4 4 d /\
  regions_model true 4 4 d = [[XFin 1; XFin 2; XFin 2; XFin 2]; [XFin 2; XFin 1; XFin 2; XFin 2];
                              [XFin 2; XFin 2; XFin 1; XFin 2]; [XFin 2; XFin 2; XFin 2; XFin 1]] /\
  regions_model false 4 4 d = [[XFin 1; XFin 2; XFin 2; XFin 2]; [XFin 3; XFin 4; XFin 2; XFin 2];
                               [XFin 3; XFin 3; XFin 5; XFin 2]; [XFin 3; XFin 3; XFin 3; XFin 6]].
Proof.
  cbv zeta. split; [apply intdata_check; vm_compute; reflexivity|]. split; vm_compute; reflexivity.
Qed.
