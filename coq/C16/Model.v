(* C16/Model.v — executable model of xrspatial/zonal.py: _area_connectivity (both passes) and regions.
   Definitions only.  Cells are positions (y, x); `out` is a total function position -> value (np.zeros_like:
   0 everywhere at the start); only in-range positions are ever read because every window index is clamped. *)
Require Import Base.Prelude Base.XVal.

Definition pos : Type := (Z * Z)%type.
Definition grid : Type := pos -> xv.

Definition peq (p q : pos) : bool := (fst p =? fst q) && (snd p =? snd q).
(* out[y, x] = v *)
Definition gset (g : grid) (p : pos) (v : xv) : grid := fun q => if peq q p then v else g q.
(* for y1 in range(rows): for x1 in range(cols): if out[y1, x1] == a: out[y1, x1] = b
   (each cell is read and written independently, so the double loop is the pointwise map) *)
Definition grepl (a b : xv) (g : grid) : grid := fun q => let v := g q in if xeqb v a then b else v.

(* the clamped window of (y, x), in the index order of src_window / area_window;
   n == 8 -> eight entries, else -> four entries *)
Definition window (n8 : bool) (rows cols : Z) (p : pos) : list pos :=
  let y := fst p in let x := snd p in
  let ym := Z.max (y - 1) 0 in let yp := Z.min (y + 1) (rows - 1) in
  let xm := Z.max (x - 1) 0 in let xp := Z.min (x + 1) (cols - 1) in
  if n8 then [(ym, xm); (y, xm); (yp, xm); (ym, x); (yp, x); (ym, xp); (y, xp); (yp, xp)]
  else [(y, xm); (ym, x); (yp, x); (y, xp)].

(* np.abs(src - val) <= atol + rtol * np.abs(val)   on NaN / +-inf / integers of magnitude < 10^5
   (there the tolerance is < 1, so two integers are close iff equal; any NaN operand gives False;
   val = +-inf makes the right side +inf, the left side NaN only for src = val) *)
Definition isclose (src val : xv) : bool :=
  match src, val with
  | XNaN, _ | _, XNaN => false
  | XFin a, XFin v => a =? v
  | _, XFin _ => false
  | XPInf, XPInf | XNInf, XNInf => false
  | _, _ => true
  end.

Section Regions.
  Variable n8 : bool.            (* n == 8 *)
  Variables rows cols : Z.       (* data.shape *)
  Variable data : grid.          (* data[y, x] *)

  (* neighbor_matches = np.where(is_close)[0], as the window positions they index *)
  Definition matches (p : pos) : list pos :=
    filter (fun q => isclose (data q) (data p)) (window n8 rows cols p).

  (* ---- first pass: one (y, x) iteration; state = (out, uid) ---- *)
  Definition pass1_step (st : grid * Z) (p : pos) : grid * Z :=
    let out := fst st in let uid := snd st in
    let val := data p in
    if xisnan val then (gset out p val, uid)
    else
      (* for j in range(len(neighbor_matches)): area_val = area_window[...]; if area_val > 0: take it, break
         (with no match at all the loop body never runs: same fresh-uid outcome as the else branch) *)
      match find (fun q => xgtb (out q) (XFin 0)) (matches p) with
      | Some q => (gset out p (out q), uid)
      | None => (gset out p (XFin uid), uid + 1)
      end.

  (* ---- second pass: the loop over neighbor_matches; area_window is the snapshot [snap] of out taken
     at the top of the (y, x) iteration; state = (out, assigned_values_min) ---- *)
  Definition merge_step (snap : grid) (st : grid * option xv) (q : pos) : grid * option xv :=
    let out := fst st in
    let area_val := snap q in
    match snd st with
    | Some m =>
      if negb (xeqb m area_val) then                       (* nn and assigned_values_min != area_val *)
        if xgtb m area_val then (grepl m area_val out, Some area_val)
        else (grepl area_val m out, Some m)
      else (out, Some m)                                   (* elif assigned_values_min is None: not taken *)
    | None => (out, Some area_val)
    end.

  Definition pass2_step (out : grid) (p : pos) : grid :=
    if xisnan (data p) then out
    else fst (fold_left (merge_step out) (matches p) (out, None)).

  (* for y in range(0, rows): for x in range(0, cols) *)
  Definition cells : list pos :=
    flat_map (fun y => map (fun x => (y, x)) (ziota 0 (Z.to_nat cols))) (ziota 0 (Z.to_nat rows)).

  Definition zeros : grid := fun _ => XFin 0.
  Definition pass1 : grid * Z := fold_left pass1_step cells (zeros, 1).
  Definition area_connectivity : grid := fold_left pass2_step cells (fst pass1).
End Regions.

(* rasters as lists *)
Definition cell (d : list (list xv)) (p : pos) : xv := nthZ XNaN (nthZ [] d (fst p)) (snd p).

Definition regions_model (n8 : bool) (rows cols : nat) (d : list (list xv)) : list (list xv) :=
  let out := area_connectivity n8 (Z.of_nat rows) (Z.of_nat cols) (cell d) in
  map (fun y => map (fun x => out (y, x)) (ziota 0 cols)) (ziota 0 rows).

(* first pass only (for the correspondence of the intermediate state: not observable in the
   implementation, used by examples) *)
Definition pass1_model (n8 : bool) (rows cols : nat) (d : list (list xv)) : list (list xv) :=
  let out := fst (pass1 n8 (Z.of_nat rows) (Z.of_nat cols) (cell d)) in
  map (fun y => map (fun x => out (y, x)) (ziota 0 cols)) (ziota 0 rows).
