(* C16/Proofs.v — invariants of the two passes of _area_connectivity. *)
Require Import Base.Prelude Base.XVal C16.Model.

(* ---------- small generic facts ---------- *)
Lemma pos_eq_dec (p q : pos) : {p = q} + {p <> q}.
Proof. decide equality; apply Z.eq_dec. Qed.
Lemma xv_eq_dec (a b : xv) : {a = b} + {a <> b}.
Proof. decide equality; apply Z.eq_dec. Qed.

Lemma peq_spec p q : peq p q = true <-> p = q.
Proof.
  destruct p as [a b], q as [c d]. unfold peq. cbn [fst snd]. split.
  - intros H. apply andb_true_iff in H. destruct H as [H1 H2]. f_equal; lia.
  - intros H. inversion H. subst. apply andb_true_iff. split; lia.
Qed.
Lemma gset_same g p v : gset g p v p = v.
Proof. unfold gset. assert (peq p p = true) by (apply peq_spec; reflexivity). now rewrite H. Qed.
Lemma gset_other g p v q : q <> p -> gset g p v q = g q.
Proof.
  intros H. unfold gset. destruct (peq q p) eqn:E; [|reflexivity]. apply peq_spec in E. contradiction.
Qed.

(* relabelling one positive label by another, pointwise *)
Lemma grepl_cases la lb (g : grid) p :
  (g p = XFin la /\ grepl (XFin la) (XFin lb) g p = XFin lb) \/
  (g p <> XFin la /\ grepl (XFin la) (XFin lb) g p = g p).
Proof.
  unfold grepl. cbv zeta. destruct (g p) as [| |z|]; cbn [xeqb]; try (right; split; [discriminate|reflexivity]).
  destruct (z =? la) eqn:E.
  - left. split; [f_equal; lia|reflexivity].
  - right. split; [intros H; inversion H; lia|reflexivity].
Qed.

Lemma app_snoc_split {A} (l l1 l2 : list A) a q :
  l ++ [a] = l1 ++ q :: l2 ->
  (l2 = [] /\ l = l1 /\ a = q) \/ (exists l2', l2 = l2' ++ [a] /\ l = l1 ++ q :: l2').
Proof.
  destruct l2 as [|z l2] using rev_ind; intros H.
  - left. apply app_inj_tail in H. destruct H; auto.
  - clear IHl2. right. exists l2.
    replace (l1 ++ q :: l2 ++ [z]) with ((l1 ++ q :: l2) ++ [z]) in H by (rewrite <- app_assoc; reflexivity).
    apply app_inj_tail in H. destruct H as [H1 H2]. subst. auto.
Qed.

Lemma NoDup_app_intro {A} (l1 l2 : list A) :
  NoDup l1 -> NoDup l2 -> (forall x, In x l1 -> In x l2 -> False) -> NoDup (l1 ++ l2).
Proof.
  induction l1 as [|a l1 IH]; intros H1 H2 Hd; [exact H2|].
  inversion H1; subst. cbn [app]. constructor.
  - intros Hin. apply in_app_or in Hin. destruct Hin as [Hin|Hin]; [contradiction|].
    apply (Hd a); [left; reflexivity|exact Hin].
  - apply IH; auto. intros x Hx1 Hx2. apply (Hd x); [right; exact Hx1|exact Hx2].
Qed.

Lemma NoDup_ziota s n : NoDup (ziota s n).
Proof.
  revert s; induction n as [|n IH]; intros s; cbn [ziota]; constructor; [|apply IH].
  intros H. apply ziota_In in H. lia.
Qed.

Lemma NoDup_app_mid {A} (l1 l2 : list A) q : NoDup (l1 ++ q :: l2) -> ~ In q l1 /\ ~ In q l2.
Proof.
  intros H. apply NoDup_remove_2 in H. split; intros Hin; apply H; apply in_or_app; auto.
Qed.

Section Regions.
  Variable n8 : bool.
  Variables rows cols : Z.
  Variable data : grid.

  Local Notation win := (window n8 rows cols).
  Local Notation mt := (matches n8 rows cols data).

  Definition inr (p : pos) : Prop := 0 <= fst p < rows /\ 0 <= snd p < cols.

  (* geometric adjacency: 4-neighbourhood (edge-sharing) or 8-neighbourhood (edge- or corner-sharing) *)
  Definition adj (p q : pos) : Prop :=
    let dy := fst q - fst p in let dx := snd q - snd p in
    if n8 then -1 <= dy <= 1 /\ -1 <= dx <= 1 /\ (dy <> 0 \/ dx <> 0)
    else (dy = 0 /\ (dx = 1 \/ dx = -1)) \/ (dx = 0 /\ (dy = 1 \/ dy = -1)).

  Lemma adj_sym p q : adj p q -> adj q p.
  Proof. unfold adj. destruct n8; cbv zeta; lia. Qed.
  Lemma adj_irrefl p : ~ adj p p.
  Proof. unfold adj. destruct n8; cbv zeta; lia. Qed.

  (* ---------- the clamped window ---------- *)
  Lemma win_inr p q : inr p -> In q (win p) -> inr q.
  Proof.
    destruct p as [y x]. unfold inr, window. cbn [fst snd]. intros Hp Hin.
    destruct n8; cbn [In] in Hin;
      repeat (destruct Hin as [Hin|Hin]; [subst q; cbn [fst snd]; lia|]); destruct Hin.
  Qed.

  Lemma win_self_or_adj p q : inr p -> In q (win p) -> q = p \/ adj p q.
  Proof.
    destruct p as [y x]. unfold inr, window, adj. cbn [fst snd]. intros Hp Hin.
    destruct n8; cbn [In] in Hin;
      repeat (destruct Hin as [Hin|Hin];
              [subst q; cbn [fst snd];
               match goal with |- (?a, ?b) = _ \/ _ =>
                 destruct (Z.eq_dec a y) as [Ea|Ea]; destruct (Z.eq_dec b x) as [Eb|Eb];
                 [left; f_equal; assumption|right; lia|right; lia|right; lia] end|]); destruct Hin.
  Qed.

  Lemma adj_in_win p q : inr p -> inr q -> adj p q -> In q (win p).
  Proof.
    destruct p as [y x], q as [y' x']. unfold inr, window, adj. cbn [fst snd]. intros Hp Hq Ha.
    destruct n8; cbn [In].
    - assert (Hy : y' = y - 1 \/ y' = y \/ y' = y + 1) by lia.
      assert (Hx : x' = x - 1 \/ x' = x \/ x' = x + 1) by lia.
      destruct Hy as [Hy|[Hy|Hy]], Hx as [Hx|[Hx|Hx]]; subst y' x'; try lia;
        repeat match goal with |- _ \/ _ => first [left; f_equal; lia|right] end.
    - destruct Ha as [[Hy [Hx|Hx]]|[Hx [Hy|Hy]]];
        repeat match goal with |- _ \/ _ => first [left; f_equal; lia|right] end.
  Qed.

  (* ---------- connectivity: joined by a path of adjacent in-range cells holding the same value ---------- *)
  Definition link (p q : pos) : Prop :=
    inr p /\ inr q /\ adj p q /\ exists v, data p = XFin v /\ data q = XFin v.
  Inductive conn (p : pos) : pos -> Prop :=
  | conn_refl : conn p p
  | conn_step q r : conn p q -> link q r -> conn p r.

  Lemma link_sym p q : link p q -> link q p.
  Proof.
    intros (H1 & H2 & H3 & v & H4 & H5). split; [exact H2|]. split; [exact H1|]. split; [apply adj_sym; exact H3|].
    exists v; auto.
  Qed.
  Lemma conn_trans p q r : conn p q -> conn q r -> conn p r.
  Proof. intros H1 H2. induction H2 as [|s r H2 IH L]; [exact H1|]. eapply conn_step; [exact IH|exact L]. Qed.
  Lemma conn_link p q : link p q -> conn p q.
  Proof. intros H. eapply conn_step; [apply conn_refl|exact H]. Qed.
  Lemma conn_sym p q : conn p q -> conn q p.
  Proof.
    intros H. induction H as [|s r H IH L]; [apply conn_refl|].
    eapply conn_trans; [apply conn_link; apply link_sym; exact L|exact IH].
  Qed.

  (* the domain of the property: integer-valued cells or NaN *)
  Hypothesis Hdom : forall p, inr p -> data p = XNaN \/ exists v, data p = XFin v.

  Lemma isclose_fin a v : isclose a (XFin v) = true -> a = XFin v.
  Proof. destruct a; cbn [isclose]; try discriminate. intros H. f_equal. lia. Qed.

  (* a matching window entry is the cell itself or an adjacent in-range cell holding the same value *)
  Lemma match_facts p q : inr p -> In q (mt p) ->
    In q (win p) /\ inr q /\ conn p q /\ exists v, data p = XFin v /\ data q = XFin v.
  Proof.
    intros Hp Hin. unfold matches in Hin. apply filter_In in Hin. destruct Hin as [Hw Hc].
    pose proof (win_inr p q Hp Hw) as Hq.
    destruct (Hdom p Hp) as [Hn|[v Hv]].
    - rewrite Hn in Hc. destruct (data q); discriminate.
    - rewrite Hv in Hc. apply isclose_fin in Hc.
      split; [exact Hw|]. split; [exact Hq|]. split; [|exists v; auto].
      destruct (win_self_or_adj p q Hp Hw) as [->|Ha]; [apply conn_refl|].
      apply conn_link. split; [exact Hp|]. split; [exact Hq|]. split; [exact Ha|]. exists v; auto.
  Qed.

  Lemma adj_match p q v : inr p -> inr q -> adj p q -> data p = XFin v -> data q = XFin v -> In q (mt p).
  Proof.
    intros Hp Hq Ha Hvp Hvq. unfold matches. apply filter_In. split; [apply adj_in_win; auto|].
    rewrite Hvp, Hvq. cbn [isclose]. lia.
  Qed.

  (* ---------- the iteration order ---------- *)
  Local Notation cellsL := (cells rows cols).

  Lemma cells_spec p : In p cellsL <-> inr p.
  Proof.
    unfold cells, inr. rewrite in_flat_map. split.
    - intros [y [Hy Hin]]. apply in_map_iff in Hin. destruct Hin as [x [<- Hx]].
      apply ziota_In in Hy. apply ziota_In in Hx. cbn [fst snd]. lia.
    - intros [Hy Hx]. exists (fst p). split; [apply ziota_In; lia|].
      apply in_map_iff. exists (snd p). split; [destruct p; reflexivity|apply ziota_In; lia].
  Qed.

  Lemma cells_NoDup : NoDup cellsL.
  Proof.
    unfold cells. generalize (ziota 0 (Z.to_nat cols)) (NoDup_ziota 0 (Z.to_nat cols)). intros xs Hxs.
    generalize (ziota 0 (Z.to_nat rows)) (NoDup_ziota 0 (Z.to_nat rows)). intros ys Hys.
    induction ys as [|y ys IH]; [constructor|].
    inversion Hys; subst. cbn [flat_map]. apply NoDup_app_intro.
    - clear -Hxs. induction xs as [|x xs IHx]; cbn [map]; [constructor|].
      inversion Hxs; subst. constructor; [|apply IHx; assumption].
      intros Hin. apply in_map_iff in Hin. destruct Hin as [x' [E Hin]]. inversion E; subst. contradiction.
    - apply IH; assumption.
    - intros p Hp1 Hp2. apply in_map_iff in Hp1. destruct Hp1 as [x [<- _]].
      apply in_flat_map in Hp2. destruct Hp2 as [y' [Hy' Hin]].
      apply in_map_iff in Hin. destruct Hin as [x' [E _]]. inversion E; subst. contradiction.
  Qed.

  (* ---------- first pass ---------- *)
  Local Notation step1 := (pass1_step n8 rows cols data).

  Record inv1 (done : list pos) (out : grid) (uid : Z) : Prop := {
    i1_uid : 1 <= uid;
    i1_undone : forall p, ~ In p done -> out p = XFin 0;
    i1_nan : forall p, In p done -> data p = XNaN -> out p = XNaN;
    i1_lab : forall p, In p done -> data p <> XNaN -> exists l, out p = XFin l /\ 1 <= l < uid;
    i1_sound : forall p q l, In p done -> In q done -> out p = XFin l -> out q = XFin l -> 0 < l -> conn p q;
    i1_share : forall l1 q l2, done = l1 ++ q :: l2 -> data q <> XNaN ->
               (exists p, In p (mt q) /\ In p l1) -> exists r, In r (mt q) /\ out q = out r
  }.

  Lemma inv1_init : inv1 [] zeros 1.
  Proof.
    constructor; try (intros; cbn [In] in *; tauto); try lia; try reflexivity.
    intros l1 q l2 E. destruct l1; discriminate.
  Qed.

  Lemma inv1_step done out uid p :
    inv1 done out uid -> inr p -> ~ In p done ->
    inv1 (done ++ [p]) (fst (step1 (out, uid) p)) (snd (step1 (out, uid) p)).
  Proof.
    intros I Hp Hnd.
    assert (Hout_p : out p = XFin 0) by (apply (i1_undone _ _ _ I); exact Hnd).
    (* generic: older decompositions keep their shared label *)
    assert (Hshare_old : forall v l1 q l2', done = l1 ++ q :: l2' -> data q <> XNaN ->
               (exists p0, In p0 (mt q) /\ In p0 l1) -> exists r, In r (mt q) /\ gset out p v q = gset out p v r).
    { intros v l1 q l2' E Hq Hex.
      destruct (i1_share _ _ _ I l1 q l2' E Hq Hex) as [r [Hr Er]].
      exists r. split; [exact Hr|].
      assert (Hqd : In q done) by (rewrite E; apply in_or_app; right; left; reflexivity).
      destruct (i1_lab _ _ _ I q Hqd Hq) as [l [El Hl]].
      assert (q <> p) by (intros ->; contradiction).
      assert (r <> p). { intros ->. rewrite Hout_p in Er. rewrite El in Er. inversion Er. lia. }
      rewrite !gset_other by assumption. exact Er. }
    unfold pass1_step. cbn [fst snd].
    destruct (xisnan (data p)) eqn:Enan.
    - (* NaN cell *)
      assert (Hdp : data p = XNaN) by (destruct (data p); try discriminate; reflexivity).
      cbn [fst snd]. constructor.
      + apply (i1_uid _ _ _ I).
      + intros q Hq. rewrite gset_other; [apply (i1_undone _ _ _ I)|]; intros H; apply Hq; apply in_or_app;
          [left; exact H|right; left; symmetry; exact H].
      + intros q Hq Hn. apply in_app_or in Hq. destruct Hq as [Hq|[<-|[]]].
        * rewrite gset_other by (intros ->; contradiction). apply (i1_nan _ _ _ I); assumption.
        * rewrite gset_same. exact Hdp.
      + intros q Hq Hn. apply in_app_or in Hq. destruct Hq as [Hq|[<-|[]]]; [|contradiction].
        rewrite gset_other by (intros ->; contradiction). apply (i1_lab _ _ _ I); assumption.
      + intros a b l Ha Hb Ea Eb Hl.
        assert (Ha' : In a done).
        { apply in_app_or in Ha. destruct Ha as [Ha|[<-|[]]]; [exact Ha|]. rewrite gset_same, Hdp in Ea. discriminate. }
        assert (Hb' : In b done).
        { apply in_app_or in Hb. destruct Hb as [Hb|[<-|[]]]; [exact Hb|]. rewrite gset_same, Hdp in Eb. discriminate. }
        rewrite gset_other in Ea by (intros ->; contradiction).
        rewrite gset_other in Eb by (intros ->; contradiction).
        eapply (i1_sound _ _ _ I); eassumption.
      + intros l1 q l2 E Hq Hex. apply app_snoc_split in E. destruct E as [(_ & _ & <-)|[l2' [_ E]]]; [contradiction|].
        rewrite Hdp. eapply Hshare_old; eassumption.
    - assert (Hdp : data p <> XNaN) by (intros H; rewrite H in Enan; discriminate).
      destruct (find (fun q => xgtb (out q) (XFin 0)) (mt p)) as [q0|] eqn:Efind; cbn [fst snd].
      + (* inherits the label of the first labelled matching neighbour q0 *)
        apply find_some in Efind. destruct Efind as [Hq0m Hq0g].
        destruct (match_facts p q0 Hp Hq0m) as (_ & Hq0r & Hconn0 & v & Hvp & Hvq0).
        assert (Hq0d : In q0 done).
        { destruct (in_dec pos_eq_dec q0 done) as [H|H]; [exact H|].
          rewrite (i1_undone _ _ _ I q0 H) in Hq0g. cbn in Hq0g. lia. }
        assert (Hq0n : data q0 <> XNaN) by (rewrite Hvq0; discriminate).
        destruct (i1_lab _ _ _ I q0 Hq0d Hq0n) as [l0 [El0 Hl0]].
        assert (Hq0p : q0 <> p) by (intros ->; contradiction).
        rewrite El0. constructor.
        * apply (i1_uid _ _ _ I).
        * intros q Hq. rewrite gset_other; [apply (i1_undone _ _ _ I)|]; intros H; apply Hq; apply in_or_app;
            [left; exact H|right; left; symmetry; exact H].
        * intros q Hq Hn. apply in_app_or in Hq. destruct Hq as [Hq|[<-|[]]]; [|contradiction].
          rewrite gset_other by (intros ->; contradiction). apply (i1_nan _ _ _ I); assumption.
        * intros q Hq Hn. apply in_app_or in Hq. destruct Hq as [Hq|[<-|[]]].
          -- rewrite gset_other by (intros ->; contradiction). apply (i1_lab _ _ _ I); assumption.
          -- rewrite gset_same. exists l0. split; [reflexivity|lia].
        * intros a b l Ha Hb Ea Eb Hl.
          assert (Hone : forall c, In c done -> out c = XFin l0 -> conn p c).
          { intros c Hc Ec. eapply conn_trans; [exact Hconn0|].
            apply (i1_sound _ _ _ I q0 c l0); auto; lia. }
          apply in_app_or in Ha. apply in_app_or in Hb.
          destruct Ha as [Ha|[<-|[]]], Hb as [Hb|[<-|[]]].
          -- rewrite gset_other in Ea by (intros ->; contradiction).
             rewrite gset_other in Eb by (intros ->; contradiction).
             eapply (i1_sound _ _ _ I); eassumption.
          -- rewrite gset_other in Ea by (intros ->; contradiction).
             rewrite gset_same in Eb. inversion Eb; subst l. apply conn_sym. apply Hone; assumption.
          -- rewrite gset_other in Eb by (intros ->; contradiction).
             rewrite gset_same in Ea. inversion Ea; subst l. apply Hone; assumption.
          -- apply conn_refl.
        * intros l1 q l2 E Hq Hex. apply app_snoc_split in E. destruct E as [(_ & _ & <-)|[l2' [_ E]]].
          -- exists q0. split; [exact Hq0m|]. rewrite gset_same. rewrite gset_other by exact Hq0p. symmetry; exact El0.
          -- eapply Hshare_old; eassumption.
      + (* fresh label *)
        pose proof (find_none _ _ Efind) as Hnone.
        pose proof (i1_uid _ _ _ I) as Huid.
        constructor.
        * lia.
        * intros q Hq. rewrite gset_other; [apply (i1_undone _ _ _ I)|]; intros H; apply Hq; apply in_or_app;
            [left; exact H|right; left; symmetry; exact H].
        * intros q Hq Hn. apply in_app_or in Hq. destruct Hq as [Hq|[<-|[]]]; [|contradiction].
          rewrite gset_other by (intros ->; contradiction). apply (i1_nan _ _ _ I); assumption.
        * intros q Hq Hn. apply in_app_or in Hq. destruct Hq as [Hq|[<-|[]]].
          -- rewrite gset_other by (intros ->; contradiction).
             destruct (i1_lab _ _ _ I q Hq Hn) as [l [El Hl]]. exists l. split; [exact El|lia].
          -- rewrite gset_same. exists uid. split; [reflexivity|lia].
        * intros a b l Ha Hb Ea Eb Hl.
          assert (Hnone' : forall c, In c done -> out c = XFin uid -> False).
          { intros c Hc Ec. destruct (xv_eq_dec (data c) XNaN) as [Hn|Hn].
            - rewrite (i1_nan _ _ _ I c Hc Hn) in Ec. discriminate.
            - destruct (i1_lab _ _ _ I c Hc Hn) as [l' [El' Hl']]. rewrite El' in Ec. inversion Ec. lia. }
          apply in_app_or in Ha. apply in_app_or in Hb.
          destruct Ha as [Ha|[<-|[]]], Hb as [Hb|[<-|[]]].
          -- rewrite gset_other in Ea by (intros ->; contradiction).
             rewrite gset_other in Eb by (intros ->; contradiction).
             eapply (i1_sound _ _ _ I); eassumption.
          -- rewrite gset_other in Ea by (intros ->; contradiction).
             rewrite gset_same in Eb. inversion Eb; subst l. exfalso. eapply Hnone'; eassumption.
          -- rewrite gset_other in Eb by (intros ->; contradiction).
             rewrite gset_same in Ea. inversion Ea; subst l. exfalso. eapply Hnone'; eassumption.
          -- apply conn_refl.
        * intros l1 q l2 E Hq Hex. apply app_snoc_split in E. destruct E as [(_ & -> & <-)|[l2' [_ E]]].
          -- exfalso. destruct Hex as [p0 [Hp0m Hp0d]].
             destruct (match_facts p p0 Hp Hp0m) as (_ & _ & _ & v & _ & Hvp0).
             assert (Hp0n : data p0 <> XNaN) by (rewrite Hvp0; discriminate).
             destruct (i1_lab _ _ _ I p0 Hp0d Hp0n) as [l [El Hl]].
             pose proof (Hnone p0 Hp0m) as Hg. cbn beta in Hg. rewrite El in Hg. cbn in Hg. lia.
          -- eapply Hshare_old; eassumption.
  Qed.

  Lemma inv1_fold rest : forall done out uid,
    inv1 done out uid -> NoDup (done ++ rest) -> (forall p, In p rest -> inr p) ->
    inv1 (done ++ rest) (fst (fold_left step1 rest (out, uid))) (snd (fold_left step1 rest (out, uid))).
  Proof.
    induction rest as [|p rest IH]; intros done out uid I Hnd Hr.
    - rewrite app_nil_r. exact I.
    - cbn [fold_left].
      pose proof (NoDup_app_mid _ _ _ Hnd) as [Hp1 _].
      pose proof (inv1_step done out uid p I (Hr p (or_introl eq_refl)) Hp1) as I'.
      destruct (step1 (out, uid) p) as [out' uid'] eqn:E. cbn [fst snd] in I'.
      replace (done ++ p :: rest) with ((done ++ [p]) ++ rest) in * by (rewrite <- app_assoc; reflexivity).
      apply IH; auto. intros q Hq. apply Hr. right. exact Hq.
  Qed.

  Lemma pass1_inv : inv1 cellsL (fst (pass1 n8 rows cols data)) (snd (pass1 n8 rows cols data)).
  Proof.
    unfold pass1. apply (inv1_fold cellsL [] zeros 1 inv1_init).
    - exact cells_NoDup.
    - intros p Hp. apply cells_spec. exact Hp.
  Qed.

  (* ---------- second pass ---------- *)
  Record core (out : grid) : Prop := {
    c_nan : forall p, inr p -> data p = XNaN -> out p = XNaN;
    c_lab : forall p, inr p -> data p <> XNaN -> exists l, out p = XFin l /\ 1 <= l;
    c_sound : forall p q l, inr p -> inr q -> out p = XFin l -> out q = XFin l -> 0 < l -> conn p q
  }.

  (* a global relabel la -> lb keeps the core facts when la is extinct, or when some cell labelled la
     is connected to some cell labelled lb *)
  Lemma core_grepl out la lb :
    core out -> 1 <= la -> 1 <= lb ->
    ((forall p, out p <> XFin la) \/
     (exists pa pb, inr pa /\ inr pb /\ out pa = XFin la /\ out pb = XFin lb /\ conn pa pb)) ->
    core (grepl (XFin la) (XFin lb) out).
  Proof.
    intros C Hla Hlb Hside. constructor.
    - intros p Hp Hn. destruct (grepl_cases la lb out p) as [[H1 H2]|[H1 H2]].
      + rewrite (c_nan _ C p Hp Hn) in H1. discriminate.
      + rewrite H2. apply (c_nan _ C); assumption.
    - intros p Hp Hn. destruct (grepl_cases la lb out p) as [[H1 H2]|[H1 H2]].
      + exists lb. split; [exact H2|lia].
      + rewrite H2. apply (c_lab _ C); assumption.
    - intros p q l Hp Hq Ep Eq Hl.
      destruct Hside as [Hext|(pa & pb & Hpa & Hpb & Epa & Epb & Hab)].
      + destruct (grepl_cases la lb out p) as [[H1 H2]|[H1 H2]]; [exfalso; eapply Hext; eassumption|].
        destruct (grepl_cases la lb out q) as [[H3 H4]|[H3 H4]]; [exfalso; eapply Hext; eassumption|].
        rewrite H2 in Ep. rewrite H4 in Eq. eapply (c_sound _ C); eassumption.
      + destruct (grepl_cases la lb out p) as [[H1 H2]|[H1 H2]];
          destruct (grepl_cases la lb out q) as [[H3 H4]|[H3 H4]].
        * eapply (c_sound _ C p q la); auto; lia.
        * rewrite H2 in Ep. inversion Ep; subst l. rewrite H4 in Eq.
          eapply conn_trans; [eapply (c_sound _ C p pa la); auto; lia|].
          eapply conn_trans; [exact Hab|]. eapply (c_sound _ C pb q lb); auto; lia.
        * rewrite H4 in Eq. inversion Eq; subst l. rewrite H2 in Ep.
          eapply conn_trans; [eapply (c_sound _ C p pb lb); auto; lia|].
          eapply conn_trans; [apply conn_sym; exact Hab|]. eapply (c_sound _ C pa q la); auto; lia.
        * rewrite H2 in Ep. rewrite H4 in Eq. eapply (c_sound _ C); eassumption.
  Qed.

  Lemma grepl_eq_pres a b (g : grid) p q : g p = g q -> grepl a b g p = grepl a b g q.
  Proof. unfold grepl. intros ->. reflexivity. Qed.

  Section Inner.
    Variable c : pos.
    Hypothesis Hc : inr c.
    Variable snap : grid.
    Hypothesis Hsnap : core snap.

    Definition kinv (proc : list pos) (cur : grid) (amin : option xv) : Prop :=
      core cur /\ (forall p q, snap p = snap q -> cur p = cur q) /\
      match amin with
      | None => proc = [] /\ (forall p, cur p = snap p)
      | Some m => exists lm, m = XFin lm /\ 1 <= lm /\ (exists p0, In p0 proc) /\
          (forall p, In p proc -> cur p = XFin lm) /\
          (forall p, cur p = snap p \/ cur p = XFin lm) /\
          (forall p l, snap p = XFin l -> l < lm -> cur p = snap p) /\
          (forall p, cur p <> snap p -> forall p', cur p' <> snap p)
      end.

    Lemma kinv_step proc cur amin q :
      (forall p, In p proc -> In p (mt c)) -> In q (mt c) -> kinv proc cur amin ->
      kinv (proc ++ [q]) (fst (merge_step snap (cur, amin) q)) (snd (merge_step snap (cur, amin) q)).
    Proof.
      intros Hproc Hq (Ccur & Heq & K).
      destruct (match_facts c q Hc Hq) as (_ & Hqr & Hcq & v & Hvc & Hvq).
      assert (Hqn : data q <> XNaN) by (rewrite Hvq; discriminate).
      destruct (c_lab _ Hsnap q Hqr Hqn) as [aj [Eaj Haj]].
      unfold merge_step. cbn [fst snd]. rewrite Eaj.
      destruct amin as [m|].
      - destruct K as (lm & -> & Hlm & (p0 & Hp0) & K1 & K3 & K4 & K5).
        assert (Hp0r : inr p0 /\ conn c p0).
        { destruct (match_facts c p0 Hc (Hproc p0 Hp0)) as (_ & H1 & H2 & _). auto. }
        destruct Hp0r as [Hp0r Hcp0].
        cbn [xeqb xgtb xltb].
        destruct (lm =? aj) eqn:Eeq; cbn [negb].
        + (* same label: nothing happens *)
          assert (lm = aj) by lia. subst aj. cbn [fst snd].
          split; [exact Ccur|]. split; [exact Heq|].
          exists lm. split; [reflexivity|]. split; [exact Hlm|].
          split; [exists p0; apply in_or_app; left; exact Hp0|].
          split; [|split; [exact K3|split; [exact K4|exact K5]]].
          intros p Hp. apply in_app_or in Hp. destruct Hp as [Hp|[<-|[]]]; [apply K1; exact Hp|].
          destruct (K3 q) as [H|H]; [rewrite H; exact Eaj|exact H].
        + destruct (aj <? lm) eqn:Elt; cbn [fst snd].
          * (* smaller label found: lm -> aj everywhere, the minimum becomes aj *)
            assert (Hlt : aj < lm) by lia.
            assert (Ecurq : cur q = XFin aj) by (rewrite (K4 q aj Eaj Hlt); exact Eaj).
            split.
            { apply core_grepl; auto. right. exists p0, q. split; [exact Hp0r|]. split; [exact Hqr|].
              split; [apply K1; exact Hp0|]. split; [exact Ecurq|].
              eapply conn_trans; [apply conn_sym; exact Hcp0|exact Hcq]. }
            split; [intros p p' E; apply grepl_eq_pres; apply Heq; exact E|].
            exists aj. split; [reflexivity|]. split; [exact Haj|].
            split; [exists p0; apply in_or_app; left; exact Hp0|].
            split; [|split; [|split]].
            -- intros p Hp. apply in_app_or in Hp. destruct Hp as [Hp|[<-|[]]].
               ++ destruct (grepl_cases lm aj cur p) as [[H1 H2]|[H1 H2]]; [exact H2|].
                  exfalso. apply H1. apply K1. exact Hp.
               ++ destruct (grepl_cases lm aj cur q) as [[H1 H2]|[H1 H2]]; [exact H2|]. rewrite H2. exact Ecurq.
            -- intros p. destruct (grepl_cases lm aj cur p) as [[H1 H2]|[H1 H2]]; [right; exact H2|].
               rewrite H2. destruct (K3 p) as [H|H]; [left; exact H|contradiction].
            -- intros p l El Hl. destruct (grepl_cases lm aj cur p) as [[H1 H2]|[H1 H2]].
               ++ rewrite (K4 p l El ltac:(lia)) in H1. rewrite El in H1. inversion H1. lia.
               ++ rewrite H2. apply (K4 p l El). lia.
            -- intros p Hne p' E.
               assert (Hsub : cur p <> snap p -> False).
               { intros Hne0. destruct (grepl_cases lm aj cur p') as [[H1 H2]|[H1 H2]].
                 - rewrite H2 in E. destruct (snap p) as [| |z|] eqn:Es; try discriminate.
                   inversion E; subst z. apply Hne0. rewrite (K4 p aj Es Hlt). exact Es.
                 - rewrite H2 in E. exact (K5 p Hne0 p' E). }
               destruct (grepl_cases lm aj cur p) as [[H1 H2]|[H1 H2]].
               ++ destruct (xv_eq_dec (cur p) (snap p)) as [Es|Es]; [|exact (Hsub Es)].
                  (* cur p = snap p = lm, now relabelled: lm is extinct *)
                  rewrite <- Es, H1 in E.
                  destruct (grepl_cases lm aj cur p') as [[H3 H4]|[H3 H4]].
                  ** rewrite H4 in E. inversion E. lia.
                  ** rewrite H4 in E. contradiction.
               ++ rewrite H2 in Hne. exact (Hsub Hne).
          * (* larger label found: aj -> lm everywhere *)
            assert (Hlt : lm < aj) by lia.
            split.
            { apply core_grepl; auto.
              destruct (xv_eq_dec (cur q) (snap q)) as [Es|Es].
              - right. exists q, p0. rewrite Es. split; [exact Hqr|]. split; [exact Hp0r|].
                split; [exact Eaj|]. split; [apply K1; exact Hp0|].
                eapply conn_trans; [apply conn_sym; exact Hcq|exact Hcp0].
              - left. intros p E. rewrite <- Eaj in E. exact (K5 q Es p E). }
            split; [intros p p' E; apply grepl_eq_pres; apply Heq; exact E|].
            exists lm. split; [reflexivity|]. split; [exact Hlm|].
            split; [exists p0; apply in_or_app; left; exact Hp0|].
            split; [|split; [|split]].
            -- intros p Hp. apply in_app_or in Hp. destruct Hp as [Hp|[<-|[]]].
               ++ destruct (grepl_cases aj lm cur p) as [[H1 H2]|[H1 H2]]; [exact H2|].
                  rewrite H2. apply K1. exact Hp.
               ++ destruct (grepl_cases aj lm cur q) as [[H1 H2]|[H1 H2]]; [exact H2|]. rewrite H2.
                  destruct (K3 q) as [H|H]; [exfalso; apply H1; rewrite H; exact Eaj|exact H].
            -- intros p. destruct (grepl_cases aj lm cur p) as [[H1 H2]|[H1 H2]]; [right; exact H2|].
               rewrite H2. apply K3.
            -- intros p l El Hl. destruct (grepl_cases aj lm cur p) as [[H1 H2]|[H1 H2]].
               ++ rewrite (K4 p l El Hl) in H1. rewrite El in H1. inversion H1. lia.
               ++ rewrite H2. apply (K4 p l El Hl).
            -- intros p Hne p' E.
               assert (Hsub : cur p <> snap p -> False).
               { intros Hne0. destruct (grepl_cases aj lm cur p') as [[H1 H2]|[H1 H2]].
                 - rewrite H2 in E. apply (K5 p Hne0 p0). rewrite (K1 p0 Hp0). exact E.
                 - rewrite H2 in E. exact (K5 p Hne0 p' E). }
               destruct (grepl_cases aj lm cur p) as [[H1 H2]|[H1 H2]].
               ++ destruct (xv_eq_dec (cur p) (snap p)) as [Es|Es]; [|exact (Hsub Es)].
                  rewrite <- Es, H1 in E.
                  destruct (grepl_cases aj lm cur p') as [[H3 H4]|[H3 H4]].
                  ** rewrite H4 in E. inversion E. lia.
                  ** rewrite H4 in E. contradiction.
               ++ rewrite H2 in Hne. exact (Hsub Hne).
      - (* first matching neighbour: remember its label *)
        destruct K as [-> Hcs]. cbn [fst snd app].
        split; [exact Ccur|]. split; [exact Heq|].
        exists aj. split; [reflexivity|]. split; [exact Haj|]. split; [exists q; left; reflexivity|].
        split; [|split; [|split]].
        + intros p [<-|[]]. rewrite Hcs. exact Eaj.
        + intros p. left. apply Hcs.
        + intros p l _ _. apply Hcs.
        + intros p Hne. exfalso. apply Hne. apply Hcs.
    Qed.
  End Inner.

  Lemma kinv_fold c (Hc : inr c) snap (Hsnap : core snap) rest : forall proc cur amin,
    (forall p, In p proc -> In p (mt c)) -> (forall p, In p rest -> In p (mt c)) -> kinv snap proc cur amin ->
    kinv snap (proc ++ rest) (fst (fold_left (merge_step snap) rest (cur, amin)))
              (snd (fold_left (merge_step snap) rest (cur, amin))).
  Proof.
    induction rest as [|q rest IH]; intros proc cur amin Hproc Hrest K.
    - rewrite app_nil_r. exact K.
    - cbn [fold_left].
      pose proof (kinv_step c Hc snap Hsnap proc cur amin q Hproc (Hrest q (or_introl eq_refl)) K) as K'.
      destruct (merge_step snap (cur, amin) q) as [cur' amin'] eqn:E. cbn [fst snd] in K'.
      replace (proc ++ q :: rest) with ((proc ++ [q]) ++ rest) by (rewrite <- app_assoc; reflexivity).
      apply IH; auto.
      + intros p Hp. apply in_app_or in Hp. destruct Hp as [Hp|[<-|[]]]; auto. apply Hrest. left. reflexivity.
      + intros p Hp. apply Hrest. right. exact Hp.
  Qed.

  Local Notation step2 := (pass2_step n8 rows cols data).

  Record inv2 (done : list pos) (out : grid) : Prop := {
    i2_core : core out;
    i2_share : forall l1 q l2, cellsL = l1 ++ q :: l2 -> data q <> XNaN ->
               (exists p, In p (mt q) /\ In p l1) -> exists r, In r (mt q) /\ out q = out r;
    i2_merged : forall q, In q done -> data q <> XNaN ->
                forall p p', In p (mt q) -> In p' (mt q) -> out p = out p'
  }.

  Lemma inv2_init : inv2 [] (fst (pass1 n8 rows cols data)).
  Proof.
    pose proof pass1_inv as I. constructor.
    - constructor.
      + intros p Hp Hn. apply (i1_nan _ _ _ I); [apply cells_spec; exact Hp|exact Hn].
      + intros p Hp Hn. destruct (i1_lab _ _ _ I p (proj2 (cells_spec p) Hp) Hn) as [l [El Hl]].
        exists l. split; [exact El|lia].
      + intros p q l Hp Hq. apply (i1_sound _ _ _ I); apply cells_spec; assumption.
    - intros l1 q l2 E. apply (i1_share _ _ _ I l1 q l2 E).
    - intros q [].
  Qed.

  Lemma inv2_step done out c : inv2 done out -> inr c -> inv2 (done ++ [c]) (step2 out c).
  Proof.
    intros I Hc. unfold pass2_step.
    destruct (xisnan (data c)) eqn:En.
    - assert (Hn : data c = XNaN) by (destruct (data c); try discriminate; reflexivity).
      constructor; [apply (i2_core _ _ I)|apply (i2_share _ _ I)|].
      intros q Hq Hqn. apply in_app_or in Hq. destruct Hq as [Hq|[<-|[]]]; [|contradiction].
      apply (i2_merged _ _ I); assumption.
    - assert (K0 : kinv out [] out None).
      { split; [apply (i2_core _ _ I)|]. split; [intros p q E; exact E|]. split; reflexivity. }
      pose proof (kinv_fold c Hc out (i2_core _ _ I) (mt c) [] out None
                            (fun p (H : In p []) => match H with end) (fun p H => H) K0) as K.
      cbn [app] in K.
      destruct (fold_left (merge_step out) (mt c) (out, None)) as [out' amin'] eqn:E. cbn [fst snd] in *.
      destruct K as (C' & Heq & K).
      constructor; [exact C'| |].
      + intros l1 q l2 E' Hq Hex. destruct (i2_share _ _ I l1 q l2 E' Hq Hex) as [r [Hr Er]].
        exists r. split; [exact Hr|]. apply Heq. exact Er.
      + intros q Hq Hqn p p' Hp Hp'. apply in_app_or in Hq. destruct Hq as [Hq|[<-|[]]].
        * apply Heq. apply (i2_merged _ _ I q); assumption.
        * destruct amin' as [m|].
          -- destruct K as (lm & _ & _ & _ & K1 & _). rewrite (K1 p Hp), (K1 p' Hp'). reflexivity.
          -- destruct K as [K _]. rewrite K in Hp. destruct Hp.
  Qed.

  Lemma inv2_fold rest : forall done out,
    inv2 done out -> (forall p, In p rest -> inr p) -> inv2 (done ++ rest) (fold_left step2 rest out).
  Proof.
    induction rest as [|c rest IH]; intros done out I Hr.
    - rewrite app_nil_r. exact I.
    - cbn [fold_left].
      replace (done ++ c :: rest) with ((done ++ [c]) ++ rest) by (rewrite <- app_assoc; reflexivity).
      apply IH; [apply inv2_step; [exact I|apply Hr; left; reflexivity]|].
      intros p Hp. apply Hr. right. exact Hp.
  Qed.

  Local Notation result := (area_connectivity n8 rows cols data).

  Lemma result_inv : inv2 cellsL result.
  Proof.
    unfold area_connectivity. apply (inv2_fold cellsL [] _ inv2_init).
    intros p Hp. apply cells_spec. exact Hp.
  Qed.

  (* ---------- the theorems ---------- *)
  Lemma nan_stays_nan p : inr p -> data p = XNaN -> result p = XNaN.
  Proof. apply (c_nan _ (i2_core _ _ result_inv)). Qed.

  Lemma labels_positive p : inr p -> data p <> XNaN -> exists l, result p = XFin l /\ 1 <= l.
  Proof. apply (c_lab _ (i2_core _ _ result_inv)). Qed.

  Lemma same_label_sound p q l : inr p -> inr q -> result p = XFin l -> result q = XFin l -> 0 < l -> conn p q.
  Proof. apply (c_sound _ (i2_core _ _ result_inv)). Qed.

  Lemma complete_ordered l1 q l2 p v :
    cellsL = l1 ++ q :: l2 -> In p l1 -> inr p -> inr q -> adj p q -> data p = XFin v -> data q = XFin v ->
    result p = result q.
  Proof.
    intros E Hp1 Hp Hq Ha Hvp Hvq.
    assert (Hpm : In p (mt q)) by (apply (adj_match q p v); auto using adj_sym).
    assert (Hqn : data q <> XNaN) by (rewrite Hvq; discriminate).
    destruct (i2_share _ _ result_inv l1 q l2 E Hqn (ex_intro _ p (conj Hpm Hp1))) as [r [Hr Er]].
    rewrite Er. apply (i2_merged _ _ result_inv q); auto. apply cells_spec. exact Hq.
  Qed.

  Lemma same_label_complete_adj p q v :
    inr p -> inr q -> adj p q -> data p = XFin v -> data q = XFin v -> result p = result q.
  Proof.
    intros Hp Hq Ha Hvp Hvq.
    destruct (in_split q cellsL (proj2 (cells_spec q) Hq)) as [l1 [l2 E]].
    assert (Hpc : In p cellsL) by (apply cells_spec; exact Hp).
    rewrite E in Hpc. apply in_app_or in Hpc. destruct Hpc as [Hp1|[Hpq|Hp2]].
    - eapply complete_ordered; eassumption.
    - subst p. exfalso. eapply adj_irrefl; eassumption.
    - destruct (in_split p l2 Hp2) as [a [b E2]].
      symmetry. apply (complete_ordered (l1 ++ q :: a) p b q v); auto using adj_sym.
      + rewrite E, E2. rewrite <- app_assoc. reflexivity.
      + apply in_or_app. right. left. reflexivity.
  Qed.

  Lemma same_label_complete p q : conn p q -> result p = result q.
  Proof.
    intros H. induction H as [|s r H IH L]; [reflexivity|].
    rewrite IH. destruct L as (Hs & Hr & Ha & v & Hvs & Hvr). eapply same_label_complete_adj; eassumption.
  Qed.

  Lemma regions_are_components p q :
    inr p -> inr q -> data p <> XNaN -> data q <> XNaN -> (result p = result q <-> conn p q).
  Proof.
    intros Hp Hq Hnp Hnq. split; [|apply same_label_complete].
    intros E. destruct (labels_positive p Hp Hnp) as [l [El Hl]].
    apply (same_label_sound p q l); auto; [rewrite <- E; exact El|lia].
  Qed.
End Regions.

(* ---------- the list-level model ---------- *)
Lemma nthZ_ziota d s n i : 0 <= i < Z.of_nat n -> nthZ d (ziota s n) i = s + i.
Proof.
  revert s i; induction n as [|n IH]; intros s i Hi; [lia|].
  cbn [ziota]. destruct (Z.eq_dec i 0) as [->|Hne]; [rewrite nthZ_cons_0; lia|].
  rewrite nthZ_cons_S by lia. rewrite IH by lia. lia.
Qed.

Lemma tabulate_cell (f : pos -> xv) (rows cols : nat) p :
  inr (Z.of_nat rows) (Z.of_nat cols) p ->
  cell (map (fun y => map (fun x => f (y, x)) (ziota 0 cols)) (ziota 0 rows)) p = f p.
Proof.
  destruct p as [y x]. unfold inr, cell. cbn [fst snd]. intros [Hy Hx].
  rewrite nthZ_map with (da := 0) by (unfold lenZ; rewrite ziota_length; lia).
  rewrite nthZ_map with (da := 0) by (unfold lenZ; rewrite ziota_length; lia).
  rewrite !nthZ_ziota by lia. reflexivity.
Qed.

Lemma regions_model_cell n8 rows cols d p :
  inr (Z.of_nat rows) (Z.of_nat cols) p ->
  cell (regions_model n8 rows cols d) p = area_connectivity n8 (Z.of_nat rows) (Z.of_nat cols) (cell d) p.
Proof. intros Hp. unfold regions_model. cbv zeta. apply tabulate_cell. exact Hp. Qed.

Lemma regions_model_shape n8 rows cols d :
  length (regions_model n8 rows cols d) = rows /\
  forall row, In row (regions_model n8 rows cols d) -> length row = cols.
Proof.
  unfold regions_model. cbv zeta. split.
  - rewrite map_length, ziota_length. reflexivity.
  - intros row Hin. apply in_map_iff in Hin. destruct Hin as [y [<- _]].
    rewrite map_length, ziota_length. reflexivity.
Qed.

(* integer-valued (or NaN) rasters: the property's domain *)
Definition intdata (rows cols : nat) (d : list (list xv)) : Prop :=
  forall p, inr (Z.of_nat rows) (Z.of_nat cols) p -> cell d p = XNaN \/ exists v, cell d p = XFin v.

(* boolean check of the domain, for examples *)
Lemma intdata_check rows cols d :
  forallb (fun y => forallb (fun x => match cell d (y, x) with XNaN | XFin _ => true | _ => false end)
                            (ziota 0 cols)) (ziota 0 rows) = true ->
  intdata rows cols d.
Proof.
  intros H [y x] [Hy Hx]. cbn [fst snd] in Hy, Hx.
  rewrite forallb_forall in H. specialize (H y ltac:(apply ziota_In; lia)).
  rewrite forallb_forall in H. specialize (H x ltac:(apply ziota_In; lia)).
  destruct (cell d (y, x)) as [| |v|]; try discriminate; [left; reflexivity|right; exists v; reflexivity].
Qed.

Section ListLevel.
  Variable n8 : bool.
  Variables rows cols : nat.
  Variable d : list (list xv).
  Hypothesis Hd : intdata rows cols d.
  Local Notation R := (Z.of_nat rows).
  Local Notation C := (Z.of_nat cols).
  Local Notation lab := (cell (regions_model n8 rows cols d)).
  Local Notation connd := (conn n8 R C (cell d)).

  Lemma L_nan p : inr R C p -> cell d p = XNaN -> lab p = XNaN.
  Proof. intros Hp Hn. rewrite regions_model_cell by exact Hp. apply nan_stays_nan; auto. Qed.

  Lemma L_pos p : inr R C p -> cell d p <> XNaN -> exists l, lab p = XFin l /\ 1 <= l.
  Proof. intros Hp Hn. rewrite regions_model_cell by exact Hp. apply labels_positive; auto. Qed.

  Lemma L_sound p q l : inr R C p -> inr R C q -> lab p = XFin l -> lab q = XFin l -> connd p q.
  Proof.
    intros Hp Hq Ep Eq. rewrite regions_model_cell in Ep, Eq by assumption.
    destruct (xv_eq_dec (cell d p) XNaN) as [Hn|Hn].
    - rewrite (nan_stays_nan n8 R C (cell d) Hd p Hp Hn) in Ep. discriminate.
    - destruct (labels_positive n8 R C (cell d) Hd p Hp Hn) as [l' [El' Hl']].
      rewrite El' in Ep. inversion Ep; subst l'.
      apply (same_label_sound n8 R C (cell d) Hd p q l); auto; lia.
  Qed.

  Lemma L_complete_adj p q v :
    inr R C p -> inr R C q -> adj n8 p q -> cell d p = XFin v -> cell d q = XFin v -> lab p = lab q.
  Proof.
    intros Hp Hq Ha Hvp Hvq. rewrite !regions_model_cell by assumption.
    eapply same_label_complete_adj; eassumption.
  Qed.

  Lemma L_components p q :
    inr R C p -> inr R C q -> cell d p <> XNaN -> cell d q <> XNaN -> (lab p = lab q <-> connd p q).
  Proof.
    intros Hp Hq Hnp Hnq. rewrite !regions_model_cell by assumption. apply regions_are_components; auto.
  Qed.
End ListLevel.
