(* C09/Props.v — the property theorems claimed for C09, nothing else.
   Each is closed by [exact] of a lemma from Proofs*.v and followed by
   Print Assumptions (parsed into the evidence file by ./check).
   "forall A : Arith" = for every arithmetic instance, in particular BOTH the exact one
   (ExactArith, option Q) and the float one (FloatArith: SpecFloat binary32 + PrimFloat
   binary64) that is extracted and compared bit-for-bit with the implementation. *)
Require Import Base.Prelude C09.Generated C09.Arith C09.Model C09.Proofs C09.ProofsStats C09.ProofsConv
        C09.ProofsMean C09.ProofsNeg C09.ProofsMean3.
From Coq Require Import QArith Qabs PrimFloat.
Open Scope Z_scope.

(* focal apply — for EVERY raster size, EVERY odd kernel shape (2hr+1) x (2hc+1) (non-square,
   asymmetric, larger than the raster: all allowed), EVERY cell type, EVERY "== 1" test and EVERY
   reducer func: the output cell (y, x) is func applied to the window W with
     W[i][j] = data[y+i-hr][x+j-hc]   if that position is inside the raster and kernel[i][j] == 1
     W[i][j] = NaN                    otherwise
   (window_spec, Proofs.v) — no transposition, no mirroring, whatever the scratch buffer held before. *)
Theorem C09_apply_window_spec :
  forall (T K : Type) (nan zero : T) (kd : K) (is_one : K -> bool) (func : grid T -> T)
         (data : grid T) (kernel : grid K) (rows cols hr hc : Z),
  0 <= hr -> 0 <= hc -> wf data rows cols -> wf kernel (2 * hr + 1) (2 * hc + 1) -> 0 < rows ->
  forall y x, 0 <= y < rows -> 0 <= x < cols ->
  get2 nan (apply_numpy nan zero kd is_one func data kernel) y x =
  func (window_spec nan kd is_one data kernel rows cols hr hc y x).
Proof. exact @apply_window_spec. Qed.
Print Assumptions C09_apply_window_spec.

(* the whole output, including its shape *)
Theorem C09_apply_numpy_tabulate :
  forall (T K : Type) (nan zero : T) (kd : K) (is_one : K -> bool) (func : grid T -> T)
         (data : grid T) (kernel : grid K) (rows cols hr hc : Z),
  0 <= hr -> 0 <= hc -> wf data rows cols -> wf kernel (2 * hr + 1) (2 * hc + 1) -> 0 < rows ->
  apply_numpy nan zero kd is_one func data kernel =
  tabulate (fun y x => func (window_spec nan kd is_one data kernel rows cols hr hc y x)) rows cols.
Proof. exact @apply_numpy_spec. Qed.
Print Assumptions C09_apply_numpy_tabulate.

(* focal_stats, every arithmetic instance: the kernel is accepted and layer k is apply with the reducer
   NAMED by stats_funcs[k] (named_reducer is the hand-written expectation mean -> nanmean, max -> nanmax,
   ..., each followed by the store into the float32 output; the table of the source is regenerated into
   Generated.function_mapping on every run), in request order. *)
Theorem C09_focal_stats_spec :
  forall (A : Arith) (data : grid (T32 A)) (kernel : grid (T64 A)) (rows cols hr hc : Z),
  0 <= hr -> 0 <= hc -> wf data rows cols -> wf kernel (2 * hr + 1) (2 * hc + 1) -> 0 < rows ->
  forall stats,
  focal_stats A data kernel stats =
  Some (map (fun s => tabulate (fun y x =>
               named_reducer A s (window_spec (snan A) (dnan A) (is_one A) data kernel rows cols hr hc y x)) rows cols) stats).
Proof. exact focal_stats_spec. Qed.
Print Assumptions C09_focal_stats_spec.

(* NaN cells ignored, exactly the cells under the 1-entries — for every cell type and every NaN test that
   recognises the fill value: the non-NaN entries of the window are the non-NaN cells under the kernel
   (clipped at the edge), in row-major order ... *)
Theorem C09_window_valid_cells :
  forall (T K : Type) (isn : T -> bool) (nan : T) (kd : K) (is_one : K -> bool) data kernel rows cols hr hc y x,
  isn nan = true ->
  valid isn (concat (window_spec nan kd is_one data kernel rows cols hr hc y x)) =
  valid isn (cells_under nan kd is_one data kernel rows cols hr hc y x).
Proof. exact @window_valid. Qed.
Print Assumptions C09_window_valid_cells.

(* ... and, for every arithmetic instance, Numba's nansum / nanmean / nanvar / nanmin / nanmax loops are the
   plain loops over exactly those entries (same order, same accumulator types) *)
Theorem C09_reducers_skip_nan : forall (A : Arith) (w : grid (T32 A)),
  calc_sum A w = fold_left (sadd A) (valid (sisnan A) (concat w)) (szero A) /\
  mean_acc A (sisnan A) (widen A) (concat w) =
    fold_left (fun st v => (dadd A (fst st) (widen A v), snd st + 1)) (valid (sisnan A) (concat w)) (dofZ A 0, 0) /\
  (forall m, var_acc A m (concat w) =
    fold_left (fun st v => let val := dsub A (widen A v) m in (dadd A (fst st) (dmul A val val), snd st + 1))
              (valid (sisnan A) (concat w)) (dofZ A 0, 0)) /\
  (forall op r0 rest, nan_min_max A op (r0 :: rest) =
    fold_left (fun r v => if negb (op r v) then v else r) (valid (sisnan A) rest) r0).
Proof.
  intros A w. split; [apply calc_sum_valid|]. split; [apply mean_acc_valid|].
  split; [intros; apply var_acc_valid|intros; apply nan_min_max_valid].
Qed.
Print Assumptions C09_reducers_skip_nan.

(* exact instance: nanmean is sum / count and nanvar the mean squared deviation of exactly the non-NaN
   values (NaN when there is none), for every function standing for the square root *)
Theorem C09_exact_mean_var : forall qs (w : grid xq),
  calc_mean (ExactArith qs) w = nanmean_list (wvals w) /\
  calc_var (ExactArith qs) w = var_list (wvals w).
Proof. intros; split; [apply calc_mean_nanmean|apply calc_var_exact]. Qed.
Print Assumptions C09_exact_mean_var.

(* exact instance: Numba's nanmin / nanmax, modelled as written (first element, then "if not op(ret, v)"),
   return a member of the non-NaN values that bounds them all (NaN iff there is none) *)
Theorem C09_min_max_spec : forall qs w,
  (wvals w = [] -> calc_min (ExactArith qs) w = None /\ calc_max (ExactArith qs) w = None) /\
  (wvals w <> [] -> exists lo hi, calc_min (ExactArith qs) w = Some lo /\ calc_max (ExactArith qs) w = Some hi /\
      In lo (wvals w) /\ In hi (wvals w) /\ forall v, In v (wvals w) -> (lo <= v <= hi)%Q).
Proof.
  intros qs w. rewrite calc_min_somes, calc_max_somes. split.
  - intros ->. split; reflexivity.
  - destruct (wvals w) as [|q r]; [congruence|]. intros _.
    destruct (fold_min_spec r q) as [I1 L1]. destruct (fold_max_spec r q) as [I2 L2].
    eexists; eexists. repeat split; try reflexivity; auto.
Qed.
Print Assumptions C09_min_max_spec.

(* custom_kernel accepts exactly ndarrays of odd x odd shape; in particular even shapes are rejected *)
Theorem C09_custom_kernel_spec : forall nd rows cols,
  custom_kernel_ok nd rows cols = true <-> nd = true /\ Z.odd rows = true /\ Z.odd cols = true.
Proof. exact custom_kernel_spec. Qed.
Print Assumptions C09_custom_kernel_spec.

Theorem C09_custom_kernel_rejects_even : forall nd rows cols,
  Z.even rows = true \/ Z.even cols = true -> custom_kernel_ok nd rows cols = false.
Proof. exact custom_kernel_rejects_even. Qed.
Print Assumptions C09_custom_kernel_rejects_even.

(* hotspots, every arithmetic instance: only 0, +-90, +-95, +-99 ... *)
Theorem C09_hotspot_values : forall (A : Arith) z, In (hot_cell A z) [0; 90; 95; 99; -90; -95; -99].
Proof. exact hot_cell_values. Qed.
Print Assumptions C09_hotspot_values.

(* ... exact instance: with the sign of the z-score and the thresholds 1.65 / 1.96 / 2.58 (T90/T95/T99 = the
   doubles nearest to these decimals, written by hand in ProofsStats.v; the ladder constants of the source are
   regenerated into Generated.v on every run — the p-value ladder never changes the outcome); NaN -> 0 *)
Theorem C09_hotspot_thresholds : forall qs,
  hot_cell (ExactArith qs) None = 0 /\
  forall z : Q,
  hot_cell (ExactArith qs) (Some z) =
  qsgn z * (if qltb T99 (Qabs z) then 99 else if qltb T95 (Qabs z) then 95 else if qltb T90 (Qabs z) then 90 else 0).
Proof. intros qs; split; [apply hot_cell_nan|apply hot_cell_ladder]. Qed.
Print Assumptions C09_hotspot_thresholds.

(* negating the z-scores negates the classification (cell and raster) *)
Theorem C09_hotspot_negate_z : forall qs zs,
  calc_hotspots (ExactArith qs) (map (map xopp) zs) = map (map Z.opp) (calc_hotspots (ExactArith qs) zs).
Proof. exact calc_hotspots_opp. Qed.
Print Assumptions C09_hotspot_negate_z.

(* hotspots(-X) = -hotspots(X) for the WHOLE pipeline at the exact instance: convolution by
   kernel / kernel.sum(), global nanmean and nanstd (sum / count semantics, for every function standing
   for the square root), z-score, ladder — including the ZeroDivisionError case (None on both sides) *)
Theorem C09_hotspots_negate : forall (qs : Q -> Q) data kernel nx ny wkx wky,
  0 <= wkx -> 0 <= wky -> wf data nx ny -> wf kernel (2 * wkx + 1) (2 * wky + 1) -> 0 < nx -> 0 <= ny ->
  hotspots_numpy (ExactArith qs) (seq_nanmean (ExactArith qs)) (seq_nanstd (ExactArith qs)) (gneg data) kernel =
  option_map (map (map Z.opp))
             (hotspots_numpy (ExactArith qs) (seq_nanmean (ExactArith qs)) (seq_nanstd (ExactArith qs)) data kernel).
Proof. exact hotspots_negate. Qed.
Print Assumptions C09_hotspots_negate.

(* the same for ANY pair of global reductions that is odd resp. even under negation (up to == of rationals) *)
Theorem C09_hotspots_negate_any_reduction : forall (qs : Q -> Q) (gmean gstd : grid xq -> xq),
  (forall X, xeq (gmean (gneg X)) (xopp (gmean X))) -> (forall X, gstd (gneg X) = gstd X) ->
  forall data kernel nx ny wkx wky,
  0 <= wkx -> 0 <= wky -> wf data nx ny -> wf kernel (2 * wkx + 1) (2 * wky + 1) -> 0 < nx -> 0 <= ny ->
  hotspots_numpy (ExactArith qs) gmean gstd (gneg data) kernel =
  option_map (map (map Z.opp)) (hotspots_numpy (ExactArith qs) gmean gstd data kernel).
Proof. exact hotspots_negate_gen. Qed.
Print Assumptions C09_hotspots_negate_any_reduction.

(* focal mean, one pass, every arithmetic instance: an excluded value (== or NaN-with-NaN against any entry
   of `excludes`) is passed through untouched; every other cell becomes Numba's nanmean (float64 accumulator,
   count, one division) over the cells of the 3x3 block around it that exist (clipped3x3: rows y-1..y+1,
   columns x-1..x+1, inside the raster, row-major) *)
Theorem C09_mean_spec : forall (A : Arith) rows cols excludes, 0 < rows ->
  forall data y x, wf data rows cols -> 0 <= y < rows -> 0 <= x < cols ->
  get2 (dnan A) (mean_numpy A data excludes) y x =
  if excluded A excludes (get2 (dnan A) data y x) then get2 (dnan A) data y x
  else nanmean_gen A (disnan A) (fun v => v) (clipped3x3 (dnan A) data rows cols y x).
Proof. exact mean_numpy_spec. Qed.
Print Assumptions C09_mean_spec.

(* exact instance: that loop is sum / count of the non-NaN values, NaN if there is none *)
Theorem C09_mean_exact : forall qs (flat : list xq),
  nanmean_gen (ExactArith qs) oisnan (fun v => v) flat = nanmean_list (somes flat).
Proof. exact nanmean_gen_exact. Qed.
Print Assumptions C09_mean_exact.

(* "focal mean is the same with a full 3x3 window" (exact instance): a non-excluded cell of focal mean equals
   focal apply with the all-ones 3x3 kernel and the nanmean reducer (same window_spec as C09_apply_window_spec) *)
Theorem C09_mean_is_apply_3x3 : forall qs rows cols excludes (data : grid xq) y x,
  0 < rows -> wf data rows cols -> 0 <= y < rows -> 0 <= x < cols ->
  excluded (ExactArith qs) excludes (get2 None data y x) = false ->
  get2 None (mean_numpy (ExactArith qs) data excludes) y x =
  calc_mean (ExactArith qs) (window_spec None None (is_one (ExactArith qs)) data ones33 rows cols 1 1 y x).
Proof. exact mean_is_apply_3x3. Qed.
Print Assumptions C09_mean_is_apply_3x3.

(* `passes` = iteration of the one-pass filter, every arithmetic instance *)
Theorem C09_mean_passes : forall (A : Arith) excludes data (n : nat),
  mean A data (Z.of_nat n) excludes = Nat.iter n (fun d => mean_numpy A d excludes) data.
Proof. exact mean_passes. Qed.
Print Assumptions C09_mean_passes.

(* an excluded cell keeps its value through any number of passes, every arithmetic instance *)
Theorem C09_mean_excluded_passthrough : forall (A : Arith) rows cols excludes, 0 < rows ->
  forall data y x (n : nat), 0 <= cols -> wf data rows cols -> 0 <= y < rows -> 0 <= x < cols ->
  excluded A excludes (get2 (dnan A) data y x) = true ->
  wf (mean A data (Z.of_nat n) excludes) rows cols /\
  get2 (dnan A) (mean A data (Z.of_nat n) excludes) y x = get2 (dnan A) data y x.
Proof. exact mean_excluded_passthrough. Qed.
Print Assumptions C09_mean_excluded_passthrough.

(* convolution_2d, every arithmetic instance, EVERY raster and EVERY odd kernel shape: cell (i, j) is the
   kernel-weighted sum over the FULL (2wkx+1) x (2wky+1) window (wsum: kernel[a][b] * data[i+a-wkx][j+b-wky]
   accumulated row-major in float64 from 0.0), rounded once into the float32 output, and NaN where the window
   leaves the raster ... *)
Theorem C09_conv_spec : forall (A : Arith) data kernel nx ny wkx wky,
  0 <= wkx -> 0 <= wky -> wf data nx ny -> wf kernel (2 * wkx + 1) (2 * wky + 1) -> 0 < nx ->
  forall i j, 0 <= i < nx -> 0 <= j < ny ->
  get2 (snan A) (convolve_2d A data kernel) i j =
  if (wkx <=? i) && (i <? nx - wkx) && (wky <=? j) && (j <? ny - wky)
  then narrow A (wsum A data kernel wkx wky i j) else snan A.
Proof. exact conv_spec. Qed.
Print Assumptions C09_conv_spec.

(* ... exact instance: an interior cell is NaN iff the window covers a NaN cell (even under a zero weight)
   or a NaN weight *)
Theorem C09_conv_nan_iff : forall qs data kernel wkx wky i j,
  wsum (ExactArith qs) data kernel wkx wky i j = None <->
  exists a b, 0 <= a < 2 * wkx + 1 /\ 0 <= b < 2 * wky + 1 /\
              (get2 None kernel a b = None \/ get2 None data (i + a - wkx) (j + b - wky) = None).
Proof. exact wsum_none. Qed.
Print Assumptions C09_conv_nan_iff.

(* ... and for EVERY arithmetic instance whose operations absorb NaN (nan_absorbing: a NaN operand of + or *
   gives NaN, widen / narrow keep NaN — IEEE arithmetic has this; proved here for the exact instance), a NaN cell
   under the window, even under a zero weight, or a NaN weight makes the output cell NaN *)
Theorem C09_conv_nan_propagates : forall (A : Arith), nan_absorbing A ->
  forall data kernel wkx wky i j,
  (exists a b, 0 <= a < 2 * wkx + 1 /\ 0 <= b < 2 * wky + 1 /\
               (disnan A (get2 (dnan A) kernel a b) = true \/
                sisnan A (get2 (snan A) data (i + a - wkx) (j + b - wky)) = true)) ->
  sisnan A (narrow A (wsum A data kernel wkx wky i j)) = true.
Proof. exact wsum_nan_propagates. Qed.
Print Assumptions C09_conv_nan_propagates.

Theorem C09_exact_nan_absorbing : forall qs, nan_absorbing (ExactArith qs).
Proof. exact exact_nan_absorbing. Qed.
Print Assumptions C09_exact_nan_absorbing.

(* ---------------- non-vacuity ---------------- *)
(* a 3 x 4 raster with a NaN, an asymmetric 3 x 5 kernel (hr = 1, hc = 2): the hypotheses hold and BOTH
   instances of the model compute the sums of exactly the cells under the kernel (worked out by hand: the kernel
   selects the cell two to the left in the row above, the cell itself, and the cell one to the right in the row below) *)
Example C09_nonvacuous_apply :
  let data : grid xq := [[Some 1%Q; Some 2%Q; Some 3%Q; Some 4%Q];
                         [Some 5%Q; None;     Some 7%Q; Some 8%Q];
                         [Some 9%Q; Some 10%Q; Some 11%Q; Some 12%Q]] in
  let o : xq := Some 0%Q in let l : xq := Some 1%Q in
  let kernel : grid xq := [[l; o; o; o; o]; [o; o; l; o; o]; [o; o; o; l; o]] in
  wf data 3 4 /\ wf kernel (2 * 1 + 1) (2 * 2 + 1) /\
  option_map (map (map qred_x)) (q_apply (calc_sum E0) data kernel) =
  Some [[Some 1%Q; Some 9%Q; Some 11%Q; Some 4%Q];
        [Some 15%Q; Some 11%Q; Some 20%Q; Some 10%Q];
        [Some 9%Q; Some 10%Q; Some 16%Q; Some 12%Q]].
Proof.
  cbv zeta. split; [|split].
  - split; [reflexivity|]. intros i Hi.
    assert (i = 0 \/ i = 1 \/ i = 2) as [->|[->| ->]] by lia; reflexivity.
  - split; [reflexivity|]. intros i Hi.
    assert (i = 0 \/ i = 1 \/ i = 2) as [->|[->| ->]] by lia; reflexivity.
  - vm_compute. reflexivity.
Qed.

(* the same raster and kernel at the float instance (1.0 .. 12.0, NaN; SpecFloat binary32 / PrimFloat evaluation),
   and a float32 rounding: the nanmean of 0.1f and 0.2f stored as float32 is 0x1.333334p-3 *)
Definition fgrid_eqb (g h : grid float) : bool :=
  forallb (fun pr => forallb (fun q => PrimFloat.eqb (fst q) (snd q)) (combine (fst pr) (snd pr))) (combine g h).
Example C09_nonvacuous_apply_float :
  let n := PrimFloat.nan in
  let data := [[1; 2; 3; 4]; [5; n; 7; 8]; [9; 10; 11; 12]]%float in
  let kernel := [[1; 0; 0; 0; 0]; [0; 0; 1; 0; 0]; [0; 0; 0; 1; 0]]%float in
  match f_apply PNansum data kernel with
  | Some g => fgrid_eqb g [[1; 9; 11; 4]; [15; 11; 20; 10]; [9; 10; 16; 12]]%float
  | None => false
  end = true /\
  match f_apply PNanmean [[0x1.99999ap-4; 0x1.99999ap-3]]%float [[1; 1; 1]]%float with
  | Some g => fgrid_eqb g [[0x1.333334p-3; 0x1.333334p-3]]%float
  | None => false
  end = true.
Proof. cbv zeta. split; vm_compute; reflexivity. Qed.

Example C09_nonvacuous_hotspots :
  map (hot_cell E0) [Some (3 # 1)%Q; Some (- (2 # 1))%Q; Some (17 # 10)%Q; Some (8 # 5)%Q; Some 0%Q; None]
  = [99; -95; 90; 0; 0; 0].
Proof. vm_compute. reflexivity. Qed.

Example C09_nonvacuous_custom_kernel :
  custom_kernel_ok true 3 5 = true /\ custom_kernel_ok true 4 5 = false /\ custom_kernel_ok false 3 3 = false.
Proof. repeat split. Qed.

Example C09_nonvacuous_mean_conv :
  let data : grid xq := [[Some 1%Q; Some 2%Q; Some 3%Q]; [Some 4%Q; None; Some 6%Q]; [Some 7%Q; Some 8%Q; Some 9%Q]] in
  let o : xq := Some 0%Q in
  wf data 3 3 /\
  map (map qred_x) (q_mean data 1 [None; Some 9%Q]) =
    [[Some (7 # 3)%Q; Some (16 # 5)%Q; Some (11 # 3)%Q]; [Some (22 # 5)%Q; None; Some (28 # 5)%Q]; [Some (19 # 3)%Q; Some (34 # 5)%Q; Some 9%Q]] /\
  map (map qred_x) (q_conv [[Some 1%Q; Some 2%Q; Some 3%Q]; [Some 4%Q; Some 5%Q; Some 6%Q]; [Some 7%Q; Some 8%Q; Some 9%Q]]
                           [[Some (1 # 2)%Q; o; o]; [o; Some 1%Q; o]; [o; o; Some (1 # 4)%Q]]) =
    [[None; None; None]; [None; Some (31 # 4)%Q; None]; [None; None; None]].
Proof.
  cbv zeta. split; [|split].
  - split; [reflexivity|]. intros i Hi.
    assert (i = 0 \/ i = 1 \/ i = 2) as [->|[->| ->]] by lia; reflexivity.
  - vm_compute. reflexivity.
  - vm_compute. reflexivity.
Qed.

Example C09_nonvacuous_hotspots_pipeline :
  let data : grid xq := [[Some 0%Q; Some 0%Q; Some 0%Q]; [Some 0%Q; Some 0%Q; Some 0%Q]; [Some 0%Q; Some 0%Q; Some 90%Q]] in
  let A := ExactArith (fun _ => (28 # 1)%Q) in
  hotspots_numpy A (seq_nanmean A) (seq_nanstd A) data [[Some 1%Q]] = Some [[0; 0; 0]; [0; 0; 0]; [0; 0; 99]] /\
  hotspots_numpy A (seq_nanmean A) (seq_nanstd A) (gneg data) [[Some 1%Q]] = Some [[0; 0; 0]; [0; 0; 0]; [0; 0; -99]].
Proof. split; vm_compute; reflexivity. Qed.
