(* C09/Props.v — the property theorems claimed for C09, nothing else.
   Each is closed by [exact] of a lemma from Proofs*.v and followed by
   Print Assumptions (parsed into the evidence file by ./check). *)
Require Import Base.Prelude C09.Generated C09.Model C09.Proofs C09.ProofsStats C09.ProofsConv C09.ProofsMean C09.ProofsNeg C09.ProofsMean3.
From Coq Require Import QArith Qabs.
Open Scope Z_scope.

(* focal apply — for EVERY raster size, EVERY odd kernel shape (2hr+1) x (2hc+1) (non-square,
   asymmetric, larger than the raster: all allowed), EVERY cell type, EVERY "== 1" test and EVERY
   reducer func: the output cell (y, x) is func applied to the window W with
     W[i][j] = data[y+i-hr][x+j-hc]   if that position is inside the raster and kernel[i][j] == 1
     W[i][j] = NaN                    otherwise
   (window_spec, Proofs.v) — no transposition, no mirroring, whatever the scratch buffer held before. *)
Theorem C09_apply_window_spec :
  forall (T K : Type) (nan zero : T) (kd : K) (is_one : K -> bool) (func : grid T -> T)
         (data : grid T) (kernel : grid K) (rows cols hr hc : Z),
  0 <= hr -> 0 <= hc -> wf data rows cols -> wf kernel (2 * hr + 1) (2 * hc + 1) -> 0 < rows ->
  forall y x, 0 <= y < rows -> 0 <= x < cols ->
  get2 nan (apply_numpy nan zero kd is_one func data kernel) y x =
  func (window_spec nan kd is_one data kernel rows cols hr hc y x).
Proof. exact @apply_window_spec. Qed.
Print Assumptions C09_apply_window_spec.

(* the whole output, including its shape *)
Theorem C09_apply_numpy_tabulate :
  forall (T K : Type) (nan zero : T) (kd : K) (is_one : K -> bool) (func : grid T -> T)
         (data : grid T) (kernel : grid K) (rows cols hr hc : Z),
  0 <= hr -> 0 <= hc -> wf data rows cols -> wf kernel (2 * hr + 1) (2 * hc + 1) -> 0 < rows ->
  apply_numpy nan zero kd is_one func data kernel =
  tabulate (fun y x => func (window_spec nan kd is_one data kernel rows cols hr hc y x)) rows cols.
Proof. exact @apply_numpy_spec. Qed.
Print Assumptions C09_apply_numpy_tabulate.

(* focal_stats: the kernel is accepted and layer k is apply with the reducer NAMED by stats_funcs[k]
   (named_reducer is the hand-written expectation mean -> nanmean, max -> nanmax, ...; the table of the
   source is regenerated into Generated.function_mapping on every run), in request order. *)
Theorem C09_focal_stats_spec :
  forall (qsqrt : Q -> Q) (data : grid xq) (kernel : grid Q) (rows cols hr hc : Z),
  0 <= hr -> 0 <= hc -> wf data rows cols -> wf kernel (2 * hr + 1) (2 * hc + 1) -> 0 < rows ->
  forall stats,
  focal_stats qsqrt data kernel stats =
  Some (map (fun s => tabulate (fun y x =>
               named_reducer qsqrt s (window_spec None 0%Q is_one_q data kernel rows cols hr hc y x)) rows cols) stats).
Proof. exact focal_stats_spec. Qed.
Print Assumptions C09_focal_stats_spec.

(* NaN cells ignored, exactly the cells under the 1-entries: the non-NaN values a reducer finds in the
   window are the non-NaN cells under the kernel (clipped at the edge), in row-major order ... *)
Theorem C09_window_values :
  forall data kernel rows cols hr hc y x,
  wvals (window_spec None 0%Q is_one_q data kernel rows cols hr hc y x) =
  somes (cells_under data kernel rows cols hr hc y x).
Proof. exact wvals_window. Qed.
Print Assumptions C09_window_values.

(* ... and Numba's nanmin / nanmax, modelled as written (first element, then "if not op(ret, v)"),
   return a member of those values that bounds them all (NaN iff there is none) *)
Theorem C09_min_max_spec : forall w,
  (wvals w = [] -> calc_min w = None /\ calc_max w = None) /\
  (wvals w <> [] -> exists lo hi, calc_min w = Some lo /\ calc_max w = Some hi /\
      In lo (wvals w) /\ In hi (wvals w) /\ forall v, In v (wvals w) -> (lo <= v <= hi)%Q).
Proof.
  intros w. rewrite calc_min_somes, calc_max_somes. split.
  - intros ->. split; reflexivity.
  - destruct (wvals w) as [|q r]; [congruence|]. intros _.
    destruct (fold_min_spec r q) as [I1 L1]. destruct (fold_max_spec r q) as [I2 L2].
    eexists; eexists. repeat split; try reflexivity; auto.
Qed.
Print Assumptions C09_min_max_spec.

(* custom_kernel accepts exactly ndarrays of odd x odd shape; in particular even shapes are rejected *)
Theorem C09_custom_kernel_spec : forall nd rows cols,
  custom_kernel_ok nd rows cols = true <-> nd = true /\ Z.odd rows = true /\ Z.odd cols = true.
Proof. exact custom_kernel_spec. Qed.
Print Assumptions C09_custom_kernel_spec.

Theorem C09_custom_kernel_rejects_even : forall nd rows cols,
  Z.even rows = true \/ Z.even cols = true -> custom_kernel_ok nd rows cols = false.
Proof. exact custom_kernel_rejects_even. Qed.
Print Assumptions C09_custom_kernel_rejects_even.

(* hotspots: only 0, +-90, +-95, +-99 ... *)
Theorem C09_hotspot_values : forall z, In (hot_cell z) [0; 90; 95; 99; -90; -95; -99].
Proof. exact hot_cell_values. Qed.
Print Assumptions C09_hotspot_values.

(* ... with the sign of the z-score and the thresholds 1.65 / 1.96 / 2.58 (T90/T95/T99 = the doubles
   nearest to these decimals, written by hand in ProofsStats.v; the ladder constants of the source are
   regenerated into Generated.v on every run — the p-value ladder never changes the outcome) *)
Theorem C09_hotspot_thresholds : forall z : Q,
  hot_cell (Some z) =
  qsgn z * (if qltb T99 (Qabs z) then 99 else if qltb T95 (Qabs z) then 95 else if qltb T90 (Qabs z) then 90 else 0).
Proof. exact hot_cell_ladder. Qed.
Print Assumptions C09_hotspot_thresholds.

(* negating the z-scores negates the classification (cell and raster) *)
Theorem C09_hotspot_negate_z : forall zs,
  calc_hotspots (map (map xopp) zs) = map (map Z.opp) (calc_hotspots zs).
Proof. exact calc_hotspots_opp. Qed.
Print Assumptions C09_hotspot_negate_z.

(* hotspots(-X) = -hotspots(X) for the WHOLE pipeline at the exact instance: convolution by
   kernel / kernel.sum(), global nanmean and nanstd (for every function standing for x ** 0.5), z-score,
   ladder — including the ZeroDivisionError case (None on both sides) *)
Theorem C09_hotspots_negate : forall (qsqrt : Q -> Q) data kernel nx ny wkx wky,
  0 <= wkx -> 0 <= wky -> wf data nx ny -> wf kernel (2 * wkx + 1) (2 * wky + 1) -> 0 < nx -> 0 <= ny ->
  hotspots_numpy qsqrt (gneg data) kernel =
  option_map (map (map Z.opp)) (hotspots_numpy qsqrt data kernel).
Proof. exact hotspots_negate. Qed.
Print Assumptions C09_hotspots_negate.

(* focal mean, one pass: an excluded value (== or NaN-with-NaN against any entry of `excludes`) is passed
   through untouched; every other cell becomes the nanmean of the cells of the 3x3 block around it that
   exist (clipped3x3: rows y-1..y+1, columns x-1..x+1, inside the raster), NaN if there is none *)
Theorem C09_mean_spec : forall rows cols excludes, 0 < rows ->
  forall data y x, wf data rows cols -> 0 <= y < rows -> 0 <= x < cols ->
  get2 None (mean_numpy data excludes) y x =
  if excluded excludes (get2 None data y x) then get2 None data y x
  else nanmean_list (somes (clipped3x3 data rows cols y x)).
Proof. exact mean_numpy_spec. Qed.
Print Assumptions C09_mean_spec.

(* "focal mean is the same with a full 3x3 window": a non-excluded cell of focal mean equals focal apply
   with the all-ones 3x3 kernel and the nanmean reducer (same window_spec as C09_apply_window_spec) *)
Theorem C09_mean_is_apply_3x3 : forall rows cols excludes data y x,
  0 < rows -> wf data rows cols -> 0 <= y < rows -> 0 <= x < cols ->
  excluded excludes (get2 None data y x) = false ->
  get2 None (mean_numpy data excludes) y x =
  calc_mean (window_spec None 0%Q is_one_q data ones33 rows cols 1 1 y x).
Proof. exact mean_is_apply_3x3. Qed.
Print Assumptions C09_mean_is_apply_3x3.

(* `passes` = iteration of the one-pass filter (0 or negative: the input itself) *)
Theorem C09_mean_passes : forall excludes data (n : nat),
  mean data (Z.of_nat n) excludes = Nat.iter n (fun d => mean_numpy d excludes) data.
Proof. exact mean_passes. Qed.
Print Assumptions C09_mean_passes.

(* an excluded cell keeps its value through any number of passes *)
Theorem C09_mean_excluded_passthrough : forall rows cols excludes, 0 < rows ->
  forall data y x (n : nat), 0 <= cols -> wf data rows cols -> 0 <= y < rows -> 0 <= x < cols ->
  excluded excludes (get2 None data y x) = true ->
  wf (mean data (Z.of_nat n) excludes) rows cols /\
  get2 None (mean data (Z.of_nat n) excludes) y x = get2 None data y x.
Proof. exact mean_excluded_passthrough. Qed.
Print Assumptions C09_mean_excluded_passthrough.

(* convolution_2d: for EVERY raster and EVERY odd kernel shape, cell (i, j) is the kernel-weighted sum over
   the FULL (2wkx+1) x (2wky+1) window (wsum: sum of kernel[a][b] * data[i+a-wkx][j+b-wky], row-major),
   and NaN exactly where the window leaves the raster ... *)
Theorem C09_conv_spec : forall data kernel nx ny wkx wky,
  0 <= wkx -> 0 <= wky -> wf data nx ny -> wf kernel (2 * wkx + 1) (2 * wky + 1) -> 0 < nx ->
  forall i j, 0 <= i < nx -> 0 <= j < ny ->
  get2 None (convolve_2d data kernel) i j =
  if (wkx <=? i) && (i <? nx - wkx) && (wky <=? j) && (j <? ny - wky)
  then wsum data kernel wkx wky i j else None.
Proof. exact conv_spec. Qed.
Print Assumptions C09_conv_spec.

(* ... or covers a NaN cell (even under a zero weight) *)
Theorem C09_conv_nan_iff : forall data kernel wkx wky i j,
  wsum data kernel wkx wky i j = None <->
  exists a b, 0 <= a < 2 * wkx + 1 /\ 0 <= b < 2 * wky + 1 /\ get2 None data (i + a - wkx) (j + b - wky) = None.
Proof. exact wsum_none. Qed.
Print Assumptions C09_conv_nan_iff.

(* ---------------- non-vacuity ---------------- *)
(* a 3 x 4 raster with a NaN, an asymmetric 3 x 5 kernel (hr = 1, hc = 2): the hypotheses hold and the
   model computes the sums of exactly the cells under the kernel (worked out by hand: the kernel selects
   the cell two to the left in the row above, the cell itself, and the cell one to the right in the row below) *)
Example C09_nonvacuous_apply :
  let data : grid xq := [[Some 1%Q; Some 2%Q; Some 3%Q; Some 4%Q];
                         [Some 5%Q; None;     Some 7%Q; Some 8%Q];
                         [Some 9%Q; Some 10%Q; Some 11%Q; Some 12%Q]] in
  let kernel : grid Q := [[1%Q; 0%Q; 0%Q; 0%Q; 0%Q]; [0%Q; 0%Q; 1%Q; 0%Q; 0%Q]; [0%Q; 0%Q; 0%Q; 1%Q; 0%Q]] in
  wf data 3 4 /\ wf kernel (2 * 1 + 1) (2 * 2 + 1) /\
  map (map qred_x) (apply_numpy None (Some 0%Q) 0%Q is_one_q calc_sum data kernel) =
  [[Some 1%Q; Some 9%Q; Some 11%Q; Some 4%Q];
   [Some 15%Q; Some 11%Q; Some 20%Q; Some 10%Q];
   [Some 9%Q; Some 10%Q; Some 16%Q; Some 12%Q]].
Proof.
  cbv zeta. split; [|split].
  - split; [reflexivity|]. intros i Hi.
    assert (i = 0 \/ i = 1 \/ i = 2) as [->|[->| ->]] by lia; reflexivity.
  - split; [reflexivity|]. intros i Hi.
    assert (i = 0 \/ i = 1 \/ i = 2) as [->|[->| ->]] by lia; reflexivity.
  - vm_compute. reflexivity.
Qed.

Example C09_nonvacuous_hotspots :
  map hot_cell [Some (3 # 1)%Q; Some (- (2 # 1))%Q; Some (17 # 10)%Q; Some (8 # 5)%Q; Some 0%Q; None]
  = [99; -95; 90; 0; 0; 0].
Proof. vm_compute. reflexivity. Qed.

Example C09_nonvacuous_custom_kernel :
  custom_kernel_ok true 3 5 = true /\ custom_kernel_ok true 4 5 = false /\ custom_kernel_ok false 3 3 = false.
Proof. repeat split. Qed.

Example C09_nonvacuous_mean_conv :
  let data : grid xq := [[Some 1%Q; Some 2%Q; Some 3%Q]; [Some 4%Q; None; Some 6%Q]; [Some 7%Q; Some 8%Q; Some 9%Q]] in
  wf data 3 3 /\
  map (map qred_x) (mean data 1 [None; Some 9%Q]) =
    [[Some (7 # 3)%Q; Some (16 # 5)%Q; Some (11 # 3)%Q]; [Some (22 # 5)%Q; None; Some (28 # 5)%Q]; [Some (19 # 3)%Q; Some (34 # 5)%Q; Some 9%Q]] /\
  map (map qred_x) (convolve_2d [[Some 1%Q; Some 2%Q; Some 3%Q]; [Some 4%Q; Some 5%Q; Some 6%Q]; [Some 7%Q; Some 8%Q; Some 9%Q]]
                                [[(1 # 2)%Q; 0%Q; 0%Q]; [0%Q; 1%Q; 0%Q]; [0%Q; 0%Q; (1 # 4)%Q]]) =
    [[None; None; None]; [None; Some (31 # 4)%Q; None]; [None; None; None]].
Proof.
  cbv zeta. split; [|split].
  - split; [reflexivity|]. intros i Hi.
    assert (i = 0 \/ i = 1 \/ i = 2) as [->|[->| ->]] by lia; reflexivity.
  - vm_compute. reflexivity.
  - vm_compute. reflexivity.
Qed.

Example C09_nonvacuous_hotspots_pipeline :
  let data : grid xq := [[Some 0%Q; Some 0%Q; Some 0%Q]; [Some 0%Q; Some 0%Q; Some 0%Q]; [Some 0%Q; Some 0%Q; Some 90%Q]] in
  hotspots_numpy (fun _ => (28 # 1)%Q) data [[1%Q]] = Some [[0; 0; 0]; [0; 0; 0]; [0; 0; 99]] /\
  hotspots_numpy (fun _ => (28 # 1)%Q) (gneg data) [[1%Q]] = Some [[0; 0; 0]; [0; 0; 0]; [0; 0; -99]].
Proof. split; vm_compute; reflexivity. Qed.
