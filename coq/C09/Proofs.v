(* C09/Proofs.v — lemmas about the window kernels of the focal model:
   2-D array updates, the generic "nested loop of conditional stores" invariant,
   and the specification of _apply_numpy (apply_window_spec). *)
Require Import Base.Prelude C09.Model.
Open Scope Z_scope.

(* ------------------------------------------------------------------ *)
(* lists                                                                *)
(* ------------------------------------------------------------------ *)
Lemma set_nth_length {A} (l : list A) n v : length (set_nth l n v) = length l.
Proof. revert n; induction l as [|a l IH]; intros [|n]; simpl; auto. Qed.

Lemma nth_set_nth {A} (d : A) l n v k :
  nth k (set_nth l n v) d = if (Nat.eqb k n && Nat.ltb n (length l))%bool then v else nth k l d.
Proof.
  revert n k; induction l as [|a l IH]; intros n k.
  - simpl. rewrite andb_false_r. reflexivity.
  - destruct n as [|n], k as [|k]; simpl; try reflexivity.
    rewrite IH. reflexivity.
Qed.

Lemma lenZ_setZ {A} (l : list A) i v : lenZ (setZ l i v) = lenZ l.
Proof. unfold setZ, lenZ. destruct (i <? 0); [reflexivity|]. now rewrite set_nth_length. Qed.

Lemma nthZ_setZ {A} (d : A) l i v k :
  nthZ d (setZ l i v) k = if (k =? i) && (0 <=? i) && (i <? lenZ l) then v else nthZ d l k.
Proof.
  unfold setZ, nthZ, lenZ.
  destruct (i <? 0) eqn:Ei.
  - destruct (k =? i) eqn:Ek; [|reflexivity].
    destruct (0 <=? i) eqn:E0; [lia|]. reflexivity.
  - destruct (k <? 0) eqn:Ek0.
    + destruct (k =? i) eqn:Ek; [lia|reflexivity].
    + rewrite nth_set_nth.
      destruct (k =? i) eqn:Ek.
      * assert (k = i) by lia; subst k. rewrite Nat.eqb_refl.
        destruct (0 <=? i) eqn:E0; [|lia]. cbn [andb].
        destruct (i <? Z.of_nat (length l)) eqn:El.
        -- assert (H : Nat.ltb (Z.to_nat i) (length l) = true) by (apply Nat.ltb_lt; lia).
           rewrite H. reflexivity.
        -- assert (H : Nat.ltb (Z.to_nat i) (length l) = false) by (apply Nat.ltb_ge; lia).
           rewrite H. reflexivity.
      * assert (H : Nat.eqb (Z.to_nat k) (Z.to_nat i) = false) by (apply Nat.eqb_neq; lia).
        rewrite H. reflexivity.
Qed.

Lemma list_ext {A} (d : A) (l1 l2 : list A) :
  lenZ l1 = lenZ l2 -> (forall i, 0 <= i < lenZ l1 -> nthZ d l1 i = nthZ d l2 i) -> l1 = l2.
Proof.
  unfold lenZ, nthZ; intros Hl H.
  apply nth_ext with (d := d) (d' := d); [lia|].
  intros n Hn. specialize (H (Z.of_nat n)).
  destruct (Z.of_nat n <? 0) eqn:E; [lia|]. rewrite Nat2Z.id in H. apply H; lia.
Qed.

Lemma nthZ_ziota s n i : 0 <= i < Z.of_nat n -> nthZ 0 (ziota s n) i = s + i.
Proof.
  revert s i; induction n as [|n IH]; intros s i Hi; [lia|].
  cbn [ziota]. destruct (Z.eq_dec i 0) as [->|Hne].
  - rewrite nthZ_cons_0. lia.
  - rewrite nthZ_cons_S by lia. rewrite IH by lia. lia.
Qed.

Lemma lenZ_ziota s n : lenZ (ziota s n) = Z.of_nat n.
Proof. unfold lenZ. now rewrite ziota_length. Qed.

Lemma lenZ_zrange a b : a <= b -> lenZ (zrange a b) = b - a.
Proof. intros; unfold zrange; rewrite lenZ_ziota; lia. Qed.

Lemma nthZ_zrange a b i : 0 <= i < b - a -> nthZ 0 (zrange a b) i = a + i.
Proof. intros; unfold zrange; apply nthZ_ziota; lia. Qed.

Lemma zrange_In a b x : In x (zrange a b) <-> a <= x < b.
Proof. unfold zrange; rewrite ziota_In; lia. Qed.

(* nthZ of a map over a range, without having to name the default of the range *)
Lemma nthZ_map_zrange {B} (f : Z -> B) (db : B) a b i :
  0 <= i < b - a -> nthZ db (map f (zrange a b)) i = f (a + i).
Proof.
  intros Hi. rewrite nthZ_map with (da := 0) by (rewrite lenZ_zrange; lia).
  now rewrite nthZ_zrange.
Qed.

Lemma nth_repeat_in {A} (d v : A) n k : (k < n)%nat -> nth k (repeat v n) d = v.
Proof. revert k; induction n as [|n IH]; intros [|k] Hk; simpl; try lia; auto. apply IH; lia. Qed.

Lemma nthZ_repeat {A} (d v : A) n i : 0 <= i < Z.of_nat n -> nthZ d (repeat v n) i = v.
Proof.
  unfold nthZ; intros. destruct (i <? 0) eqn:E; [lia|].
  apply nth_repeat_in; lia.
Qed.

Lemma lenZ_repeat {A} (v : A) n : lenZ (repeat v n) = Z.of_nat n.
Proof. unfold lenZ; now rewrite repeat_length. Qed.

(* ------------------------------------------------------------------ *)
(* grids                                                                *)
(* ------------------------------------------------------------------ *)
Definition wf {T} (g : grid T) (r c : Z) : Prop :=
  lenZ g = r /\ forall i, 0 <= i < r -> lenZ (nthZ [] g i) = c.

Lemma grid_ext {T} (d : T) (g1 g2 : grid T) r c :
  wf g1 r c -> wf g2 r c ->
  (forall i j, 0 <= i < r -> 0 <= j < c -> get2 d g1 i j = get2 d g2 i j) -> g1 = g2.
Proof.
  intros [L1 C1] [L2 C2] H.
  apply list_ext with (d := []); [lia|].
  intros i Hi. rewrite L1 in Hi.
  apply list_ext with (d := d); [rewrite C1, C2; lia|].
  intros j Hj. rewrite C1 in Hj by lia. apply H; lia.
Qed.

Lemma get2_set2 {T} (d : T) g i j v a b :
  get2 d (set2 g i j v) a b =
  if (a =? i) && (b =? j) && (0 <=? i) && (i <? lenZ g) && (0 <=? j) && (j <? lenZ (nthZ [] g i))
  then v else get2 d g a b.
Proof.
  unfold get2, set2. rewrite nthZ_setZ.
  destruct (a =? i) eqn:Ea; cbn [andb]; [|reflexivity].
  assert (a = i) by lia; subst a.
  destruct (0 <=? i) eqn:E0; cbn [andb].
  - destruct (i <? lenZ g) eqn:El; cbn [andb].
    + rewrite nthZ_setZ.
      destruct (b =? j); cbn [andb]; reflexivity.
    + destruct (b =? j); reflexivity.
  - destruct (b =? j); reflexivity.
Qed.

Lemma wf_set2 {T} (g : grid T) r c i j v : wf g r c -> wf (set2 g i j v) r c.
Proof.
  intros [L C]. unfold set2. split.
  - now rewrite lenZ_setZ.
  - intros k Hk. rewrite nthZ_setZ.
    destruct ((k =? i) && (0 <=? i) && (i <? lenZ g)) eqn:E.
    + rewrite lenZ_setZ. apply C. lia.
    + apply C; lia.
Qed.

Lemma wf_fill2 {T} (v : T) r c : 0 <= r -> 0 <= c -> wf (fill2 v r c) r c.
Proof.
  intros Hr Hc. unfold fill2. split.
  - rewrite lenZ_repeat. lia.
  - intros i Hi. rewrite nthZ_repeat by lia. rewrite lenZ_repeat. lia.
Qed.

Lemma get2_fill2 {T} (d v : T) r c i j : 0 <= i < r -> 0 <= j < c -> get2 d (fill2 v r c) i j = v.
Proof.
  intros Hi Hj. unfold get2, fill2. rewrite nthZ_repeat by lia. apply nthZ_repeat; lia.
Qed.

Lemma wf_refill {T} (v : T) g r c : wf g r c -> wf (refill v g) r c.
Proof.
  intros [L C]. unfold refill. split.
  - now rewrite lenZ_map.
  - intros i Hi. rewrite nthZ_map with (da := []) by lia. rewrite lenZ_map. now apply C.
Qed.

Lemma get2_refill {T} (d v : T) g r c i j :
  wf g r c -> 0 <= i < r -> 0 <= j < c -> get2 d (refill v g) i j = v.
Proof.
  intros [L C] Hi Hj. unfold get2, refill.
  rewrite nthZ_map with (da := []) by lia.
  rewrite nthZ_map with (da := d) by (rewrite C; lia). reflexivity.
Qed.

(* a grid given by a function of the indices *)
Definition tabulate {T} (f : Z -> Z -> T) (r c : Z) : grid T :=
  map (fun i => map (fun j => f i j) (zrange 0 c)) (zrange 0 r).

Lemma wf_tabulate {T} (f : Z -> Z -> T) r c : 0 <= r -> 0 <= c -> wf (tabulate f r c) r c.
Proof.
  intros Hr Hc; unfold tabulate; split.
  - rewrite lenZ_map, lenZ_zrange; lia.
  - intros i Hi. rewrite nthZ_map_zrange by lia. rewrite lenZ_map, lenZ_zrange; lia.
Qed.

Lemma get2_tabulate {T} (d : T) f r c i j :
  0 <= i < r -> 0 <= j < c -> get2 d (tabulate f r c) i j = f i j.
Proof.
  intros Hi Hj. unfold get2, tabulate.
  rewrite nthZ_map_zrange by lia. rewrite nthZ_map_zrange by lia.
  f_equal; lia.
Qed.

(* ------------------------------------------------------------------ *)
(* the nested loop of conditional stores                                *)
(* ------------------------------------------------------------------ *)
Section Loop2Stores.
  Context {T : Type}.
  Variable d : T.
  Variables R C : Z.
  Variable step : grid T -> Z -> Z -> grid T.
  Variables oi oj : Z.                       (* store position of iteration (ky, kx) is (ky - oi, kx - oj) *)
  Variable cnd : Z -> Z -> bool.
  Variable val : Z -> Z -> T.
  Hypothesis step_wf : forall g ky kx, wf g R C -> wf (step g ky kx) R C.
  Hypothesis step_get : forall g ky kx a b, wf g R C -> 0 <= a < R -> 0 <= b < C ->
    get2 d (step g ky kx) a b =
    if (a =? ky - oi) && (b =? kx - oj) && cnd ky kx then val ky kx else get2 d g a b.

  Lemma inner_stores ky : forall n s g, wf g R C ->
    wf (fold_left (fun g kx => step g ky kx) (ziota s n) g) R C /\
    forall a b, 0 <= a < R -> 0 <= b < C ->
      get2 d (fold_left (fun g kx => step g ky kx) (ziota s n) g) a b =
      if (a =? ky - oi) && (s <=? b + oj) && (b + oj <? s + Z.of_nat n) && cnd ky (b + oj)
      then val ky (b + oj) else get2 d g a b.
  Proof.
    induction n as [|n IH]; intros s g Hg.
    - cbn [ziota fold_left]. split; [assumption|]. intros a b Ha Hb.
      destruct (a =? ky - oi); cbn [andb]; [|reflexivity].
      destruct (s <=? b + oj) eqn:E1; cbn [andb]; [|reflexivity].
      destruct (b + oj <? s + Z.of_nat 0) eqn:E2; [lia|reflexivity].
    - cbn [ziota fold_left].
      destruct (IH (s + 1) (step g ky s) (step_wf g ky s Hg)) as [W G].
      split; [exact W|]. intros a b Ha Hb.
      rewrite G by assumption. rewrite step_get by assumption.
      destruct (a =? ky - oi) eqn:Ea; cbn [andb]; [|reflexivity].
      destruct (Z.eq_dec (b + oj) s) as [Hs|Hs].
      + (* the element just stored is not overwritten by the remaining iterations *)
        destruct (s + 1 <=? b + oj) eqn:E1; [lia|]. cbn [andb].
        destruct (b =? s - oj) eqn:E2; [|lia]. cbn [andb].
        destruct (s <=? b + oj) eqn:E3; [|lia].
        destruct (b + oj <? s + Z.of_nat (S n)) eqn:E4; [|lia]. cbn [andb].
        rewrite Hs. reflexivity.
      + destruct (b =? s - oj) eqn:E2; [lia|]. cbn [andb].
        destruct (s + 1 <=? b + oj) eqn:E1; destruct (s <=? b + oj) eqn:E3; try lia; cbn [andb]; try reflexivity.
        destruct (b + oj <? s + 1 + Z.of_nat n) eqn:E4;
          destruct (b + oj <? s + Z.of_nat (S n)) eqn:E5; try lia; reflexivity.
  Qed.

  Lemma loop2_stores (s2 : Z) (n2 : nat) : forall n1 s1 g, wf g R C ->
    wf (loop2 step (ziota s1 n1) (ziota s2 n2) g) R C /\
    forall a b, 0 <= a < R -> 0 <= b < C ->
      get2 d (loop2 step (ziota s1 n1) (ziota s2 n2) g) a b =
      if (s1 <=? a + oi) && (a + oi <? s1 + Z.of_nat n1) &&
         (s2 <=? b + oj) && (b + oj <? s2 + Z.of_nat n2) && cnd (a + oi) (b + oj)
      then val (a + oi) (b + oj) else get2 d g a b.
  Proof.
    unfold loop2.
    induction n1 as [|n1 IH]; intros s1 g Hg.
    - cbn [ziota fold_left]. split; [assumption|]. intros a b Ha Hb.
      destruct (s1 <=? a + oi) eqn:E1; cbn [andb]; [|reflexivity].
      destruct (a + oi <? s1 + Z.of_nat 0) eqn:E2; [lia|reflexivity].
    - cbn [ziota fold_left].
      destruct (inner_stores s1 n2 s2 g Hg) as [W1 G1].
      destruct (IH (s1 + 1) _ W1) as [W G].
      split; [exact W|]. intros a b Ha Hb.
      rewrite G by assumption. rewrite G1 by assumption.
      destruct (Z.eq_dec (a + oi) s1) as [Hs|Hs].
      + destruct (s1 + 1 <=? a + oi) eqn:E1; [lia|]. cbn [andb].
        destruct (a =? s1 - oi) eqn:E2; [|lia]. cbn [andb].
        destruct (s1 <=? a + oi) eqn:E3; [|lia].
        destruct (a + oi <? s1 + Z.of_nat (S n1)) eqn:E4; [|lia]. cbn [andb].
        rewrite Hs. reflexivity.
      + destruct (a =? s1 - oi) eqn:E2; [lia|]. cbn [andb].
        destruct (s1 + 1 <=? a + oi) eqn:E1; destruct (s1 <=? a + oi) eqn:E3; try lia; cbn [andb]; try reflexivity.
        destruct (a + oi <? s1 + 1 + Z.of_nat n1) eqn:E4;
          destruct (a + oi <? s1 + Z.of_nat (S n1)) eqn:E5; try lia; reflexivity.
  Qed.
End Loop2Stores.

(* a fold that threads a state and appends one output per element *)
Lemma fold_snoc_spec {S A B} (f : S -> A -> S) (g : S -> B) (P : S -> Prop) (spec : A -> B) :
  forall xs : list A,
  (forall s a, P s -> In a xs -> P (f s a) /\ g (f s a) = spec a) ->
  forall s acc, P s ->
    P (fst (fold_left (fun st x => (f (fst st) x, snd st ++ [g (f (fst st) x)])) xs (s, acc))) /\
    snd (fold_left (fun st x => (f (fst st) x, snd st ++ [g (f (fst st) x)])) xs (s, acc)) = acc ++ map spec xs.
Proof.
  induction xs as [|x xs IH]; intros H s acc Ps.
  - cbn. split; [assumption|]. now rewrite app_nil_r.
  - cbn [fold_left fst snd map].
    destruct (H s x Ps (or_introl eq_refl)) as [Ps' Hg].
    destruct (IH (fun s a Hs Ha => H s a Hs (or_intror Ha)) (f s x) (acc ++ [g (f s x)]) Ps') as [P' E].
    split; [exact P'|]. rewrite E, Hg, <- app_assoc. reflexivity.
Qed.

(* ------------------------------------------------------------------ *)
(* _apply_numpy                                                         *)
(* ------------------------------------------------------------------ *)
Section ApplySpec.
  Context {T K : Type}.
  Variable nan : T.
  Variable zero : T.
  Variable kd : K.
  Variable is_one : K -> bool.
  Variable func : grid T -> T.

  (* the property's window: W[i][j] = data[y+i-hr][x+j-hc] if that position is inside the raster
     and kernel[i][j] = 1, else NaN *)
  Definition window_spec (data : grid T) (kernel : grid K) (rows cols hr hc y x : Z) : grid T :=
    tabulate (fun i j =>
                let yy := y + i - hr in
                let xx := x + j - hc in
                if (0 <=? yy) && (yy <? rows) && (0 <=? xx) && (xx <? cols) && is_one (get2 kd kernel i j)
                then get2 nan data yy xx else nan)
             (2 * hr + 1) (2 * hc + 1).

  Variables (data : grid T) (kernel : grid K) (rows cols hr hc : Z).
  Hypothesis Hhr : 0 <= hr.
  Hypothesis Hhc : 0 <= hc.

  Let R := 2 * hr + 1.
  Let C := 2 * hc + 1.

  Lemma apply_step_wf y x g ky kx :
    wf g R C -> wf (apply_step nan kd is_one data kernel rows cols hr hc y x g ky kx) R C.
  Proof.
    intros Hg. unfold apply_step.
    destruct ((ky >=? 0) && (ky <? rows) && (kx >=? 0) && (kx <? cols)); [|assumption].
    cbv zeta. destruct (is_one _); [|assumption]. now apply wf_set2.
  Qed.

  Lemma apply_step_get y x g ky kx a b :
    wf g R C -> 0 <= a < R -> 0 <= b < C ->
    get2 nan (apply_step nan kd is_one data kernel rows cols hr hc y x g ky kx) a b =
    if (a =? ky - (y - hr)) && (b =? kx - (x - hc)) &&
       ((ky >=? 0) && (ky <? rows) && (kx >=? 0) && (kx <? cols) &&
        is_one (get2 kd kernel (ky - (y - hr)) (kx - (x - hc))))
    then get2 nan data ky kx else get2 nan g a b.
  Proof.
    intros [L Cc] Ha Hb. unfold apply_step.
    destruct ((ky >=? 0) && (ky <? rows) && (kx >=? 0) && (kx <? cols)) eqn:Eg; cbn [andb].
    - cbv zeta. destruct (is_one (get2 kd kernel (ky - (y - hr)) (kx - (x - hc)))) eqn:E1.
      + rewrite get2_set2.
        destruct (a =? ky - (y - hr)) eqn:Ea; cbn [andb]; [|reflexivity].
        destruct (b =? kx - (x - hc)) eqn:Eb; cbn [andb]; [|reflexivity].
        assert (a = ky - (y - hr)) by lia. assert (b = kx - (x - hc)) by lia.
        destruct (0 <=? ky - (y - hr)) eqn:E2; [|lia].
        destruct (ky - (y - hr) <? lenZ g) eqn:E3; [|lia].
        destruct (0 <=? kx - (x - hc)) eqn:E4; [|lia].
        rewrite Cc by lia.
        destruct (kx - (x - hc) <? C) eqn:E5; [|lia]. reflexivity.
      + rewrite !andb_false_r. reflexivity.
    - rewrite !andb_false_r. reflexivity.
  Qed.

  (* the scratch buffer handed to the reducer is exactly the property's window,
     whatever the buffer contained before *)
  Lemma apply_window_eq kv y x :
    wf kv R C ->
    apply_window nan kd is_one data kernel rows cols hr hc kv y x =
    window_spec data kernel rows cols hr hc y x.
  Proof.
    intros Hkv. unfold apply_window, zrange.
    pose proof (wf_refill nan kv R C Hkv) as Hre.
    destruct (loop2_stores nan R C
                (apply_step nan kd is_one data kernel rows cols hr hc y x)
                (y - hr) (x - hc)
                (fun ky kx => (ky >=? 0) && (ky <? rows) && (kx >=? 0) && (kx <? cols) &&
                              is_one (get2 kd kernel (ky - (y - hr)) (kx - (x - hc))))
                (fun ky kx => get2 nan data ky kx)
                (apply_step_wf y x) (apply_step_get y x)
                (x - hc) (Z.to_nat (x + hc + 1 - (x - hc)))
                (Z.to_nat (y + hr + 1 - (y - hr))) (y - hr) _ Hre) as [W G].
    apply grid_ext with (d := nan) (r := R) (c := C); [exact W| apply wf_tabulate; subst R C; lia |].
    intros i j Hi Hj. rewrite G by assumption.
    unfold window_spec. rewrite get2_tabulate by (subst R C; lia). cbv zeta.
    rewrite (get2_refill nan nan kv R C) by assumption.
    subst R C.
    destruct (y - hr <=? i + (y - hr)) eqn:E1; [|lia].
    destruct (i + (y - hr) <? y - hr + Z.of_nat (Z.to_nat (y + hr + 1 - (y - hr)))) eqn:E2; [|lia].
    destruct (x - hc <=? j + (x - hc)) eqn:E3; [|lia].
    destruct (j + (x - hc) <? x - hc + Z.of_nat (Z.to_nat (x + hc + 1 - (x - hc)))) eqn:E4; [|lia].
    cbn [andb].
    replace (i + (y - hr) - (y - hr)) with i by lia.
    replace (j + (x - hc) - (x - hc)) with j by lia.
    replace (i + (y - hr)) with (y + i - hr) by lia.
    replace (j + (x - hc)) with (x + j - hc) by lia.
    destruct (is_one (get2 kd kernel i j)); rewrite ?andb_true_r, ?andb_false_r; [|reflexivity].
    destruct (y + i - hr >=? 0) eqn:F1; destruct (0 <=? y + i - hr) eqn:F2; try lia; cbn [andb]; [|reflexivity].
    destruct (y + i - hr <? rows); cbn [andb]; [|reflexivity].
    destruct (x + j - hc >=? 0) eqn:F3; destruct (0 <=? x + j - hc) eqn:F4; try lia; reflexivity.
  Qed.

  Hypothesis Hdata : wf data rows cols.
  Hypothesis Hkernel : wf kernel R C.
  Hypothesis Hrows : 0 < rows.

  Lemma shape_facts :
    nrows data = rows /\ ncols data = cols /\ nrows kernel = R /\ ncols kernel = C /\
    nrows kernel / 2 = hr /\ ncols kernel / 2 = hc.
  Proof.
    destruct Hdata as [L1 C1], Hkernel as [L2 C2]. unfold nrows, ncols.
    rewrite L1, L2, C1, C2 by (subst R C; lia). subst R C.
    repeat split; lia.
  Qed.

  Lemma apply_numpy_spec :
    apply_numpy nan zero kd is_one func data kernel =
    tabulate (fun y x => func (window_spec data kernel rows cols hr hc y x)) rows cols.
  Proof.
    destruct shape_facts as (E1 & E2 & E3 & E4 & E5 & E6).
    unfold apply_numpy. rewrite E1, E2, E3, E4.
    replace (R / 2) with hr by (subst R; lia). replace (C / 2) with hc by (subst C; lia).
    assert (W0 : wf (fill2 zero R C) R C) by (apply wf_fill2; subst R C; lia).
    (* rows *)
    assert (Hrow : forall kv y, wf kv R C ->
      wf (fst (apply_row nan kd is_one func data kernel rows cols hr hc kv y)) R C /\
      snd (apply_row nan kd is_one func data kernel rows cols hr hc kv y) =
      map (fun x => func (window_spec data kernel rows cols hr hc y x)) (zrange 0 cols)).
    { intros kv y Hkv. unfold apply_row.
      destruct (fold_snoc_spec
        (fun kv x => apply_window nan kd is_one data kernel rows cols hr hc kv y x)
        func (fun kv => wf kv R C)
        (fun x => func (window_spec data kernel rows cols hr hc y x))
        (zrange 0 cols)) with (s := kv) (acc := @nil T) as [P E].
      - intros s a Hs _. rewrite apply_window_eq by assumption. split; [|reflexivity].
        apply wf_tabulate; subst R C; lia.
      - assumption.
      - split; [exact P|exact E]. }
    set (F := fun (st : grid T * list (list T)) (y : Z) =>
                (fst (apply_row nan kd is_one func data kernel rows cols hr hc (fst st) y),
                 snd st ++ [snd (apply_row nan kd is_one func data kernel rows cols hr hc (fst st) y)])).
    match goal with |- snd (fold_left ?f ?l ?i) = ?rhs => change (snd (fold_left F l i) = rhs) end.
    (* the row fold is an instance of fold_snoc_spec where the output depends on the state BEFORE the step;
       handle it by a direct induction *)
    assert (Hall : forall ys kv acc, wf kv R C ->
      wf (fst (fold_left F ys (kv, acc))) R C /\
      snd (fold_left F ys (kv, acc)) =
      acc ++ map (fun y => map (fun x => func (window_spec data kernel rows cols hr hc y x)) (zrange 0 cols)) ys).
    { induction ys as [|y ys IH]; intros kv acc Hkv.
      - cbn. split; [assumption|now rewrite app_nil_r].
      - cbn [fold_left map].
        destruct (Hrow kv y Hkv) as [Wk Ek].
        replace (F (kv, acc) y) with
          (fst (apply_row nan kd is_one func data kernel rows cols hr hc kv y),
           acc ++ [map (fun x => func (window_spec data kernel rows cols hr hc y x)) (zrange 0 cols)])
          by (unfold F; cbn [fst snd]; rewrite Ek; reflexivity).
        destruct (IH _ (acc ++ [map (fun x => func (window_spec data kernel rows cols hr hc y x)) (zrange 0 cols)]) Wk) as [W' E'].
        split; [exact W'|]. rewrite E', <- app_assoc. reflexivity. }
    destruct (Hall (zrange 0 rows) (fill2 zero R C) [] W0) as [_ E].
    rewrite E. reflexivity.
  Qed.

  (* out[y][x] = func W  — the statement of the property for focal apply *)
  Theorem apply_window_spec : forall y x, 0 <= y < rows -> 0 <= x < cols ->
    get2 nan (apply_numpy nan zero kd is_one func data kernel) y x =
    func (window_spec data kernel rows cols hr hc y x).
  Proof.
    intros y x Hy Hx. rewrite apply_numpy_spec. now rewrite get2_tabulate.
  Qed.

  Lemma apply_numpy_wf : 0 <= cols -> wf (apply_numpy nan zero kd is_one func data kernel) rows cols.
  Proof. intros. rewrite apply_numpy_spec. apply wf_tabulate; lia. Qed.
End ApplySpec.
