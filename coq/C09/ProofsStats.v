(* C09/ProofsStats.v — focal_stats layers, nan-ignoring reducers, custom_kernel,
   the hotspot ladder. *)
Require Import Base.Prelude C09.Generated C09.Model C09.Proofs.
From Coq Require Import QArith Qabs Lqa.
Open Scope Z_scope.

(* ------------------------------------------------------------------ *)
(* custom_kernel                                                        *)
(* ------------------------------------------------------------------ *)
Lemma custom_kernel_spec nd rows cols :
  custom_kernel_ok nd rows cols = true <-> nd = true /\ Z.odd rows = true /\ Z.odd cols = true.
Proof.
  unfold custom_kernel_ok. rewrite !Zodd_mod.
  destruct nd; cbn [negb]; [|intuition congruence].
  destruct (rows mod 2 =? 0) eqn:E1; destruct (cols mod 2 =? 0) eqn:E2; cbn [orb];
    split; try discriminate; try (intros (_ & H1 & H2); apply Zeq_bool_eq in H1, H2; lia).
  intros _. repeat split; apply Zeq_is_eq_bool; lia.
Qed.

Lemma custom_kernel_rejects_even nd rows cols :
  Z.even rows = true \/ Z.even cols = true -> custom_kernel_ok nd rows cols = false.
Proof.
  intros H. destruct (custom_kernel_ok nd rows cols) eqn:E; [|reflexivity].
  apply custom_kernel_spec in E. destruct E as (_ & H1 & H2).
  rewrite <- Z.negb_even in H1, H2. destruct H as [H|H]; rewrite H in *; discriminate.
Qed.

Lemma custom_kernel_odd hr hc : 0 <= hr -> 0 <= hc -> custom_kernel_ok true (2 * hr + 1) (2 * hc + 1) = true.
Proof.
  intros. apply custom_kernel_spec. repeat split.
  - rewrite Z.add_comm. rewrite Z.odd_add_mul_2. reflexivity.
  - rewrite Z.add_comm. rewrite Z.odd_add_mul_2. reflexivity.
Qed.

(* ------------------------------------------------------------------ *)
(* focal.apply and focal_stats                                          *)
(* ------------------------------------------------------------------ *)
Section FocalStats.
  Variable qsqrt : Q -> Q.

  (* the reducer the documentation promises for each statistic name (hand-written expectation;
     the table of the source is in Generated.function_mapping) *)
  Definition named_reducer (s : stat_name) : grid xq -> xq :=
    match s with
    | S_mean => calc_mean | S_max => calc_max | S_min => calc_min | S_range => calc_range
    | S_std => calc_std qsqrt | S_var => calc_var | S_sum => calc_sum
    end.

  Lemma lookup_named s : exists p, lookup s function_mapping = Some p /\ reducer_of qsqrt p = named_reducer s.
  Proof. destruct s; eexists; (split; [vm_compute; reflexivity|reflexivity]). Qed.

  Variables (data : grid xq) (kernel : grid Q) (rows cols hr hc : Z).
  Hypothesis Hhr : 0 <= hr.
  Hypothesis Hhc : 0 <= hc.
  Hypothesis Hdata : wf data rows cols.
  Hypothesis Hkernel : wf kernel (2 * hr + 1) (2 * hc + 1).
  Hypothesis Hrows : 0 < rows.

  Lemma kernel_accepted : custom_kernel_ok true (nrows kernel) (ncols kernel) = true.
  Proof.
    destruct Hkernel as [L C]. unfold nrows, ncols. rewrite L, C by lia. now apply custom_kernel_odd.
  Qed.

  Lemma focal_apply_spec {T} (nan zero : T) func (d : grid T) :
    wf d rows cols ->
    focal_apply nan zero 0%Q is_one_q func d kernel =
    Some (tabulate (fun y x => func (window_spec nan 0%Q is_one_q d kernel rows cols hr hc y x)) rows cols).
  Proof.
    intros Hd. unfold focal_apply. rewrite kernel_accepted.
    rewrite (apply_numpy_spec nan zero 0%Q is_one_q func d kernel rows cols hr hc) by assumption.
    reflexivity.
  Qed.

  (* layer k of focal_stats is apply with the reducer named by stats_funcs[k] *)
  Lemma focal_stats_spec : forall stats,
    focal_stats qsqrt data kernel stats =
    Some (map (fun s => tabulate (fun y x =>
                 named_reducer s (window_spec None 0%Q is_one_q data kernel rows cols hr hc y x)) rows cols) stats).
  Proof.
    intros stats. unfold focal_stats. rewrite kernel_accepted.
    induction stats as [|s stats IH]; [reflexivity|].
    cbn [focal_stats_cpu map].
    destruct (lookup_named s) as (p & Hl & Hr). rewrite Hl.
    rewrite focal_apply_spec by assumption. rewrite IH, Hr. reflexivity.
  Qed.
End FocalStats.

(* ------------------------------------------------------------------ *)
(* nan-ignoring reducers see exactly the non-NaN cells under the kernel *)
(* ------------------------------------------------------------------ *)
Lemma somes_app {A} (l1 l2 : list (option A)) : somes (l1 ++ l2) = somes l1 ++ somes l2.
Proof. induction l1 as [|[a|] l1 IH]; simpl; congruence. Qed.

Lemma somes_concat_map {A B} (f : B -> list (option A)) l :
  somes (concat (map f l)) = concat (map (fun b => somes (f b)) l).
Proof. induction l as [|b l IH]; simpl; [reflexivity|]. now rewrite somes_app, IH. Qed.

Lemma somes_cond_map {A B} (c : B -> bool) (f : B -> option A) l :
  somes (map (fun j => if c j then f j else None) l) =
  somes (concat (map (fun j => if c j then [f j] else []) l)).
Proof.
  induction l as [|b l IH]; simpl; [reflexivity|].
  destruct (c b); simpl; [destruct (f b)|]; now rewrite IH.
Qed.

(* the cells under the 1-entries of the kernel centred on (y, x), clipped at the raster edge, row-major *)
Definition cells_under (data : grid xq) (kernel : grid Q) (rows cols hr hc y x : Z) : list xq :=
  concat (map (fun i => concat (map (fun j =>
      let yy := y + i - hr in
      let xx := x + j - hc in
      if (0 <=? yy) && (yy <? rows) && (0 <=? xx) && (xx <? cols) && is_one_q (get2 0%Q kernel i j)
      then [get2 None data yy xx] else []) (zrange 0 (2 * hc + 1)))) (zrange 0 (2 * hr + 1))).

Lemma wvals_window data kernel rows cols hr hc y x :
  wvals (window_spec None 0%Q is_one_q data kernel rows cols hr hc y x) =
  somes (cells_under data kernel rows cols hr hc y x).
Proof.
  unfold wvals, window_spec, tabulate, cells_under, xq.
  rewrite !somes_concat_map.
  f_equal. apply map_ext. intros i. cbv zeta.
  apply (somes_cond_map
           (fun j => (0 <=? y + i - hr) && (y + i - hr <? rows) && (0 <=? x + j - hc) && (x + j - hc <? cols) &&
                     is_one_q (get2 0%Q kernel i j))
           (fun j => get2 None data (y + i - hr) (x + j - hc))).
Qed.

(* ---- comparisons on Q ---- *)
Lemma qltb_lt a b : qltb a b = true <-> (a < b)%Q.
Proof. unfold qltb, Qlt. apply Z.ltb_lt. Qed.
Lemma qltb_nlt a b : qltb a b = false <-> (b <= a)%Q.
Proof. unfold qltb, Qle. rewrite Z.ltb_ge. reflexivity. Qed.
Lemma qleb_le a b : qleb a b = true <-> (a <= b)%Q.
Proof. unfold qleb, Qle. apply Z.leb_le. Qed.
Lemma qleb_nle a b : qleb a b = false <-> (b < a)%Q.
Proof. unfold qleb, Qlt. rewrite Z.leb_gt. reflexivity. Qed.

(* ---- nanmin / nanmax as written in Numba = minimum / maximum of the non-NaN cells ---- *)
Section MinMax.
  Variable op : Q -> Q -> bool.                 (* qltb for min, flipped for max *)
  Let xop (a b : xq) : bool := match a, b with Some x, Some y => op x y | _, _ => false end.
  Let G (m v : Q) : Q := if negb (op m v) then v else m.
  Let F (r v : xq) : xq := match v with None => r | Some _ => if negb (xop r v) then v else r end.

  Lemma fold_F_some rest m : fold_left F rest (Some m) = Some (fold_left G (somes rest) m).
  Proof.
    revert m; induction rest as [|[v|] rest IH]; intros m; cbn [fold_left somes]; [reflexivity| |apply IH].
    unfold F at 2. cbn [xop]. unfold G at 2. destruct (negb (op m v)); apply IH.
  Qed.

  Lemma fold_F_none rest :
    fold_left F rest None = match somes rest with [] => None | q :: r => Some (fold_left G r q) end.
  Proof.
    induction rest as [|[v|] rest IH]; cbn [fold_left somes]; [reflexivity| |exact IH].
    unfold F at 2. cbn [xop negb]. apply fold_F_some.
  Qed.

  Lemma nan_min_max_somes flat :
    nan_min_max xop flat = match somes flat with [] => None | q :: r => Some (fold_left G r q) end.
  Proof.
    unfold nan_min_max. destruct flat as [|[q|] rest]; [reflexivity| |].
    - cbn [somes]. apply fold_F_some.
    - cbn [somes]. apply fold_F_none.
  Qed.
End MinMax.

Lemma calc_min_somes w :
  calc_min w = match wvals w with [] => None
               | q :: r => Some (fold_left (fun m v => if negb (qltb m v) then v else m) r q) end.
Proof. unfold calc_min, wvals. apply (nan_min_max_somes qltb). Qed.

Lemma calc_max_somes w :
  calc_max w = match wvals w with [] => None
               | q :: r => Some (fold_left (fun m v => if negb (qltb v m) then v else m) r q) end.
Proof. unfold calc_max, wvals. apply (nan_min_max_somes (fun a b => qltb b a)). Qed.

(* the running minimum is a lower bound and a member *)
Lemma fold_min_spec r : forall q,
  let m := fold_left (fun m v => if negb (qltb m v) then v else m) r q in
  In m (q :: r) /\ forall v, In v (q :: r) -> (m <= v)%Q.
Proof.
  induction r as [|a r IH]; intros q; cbn [fold_left].
  - split; [left; reflexivity|]. intros v [<-|[]]. apply Qle_refl.
  - destruct (qltb q a) eqn:E; cbn [negb].
    + destruct (IH q) as [Hin Hle]. split.
      * destruct Hin as [H|H]; [left; exact H|right; right; exact H].
      * intros v [<-|[<-|Hv]].
        -- apply Hle; left; reflexivity.
        -- apply Qle_trans with q; [apply Hle; left; reflexivity|]. apply qltb_lt in E. now apply Qlt_le_weak.
        -- apply Hle; right; exact Hv.
    + destruct (IH a) as [Hin Hle]. split.
      * right. exact Hin.
      * intros v [<-|[<-|Hv]].
        -- apply Qle_trans with a; [apply Hle; left; reflexivity|]. now apply qltb_nlt in E.
        -- apply Hle; left; reflexivity.
        -- apply Hle; right; exact Hv.
Qed.

Lemma fold_max_spec r : forall q,
  let m := fold_left (fun m v => if negb (qltb v m) then v else m) r q in
  In m (q :: r) /\ forall v, In v (q :: r) -> (v <= m)%Q.
Proof.
  induction r as [|a r IH]; intros q; cbn [fold_left].
  - split; [left; reflexivity|]. intros v [<-|[]]. apply Qle_refl.
  - destruct (qltb a q) eqn:E; cbn [negb].
    + destruct (IH q) as [Hin Hle]. split.
      * destruct Hin as [H|H]; [left; exact H|right; right; exact H].
      * intros v [<-|[<-|Hv]].
        -- apply Hle; left; reflexivity.
        -- apply Qle_trans with q; [|apply Hle; left; reflexivity]. apply qltb_lt in E. now apply Qlt_le_weak.
        -- apply Hle; right; exact Hv.
    + destruct (IH a) as [Hin Hle]. split.
      * right. exact Hin.
      * intros v [<-|[<-|Hv]].
        -- apply Qle_trans with a; [|apply Hle; left; reflexivity]. now apply qltb_nlt in E.
        -- apply Hle; left; reflexivity.
        -- apply Hle; right; exact Hv.
Qed.

(* ------------------------------------------------------------------ *)
(* the hotspot ladder                                                   *)
(* ------------------------------------------------------------------ *)
(* the doubles nearest to 1.65, 1.96, 2.58 (hand-written from the property text) *)
Definition T90 : Q := 3715469692580659 # 2251799813685248.
Definition T95 : Q := 2206763817411543 # 1125899906842624.
Definition T99 : Q := 1452410879826985 # 562949953421312.

Definition qsgn (z : Q) : Z := if qltb 0 z then 1 else if qltb z 0 then -1 else 0.

Lemma hot_cell_values z :
  In (hot_cell z) [0; 90; 95; 99; -90; -95; -99].
Proof.
  destruct z as [z|]; [|left; reflexivity].
  unfold hot_cell, conf_ladder. cbn [conf_of].
  repeat match goal with |- context [if ?b then _ else _] =>
    match b with
    | andb _ _ => destruct b
    | qltb 0 z => destruct b
    | qltb z 0 => destruct b
    end end; cbn; tauto.
Qed.

Ltac q2prop :=
  repeat match goal with
         | H : qltb _ _ = true |- _ => apply qltb_lt in H
         | H : qltb _ _ = false |- _ => apply qltb_nlt in H
         | H : qleb _ _ = true |- _ => apply qleb_le in H
         | H : qleb _ _ = false |- _ => apply qleb_nle in H
         end.

(* confidence as a function of |z| alone: the p-value ladder of the source never changes the outcome *)
Lemma hot_cell_ladder z :
  hot_cell (Some z) =
  qsgn z * (if qltb T99 (Qabs z) then 99 else if qltb T95 (Qabs z) then 95 else if qltb T90 (Qabs z) then 90 else 0).
Proof.
  unfold hot_cell, qsgn. f_equal.
  unfold p_ladder, conf_ladder, T99, T95, T90. cbn [p_of conf_of].
  set (a := Qabs z).
  destruct (qltb (1452410879826985 # 562949953421312) a) eqn:E99;
  destruct (qltb (2206763817411543 # 1125899906842624) a) eqn:E95;
  destruct (qltb (3715469692580659 # 2251799813685248) a) eqn:E90;
  destruct (qleb (1311673391471657 # 562949953421312) a) eqn:P1;
  destruct (qleb (3715469692580659 # 2251799813685248) a) eqn:P2;
  destruct (qleb (1452410879826985 # 1125899906842624) a) eqn:P3;
  cbn [andb]; try reflexivity; q2prop; try (exfalso; lra).
Qed.

Lemma Qabs_opp_eq z : Qabs (- z) = Qabs z.
Proof. destruct z as [n d]. unfold Qabs, Qopp. cbn. now rewrite Z.abs_opp. Qed.

Lemma qsgn_opp z : qsgn (- z) = - qsgn z.
Proof.
  unfold qsgn, qltb. destruct z as [n d]. cbn [Qopp Qnum Qden].
  destruct (0 * Z.pos d <? - n * 1) eqn:E1; destruct (- n * 1 <? 0 * Z.pos d) eqn:E2;
    destruct (0 * Z.pos d <? n * 1) eqn:E3; destruct (n * 1 <? 0 * Z.pos d) eqn:E4; lia.
Qed.

Definition xopp (v : xq) : xq := match v with Some q => Some (- q)%Q | None => None end.

Lemma hot_cell_opp z : hot_cell (xopp z) = - hot_cell z.
Proof.
  destruct z as [z|]; [|reflexivity]. cbn [xopp].
  rewrite !hot_cell_ladder, Qabs_opp_eq, qsgn_opp. lia.
Qed.

Lemma calc_hotspots_opp zs :
  calc_hotspots (map (map xopp) zs) = map (map Z.opp) (calc_hotspots zs).
Proof.
  unfold calc_hotspots. rewrite !map_map. apply map_ext. intros row.
  rewrite !map_map. apply map_ext. intros z. apply hot_cell_opp.
Qed.
