(* C09/ProofsStats.v — focal_stats layers (every arithmetic instance), nan-ignoring reducers,
   custom_kernel, the hotspot ladder (exact instance). *)
Require Import Base.Prelude C09.Generated C09.Arith C09.Model C09.Proofs.
From Coq Require Import QArith Qabs Lqa.
Open Scope Z_scope.

(* ------------------------------------------------------------------ *)
(* custom_kernel                                                        *)
(* ------------------------------------------------------------------ *)
Lemma custom_kernel_spec nd rows cols :
  custom_kernel_ok nd rows cols = true <-> nd = true /\ Z.odd rows = true /\ Z.odd cols = true.
Proof.
  unfold custom_kernel_ok. rewrite !Zodd_mod.
  destruct nd; cbn [negb]; [|intuition congruence].
  destruct (rows mod 2 =? 0) eqn:E1; destruct (cols mod 2 =? 0) eqn:E2; cbn [orb];
    split; try discriminate; try (intros (_ & H1 & H2); apply Zeq_bool_eq in H1, H2; lia).
  intros _. repeat split; apply Zeq_is_eq_bool; lia.
Qed.

Lemma custom_kernel_rejects_even nd rows cols :
  Z.even rows = true \/ Z.even cols = true -> custom_kernel_ok nd rows cols = false.
Proof.
  intros H. destruct (custom_kernel_ok nd rows cols) eqn:E; [|reflexivity].
  apply custom_kernel_spec in E. destruct E as (_ & H1 & H2).
  rewrite <- Z.negb_even in H1, H2. destruct H as [H|H]; rewrite H in *; discriminate.
Qed.

Lemma custom_kernel_odd hr hc : 0 <= hr -> 0 <= hc -> custom_kernel_ok true (2 * hr + 1) (2 * hc + 1) = true.
Proof.
  intros. apply custom_kernel_spec. repeat split.
  - rewrite Z.add_comm. rewrite Z.odd_add_mul_2. reflexivity.
  - rewrite Z.add_comm. rewrite Z.odd_add_mul_2. reflexivity.
Qed.

(* ------------------------------------------------------------------ *)
(* focal.apply and focal_stats                                          *)
(* ------------------------------------------------------------------ *)
Section FocalStats.
  Variable A : Arith.

  (* the reducer the documentation promises for each statistic name (hand-written expectation;
     the table of the source is in Generated.function_mapping), followed by the store into the float32 output *)
  Definition named_reducer (s : stat_name) : grid (T32 A) -> T32 A :=
    match s with
    | S_mean => fun w => narrow A (calc_mean A w)
    | S_max => calc_max A | S_min => calc_min A | S_range => calc_range A
    | S_std => fun w => narrow A (calc_std A w)
    | S_var => fun w => narrow A (calc_var A w)
    | S_sum => calc_sum A
    end.

  Lemma lookup_named s : exists p, lookup s function_mapping = Some p /\ reducer_of A p = named_reducer s.
  Proof. destruct s; eexists; (split; [vm_compute; reflexivity|reflexivity]). Qed.

  Variables (data : grid (T32 A)) (kernel : grid (T64 A)) (rows cols hr hc : Z).
  Hypothesis Hhr : 0 <= hr.
  Hypothesis Hhc : 0 <= hc.
  Hypothesis Hdata : wf data rows cols.
  Hypothesis Hkernel : wf kernel (2 * hr + 1) (2 * hc + 1).
  Hypothesis Hrows : 0 < rows.

  Lemma kernel_accepted : custom_kernel_ok true (nrows kernel) (ncols kernel) = true.
  Proof.
    destruct Hkernel as [L C]. unfold nrows, ncols. rewrite L, C by lia. now apply custom_kernel_odd.
  Qed.

  Lemma focal_apply_spec func :
    focal_apply_A A func data kernel =
    Some (tabulate (fun y x => func (window_spec (snan A) (dnan A) (is_one A) data kernel rows cols hr hc y x)) rows cols).
  Proof.
    unfold focal_apply_A, focal_apply. rewrite kernel_accepted.
    rewrite (apply_numpy_spec (snan A) (szero A) (dnan A) (is_one A) func data kernel rows cols hr hc) by assumption.
    reflexivity.
  Qed.

  (* layer k of focal_stats is apply with the reducer named by stats_funcs[k] *)
  Lemma focal_stats_spec : forall stats,
    focal_stats A data kernel stats =
    Some (map (fun s => tabulate (fun y x =>
                 named_reducer s (window_spec (snan A) (dnan A) (is_one A) data kernel rows cols hr hc y x)) rows cols) stats).
  Proof.
    intros stats. unfold focal_stats. rewrite kernel_accepted.
    induction stats as [|s stats IH]; [reflexivity|].
    cbn [focal_stats_cpu map].
    destruct (lookup_named s) as (p & Hl & Hr). rewrite Hl.
    rewrite focal_apply_spec. rewrite IH, Hr. reflexivity.
  Qed.
End FocalStats.

(* ------------------------------------------------------------------ *)
(* nan-ignoring reducers see exactly the non-NaN cells under the kernel *)
(* (every cell type, every NaN test that recognises the fill value)     *)
(* ------------------------------------------------------------------ *)
Definition valid {T} (isn : T -> bool) (l : list T) : list T := filter (fun v => negb (isn v)) l.

Lemma filter_concat {T} (f : T -> bool) (l : list (list T)) : filter f (concat l) = concat (map (filter f) l).
Proof. induction l as [|a l IH]; cbn; [reflexivity|]. now rewrite filter_app, IH. Qed.

Lemma valid_cond_map {T B} (isn : T -> bool) (nan : T) (c : B -> bool) (f : B -> T) l :
  isn nan = true ->
  valid isn (map (fun j => if c j then f j else nan) l) =
  valid isn (concat (map (fun j => if c j then [f j] else []) l)).
Proof.
  intros Hn. unfold valid. induction l as [|b l IH]; cbn [map concat filter]; [reflexivity|].
  destruct (c b); cbn [app filter].
  - destruct (negb (isn (f b))); now rewrite IH.
  - rewrite Hn. cbn [negb]. exact IH.
Qed.

(* the cells under the 1-entries of the kernel centred on (y, x), clipped at the raster edge, row-major *)
Definition cells_under {T K} (nan : T) (kd : K) (is_one : K -> bool) (data : grid T) (kernel : grid K)
           (rows cols hr hc y x : Z) : list T :=
  concat (map (fun i => concat (map (fun j =>
      let yy := y + i - hr in
      let xx := x + j - hc in
      if (0 <=? yy) && (yy <? rows) && (0 <=? xx) && (xx <? cols) && is_one (get2 kd kernel i j)
      then [get2 nan data yy xx] else []) (zrange 0 (2 * hc + 1)))) (zrange 0 (2 * hr + 1))).

Lemma window_valid {T K} (isn : T -> bool) (nan : T) (kd : K) (is_one : K -> bool) data kernel rows cols hr hc y x :
  isn nan = true ->
  valid isn (concat (window_spec nan kd is_one data kernel rows cols hr hc y x)) =
  valid isn (cells_under nan kd is_one data kernel rows cols hr hc y x).
Proof.
  intros Hn. unfold window_spec, tabulate, cells_under, valid.
  rewrite !filter_concat, !map_map. f_equal. apply map_ext. intros i. cbv zeta.
  apply (valid_cond_map isn nan
           (fun j => (0 <=? y + i - hr) && (y + i - hr <? rows) && (0 <=? x + j - hc) && (x + j - hc <? cols) &&
                     is_one (get2 kd kernel i j))
           (fun j => get2 nan data (y + i - hr) (x + j - hc))); exact Hn.
Qed.

(* a loop that skips NaN cells is the loop over the valid cells *)
Lemma fold_skip {T St} (isn : T -> bool) (f : St -> T -> St) l : forall s,
  fold_left (fun st v => if isn v then st else f st v) l s = fold_left f (valid isn l) s.
Proof.
  unfold valid. induction l as [|v l IH]; intros s; cbn [fold_left filter]; [reflexivity|].
  destruct (isn v); cbn [negb fold_left]; apply IH.
Qed.

Section ReducersValid.
  Variable A : Arith.
  Lemma calc_sum_valid w :
    calc_sum A w = fold_left (sadd A) (valid (sisnan A) (concat w)) (szero A).
  Proof. unfold calc_sum. apply fold_skip. Qed.
  Lemma mean_acc_valid {X} (isn : X -> bool) (cv : X -> T64 A) flat :
    mean_acc A isn cv flat =
    fold_left (fun st v => (dadd A (fst st) (cv v), snd st + 1)) (valid isn flat) (dofZ A 0, 0).
  Proof. unfold mean_acc. apply fold_skip. Qed.
  Lemma var_acc_valid m flat :
    var_acc A m flat =
    fold_left (fun st v => let val := dsub A (widen A v) m in (dadd A (fst st) (dmul A val val), snd st + 1))
              (valid (sisnan A) flat) (dofZ A 0, 0).
  Proof. unfold var_acc. apply fold_skip. Qed.
  Lemma nan_min_max_valid op r0 rest :
    nan_min_max A op (r0 :: rest) =
    fold_left (fun r v => if negb (op r v) then v else r) (valid (sisnan A) rest) r0.
  Proof. unfold nan_min_max. apply fold_skip. Qed.
End ReducersValid.

(* ---- the exact instance: lists of rationals ---- *)
Lemma somes_app {X} (l1 l2 : list (option X)) : somes (l1 ++ l2) = somes l1 ++ somes l2.
Proof. induction l1 as [|[a|] l1 IH]; simpl; congruence. Qed.

Lemma somes_valid (l : list xq) : somes (valid oisnan l) = somes l.
Proof. unfold valid. induction l as [|[q|] l IH]; cbn; congruence. Qed.

Lemma wvals_window data (kernel : grid xq) is1 rows cols hr hc y x :
  wvals (window_spec None None is1 data kernel rows cols hr hc y x) =
  somes (cells_under None None is1 data kernel rows cols hr hc y x).
Proof.
  unfold wvals. rewrite <- somes_valid, (window_valid oisnan) by reflexivity. apply somes_valid.
Qed.

(* ---- comparisons on Q ---- *)
Lemma qltb_lt a b : qltb a b = true <-> (a < b)%Q.
Proof. unfold qltb, Qlt. apply Z.ltb_lt. Qed.
Lemma qltb_nlt a b : qltb a b = false <-> (b <= a)%Q.
Proof. unfold qltb, Qle. rewrite Z.ltb_ge. reflexivity. Qed.
Lemma qleb_le a b : qleb a b = true <-> (a <= b)%Q.
Proof. unfold qleb, Qle. apply Z.leb_le. Qed.
Lemma qleb_nle a b : qleb a b = false <-> (b < a)%Q.
Proof. unfold qleb, Qlt. rewrite Z.leb_gt. reflexivity. Qed.

(* ---- nanmin / nanmax as written in Numba = minimum / maximum of the non-NaN cells (exact instance) ---- *)
Section MinMax.
  Variable qs : Q -> Q.
  Variable op : Q -> Q -> bool.                 (* qltb for min, flipped for max *)
  Variable xop : xq -> xq -> bool.              (* the comparison as the kernel writes it *)
  Hypothesis Hx : forall r v, xop r (Some v) = match r with Some m => op m v | None => false end.
  Let G (m v : Q) : Q := if negb (op m v) then v else m.
  Let F (r v : xq) : xq := if oisnan v then r else if negb (xop r v) then v else r.

  Lemma fold_F_some rest m : fold_left F rest (Some m) = Some (fold_left G (somes rest) m).
  Proof.
    revert m; induction rest as [|[v|] rest IH]; intros m; cbn [fold_left somes]; [reflexivity| |apply IH].
    unfold F at 2. cbn [oisnan]. rewrite Hx. unfold G at 2. destruct (negb (op m v)); apply IH.
  Qed.

  Lemma fold_F_none rest :
    fold_left F rest None = match somes rest with [] => None | q :: r => Some (fold_left G r q) end.
  Proof.
    induction rest as [|[v|] rest IH]; cbn [fold_left somes]; [reflexivity| |exact IH].
    unfold F at 2. cbn [oisnan]. rewrite Hx. cbn [negb]. apply fold_F_some.
  Qed.

  Lemma nan_min_max_somes flat :
    nan_min_max (ExactArith qs) xop flat =
    match somes flat with [] => None | q :: r => Some (fold_left G r q) end.
  Proof.
    unfold nan_min_max. destruct flat as [|[q|] rest]; [reflexivity| |].
    - cbn [somes]. apply fold_F_some.
    - cbn [somes]. apply fold_F_none.
  Qed.
End MinMax.

Lemma calc_min_somes qs w :
  calc_min (ExactArith qs) w =
  match wvals w with [] => None
  | q :: r => Some (fold_left (fun m v => if negb (qltb m v) then v else m) r q) end.
Proof.
  unfold calc_min, wvals. apply (nan_min_max_somes qs qltb).
  intros [m|] v; reflexivity.
Qed.

Lemma calc_max_somes qs w :
  calc_max (ExactArith qs) w =
  match wvals w with [] => None
  | q :: r => Some (fold_left (fun m v => if negb (qltb v m) then v else m) r q) end.
Proof.
  unfold calc_max, wvals. apply (nan_min_max_somes qs (fun a b => qltb b a)).
  intros [m|] v; reflexivity.
Qed.

(* the running minimum is a lower bound and a member *)
Lemma fold_min_spec r : forall q,
  let m := fold_left (fun m v => if negb (qltb m v) then v else m) r q in
  In m (q :: r) /\ forall v, In v (q :: r) -> (m <= v)%Q.
Proof.
  induction r as [|a r IH]; intros q; cbn [fold_left].
  - split; [left; reflexivity|]. intros v [<-|[]]. apply Qle_refl.
  - destruct (qltb q a) eqn:E; cbn [negb].
    + destruct (IH q) as [Hin Hle]. split.
      * destruct Hin as [H|H]; [left; exact H|right; right; exact H].
      * intros v [<-|[<-|Hv]].
        -- apply Hle; left; reflexivity.
        -- apply Qle_trans with q; [apply Hle; left; reflexivity|]. apply qltb_lt in E. now apply Qlt_le_weak.
        -- apply Hle; right; exact Hv.
    + destruct (IH a) as [Hin Hle]. split.
      * right. exact Hin.
      * intros v [<-|[<-|Hv]].
        -- apply Qle_trans with a; [apply Hle; left; reflexivity|]. now apply qltb_nlt in E.
        -- apply Hle; left; reflexivity.
        -- apply Hle; right; exact Hv.
Qed.

Lemma fold_max_spec r : forall q,
  let m := fold_left (fun m v => if negb (qltb v m) then v else m) r q in
  In m (q :: r) /\ forall v, In v (q :: r) -> (v <= m)%Q.
Proof.
  induction r as [|a r IH]; intros q; cbn [fold_left].
  - split; [left; reflexivity|]. intros v [<-|[]]. apply Qle_refl.
  - destruct (qltb a q) eqn:E; cbn [negb].
    + destruct (IH q) as [Hin Hle]. split.
      * destruct Hin as [H|H]; [left; exact H|right; right; exact H].
      * intros v [<-|[<-|Hv]].
        -- apply Hle; left; reflexivity.
        -- apply Qle_trans with q; [|apply Hle; left; reflexivity]. apply qltb_lt in E. now apply Qlt_le_weak.
        -- apply Hle; right; exact Hv.
    + destruct (IH a) as [Hin Hle]. split.
      * right. exact Hin.
      * intros v [<-|[<-|Hv]].
        -- apply Qle_trans with a; [|apply Hle; left; reflexivity]. now apply qltb_nlt in E.
        -- apply Hle; left; reflexivity.
        -- apply Hle; right; exact Hv.
Qed.

(* ------------------------------------------------------------------ *)
(* the hotspot ladder                                                   *)
(* ------------------------------------------------------------------ *)
(* the doubles nearest to 1.65, 1.96, 2.58 (hand-written from the property text) *)
Definition T90 : Q := 3715469692580659 # 2251799813685248.
Definition T95 : Q := 2206763817411543 # 1125899906842624.
Definition T99 : Q := 1452410879826985 # 562949953421312.

Definition qsgn (z : Q) : Z := if qltb 0 z then 1 else if qltb z 0 then -1 else 0.

(* every instance: whatever the comparisons answer, the result is one of the seven values *)
Lemma hot_cell_values A z :
  In (hot_cell A z) [0; 90; 95; 99; -90; -95; -99].
Proof.
  unfold hot_cell, conf_ladder. cbn [conf_of].
  repeat match goal with |- context [if ?b then _ else _] =>
    match b with
    | andb _ _ => destruct b
    | dltb _ _ _ => destruct b
    end end; cbn; tauto.
Qed.

Ltac q2prop :=
  repeat match goal with
         | H : qltb _ _ = true |- _ => apply qltb_lt in H
         | H : qltb _ _ = false |- _ => apply qltb_nlt in H
         | H : qleb _ _ = true |- _ => apply qleb_le in H
         | H : qleb _ _ = false |- _ => apply qleb_nle in H
         end.

(* exact instance: confidence as a function of |z| alone — the p-value ladder of the source never changes the outcome *)
Lemma hot_cell_ladder qs z :
  hot_cell (ExactArith qs) (Some z) =
  qsgn z * (if qltb T99 (Qabs z) then 99 else if qltb T95 (Qabs z) then 95 else if qltb T90 (Qabs z) then 90 else 0).
Proof.
  unfold hot_cell, qsgn.
  cbn [widen sabs dofZ dltb ExactArith olift1 ocmp].
  change (inject_Z 0) with 0%Q. f_equal.
  unfold p_ladder, conf_ladder, T99, T95, T90.
  cbn [p_of conf_of dleb dltb dconst ExactArith ocmp].
  set (a := Qabs z).
  destruct (qltb (1452410879826985 # 562949953421312) a) eqn:E99;
  destruct (qltb (2206763817411543 # 1125899906842624) a) eqn:E95;
  destruct (qltb (3715469692580659 # 2251799813685248) a) eqn:E90;
  destruct (qleb (1311673391471657 # 562949953421312) a) eqn:P1;
  destruct (qleb (3715469692580659 # 2251799813685248) a) eqn:P2;
  destruct (qleb (1452410879826985 # 1125899906842624) a) eqn:P3;
  cbn [andb ocmp]; try reflexivity; q2prop; try (exfalso; lra).
Qed.

Lemma hot_cell_nan qs : hot_cell (ExactArith qs) None = 0.
Proof. vm_compute. reflexivity. Qed.

Lemma Qabs_opp_eq z : Qabs (- z) = Qabs z.
Proof. destruct z as [n d]. unfold Qabs, Qopp. cbn. now rewrite Z.abs_opp. Qed.

Lemma qsgn_opp z : qsgn (- z) = - qsgn z.
Proof.
  unfold qsgn, qltb. destruct z as [n d]. cbn [Qopp Qnum Qden].
  destruct (0 * Z.pos d <? - n * 1) eqn:E1; destruct (- n * 1 <? 0 * Z.pos d) eqn:E2;
    destruct (0 * Z.pos d <? n * 1) eqn:E3; destruct (n * 1 <? 0 * Z.pos d) eqn:E4; lia.
Qed.

Definition xopp (v : xq) : xq := match v with Some q => Some (- q)%Q | None => None end.

Lemma hot_cell_opp qs z : hot_cell (ExactArith qs) (xopp z) = - hot_cell (ExactArith qs) z.
Proof.
  destruct z as [z|]; [|rewrite hot_cell_nan; reflexivity]. cbn [xopp].
  rewrite !hot_cell_ladder, Qabs_opp_eq, qsgn_opp. lia.
Qed.

Lemma calc_hotspots_opp qs zs :
  calc_hotspots (ExactArith qs) (map (map xopp) zs) = map (map Z.opp) (calc_hotspots (ExactArith qs) zs).
Proof.
  unfold calc_hotspots. rewrite !map_map. apply map_ext. intros row.
  rewrite !map_map. apply map_ext. intros z. apply hot_cell_opp.
Qed.
