Require Import Extraction ExtrOcamlBasic.
Require Import Base.Prelude C09.Generated C09.Model.
From Coq Require Import QArith.
Extraction Language OCaml.
Extraction "model.ml" apply_numpy focal_apply focal_stats mean convolve_2d calc_hotspots hotspots_numpy
  custom_kernel_ok reducer_of is_one_q u_range u_count u_nnan u_first u_idxsum qred_x
  default_stats_funcs apply_default_func.
