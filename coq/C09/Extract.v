Require Import Extraction ExtrOcamlBasic ExtrOCamlFloats ExtrOCamlInt63.
Require Import Base.Prelude C09.Generated C09.Arith C09.Model.
From Coq Require Import QArith.
Extraction Language OCaml.
Extraction "model.ml" q_apply q_reducer q_stats q_mean q_conv q_hot q_hotspots
  f_apply f_stats f_mean f_conv f_hot f_hotspots f_global
  custom_kernel_ok u_range u_count u_nnan u_first u_idxsum qred_x
  default_stats_funcs apply_default_func.
