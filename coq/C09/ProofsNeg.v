(* C09/ProofsNeg.v — hotspots(-X) = -hotspots(X) for the whole exact pipeline. *)
Require Import Base.Prelude C09.Generated C09.Model C09.Proofs C09.ProofsStats C09.ProofsConv C09.ProofsMean.
From Coq Require Import QArith Qabs Lqa.
Open Scope Z_scope.

Definition xeq (a b : xq) : Prop :=
  match a, b with Some x, Some y => (x == y)%Q | None, None => True | _, _ => False end.
Definition gneg (g : grid xq) : grid xq := map (map xopp) g.

Lemma nthZ_map_default {A B} (f : A -> B) d d' l i : f d' = d -> nthZ d (map f l) i = f (nthZ d' l i).
Proof. intros <-. unfold nthZ. destruct (i <? 0); [reflexivity|apply map_nth]. Qed.

Lemma get2_gneg g i j : get2 None (gneg g) i j = xopp (get2 None g i j).
Proof.
  unfold get2, gneg.
  rewrite (nthZ_map_default (map xopp) [] []) by reflexivity.
  apply nthZ_map_default. reflexivity.
Qed.

Lemma wf_map {A B} (f : A -> B) g r c : wf g r c -> wf (map (map f) g) r c.
Proof.
  intros [L C]. split; [now rewrite lenZ_map|].
  intros i Hi. rewrite nthZ_map with (da := []) by lia. rewrite lenZ_map. now apply C.
Qed.

Lemma get2_map {A B} (f : A -> B) da db g r c i j :
  wf g r c -> 0 <= i < r -> 0 <= j < c -> get2 db (map (map f) g) i j = f (get2 da g i j).
Proof.
  intros [L C] Hi Hj. unfold get2.
  rewrite nthZ_map with (da := []) by lia.
  rewrite nthZ_map with (da := da) by (rewrite C; lia). reflexivity.
Qed.

(* ---- sums ---- *)
Lemma fold_Qplus_compat l : forall a b, (a == b)%Q -> (fold_left Qplus l a == fold_left Qplus l b)%Q.
Proof. induction l as [|x l IH]; cbn; intros a b H; [exact H|]. apply IH. now rewrite H. Qed.

Lemma fold_Qplus_opp l : forall a, (fold_left Qplus (map Qopp l) (- a) == - fold_left Qplus l a)%Q.
Proof.
  induction l as [|x l IH]; intros a; cbn [map fold_left]; [reflexivity|].
  rewrite <- IH. apply fold_Qplus_compat. ring.
Qed.

Lemma qsum_opp l : (qsum (map Qopp l) == - qsum l)%Q.
Proof.
  unfold qsum. rewrite <- fold_Qplus_opp. apply fold_Qplus_compat. ring.
Qed.

Lemma fold_Qplus_pointwise {A} (f g : A -> Q) (H : forall x, (f x == g x)%Q) l : forall a b, (a == b)%Q ->
  (fold_left Qplus (map f l) a == fold_left Qplus (map g l) b)%Q.
Proof. induction l as [|x l IH]; cbn; intros a b E; [exact E|]. apply IH. now rewrite E, H. Qed.

Lemma somes_map_opp l : somes (map xopp l) = map Qopp (somes l).
Proof. induction l as [|[q|] l IH]; cbn; congruence. Qed.

Lemma wvals_gneg w : wvals (gneg w) = map Qopp (wvals w).
Proof. unfold wvals, gneg. rewrite <- concat_map. apply somes_map_opp. Qed.

Lemma calc_mean_nanmean w : calc_mean w = nanmean_list (wvals w).
Proof. unfold calc_mean, nanmean_list. destruct (wvals w); reflexivity. Qed.

Lemma nanmean_opp v : xeq (nanmean_list (map Qopp v)) (xopp (nanmean_list v)).
Proof.
  destruct v as [|q v]; [exact I|].
  change (map Qopp (q :: v)) with (- q :: map Qopp v)%Q.
  unfold nanmean_list, xopp, xeq.
  change (- q :: map Qopp v)%Q with (map Qopp (q :: v)).
  rewrite lenZ_map, qsum_opp. unfold Qdiv. ring.
Qed.

Lemma calc_mean_gneg w : xeq (calc_mean (gneg w)) (xopp (calc_mean w)).
Proof. rewrite !calc_mean_nanmean, wvals_gneg. apply nanmean_opp. Qed.

Lemma calc_var_gneg w : xeq (calc_var (gneg w)) (calc_var w).
Proof.
  unfold calc_var. pose proof (calc_mean_gneg w) as H.
  destruct (calc_mean (gneg w)) as [m'|], (calc_mean w) as [m|]; cbn in H; try contradiction; [|exact I].
  unfold xeq. rewrite wvals_gneg, lenZ_map, map_map.
  unfold qsum.
  rewrite (fold_Qplus_pointwise (fun x => (- x - m') * (- x - m'))%Q (fun x => (x - m) * (x - m))%Q) with (b := 0%Q);
    [reflexivity| |reflexivity].
  intros x. rewrite H. ring.
Qed.

Lemma calc_std_gneg qsqrt w : calc_std qsqrt (gneg w) = calc_std qsqrt w.
Proof.
  unfold calc_std. pose proof (calc_var_gneg w) as H.
  destruct (calc_var (gneg w)) as [v'|], (calc_var w) as [v|]; cbn in H; try contradiction; [|reflexivity].
  now rewrite (Qred_complete _ _ H).
Qed.

(* ---- the weighted sum ---- *)
Lemma xadd_opp s' s u' u : xeq s' (xopp s) -> xeq u' (xopp u) -> xeq (xadd s' u') (xopp (xadd s u)).
Proof.
  destruct s', s, u', u; cbn; try tauto. intros H1 H2. rewrite H1, H2. ring.
Qed.

Lemma loop2_xadd_opp (t t' : Z -> Z -> xq) (H : forall a b, xeq (t' a b) (xopp (t a b))) xs ys :
  forall s s', xeq s' (xopp s) ->
  xeq (loop2 (fun n a b => xadd n (t' a b)) ys xs s') (xopp (loop2 (fun n a b => xadd n (t a b)) ys xs s)).
Proof.
  unfold loop2. induction ys as [|a ys IH]; intros s s' Hs; cbn [fold_left]; [exact Hs|].
  apply IH. clear IH. revert s s' Hs.
  induction xs as [|b xs IHx]; intros s s' Hs; cbn [fold_left]; [exact Hs|].
  apply IHx. apply xadd_opp; [exact Hs|apply H].
Qed.

Lemma wsum_gneg data kernel wkx wky i j :
  xeq (wsum (gneg data) kernel wkx wky i j) (xopp (wsum data kernel wkx wky i j)).
Proof.
  unfold wsum.
  apply (loop2_xadd_opp
           (fun a b => xscale (get2 0%Q kernel a b) (get2 None data (i + a - wkx) (j + b - wky)))
           (fun a b => xscale (get2 0%Q kernel a b) (get2 None (gneg data) (i + a - wkx) (j + b - wky)))).
  - intros a b. rewrite get2_gneg.
    destruct (get2 None data (i + a - wkx) (j + b - wky)); cbn; [ring|exact I].
  - cbn. ring.
Qed.

(* ---- the ladder respects == ---- *)
Lemma qltb_compat c a b : (a == b)%Q -> qltb c a = qltb c b.
Proof.
  intros H. destruct (qltb c a) eqn:E1, (qltb c b) eqn:E2; try reflexivity; q2prop; rewrite H in E1; lra.
Qed.
Lemma qltb_compat_l c a b : (a == b)%Q -> qltb a c = qltb b c.
Proof.
  intros H. destruct (qltb a c) eqn:E1, (qltb b c) eqn:E2; try reflexivity; q2prop; rewrite H in E1; lra.
Qed.

Lemma hot_cell_compat a b : xeq a b -> hot_cell a = hot_cell b.
Proof.
  destruct a as [a|], b as [b|]; cbn [xeq]; try tauto. intros H.
  rewrite !hot_cell_ladder. unfold qsgn.
  rewrite (qltb_compat 0 a b H), (qltb_compat_l 0 a b H).
  assert (Ha : (Qabs a == Qabs b)%Q) by now rewrite H.
  rewrite (qltb_compat T99 _ _ Ha), (qltb_compat T95 _ _ Ha), (qltb_compat T90 _ _ Ha). reflexivity.
Qed.

Lemma z_opp m' m gm' gm gs :
  xeq m' (xopp m) -> xeq gm' (xopp gm) ->
  xeq (xdiv (xsub m' gm') gs) (xopp (xdiv (xsub m gm) gs)).
Proof.
  destruct m', m, gm', gm, gs; cbn; try tauto. intros H1 H2. rewrite H1, H2. unfold Qdiv. ring.
Qed.

Section Negate.
  Variable qsqrt : Q -> Q.
  Variables (data : grid xq) (kernel : grid Q) (nx ny wkx wky : Z).
  Hypothesis Hwkx : 0 <= wkx.
  Hypothesis Hwky : 0 <= wky.
  Hypothesis Hdata : wf data nx ny.
  Hypothesis Hkernel : wf kernel (2 * wkx + 1) (2 * wky + 1).
  Hypothesis Hnx : 0 < nx.
  Hypothesis Hny : 0 <= ny.

  Theorem hotspots_negate :
    hotspots_numpy qsqrt (gneg data) kernel =
    option_map (map (map Z.opp)) (hotspots_numpy qsqrt data kernel).
  Proof.
    unfold hotspots_numpy. rewrite calc_std_gneg.
    set (nk := map (map (fun k => (k / qsum (concat kernel))%Q)) kernel).
    assert (Hnk : wf nk (2 * wkx + 1) (2 * wky + 1)) by (apply wf_map; exact Hkernel).
    assert (Hneg : wf (gneg data) nx ny) by (apply wf_map; exact Hdata).
    destruct (match calc_std qsqrt data with Some s => Qeq_bool s 0 | None => false end); [reflexivity|].
    cbn [option_map]. f_equal.
    pose proof (conv_wf data nk nx ny wkx wky Hwkx Hwky Hdata Hnk Hnx Hny) as W1.
    pose proof (conv_wf (gneg data) nk nx ny wkx wky Hwkx Hwky Hneg Hnk Hnx Hny) as W2.
    unfold calc_hotspots. rewrite !map_map.
    apply grid_ext with (d := 0) (r := nx) (c := ny).
    - rewrite <- map_map with (f := map (fun m => xdiv (xsub m (calc_mean (gneg data))) (calc_std qsqrt data))) (g := map hot_cell).
      apply wf_map. apply wf_map. exact W2.
    - rewrite <- map_map with (g := fun r => map Z.opp (map hot_cell r))
                             (f := map (fun m => xdiv (xsub m (calc_mean data)) (calc_std qsqrt data))).
      rewrite <- map_map with (g := map Z.opp) (f := map hot_cell).
      apply wf_map. apply wf_map. apply wf_map. exact W1.
    - intros i j Hi Hj.
      assert (E1 : forall (g : grid xq) (h : xq -> xq), wf g nx ny ->
                 get2 0 (map (fun r => map hot_cell (map h r)) g) i j = hot_cell (h (get2 None g i j))).
      { intros g h Hg.
        rewrite <- map_map with (f := map h) (g := map hot_cell).
        rewrite (get2_map hot_cell None 0 _ nx ny) by (try apply wf_map; assumption).
        rewrite (get2_map h None None _ nx ny) by assumption. reflexivity. }
      assert (E2 : forall (g : grid xq) (h : xq -> xq), wf g nx ny ->
                 get2 0 (map (fun r => map Z.opp (map hot_cell (map h r))) g) i j = - hot_cell (h (get2 None g i j))).
      { intros g h Hg.
        rewrite <- map_map with (f := map h) (g := fun r => map Z.opp (map hot_cell r)).
        rewrite <- map_map with (f := map hot_cell) (g := map Z.opp).
        rewrite (get2_map Z.opp 0 0 _ nx ny) by (try (apply wf_map; apply wf_map); assumption).
        rewrite (get2_map hot_cell None 0 _ nx ny) by (try apply wf_map; assumption).
        rewrite (get2_map h None None _ nx ny) by assumption. reflexivity. }
      rewrite E1 by exact W2. rewrite E2 by exact W1.
      rewrite <- hot_cell_opp. apply hot_cell_compat. apply z_opp; [|apply calc_mean_gneg].
      rewrite (conv_spec (gneg data) nk nx ny wkx wky) by assumption.
      rewrite (conv_spec data nk nx ny wkx wky) by assumption.
      destruct ((wkx <=? i) && (i <? nx - wkx) && (wky <=? j) && (j <? ny - wky)); [apply wsum_gneg|exact I].
  Qed.
End Negate.
