(* C09/ProofsNeg.v — hotspots(-X) = -hotspots(X) for the whole pipeline at the exact instance. *)
Require Import Base.Prelude C09.Generated C09.Arith C09.Model C09.Proofs C09.ProofsStats C09.ProofsConv C09.ProofsMean.
From Coq Require Import QArith Qabs Lqa.
Open Scope Z_scope.

Definition xeq (a b : xq) : Prop :=
  match a, b with Some x, Some y => (x == y)%Q | None, None => True | _, _ => False end.
Definition gneg (g : grid xq) : grid xq := map (map xopp) g.

Lemma nthZ_map_default {A B} (f : A -> B) d d' l i : f d' = d -> nthZ d (map f l) i = f (nthZ d' l i).
Proof. intros <-. unfold nthZ. destruct (i <? 0); [reflexivity|apply map_nth]. Qed.

Lemma get2_gneg g i j : get2 None (gneg g) i j = xopp (get2 None g i j).
Proof.
  unfold get2, gneg.
  rewrite (nthZ_map_default (map xopp) [] []) by reflexivity.
  apply nthZ_map_default. reflexivity.
Qed.

Lemma wf_map {A B} (f : A -> B) g r c : wf g r c -> wf (map (map f) g) r c.
Proof.
  intros [L C]. split; [now rewrite lenZ_map|].
  intros i Hi. rewrite nthZ_map with (da := []) by lia. rewrite lenZ_map. now apply C.
Qed.

Lemma get2_map {A B} (f : A -> B) da db g r c i j :
  wf g r c -> 0 <= i < r -> 0 <= j < c -> get2 db (map (map f) g) i j = f (get2 da g i j).
Proof.
  intros [L C] Hi Hj. unfold get2.
  rewrite nthZ_map with (da := []) by lia.
  rewrite nthZ_map with (da := da) by (rewrite C; lia). reflexivity.
Qed.

(* ---- sums ---- *)
Lemma fold_Qplus_compat l : forall a b, (a == b)%Q -> (fold_left Qplus l a == fold_left Qplus l b)%Q.
Proof. induction l as [|x l IH]; cbn; intros a b H; [exact H|]. apply IH. now rewrite H. Qed.

Lemma fold_Qplus_opp l : forall a, (fold_left Qplus (map Qopp l) (- a) == - fold_left Qplus l a)%Q.
Proof.
  induction l as [|x l IH]; intros a; cbn [map fold_left]; [reflexivity|].
  rewrite <- IH. apply fold_Qplus_compat. ring.
Qed.

Lemma qsum_opp l : (qsum (map Qopp l) == - qsum l)%Q.
Proof.
  unfold qsum. rewrite <- fold_Qplus_opp. apply fold_Qplus_compat. ring.
Qed.

Lemma fold_Qplus_pointwise {A} (f g : A -> Q) (H : forall x, (f x == g x)%Q) l : forall a b, (a == b)%Q ->
  (fold_left Qplus (map f l) a == fold_left Qplus (map g l) b)%Q.
Proof. induction l as [|x l IH]; cbn; intros a b E; [exact E|]. apply IH. now rewrite E, H. Qed.

Lemma somes_map_opp l : somes (map xopp l) = map Qopp (somes l).
Proof. induction l as [|[q|] l IH]; cbn; congruence. Qed.

Lemma wvals_gneg w : wvals (gneg w) = map Qopp (wvals w).
Proof. unfold wvals, gneg. rewrite <- concat_map. apply somes_map_opp. Qed.

(* ---- the reducers of the exact instance as list formulas ---- *)
Lemma calc_mean_nanmean qs w : calc_mean (ExactArith qs) w = nanmean_list (wvals w).
Proof. exact (nanmean_gen_exact qs (concat w)). Qed.

Definition var_list (v : list Q) : xq :=
  match nanmean_list v with
  | None => None
  | Some m => Some (qsum (map (fun x => (x - m) * (x - m))%Q v) / inject_Z (lenZ v))%Q
  end.

Lemma var_acc_exact (m : xq) flat : forall c n,
  fold_left (fun st v => if oisnan v then st
                         else (olift2 Qplus (fst st) (olift2 Qmult (olift2 Qminus v m) (olift2 Qminus v m)), snd st + 1))
            flat (c, n) =
  (fold_left (fun c x => olift2 Qplus c (olift2 Qmult (olift2 Qminus (Some x) m) (olift2 Qminus (Some x) m))) (somes flat) c,
   n + lenZ (somes flat)).
Proof.
  induction flat as [|[q|] flat IH]; intros c n; cbn [fold_left somes oisnan].
  - f_equal. unfold lenZ; cbn; lia.
  - cbn [fst snd]. rewrite IH. f_equal. rewrite lenZ_cons. lia.
  - apply IH.
Qed.

Lemma fold_sq_some m l : forall c,
  fold_left (fun c x => olift2 Qplus c (olift2 Qmult (olift2 Qminus (Some x) (Some m)) (olift2 Qminus (Some x) (Some m)))) l (Some c) =
  Some (fold_left Qplus (map (fun x => (x - m) * (x - m))%Q l) c).
Proof. induction l as [|x l IH]; intros c; cbn [fold_left map olift2]; [reflexivity|apply IH]. Qed.

Lemma calc_var_exact qs (w : grid xq) : calc_var (ExactArith qs) w = var_list (wvals w).
Proof.
  unfold calc_var. rewrite calc_mean_nanmean. unfold var_acc.
  cbn [dadd dsub dmul ddiv dofZ dnan widen sisnan ExactArith].
  change (inject_Z 0) with 0%Q.
  rewrite var_acc_exact. cbn [fst snd]. unfold var_list, wvals.
  cbn [T32 T64 ExactArith] in *.
  generalize (somes (concat w)). intros v. destruct v as [|q l].
  - reflexivity.
  - assert (Hn : nanmean_list (q :: l) = Some (qsum (q :: l) / inject_Z (lenZ (q :: l)))%Q) by reflexivity.
    rewrite Hn. rewrite fold_sq_some.
    assert (Hpos : 0 < 0 + lenZ (q :: l)) by (rewrite lenZ_cons; pose proof (lenZ_nonneg l); lia).
    destruct (0 + lenZ (q :: l) <=? 0) eqn:E; [lia|].
    cbn [odiv]. rewrite Qeq_bool_inject_nonzero by lia. reflexivity.
Qed.

Lemma nanmean_opp v : xeq (nanmean_list (map Qopp v)) (xopp (nanmean_list v)).
Proof.
  destruct v as [|q v]; [exact I|].
  change (map Qopp (q :: v)) with (- q :: map Qopp v)%Q.
  unfold nanmean_list, xopp, xeq.
  change (- q :: map Qopp v)%Q with (map Qopp (q :: v)).
  rewrite lenZ_map, qsum_opp. unfold Qdiv. ring.
Qed.

Lemma var_list_opp v : xeq (var_list (map Qopp v)) (var_list v).
Proof.
  unfold var_list. pose proof (nanmean_opp v) as H.
  destruct (nanmean_list (map Qopp v)) as [m'|], (nanmean_list v) as [m|]; cbn in H; try contradiction; [|exact I].
  unfold xeq. rewrite lenZ_map, map_map.
  unfold qsum.
  rewrite (fold_Qplus_pointwise (fun x => (- x - m') * (- x - m'))%Q (fun x => (x - m) * (x - m))%Q) with (b := 0%Q);
    [reflexivity| |reflexivity].
  intros x. rewrite H. ring.
Qed.

Lemma qleb_compat c a b : (a == b)%Q -> qleb c a = qleb c b.
Proof.
  intros H. destruct (qleb c a) eqn:E1, (qleb c b) eqn:E2; try reflexivity; q2prop; rewrite H in E1; lra.
Qed.

Lemma calc_mean_gneg qs w : xeq (calc_mean (ExactArith qs) (gneg w)) (xopp (calc_mean (ExactArith qs) w)).
Proof. rewrite !calc_mean_nanmean, wvals_gneg. apply nanmean_opp. Qed.

Lemma calc_std_gneg qs w : calc_std (ExactArith qs) (gneg w) = calc_std (ExactArith qs) w.
Proof.
  unfold calc_std. rewrite !calc_var_exact, wvals_gneg. cbn [dsqrt ExactArith].
  pose proof (var_list_opp (wvals w)) as H.
  destruct (var_list (map Qopp (wvals w))) as [v'|], (var_list (wvals w)) as [v|]; cbn in H; try contradiction; [|reflexivity].
  unfold osqrt. rewrite (qleb_compat 0 v' v H). now rewrite (Qred_complete _ _ H).
Qed.

(* ---- the weighted sum ---- *)
Lemma oadd_opp s' s u' u : xeq s' (xopp s) -> xeq u' (xopp u) -> xeq (olift2 Qplus s' u') (xopp (olift2 Qplus s u)).
Proof.
  destruct s', s, u', u; cbn; try tauto. intros H1 H2. rewrite H1, H2. ring.
Qed.

Lemma loop2_oadd_opp (t t' : Z -> Z -> xq) (H : forall a b, xeq (t' a b) (xopp (t a b))) xs ys :
  forall s s', xeq s' (xopp s) ->
  xeq (loop2 (fun n a b => olift2 Qplus n (t' a b)) ys xs s') (xopp (loop2 (fun n a b => olift2 Qplus n (t a b)) ys xs s)).
Proof.
  unfold loop2. induction ys as [|a ys IH]; intros s s' Hs; cbn [fold_left]; [exact Hs|].
  apply IH. clear IH. revert s s' Hs.
  induction xs as [|b xs IHx]; intros s s' Hs; cbn [fold_left]; [exact Hs|].
  apply IHx. apply oadd_opp; [exact Hs|apply H].
Qed.

Lemma wsum_gneg qs data kernel wkx wky i j :
  xeq (wsum (ExactArith qs) (gneg data) kernel wkx wky i j) (xopp (wsum (ExactArith qs) data kernel wkx wky i j)).
Proof.
  unfold wsum. cbn [dadd dmul widen dnan snan dofZ ExactArith].
  apply (loop2_oadd_opp
           (fun a b => olift2 Qmult (get2 None kernel a b) (get2 None data (i + a - wkx) (j + b - wky)))
           (fun a b => olift2 Qmult (get2 None kernel a b) (get2 None (gneg data) (i + a - wkx) (j + b - wky)))).
  - intros a b. rewrite get2_gneg.
    destruct (get2 None kernel a b), (get2 None data (i + a - wkx) (j + b - wky)); cbn; try exact I. ring.
  - cbn. ring.
Qed.

(* ---- the ladder respects == ---- *)
Lemma qltb_compat c a b : (a == b)%Q -> qltb c a = qltb c b.
Proof.
  intros H. destruct (qltb c a) eqn:E1, (qltb c b) eqn:E2; try reflexivity; q2prop; rewrite H in E1; lra.
Qed.
Lemma qltb_compat_l c a b : (a == b)%Q -> qltb a c = qltb b c.
Proof.
  intros H. destruct (qltb a c) eqn:E1, (qltb b c) eqn:E2; try reflexivity; q2prop; rewrite H in E1; lra.
Qed.

Lemma hot_cell_compat qs a b : xeq a b -> hot_cell (ExactArith qs) a = hot_cell (ExactArith qs) b.
Proof.
  destruct a as [a|], b as [b|]; cbn [xeq]; try tauto. intros H.
  rewrite !hot_cell_ladder. unfold qsgn.
  rewrite (qltb_compat 0 a b H), (qltb_compat_l 0 a b H).
  assert (Ha : (Qabs a == Qabs b)%Q) by now rewrite H.
  rewrite (qltb_compat T99 _ _ Ha), (qltb_compat T95 _ _ Ha), (qltb_compat T90 _ _ Ha). reflexivity.
Qed.

Lemma z_opp m' m gm' gm gs :
  xeq m' (xopp m) -> xeq gm' (xopp gm) ->
  xeq (odiv (olift2 Qminus m' gm') gs) (xopp (odiv (olift2 Qminus m gm) gs)).
Proof.
  destruct m', m, gm', gm, gs as [g|]; cbn; try tauto.
  intros H1 H2. destruct (Qeq_bool g 0); cbn; [exact I|]. rewrite H1, H2. unfold Qdiv. ring.
Qed.

Section Negate.
  Variable qs : Q -> Q.
  Notation EA := (ExactArith qs).
  (* the two global reductions: any functions that are odd / even under negation *)
  Variables gmean gstd : grid xq -> xq.
  Hypothesis gmean_odd : forall X, xeq (gmean (gneg X)) (xopp (gmean X)).
  Hypothesis gstd_even : forall X, gstd (gneg X) = gstd X.
  Variables (data kernel : grid xq) (nx ny wkx wky : Z).
  Hypothesis Hwkx : 0 <= wkx.
  Hypothesis Hwky : 0 <= wky.
  Hypothesis Hdata : wf data nx ny.
  Hypothesis Hkernel : wf kernel (2 * wkx + 1) (2 * wky + 1).
  Hypothesis Hnx : 0 < nx.
  Hypothesis Hny : 0 <= ny.

  Theorem hotspots_negate_gen :
    hotspots_numpy EA gmean gstd (gneg data) kernel =
    option_map (map (map Z.opp)) (hotspots_numpy EA gmean gstd data kernel).
  Proof.
    unfold hotspots_numpy. rewrite gstd_even.
    match goal with |- context [convolve_2d EA (gneg data) ?K] => remember K as nk eqn:Enk end.
    assert (Hnk : wf nk (2 * wkx + 1) (2 * wky + 1)) by (rewrite Enk; apply wf_map; exact Hkernel).
    clear Enk.
    assert (Hneg : wf (gneg data) nx ny) by (apply wf_map; exact Hdata).
    destruct (deqb EA (widen EA (gstd data)) (dofZ EA 0)); [reflexivity|].
    cbn [option_map]. f_equal.
    pose proof (conv_wf EA data nk nx ny wkx wky Hwkx Hwky Hdata Hnk Hnx Hny) as W1.
    pose proof (conv_wf EA (gneg data) nk nx ny wkx wky Hwkx Hwky Hneg Hnk Hnx Hny) as W2.
    unfold calc_hotspots. rewrite !map_map.
    apply grid_ext with (d := 0) (r := nx) (c := ny).
    - rewrite <- map_map with (f := map (fun m => sdiv EA (ssub EA m (gmean (gneg data))) (gstd data))) (g := map (hot_cell EA)).
      apply wf_map. apply wf_map. exact W2.
    - rewrite <- map_map with (g := fun r => map Z.opp (map (hot_cell EA) r))
                             (f := map (fun m => sdiv EA (ssub EA m (gmean data)) (gstd data))).
      rewrite <- map_map with (g := map Z.opp) (f := map (hot_cell EA)).
      apply wf_map. apply wf_map. apply wf_map. exact W1.
    - intros i j Hi Hj.
      assert (E1 : forall (g : grid xq) (h : xq -> xq), wf g nx ny ->
                 get2 0 (map (fun r => map (hot_cell EA) (map h r)) g) i j = hot_cell EA (h (get2 None g i j))).
      { intros g h Hg.
        rewrite <- map_map with (f := map h) (g := map (hot_cell EA)).
        rewrite (get2_map (hot_cell EA) None 0 _ nx ny) by (try apply wf_map; assumption).
        rewrite (get2_map h None None _ nx ny) by assumption. reflexivity. }
      assert (E2 : forall (g : grid xq) (h : xq -> xq), wf g nx ny ->
                 get2 0 (map (fun r => map Z.opp (map (hot_cell EA) (map h r))) g) i j = - hot_cell EA (h (get2 None g i j))).
      { intros g h Hg.
        rewrite <- map_map with (f := map h) (g := fun r => map Z.opp (map (hot_cell EA) r)).
        rewrite <- map_map with (f := map (hot_cell EA)) (g := map Z.opp).
        rewrite (get2_map Z.opp 0 0 _ nx ny) by (try (apply wf_map; apply wf_map); assumption).
        rewrite (get2_map (hot_cell EA) None 0 _ nx ny) by (try apply wf_map; assumption).
        rewrite (get2_map h None None _ nx ny) by assumption. reflexivity. }
      cbn [T32 T64 ExactArith] in E1, E2 |- *.
      rewrite (E1 _ (fun m => sdiv EA (ssub EA m (gmean (gneg data))) (gstd data)) W2).
      rewrite (E2 _ (fun m => sdiv EA (ssub EA m (gmean data)) (gstd data)) W1).
      rewrite <- hot_cell_opp. apply hot_cell_compat.
      cbn [sdiv ssub ExactArith]. apply z_opp; [|apply gmean_odd].
      pose proof (conv_spec EA (gneg data) nk nx ny wkx wky Hwkx Hwky Hneg Hnk Hnx i j Hi Hj) as C2.
      pose proof (conv_spec EA data nk nx ny wkx wky Hwkx Hwky Hdata Hnk Hnx i j Hi Hj) as C1.
      cbn [snan narrow T32 T64 ExactArith] in C1, C2 |- *. unfold xq in *. rewrite C1, C2.
      destruct ((wkx <=? i) && (i <? nx - wkx) && (wky <=? j) && (j <? ny - wky)); [apply wsum_gneg|exact I].
  Qed.
End Negate.

(* the exact meaning of np.nanmean / np.nanstd (sequential sum / count) satisfies the two hypotheses *)
Theorem hotspots_negate qs data kernel nx ny wkx wky :
  0 <= wkx -> 0 <= wky -> wf data nx ny -> wf kernel (2 * wkx + 1) (2 * wky + 1) -> 0 < nx -> 0 <= ny ->
  hotspots_numpy (ExactArith qs) (seq_nanmean (ExactArith qs)) (seq_nanstd (ExactArith qs)) (gneg data) kernel =
  option_map (map (map Z.opp))
             (hotspots_numpy (ExactArith qs) (seq_nanmean (ExactArith qs)) (seq_nanstd (ExactArith qs)) data kernel).
Proof.
  intros. apply hotspots_negate_gen with (nx := nx) (ny := ny) (wkx := wkx) (wky := wky); try assumption.
  - intros X. apply calc_mean_gneg.
  - intros X. apply calc_std_gneg.
Qed.
