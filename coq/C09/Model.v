(* C09/Model.v — executable model of xrspatial/focal.py (_mean_numpy / mean,
   _apply_numpy / apply, _focal_stats_cpu / focal_stats, _calc_hotspots_numpy,
   _hotspots_numpy) and xrspatial/convolution.py (_convolve_2d_numpy,
   custom_kernel).  Definitions only.  The window kernel is polymorphic in the
   cell type; everything numerical is written ONCE against the arithmetic
   record of Arith.v (float32 / float64 carriers, Numba's promotions spelled
   out with widen / narrow) and used at two instances: ExactArith (option Q,
   the theorems) and FloatArith (SpecFloat binary32 + PrimFloat binary64,
   extracted and compared bit-for-bit with the implementation). *)
Require Import Base.Prelude.
From Coq Require Import QArith Qabs PrimFloat SpecFloat.
Require Import C09.Generated C09.Arith.
Open Scope Z_scope.

(* ------------------------------------------------------------------ *)
(* 2-D arrays as lists of rows                                          *)
(* ------------------------------------------------------------------ *)
Definition grid (T : Type) := list (list T).

Definition get2 {T} (d : T) (g : grid T) (i j : Z) : T := nthZ d (nthZ [] g i) j.

Fixpoint set_nth {A} (l : list A) (n : nat) (v : A) : list A :=
  match l with
  | [] => []
  | a :: r => match n with O => v :: r | S k => a :: set_nth r k v end
  end.
Definition setZ {A} (l : list A) (i : Z) (v : A) : list A :=
  if i <? 0 then l else set_nth l (Z.to_nat i) v.
(* g[i, j] = v  (no effect when (i, j) is outside the array) *)
Definition set2 {T} (g : grid T) (i j : Z) (v : T) : grid T :=
  setZ g i (setZ (nthZ [] g i) j v).

Definition nrows {T} (g : grid T) : Z := lenZ g.                 (* g.shape[0] *)
Definition ncols {T} (g : grid T) : Z := lenZ (nthZ [] g 0).     (* g.shape[1] *)
Definition fill2 {T} (v : T) (r c : Z) : grid T := repeat (repeat v (Z.to_nat c)) (Z.to_nat r).
Definition refill {T} (v : T) (g : grid T) : grid T := map (map (fun _ => v)) g.   (* g.fill(v) *)
(* range(a, b) *)
Definition zrange (a b : Z) : list Z := ziota a (Z.to_nat (b - a)).

(* for ky in ys: for kx in xs: s = step s ky kx *)
Definition loop2 {S} (step : S -> Z -> Z -> S) (ys xs : list Z) (s : S) : S :=
  fold_left (fun s ky => fold_left (fun s kx => step s ky kx) xs s) ys s.

(* ------------------------------------------------------------------ *)
(* _apply_numpy(data, kernel, func)                                     *)
(* ------------------------------------------------------------------ *)
Section Apply.
  Context {T K : Type}.
  Variable nan : T.
  Variable zero : T.                 (* np.zeros_like: initial content of the scratch buffer *)
  Variable kd : K.                   (* value of an out-of-range kernel read (never happens for odd shapes) *)
  Variable is_one : K -> bool.       (* kernel[kyidx, kxidx] == 1 *)
  Variable func : grid T -> T.       (* the (jitted) reducer *)

  (*  if ky >= 0 and ky < rows and kx >= 0 and kx < cols:
          kyidx, kxidx = ky - (y - hrows), kx - (x - hcols)
          if kernel[kyidx, kxidx] == 1:
              kernel_values[kyidx, kxidx] = data[ky, kx]                 *)
  Definition apply_step (data : grid T) (kernel : grid K) (rows cols hrows hcols y x : Z)
             (kernel_values : grid T) (ky kx : Z) : grid T :=
    if (ky >=? 0) && (ky <? rows) && (kx >=? 0) && (kx <? cols) then
      let kyidx := ky - (y - hrows) in
      let kxidx := kx - (x - hcols) in
      if is_one (get2 kd kernel kyidx kxidx)
      then set2 kernel_values kyidx kxidx (get2 nan data ky kx)
      else kernel_values
    else kernel_values.

  (* the scratch buffer after the two inner loops of cell (y, x) *)
  Definition apply_window (data : grid T) (kernel : grid K) (rows cols hrows hcols : Z)
             (kernel_values : grid T) (y x : Z) : grid T :=
    loop2 (apply_step data kernel rows cols hrows hcols y x)
          (zrange (y - hrows) (y + hrows + 1)) (zrange (x - hcols) (x + hcols + 1))
          (refill nan kernel_values).

  (* one output row; the scratch buffer is threaded through all cells *)
  Definition apply_row (data : grid T) (kernel : grid K) (rows cols hrows hcols : Z)
             (kv : grid T) (y : Z) : grid T * list T :=
    fold_left (fun st x =>
                 let kv' := apply_window data kernel rows cols hrows hcols (fst st) y x in
                 (kv', snd st ++ [func kv']))
              (zrange 0 cols) (kv, []).

  Definition apply_numpy (data : grid T) (kernel : grid K) : grid T :=
    let rows := nrows data in
    let cols := ncols data in
    let krows := nrows kernel in
    let kcols := ncols kernel in
    let hrows := krows / 2 in          (* int(krows / 2) *)
    let hcols := kcols / 2 in
    let kernel_values := fill2 zero krows kcols in
    snd (fold_left (fun st y =>
                      let r := apply_row data kernel rows cols hrows hcols (fst st) y in
                      (fst r, snd st ++ [snd r]))
                   (zrange 0 rows) (kernel_values, [])).
End Apply.

(* ------------------------------------------------------------------ *)
(* convolution.custom_kernel: shape validation                          *)
(* ------------------------------------------------------------------ *)
Definition custom_kernel_ok (is_ndarray : bool) (rows cols : Z) : bool :=
  if negb is_ndarray then false
  else if (rows mod 2 =? 0) || (cols mod 2 =? 0) then false
  else true.

(* focal.apply: validate the kernel, then _apply_numpy; None = ValueError *)
Definition focal_apply {T K} (nan zero : T) (kd : K) (is_one : K -> bool) (func : grid T -> T)
           (data : grid T) (kernel : grid K) : option (grid T) :=
  if custom_kernel_ok true (nrows kernel) (ncols kernel)
  then Some (apply_numpy nan zero kd is_one func data kernel) else None.

(* ------------------------------------------------------------------ *)
(* the numerical kernels, generic in the arithmetic                      *)
(* ------------------------------------------------------------------ *)
Section Kernels.
  Variable A : Arith.
  Notation S := (T32 A).
  Notation D := (T64 A).

  Definition szero : S := narrow A (dofZ A 0).            (* float32 +0.0 *)

  (* ---- Numba's nan-reducers (numba/np/arraymath.py), np.nditer order = row-major ---- *)
  (* np.nanmean:  c = 0.0; count = 0; for v: if not isnan(v): c += v.item(); count += 1
                  return np.divide(c, count)            — float64 accumulator for every input type *)
  Definition mean_acc {X} (isn : X -> bool) (cv : X -> D) (flat : list X) : D * Z :=
    fold_left (fun st v => if isn v then st else (dadd A (fst st) (cv v), snd st + 1)) flat (dofZ A 0, 0).
  Definition nanmean_gen {X} (isn : X -> bool) (cv : X -> D) (flat : list X) : D :=
    let st := mean_acc isn cv flat in ddiv A (fst st) (dofZ A (snd st)).
  Definition calc_mean (w : grid S) : D := nanmean_gen (sisnan A) (widen A) (concat w).
  (* np.nansum: c = float32(0); for v: if not isnan(v): c += v     — float32 accumulator *)
  Definition calc_sum (w : grid S) : S :=
    fold_left (fun c v => if sisnan A v then c else sadd A c v) (concat w) szero.
  (* nan_min_max_factory: return_val = first element; for the others:
       if not isnan(v): if not op(return_val, v): return_val = v          *)
  Definition nan_min_max (op : S -> S -> bool) (flat : list S) : S :=
    match flat with
    | [] => snan A
    | r0 :: rest =>
      fold_left (fun r v => if sisnan A v then r else if negb (op r v) then v else r) rest r0
    end.
  Definition calc_min (w : grid S) : S := nan_min_max (sltb A) (concat w).
  Definition calc_max (w : grid S) : S := nan_min_max (fun a b => sltb A b a) (concat w).
  Definition calc_range (w : grid S) : S :=
    let value_min := calc_min w in
    let value_max := calc_max w in
    ssub A value_max value_min.
  (* np.nanvar: m = nanmean(a); ssd = 0.0; for v: if not isnan(v): val = v.item() - m; ssd += val*val; count += 1
                if count <= ddof: return nan;  return np.divide(ssd, count - ddof)     (ddof = 0) *)
  Definition var_acc (m : D) (flat : list S) : D * Z :=
    fold_left (fun st v => if sisnan A v then st
                           else let val := dsub A (widen A v) m in
                                (dadd A (fst st) (dmul A val val), snd st + 1)) flat (dofZ A 0, 0).
  Definition calc_var (w : grid S) : D :=
    let m := calc_mean w in
    let st := var_acc m (concat w) in
    if snd st <=? 0 then dnan A else ddiv A (fst st) (dofZ A (snd st)).
  (* np.nanstd: nanvar ** 0.5 *)
  Definition calc_std (w : grid S) : D := dsqrt A (calc_var w).

  (* the reducer followed by the store  out[y, x] = func(kernel_values)  into the float32 output *)
  Definition reducer_of (p : prim) : grid S -> S :=
    match p with
    | PNanmean => fun w => narrow A (calc_mean w)
    | PNansum => calc_sum
    | PNanmin => calc_min
    | PNanmax => calc_max
    | PNanstd => fun w => narrow A (calc_std w)
    | PNanvar => fun w => narrow A (calc_var w)
    | PRangeOfMinMax => calc_range
    end.

  Fixpoint lookup (name : stat_name) (tbl : list (stat_name * prim)) : option prim :=
    match tbl with
    | [] => None
    | (n, p) :: r => if stat_code n =? stat_code name then Some p else lookup name r
    end.

  (* kernel[kyidx, kxidx] == 1  (float64 or integer kernel against the literal 1) *)
  Definition is_one (k : D) : bool := deqb A k (dofZ A 1).

  Definition focal_apply_A (func : grid S -> S) (data : grid S) (kernel : grid D) : option (grid S) :=
    focal_apply (snan A) szero (dnan A) is_one func data kernel.

  (* _focal_stats_cpu: one apply per requested statistic, stacked in request order.
     None = KeyError (unknown name) or the kernel was rejected *)
  Fixpoint focal_stats_cpu (data : grid S) (kernel : grid D) (stats_funcs : list stat_name)
    : option (list (grid S)) :=
    match stats_funcs with
    | [] => Some []
    | s :: rest =>
      match lookup s function_mapping with
      | None => None
      | Some p =>
        match focal_apply_A (reducer_of p) data kernel, focal_stats_cpu data kernel rest with
        | Some layer, Some layers => Some (layer :: layers)
        | _, _ => None
        end
      end
    end.
  Definition focal_stats (data : grid S) (kernel : grid D) (stats_funcs : list stat_name) :=
    if custom_kernel_ok true (nrows kernel) (ncols kernel)
    then focal_stats_cpu data kernel stats_funcs else None.

  (* ---------------------------------------------------------------- *)
  (* _mean_numpy(data, excludes) and mean(agg, passes, excludes): float64 *)
  (* ---------------------------------------------------------------- *)
  (* x == y or (isnan(x) and isnan(y)) *)
  Definition equal_numpy (x y : D) : bool := deqb A x y || (disnan A x && disnan A y).
  (* l[a:b] for 0 <= a *)
  Definition slice {X} (l : list X) (a b : Z) : list X :=
    firstn (Z.to_nat (b - a)) (skipn (Z.to_nat a) l).

  Definition mean_cell (data : grid D) (excludes : list D) (rows cols y x : Z) : D :=
    let c := get2 (dnan A) data y x in
    if existsb (fun ex => equal_numpy c ex) excludes then c
    else
      let left := Z.max (x - 1) 0 in
      let right := Z.min (x + 2) cols in
      let bottom := Z.max (y - 1) 0 in
      let top := Z.min (y + 2) rows in
      let kernel_data := map (fun r => slice r left right) (slice data bottom top) in
      nanmean_gen (disnan A) (fun v => v) (concat kernel_data).
  Definition mean_numpy (data : grid D) (excludes : list D) : grid D :=
    let rows := nrows data in
    let cols := ncols data in
    map (fun y => map (fun x => mean_cell data excludes rows cols y x) (zrange 0 cols)) (zrange 0 rows).
  (* for i in range(passes): out = _mean(out, excludes) *)
  Definition mean (data : grid D) (passes : Z) (excludes : list D) : grid D :=
    fold_left (fun out _ => mean_numpy out excludes) (zrange 0 passes) data.

  (* ---------------------------------------------------------------- *)
  (* _convolve_2d_numpy(data, kernel): float32 data, float64 accumulator *)
  (* ---------------------------------------------------------------- *)
  (* num = 0.0; for ii: iii = wkx + ii - i; for jj: jjj = wky + jj - j;
        num += kernel[iii, jjj] * data[ii, jj]                          *)
  Definition conv_num (data : grid S) (kernel : grid D) (wkx wky i j iimin iimax jjmin jjmax : Z) : D :=
    loop2 (fun num ii jj =>
             let iii := wkx + ii - i in
             let jjj := wky + jj - j in
             dadd A num (dmul A (get2 (dnan A) kernel iii jjj) (widen A (get2 (snan A) data ii jj))))
          (zrange iimin iimax) (zrange jjmin jjmax) (dofZ A 0).
  Definition conv_step (data : grid S) (kernel : grid D) (nx ny wkx wky : Z)
             (out : grid S) (i j : Z) : grid S :=
    let iimin := Z.max (i - wkx) 0 in
    let iimax := Z.min (i + wkx + 1) nx in
    let jjmin := Z.max (j - wky) 0 in
    let jjmax := Z.min (j + wky + 1) ny in
    set2 out i j (narrow A (conv_num data kernel wkx wky i j iimin iimax jjmin jjmax)).
  Definition convolve_2d (data : grid S) (kernel : grid D) : grid S :=
    let nx := nrows data in
    let ny := ncols data in
    let nkx := nrows kernel in
    let nky := ncols kernel in
    let wkx := nkx / 2 in
    let wky := nky / 2 in
    let out := fill2 (snan A) nx ny in                  (* out[:] = np.nan *)
    loop2 (conv_step data kernel nx ny wkx wky) (zrange wkx (nx - wkx)) (zrange wky (ny - wky)) out.

  (* ---------------------------------------------------------------- *)
  (* _calc_hotspots_numpy (float32 z-scores against float64 literals)    *)
  (* ---------------------------------------------------------------- *)
  (* if a >= t1: p1 elif a >= t2: p2 ... else dflt *)
  Fixpoint p_of (a : D) (ladder : list (Q * Q)) (dflt : D) : D :=
    match ladder with
    | [] => dflt
    | (t, p) :: r => if dleb A (dconst A t) a then dconst A p else p_of a r dflt
    end.
  (* if a > t1 and p < q1: c1 elif ... else 0 *)
  Fixpoint conf_of (a p : D) (ladder : list (Q * Q * Z)) : Z :=
    match ladder with
    | [] => 0
    | (t, q, c) :: r => if dltb A (dconst A t) a && dltb A p (dconst A q) then c else conf_of a p r
    end.
  Definition hot_cell (zscore : S) : Z :=
    let a := widen A (sabs A zscore) in                      (* abs(zscore), promoted for the comparisons *)
    let p_value := p_of a p_ladder (dconst A 1%Q) in
    let confidence := conf_of a p_value conf_ladder in
    let hot_cold := if dltb A (dofZ A 0) (widen A zscore) then 1
                    else if dltb A (widen A zscore) (dofZ A 0) then -1 else 0 in
    hot_cold * confidence.
  Definition calc_hotspots (z_array : grid S) : grid Z := map (map hot_cell) z_array.

  (* ---------------------------------------------------------------- *)
  (* _hotspots_numpy; np.nanmean / np.nanstd of the float32 raster are   *)
  (* NumPy primitives: parameters here, modelled below                   *)
  (* ---------------------------------------------------------------- *)
  Section Hotspots.
    Variables np_nanmean np_nanstd : grid S -> S.
    (* None = ZeroDivisionError (global_std == 0) *)
    Definition hotspots_numpy (data : grid S) (kernel : grid D) : option (grid Z) :=
      let ksum := fold_left (dadd A) (concat kernel) (dofZ A 0) in        (* kernel.sum(): exact for 0/1 kernels *)
      let mean_array := convolve_2d data (map (map (fun k => ddiv A k ksum)) kernel) in
      let global_mean := np_nanmean data in
      let global_std := np_nanstd data in
      if deqb A (widen A global_std) (dofZ A 0) then None
      else
        let z_array := map (map (fun m => sdiv A (ssub A m global_mean) global_std)) mean_array in
        Some (calc_hotspots z_array).
  End Hotspots.

  (* the exact-arithmetic meaning of the two global reductions: sequential float64-accumulated nanmean / nanstd *)
  Definition seq_nanmean (data : grid S) : S := narrow A (calc_mean data).
  Definition seq_nanstd (data : grid S) : S := narrow A (calc_std data).

  (* NumPy's float32 reductions as they are computed for a C-contiguous array of at most 128 elements
     (numpy/_core/src/umath/loops_utils.h.src  pairwise_sum, numpy/lib/_nanfunctions_impl.py):
       n < 8:  res = 0.; for i: res += a[i]
       else:   r[0..7] = a[0..7]; for each further full block of 8: r[j] += a[i+j];
               res = ((r0+r1)+(r2+r3)) + ((r4+r5)+(r6+r7)); then the remaining n % 8 elements one by one *)
  Fixpoint add8 (r a : list S) : list S :=
    match r, a with
    | x :: r', y :: a' => sadd A x y :: add8 r' a'
    | _, _ => []
    end.
  Fixpoint blocks (fuel : nat) (r rest : list S) : list S * list S :=
    match fuel with
    | O => (r, rest)
    | Datatypes.S f => blocks f (add8 r (firstn 8 rest)) (skipn 8 rest)
    end.
  Definition pairwise_sum (a : list S) : S :=
    let n := length a in
    if (n <? 8)%nat then fold_left (sadd A) a szero
    else
      let st := blocks (n / 8 - 1)%nat (firstn 8 a) (skipn 8 a) in
      let r := fun k => nth k (fst st) (snan A) in
      let res := sadd A (sadd A (sadd A (r 0%nat) (r 1%nat)) (sadd A (r 2%nat) (r 3%nat)))
                        (sadd A (sadd A (r 4%nat) (r 5%nat)) (sadd A (r 6%nat) (r 7%nat))) in
      fold_left (sadd A) (snd st) res.
  (* _divide_by_count: a.dtype.type(a / b)  — float32 scalar / int64 -> float64, cast back *)
  Definition divide_by_count (a : S) (cnt : Z) : S := narrow A (ddiv A (widen A a) (dofZ A cnt)).
  Definition count_valid (flat : list S) : Z := lenZ (filter (fun v => negb (sisnan A v)) flat).
  Definition np_nanmean_f32 (data : grid S) : S :=
    let flat := concat data in
    let arr := map (fun v => if sisnan A v then szero else v) flat in         (* _replace_nan(a, 0) *)
    divide_by_count (pairwise_sum arr) (count_valid flat).
  Definition np_nanstd_f32 (data : grid S) : S :=
    let flat := concat data in
    let cnt := count_valid flat in
    let arr := map (fun v => if sisnan A v then szero else v) flat in
    let avg := divide_by_count (pairwise_sum arr) cnt in
    let dev := map (fun v => if sisnan A v then szero else ssub A v avg) flat in   (* subtract, then NaN positions := 0 *)
    let sqr := map (fun v => smul A v v) dev in
    let var := divide_by_count (pairwise_sum sqr) cnt in
    ssqrt A var.
End Kernels.

(* ------------------------------------------------------------------ *)
(* exact instance: the entry points used by the exact correspondence     *)
(* stream; the jitted user reducers of the harness have Gallina twins    *)
(* ------------------------------------------------------------------ *)
Fixpoint somes {X} (l : list (option X)) : list X :=
  match l with
  | [] => []
  | Some a :: r => a :: somes r
  | None :: r => somes r
  end.
(* the non-NaN values of an exact array in np.nditer (row-major) order *)
Definition wvals (w : grid xq) : list Q := somes (concat w).
Definition qsum (l : list Q) : Q := fold_left Qplus l 0%Q.

Definition E (qsqrt : Q -> Q) : Arith := ExactArith qsqrt.
Definition E0 : Arith := ExactArith (fun q => q).          (* for the reducers that take no square root *)

Definition xscale (k : Q) (v : xq) : xq := match v with Some x => Some (k * x)%Q | None => None end.
Definition u_range (w : grid xq) : xq := olift2 Qminus (calc_max E0 w) (calc_min E0 w).   (* np.nanmax(a) - np.nanmin(a) *)
Definition u_count (w : grid xq) : xq := Some (inject_Z (lenZ (wvals w))).      (* number of non-NaN cells *)
Definition u_nnan (w : grid xq) : xq :=                                         (* number of NaN cells *)
  Some (inject_Z (lenZ (concat w) - lenZ (wvals w))).
Definition u_first (w : grid xq) : xq := get2 None w 0 0.                       (* a[0, 0] *)
Definition u_idxsum (w : grid xq) : xq :=                                       (* sum (i*ncols + j + 1) * a[i, j] over non-NaN *)
  let nc := ncols w in
  Some (qsum (concat (map (fun i => somes (map (fun j =>
      xscale (inject_Z (i * nc + j + 1)) (get2 None w i j)) (zrange 0 nc))) (zrange 0 (nrows w))))).

Definition qred_x (v : xq) : xq := match v with Some q => Some (Qred q) | None => None end.

Definition q_apply (func : grid xq -> xq) (data kernel : grid xq) : option (grid xq) := focal_apply_A E0 func data kernel.
Definition q_reducer (qsqrt : Q -> Q) (p : prim) : grid xq -> xq := reducer_of (E qsqrt) p.
Definition q_stats (qsqrt : Q -> Q) (data kernel : grid xq) names : option (list (grid xq)) :=
  focal_stats (E qsqrt) data kernel names.
Definition q_mean (data : grid xq) (passes : Z) (excludes : list xq) : grid xq := mean E0 data passes excludes.
Definition q_conv (data kernel : grid xq) : grid xq := convolve_2d E0 data kernel.
Definition q_hot (z : grid xq) : grid Z := calc_hotspots E0 z.
Definition q_hotspots (qsqrt : Q -> Q) (data kernel : grid xq) : option (grid Z) :=
  hotspots_numpy (E qsqrt) (np_nanmean_f32 (E qsqrt)) (np_nanstd_f32 (E qsqrt)) data kernel.

(* ------------------------------------------------------------------ *)
(* float instance: the entry points of the bit-exact stream.  Rasters,   *)
(* kernels and results cross the boundary as binary64 values; a float32  *)
(* raster is narrowed on entry (data.astype(np.float32)) and a float32   *)
(* result widened (exactly) on exit.                                     *)
(* ------------------------------------------------------------------ *)
Definition F : Arith := FloatArith.
Definition in32 (g : grid float) : grid spec_float := map (map b32_of_f64) g.
Definition out64 (g : grid spec_float) : grid float := map (map f64_of_b32) g.

Definition f_apply (p : prim) (data kernel : grid float) : option (grid float) :=
  option_map out64 (focal_apply_A F (reducer_of F p) (in32 data) kernel).
Definition f_stats (data kernel : grid float) (names : list stat_name) : option (list (grid float)) :=
  option_map (map out64) (focal_stats F (in32 data) kernel names).
Definition f_mean (data : grid float) (passes : Z) (excludes : list float) : grid float :=
  mean F data passes excludes.
Definition f_conv (data kernel : grid float) : grid float := out64 (convolve_2d F (in32 data) kernel).
Definition f_hot (z : grid float) : grid Z := calc_hotspots F (in32 z).
Definition f_hotspots (data kernel : grid float) : option (grid Z) :=
  hotspots_numpy F (np_nanmean_f32 F) (np_nanstd_f32 F) (in32 data) kernel.
Definition f_global (data : grid float) : float * float :=
  (f64_of_b32 (np_nanmean_f32 F (in32 data)), f64_of_b32 (np_nanstd_f32 F (in32 data))).
