(* C09/Model.v — executable model of xrspatial/focal.py (_mean_numpy / mean,
   _apply_numpy / apply, _focal_stats_cpu / focal_stats, _calc_hotspots_numpy,
   _hotspots_numpy) and xrspatial/convolution.py (_convolve_2d_numpy,
   custom_kernel).  Definitions only.  The window kernels are polymorphic in
   the cell type; the statistics are given over exact rationals with an
   explicit NaN (xq = option Q, None = NaN). *)
Require Import Base.Prelude.
From Coq Require Import QArith Qabs.
Require Import C09.Generated.
Open Scope Z_scope.

(* ------------------------------------------------------------------ *)
(* 2-D arrays as lists of rows                                          *)
(* ------------------------------------------------------------------ *)
Definition grid (T : Type) := list (list T).

Definition get2 {T} (d : T) (g : grid T) (i j : Z) : T := nthZ d (nthZ [] g i) j.

Fixpoint set_nth {A} (l : list A) (n : nat) (v : A) : list A :=
  match l with
  | [] => []
  | a :: r => match n with O => v :: r | S k => a :: set_nth r k v end
  end.
Definition setZ {A} (l : list A) (i : Z) (v : A) : list A :=
  if i <? 0 then l else set_nth l (Z.to_nat i) v.
(* g[i, j] = v  (no effect when (i, j) is outside the array) *)
Definition set2 {T} (g : grid T) (i j : Z) (v : T) : grid T :=
  setZ g i (setZ (nthZ [] g i) j v).

Definition nrows {T} (g : grid T) : Z := lenZ g.                 (* g.shape[0] *)
Definition ncols {T} (g : grid T) : Z := lenZ (nthZ [] g 0).     (* g.shape[1] *)
Definition fill2 {T} (v : T) (r c : Z) : grid T := repeat (repeat v (Z.to_nat c)) (Z.to_nat r).
Definition refill {T} (v : T) (g : grid T) : grid T := map (map (fun _ => v)) g.   (* g.fill(v) *)
(* range(a, b) *)
Definition zrange (a b : Z) : list Z := ziota a (Z.to_nat (b - a)).

(* for ky in ys: for kx in xs: s = step s ky kx *)
Definition loop2 {S} (step : S -> Z -> Z -> S) (ys xs : list Z) (s : S) : S :=
  fold_left (fun s ky => fold_left (fun s kx => step s ky kx) xs s) ys s.

(* ------------------------------------------------------------------ *)
(* _apply_numpy(data, kernel, func)                                     *)
(* ------------------------------------------------------------------ *)
Section Apply.
  Context {T K : Type}.
  Variable nan : T.
  Variable zero : T.                 (* np.zeros_like: initial content of the scratch buffer *)
  Variable kd : K.                   (* value of an out-of-range kernel read (never happens for odd shapes) *)
  Variable is_one : K -> bool.       (* kernel[kyidx, kxidx] == 1 *)
  Variable func : grid T -> T.       (* the (jitted) reducer *)

  (*  if ky >= 0 and ky < rows and kx >= 0 and kx < cols:
          kyidx, kxidx = ky - (y - hrows), kx - (x - hcols)
          if kernel[kyidx, kxidx] == 1:
              kernel_values[kyidx, kxidx] = data[ky, kx]                 *)
  Definition apply_step (data : grid T) (kernel : grid K) (rows cols hrows hcols y x : Z)
             (kernel_values : grid T) (ky kx : Z) : grid T :=
    if (ky >=? 0) && (ky <? rows) && (kx >=? 0) && (kx <? cols) then
      let kyidx := ky - (y - hrows) in
      let kxidx := kx - (x - hcols) in
      if is_one (get2 kd kernel kyidx kxidx)
      then set2 kernel_values kyidx kxidx (get2 nan data ky kx)
      else kernel_values
    else kernel_values.

  (* the scratch buffer after the two inner loops of cell (y, x) *)
  Definition apply_window (data : grid T) (kernel : grid K) (rows cols hrows hcols : Z)
             (kernel_values : grid T) (y x : Z) : grid T :=
    loop2 (apply_step data kernel rows cols hrows hcols y x)
          (zrange (y - hrows) (y + hrows + 1)) (zrange (x - hcols) (x + hcols + 1))
          (refill nan kernel_values).

  (* one output row; the scratch buffer is threaded through all cells *)
  Definition apply_row (data : grid T) (kernel : grid K) (rows cols hrows hcols : Z)
             (kv : grid T) (y : Z) : grid T * list T :=
    fold_left (fun st x =>
                 let kv' := apply_window data kernel rows cols hrows hcols (fst st) y x in
                 (kv', snd st ++ [func kv']))
              (zrange 0 cols) (kv, []).

  Definition apply_numpy (data : grid T) (kernel : grid K) : grid T :=
    let rows := nrows data in
    let cols := ncols data in
    let krows := nrows kernel in
    let kcols := ncols kernel in
    let hrows := krows / 2 in          (* int(krows / 2) *)
    let hcols := kcols / 2 in
    let kernel_values := fill2 zero krows kcols in
    snd (fold_left (fun st y =>
                      let r := apply_row data kernel rows cols hrows hcols (fst st) y in
                      (fst r, snd st ++ [snd r]))
                   (zrange 0 rows) (kernel_values, [])).
End Apply.

(* ------------------------------------------------------------------ *)
(* convolution.custom_kernel: shape validation                          *)
(* ------------------------------------------------------------------ *)
Definition custom_kernel_ok (is_ndarray : bool) (rows cols : Z) : bool :=
  if negb is_ndarray then false
  else if (rows mod 2 =? 0) || (cols mod 2 =? 0) then false
  else true.

(* focal.apply: validate the kernel, then _apply_numpy; None = ValueError *)
Definition focal_apply {T K} (nan zero : T) (kd : K) (is_one : K -> bool) (func : grid T -> T)
           (data : grid T) (kernel : grid K) : option (grid T) :=
  if custom_kernel_ok true (nrows kernel) (ncols kernel)
  then Some (apply_numpy nan zero kd is_one func data kernel) else None.

(* ------------------------------------------------------------------ *)
(* exact cell values: rationals with NaN                                *)
(* ------------------------------------------------------------------ *)
Definition xq := option Q.

Definition qltb (a b : Q) : bool := (Qnum a * QDen b <? Qnum b * QDen a).
Definition qleb (a b : Q) : bool := (Qnum a * QDen b <=? Qnum b * QDen a).

Definition xlt (a b : xq) : bool :=
  match a, b with Some x, Some y => qltb x y | _, _ => false end.
Definition xgt (a b : xq) : bool :=
  match a, b with Some x, Some y => qltb y x | _, _ => false end.
Definition xadd (a b : xq) : xq :=
  match a, b with Some x, Some y => Some (x + y)%Q | _, _ => None end.
Definition xsub (a b : xq) : xq :=
  match a, b with Some x, Some y => Some (x - y)%Q | _, _ => None end.
Definition xdiv (a b : xq) : xq :=             (* the divisor is never 0 where this is used *)
  match a, b with Some x, Some y => Some (x / y)%Q | _, _ => None end.
Definition xscale (k : Q) (v : xq) : xq :=
  match v with Some x => Some (k * x)%Q | None => None end.

Fixpoint somes {A} (l : list (option A)) : list A :=
  match l with
  | [] => []
  | Some a :: r => a :: somes r
  | None :: r => somes r
  end.

(* the non-NaN values of an array in np.nditer (row-major) order *)
Definition wvals (w : grid xq) : list Q := somes (concat w).
Definition qsum (l : list Q) : Q := fold_left Qplus l 0%Q.

Section Stats.
  Variable qsqrt : Q -> Q.            (* x ** 0.5 — external *)

  Definition calc_sum (w : grid xq) : xq := Some (qsum (wvals w)).
  (* c / count; 0.0 / 0 = NaN *)
  Definition calc_mean (w : grid xq) : xq :=
    match wvals w with
    | [] => None
    | v => Some (qsum v / inject_Z (lenZ v))%Q
    end.
  (* numba nan_min_max_factory: return_val = first element; for the others:
       if not isnan(v): if not op(return_val, v): return_val = v          *)
  Definition nan_min_max (op : xq -> xq -> bool) (flat : list xq) : xq :=
    match flat with
    | [] => None
    | r0 :: rest =>
      fold_left (fun r v => match v with
                            | None => r
                            | Some _ => if negb (op r v) then v else r
                            end) rest r0
    end.
  Definition calc_min (w : grid xq) : xq := nan_min_max xlt (concat w).
  Definition calc_max (w : grid xq) : xq := nan_min_max xgt (concat w).
  Definition calc_range (w : grid xq) : xq :=
    let value_min := calc_min w in
    let value_max := calc_max w in
    xsub value_max value_min.
  (* m = nanmean(a); ssd = sum (v - m)^2; nan if count <= 0; ssd / count *)
  Definition calc_var (w : grid xq) : xq :=
    match calc_mean w with
    | None => None
    | Some m =>
      let v := wvals w in
      Some (qsum (map (fun x => (x - m) * (x - m))%Q v) / inject_Z (lenZ v))%Q
    end.
  Definition calc_std (w : grid xq) : xq :=
    match calc_var w with
    | None => None
    | Some v => Some (qsqrt (Qred v))
    end.

  Definition reducer_of (p : prim) : grid xq -> xq :=
    match p with
    | PNanmean => calc_mean
    | PNansum => calc_sum
    | PNanmin => calc_min
    | PNanmax => calc_max
    | PNanstd => calc_std
    | PNanvar => calc_var
    | PRangeOfMinMax => calc_range
    end.

  Fixpoint lookup (name : stat_name) (tbl : list (stat_name * prim)) : option prim :=
    match tbl with
    | [] => None
    | (n, p) :: r => if stat_code n =? stat_code name then Some p else lookup name r
    end.

  Definition is_one_q (k : Q) : bool := Qeq_bool k 1.

  (* _focal_stats_cpu: one apply per requested statistic, stacked in request order.
     None = KeyError (unknown name) or the kernel was rejected *)
  Fixpoint focal_stats_cpu (data : grid xq) (kernel : grid Q) (stats_funcs : list stat_name)
    : option (list (grid xq)) :=
    match stats_funcs with
    | [] => Some []
    | s :: rest =>
      match lookup s function_mapping with
      | None => None
      | Some p =>
        match focal_apply None (Some 0%Q) 0%Q is_one_q (reducer_of p) data kernel,
              focal_stats_cpu data kernel rest with
        | Some layer, Some layers => Some (layer :: layers)
        | _, _ => None
        end
      end
    end.
  Definition focal_stats (data : grid xq) (kernel : grid Q) (stats_funcs : list stat_name) :=
    if custom_kernel_ok true (nrows kernel) (ncols kernel)
    then focal_stats_cpu data kernel stats_funcs else None.

  (* ---------------------------------------------------------------- *)
  (* _mean_numpy(data, excludes) and mean(agg, passes, excludes)        *)
  (* ---------------------------------------------------------------- *)
  (* x == y or (isnan(x) and isnan(y)) *)
  Definition equal_numpy (x y : xq) : bool :=
    match x, y with
    | Some a, Some b => Qeq_bool a b
    | None, None => true
    | _, _ => false
    end.
  (* l[a:b] for 0 <= a *)
  Definition slice {A} (l : list A) (a b : Z) : list A :=
    firstn (Z.to_nat (b - a)) (skipn (Z.to_nat a) l).

  Definition mean_cell (data : grid xq) (excludes : list xq) (rows cols y x : Z) : xq :=
    let c := get2 None data y x in
    if existsb (fun ex => equal_numpy c ex) excludes then c
    else
      let left := Z.max (x - 1) 0 in
      let right := Z.min (x + 2) cols in
      let bottom := Z.max (y - 1) 0 in
      let top := Z.min (y + 2) rows in
      let kernel_data := map (fun r => slice r left right) (slice data bottom top) in
      calc_mean kernel_data.
  Definition mean_numpy (data : grid xq) (excludes : list xq) : grid xq :=
    let rows := nrows data in
    let cols := ncols data in
    map (fun y => map (fun x => mean_cell data excludes rows cols y x) (zrange 0 cols)) (zrange 0 rows).
  (* for i in range(passes): out = _mean(out, excludes) *)
  Definition mean (data : grid xq) (passes : Z) (excludes : list xq) : grid xq :=
    fold_left (fun out _ => mean_numpy out excludes) (zrange 0 passes) data.

  (* ---------------------------------------------------------------- *)
  (* _convolve_2d_numpy(data, kernel)                                   *)
  (* ---------------------------------------------------------------- *)
  (* num = 0.0; for ii: iii = wkx + ii - i; for jj: jjj = wky + jj - j;
        num += kernel[iii, jjj] * data[ii, jj]                          *)
  Definition conv_num (data : grid xq) (kernel : grid Q) (wkx wky i j iimin iimax jjmin jjmax : Z) : xq :=
    loop2 (fun num ii jj =>
             let iii := wkx + ii - i in
             let jjj := wky + jj - j in
             xadd num (xscale (get2 0%Q kernel iii jjj) (get2 None data ii jj)))
          (zrange iimin iimax) (zrange jjmin jjmax) (Some 0%Q).
  Definition conv_step (data : grid xq) (kernel : grid Q) (nx ny wkx wky : Z)
             (out : grid xq) (i j : Z) : grid xq :=
    let iimin := Z.max (i - wkx) 0 in
    let iimax := Z.min (i + wkx + 1) nx in
    let jjmin := Z.max (j - wky) 0 in
    let jjmax := Z.min (j + wky + 1) ny in
    set2 out i j (conv_num data kernel wkx wky i j iimin iimax jjmin jjmax).
  Definition convolve_2d (data : grid xq) (kernel : grid Q) : grid xq :=
    let nx := nrows data in
    let ny := ncols data in
    let nkx := nrows kernel in
    let nky := ncols kernel in
    let wkx := nkx / 2 in
    let wky := nky / 2 in
    let out := fill2 None nx ny in                      (* out[:] = np.nan *)
    loop2 (conv_step data kernel nx ny wkx wky) (zrange wkx (nx - wkx)) (zrange wky (ny - wky)) out.

  (* ---------------------------------------------------------------- *)
  (* _calc_hotspots_numpy and _hotspots_numpy                           *)
  (* ---------------------------------------------------------------- *)
  (* if a >= t1: p1 elif a >= t2: p2 ... else dflt *)
  Fixpoint p_of (a : Q) (ladder : list (Q * Q)) (dflt : Q) : Q :=
    match ladder with
    | [] => dflt
    | (t, p) :: r => if qleb t a then p else p_of a r dflt
    end.
  (* if a > t1 and p < q1: c1 elif ... else 0 *)
  Fixpoint conf_of (a p : Q) (ladder : list (Q * Q * Z)) : Z :=
    match ladder with
    | [] => 0
    | (t, q, c) :: r => if qltb t a && qltb p q then c else conf_of a p r
    end.
  Definition hot_cell (zs : xq) : Z :=
    match zs with
    | None => 0          (* every comparison with NaN is false: p = 1, confidence = 0, hot_cold = 0 *)
    | Some zscore =>
      let a := Qabs zscore in
      let p_value := p_of a p_ladder 1%Q in
      let confidence := conf_of a p_value conf_ladder in
      let hot_cold := if qltb 0 zscore then 1 else if qltb zscore 0 then -1 else 0 in
      hot_cold * confidence
    end.
  Definition calc_hotspots (z_array : grid xq) : grid Z := map (map hot_cell) z_array.

  (* None = ZeroDivisionError (global_std == 0) *)
  Definition hotspots_numpy (data : grid xq) (kernel : grid Q) : option (grid Z) :=
    let ksum := qsum (concat kernel) in                                 (* kernel.sum() *)
    let mean_array := convolve_2d data (map (map (fun k => k / ksum)%Q) kernel) in
    let global_mean := calc_mean data in                                 (* np.nanmean(data) *)
    let global_std := calc_std data in                                   (* np.nanstd(data) *)
    if (match global_std with Some s => Qeq_bool s 0 | None => false end) then None
    else
      let z_array := map (map (fun m => xdiv (xsub m global_mean) global_std)) mean_array in
      Some (calc_hotspots z_array).
End Stats.

(* ------------------------------------------------------------------ *)
(* Gallina twins of the jitted user reducers used by the harness        *)
(* ------------------------------------------------------------------ *)
Definition u_range (w : grid xq) : xq := xsub (calc_max w) (calc_min w).        (* np.nanmax(a) - np.nanmin(a) *)
Definition u_count (w : grid xq) : xq := Some (inject_Z (lenZ (wvals w))).      (* number of non-NaN cells *)
Definition u_nnan (w : grid xq) : xq :=                                         (* number of NaN cells *)
  Some (inject_Z (lenZ (concat w) - lenZ (wvals w))).
Definition u_first (w : grid xq) : xq := get2 None w 0 0.                       (* a[0, 0] *)
Definition u_idxsum (w : grid xq) : xq :=                                       (* sum (i*ncols + j + 1) * a[i, j] over non-NaN *)
  let nc := ncols w in
  Some (qsum (concat (map (fun i => somes (map (fun j =>
      xscale (inject_Z (i * nc + j + 1)) (get2 None w i j)) (zrange 0 nc))) (zrange 0 (nrows w))))).

Definition qred_x (v : xq) : xq := match v with Some q => Some (Qred q) | None => None end.
