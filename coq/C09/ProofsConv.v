(* C09/ProofsConv.v — _convolve_2d_numpy: for EVERY arithmetic instance the kernel-weighted sum over the
   full window (row-major, float64 accumulator, rounded once into the float32 output) and NaN where the
   window leaves the raster; exact instance: NaN exactly there or where the window covers a NaN. *)
Require Import Base.Prelude C09.Arith C09.Model C09.Proofs.
From Coq Require Import QArith.
Open Scope Z_scope.

Lemma fold_left_ext {S A} (F G : S -> A -> S) :
  (forall s a, F s a = G s a) -> forall l x, fold_left F l x = fold_left G l x.
Proof. intros H l; induction l as [|a l IH]; intros x; cbn; [reflexivity|]. now rewrite H, IH. Qed.

Lemma fold_ziota_shift {S} (f : S -> Z -> S) s : forall n t x,
  fold_left f (ziota (s + t) n) x = fold_left (fun acc a => f acc (a + s)) (ziota t n) x.
Proof.
  induction n as [|n IH]; intros t x; cbn [ziota fold_left]; [reflexivity|].
  replace (s + t + 1) with (s + (t + 1)) by lia. rewrite IH.
  replace (t + s) with (s + t) by lia. reflexivity.
Qed.

Lemma loop2_shift {S} (f : S -> Z -> Z -> S) s1 s2 n1 n2 x :
  loop2 f (ziota s1 n1) (ziota s2 n2) x =
  loop2 (fun acc a b => f acc (a + s1) (b + s2)) (ziota 0 n1) (ziota 0 n2) x.
Proof.
  unfold loop2.
  replace s1 with (s1 + 0) at 1 by lia. rewrite fold_ziota_shift.
  apply fold_left_ext. intros acc a.
  replace s2 with (s2 + 0) at 1 by lia. now rewrite fold_ziota_shift.
Qed.

(* the property's value: sum over the FULL window, row-major, in the float64 accumulator *)
Definition wsum (A : Arith) (data : grid (T32 A)) (kernel : grid (T64 A)) (wkx wky i j : Z) : T64 A :=
  loop2 (fun num a b => dadd A num (dmul A (get2 (dnan A) kernel a b)
                                         (widen A (get2 (snan A) data (i + a - wkx) (j + b - wky)))))
        (zrange 0 (2 * wkx + 1)) (zrange 0 (2 * wky + 1)) (dofZ A 0).

Section ConvSpec.
  Variable A : Arith.
  Variables (data : grid (T32 A)) (kernel : grid (T64 A)) (nx ny wkx wky : Z).
  Hypothesis Hwkx : 0 <= wkx.
  Hypothesis Hwky : 0 <= wky.
  Hypothesis Hdata : wf data nx ny.
  Hypothesis Hkernel : wf kernel (2 * wkx + 1) (2 * wky + 1).
  Hypothesis Hnx : 0 < nx.

  Lemma conv_num_interior i j :
    wkx <= i < nx - wkx -> wky <= j < ny - wky ->
    conv_num A data kernel wkx wky i j (Z.max (i - wkx) 0) (Z.min (i + wkx + 1) nx)
             (Z.max (j - wky) 0) (Z.min (j + wky + 1) ny) = wsum A data kernel wkx wky i j.
  Proof.
    intros Hi Hj. unfold conv_num, wsum, zrange.
    replace (Z.max (i - wkx) 0) with (i - wkx) by lia.
    replace (Z.min (i + wkx + 1) nx) with (i + wkx + 1) by lia.
    replace (Z.max (j - wky) 0) with (j - wky) by lia.
    replace (Z.min (j + wky + 1) ny) with (j + wky + 1) by lia.
    rewrite loop2_shift.
    replace (i + wkx + 1 - (i - wkx)) with (2 * wkx + 1 - 0) by lia.
    replace (j + wky + 1 - (j - wky)) with (2 * wky + 1 - 0) by lia.
    unfold loop2. apply fold_left_ext. intros s a. apply fold_left_ext. intros s' b. cbv zeta.
    replace (wkx + (a + (i - wkx)) - i) with a by lia.
    replace (wky + (b + (j - wky)) - j) with b by lia.
    replace (a + (i - wkx)) with (i + a - wkx) by lia.
    replace (b + (j - wky)) with (j + b - wky) by lia.
    reflexivity.
  Qed.

  Lemma conv_step_wf out i j : wf out nx ny -> wf (conv_step A data kernel nx ny wkx wky out i j) nx ny.
  Proof. intros. unfold conv_step. cbv zeta. now apply wf_set2. Qed.

  Lemma conv_step_get out i j a b :
    wf out nx ny -> 0 <= a < nx -> 0 <= b < ny ->
    get2 (snan A) (conv_step A data kernel nx ny wkx wky out i j) a b =
    if (a =? i - 0) && (b =? j - 0) && true
    then narrow A (conv_num A data kernel wkx wky i j (Z.max (i - wkx) 0) (Z.min (i + wkx + 1) nx)
                  (Z.max (j - wky) 0) (Z.min (j + wky + 1) ny))
    else get2 (snan A) out a b.
  Proof.
    intros [L C] Ha Hb. unfold conv_step. cbv zeta. rewrite get2_set2.
    rewrite andb_true_r.
    destruct (a =? i) eqn:Ea; destruct (a =? i - 0) eqn:Ea'; try lia; cbn [andb]; [|reflexivity].
    destruct (b =? j) eqn:Eb; destruct (b =? j - 0) eqn:Eb'; try lia; cbn [andb]; [|reflexivity].
    assert (a = i) by lia; assert (b = j) by lia; subst a b.
    destruct (0 <=? i) eqn:E1; [|lia]. destruct (i <? lenZ out) eqn:E2; [|lia].
    destruct (0 <=? j) eqn:E3; [|lia]. rewrite C by lia.
    destruct (j <? ny) eqn:E4; [|lia]. reflexivity.
  Qed.

  Theorem conv_spec i j : 0 <= i < nx -> 0 <= j < ny ->
    get2 (snan A) (convolve_2d A data kernel) i j =
    if (wkx <=? i) && (i <? nx - wkx) && (wky <=? j) && (j <? ny - wky)
    then narrow A (wsum A data kernel wkx wky i j) else snan A.
  Proof.
    intros Hi Hj.
    destruct Hdata as [L1 C1], Hkernel as [L2 C2].
    unfold convolve_2d, nrows, ncols. rewrite L1, L2, C1, C2 by lia.
    replace ((2 * wkx + 1) / 2) with wkx by lia. replace ((2 * wky + 1) / 2) with wky by lia.
    assert (Hny : 0 <= ny) by lia.
    destruct (loop2_stores (snan A) nx ny (conv_step A data kernel nx ny wkx wky) 0 0
                (fun _ _ => true)
                (fun i j => narrow A (conv_num A data kernel wkx wky i j (Z.max (i - wkx) 0) (Z.min (i + wkx + 1) nx)
                                     (Z.max (j - wky) 0) (Z.min (j + wky + 1) ny)))
                conv_step_wf conv_step_get
                wky (Z.to_nat (ny - wky - wky)) (Z.to_nat (nx - wkx - wkx)) wkx
                (fill2 (snan A) nx ny) (wf_fill2 (snan A) nx ny (Z.lt_le_incl _ _ Hnx) Hny)) as [_ G].
    unfold zrange. rewrite G by assumption.
    rewrite get2_fill2 by assumption. rewrite !Z.add_0_r, andb_true_r.
    destruct (wkx <=? i) eqn:E1; cbn [andb]; [|reflexivity].
    destruct (i <? nx - wkx) eqn:E2; destruct (i <? wkx + Z.of_nat (Z.to_nat (nx - wkx - wkx))) eqn:E2';
      try lia; cbn [andb]; [|reflexivity].
    destruct (wky <=? j) eqn:E3; cbn [andb]; [|reflexivity].
    destruct (j <? ny - wky) eqn:E4; destruct (j <? wky + Z.of_nat (Z.to_nat (ny - wky - wky))) eqn:E4';
      try lia; [|reflexivity].
    f_equal. apply conv_num_interior; lia.
  Qed.
  Lemma conv_wf : 0 <= ny -> wf (convolve_2d A data kernel) nx ny.
  Proof.
    intros Hny.
    destruct Hdata as [L1 C1], Hkernel as [L2 C2].
    unfold convolve_2d, nrows, ncols. rewrite L1, L2, C1, C2 by lia.
    replace ((2 * wkx + 1) / 2) with wkx by lia. replace ((2 * wky + 1) / 2) with wky by lia.
    destruct (loop2_stores (snan A) nx ny (conv_step A data kernel nx ny wkx wky) 0 0
                (fun _ _ => true)
                (fun i j => narrow A (conv_num A data kernel wkx wky i j (Z.max (i - wkx) 0) (Z.min (i + wkx + 1) nx)
                                     (Z.max (j - wky) 0) (Z.min (j + wky + 1) ny)))
                conv_step_wf conv_step_get
                wky (Z.to_nat (ny - wky - wky)) (Z.to_nat (nx - wkx - wkx)) wkx
                (fill2 (snan A) nx ny) (wf_fill2 (snan A) nx ny (Z.lt_le_incl _ _ Hnx) Hny)) as [W _].
    exact W.
  Qed.
End ConvSpec.

(* ---- NaN propagation of the weighted sum (exact instance) ---- *)
Lemma olift2_none f a b : olift2 f a b = None <-> a = None \/ b = None.
Proof. destruct a, b; cbn; split; intros; try discriminate; auto; destruct H; discriminate. Qed.

Lemma fold_oadd_none {X} (t : X -> xq) l : forall s,
  fold_left (fun num b => olift2 Qplus num (t b)) l s = None <-> s = None \/ exists b, In b l /\ t b = None.
Proof.
  induction l as [|b l IH]; intros s; cbn [fold_left].
  - split; [auto|]. intros [H|(b & [] & _)]; exact H.
  - rewrite IH, olift2_none. split.
    + intros [[H|H]|(b' & Hin & Hb')]; [left; exact H|right; exists b; split; [left; reflexivity|exact H]|].
      right; exists b'; split; [right; exact Hin|exact Hb'].
    + intros [H|(b' & [<-|Hin] & Hb')]; [left; left; exact H|left; right; exact Hb'|].
      right; exists b'; split; assumption.
Qed.

Lemma loop2_oadd_none (t : Z -> Z -> xq) xs ys : forall s,
  loop2 (fun num a b => olift2 Qplus num (t a b)) ys xs s = None <->
  s = None \/ exists a b, In a ys /\ In b xs /\ t a b = None.
Proof.
  unfold loop2. induction ys as [|a ys IH]; intros s; cbn [fold_left].
  - split; [auto|]. intros [H|(a & b & [] & _)]; exact H.
  - rewrite IH, (fold_oadd_none (t a)). split.
    + intros [[H|(b & Hb & Hn)]|(a' & b & Ha & Hb & Hn)].
      * left; exact H.
      * right; exists a, b; repeat split; [left; reflexivity|exact Hb|exact Hn].
      * right; exists a', b; repeat split; [right; exact Ha|exact Hb|exact Hn].
    + intros [H|(a' & b & [<-|Ha] & Hb & Hn)].
      * left; left; exact H.
      * left; right; exists b; split; assumption.
      * right; exists a', b; repeat split; assumption.
Qed.

(* the weighted sum is NaN iff some cell of the full window (even under a zero weight) or some weight is NaN *)
Lemma wsum_none qs data kernel wkx wky i j :
  wsum (ExactArith qs) data kernel wkx wky i j = None <->
  exists a b, 0 <= a < 2 * wkx + 1 /\ 0 <= b < 2 * wky + 1 /\
              (get2 None kernel a b = None \/ get2 None data (i + a - wkx) (j + b - wky) = None).
Proof.
  unfold wsum. cbn [dadd dmul widen dnan snan dofZ ExactArith].
  rewrite (loop2_oadd_none (fun a b => olift2 Qmult (get2 None kernel a b) (get2 None data (i + a - wkx) (j + b - wky)))).
  split.
  - intros [H|(a & b & Ha & Hb & Hn)]; [discriminate|].
    apply zrange_In in Ha, Hb. apply olift2_none in Hn. exists a, b. repeat split; try lia; exact Hn.
  - intros (a & b & Ha & Hb & Hn). right. exists a, b.
    repeat split; try (apply zrange_In; lia). apply olift2_none; exact Hn.
Qed.

(* ---- every instance whose operations absorb NaN: a NaN under the window (or a NaN weight) gives NaN ---- *)
Definition nan_absorbing (A : Arith) : Prop :=
  (forall a b, disnan A a = true \/ disnan A b = true -> disnan A (dadd A a b) = true) /\
  (forall a b, disnan A a = true \/ disnan A b = true -> disnan A (dmul A a b) = true) /\
  (forall v, sisnan A v = true -> disnan A (widen A v) = true) /\
  (forall d, disnan A d = true -> sisnan A (narrow A d) = true).

Lemma exact_nan_absorbing qs : nan_absorbing (ExactArith qs).
Proof.
  repeat split.
  - intros [a|] [b|] [H|H]; cbn in *; congruence.
  - intros [a|] [b|] [H|H]; cbn in *; congruence.
  - intros v H; exact H.
  - intros d H; exact H.
Qed.

Section NanPropagates.
  Variable A : Arith.
  Hypothesis HA : nan_absorbing A.

  Lemma fold_dadd_nan {X} (t : X -> T64 A) l : forall s,
    disnan A s = true \/ (exists b, In b l /\ disnan A (t b) = true) ->
    disnan A (fold_left (fun num b => dadd A num (t b)) l s) = true.
  Proof.
    destruct HA as (Hadd & _).
    induction l as [|b l IH]; intros s H; cbn [fold_left].
    - destruct H as [H|(b & [] & _)]; exact H.
    - apply IH. destruct H as [H|(b' & [<-|Hin] & Hb)].
      + left. apply Hadd. left; exact H.
      + left. apply Hadd. right; exact Hb.
      + right. exists b'. split; assumption.
  Qed.

  Lemma loop2_dadd_nan (t : Z -> Z -> T64 A) xs ys : forall s,
    disnan A s = true \/ (exists a b, In a ys /\ In b xs /\ disnan A (t a b) = true) ->
    disnan A (loop2 (fun num a b => dadd A num (t a b)) ys xs s) = true.
  Proof.
    unfold loop2. induction ys as [|a ys IH]; intros s H; cbn [fold_left].
    - destruct H as [H|(a & b & [] & _)]; exact H.
    - apply IH. destruct H as [H|(a' & b & [<-|Ha] & Hb & Hn)].
      + left. apply (fold_dadd_nan (t a)). left; exact H.
      + left. apply (fold_dadd_nan (t a)). right. exists b. split; assumption.
      + right. exists a', b. repeat split; assumption.
  Qed.

  Lemma wsum_nan_propagates data kernel wkx wky i j :
    (exists a b, 0 <= a < 2 * wkx + 1 /\ 0 <= b < 2 * wky + 1 /\
                 (disnan A (get2 (dnan A) kernel a b) = true \/
                  sisnan A (get2 (snan A) data (i + a - wkx) (j + b - wky)) = true)) ->
    sisnan A (narrow A (wsum A data kernel wkx wky i j)) = true.
  Proof.
    intros (a & b & Ha & Hb & Hn). destruct HA as (_ & Hmul & Hw & Hnar).
    apply Hnar. unfold wsum.
    apply (loop2_dadd_nan (fun a b => dmul A (get2 (dnan A) kernel a b)
                                            (widen A (get2 (snan A) data (i + a - wkx) (j + b - wky))))).
    right. exists a, b. repeat split; try (apply zrange_In; lia).
    apply Hmul. destruct Hn as [Hn|Hn]; [left; exact Hn|right; apply Hw; exact Hn].
  Qed.
End NanPropagates.
