(* C09/ProofsConv.v — _convolve_2d_numpy: kernel-weighted sum over the full window,
   NaN exactly where the window leaves the raster (or covers a NaN cell). *)
Require Import Base.Prelude C09.Model C09.Proofs.
From Coq Require Import QArith.
Open Scope Z_scope.

Lemma fold_left_ext {S A} (F G : S -> A -> S) :
  (forall s a, F s a = G s a) -> forall l x, fold_left F l x = fold_left G l x.
Proof. intros H l; induction l as [|a l IH]; intros x; cbn; [reflexivity|]. now rewrite H, IH. Qed.

Lemma fold_ziota_shift {S} (f : S -> Z -> S) s : forall n t x,
  fold_left f (ziota (s + t) n) x = fold_left (fun acc a => f acc (a + s)) (ziota t n) x.
Proof.
  induction n as [|n IH]; intros t x; cbn [ziota fold_left]; [reflexivity|].
  replace (s + t + 1) with (s + (t + 1)) by lia. rewrite IH.
  replace (t + s) with (s + t) by lia. reflexivity.
Qed.

Lemma loop2_shift {S} (f : S -> Z -> Z -> S) s1 s2 n1 n2 x :
  loop2 f (ziota s1 n1) (ziota s2 n2) x =
  loop2 (fun acc a b => f acc (a + s1) (b + s2)) (ziota 0 n1) (ziota 0 n2) x.
Proof.
  unfold loop2.
  replace s1 with (s1 + 0) at 1 by lia. rewrite fold_ziota_shift.
  apply fold_left_ext. intros acc a.
  replace s2 with (s2 + 0) at 1 by lia. now rewrite fold_ziota_shift.
Qed.

(* the property's value: sum over the FULL window, row-major, NaN-propagating *)
Definition wsum (data : grid xq) (kernel : grid Q) (wkx wky i j : Z) : xq :=
  loop2 (fun num a b => xadd num (xscale (get2 0%Q kernel a b) (get2 None data (i + a - wkx) (j + b - wky))))
        (zrange 0 (2 * wkx + 1)) (zrange 0 (2 * wky + 1)) (Some 0%Q).

Section ConvSpec.
  Variables (data : grid xq) (kernel : grid Q) (nx ny wkx wky : Z).
  Hypothesis Hwkx : 0 <= wkx.
  Hypothesis Hwky : 0 <= wky.
  Hypothesis Hdata : wf data nx ny.
  Hypothesis Hkernel : wf kernel (2 * wkx + 1) (2 * wky + 1).
  Hypothesis Hnx : 0 < nx.

  Lemma conv_num_interior i j :
    wkx <= i < nx - wkx -> wky <= j < ny - wky ->
    conv_num data kernel wkx wky i j (Z.max (i - wkx) 0) (Z.min (i + wkx + 1) nx)
             (Z.max (j - wky) 0) (Z.min (j + wky + 1) ny) = wsum data kernel wkx wky i j.
  Proof.
    intros Hi Hj. unfold conv_num, wsum, zrange.
    replace (Z.max (i - wkx) 0) with (i - wkx) by lia.
    replace (Z.min (i + wkx + 1) nx) with (i + wkx + 1) by lia.
    replace (Z.max (j - wky) 0) with (j - wky) by lia.
    replace (Z.min (j + wky + 1) ny) with (j + wky + 1) by lia.
    rewrite loop2_shift.
    replace (i + wkx + 1 - (i - wkx)) with (2 * wkx + 1 - 0) by lia.
    replace (j + wky + 1 - (j - wky)) with (2 * wky + 1 - 0) by lia.
    unfold loop2. apply fold_left_ext. intros s a. apply fold_left_ext. intros s' b. cbv zeta.
    replace (wkx + (a + (i - wkx)) - i) with a by lia.
    replace (wky + (b + (j - wky)) - j) with b by lia.
    replace (a + (i - wkx)) with (i + a - wkx) by lia.
    replace (b + (j - wky)) with (j + b - wky) by lia.
    reflexivity.
  Qed.

  Lemma conv_step_wf out i j : wf out nx ny -> wf (conv_step data kernel nx ny wkx wky out i j) nx ny.
  Proof. intros. unfold conv_step. cbv zeta. now apply wf_set2. Qed.

  Lemma conv_step_get out i j a b :
    wf out nx ny -> 0 <= a < nx -> 0 <= b < ny ->
    get2 None (conv_step data kernel nx ny wkx wky out i j) a b =
    if (a =? i - 0) && (b =? j - 0) && true
    then conv_num data kernel wkx wky i j (Z.max (i - wkx) 0) (Z.min (i + wkx + 1) nx)
                  (Z.max (j - wky) 0) (Z.min (j + wky + 1) ny)
    else get2 None out a b.
  Proof.
    intros [L C] Ha Hb. unfold conv_step. cbv zeta. rewrite get2_set2.
    unfold xq in *. rewrite andb_true_r.
    destruct (a =? i) eqn:Ea; destruct (a =? i - 0) eqn:Ea'; try lia; cbn [andb]; [|reflexivity].
    destruct (b =? j) eqn:Eb; destruct (b =? j - 0) eqn:Eb'; try lia; cbn [andb]; [|reflexivity].
    assert (a = i) by lia; assert (b = j) by lia; subst a b.
    destruct (0 <=? i) eqn:E1; [|lia]. destruct (i <? lenZ out) eqn:E2; [|lia].
    destruct (0 <=? j) eqn:E3; [|lia]. rewrite C by lia.
    destruct (j <? ny) eqn:E4; [|lia]. reflexivity.
  Qed.

  Theorem conv_spec i j : 0 <= i < nx -> 0 <= j < ny ->
    get2 None (convolve_2d data kernel) i j =
    if (wkx <=? i) && (i <? nx - wkx) && (wky <=? j) && (j <? ny - wky)
    then wsum data kernel wkx wky i j else None.
  Proof.
    intros Hi Hj.
    destruct Hdata as [L1 C1], Hkernel as [L2 C2].
    unfold convolve_2d, nrows, ncols. rewrite L1, L2, C1, C2 by lia.
    replace ((2 * wkx + 1) / 2) with wkx by lia. replace ((2 * wky + 1) / 2) with wky by lia.
    assert (Hny : 0 <= ny) by lia.
    destruct (loop2_stores None nx ny (conv_step data kernel nx ny wkx wky) 0 0
                (fun _ _ => true)
                (fun i j => conv_num data kernel wkx wky i j (Z.max (i - wkx) 0) (Z.min (i + wkx + 1) nx)
                                     (Z.max (j - wky) 0) (Z.min (j + wky + 1) ny))
                conv_step_wf conv_step_get
                wky (Z.to_nat (ny - wky - wky)) (Z.to_nat (nx - wkx - wkx)) wkx
                (fill2 None nx ny) (wf_fill2 None nx ny (Z.lt_le_incl _ _ Hnx) Hny)) as [_ G].
    unfold zrange. rewrite G by assumption.
    rewrite get2_fill2 by assumption. rewrite !Z.add_0_r, andb_true_r.
    destruct (wkx <=? i) eqn:E1; cbn [andb]; [|reflexivity].
    destruct (i <? nx - wkx) eqn:E2; destruct (i <? wkx + Z.of_nat (Z.to_nat (nx - wkx - wkx))) eqn:E2';
      try lia; cbn [andb]; [|reflexivity].
    destruct (wky <=? j) eqn:E3; cbn [andb]; [|reflexivity].
    destruct (j <? ny - wky) eqn:E4; destruct (j <? wky + Z.of_nat (Z.to_nat (ny - wky - wky))) eqn:E4';
      try lia; [|reflexivity].
    apply conv_num_interior; lia.
  Qed.
  Lemma conv_wf : 0 <= ny -> wf (convolve_2d data kernel) nx ny.
  Proof.
    intros Hny.
    destruct Hdata as [L1 C1], Hkernel as [L2 C2].
    unfold convolve_2d, nrows, ncols. rewrite L1, L2, C1, C2 by lia.
    replace ((2 * wkx + 1) / 2) with wkx by lia. replace ((2 * wky + 1) / 2) with wky by lia.
    destruct (loop2_stores None nx ny (conv_step data kernel nx ny wkx wky) 0 0
                (fun _ _ => true)
                (fun i j => conv_num data kernel wkx wky i j (Z.max (i - wkx) 0) (Z.min (i + wkx + 1) nx)
                                     (Z.max (j - wky) 0) (Z.min (j + wky + 1) ny))
                conv_step_wf conv_step_get
                wky (Z.to_nat (ny - wky - wky)) (Z.to_nat (nx - wkx - wkx)) wkx
                (fill2 None nx ny) (wf_fill2 None nx ny (Z.lt_le_incl _ _ Hnx) Hny)) as [W _].
    exact W.
  Qed.
End ConvSpec.

(* ---- NaN propagation of the weighted sum ---- *)
Lemma xadd_none a b : xadd a b = None <-> a = None \/ b = None.
Proof. destruct a, b; cbn; split; intros; try discriminate; auto; destruct H; discriminate. Qed.

Lemma xscale_none k v : xscale k v = None <-> v = None.
Proof. destruct v; cbn; split; intros; try discriminate; auto. Qed.

Lemma fold_xadd_none {A} (t : A -> xq) l : forall s,
  fold_left (fun num b => xadd num (t b)) l s = None <-> s = None \/ exists b, In b l /\ t b = None.
Proof.
  induction l as [|b l IH]; intros s; cbn [fold_left].
  - split; [auto|]. intros [H|(b & [] & _)]; exact H.
  - rewrite IH, xadd_none. split.
    + intros [[H|H]|(b' & Hin & Hb')]; [left; exact H|right; exists b; split; [left; reflexivity|exact H]|].
      right; exists b'; split; [right; exact Hin|exact Hb'].
    + intros [H|(b' & [<-|Hin] & Hb')]; [left; left; exact H|left; right; exact Hb'|].
      right; exists b'; split; assumption.
Qed.

Lemma loop2_xadd_none (t : Z -> Z -> xq) xs ys : forall s,
  loop2 (fun num a b => xadd num (t a b)) ys xs s = None <->
  s = None \/ exists a b, In a ys /\ In b xs /\ t a b = None.
Proof.
  unfold loop2. induction ys as [|a ys IH]; intros s; cbn [fold_left].
  - split; [auto|]. intros [H|(a & b & [] & _)]; exact H.
  - rewrite IH, (fold_xadd_none (t a)). split.
    + intros [[H|(b & Hb & Hn)]|(a' & b & Ha & Hb & Hn)].
      * left; exact H.
      * right; exists a, b; repeat split; [left; reflexivity|exact Hb|exact Hn].
      * right; exists a', b; repeat split; [right; exact Ha|exact Hb|exact Hn].
    + intros [H|(a' & b & [<-|Ha] & Hb & Hn)].
      * left; left; exact H.
      * left; right; exists b; split; assumption.
      * right; exists a', b; repeat split; assumption.
Qed.

(* the weighted sum is NaN iff some cell of the full window is NaN (even under a zero weight) *)
Lemma wsum_none data kernel wkx wky i j :
  wsum data kernel wkx wky i j = None <->
  exists a b, 0 <= a < 2 * wkx + 1 /\ 0 <= b < 2 * wky + 1 /\ get2 None data (i + a - wkx) (j + b - wky) = None.
Proof.
  unfold wsum.
  rewrite (loop2_xadd_none (fun a b => xscale (get2 0%Q kernel a b) (get2 None data (i + a - wkx) (j + b - wky)))).
  split.
  - intros [H|(a & b & Ha & Hb & Hn)]; [discriminate|].
    apply zrange_In in Ha, Hb. apply xscale_none in Hn. exists a, b. repeat split; try lia; exact Hn.
  - intros (a & b & Ha & Hb & Hn). right. exists a, b.
    repeat split; try (apply zrange_In; lia). apply xscale_none; exact Hn.
Qed.
