(* C09/Arith.v — the arithmetic interface the focal kernels are written against, and
   its two instances (adapted from coq/C08/Arith.v; nothing is imported across directories):
     * [FloatArith]  : T32 = binary32 as SpecFloat operations at (prec 24, emax 128),
                       T64 = binary64 = PrimFloat; executed / extracted, compared
                       bit-for-bit with the Numba kernels;
     * [ExactArith]  : both carriers are [option Q] (None = NaN), every operation exact;
                       carries the algebraic theorems (axiom-free).
   Numba's promotion rules are written out in the kernels with [widen] (float32 ->
   float64, exact) and [narrow] (float64 -> float32, round to nearest even: a store
   into a float32 array / astype(float32)).  Definitions only. *)
Require Import Base.Prelude.
From Coq Require Import QArith Qabs PrimFloat SpecFloat FloatOps.
Close Scope Q_scope.
Open Scope Z_scope.

Record Arith : Type := mkArith {
  T32 : Type;                       (* float32 values *)
  T64 : Type;                       (* float64 values *)
  sadd : T32 -> T32 -> T32;  ssub : T32 -> T32 -> T32;
  smul : T32 -> T32 -> T32;  sdiv : T32 -> T32 -> T32;
  ssqrt : T32 -> T32;        sabs : T32 -> T32;
  dadd : T64 -> T64 -> T64;  dsub : T64 -> T64 -> T64;
  dmul : T64 -> T64 -> T64;  ddiv : T64 -> T64 -> T64;
  dsqrt : T64 -> T64;
  widen : T32 -> T64;        narrow : T64 -> T32;
  dofZ : Z -> T64;                  (* integer literals / counts *)
  dconst : Q -> T64;                (* a float literal of the source, given by its exact value *)
  snan : T32;                dnan : T64;
  sltb : T32 -> T32 -> bool;
  deqb : T64 -> T64 -> bool; dltb : T64 -> T64 -> bool; dleb : T64 -> T64 -> bool;
  sisnan : T32 -> bool;      disnan : T64 -> bool
}.

(* ------------------------------------------------------------------ *)
(* exact instance                                                      *)
(* ------------------------------------------------------------------ *)
Definition xq := option Q.

Definition qltb (a b : Q) : bool := (Qnum a * QDen b <? Qnum b * QDen a).
Definition qleb (a b : Q) : bool := (Qnum a * QDen b <=? Qnum b * QDen a).

Definition olift1 (f : Q -> Q) (a : xq) : xq :=
  match a with Some x => Some (f x) | None => None end.
Definition olift2 (f : Q -> Q -> Q) (a b : xq) : xq :=
  match a, b with Some x, Some y => Some (f x y) | _, _ => None end.
(* x / 0 is NaN in the exact instance: it has no infinities (0.0 / 0 = NaN is what the kernels rely on) *)
Definition odiv (a b : xq) : xq :=
  match a, b with
  | Some x, Some y => if Qeq_bool y 0%Q then None else Some (x / y)%Q
  | _, _ => None
  end.
Definition ocmp (f : Q -> Q -> bool) (a b : xq) : bool :=
  match a, b with Some x, Some y => f x y | _, _ => false end.
Definition oisnan (a : xq) : bool := match a with None => true | Some _ => false end.

Section Exact.
  Variable qsqrt : Q -> Q.          (* abstract square root; applied to the reduced fraction *)
  Definition osqrt (a : xq) : xq :=
    match a with
    | Some x => if qleb 0%Q x then Some (qsqrt (Qred x)) else None
    | None => None
    end.
  Definition ExactArith : Arith := {|
    T32 := xq; T64 := xq;
    sadd := olift2 Qplus; ssub := olift2 Qminus; smul := olift2 Qmult; sdiv := odiv;
    ssqrt := osqrt; sabs := olift1 Qabs;
    dadd := olift2 Qplus; dsub := olift2 Qminus; dmul := olift2 Qmult; ddiv := odiv;
    dsqrt := osqrt;
    widen := fun x => x; narrow := fun x => x;
    dofZ := fun z => Some (inject_Z z);
    dconst := fun q => Some q;
    snan := None; dnan := None;
    sltb := ocmp qltb;
    deqb := ocmp Qeq_bool; dltb := ocmp qltb; dleb := ocmp qleb;
    sisnan := oisnan; disnan := oisnan
  |}.
End Exact.

(* ------------------------------------------------------------------ *)
(* float instance                                                      *)
(* ------------------------------------------------------------------ *)
Definition prec32 : Z := 24.
Definition emax32 : Z := 128.

(* Z -> binary64 from float operations only (exact below 2^53) *)
Fixpoint pos_to_float (p : positive) : float :=
  match p with
  | xH => 1%float
  | xO q => (2 * pos_to_float q)%float
  | xI q => (2 * pos_to_float q + 1)%float
  end.
Definition Z_to_float (z : Z) : float :=
  match z with
  | Z0 => 0%float
  | Zpos p => pos_to_float p
  | Zneg p => (- pos_to_float p)%float
  end.
(* the exact value n/d of a double literal (d a power of two, n < 2^53): both conversions and the division are exact *)
Definition Q_to_float (q : Q) : float := (Z_to_float (Qnum q) / pos_to_float (Qden q))%float.
(* f * 2^e by repeated exact doubling / halving *)
Definition scale2 (f : float) (e : Z) : float :=
  match e with
  | Z0 => f
  | Zpos n => Pos.iter (fun x => (x * 2)%float) f n
  | Zneg n => Pos.iter (fun x => (x / 2)%float) f n
  end.
(* binary32 -> binary64: exact (every binary32 number is a normal binary64 number) *)
Definition f64_of_b32 (x : spec_float) : float :=
  match x with
  | S754_nan => nan
  | S754_zero false => 0%float
  | S754_zero true => (-0)%float
  | S754_infinity false => infinity
  | S754_infinity true => neg_infinity
  | S754_finite s m e =>
    let f := scale2 (pos_to_float m) e in if s then (- f)%float else f
  end.
(* binary64 -> binary32: round to nearest even (a store into a float32 array) *)
Definition b32_of_f64 (x : float) : spec_float :=
  match Prim2SF x with
  | S754_finite s m e => binary_round prec32 emax32 s m e
  | y => y
  end.
Definition sf_isnan (x : spec_float) : bool := match x with S754_nan => true | _ => false end.

Definition FloatArith : Arith := {|
  T32 := spec_float; T64 := float;
  sadd := SFadd prec32 emax32; ssub := SFsub prec32 emax32;
  smul := SFmul prec32 emax32; sdiv := SFdiv prec32 emax32;
  ssqrt := SFsqrt prec32 emax32; sabs := SFabs;
  dadd := PrimFloat.add; dsub := PrimFloat.sub; dmul := PrimFloat.mul; ddiv := PrimFloat.div;
  dsqrt := PrimFloat.sqrt;
  widen := f64_of_b32; narrow := b32_of_f64;
  dofZ := Z_to_float;
  dconst := Q_to_float;
  snan := S754_nan; dnan := nan;
  sltb := SFltb;
  deqb := PrimFloat.eqb; dltb := PrimFloat.ltb; dleb := PrimFloat.leb;
  sisnan := sf_isnan; disnan := PrimFloat.is_nan
|}.
