(* C09/ProofsMean3.v — focal mean of a non-excluded cell = focal apply with a full 3x3 kernel and nanmean. *)
Require Import Base.Prelude C09.Generated C09.Arith C09.Model C09.Proofs C09.ProofsStats C09.ProofsMean C09.ProofsNeg.
From Coq Require Import QArith.
Open Scope Z_scope.

Definition ones33 : grid xq := fill2 (Some 1%Q) 3 3.

Lemma zrange3 a : zrange a (a + 3) = [a; a + 1; a + 1 + 1].
Proof. unfold zrange. replace (Z.to_nat (a + 3 - a)) with 3%nat by lia. reflexivity. Qed.

(* the clipped 3x3 block is exactly the set of cells under a full 3x3 kernel centred on the cell *)
Lemma clipped3x3_cells_under qs (data : grid xq) rows cols y x :
  clipped3x3 None data rows cols y x =
  cells_under None None (is_one (ExactArith qs)) data ones33 rows cols 1 1 y x.
Proof.
  unfold clipped3x3, cells_under.
  replace (y + 2) with (y - 1 + 3) by lia. replace (x + 2) with (x - 1 + 3) by lia.
  rewrite !zrange3.
  change (zrange 0 (2 * 1 + 1)) with [0; 1; 2].
  cbn [map concat app]. cbv zeta.
  change (is_one (ExactArith qs) (get2 None ones33 0 0)) with true. change (is_one (ExactArith qs) (get2 None ones33 0 1)) with true.
  change (is_one (ExactArith qs) (get2 None ones33 0 2)) with true. change (is_one (ExactArith qs) (get2 None ones33 1 0)) with true.
  change (is_one (ExactArith qs) (get2 None ones33 1 1)) with true. change (is_one (ExactArith qs) (get2 None ones33 1 2)) with true.
  change (is_one (ExactArith qs) (get2 None ones33 2 0)) with true. change (is_one (ExactArith qs) (get2 None ones33 2 1)) with true.
  change (is_one (ExactArith qs) (get2 None ones33 2 2)) with true.
  change (0 + 1 + 1) with 2. change (0 + 1) with 1.
  replace (y + 0 - 1) with (y - 1) by lia. replace (y + 1 - 1) with (y - 1 + 1) by lia.
  replace (y + 2 - 1) with (y - 1 + 1 + 1) by lia.
  replace (x + 0 - 1) with (x - 1) by lia. replace (x + 1 - 1) with (x - 1 + 1) by lia.
  replace (x + 2 - 1) with (x - 1 + 1 + 1) by lia.
  rewrite !andb_true_r. rewrite <- !andb_assoc.
  destruct (0 <=? y - 1), (y - 1 <? rows), (0 <=? y - 1 + 1), (y - 1 + 1 <? rows),
           (0 <=? y - 1 + 1 + 1), (y - 1 + 1 + 1 <? rows); cbn [andb];
  destruct ((0 <=? x - 1) && (x - 1 <? cols)); destruct ((0 <=? x - 1 + 1) && (x - 1 + 1 <? cols));
  destruct ((0 <=? x - 1 + 1 + 1) && (x - 1 + 1 + 1 <? cols)); reflexivity.
Qed.

(* focal mean of a non-excluded cell = focal apply with a full 3x3 kernel and the nanmean reducer (exact instance) *)
Lemma mean_is_apply_3x3 qs rows cols excludes (data : grid xq) y x :
  0 < rows -> wf data rows cols -> 0 <= y < rows -> 0 <= x < cols ->
  excluded (ExactArith qs) excludes (get2 None data y x) = false ->
  get2 None (mean_numpy (ExactArith qs) data excludes) y x =
  calc_mean (ExactArith qs) (window_spec None None (is_one (ExactArith qs)) data ones33 rows cols 1 1 y x).
Proof.
  intros Hr Hd Hy Hx He.
  pose proof (mean_numpy_spec (ExactArith qs) rows cols excludes Hr data y x Hd Hy Hx) as H.
  cbn [dnan disnan T64 ExactArith] in H. unfold xq in *. rewrite He in H. rewrite H.
  rewrite (nanmean_gen_exact qs).
  rewrite calc_mean_nanmean, wvals_window, <- (clipped3x3_cells_under qs). reflexivity.
Qed.
