(* C09/ProofsMean.v — _mean_numpy / mean, for EVERY arithmetic instance: the nanmean loop over the clipped
   3x3 block, excluded values pass through, passes = iteration; exact instance: the loop is sum / count. *)
Require Import Base.Prelude C09.Arith C09.Model C09.Proofs.
From Coq Require Import QArith.
Open Scope Z_scope.

Lemma zrange_nil a b : b <= a -> zrange a b = [].
Proof. intros; unfold zrange. replace (Z.to_nat (b - a)) with O by lia. reflexivity. Qed.

Lemma zrange_cons a b : a < b -> zrange a b = a :: zrange (a + 1) b.
Proof.
  intros; unfold zrange. replace (Z.to_nat (b - a)) with (S (Z.to_nat (b - (a + 1)))) by lia. reflexivity.
Qed.

(* ---- slices ---- *)
Lemma nth_skipn_add {A} (d : A) : forall a l k, nth k (skipn a l) d = nth (a + k) l d.
Proof.
  induction a as [|a IH]; intros l k; [reflexivity|].
  destruct l as [|x l]; [destruct k; reflexivity|]. cbn. apply IH.
Qed.

Lemma nth_firstn_lt {A} (d : A) : forall n l k, (k < n)%nat -> nth k (firstn n l) d = nth k l d.
Proof.
  induction n as [|n IH]; intros l k Hk; [lia|].
  destruct l as [|x l]; [reflexivity|]. destruct k as [|k]; [reflexivity|]. cbn. apply IH; lia.
Qed.

Lemma slice_spec {A} (d : A) l a b :
  0 <= a -> a <= b -> b <= lenZ l -> slice l a b = map (nthZ d l) (zrange a b).
Proof.
  intros Ha Hab Hb. unfold lenZ in Hb.
  apply list_ext with (d := d).
  - rewrite lenZ_map, lenZ_zrange by lia. unfold slice, lenZ.
    rewrite firstn_length, skipn_length. lia.
  - intros i Hi.
    assert (Hlen : lenZ (slice l a b) = b - a).
    { unfold slice, lenZ. rewrite firstn_length, skipn_length. lia. }
    rewrite Hlen in Hi.
    rewrite nthZ_map_zrange by lia.
    unfold slice, nthZ.
    destruct (i <? 0) eqn:E1; [lia|]. destruct (a + i <? 0) eqn:E2; [lia|].
    rewrite nth_firstn_lt by lia. rewrite nth_skipn_add. f_equal. lia.
Qed.

(* iterating over a clipped range = iterating over the full range and skipping what is outside *)
Lemma clip_range {B} (g : Z -> list B) n : forall k a,
  concat (map g (zrange (Z.max a 0) (Z.min (a + Z.of_nat k) n))) =
  concat (map (fun i => if (0 <=? i) && (i <? n) then g i else []) (zrange a (a + Z.of_nat k))).
Proof.
  induction k as [|k IH]; intros a.
  - rewrite !zrange_nil by lia. reflexivity.
  - rewrite (zrange_cons a) by lia. cbn [map concat].
    replace (a + Z.of_nat (S k)) with (a + 1 + Z.of_nat k) by lia.
    rewrite <- IH.
    destruct (0 <=? a) eqn:E1; cbn [andb].
    + destruct (a <? n) eqn:E2.
      * replace (Z.max a 0) with a by lia.
        rewrite (zrange_cons a) by lia. cbn [map concat].
        replace (Z.max (a + 1) 0) with (a + 1) by lia. reflexivity.
      * rewrite !zrange_nil by lia. reflexivity.
    + replace (Z.max (a + 1) 0) with (Z.max a 0) by lia. reflexivity.
Qed.

Lemma concat_singletons {A B} (f : A -> B) l : map f l = concat (map (fun a => [f a]) l).
Proof. induction l as [|a l IH]; cbn; [reflexivity|]. now rewrite IH. Qed.

(* ---- the property's neighbourhood: the cells of the 3x3 block around (y, x) that exist ---- *)
Definition clipped3x3 {X} (d : X) (data : grid X) (rows cols y x : Z) : list X :=
  concat (map (fun yy => if (0 <=? yy) && (yy <? rows)
                         then concat (map (fun xx => if (0 <=? xx) && (xx <? cols)
                                                     then [get2 d data yy xx] else [])
                                          (zrange (x - 1) (x + 2)))
                         else [])
              (zrange (y - 1) (y + 2))).

Definition nanmean_list (v : list Q) : xq :=
  match v with [] => None | _ => Some (qsum v / inject_Z (lenZ v))%Q end.

Section MeanSpec.
  Variable A : Arith.
  Variables (rows cols : Z) (excludes : list (T64 A)).
  Hypothesis Hrows : 0 < rows.

  Definition excluded (c : T64 A) : bool := existsb (fun ex => equal_numpy A c ex) excludes.

  Lemma kernel_data_eq (data : grid (T64 A)) y x :
    wf data rows cols -> 0 <= y < rows -> 0 <= x < cols ->
    concat (map (fun r => slice r (Z.max (x - 1) 0) (Z.min (x + 2) cols))
                (slice data (Z.max (y - 1) 0) (Z.min (y + 2) rows))) =
    clipped3x3 (dnan A) data rows cols y x.
  Proof.
    intros [L C] Hy Hx. unfold clipped3x3.
    rewrite (slice_spec [] data) by lia.
    rewrite map_map.
    replace (y + 2) with (y - 1 + Z.of_nat 3) by lia.
    rewrite <- (clip_range (fun yy => concat (map (fun xx => if (0 <=? xx) && (xx <? cols)
                                  then [get2 (dnan A) data yy xx] else []) (zrange (x - 1) (x + 2)))) rows 3 (y - 1)).
    f_equal. apply map_ext_in. intros yy Hyy. apply zrange_In in Hyy.
    rewrite (slice_spec (dnan A)) by (rewrite ?C; lia).
    replace (x + 2) with (x - 1 + Z.of_nat 3) by lia.
    rewrite <- (clip_range (fun xx => [get2 (dnan A) data yy xx]) cols 3 (x - 1)).
    unfold get2. apply concat_singletons.
  Qed.

  (* one cell of one pass: Numba's nanmean loop (float64 accumulator, count, one division) over the block *)
  Lemma mean_cell_spec data y x :
    wf data rows cols -> 0 <= y < rows -> 0 <= x < cols ->
    mean_cell A data excludes rows cols y x =
    if excluded (get2 (dnan A) data y x) then get2 (dnan A) data y x
    else nanmean_gen A (disnan A) (fun v => v) (clipped3x3 (dnan A) data rows cols y x).
  Proof.
    intros Hd Hy Hx. unfold mean_cell, excluded. cbv zeta.
    destruct (existsb _ excludes); [reflexivity|].
    rewrite kernel_data_eq by assumption. reflexivity.
  Qed.

  Lemma mean_numpy_tabulate data :
    wf data rows cols ->
    mean_numpy A data excludes = tabulate (fun y x => mean_cell A data excludes rows cols y x) rows cols.
  Proof.
    intros [L C]. unfold mean_numpy, nrows, ncols. rewrite L, C by lia. reflexivity.
  Qed.

  Lemma mean_numpy_wf data : 0 <= cols -> wf data rows cols -> wf (mean_numpy A data excludes) rows cols.
  Proof. intros Hc Hd. rewrite mean_numpy_tabulate by assumption. apply wf_tabulate; lia. Qed.

  Lemma mean_numpy_spec data y x :
    wf data rows cols -> 0 <= y < rows -> 0 <= x < cols ->
    get2 (dnan A) (mean_numpy A data excludes) y x =
    if excluded (get2 (dnan A) data y x) then get2 (dnan A) data y x
    else nanmean_gen A (disnan A) (fun v => v) (clipped3x3 (dnan A) data rows cols y x).
  Proof.
    intros Hd Hy Hx. rewrite mean_numpy_tabulate by assumption.
    rewrite get2_tabulate by assumption. now apply mean_cell_spec.
  Qed.

  (* passes = iteration *)
  Lemma iter_succ_r' {S} (f : S -> S) n : forall x, Nat.iter (Datatypes.S n) f x = Nat.iter n f (f x).
  Proof.
    induction n as [|n IH]; intros x; [reflexivity|].
    change (Nat.iter (Datatypes.S (Datatypes.S n)) f x) with (f (Nat.iter (Datatypes.S n) f x)).
    rewrite IH. reflexivity.
  Qed.

  Lemma fold_ignore {S B} (f : S -> S) (l : list B) : forall x,
    fold_left (fun out _ => f out) l x = Nat.iter (length l) f x.
  Proof.
    induction l as [|a l IH]; intros x; [reflexivity|].
    cbn [fold_left length]. rewrite IH. symmetry. apply iter_succ_r'.
  Qed.

  Lemma mean_passes data (n : nat) :
    mean A data (Z.of_nat n) excludes = Nat.iter n (fun d => mean_numpy A d excludes) data.
  Proof.
    unfold mean. rewrite fold_ignore. unfold zrange. rewrite ziota_length.
    f_equal. lia.
  Qed.

  Lemma mean_passes_nonpos data p : p <= 0 -> mean A data p excludes = data.
  Proof. intros. unfold mean. rewrite zrange_nil by lia. reflexivity. Qed.

  (* excluded values pass through untouched, for any number of passes *)
  Lemma mean_excluded_passthrough data y x (n : nat) :
    0 <= cols -> wf data rows cols -> 0 <= y < rows -> 0 <= x < cols ->
    excluded (get2 (dnan A) data y x) = true ->
    wf (mean A data (Z.of_nat n) excludes) rows cols /\
    get2 (dnan A) (mean A data (Z.of_nat n) excludes) y x = get2 (dnan A) data y x.
  Proof.
    intros Hc Hd Hy Hx He. rewrite mean_passes.
    induction n as [|n [W G]]; [split; [assumption|reflexivity]|].
    change (Nat.iter (S n) (fun d => mean_numpy A d excludes) data)
      with (mean_numpy A (Nat.iter n (fun d => mean_numpy A d excludes) data) excludes).
    split; [now apply mean_numpy_wf|].
    rewrite mean_numpy_spec by assumption. rewrite G, He. reflexivity.
  Qed.
End MeanSpec.

(* ---- exact instance: the nanmean loop is sum / count of the non-NaN values ---- *)
Lemma mean_acc_exact (flat : list xq) : forall c n,
  fold_left (fun st v => if oisnan v then st else (olift2 Qplus (fst st) v, snd st + 1)) flat (Some c, n) =
  (Some (fold_left Qplus (somes flat) c), n + lenZ (somes flat)).
Proof.
  induction flat as [|[q|] flat IH]; intros c n; cbn [fold_left somes oisnan].
  - f_equal. unfold lenZ; cbn; lia.
  - cbn [fst snd olift2]. rewrite IH. f_equal. rewrite lenZ_cons. lia.
  - apply IH.
Qed.

Lemma Qeq_bool_inject_nonzero n : n <> 0 -> Qeq_bool (inject_Z n) 0 = false.
Proof.
  intros H. destruct (Qeq_bool (inject_Z n) 0) eqn:E; [|reflexivity].
  apply Qeq_bool_eq in E. unfold Qeq in E. cbn in E. lia.
Qed.

Lemma nanmean_gen_exact qs (flat : list xq) :
  nanmean_gen (ExactArith qs) oisnan (fun v => v) flat = nanmean_list (somes flat).
Proof.
  unfold nanmean_gen, mean_acc. cbn [dadd dofZ ddiv ExactArith].
  change (inject_Z 0) with 0%Q.
  rewrite mean_acc_exact. cbn [fst snd]. unfold nanmean_list, qsum.
  destruct (somes flat) as [|q l].
  - reflexivity.
  - cbn [odiv]. rewrite Qeq_bool_inject_nonzero by (rewrite lenZ_cons; pose proof (lenZ_nonneg l); lia).
    reflexivity.
Qed.
