(* C15/BoundedC.v — bounded exhaustive checks by vm_compute (kernel VM, no native_compute): one lemma per raster shape;
   combined into the bounded theorems in ProofsBounded.v *)
Require Import Base.Prelude C15.Model C15.Spec.

Lemma chk_nomask_3_3 : check_shape_nomask [0; 1; 2] 3 3 = true.
Proof. vm_compute. reflexivity. Qed.
