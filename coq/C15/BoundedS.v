(* C15/BoundedS.v — the CLAIMED bounded domain (small enough for coqchk): one vm_compute lemma per shape *)
Require Import Base.Prelude C15.Model C15.Spec.

Lemma s3_1_1 : check_shape_nomask [0; 1; 2] 1 1 = true.
Proof. vm_compute. reflexivity. Qed.

Lemma s3_1_2 : check_shape_nomask [0; 1; 2] 1 2 = true.
Proof. vm_compute. reflexivity. Qed.

Lemma s3_1_3 : check_shape_nomask [0; 1; 2] 1 3 = true.
Proof. vm_compute. reflexivity. Qed.

Lemma s3_1_4 : check_shape_nomask [0; 1; 2] 1 4 = true.
Proof. vm_compute. reflexivity. Qed.

Lemma s3_1_5 : check_shape_nomask [0; 1; 2] 1 5 = true.
Proof. vm_compute. reflexivity. Qed.

Lemma s3_2_1 : check_shape_nomask [0; 1; 2] 2 1 = true.
Proof. vm_compute. reflexivity. Qed.

Lemma s3_2_2 : check_shape_nomask [0; 1; 2] 2 2 = true.
Proof. vm_compute. reflexivity. Qed.

Lemma s3_3_1 : check_shape_nomask [0; 1; 2] 3 1 = true.
Proof. vm_compute. reflexivity. Qed.

Lemma s3_4_1 : check_shape_nomask [0; 1; 2] 4 1 = true.
Proof. vm_compute. reflexivity. Qed.

Lemma s3_5_1 : check_shape_nomask [0; 1; 2] 5 1 = true.
Proof. vm_compute. reflexivity. Qed.

Lemma s2_1_1 : check_shape_nomask [0; 1] 1 1 = true.
Proof. vm_compute. reflexivity. Qed.

Lemma s2_1_2 : check_shape_nomask [0; 1] 1 2 = true.
Proof. vm_compute. reflexivity. Qed.

Lemma s2_1_3 : check_shape_nomask [0; 1] 1 3 = true.
Proof. vm_compute. reflexivity. Qed.

Lemma s2_1_4 : check_shape_nomask [0; 1] 1 4 = true.
Proof. vm_compute. reflexivity. Qed.

Lemma s2_1_5 : check_shape_nomask [0; 1] 1 5 = true.
Proof. vm_compute. reflexivity. Qed.

Lemma s2_1_6 : check_shape_nomask [0; 1] 1 6 = true.
Proof. vm_compute. reflexivity. Qed.

Lemma s2_2_1 : check_shape_nomask [0; 1] 2 1 = true.
Proof. vm_compute. reflexivity. Qed.

Lemma s2_2_2 : check_shape_nomask [0; 1] 2 2 = true.
Proof. vm_compute. reflexivity. Qed.

Lemma s2_2_3 : check_shape_nomask [0; 1] 2 3 = true.
Proof. vm_compute. reflexivity. Qed.

Lemma s2_3_1 : check_shape_nomask [0; 1] 3 1 = true.
Proof. vm_compute. reflexivity. Qed.

Lemma s2_3_2 : check_shape_nomask [0; 1] 3 2 = true.
Proof. vm_compute. reflexivity. Qed.

Lemma s2_4_1 : check_shape_nomask [0; 1] 4 1 = true.
Proof. vm_compute. reflexivity. Qed.

Lemma s2_5_1 : check_shape_nomask [0; 1] 5 1 = true.
Proof. vm_compute. reflexivity. Qed.

Lemma s2_6_1 : check_shape_nomask [0; 1] 6 1 = true.
Proof. vm_compute. reflexivity. Qed.

Lemma s2_3_3 : check_shape_nomask [0; 1] 3 3 = true.
Proof. vm_compute. reflexivity. Qed.

Lemma s2_2_4 : check_shape_nomask [0; 1] 2 4 = true.
Proof. vm_compute. reflexivity. Qed.

Lemma s2_4_2 : check_shape_nomask [0; 1] 4 2 = true.
Proof. vm_compute. reflexivity. Qed.

Lemma sm_1_1 : check_shape_mask [None; Some 0; Some 1] 1 1 = true.
Proof. vm_compute. reflexivity. Qed.

Lemma sm_1_2 : check_shape_mask [None; Some 0; Some 1] 1 2 = true.
Proof. vm_compute. reflexivity. Qed.

Lemma sm_1_3 : check_shape_mask [None; Some 0; Some 1] 1 3 = true.
Proof. vm_compute. reflexivity. Qed.

Lemma sm_1_4 : check_shape_mask [None; Some 0; Some 1] 1 4 = true.
Proof. vm_compute. reflexivity. Qed.

Lemma sm_1_5 : check_shape_mask [None; Some 0; Some 1] 1 5 = true.
Proof. vm_compute. reflexivity. Qed.

Lemma sm_2_1 : check_shape_mask [None; Some 0; Some 1] 2 1 = true.
Proof. vm_compute. reflexivity. Qed.

Lemma sm_2_2 : check_shape_mask [None; Some 0; Some 1] 2 2 = true.
Proof. vm_compute. reflexivity. Qed.

Lemma sm_3_1 : check_shape_mask [None; Some 0; Some 1] 3 1 = true.
Proof. vm_compute. reflexivity. Qed.

Lemma sm_4_1 : check_shape_mask [None; Some 0; Some 1] 4 1 = true.
Proof. vm_compute. reflexivity. Qed.

Lemma sm_5_1 : check_shape_mask [None; Some 0; Some 1] 5 1 = true.
Proof. vm_compute. reflexivity. Qed.
