(* C15/BoundedA.v — bounded exhaustive checks by vm_compute (kernel VM, no native_compute): one lemma per raster shape;
   combined into the bounded theorems in ProofsBounded.v *)
Require Import Base.Prelude C15.Model C15.Spec.

Lemma chk_nomask_1_1 : check_shape_nomask [0; 1; 2] 1 1 = true.
Proof. vm_compute. reflexivity. Qed.

Lemma chk_nomask_1_2 : check_shape_nomask [0; 1; 2] 1 2 = true.
Proof. vm_compute. reflexivity. Qed.

Lemma chk_nomask_1_3 : check_shape_nomask [0; 1; 2] 1 3 = true.
Proof. vm_compute. reflexivity. Qed.

Lemma chk_nomask_1_4 : check_shape_nomask [0; 1; 2] 1 4 = true.
Proof. vm_compute. reflexivity. Qed.

Lemma chk_nomask_1_5 : check_shape_nomask [0; 1; 2] 1 5 = true.
Proof. vm_compute. reflexivity. Qed.

Lemma chk_nomask_1_6 : check_shape_nomask [0; 1; 2] 1 6 = true.
Proof. vm_compute. reflexivity. Qed.

Lemma chk_nomask_1_7 : check_shape_nomask [0; 1; 2] 1 7 = true.
Proof. vm_compute. reflexivity. Qed.

Lemma chk_nomask_2_1 : check_shape_nomask [0; 1; 2] 2 1 = true.
Proof. vm_compute. reflexivity. Qed.

Lemma chk_nomask_2_2 : check_shape_nomask [0; 1; 2] 2 2 = true.
Proof. vm_compute. reflexivity. Qed.

Lemma chk_nomask_2_3 : check_shape_nomask [0; 1; 2] 2 3 = true.
Proof. vm_compute. reflexivity. Qed.

Lemma chk_nomask_3_1 : check_shape_nomask [0; 1; 2] 3 1 = true.
Proof. vm_compute. reflexivity. Qed.

Lemma chk_nomask_3_2 : check_shape_nomask [0; 1; 2] 3 2 = true.
Proof. vm_compute. reflexivity. Qed.

Lemma chk_nomask_4_1 : check_shape_nomask [0; 1; 2] 4 1 = true.
Proof. vm_compute. reflexivity. Qed.

Lemma chk_nomask_5_1 : check_shape_nomask [0; 1; 2] 5 1 = true.
Proof. vm_compute. reflexivity. Qed.

Lemma chk_nomask_6_1 : check_shape_nomask [0; 1; 2] 6 1 = true.
Proof. vm_compute. reflexivity. Qed.

Lemma chk_nomask_7_1 : check_shape_nomask [0; 1; 2] 7 1 = true.
Proof. vm_compute. reflexivity. Qed.

Lemma chk_nomask_2_4 : check_shape_nomask [0; 1; 2] 2 4 = true.
Proof. vm_compute. reflexivity. Qed.
