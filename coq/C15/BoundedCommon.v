(* C15/BoundedCommon.v — enumeration completeness and the glue from the boolean checks to the statements *)
Require Import Base.Prelude C15.Model C15.Spec.

Lemma all_lists_complete {A} (alphabet : list A) (l : list A) :
  Forall (fun a => In a alphabet) l -> In l (all_lists alphabet (length l)).
Proof.
  induction 1 as [|a t Ha Ht IH]; cbn [all_lists length]; [now left|].
  apply in_flat_map. exists t. split; [exact IH|]. apply in_map_iff. exists a. auto.
Qed.

Lemma check_shape_nomask_use alphabet nx ny vals conn8 :
  check_shape_nomask alphabet nx ny = true -> lenZ vals = nx * ny ->
  Forall (fun v => In v alphabet) vals -> check_one vals None conn8 nx ny = true.
Proof.
  unfold check_shape_nomask. rewrite forallb_forall. intros H Hl Hf.
  specialize (H vals). replace (Z.to_nat (nx * ny)) with (length vals) in H by (unfold lenZ in Hl; lia).
  specialize (H (all_lists_complete _ _ Hf)). apply andb_prop in H. destruct H. destruct conn8; auto.
Qed.

Lemma check_shape_mask_use alphabet nx ny cs conn8 :
  check_shape_mask alphabet nx ny = true -> lenZ cs = nx * ny ->
  Forall (fun c => In c alphabet) cs -> check_one (vals_of cs) (Some (mask_of cs)) conn8 nx ny = true.
Proof.
  unfold check_shape_mask. rewrite forallb_forall. intros H Hl Hf.
  specialize (H cs). replace (Z.to_nat (nx * ny)) with (length cs) in H by (unfold lenZ in Hl; lia).
  specialize (H (all_lists_complete _ _ Hf)). apply andb_prop in H. destruct H. destruct conn8; auto.
Qed.

Lemma check_one_lossless vals mask conn8 nx ny : check_one vals mask conn8 nx ny = true ->
  exists out, polygonize_model vals mask conn8 None nx ny = Some out /\
              lossless_check vals mask conn8 nx ny out = true.
Proof.
  unfold check_one, lossless_check. intros H. apply andb_prop in H. destruct H as [H _].
  destruct (polygonize_model vals mask conn8 None nx ny) as [out|]; [|discriminate]. eauto.
Qed.

Lemma check_one_regions vals mask conn8 nx ny : nx <> 1 -> check_one vals mask conn8 nx ny = true ->
  exists regions, calculate_regions vals mask conn8 nx ny = Some regions /\
                  regions_check vals mask conn8 nx ny regions = true.
Proof.
  unfold check_one, regions_check. intros Hnx H. apply andb_prop in H. destruct H as [_ H].
  destruct (nx =? 1) eqn:E; [lia|].
  destruct (calculate_regions vals mask conn8 nx ny) as [r|]; [|discriminate]. eauto.
Qed.
