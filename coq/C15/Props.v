(* C15/Props.v — the property theorems claimed for C15 (polygonize is lossless), nothing else.
   Each is closed by [exact] of a lemma from Proofs*.v and followed by Print Assumptions.
   Unclaimed full statements are [Definition ... : Prop] at the end. *)
Require Import Base.Prelude C15.Model C15.Spec.
Require Import C15.ProofsRegions C15.ProofsFollow C15.ProofsScan C15.BoundedCommon C15.ProofsBoundedSmall.
Require Import C15.ProofsComponents C15.ProofsOrbit C15.ProofsTerminate.
Require Import Coq.Relations.Relation_Operators.

(* ---- labelling stage: universal (any raster, any size below 2^32-1 cells) ---- *)

(* lookup_acyclic: labelling never fails (no merge runs out of fuel = the chain walk terminates; no
   "too many polygons") and the final region_lookup is acyclic: entry i is 0 or an id in [1, i-1];
   hence compaction's read new_region_lookup[target] (target < i) only sees initialised entries *)
Theorem C15_lookup_acyclic : forall values mask conn8 nx ny,
  0 < nx -> 0 <= ny -> nx * ny < max_region_id ->
  exists st, label_loop values mask conn8 nx (Z.to_nat (nx * ny)) 0 (label_init nx ny) = Some st /\
    forall i, nthZ 0 (ls_lookup st) i = 0 \/
              (1 <= nthZ 0 (ls_lookup st) i < i /\ i <= ls_region st).
Proof.
  intros values mask conn8 nx ny H1 H2 H3.
  destruct (labelling_total values mask conn8 nx ny H1 H2 H3) as (st & Hr & Hok & _). eauto.
Qed.
Print Assumptions C15_lookup_acyclic.

(* merge preserves equivalence classes: on an acyclic lookup, _merge_regions(lower, upper) terminates,
   keeps the lookup acyclic, and the new classes are exactly the old ones with lower ~ upper joined *)
Theorem C15_merge_preserves_classes : forall lk lower upper region,
  lk_ok lk region -> 1 <= lower < upper -> upper <= region ->
  exists lk', merge_regions lk lower upper = Some lk' /\ lk_ok lk' region /\ lenZ lk <= lenZ lk' /\
    forall a b, same_class lk' a b <-> clos_refl_sym_trans Z (edge_plus lk lower upper) a b.
Proof. exact merge_regions_spec. Qed.
Print Assumptions C15_merge_preserves_classes.

(* masked cells get region 0, unmasked cells a region >= 1 (so region 0 never owns a polygon) *)
Theorem C15_masked_cells_region_zero : forall values mask conn8 nx ny,
  0 < nx -> 0 <= ny -> nx * ny < max_region_id ->
  exists regions, calculate_regions values mask conn8 nx ny = Some regions /\
    lenZ regions = nx * ny /\
    forall k, 0 <= k < nx * ny ->
      (mask_ok mask k = false -> nthZ 0 regions k = 0) /\
      (mask_ok mask k = true -> 1 <= nthZ 0 regions k).
Proof. exact calculate_regions_spec. Qed.
Print Assumptions C15_masked_cells_region_zero.

(* ---- boundary follower: universal, for ANY content of the region array ---- *)

(* one step of the follower: the pixel stays inside the raster, (forward,left) stays a compass pair,
   and the corner the follower stands on moves by exactly one unit along [forward] *)
Theorem C15_follow_step_geometry : forall regions nx ny region, 2 <= nx ->
  forall ij f l, 0 <= ij < nx * ny -> dir_ok nx f l ->
  forall ij2 f2 l2, apply_turn (turn_of regions nx (nx * ny) region ij f l) ij f l = (ij2, f2, l2) ->
    0 <= ij2 < nx * ny /\ dir_ok nx f2 l2 /\
    point_of nx ij2 f2 = padd (point_of nx ij f) (dirvec nx f).
Proof. exact step_ok. Qed.
Print Assumptions C15_follow_step_geometry.

(* both passes walk the same path: pass 1 stores exactly the number of points pass 0 allocated for *)
Theorem C15_follow_passes_agree : forall regions nx ny region hole sij sf fuel ij f l vis v0 n0 p0,
  follow_loop fuel false hole regions nx (nx * ny) region sij sf ij f l 0 vis 0 [] = Some (v0, n0, p0) ->
  exists v1 p1,
    follow_loop fuel true hole regions nx (nx * ny) region sij sf ij f l 0 vis 0 [] = Some (v1, n0, p1) /\
    Z.of_nat (length p1) = n0.
Proof. exact follow_passes_agree. Qed.
Print Assumptions C15_follow_passes_agree.

(* ring facts for EVERY ring the model emits (any raster, mask, connectivity, transform, size):
   it is the transform of a ring r0 with ring_okb = closed (last = first) && every vertex an integer
   cell corner in [0,nx']x[0,ny] && consecutive vertices differ in exactly one coordinate
   (nx' = 2 for single-column rasters: the workaround's widened raster) *)
Theorem C15_rings_wellformed : forall values mask conn8 tr nx ny col polys,
  1 <= nx -> 0 <= ny ->
  polygonize_model values mask conn8 tr nx ny = Some (col, polys) ->
  forall rings r, In rings polys -> In r rings ->
    exists r0, r = transform_ring tr r0 /\ ring_okb (work_nx nx) ny r0 = true.
Proof. exact polygonize_rings. Qed.
Print Assumptions C15_rings_wellformed.

(* the affine transform is applied to every vertex, in order, nothing added or dropped *)
Theorem C15_transform_every_vertex : forall t r k, (k < length r)%nat ->
  nth k (transform_ring (Some t) r) (0, 0) = transform_point t (nth k r (0, 0)) /\
  length (transform_ring (Some t) r) = length r.
Proof. exact transform_ring_spec. Qed.
Print Assumptions C15_transform_every_vertex.

(* ---- regions are components: universal (every raster, mask, connectivity, size below 2^32-1 cells) ---- *)

(* linkedP a b : b is a 4-/8-neighbour of cell a, both unmasked, equal values.  Two unmasked cells get the same final
   region id IFF they are joined by a path of such steps.  Proof: union-find style invariant "classes of region_lookup
   over the provisional ids = connectivity among the cells scanned so far" (ProofsComponents.comp_inv), preserved by
   every labelled cell (W/S and, for 8-connectivity, SW/SE neighbours; merges), then compaction maps two provisional
   ids to the same final id iff they have the same root. *)
Theorem C15_regions_are_components : forall vals mask conn8 nx ny,
  0 < nx -> 0 <= ny -> nx * ny < max_region_id ->
  exists regions, calculate_regions vals mask conn8 nx ny = Some regions /\
    forall a b, 0 <= a < nx * ny -> 0 <= b < nx * ny -> mask_ok mask a = true -> mask_ok mask b = true ->
      (nthZ 0 regions a = nthZ 0 regions b <-> clos_refl_trans Z (linkedP vals mask conn8 nx ny) a b).
Proof. exact regions_are_components. Qed.
Print Assumptions C15_regions_are_components.

(* compaction: two provisional ids get the same final id iff they are in the same class of the (acyclic) lookup *)
Theorem C15_compaction_respects_classes : forall lk region r s,
  lk_ok lk region -> 0 <= region -> 0 <= r <= region -> 0 <= s <= region ->
  (nthZ 0 (compact lk region) r = nthZ 0 (compact lk region) s <-> same_class lk r s).
Proof. intros lk region r s H. now apply compact_classes. Qed.
Print Assumptions C15_compaction_respects_classes.

(* ---- the boundary follower terminates: universal ---- *)

(* Started on a region boundary (exterior start: the pixel below is outside the raster or in another region; hole
   start: the pixel above is), for ANY region array, _follow returns to its start within its fuel 4*nx*ny+1 and
   yields a closed, on-corner, axis-parallel ring.  Proof: on coordinate states (i,j,direction) the step has a left
   inverse on boundary states (ProofsOrbit.Tinv_T), the state space has 4*nx*ny elements, pigeonhole. *)
Theorem C15_follow_terminates : forall (regions visited : list Z) (nx ny ij : Z) (hole : bool),
  2 <= nx -> 0 <= ij < nx * ny ->
  (let other := if hole then ij + nx else ij - nx in
   outside_domain other (nx * ny) = true \/ nthZ 0 regions other <> nthZ 0 regions ij) ->
  exists region r vis, follow regions visited nx ny ij hole = Some (region, r, vis) /\
                       region = nthZ 0 regions ij /\ ring_okb nx ny r = true.
Proof. exact follow_terminates. Qed.
Print Assumptions C15_follow_terminates.

(* the follower's step is injective on boundary states: following the same boundary backwards undoes it *)
Theorem C15_follow_step_invertible : forall regions nx ny region s,
  ProofsOrbit.valid (inrg regions nx ny region) s ->
  ProofsOrbit.valid (inrg regions nx ny region) (T (inrg regions nx ny region) s) /\
  Tinv (inrg regions nx ny region) (T (inrg regions nx ny region) s) = s.
Proof.
  intros. split.
  - eapply T_valid; eauto. apply inrg_dom.
  - eapply Tinv_T; eauto. apply inrg_dom.
Qed.
Print Assumptions C15_follow_step_invertible.

(* ---- bounded: the full property on a finite domain, by computation in the kernel VM ---- *)
(* small_shape5 nx ny : nx*ny <= 5;  small_shape nx ny : nx*ny <= 6 or 3x3 or 2x4 or 4x2  (nx, ny >= 1: 1x1, 1xN, Nx1 included).
   A larger domain (3 values and masks up to 8 cells and 3x3) is proved the same way in Extended.v, checked by coqc only. *)

(* For EVERY raster without mask over {0,1,2} on every shape with <= 5 cells, and over {0,1} on every shape with
   <= 6 cells and 3x3, 2x4, 4x2, both connectivities: the model returns polygons (the follower never exhausts
   its 4*nx*ny fuel) and lossless_check holds: rings closed / on corners / axis parallel, exteriors anticlockwise and
   holes clockwise (shoelace sign), every cell centre in exactly one polygon (even-odd, exterior minus holes) which
   carries the cell's value, polygon area = its cell count, two cells share a polygon iff same connected component *)
Theorem C15_bounded_lossless_small : forall nx ny conn8 vals,
  (small_shape5 nx ny /\ Forall (fun v => In v [0; 1; 2]) vals) \/
  (small_shape nx ny /\ Forall (fun v => In v [0; 1]) vals) ->
  lenZ vals = nx * ny ->
  exists out, polygonize_model vals None conn8 None nx ny = Some out /\
              lossless_check vals None conn8 nx ny out = true.
Proof.
  intros nx ny conn8 vals [[Hs Hf]|[Hs Hf]] Hl; apply check_one_lossless.
  - now apply small3_nomask.
  - now apply small2_nomask.
Qed.
Print Assumptions C15_bounded_lossless_small.

(* the same with a mask: every assignment of {masked, 0, 1} to the cells of every shape with <= 5 cells (masked cells
   hold the value 0, which the code never reads); masked cells lie in no polygon *)
Theorem C15_bounded_lossless_small_masked : forall nx ny conn8 cs,
  small_shape5 nx ny -> lenZ cs = nx * ny -> Forall (fun c => In c [None; Some 0; Some 1]) cs ->
  exists out, polygonize_model (vals_of cs) (Some (mask_of cs)) conn8 None nx ny = Some out /\
              lossless_check (vals_of cs) (Some (mask_of cs)) conn8 nx ny out = true.
Proof. intros. apply check_one_lossless. now apply small_mask. Qed.
Print Assumptions C15_bounded_lossless_small_masked.

(* regions are components on the same bounded domain (nx >= 2): region 0 exactly on masked cells and two unmasked
   cells get the same region id iff min-label propagation gives them the same component *)
Theorem C15_bounded_regions_are_components_small : forall nx ny conn8, nx <> 1 ->
  (forall vals, (small_shape5 nx ny /\ Forall (fun v => In v [0; 1; 2]) vals) \/
                (small_shape nx ny /\ Forall (fun v => In v [0; 1]) vals) -> lenZ vals = nx * ny ->
     exists regions, calculate_regions vals None conn8 nx ny = Some regions /\
                     regions_check vals None conn8 nx ny regions = true) /\
  (forall cs, small_shape5 nx ny -> lenZ cs = nx * ny -> Forall (fun c => In c [None; Some 0; Some 1]) cs ->
     exists regions, calculate_regions (vals_of cs) (Some (mask_of cs)) conn8 nx ny = Some regions /\
                     regions_check (vals_of cs) (Some (mask_of cs)) conn8 nx ny regions = true).
Proof.
  intros nx ny conn8 Hnx. split.
  - intros vals [[Hs Hf]|[Hs Hf]] Hl; apply check_one_regions; auto.
    + now apply small3_nomask.
    + now apply small2_nomask.
  - intros. apply check_one_regions; auto. now apply small_mask.
Qed.
Print Assumptions C15_bounded_regions_are_components_small.

(* ---- non-vacuity ---- *)
(* a U shape (rows bottom-up: 1 0 1 / 1 1 1): the two arms get ids 1 and 2, the joining row merges 2 into 1 *)
Example C15_nonvacuous_merge :
  exists st, label_loop [1; 0; 1; 1; 1; 1] None false 3 6 0 (label_init 3 2) = Some st /\
             ls_regions st = [1; 2; 3; 1; 1; 1] /\ nthZ 0 (ls_lookup st) 3 = 1 /\ ls_region st = 3 /\
             calculate_regions [1; 0; 1; 1; 1; 1] None false 3 2 = Some [1; 2; 1; 1; 1; 1].
Proof. vm_compute. eexists. repeat split. Qed.

(* a chain walk with a repeat: lookup[4] = 3, merge(2, 4) rewires 4 -> 2 and then 3 -> 2 *)
Example C15_nonvacuous_chain :
  lk_ok [0; 0; 1; 0; 3] 4 /\ merge_regions [0; 0; 1; 0; 3] 2 4 = Some [0; 0; 1; 2; 2].
Proof.
  split; [|reflexivity]. intros i.
  destruct (Z_lt_ge_dec i 0); [left; now rewrite nthZ_neg|].
  destruct (Z_lt_ge_dec i 5); [|left; rewrite nthZ_default; [reflexivity|cbn; lia]].
  assert (C : i = 0 \/ i = 1 \/ i = 2 \/ i = 3 \/ i = 4) by lia.
  destruct C as [->|[->|[->|[->| ->]]]]; unfold nthZ; simpl; lia.
Qed.

(* the 3x3 ring with a hole: exterior anticlockwise, hole clockwise, inner cell its own polygon;
   with the transform x' = 2x+10, y' = -y+5 applied to every vertex *)
Example C15_nonvacuous_ring_with_hole :
  polygonize_model [1; 1; 1; 1; 0; 1; 1; 1; 1] None false None 3 3 =
    Some ([1; 0], [[[(0, 0); (3, 0); (3, 3); (0, 3); (0, 0)]; [(2, 1); (1, 1); (1, 2); (2, 2); (2, 1)]];
                   [[(1, 1); (2, 1); (2, 2); (1, 2); (1, 1)]]]) /\
  polygonize_model [1; 1; 1; 1; 0; 1; 1; 1; 1] None false (Some [2; 0; 10; 0; -1; 5]) 3 3 =
    Some ([1; 0], [[[(10, 5); (16, 5); (16, 2); (10, 2); (10, 5)]; [(14, 4); (12, 4); (12, 3); (14, 3); (14, 4)]];
                   [[(12, 4); (14, 4); (14, 3); (12, 3); (12, 4)]]]) /\
  small_shape 3 3 /\ small_shape 2 4 /\ small_shape 1 6 /\ small_shape5 5 1 /\ small_shape5 1 1.
Proof. split; [reflexivity|]. split; [reflexivity|]. unfold small_shape, small_shape5. lia. Qed.

(* the 8-connected pinch [[1,2],[2,1]]: both diagonals are single (bow-tie) polygons of area 2 *)
Example C15_nonvacuous_pinch :
  polygonize_model [1; 2; 2; 1] None true None 2 2 =
    Some ([1; 2], [[[(0, 0); (1, 0); (1, 1); (2, 1); (2, 2); (1, 2); (1, 1); (0, 1); (0, 0)]];
                   [[(1, 0); (2, 0); (2, 1); (1, 1); (1, 2); (0, 2); (0, 1); (1, 1); (1, 0)]]]) /\
  lossless_check [1; 2; 2; 1] None true 2 2
    ([1; 2], [[[(0, 0); (1, 0); (1, 1); (2, 1); (2, 2); (1, 2); (1, 1); (0, 1); (0, 0)]];
              [[(1, 0); (2, 0); (2, 1); (1, 1); (1, 2); (0, 2); (0, 1); (1, 1); (1, 0)]]]) = true.
Proof. split; reflexivity. Qed.

(* the spec is not trivially true: it rejects an output whose hole is missing, and a clockwise exterior *)
Example C15_spec_rejects_wrong_output :
  lossless_check [1; 1; 1; 1; 0; 1; 1; 1; 1] None false 3 3
    ([1; 0], [[[(0, 0); (3, 0); (3, 3); (0, 3); (0, 0)]]; [[(1, 1); (2, 1); (2, 2); (1, 2); (1, 1)]]]) = false /\
  lossless_check [7] None false 1 1 ([7], [[[(0, 0); (0, 1); (1, 1); (1, 0); (0, 0)]]]) = false /\
  lossless_check [7] None false 1 1 ([7], [[[(0, 0); (1, 0); (1, 1); (0, 1); (0, 0)]]]) = true.
Proof. repeat split; reflexivity. Qed.

(* ---- full statements that are NOT claimed (see PARTIAL in harness/props/c15.py) ---- *)
Definition C15_lossless_full_statement : Prop :=
  forall nx ny conn8 vals mask,
    1 <= nx -> 1 <= ny -> nx * ny < max_region_id -> lenZ vals = nx * ny ->
    (match mask with Some m => lenZ m = nx * ny | None => True end) ->
    exists out, polygonize_model vals mask conn8 None nx ny = Some out /\
                lossless_check vals mask conn8 nx ny out = true.

(* the two statements that were unclaimed in round 1, now proved (as first written) *)
Definition C15_regions_are_components_full_statement : Prop :=
  forall nx ny conn8 vals mask,
    2 <= nx -> 1 <= ny -> nx * ny < max_region_id -> lenZ vals = nx * ny ->
    exists regions, calculate_regions vals mask conn8 nx ny = Some regions /\
      forall a b, 0 <= a < nx * ny -> 0 <= b < nx * ny -> mask_ok mask a = true -> mask_ok mask b = true ->
        (nthZ 0 regions a = nthZ 0 regions b <->
         clos_refl_trans Z (linkedP vals mask conn8 nx ny) a b).
Theorem C15_regions_are_components_full : C15_regions_are_components_full_statement.
Proof. intros nx ny conn8 vals mask H1 H2 H3 _. apply regions_are_components; lia. Qed.
Print Assumptions C15_regions_are_components_full.

Definition C15_follow_terminates_full_statement : Prop :=
  forall (regions visited : list Z) (nx ny ij : Z) (hole : bool),
    2 <= nx -> 1 <= ny -> lenZ regions = nx * ny -> 0 <= ij < nx * ny ->
    (let other := if hole then ij + nx else ij - nx in
     outside_domain other (nx * ny) = true \/ nthZ 0 regions other <> nthZ 0 regions ij) ->
    exists out, follow regions visited nx ny ij hole = Some out.
Theorem C15_follow_terminates_full : C15_follow_terminates_full_statement.
Proof.
  intros regions visited nx ny ij hole H1 _ _ H2 H3.
  destruct (follow_terminates regions visited nx ny ij hole H1 H2 H3) as (rg & r & vis & E & _). eauto.
Qed.
Print Assumptions C15_follow_terminates_full.

(* non-vacuity: in the U raster (rows bottom-up 1 0 1 / 1 1 1, nx = 3) cells 0 and 2 are joined by the path
   0 - 3 - 4 - 5 - 2 and get the same region; cell 1 gets another region, hence (by the theorem) no path joins 0 and 1 *)
Example C15_nonvacuous_components :
  clos_refl_trans Z (linkedP [1; 0; 1; 1; 1; 1] None false 3 2) 0 2 /\
  calculate_regions [1; 0; 1; 1; 1; 1] None false 3 2 = Some [1; 2; 1; 1; 1; 1] /\
  ~ clos_refl_trans Z (linkedP [1; 0; 1; 1; 1; 1] None false 3 2) 0 1.
Proof.
  assert (S : forall a b, 0 <= a < 6 -> In b (neighbours false 3 2 a) ->
              linked [1; 0; 1; 1; 1; 1] None a b = true ->
              clos_refl_trans Z (linkedP [1; 0; 1; 1; 1; 1] None false 3 2) a b).
  { intros a b H1 H2 H3. apply rt_step. unfold linkedP. auto. }
  split; [|split; [vm_compute; reflexivity|]].
  - apply rt_trans with 3; [apply S; [lia|cbn; auto|reflexivity]|].
    apply rt_trans with 4; [apply S; [lia|cbn; auto|reflexivity]|].
    apply rt_trans with 5; [apply S; [lia|cbn; auto|reflexivity]|].
    apply S; [lia|cbn; auto|reflexivity].
  - intros Hp.
    destruct (C15_regions_are_components [1; 0; 1; 1; 1; 1] None false 3 2 ltac:(lia) ltac:(lia) ltac:(reflexivity))
      as (regions & Hr & Hiff).
    assert (E : calculate_regions [1; 0; 1; 1; 1; 1] None false 3 2 = Some [1; 2; 1; 1; 1; 1]) by (vm_compute; reflexivity).
    rewrite E in Hr. injection Hr as <-. apply (Hiff 0 1) in Hp; try reflexivity; try lia. discriminate Hp.
Qed.

(* non-vacuity: the exterior start (pixel 0) and the hole start (pixel 1, below the hole) of the 3x3 ring satisfy the
   boundary hypothesis, and the follower returns the expected rings *)
Example C15_nonvacuous_follow :
  (outside_domain (0 - 3) (3 * 3) = true \/ nthZ 0 [1; 1; 1; 1; 0; 1; 1; 1; 1] (0 - 3) <> nthZ 0 [1; 1; 1; 1; 0; 1; 1; 1; 1] 0) /\
  (outside_domain (1 + 3) (3 * 3) = true \/ nthZ 0 [1; 1; 1; 1; 0; 1; 1; 1; 1] (1 + 3) <> nthZ 0 [1; 1; 1; 1; 0; 1; 1; 1; 1] 1) /\
  (exists vis, follow [1; 1; 1; 1; 0; 1; 1; 1; 1] (repeat 0 9%nat) 3 3 0 false =
               Some (1, [(0, 0); (3, 0); (3, 3); (0, 3); (0, 0)], vis)) /\
  (exists vis, follow [1; 1; 1; 1; 0; 1; 1; 1; 1] (repeat 0 9%nat) 3 3 1 true =
               Some (1, [(2, 1); (1, 1); (1, 2); (2, 2); (2, 1)], vis)).
Proof.
  split; [left; reflexivity|]. split; [right; cbn; discriminate|].
  split; eexists; vm_compute; reflexivity.
Qed.
