(* C15/ProofsRegions.v — the labelling stage: region_lookup stays acyclic, the merge chain
   walk terminates and joins exactly the two classes, labelling never fails, masked cells
   get region 0 and unmasked cells a region >= 1 after compaction. *)
Require Import Base.Prelude C15.Model.
Require Import Coq.Relations.Relation_Operators.

(* ---------- arrays ---------- *)
Lemma upd_length {A} (l : list A) i v : length (upd l i v) = length l.
Proof. revert i; induction l as [|h t IH]; intros [|i]; simpl; auto. Qed.

Lemma nth_upd_eq {A} (l : list A) i v d : (i < length l)%nat -> nth i (upd l i v) d = v.
Proof. revert i; induction l as [|h t IH]; intros [|i] H; simpl in *; try lia; auto. apply IH; lia. Qed.

Lemma nth_upd_neq {A} (l : list A) i j v d : i <> j -> nth j (upd l i v) d = nth j l d.
Proof.
  revert i j; induction l as [|h t IH]; intros [|i] [|j] H; simpl; auto; try congruence.
Qed.

Lemma lenZ_updZ {A} (l : list A) i v : lenZ (updZ l i v) = lenZ l.
Proof. unfold updZ, lenZ. destruct (i <? 0); auto. now rewrite upd_length. Qed.

Lemma nthZ_updZ_eq {A} (d : A) l i v : 0 <= i < lenZ l -> nthZ d (updZ l i v) i = v.
Proof.
  unfold updZ, nthZ, lenZ; intros H. destruct (i <? 0) eqn:E; [lia|].
  apply nth_upd_eq; lia.
Qed.

Lemma nthZ_updZ_neq {A} (d : A) l i j v : i <> j -> nthZ d (updZ l i v) j = nthZ d l j.
Proof.
  unfold updZ, nthZ; intros H. destruct (i <? 0) eqn:E; auto.
  destruct (j <? 0) eqn:E2; auto. apply nth_upd_neq; lia.
Qed.

Lemma nthZ_default {A} (d : A) l i : lenZ l <= i -> nthZ d l i = d.
Proof.
  unfold nthZ, lenZ; intros. destruct (i <? 0); auto. apply nth_overflow; lia.
Qed.

Lemma nthZ_neg {A} (d : A) l i : i < 0 -> nthZ d l i = d.
Proof. unfold nthZ; intros. destruct (i <? 0) eqn:E; auto; lia. Qed.

Lemma nthZ_repeat {A} (d : A) k i : nthZ d (repeat d k) i = d.
Proof.
  unfold nthZ. destruct (i <? 0); auto.
  destruct (Nat.lt_ge_cases (Z.to_nat i) k).
  - apply nth_repeat.
  - apply nth_overflow. now rewrite repeat_length.
Qed.

Lemma nthZ_app_zeros l k i : nthZ 0 (l ++ repeat 0 k) i = nthZ 0 l i.
Proof.
  unfold nthZ. destruct (i <? 0); auto.
  destruct (Nat.lt_ge_cases (Z.to_nat i) (length l)).
  - now rewrite app_nth1.
  - rewrite app_nth2 by lia. rewrite (nth_overflow l) by lia.
    destruct (Nat.lt_ge_cases (Z.to_nat i - length l) k).
    + apply nth_repeat.
    + apply nth_overflow. now rewrite repeat_length.
Qed.

Lemma lenZ_repeat {A} (a : A) k : lenZ (repeat a k) = Z.of_nat k.
Proof. unfold lenZ; now rewrite repeat_length. Qed.

(* ---------- the lookup invariant ---------- *)
(* region_lookup[i] is 0 (i is a root) or a smaller id >= 1; ids above [region] are roots *)
Definition lk_ok (lk : list Z) (region : Z) : Prop :=
  forall i, nthZ 0 lk i = 0 \/ (1 <= nthZ 0 lk i < i /\ i <= region).

Lemma lk_ok_mono lk r r' : lk_ok lk r -> r <= r' -> lk_ok lk r'.
Proof. intros H Hr i. destruct (H i) as [?|[? ?]]; [left|right]; auto; lia. Qed.

Lemma nthZ_grow lk u i : nthZ 0 (grow lk u) i = nthZ 0 lk i.
Proof. unfold grow. destruct (u >=? lenZ lk); auto. apply nthZ_app_zeros. Qed.

Lemma lenZ_grow lk u : 0 <= u -> u < lenZ (grow lk u) /\ lenZ lk <= lenZ (grow lk u).
Proof.
  intros Hu. unfold grow. destruct (u >=? lenZ lk) eqn:E.
  - rewrite lenZ_app, lenZ_repeat. pose proof (lenZ_nonneg lk). lia.
  - lia.
Qed.

Lemma lk_ok_grow lk u r : lk_ok lk r -> lk_ok (grow lk u) r.
Proof. intros H i. rewrite nthZ_grow. apply H. Qed.

Lemma lk_ok_upd lk r u v : lk_ok lk r -> 1 <= v < u -> u <= r -> lk_ok (updZ lk u v) r.
Proof.
  intros H Hv Hu i. destruct (Z.eq_dec u i) as [->|Hne].
  - destruct (Z_lt_ge_dec i (lenZ lk)).
    + rewrite nthZ_updZ_eq by lia. right; lia.
    + rewrite nthZ_default by (rewrite lenZ_updZ; lia). now left.
  - rewrite nthZ_updZ_neq by auto. apply H.
Qed.

(* ---------- equivalence classes of region ids induced by the lookup ---------- *)
Definition edge (lk : list Z) (a b : Z) : Prop := nthZ 0 lk a = b /\ b <> 0.
Definition same_class (lk : list Z) : Z -> Z -> Prop := clos_refl_sym_trans Z (edge lk).
(* the lookup's classes with lower ~ upper added *)
Definition edge_plus (lk : list Z) (lower upper : Z) (a b : Z) : Prop :=
  edge lk a b \/ (a = lower /\ b = upper).

Lemma rst_incl (E1 E2 : Z -> Z -> Prop) :
  (forall x y, E1 x y -> clos_refl_sym_trans Z E2 x y) ->
  forall x y, clos_refl_sym_trans Z E1 x y -> clos_refl_sym_trans Z E2 x y.
Proof.
  intros H x y Hxy. induction Hxy.
  - auto.
  - apply rst_refl.
  - now apply rst_sym.
  - eapply rst_trans; eauto.
Qed.

Lemma min_and_max_spec a b lo hi : min_and_max a b = (lo, hi) ->
  (lo = a /\ hi = b /\ a < b) \/ (lo = b /\ hi = a /\ b <= a).
Proof. unfold min_and_max. destruct (a <? b) eqn:E; intros [= <- <-]; [left|right]; lia. Qed.

Ltac rst_via z := apply rst_trans with z.

(* the chain walk: terminates within the fuel, keeps the invariant, does not resize,
   and the new classes are exactly the old ones with lower ~ upper joined *)
Lemma merge_loop_spec : forall fuel lk lower upper region,
  lk_ok lk region -> 1 <= lower < upper -> upper <= region -> upper < lenZ lk ->
  (Z.to_nat upper < fuel)%nat ->
  exists lk', merge_loop fuel lk lower upper = Some lk' /\ lk_ok lk' region /\ lenZ lk' = lenZ lk /\
    forall a b, same_class lk' a b <-> clos_refl_sym_trans Z (edge_plus lk lower upper) a b.
Proof.
  induction fuel as [|f IH]; intros lk lower upper region Hok Hlu Hur Hlen Hfuel; [lia|].
  cbn [merge_loop].
  set (prev := nthZ 0 lk upper).
  destruct (negb (prev =? 0) && negb (prev =? lower)) eqn:Erep.
  - (* repeat *)
    assert (Hp : 1 <= prev < upper) by (pose proof (Hok upper) as Hu; fold prev in Hu; lia).
    destruct (min_and_max lower prev) as [lo' pr'] eqn:Emm.
    apply min_and_max_spec in Emm.
    assert (Hlo : 1 <= lo' < pr' /\ pr' < upper) by lia.
    assert (Hset : (lo' = lower /\ pr' = prev) \/ (lo' = prev /\ pr' = lower)) by lia.
    set (lk1 := updZ lk upper lo').
    destruct (IH lk1 lo' pr' region) as (lk' & Hrun & Hok' & Hlen' & Hcls); try lia.
    + apply lk_ok_upd; auto; lia.
    + unfold lk1; rewrite lenZ_updZ; lia.
    + exists lk'. split; [exact Hrun|]. split; [exact Hok'|]. split.
      { rewrite Hlen'. unfold lk1. apply lenZ_updZ. }
      intros a b. rewrite Hcls. clear Hcls Hrun.
      assert (Hup : clos_refl_sym_trans Z (edge_plus lk lower upper) upper prev).
      { apply rst_step. left. split; [reflexivity|lia]. }
      assert (Hlu' : clos_refl_sym_trans Z (edge_plus lk lower upper) lower upper).
      { apply rst_step. right. auto. }
      assert (Hul1 : clos_refl_sym_trans Z (edge_plus lk1 lo' pr') upper lo').
      { apply rst_step. left. split; [unfold lk1; apply nthZ_updZ_eq; lia|lia]. }
      assert (Hlp1 : clos_refl_sym_trans Z (edge_plus lk1 lo' pr') lo' pr').
      { apply rst_step. right. auto. }
      split; apply rst_incl; intros x y [[Hxy Hy]|[-> ->]].
      * (* edge of lk1 *)
        destruct (Z.eq_dec upper x) as [<-|Hne].
        -- unfold lk1 in Hxy. rewrite nthZ_updZ_eq in Hxy by lia. subst y.
           destruct Hset as [[-> _]|[-> _]]; [now apply rst_sym|exact Hup].
        -- unfold lk1 in Hxy. rewrite nthZ_updZ_neq in Hxy by auto.
           apply rst_step. left. split; auto.
      * (* lo' ~ pr' *)
        destruct Hset as [[-> ->]|[-> ->]].
        -- rst_via upper; auto.
        -- rst_via upper; apply rst_sym; auto.
      * (* edge of lk *)
        destruct (Z.eq_dec upper x) as [<-|Hne].
        -- fold prev in Hxy. subst y.
           destruct Hset as [[_ <-]|[<- _]]; [rst_via lo'; auto|auto].
        -- apply rst_step. left. split; auto. unfold lk1. rewrite nthZ_updZ_neq by auto. exact Hxy.
      * (* lower ~ upper *)
        apply rst_sym.
        destruct Hset as [[<- _]|[_ <-]]; [auto|rst_via lo'; auto].
  - (* last write *)
    exists (updZ lk upper lower). split; [reflexivity|]. split; [apply lk_ok_upd; auto|].
    split; [apply lenZ_updZ|].
    assert (Hprev : prev = 0 \/ prev = lower) by lia.
    intros a b. split; apply rst_incl; intros x y.
    + intros [Hxy Hy]. destruct (Z.eq_dec upper x) as [<-|Hne].
      * rewrite nthZ_updZ_eq in Hxy by lia. subst y. apply rst_sym, rst_step. right; auto.
      * rewrite nthZ_updZ_neq in Hxy by auto. apply rst_step. left. split; auto.
    + assert (Hul : clos_refl_sym_trans Z (edge (updZ lk upper lower)) upper lower).
      { apply rst_step. split; [apply nthZ_updZ_eq; lia|lia]. }
      intros [[Hxy Hy]|[-> ->]].
      * destruct (Z.eq_dec upper x) as [<-|Hne].
        -- fold prev in Hxy. assert (Hyl : y = lower) by lia. rewrite Hyl. exact Hul.
        -- apply rst_step. split; auto. rewrite nthZ_updZ_neq by auto. exact Hxy.
      * now apply rst_sym.
Qed.

Lemma rst_edge_grow lk u a b :
  clos_refl_sym_trans Z (edge (grow lk u)) a b <-> clos_refl_sym_trans Z (edge lk) a b.
Proof.
  split; apply rst_incl; intros x y [H1 H2]; apply rst_step; split; auto;
    [rewrite nthZ_grow in H1|rewrite nthZ_grow]; auto.
Qed.

Lemma merge_regions_spec lk lower upper region :
  lk_ok lk region -> 1 <= lower < upper -> upper <= region ->
  exists lk', merge_regions lk lower upper = Some lk' /\ lk_ok lk' region /\ lenZ lk <= lenZ lk' /\
    forall a b, same_class lk' a b <-> clos_refl_sym_trans Z (edge_plus lk lower upper) a b.
Proof.
  intros Hok Hlu Hur. unfold merge_regions.
  destruct (lenZ_grow lk upper) as [Hg1 Hg2]; [lia|].
  destruct (merge_loop_spec (S (Z.to_nat upper)) (grow lk upper) lower upper region)
    as (lk' & Hrun & Hok' & Hlen & Hcls); auto using lk_ok_grow; try lia.
  exists lk'. repeat split; auto; try lia.
  - intros H. apply Hcls in H. revert H. apply rst_incl. intros x y [[H1 H2]|H]; apply rst_step; [left|right; auto].
    split; auto. now rewrite nthZ_grow in H1.
  - intros H. apply Hcls. revert H. apply rst_incl. intros x y [[H1 H2]|H]; apply rst_step; [left|right; auto].
    split; auto. now rewrite nthZ_grow.
Qed.

(* ---------- the labelling loop ---------- *)
(* after the cells < ij have been processed *)
Definition lab_inv (mask : option (list bool)) (n ij : Z) (st : lab_state) : Prop :=
  lk_ok (ls_lookup st) (ls_region st) /\ 0 <= ls_region st <= ij /\ lenZ (ls_regions st) = n /\
  forall k, 0 <= k < ij ->
    if mask_ok mask k then 1 <= nthZ 0 (ls_regions st) k <= ls_region st
    else nthZ 0 (ls_regions st) k = 0.

Lemma lab_inv_step_cells mask n ij regions lk region lk' region' v :
  lab_inv mask n ij (mkLab regions lk region) ->
  0 <= ij < n -> lk_ok lk' region' -> region <= region' <= ij + 1 ->
  (if mask_ok mask ij then 1 <= v <= region' else v = 0) ->
  lab_inv mask n (ij + 1) (mkLab (updZ regions ij v) lk' region').
Proof.
  intros (Hok & Hr & Hlen & Hcells) Hij Hok' Hr' Hv. unfold lab_inv. cbn [ls_lookup ls_region ls_regions] in *.
  split; [exact Hok'|]. split; [lia|]. split; [now rewrite lenZ_updZ|].
  intros k Hk. destruct (Z.eq_dec ij k) as [<-|Hne].
  {
    rewrite nthZ_updZ_eq by lia. exact Hv. }
  rewrite nthZ_updZ_neq by auto. specialize (Hcells k ltac:(lia)).
  destruct (mask_ok mask k); lia.
Qed.

Lemma mod_pos_gt nx ij : 0 < nx -> nx <= ij -> 0 < ij mod nx -> nx + 1 <= ij.
Proof.
  intros Hnx Hge Hm. destruct (Z.eq_dec ij nx) as [->|Hne]; [|lia].
  rewrite Z_mod_same_full in Hm. lia.
Qed.

Lemma mod_pos_nz nx ij : 0 < ij mod nx -> ij <> 0.
Proof. intros Hm ->. rewrite Zmod_0_l in Hm. lia. Qed.

Lemma cell_step_inv values mask conn8 nx n ij st :
  0 < nx -> 0 <= ij < n -> n < max_region_id -> lab_inv mask n ij st ->
  exists st', cell_step values mask conn8 nx st ij = Some st' /\ lab_inv mask n (ij + 1) st'.
Proof.
  intros Hnx Hij Hn Hinv. destruct st as [regions lk region].
  pose proof Hinv as (Hok & Hr & Hlen & Hcells). cbn [ls_lookup ls_region ls_regions] in *.
  unfold cell_step. cbn [ls_lookup ls_region ls_regions].
  destruct (mask_ok mask ij) eqn:Emij; cbn [negb].
  2:{ eexists; split; [reflexivity|]. eapply lab_inv_step_cells; eauto; try lia. now rewrite Emij. }
  set (v := nthZ 0 values ij).
  set (mW := (ij mod nx >? 0) && mask_ok mask (ij - 1) && (v =? nthZ 0 values (ij - 1))).
  set (mS := (ij >=? nx) && mask_ok mask (ij - nx) && (v =? nthZ 0 values (ij - nx))).
  set (sw := conn8 && (ij >=? nx) && negb mW && (ij mod nx >? 0) && mask_ok mask (ij - nx - 1) &&
             (v =? nthZ 0 values (ij - nx - 1))).
  set (se := conn8 && (ij >=? nx) && negb mS && (ij mod nx <? nx - 1) && mask_ok mask (ij - nx + 1) &&
             (v =? nthZ 0 values (ij - nx + 1))).
  set (rW := if sw then nthZ 0 regions (ij - nx - 1) else if mW then nthZ 0 regions (ij - 1) else 0).
  set (rS := if se then nthZ 0 regions (ij - nx + 1) else if mS then nthZ 0 regions (ij - nx) else 0).
  (* a matched neighbour is an already processed unmasked cell *)
  assert (HrW : mW || sw = true -> 1 <= rW <= region).
  { unfold rW. destruct sw eqn:Esw.
    - intros _. unfold sw in Esw.
      assert (Hk : 0 <= ij - nx - 1 < ij) by (pose proof (mod_pos_gt nx ij Hnx); lia).
      specialize (Hcells _ Hk). destruct (mask_ok mask (ij - nx - 1)); [exact Hcells|lia].
    - rewrite orb_false_r. intros EmW. rewrite EmW. unfold mW in EmW.
      assert (Hk : 0 <= ij - 1 < ij) by (pose proof (mod_pos_nz nx ij); lia).
      specialize (Hcells _ Hk). destruct (mask_ok mask (ij - 1)); [exact Hcells|lia]. }
  assert (HrS : mS || se = true -> 1 <= rS <= region).
  { unfold rS. destruct se eqn:Ese.
    - intros _. unfold se in Ese.
      assert (Hk : 0 <= ij - nx + 1 < ij) by lia.
      specialize (Hcells _ Hk). destruct (mask_ok mask (ij - nx + 1)); [exact Hcells|lia].
    - rewrite orb_false_r. intros EmS. rewrite EmS. unfold mS in EmS.
      assert (Hk : 0 <= ij - nx < ij) by lia.
      specialize (Hcells _ Hk). destruct (mask_ok mask (ij - nx)); [exact Hcells|lia]. }
  destruct ((mW || sw) && (mS || se)) eqn:Eboth.
  - apply andb_prop in Eboth. destruct Eboth as [E1 E2].
    specialize (HrW E1). specialize (HrS E2).
    destruct (min_and_max rW rS) as [lower upper] eqn:Emm.
    apply min_and_max_spec in Emm.
    destruct (negb (lower =? upper)) eqn:Ene.
    + destruct (merge_regions_spec lk lower upper region) as (lk' & Hrun & Hok' & _ & _); auto; try lia.
      rewrite Hrun. eexists; split; [reflexivity|].
      eapply lab_inv_step_cells; eauto; try lia. rewrite Emij; lia.
    + eexists; split; [reflexivity|].
      eapply lab_inv_step_cells; eauto; try lia. rewrite Emij; lia.
  - destruct (mW || sw) eqn:E1.
    + specialize (HrW eq_refl). eexists; split; [reflexivity|].
      eapply lab_inv_step_cells; eauto; try lia. rewrite Emij; lia.
    + destruct (mS || se) eqn:E2.
      * specialize (HrS eq_refl). eexists; split; [reflexivity|].
        eapply lab_inv_step_cells; eauto; try lia. rewrite Emij; lia.
      * destruct (region =? max_region_id) eqn:Emax; [lia|].
        eexists; split; [reflexivity|].
        eapply lab_inv_step_cells; eauto; try lia.
        -- apply lk_ok_mono with region; auto; lia.
        -- rewrite Emij; lia.
Qed.

Lemma label_loop_inv values mask conn8 nx n : 0 < nx -> n < max_region_id ->
  forall k ij st, 0 <= ij -> ij + Z.of_nat k <= n -> lab_inv mask n ij st ->
  exists st', label_loop values mask conn8 nx k ij st = Some st' /\ lab_inv mask n (ij + Z.of_nat k) st'.
Proof.
  intros Hnx Hn. induction k as [|k IH]; intros ij st Hij Hk Hinv.
  - exists st. split; [reflexivity|]. now replace (ij + Z.of_nat 0) with ij by lia.
  - cbn [label_loop].
    destruct (cell_step_inv values mask conn8 nx n ij st) as (st1 & Hs & Hinv1); auto; try lia.
    rewrite Hs. destruct (IH (ij + 1) st1) as (st' & Hrun & Hinv'); auto; try lia.
    exists st'. split; [exact Hrun|]. now replace (ij + Z.of_nat (S k)) with (ij + 1 + Z.of_nat k) by lia.
Qed.

Lemma label_init_inv mask nx ny : 0 <= nx * ny -> lab_inv mask (nx * ny) 0 (label_init nx ny).
Proof.
  intros Hn. unfold lab_inv, label_init. cbn [ls_lookup ls_region ls_regions].
  split; [intros i; left; apply nthZ_repeat|]. split; [lia|]. split; [rewrite lenZ_repeat; lia|].
  intros k Hk; lia.
Qed.

(* labelling never fails (no fuel exhaustion in any merge, no "too many polygons" below 2^32-1 cells)
   and ends in a state satisfying the invariant *)
Lemma labelling_total values mask conn8 nx ny :
  0 < nx -> 0 <= ny -> nx * ny < max_region_id ->
  exists st, label_loop values mask conn8 nx (Z.to_nat (nx * ny)) 0 (label_init nx ny) = Some st /\
             lab_inv mask (nx * ny) (nx * ny) st.
Proof.
  intros Hnx Hny Hn. assert (0 <= nx * ny) by lia.
  destruct (label_loop_inv values mask conn8 nx (nx * ny) Hnx Hn (Z.to_nat (nx * ny)) 0 (label_init nx ny))
    as (st & Hrun & Hinv); try lia.
  - now apply label_init_inv.
  - exists st. split; [exact Hrun|]. now replace (nx * ny) with (0 + Z.of_nat (Z.to_nat (nx * ny))) at 2 by lia.
Qed.

(* ---------- compaction ---------- *)
Definition compact_inv (region i : Z) (new_lk : list Z) (new_region : Z) : Prop :=
  lenZ new_lk = region + 1 /\ (i = 0 -> new_region = 0) /\
  (0 < i -> nthZ 0 new_lk 0 = 0 /\ 1 <= new_region) /\
  forall r, 1 <= r < i -> 1 <= nthZ 0 new_lk r < new_region.

Lemma compact_loop_inv lk region : lk_ok lk region ->
  forall k i new_lk new_region, 0 <= i -> i + Z.of_nat k = region + 1 ->
  compact_inv region i new_lk new_region ->
  exists nr, compact_inv region (region + 1) (compact_loop k i lk new_lk new_region) nr.
Proof.
  intros Hok. induction k as [|k IH]; intros i new_lk new_region Hi Hk Hinv.
  - exists new_region. cbn [compact_loop]. now replace (region + 1) with i by lia.
  - cbn [compact_loop]. destruct Hinv as (Hlen & H0 & Hpos & Hr).
    set (target := if i <? lenZ lk then nthZ 0 lk i else 0).
    assert (Ht : target = 0 \/ 1 <= target < i).
    { unfold target. destruct (i <? lenZ lk); [|now left]. destruct (Hok i) as [?|[? ?]]; [now left|now right]. }
    destruct (target =? 0) eqn:Et.
    + apply IH; try lia. split; [now rewrite lenZ_updZ|]. split; [lia|]. split.
      * intros _. destruct (Z.eq_dec i 0) as [->|Hne].
        -- rewrite nthZ_updZ_eq by lia. split; [apply H0; reflexivity|]. rewrite (H0 eq_refl). lia.
        -- rewrite nthZ_updZ_neq by auto. destruct (Hpos ltac:(lia)). split; auto; lia.
      * intros r Hr1. destruct (Z.eq_dec i r) as [<-|Hne].
        -- rewrite nthZ_updZ_eq by lia. destruct (Hpos ltac:(lia)). lia.
        -- rewrite nthZ_updZ_neq by auto. specialize (Hr r ltac:(lia)). lia.
    + assert (Hti : 1 <= target < i) by lia.
      apply IH; try lia. split; [now rewrite lenZ_updZ|]. split; [lia|]. split.
      * intros _. rewrite nthZ_updZ_neq by lia. apply Hpos; lia.
      * intros r Hr1. destruct (Z.eq_dec i r) as [<-|Hne].
        -- rewrite nthZ_updZ_eq by lia. apply Hr; lia.
        -- rewrite nthZ_updZ_neq by auto. apply Hr; lia.
Qed.

Lemma compact_spec lk region : lk_ok lk region -> 0 <= region ->
  nthZ 0 (compact lk region) 0 = 0 /\ forall r, 1 <= r <= region -> 1 <= nthZ 0 (compact lk region) r.
Proof.
  intros Hok Hr. unfold compact.
  destruct (compact_loop_inv lk region Hok (Z.to_nat (region + 1)) 0 (repeat 0 (Z.to_nat (region + 1))) 0)
    as (nr & _ & _ & Hpos & Hall); try lia.
  - split; [rewrite lenZ_repeat; lia|]. split; [auto|]. split; [lia|]. intros r ?; lia.
  - split; [apply Hpos; lia|]. intros r Hr1. specialize (Hall r ltac:(lia)). lia.
Qed.

(* ---------- _calculate_regions as a whole ---------- *)
Lemma calculate_regions_spec values mask conn8 nx ny :
  0 < nx -> 0 <= ny -> nx * ny < max_region_id ->
  exists regions, calculate_regions values mask conn8 nx ny = Some regions /\
    lenZ regions = nx * ny /\
    forall k, 0 <= k < nx * ny ->
      (mask_ok mask k = false -> nthZ 0 regions k = 0) /\
      (mask_ok mask k = true -> 1 <= nthZ 0 regions k).
Proof.
  intros Hnx Hny Hn. unfold calculate_regions.
  destruct (labelling_total values mask conn8 nx ny Hnx Hny Hn) as (st & Hrun & Hok & Hr & Hlen & Hcells).
  rewrite Hrun. eexists; split; [reflexivity|].
  destruct (compact_spec _ _ Hok ltac:(lia)) as [Hc0 Hc1].
  split; [now rewrite lenZ_map|].
  intros k Hk. rewrite (nthZ_map _ 0 0) by lia. specialize (Hcells k Hk).
  split; intros Em; rewrite Em in Hcells.
  - now rewrite Hcells.
  - apply Hc1. lia.
Qed.
