(* C15/BoundedD.v — bounded exhaustive checks by vm_compute (kernel VM, no native_compute): one lemma per raster shape;
   combined into the bounded theorems in ProofsBounded.v *)
Require Import Base.Prelude C15.Model C15.Spec.

Lemma chk_mask_1_1 : check_shape_mask [None; Some 0; Some 1] 1 1 = true.
Proof. vm_compute. reflexivity. Qed.

Lemma chk_mask_1_2 : check_shape_mask [None; Some 0; Some 1] 1 2 = true.
Proof. vm_compute. reflexivity. Qed.

Lemma chk_mask_1_3 : check_shape_mask [None; Some 0; Some 1] 1 3 = true.
Proof. vm_compute. reflexivity. Qed.

Lemma chk_mask_1_4 : check_shape_mask [None; Some 0; Some 1] 1 4 = true.
Proof. vm_compute. reflexivity. Qed.

Lemma chk_mask_1_5 : check_shape_mask [None; Some 0; Some 1] 1 5 = true.
Proof. vm_compute. reflexivity. Qed.

Lemma chk_mask_1_6 : check_shape_mask [None; Some 0; Some 1] 1 6 = true.
Proof. vm_compute. reflexivity. Qed.

Lemma chk_mask_1_7 : check_shape_mask [None; Some 0; Some 1] 1 7 = true.
Proof. vm_compute. reflexivity. Qed.

Lemma chk_mask_2_1 : check_shape_mask [None; Some 0; Some 1] 2 1 = true.
Proof. vm_compute. reflexivity. Qed.

Lemma chk_mask_2_2 : check_shape_mask [None; Some 0; Some 1] 2 2 = true.
Proof. vm_compute. reflexivity. Qed.

Lemma chk_mask_2_3 : check_shape_mask [None; Some 0; Some 1] 2 3 = true.
Proof. vm_compute. reflexivity. Qed.

Lemma chk_mask_3_1 : check_shape_mask [None; Some 0; Some 1] 3 1 = true.
Proof. vm_compute. reflexivity. Qed.

Lemma chk_mask_3_2 : check_shape_mask [None; Some 0; Some 1] 3 2 = true.
Proof. vm_compute. reflexivity. Qed.

Lemma chk_mask_4_1 : check_shape_mask [None; Some 0; Some 1] 4 1 = true.
Proof. vm_compute. reflexivity. Qed.

Lemma chk_mask_5_1 : check_shape_mask [None; Some 0; Some 1] 5 1 = true.
Proof. vm_compute. reflexivity. Qed.

Lemma chk_mask_6_1 : check_shape_mask [None; Some 0; Some 1] 6 1 = true.
Proof. vm_compute. reflexivity. Qed.

Lemma chk_mask_7_1 : check_shape_mask [None; Some 0; Some 1] 7 1 = true.
Proof. vm_compute. reflexivity. Qed.

Lemma chk_mask_2_4 : check_shape_mask [None; Some 0; Some 1] 2 4 = true.
Proof. vm_compute. reflexivity. Qed.
