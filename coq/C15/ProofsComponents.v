(* C15/ProofsComponents.v — regions are components, for every raster: the union-find style invariant
   "classes of region_lookup over the provisional ids = connectivity among the cells scanned so far",
   its preservation by one labelled cell, and the final compaction (ids of two cells are equal iff the
   cells' provisional ids have the same root). *)
Require Import Base.Prelude C15.Model C15.Spec C15.ProofsRegions C15.ProofsFollow C15.ProofsNeigh.
Require Import Coq.Relations.Relation_Operators.

Lemma rst_edge_plus_swap lk x y a b :
  clos_refl_sym_trans Z (edge_plus lk x y) a b -> clos_refl_sym_trans Z (edge_plus lk y x) a b.
Proof.
  apply rst_incl. intros u v [H|[-> ->]]; [apply rst_step; now left|].
  apply rst_sym, rst_step. right. auto.
Qed.

Lemma rst_edge_plus_refl lk r a b :
  clos_refl_sym_trans Z (edge_plus lk r r) a b <-> same_class lk a b.
Proof.
  split; apply rst_incl.
  - intros u v [H|[-> ->]]; [now apply rst_step|apply rst_refl].
  - intros u v H. apply rst_step. now left.
Qed.

Lemma same_class_mono_plus lk x y a b :
  same_class lk a b -> clos_refl_sym_trans Z (edge_plus lk x y) a b.
Proof. apply rst_incl. intros u v H. apply rst_step. now left. Qed.

Ltac andb_hyps :=
  repeat match goal with H : _ && _ = true |- _ => apply andb_prop in H; destruct H end.
Ltac andb_goal :=
  repeat (apply andb_true_intro; split); try assumption; try reflexivity; try lia.

Section Comp.
  Variables (vals : list Z) (mask : option (list bool)) (conn8 : bool) (nx ny : Z).
  Hypothesis Hnx : 0 < nx.
  Let n := nx * ny.

  (* adjacent, both unmasked, equal values, both among the first m cells *)
  Definition lnk (m a b : Z) : Prop :=
    0 <= a < m /\ 0 <= b < m /\ In b (neighbours conn8 nx ny a) /\ linked vals mask a b = true.
  Definition conn (m : Z) : Z -> Z -> Prop := clos_refl_sym_trans Z (lnk m).

  Lemma conn_mono m m' a b : m <= m' -> conn m a b -> conn m' a b.
  Proof.
    intros Hm. apply rst_incl. intros u v (H1 & H2 & H3 & H4). apply rst_step. unfold lnk. repeat split; auto; lia.
  Qed.

  Lemma linked_sym a b : linked vals mask a b = linked vals mask b a.
  Proof. unfold linked. rewrite (Z.eqb_sym (nthZ 0 vals a)). destruct (mask_ok mask a), (mask_ok mask b); reflexivity. Qed.

  Lemma lnk_sym m a b : m <= n -> lnk m a b -> lnk m b a.
  Proof.
    intros Hm (H1 & H2 & H3 & H4). unfold lnk. repeat split; try lia.
    - apply neighbours_sym; auto. unfold n in Hm. lia.
    - now rewrite linked_sym.
  Qed.

  (* a scanned, linked neighbour of cell ij *)
  Definition good (ij c : Z) : Prop :=
    0 <= c < ij /\ In c (neighbours conn8 nx ny ij) /\ linked vals mask ij c = true.

  Lemma good_lnk ij c : 0 <= ij -> good ij c -> lnk (ij + 1) ij c.
  Proof. intros Hij (H1 & H2 & H3). unfold lnk. repeat split; auto; lia. Qed.

  (* what one labelled cell does, in terms of the cells it joins *)
  Lemma cell_step_char ij st st' :
    0 <= ij < n -> n < max_region_id -> lab_inv mask n ij st ->
    cell_step vals mask conn8 nx st ij = Some st' ->
    (mask_ok mask ij = false /\ ls_regions st' = updZ (ls_regions st) ij 0 /\
       ls_lookup st' = ls_lookup st /\ ls_region st' = ls_region st) \/
    (mask_ok mask ij = true /\ (forall b, good ij b -> False) /\
       ls_regions st' = updZ (ls_regions st) ij (ls_region st + 1) /\
       ls_lookup st' = ls_lookup st /\ ls_region st' = ls_region st + 1) \/
    (mask_ok mask ij = true /\ exists c1 c2,
       good ij c1 /\ good ij c2 /\ (forall b, good ij b -> conn ij b c1 \/ conn ij b c2) /\
       (forall x y, same_class (ls_lookup st') x y <->
                    clos_refl_sym_trans Z (edge_plus (ls_lookup st) (nthZ 0 (ls_regions st) c1)
                                                                    (nthZ 0 (ls_regions st) c2)) x y) /\
       (exists rho, (rho = nthZ 0 (ls_regions st) c1 \/ rho = nthZ 0 (ls_regions st) c2) /\
                    ls_regions st' = updZ (ls_regions st) ij rho) /\
       ls_region st' = ls_region st).
  Proof.
    intros Hij Hn Hinv. destruct st as [regions lk region].
    pose proof Hinv as (Hok & Hr & Hlen & Hcells). cbn [ls_lookup ls_region ls_regions] in *.
    unfold cell_step. cbn [ls_lookup ls_region ls_regions].
    destruct (mask_ok mask ij) eqn:Emij; cbn [negb].
    2:{ intros [= <-]. left. cbn. auto. }
    set (mW := (ij mod nx >? 0) && mask_ok mask (ij - 1) && (nthZ 0 vals ij =? nthZ 0 vals (ij - 1))).
    set (mS := (ij >=? nx) && mask_ok mask (ij - nx) && (nthZ 0 vals ij =? nthZ 0 vals (ij - nx))).
    set (sw := conn8 && (ij >=? nx) && negb mW && (ij mod nx >? 0) && mask_ok mask (ij - nx - 1) &&
               (nthZ 0 vals ij =? nthZ 0 vals (ij - nx - 1))).
    set (se := conn8 && (ij >=? nx) && negb mS && (ij mod nx <? nx - 1) && mask_ok mask (ij - nx + 1) &&
               (nthZ 0 vals ij =? nthZ 0 vals (ij - nx + 1))).
    set (cW := if sw then ij - nx - 1 else ij - 1).
    set (cS := if se then ij - nx + 1 else ij - nx).
    assert (ErW : (if sw then nthZ 0 regions (ij - nx - 1) else if mW then nthZ 0 regions (ij - 1) else 0) =
                  if mW || sw then nthZ 0 regions cW else 0).
    { unfold cW. destruct sw, mW; reflexivity. }
    assert (ErS : (if se then nthZ 0 regions (ij - nx + 1) else if mS then nthZ 0 regions (ij - nx) else 0) =
                  if mS || se then nthZ 0 regions cS else 0).
    { unfold cS. destruct se, mS; reflexivity. }
    rewrite ErW, ErS. clear ErW ErS.
    assert (Hn' : 0 <= ij < nx * ny) by (unfold n in Hij; lia).
    (* if the direct neighbour matches, the diagonal one is not consulted *)
    assert (Hsw_off : mW = true -> sw = false).
    { intros E. destruct sw eqn:Esw; [|reflexivity]. unfold sw in Esw. andb_hyps.
      match goal with H : negb mW = true |- _ => rewrite E in H; discriminate H end. }
    assert (Hse_off : mS = true -> se = false).
    { intros E. destruct se eqn:Ese; [|reflexivity]. unfold se in Ese. andb_hyps.
      match goal with H : negb mS = true |- _ => rewrite E in H; discriminate H end. }
    (* the chosen cells are good *)
    assert (HgW : mW || sw = true -> good ij cW).
    { unfold cW, good, linked. rewrite Emij. destruct sw eqn:Esw.
      - intros _. unfold sw in Esw. andb_hyps. pose proof (mod_pos_gt nx ij Hnx).
        split; [lia|]. split; [apply neighbour_SW; auto; lia|]. andb_goal.
      - rewrite orb_false_r. intros EmW. unfold mW in EmW. andb_hyps. pose proof (mod_pos_nz nx ij).
        split; [lia|]. split; [apply neighbour_W; auto; lia|]. andb_goal. }
    assert (HgS : mS || se = true -> good ij cS).
    { unfold cS, good, linked. rewrite Emij. destruct se eqn:Ese.
      - intros _. unfold se in Ese. andb_hyps.
        split; [lia|]. split; [apply neighbour_SE; auto; lia|]. andb_goal.
      - rewrite orb_false_r. intros EmS. unfold mS in EmS. andb_hyps.
        split; [lia|]. split; [apply neighbour_S; auto; lia|]. andb_goal. }
    (* every good neighbour is covered by the chosen cell of its side *)
    assert (Hcov : forall b, good ij b ->
              (mW || sw = true /\ conn ij b cW) \/ (mS || se = true /\ conn ij b cS)).
    { intros b (Hb & Hin & Hl). unfold linked in Hl. rewrite Emij in Hl. andb_hyps.
      destruct (neighbours_below conn8 nx ny Hnx ij b Hn' Hin ltac:(lia))
        as [[-> Hm]|[[-> Hge]|[(Hc & -> & Hge & Hm)|(Hc & -> & Hge & Hm)]]].
      - left. assert (EmW : mW = true) by (unfold mW; andb_goal).
        unfold cW. rewrite EmW, (Hsw_off EmW). split; [reflexivity|apply rst_refl].
      - right. assert (EmS : mS = true) by (unfold mS; andb_goal).
        unfold cS. rewrite EmS, (Hse_off EmS). split; [reflexivity|apply rst_refl].
      - left. pose proof (mod_pos_gt nx ij Hnx Hge Hm).
        destruct (Bool.bool_dec mW true) as [EmW|EmW]; [|apply not_true_is_false in EmW].
        + unfold cW. rewrite (Hsw_off EmW), EmW. split; [reflexivity|].
          apply rst_sym, rst_step. unfold mW in EmW. andb_hyps. unfold lnk.
          split; [lia|]. split; [lia|]. split.
          * replace (ij - nx - 1) with (ij - 1 - nx) by lia. apply neighbour_S; auto; lia.
          * unfold linked. andb_goal.
        + assert (Esw : sw = true) by (unfold sw; rewrite EmW; andb_goal).
          unfold cW. rewrite Esw, EmW. split; [reflexivity|apply rst_refl].
      - right. destruct (Bool.bool_dec mS true) as [EmS|EmS]; [|apply not_true_is_false in EmS].
        + unfold cS. rewrite (Hse_off EmS), EmS. split; [reflexivity|].
          apply rst_step. unfold mS in EmS. andb_hyps. unfold lnk.
          split; [lia|]. split; [lia|]. split.
          * destruct (rc_of nx ij Hnx) as [Hrc Hmm].
            destruct (divmod_of nx (ij - nx + 1) (ij mod nx + 1) (ij / nx - 1) ltac:(lia) ltac:(lia)) as [_ M].
            assert (HW : In (ij - nx + 1 - 1) (neighbours conn8 nx ny (ij - nx + 1)))
              by (apply neighbour_W; auto; [lia|rewrite M; lia]).
            replace (ij - nx + 1 - 1) with (ij - nx) in HW by lia. exact HW.
          * unfold linked. andb_goal.
        + assert (Ese : se = true) by (unfold se; rewrite EmS; andb_goal).
          unfold cS. rewrite Ese, EmS. split; [reflexivity|apply rst_refl]. }
    (* regions of good cells are valid ids *)
    assert (Hval : forall c, good ij c -> 1 <= nthZ 0 regions c <= region).
    { intros c (Hc & _ & Hl). specialize (Hcells c Hc). unfold linked in Hl. andb_hyps.
      match goal with H : mask_ok mask c = true |- _ => rewrite H in Hcells end. exact Hcells. }
    destruct ((mW || sw) && (mS || se)) eqn:Eboth.
    - apply andb_prop in Eboth. destruct Eboth as [E1 E2]. rewrite E1, E2.
      pose proof (HgW E1) as G1. pose proof (HgS E2) as G2.
      pose proof (Hval _ G1) as V1. pose proof (Hval _ G2) as V2.
      destruct (min_and_max (nthZ 0 regions cW) (nthZ 0 regions cS)) as [lower upper] eqn:Emm.
      apply min_and_max_spec in Emm.
      destruct (negb (lower =? upper)) eqn:Ene.
      + destruct (merge_regions_spec lk lower upper region) as (lk' & Hrun & _ & _ & Hcls); auto; try lia.
        rewrite Hrun. intros [= <-]. right; right. split; [reflexivity|]. exists cW, cS. cbn [ls_lookup ls_region ls_regions].
        split; [exact G1|]. split; [exact G2|]. split.
        { intros b Hb. destruct (Hcov b Hb) as [[_ H]|[_ H]]; auto. }
        split.
        { intros x y. rewrite Hcls. destruct Emm as [(-> & -> & _)|(-> & -> & _)]; [reflexivity|].
          split; apply rst_edge_plus_swap. }
        split; [|reflexivity]. exists lower. split; [lia|reflexivity].
      + intros [= <-]. right; right. split; [reflexivity|]. exists cW, cS. cbn [ls_lookup ls_region ls_regions].
        split; [exact G1|]. split; [exact G2|]. split.
        { intros b Hb. destruct (Hcov b Hb) as [[_ H]|[_ H]]; auto. }
        split.
        { intros x y. assert (Heq : nthZ 0 regions cW = nthZ 0 regions cS) by lia.
          rewrite Heq. symmetry. apply rst_edge_plus_refl. }
        split; [|reflexivity]. exists lower. split; [lia|reflexivity].
    - destruct (mW || sw) eqn:E1.
      + assert (E2 : mS || se = false) by (destruct (mS || se); [discriminate|reflexivity]).
        intros [= <-]. right; right. split; [reflexivity|]. exists cW, cW.
        cbn [ls_lookup ls_region ls_regions]. pose proof (HgW eq_refl) as G1.
        split; [exact G1|]. split; [exact G1|]. split.
        { intros b Hb. destruct (Hcov b Hb) as [[_ H]|[H _]]; [auto|congruence]. }
        split; [intros x y; symmetry; apply rst_edge_plus_refl|].
        split; [|reflexivity]. eexists. split; [left; reflexivity|reflexivity].
      + cbn [andb]. destruct (mS || se) eqn:E2.
        * intros [= <-]. right; right. split; [reflexivity|]. exists cS, cS.
          cbn [ls_lookup ls_region ls_regions]. pose proof (HgS eq_refl) as G2.
          split; [exact G2|]. split; [exact G2|]. split.
          { intros b Hb. destruct (Hcov b Hb) as [[H _]|[_ H]]; [congruence|auto]. }
          split; [intros x y; symmetry; apply rst_edge_plus_refl|].
          split; [|reflexivity]. eexists. split; [left; reflexivity|reflexivity].
        * destruct (region =? max_region_id) eqn:Emax; [lia|].
          intros [= <-]. right; left. cbn [ls_lookup ls_region ls_regions].
          split; [reflexivity|]. split; [|auto].
          intros b Hb. destruct (Hcov b Hb) as [[H _]|[H _]]; congruence.
  Qed.

  (* ---------- the invariant ---------- *)
  Definition comp_inv (ij : Z) (st : lab_state) : Prop :=
    lab_inv mask n ij st /\
    (forall r, 1 <= r <= ls_region st ->
       exists a, 0 <= a < ij /\ mask_ok mask a = true /\ nthZ 0 (ls_regions st) a = r) /\
    (forall a b, 0 <= a < ij -> 0 <= b < ij -> mask_ok mask a = true -> mask_ok mask b = true ->
       (same_class (ls_lookup st) (nthZ 0 (ls_regions st) a) (nthZ 0 (ls_regions st) b) <-> conn ij a b)).

  Lemma neighbours_irrefl a b : In b (neighbours conn8 nx ny a) -> b <> a.
  Proof.
    intros H. apply neighbours_char in H. destruct H as (di & dj & (H1 & H2 & H3 & H4) & Hi & Hj & Hb) .
    destruct (divmod_of nx b _ _ Hi Hb) as [D M]. intros ->. lia.
  Qed.

  Lemma linked_masks a b : linked vals mask a b = true -> mask_ok mask a = true /\ mask_ok mask b = true.
  Proof. unfold linked. intros H. andb_hyps. auto. Qed.

  Lemma lnk_cases ij u v : 0 <= ij < n -> lnk (ij + 1) u v ->
    lnk ij u v \/ (u = ij /\ good ij v) \/ (v = ij /\ good ij u).
  Proof.
    intros Hij (Hu & Hv & Hin & Hl).
    pose proof (neighbours_irrefl _ _ Hin) as Hne.
    destruct (Z.eq_dec u ij) as [->|Hu']; [right; left|destruct (Z.eq_dec v ij) as [->|Hv']; [right; right|left]].
    - split; [reflexivity|]. unfold good. repeat split; auto; lia.
    - split; [reflexivity|]. unfold good. split; [lia|]. split.
      + apply neighbours_sym; auto. unfold n in Hij. lia.
      + now rewrite linked_sym.
    - unfold lnk. repeat split; auto; lia.
  Qed.

  Lemma conn_dom m a b : conn m a b -> a = b \/ (0 <= a < m /\ 0 <= b < m).
  Proof.
    induction 1 as [x y (H1 & H2 & _)|x|x y _ IH|x y z _ IH1 _ IH2]; auto; lia.
  Qed.

  Lemma same_class_valid lk region x y : lk_ok lk region -> same_class lk x y ->
    x = y \/ (1 <= x <= region /\ 1 <= y <= region).
  Proof.
    intros Hok. induction 1 as [x y [H1 H2]|x|x y _ IH|x y z _ IH1 _ IH2]; auto; try lia.
    right. destruct (Hok x) as [E|[E1 E2]]; lia.
  Qed.

  Lemma conn_sym m a b : conn m a b -> conn m b a.
  Proof. apply rst_sym. Qed.
  Lemma conn_trans m a b c : conn m a b -> conn m b c -> conn m a c.
  Proof. apply rst_trans. Qed.

  Lemma comp_inv_step ij st st' :
    0 <= ij < n -> n < max_region_id -> comp_inv ij st ->
    cell_step vals mask conn8 nx st ij = Some st' -> comp_inv (ij + 1) st'.
  Proof.
    intros Hij Hn (Hlab & Hwit & Hcc) Hrun.
    destruct (cell_step_inv vals mask conn8 nx n ij st Hnx Hij Hn Hlab) as (st2 & Hrun2 & Hlab').
    rewrite Hrun in Hrun2. injection Hrun2 as <-.
    split; [exact Hlab'|].
    pose proof Hlab as (Hok & Hr & Hlen & Hcells).
    destruct st as [regions lk region]. destruct st' as [regions' lk' region'].
    cbn [ls_lookup ls_region ls_regions] in *.
    assert (Hfold : forall k, 0 <= k < ij -> mask_ok mask k = true -> 1 <= nthZ 0 regions k <= region).
    { intros k Hk Em. specialize (Hcells k Hk). now rewrite Em in Hcells. }
    destruct (cell_step_char ij _ _ Hij Hn Hlab Hrun) as
      [(Em & Er & El & Eg)|[(Em & Hnone & Er & El & Eg)|(Em & c1 & c2 & G1 & G2 & Hcov & Hcls & (rho & Hrho & Er) & Eg)]];
      cbn [ls_lookup ls_region ls_regions] in *; subst regions'.
    - (* masked cell *)
      subst lk' region'.
      assert (Hsub : forall a b, conn (ij + 1) a b -> conn ij a b).
      { apply rst_incl. intros u v Hl. destruct (lnk_cases ij u v Hij Hl) as [H|[(-> & _ & _ & H)|(-> & _ & _ & H)]].
        - now apply rst_step.
        - apply linked_masks in H. destruct H. congruence.
        - apply linked_masks in H. destruct H. congruence. }
      split.
      + intros r Hr1. destruct (Hwit r Hr1) as (a & Ha & Hma & Hfa). exists a.
        split; [lia|]. split; [exact Hma|]. rewrite nthZ_updZ_neq by lia. exact Hfa.
      + intros a b Ha Hb Hma Hmb.
        assert (a <> ij) by (intros ->; congruence). assert (b <> ij) by (intros ->; congruence).
        rewrite !nthZ_updZ_neq by auto. rewrite (Hcc a b) by (auto; lia).
        split; [apply conn_mono; lia|apply Hsub].
    - (* fresh id *)
      subst lk' region'.
      assert (Hsub : forall a b, conn (ij + 1) a b -> conn ij a b).
      { apply rst_incl. intros u v Hl. destruct (lnk_cases ij u v Hij Hl) as [H|[(-> & H)|(-> & H)]].
        - now apply rst_step.
        - destruct (Hnone _ H).
        - destruct (Hnone _ H). }
      split.
      + intros r Hr1. destruct (Z.eq_dec r (region + 1)) as [->|Hne].
        * exists ij. split; [lia|]. split; [exact Em|]. apply nthZ_updZ_eq. lia.
        * destruct (Hwit r ltac:(lia)) as (a & Ha & Hma & Hfa). exists a.
          split; [lia|]. split; [exact Hma|]. rewrite nthZ_updZ_neq by lia. exact Hfa.
      + intros a b Ha Hb Hma Hmb.
        destruct (Z.eq_dec a ij) as [->|Hna]; destruct (Z.eq_dec b ij) as [->|Hnb].
        * split; intros _; apply rst_refl.
        * rewrite nthZ_updZ_eq by lia. rewrite nthZ_updZ_neq by auto.
          pose proof (Hfold b ltac:(lia) Hmb) as Hfb.
          split; intros H; exfalso.
          -- destruct (same_class_valid _ _ _ _ Hok H); lia.
          -- apply Hsub in H. destruct (conn_dom _ _ _ H); lia.
        * rewrite nthZ_updZ_eq by lia. rewrite nthZ_updZ_neq by auto.
          pose proof (Hfold a ltac:(lia) Hma) as Hfa.
          split; intros H; exfalso.
          -- destruct (same_class_valid _ _ _ _ Hok H); lia.
          -- apply Hsub in H. destruct (conn_dom _ _ _ H); lia.
        * rewrite !nthZ_updZ_neq by auto. rewrite (Hcc a b) by (auto; lia).
          split; [apply conn_mono; lia|apply Hsub].
    - (* joined to scanned neighbours *)
      subst region'.
      set (f' := fun k => nthZ 0 (updZ regions ij rho) k).
      assert (Hf'lt : forall k, k <> ij -> f' k = nthZ 0 regions k) by (intros k Hk; unfold f'; apply nthZ_updZ_neq; lia).
      assert (Hf'ij : f' ij = rho) by (unfold f'; apply nthZ_updZ_eq; lia).
      pose proof G1 as (Hc1 & _ & Hl1). pose proof G2 as (Hc2 & _ & Hl2).
      apply linked_masks in Hl1. apply linked_masks in Hl2. destruct Hl1 as [_ Mc1]. destruct Hl2 as [_ Mc2].
      pose proof (Hfold c1 Hc1 Mc1) as V1. pose proof (Hfold c2 Hc2 Mc2) as V2.
      assert (K1 : conn (ij + 1) ij c1) by (apply rst_step, good_lnk; [lia|exact G1]).
      assert (K2 : conn (ij + 1) ij c2) by (apply rst_step, good_lnk; [lia|exact G2]).
      assert (Hmono : forall a b, conn ij a b -> conn (ij + 1) a b) by (intros a b; apply conn_mono; lia).
      assert (X12 : same_class lk' (nthZ 0 regions c1) (nthZ 0 regions c2)).
      { apply Hcls. apply rst_step. right. auto. }
      assert (Hup : forall x y, same_class lk x y -> same_class lk' x y).
      { intros x y H. apply Hcls. now apply same_class_mono_plus. }
      (* every cell up to ij has a scanned representative with the same id *)
      assert (Hred : forall a, 0 <= a <= ij -> mask_ok mask a = true ->
                exists a0, 0 <= a0 < ij /\ mask_ok mask a0 = true /\ nthZ 0 regions a0 = f' a /\ conn (ij + 1) a a0).
      { intros a Ha Hma. destruct (Z.eq_dec a ij) as [->|Hne].
        - rewrite Hf'ij. destruct Hrho as [->| ->]; [exists c1|exists c2]; auto.
        - exists a. rewrite Hf'lt by auto. repeat split; auto; try lia. apply rst_refl. }
      split.
      + intros r Hr1. destruct (Hwit r Hr1) as (a & Ha & Hma & Hfa). exists a.
        split; [lia|]. split; [exact Hma|]. rewrite Hf'lt by lia. exact Hfa.
      + intros a b Ha Hb Hma Hmb. split.
        * (* soundness: same class -> connected *)
          intros Hsc. apply Hcls in Hsc.
          assert (HG : forall r s, clos_refl_sym_trans Z (edge_plus lk (nthZ 0 regions c1) (nthZ 0 regions c2)) r s ->
                    ((1 <= r <= region) <-> (1 <= s <= region)) /\
                    forall a b, 0 <= a <= ij -> 0 <= b <= ij -> mask_ok mask a = true -> mask_ok mask b = true ->
                                f' a = r -> f' b = s -> conn (ij + 1) a b).
          { clear a b Ha Hb Hma Hmb Hsc.
            induction 1 as [r s [[E1 E2]|[-> ->]]|r|r s _ IH|r t s _ IH1 _ IH2].
            - split.
              + destruct (Hok r) as [E|[E3 E4]]; [congruence|]. rewrite E1 in E3. lia.
              + intros a b Ha Hb Hma Hmb Fa Fb.
                destruct (Hred a Ha Hma) as (a0 & Ha0 & Ma0 & Fa0 & Ca).
                destruct (Hred b Hb Hmb) as (b0 & Hb0 & Mb0 & Fb0 & Cb).
                apply conn_trans with a0; [exact Ca|]. apply conn_trans with b0; [|apply conn_sym; exact Cb].
                apply Hmono, Hcc; auto. rewrite Fa0, Fb0, Fa, Fb. apply rst_step. split; auto.
            - split; [lia|].
              intros a b Ha Hb Hma Hmb Fa Fb.
              destruct (Hred a Ha Hma) as (a0 & Ha0 & Ma0 & Fa0 & Ca).
              destruct (Hred b Hb Hmb) as (b0 & Hb0 & Mb0 & Fb0 & Cb).
              apply conn_trans with a0; [exact Ca|]. apply conn_trans with c1.
              { apply Hmono, Hcc; auto. rewrite Fa0, Fa. apply rst_refl. }
              apply conn_trans with ij; [apply conn_sym; exact K1|]. apply conn_trans with c2; [exact K2|].
              apply conn_trans with b0; [|apply conn_sym; exact Cb].
              apply Hmono, Hcc; auto. rewrite Fb0, Fb. apply rst_refl.
            - split; [reflexivity|].
              intros a b Ha Hb Hma Hmb Fa Fb.
              destruct (Hred a Ha Hma) as (a0 & Ha0 & Ma0 & Fa0 & Ca).
              destruct (Hred b Hb Hmb) as (b0 & Hb0 & Mb0 & Fb0 & Cb).
              apply conn_trans with a0; [exact Ca|]. apply conn_trans with b0; [|apply conn_sym; exact Cb].
              apply Hmono, Hcc; auto. rewrite Fa0, Fb0, Fa, Fb. apply rst_refl.
            - destruct IH as [IHv IHc]. split; [symmetry; exact IHv|].
              intros a b Ha Hb Hma Hmb Fa Fb. apply conn_sym. eapply IHc; eauto.
            - destruct IH1 as [IHv1 IHc1]. destruct IH2 as [IHv2 IHc2]. split; [etransitivity; eauto|].
              intros a b Ha Hb Hma Hmb Fa Fb.
              assert (Vr : 1 <= r <= region).
              { destruct (Hred a Ha Hma) as (a0 & Ha0 & Ma0 & Fa0 & _). rewrite <- Fa, <- Fa0. now apply Hfold. }
              apply IHv1 in Vr. destruct (Hwit t Vr) as (w & Hw & Mw & Fw).
              apply conn_trans with w.
              + eapply IHc1; eauto; try lia. rewrite Hf'lt by lia. exact Fw.
              + eapply IHc2; eauto; try lia. rewrite Hf'lt by lia. exact Fw. }
          destruct (HG _ _ Hsc) as [_ HGc]. eapply HGc; eauto; lia.
        * (* completeness: connected -> same class *)
          intros Hc.
          assert (HQ : forall u v, conn (ij + 1) u v ->
                    u = v \/ ((0 <= u <= ij /\ mask_ok mask u = true) /\ (0 <= v <= ij /\ mask_ok mask v = true) /\
                              same_class lk' (f' u) (f' v))).
          { clear a b Ha Hb Hma Hmb Hc.
            assert (Hgood : forall v, good ij v -> same_class lk' (f' ij) (f' v)).
            { intros v Gv. pose proof Gv as (Hv & _ & Hlv). apply linked_masks in Hlv. destruct Hlv as [_ Mv].
              rewrite Hf'ij, Hf'lt by lia.
              assert (Y : same_class lk' (nthZ 0 regions v) (nthZ 0 regions c1) \/
                          same_class lk' (nthZ 0 regions v) (nthZ 0 regions c2)).
              { destruct (Hcov v Gv) as [H|H]; [left|right]; apply Hup, Hcc; auto. }
              apply rst_sym.
              destruct Hrho as [->| ->]; destruct Y as [Y|Y]; auto.
              - eapply rst_trans; [exact Y|apply rst_sym; exact X12].
              - eapply rst_trans; [exact Y|exact X12]. }
            induction 1 as [u v Hl|u|u v _ IH|u w v _ IH1 _ IH2].
            - right. pose proof Hl as (Hu & Hv & _ & Hlk). apply linked_masks in Hlk. destruct Hlk as [Mu Mv].
              split; [split; [lia|exact Mu]|]. split; [split; [lia|exact Mv]|].
              destruct (lnk_cases ij u v Hij Hl) as [H|[(-> & H)|(-> & H)]].
              + pose proof H as (Hu' & Hv' & _). rewrite !Hf'lt by lia. apply Hup, Hcc; auto. now apply rst_step.
              + now apply Hgood.
              + apply rst_sym. now apply Hgood.
            - now left.
            - destruct IH as [->|(A & B & C)]; [now left|right]. split; [exact B|]. split; [exact A|]. now apply rst_sym.
            - destruct IH1 as [->|(A & B & C)]; [exact IH2|]. destruct IH2 as [<-|(A' & B' & C')]; [right; auto|].
              right. split; [exact A|]. split; [exact B'|]. eapply rst_trans; eauto. }
          destruct (HQ a b Hc) as [->|(_ & _ & H)]; [apply rst_refl|exact H].
  Qed.

  Lemma comp_inv_loop : n < max_region_id ->
    forall k ij st st', 0 <= ij -> ij + Z.of_nat k <= n -> comp_inv ij st ->
    label_loop vals mask conn8 nx k ij st = Some st' -> comp_inv (ij + Z.of_nat k) st'.
  Proof.
    intros Hn. induction k as [|k IH]; intros ij st st' Hij Hk Hinv; cbn [label_loop].
    - intros [= <-]. now replace (ij + Z.of_nat 0) with ij by lia.
    - destruct (cell_step vals mask conn8 nx st ij) as [st1|] eqn:Es; [|discriminate].
      intros Hrun. replace (ij + Z.of_nat (S k)) with (ij + 1 + Z.of_nat k) by lia.
      eapply IH; [lia|lia| |exact Hrun]. eapply comp_inv_step; eauto. lia.
  Qed.

  Lemma comp_inv_init : 0 <= n -> comp_inv 0 (label_init nx ny).
  Proof.
    intros Hn. split; [now apply label_init_inv|]. split.
    - intros r Hr. unfold label_init in Hr. cbn [ls_region] in Hr. lia.
    - intros a b Ha. lia.
  Qed.
End Comp.

(* ---------- roots of the lookup forest ---------- *)
Fixpoint rootf (fuel : nat) (lk : list Z) (r : Z) : Z :=
  match fuel with
  | O => r
  | S f => if nthZ 0 lk r =? 0 then r else rootf f lk (nthZ 0 lk r)
  end.
Definition root (lk : list Z) (r : Z) : Z := rootf (Z.to_nat r) lk r.

Lemma rootf_class lk : forall fuel r, same_class lk r (rootf fuel lk r).
Proof.
  induction fuel as [|f IH]; intros r; cbn [rootf]; [apply rst_refl|].
  destruct (nthZ 0 lk r =? 0) eqn:E; [apply rst_refl|].
  eapply rst_trans; [apply rst_step; split; [reflexivity|lia]|apply IH].
Qed.

Section Roots.
  Variables (lk : list Z) (region : Z).
  Hypothesis Hok : lk_ok lk region.

  Lemma lk0 : nthZ 0 lk 0 = 0.
  Proof. destruct (Hok 0) as [E|[E _]]; [exact E|lia]. Qed.

  Lemma rootf_spec : forall fuel r, 0 <= r -> (Z.to_nat r <= fuel)%nat ->
    nthZ 0 lk (rootf fuel lk r) = 0 /\ 0 <= rootf fuel lk r <= r.
  Proof.
    induction fuel as [|f IH]; intros r Hr Hf; cbn [rootf].
    - assert (r = 0) by lia. subst r. split; [apply lk0|lia].
    - destruct (nthZ 0 lk r =? 0) eqn:E; [split; lia|].
      destruct (Hok r) as [E0|[E1 E2]]; [lia|].
      destruct (IH (nthZ 0 lk r)) as [H1 H2]; try lia.
  Qed.

  Lemma rootf_indep : forall f1 f2 r, 0 <= r -> (Z.to_nat r <= f1)%nat -> (Z.to_nat r <= f2)%nat ->
    rootf f1 lk r = rootf f2 lk r.
  Proof.
    induction f1 as [|f1 IH]; intros f2 r Hr H1 H2.
    - assert (r = 0) by lia. subst r. destruct f2; cbn [rootf]; [reflexivity|]. now rewrite lk0.
    - destruct f2 as [|f2]; cbn [rootf].
      + assert (r = 0) by lia. subst r. now rewrite lk0.
      + destruct (nthZ 0 lk r =? 0) eqn:E; [reflexivity|].
        destruct (Hok r) as [E0|[E1 E2]]; [lia|]. apply IH; lia.
  Qed.

  Lemma root_unfold r : 0 <= r -> root lk r = if nthZ 0 lk r =? 0 then r else root lk (nthZ 0 lk r).
  Proof.
    intros Hr. unfold root. destruct (Z.to_nat r) as [|k] eqn:Ek; cbn [rootf].
    - assert (r = 0) by lia. subst r. now rewrite lk0.
    - destruct (nthZ 0 lk r =? 0) eqn:E; [reflexivity|].
      destruct (Hok r) as [E0|[E1 E2]]; [lia|]. apply rootf_indep; lia.
  Qed.

  Lemma root_is_root r : 0 <= r -> nthZ 0 lk (root lk r) = 0 /\ 0 <= root lk r <= r.
  Proof. intros Hr. apply rootf_spec; auto. Qed.

  Lemma class_root r s : same_class lk r s -> root lk r = root lk s.
  Proof.
    induction 1 as [r s [E1 E2]|r|r s _ IH|r t s _ IH1 _ IH2]; auto; try congruence.
    assert (Hr : 0 <= r) by (destruct (Z_lt_ge_dec r 0); [rewrite nthZ_neg in E1 by lia; lia|lia]).
    rewrite (root_unfold r Hr). rewrite E1. destruct (s =? 0) eqn:E; [lia|reflexivity].
  Qed.

  Lemma class_iff_root r s : same_class lk r s <-> root lk r = root lk s.
  Proof.
    split; [apply class_root|]. intros E.
    eapply rst_trans; [apply rootf_class|]. unfold root in E. rewrite E. apply rst_sym, rootf_class.
  Qed.

  (* ---------- compaction numbers the roots in increasing order ---------- *)
  Definition cnt (t : Z) : Z := lenZ (filter (fun k => nthZ 0 lk k =? 0) (ziota 0 (Z.to_nat t))).

  Lemma ziota_snoc : forall k s, ziota s (S k) = ziota s k ++ [s + Z.of_nat k].
  Proof.
    induction k as [|k IH]; intros s.
    - cbn. f_equal. lia.
    - change (ziota s (S (S k))) with (s :: ziota (s + 1) (S k)). rewrite IH. cbn [ziota app]. f_equal. f_equal. f_equal. lia.
  Qed.

  Lemma cnt_succ t : 0 <= t -> cnt (t + 1) = cnt t + (if nthZ 0 lk t =? 0 then 1 else 0).
  Proof.
    intros Ht. unfold cnt. replace (Z.to_nat (t + 1)) with (S (Z.to_nat t)) by lia.
    rewrite ziota_snoc, filter_app, lenZ_app. cbn [filter]. replace (0 + Z.of_nat (Z.to_nat t)) with t by lia.
    destruct (nthZ 0 lk t =? 0); reflexivity.
  Qed.

  Lemma cnt_le a b : 0 <= a <= b -> cnt a <= cnt b.
  Proof.
    intros H. replace b with (a + Z.of_nat (Z.to_nat (b - a))) by lia.
    induction (Z.to_nat (b - a)) as [|k IH]; [replace (a + Z.of_nat 0) with a by lia; lia|].
    replace (a + Z.of_nat (S k)) with (a + Z.of_nat k + 1) by lia. rewrite cnt_succ by lia.
    destruct (nthZ 0 lk (a + Z.of_nat k) =? 0); lia.
  Qed.

  Lemma cnt_root_lt a b : 0 <= a < b -> nthZ 0 lk a = 0 -> cnt a < cnt b.
  Proof.
    intros H E. pose proof (cnt_le (a + 1) b ltac:(lia)). rewrite cnt_succ in H0 by lia.
    rewrite E in H0. cbn in H0. lia.
  Qed.

  Lemma compact_loop_cnt : forall k i new_lk new_region, 0 <= i -> i + Z.of_nat k = region + 1 ->
    lenZ new_lk = region + 1 -> new_region = cnt i ->
    (forall r, 0 <= r < i -> nthZ 0 new_lk r = cnt (root lk r)) ->
    forall r, 0 <= r <= region -> nthZ 0 (compact_loop k i lk new_lk new_region) r = cnt (root lk r).
  Proof.
    induction k as [|k IH]; intros i new_lk new_region Hi Hk Hlen Hnr Hall r Hr; cbn [compact_loop].
    - apply Hall. lia.
    - assert (Et : (if i <? lenZ lk then nthZ 0 lk i else 0) = nthZ 0 lk i).
      { destruct (i <? lenZ lk) eqn:E; [reflexivity|]. symmetry. apply nthZ_default. lia. }
      rewrite Et. pose proof (root_unfold i Hi) as Hu.
      destruct (nthZ 0 lk i =? 0) eqn:E.
      + apply IH; auto; try lia.
        * now rewrite lenZ_updZ.
        * rewrite cnt_succ by lia. rewrite E. lia.
        * intros r' Hr'. destruct (Z.eq_dec i r') as [<-|Hne].
          -- rewrite nthZ_updZ_eq by lia. rewrite Hu. now subst new_region.
          -- rewrite nthZ_updZ_neq by auto. apply Hall. lia.
      + destruct (Hok i) as [E0|[E1 E2]]; [lia|].
        apply IH; auto; try lia.
        * now rewrite lenZ_updZ.
        * rewrite cnt_succ by lia. rewrite E. lia.
        * intros r' Hr'. destruct (Z.eq_dec i r') as [<-|Hne].
          -- rewrite nthZ_updZ_eq by lia. rewrite Hu. apply Hall. lia.
          -- rewrite nthZ_updZ_neq by auto. apply Hall. lia.
  Qed.

  Lemma compact_cnt r : 0 <= region -> 0 <= r <= region -> nthZ 0 (compact lk region) r = cnt (root lk r).
  Proof.
    intros Hreg Hr. unfold compact. apply compact_loop_cnt; auto; try lia.
    all: try (rewrite lenZ_repeat; lia).
    all: try (intros; lia).
  Qed.

  (* two ids get the same final id iff they are in the same class of the lookup *)
  Lemma compact_classes r s : 0 <= region -> 0 <= r <= region -> 0 <= s <= region ->
    (nthZ 0 (compact lk region) r = nthZ 0 (compact lk region) s <-> same_class lk r s).
  Proof.
    intros Hreg Hr Hs. rewrite !compact_cnt by auto. rewrite class_iff_root.
    split; [|intros ->; reflexivity].
    intros E. destruct (root_is_root r ltac:(lia)) as [R1 R2]. destruct (root_is_root s ltac:(lia)) as [S1 S2].
    destruct (Z.lt_trichotomy (root lk r) (root lk s)) as [H|[H|H]]; [|exact H|].
    - pose proof (cnt_root_lt (root lk r) (root lk s) ltac:(lia) R1). lia.
    - pose proof (cnt_root_lt (root lk s) (root lk r) ltac:(lia) S1). lia.
  Qed.
End Roots.

(* ---------- regions are components ---------- *)
Definition linkedP (vals : list Z) (mask : option (list bool)) (conn8 : bool) (nx ny a b : Z) : Prop :=
  0 <= a < nx * ny /\ In b (neighbours conn8 nx ny a) /\ linked vals mask a b = true.

Lemma rst_of_rt_sym (R : Z -> Z -> Prop) : (forall x y, R x y -> R y x) ->
  forall a b, clos_refl_sym_trans Z R a b -> clos_refl_trans Z R a b.
Proof.
  intros Hsym a b H. induction H as [x y H|x|x y _ IH|x y z _ IH1 _ IH2].
  - now apply rt_step.
  - apply rt_refl.
  - clear -IH Hsym. induction IH as [x y H|x|x y z _ IH1 _ IH2].
    + apply rt_step. auto.
    + apply rt_refl.
    + eapply rt_trans; eauto.
  - eapply rt_trans; eauto.
Qed.

Theorem regions_are_components vals mask conn8 nx ny :
  0 < nx -> 0 <= ny -> nx * ny < max_region_id ->
  exists regions, calculate_regions vals mask conn8 nx ny = Some regions /\
    forall a b, 0 <= a < nx * ny -> 0 <= b < nx * ny -> mask_ok mask a = true -> mask_ok mask b = true ->
      (nthZ 0 regions a = nthZ 0 regions b <-> clos_refl_trans Z (linkedP vals mask conn8 nx ny) a b).
Proof.
  intros Hnx Hny Hn. unfold calculate_regions.
  destruct (labelling_total vals mask conn8 nx ny Hnx Hny Hn) as (st & Hrun & _).
  rewrite Hrun. eexists; split; [reflexivity|].
  assert (Hinv : comp_inv vals mask conn8 nx ny (0 + Z.of_nat (Z.to_nat (nx * ny))) st).
  { eapply comp_inv_loop; eauto; try lia. apply comp_inv_init. lia. }
  replace (0 + Z.of_nat (Z.to_nat (nx * ny))) with (nx * ny) in Hinv by lia.
  destruct Hinv as ((Hok & Hr & Hlen & Hcells) & _ & Hcc).
  intros a b Ha Hb Hma Hmb.
  rewrite !(nthZ_map _ 0 0) by lia.
  pose proof (Hcells a Ha) as Va. rewrite Hma in Va. pose proof (Hcells b Hb) as Vb. rewrite Hmb in Vb.
  rewrite (compact_classes _ _ Hok) by lia. rewrite (Hcc a b) by auto.
  assert (Hsym : forall x y, linkedP vals mask conn8 nx ny x y -> linkedP vals mask conn8 nx ny y x).
  { intros x y (H1 & H2 & H3). unfold linkedP. split; [eapply neighbours_range; eauto|]. split.
    - apply neighbours_sym; auto.
    - unfold linked in *. rewrite (Z.eqb_sym (nthZ 0 vals y)).
      destruct (mask_ok mask x), (mask_ok mask y); auto. }
  split.
  - intros H. apply rst_of_rt_sym; [exact Hsym|]. revert H. apply rst_incl.
    intros x y (H1 & H2 & H3 & H4). apply rst_step. unfold linkedP. auto.
  - clear - Hnx. intros H. induction H as [x y (H1 & H2 & H3)|x|x y z _ IH1 _ IH2].
    + apply rst_step. unfold lnk. repeat split; auto; try lia; eapply neighbours_range; eauto.
    + apply rst_refl.
    + eapply rst_trans; eauto.
Qed.
