(* C15/Model.v — executable model of xrspatial/experimental/polygonize.py
   (_calculate_regions, _merge_regions, _follow, _scan, _transform_points,
   the single-column workaround of _polygonize_numpy).  Definitions only.
   Rasters are flattened row-major lists over Z (index ij = i + j*nx), exactly
   like the code; values are compared with exact equality (the integer
   instance of _is_close).  [None] = fuel exhausted / an error the code would
   raise (too many regions, list index out of range, point-count mismatch). *)
Require Import Base.Prelude.

(* ---------- arrays ---------- *)
Fixpoint upd {A} (l : list A) (i : nat) (v : A) : list A :=
  match l, i with
  | [], _ => []
  | _ :: t, O => v :: t
  | h :: t, S k => h :: upd t k v
  end.
Definition updZ {A} (l : list A) (i : Z) (v : A) : list A :=
  if i <? 0 then l else upd l (Z.to_nat i) v.

Definition point : Type := (Z * Z)%type.
Definition ring : Type := list point.

(* ---------- small helpers of the module ---------- *)
Definition diff_row (ij0 ij1 nx : Z) : bool := negb (ij0 / nx =? ij1 / nx).
Definition outside_domain (ij n : Z) : bool := (ij <? 0) || (ij >=? n).
Definition min_and_max (a b : Z) : Z * Z := if a <? b then (a, b) else (b, a).

(* mask is None or mask[ij] *)
Definition mask_ok (mask : option (list bool)) (ij : Z) : bool :=
  match mask with None => true | Some m => nthZ false m ij end.

(* ---------- _merge_regions ---------- *)
(* numba-compatible resize: new_size = max(upper+1, 2*old_size), new tail zero *)
Definition grow (lk : list Z) (upper : Z) : list Z :=
  if upper >=? lenZ lk then
    let old_size := lenZ lk in
    let new_size := Z.max (upper + 1) (2 * old_size) in
    lk ++ repeat 0 (Z.to_nat (new_size - old_size))
  else lk.

(* while True: prev = lk[upper]; repeat = prev != 0 and prev != lower
     if repeat: lower, prev = min_and_max(lower, prev)
     lk[upper] = lower; if not repeat: break; upper = prev *)
Fixpoint merge_loop (fuel : nat) (lk : list Z) (lower upper : Z) : option (list Z) :=
  match fuel with
  | O => None
  | S f =>
    let prev := nthZ 0 lk upper in
    if negb (prev =? 0) && negb (prev =? lower) then
      let '(lower', prev') := min_and_max lower prev in
      merge_loop f (updZ lk upper lower') lower' prev'
    else Some (updZ lk upper lower)
  end.

Definition merge_regions (lk : list Z) (lower upper : Z) : option (list Z) :=
  merge_loop (S (Z.to_nat upper)) (grow lk upper) lower upper.

(* ---------- _calculate_regions ---------- *)
Record lab_state := mkLab { ls_regions : list Z; ls_lookup : list Z; ls_region : Z }.

Definition max_region_id : Z := 4294967295.   (* np.iinfo(np.uint32).max *)

Definition cell_step (values : list Z) (mask : option (list bool)) (conn8 : bool) (nx : Z)
    (st : lab_state) (ij : Z) : option lab_state :=
  let regions := ls_regions st in
  if negb (mask_ok mask ij) then
    Some (mkLab (updZ regions ij 0) (ls_lookup st) (ls_region st))
  else
    let v := nthZ 0 values ij in
    let matches_W := (ij mod nx >? 0) && mask_ok mask (ij - 1) && (v =? nthZ 0 values (ij - 1)) in
    let region_W := if matches_W then nthZ 0 regions (ij - 1) else 0 in
    let matches_S := (ij >=? nx) && mask_ok mask (ij - nx) && (v =? nthZ 0 values (ij - nx)) in
    let region_S := if matches_S then nthZ 0 regions (ij - nx) else 0 in
    let sw := conn8 && (ij >=? nx) && negb matches_W && (ij mod nx >? 0) &&
              mask_ok mask (ij - nx - 1) && (v =? nthZ 0 values (ij - nx - 1)) in
    let matches_W' := matches_W || sw in
    let region_W' := if sw then nthZ 0 regions (ij - nx - 1) else region_W in
    let se := conn8 && (ij >=? nx) && negb matches_S && (ij mod nx <? nx - 1) &&
              mask_ok mask (ij - nx + 1) && (v =? nthZ 0 values (ij - nx + 1)) in
    let matches_S' := matches_S || se in
    let region_S' := if se then nthZ 0 regions (ij - nx + 1) else region_S in
    if matches_W' && matches_S' then
      let '(lower, upper) := min_and_max region_W' region_S' in
      let regions' := updZ regions ij lower in
      if negb (lower =? upper) then
        match merge_regions (ls_lookup st) lower upper with
        | None => None
        | Some lk => Some (mkLab regions' lk (ls_region st))
        end
      else Some (mkLab regions' (ls_lookup st) (ls_region st))
    else if matches_W' then Some (mkLab (updZ regions ij region_W') (ls_lookup st) (ls_region st))
    else if matches_S' then Some (mkLab (updZ regions ij region_S') (ls_lookup st) (ls_region st))
    else if ls_region st =? max_region_id then None      (* RuntimeError: too many polygons *)
    else let r := ls_region st + 1 in Some (mkLab (updZ regions ij r) (ls_lookup st) r).

(* for ij in range(start, start+k) *)
Fixpoint label_loop (values : list Z) (mask : option (list bool)) (conn8 : bool) (nx : Z)
    (k : nat) (ij : Z) (st : lab_state) : option lab_state :=
  match k with
  | O => Some st
  | S k' =>
    match cell_step values mask conn8 nx st ij with
    | None => None
    | Some st' => label_loop values mask conn8 nx k' (ij + 1) st'
    end
  end.

(* for i in range(max_region): target = lk[i] if i < len(lk) else 0
     if target == 0: new[i] = new_region; new_region += 1  else: new[i] = new[target] *)
Fixpoint compact_loop (k : nat) (i : Z) (lk new_lk : list Z) (new_region : Z) : list Z :=
  match k with
  | O => new_lk
  | S k' =>
    let target := if i <? lenZ lk then nthZ 0 lk i else 0 in
    if target =? 0 then compact_loop k' (i + 1) lk (updZ new_lk i new_region) (new_region + 1)
    else compact_loop k' (i + 1) lk (updZ new_lk i (nthZ 0 new_lk target)) new_region
  end.

Definition compact (lk : list Z) (region : Z) : list Z :=
  let max_region := region + 1 in
  compact_loop (Z.to_nat max_region) 0 lk (repeat 0 (Z.to_nat max_region)) 0.

Definition label_init (nx ny : Z) : lab_state :=
  mkLab (repeat 0 (Z.to_nat (nx * ny))) (repeat 0 (Z.to_nat (Z.max 64 (Z.max nx ny)))) 0.

Definition calculate_regions (values : list Z) (mask : option (list bool)) (conn8 : bool)
    (nx ny : Z) : option (list Z) :=
  match label_loop values mask conn8 nx (Z.to_nat (nx * ny)) 0 (label_init nx ny) with
  | None => None
  | Some st =>
    let new_lk := compact (ls_lookup st) (ls_region st) in
    Some (map (fun r => nthZ 0 new_lk r) (ls_regions st))
  end.

(* ---------- _follow ---------- *)
Inductive turn := TLeft | TStraight | TRight.

Definition turn_of (regions : list Z) (nx n region ij forward left : Z) : turn :=
  let ijnext := ij + forward in
  let ijnext_right := ijnext - left in
  if Z.abs forward =? 1 then
    if diff_row ij ijnext nx then TLeft
    else if negb (outside_domain ijnext_right n) && (nthZ 0 regions ijnext_right =? region) then TRight
    else if nthZ 0 regions ijnext =? region then TStraight
    else TLeft
  else
    if outside_domain ijnext n then TLeft
    else if negb (diff_row ijnext ijnext_right nx) && (nthZ 0 regions ijnext_right =? region) then TRight
    else if nthZ 0 regions ijnext =? region then TStraight
    else TLeft.

(* (ij, forward, left) after the turn *)
Definition apply_turn (t : turn) (ij forward left : Z) : Z * Z * Z :=
  match t with
  | TStraight => (ij + forward, forward, left)
  | TLeft => (ij, left, - forward)
  | TRight => (ij + forward - left, - left, forward)
  end.

Definition point_of (nx ij forward : Z) : point :=
  let i := ij mod nx in
  let j := ij / nx in
  if forward =? -1 then (i + 1, j + 1)
  else if forward =? nx then (i + 1, j)
  else if forward =? - nx then (i, j + 1)
  else (i, j).

Definition mark (visited : list Z) (ij bit : Z) : list Z :=
  updZ visited ij (Z.lor (nthZ 0 visited ij) bit).

(* one pass of the while-loop; pts is accumulated in reverse *)
Fixpoint follow_loop (fuel : nat) (pass1 hole : bool) (regions : list Z) (nx n region : Z)
    (start_ij start_forward : Z) (ij forward left prev_forward : Z)
    (visited : list Z) (npoints : Z) (pts : list point)
    : option (list Z * Z * list point) :=
  match fuel with
  | O => None
  | S f =>
    let visited1 :=
      if pass1 then
        if (forward =? 1) && negb hole then mark visited ij 1
        else if (forward =? -1) && (ij + nx <? n) then mark visited (ij + nx) 2
        else visited
      else visited in
    let emit := negb (prev_forward =? forward) in
    let pts1 := if emit && pass1 then point_of nx ij forward :: pts else pts in
    let npoints1 := if emit then npoints + 1 else npoints in
    let t := turn_of regions nx n region ij forward left in
    let '(ij2, forward2, left2) := apply_turn t ij forward left in
    if (ij2 =? start_ij) && (forward2 =? start_forward) then Some (visited1, npoints1, pts1)
    else follow_loop f pass1 hole regions nx n region start_ij start_forward
           ij2 forward2 left2 forward visited1 npoints1 pts1
  end.

Definition follow_fuel (n : Z) : nat := S (Z.to_nat (4 * n)).

(* returns (region, points incl. the closing point, visited) *)
Definition follow (regions visited : list Z) (nx ny ij : Z) (hole : bool)
    : option (Z * ring * list Z) :=
  let region := nthZ 0 regions ij in
  let n := nx * ny in
  let forward := if hole then -1 else 1 in
  let left := if hole then - nx else nx in
  match follow_loop (follow_fuel n) false hole regions nx n region ij forward ij forward left 0 visited 0 [] with
  | None => None
  | Some (_, npoints0, _) =>
    match follow_loop (follow_fuel n) true hole regions nx n region ij forward ij forward left 0 visited 0 [] with
    | None => None
    | Some (visited1, npoints1, pts_rev) =>
      (* points = np.empty(2*(npoints0+1)); pass 1 fills rows 0..npoints1-1; points[-1] = points[0] *)
      if npoints1 =? npoints0 then
        let pts := rev pts_rev in
        Some (region, pts ++ [hd (0, 0) pts], visited1)
      else None
    end
  end.

(* ---------- _transform_points ---------- *)
Definition transform_point (tr : list Z) (p : point) : point :=
  let '(x, y) := p in
  (nthZ 0 tr 0 * x + nthZ 0 tr 1 * y + nthZ 0 tr 2,
   nthZ 0 tr 3 * x + nthZ 0 tr 4 * y + nthZ 0 tr 5).

Definition transform_ring (tr : option (list Z)) (r : ring) : ring :=
  match tr with None => r | Some t => map (transform_point t) r end.

(* ---------- _scan ---------- *)
Record scan_state := mkScan {
  sc_visited : list Z; sc_done : Z; sc_column : list Z; sc_polygons : list (list ring) }.

Definition scan_cell (regions values : list Z) (tr : option (list Z)) (nx ny : Z)
    (st : scan_state) (ij : Z) : option scan_state :=
  let st1 :=
    if (Z.land (nthZ 0 (sc_visited st) ij) 1 =? 0) && (nthZ 0 regions ij =? sc_done st + 1) then
      match follow regions (sc_visited st) nx ny ij false with
      | None => None
      | Some (region, pts, vis) =>
        Some (mkScan vis region (sc_column st ++ [nthZ 0 values ij])
                     (sc_polygons st ++ [[transform_ring tr pts]]))
      end
    else Some st in
  match st1 with
  | None => None
  | Some st1 =>
    if (ij >=? nx) && (Z.land (nthZ 0 (sc_visited st1) ij) 2 =? 0) &&
       negb (nthZ 0 regions ij =? nthZ 0 regions (ij - nx)) && negb (nthZ 0 regions (ij - nx) =? 0) then
      match follow regions (sc_visited st1) nx ny (ij - nx) true with
      | None => None
      | Some (region, pts, vis) =>
        let k := region - 1 in
        if (0 <=? k) && (k <? lenZ (sc_polygons st1)) then
          Some (mkScan vis (sc_done st1) (sc_column st1)
                  (updZ (sc_polygons st1) k (nthZ [] (sc_polygons st1) k ++ [transform_ring tr pts])))
        else None
      end
    else Some st1
  end.

Fixpoint scan_loop (regions values : list Z) (tr : option (list Z)) (nx ny : Z)
    (k : nat) (ij : Z) (st : scan_state) : option scan_state :=
  match k with
  | O => Some st
  | S k' =>
    match scan_cell regions values tr nx ny st ij with
    | None => None
    | Some st' => scan_loop regions values tr nx ny k' (ij + 1) st'
    end
  end.

Definition scan (values : list Z) (mask : option (list bool)) (conn8 : bool)
    (tr : option (list Z)) (nx ny : Z) : option (list Z * list (list ring)) :=
  match calculate_regions values mask conn8 nx ny with
  | None => None
  | Some regions =>
    let n := Z.to_nat (nx * ny) in
    match scan_loop regions values tr nx ny n 0 (mkScan (repeat 0 n) 0 [] []) with
    | None => None
    | Some st => Some (sc_column st, sc_polygons st)
    end
  end.

(* ---------- _polygonize_numpy (single-column workaround) ---------- *)
(* nx == 1: add a second, masked-out column (np.empty_like garbage modelled as 0:
   it is never read because the mask test precedes every value read) *)
Definition polygonize_model (values : list Z) (mask : option (list bool)) (conn8 : bool)
    (tr : option (list Z)) (nx ny : Z) : option (list Z * list (list ring)) :=
  if nx =? 1 then
    let values2 := flat_map (fun v => [v; 0]) values in
    let mask2 := match mask with
                 | Some m => flat_map (fun b => [b; false]) m
                 | None => flat_map (fun _ : Z => [true; false]) values
                 end in
    scan values2 (Some mask2) conn8 tr 2 ny
  else scan values mask conn8 tr nx ny.
