(* C15/ProofsBoundedSmall.v — assembles the per-shape lemmas of BoundedS.v into the claimed bounded theorems *)
Require Import Base.Prelude C15.Model C15.Spec C15.BoundedCommon C15.BoundedS.

(* every shape with at most 5 cells (1x1, 1xN, Nx1, 2x2 included) *)
Definition small_shape5 (nx ny : Z) : Prop := 1 <= nx /\ 1 <= ny /\ nx * ny <= 5.
(* every shape with at most 6 cells, and 3x3, 2x4, 4x2 *)
Definition small_shape (nx ny : Z) : Prop :=
  1 <= nx /\ 1 <= ny /\ (nx * ny <= 6 \/ (nx = 3 /\ ny = 3) \/ (nx = 2 /\ ny = 4) \/ (nx = 4 /\ ny = 2)).

Definition shapes5 : list (Z * Z) := [(1, 1); (1, 2); (1, 3); (1, 4); (1, 5); (2, 1); (2, 2); (3, 1); (4, 1); (5, 1)].
Definition shapes2 : list (Z * Z) := [(1, 1); (1, 2); (1, 3); (1, 4); (1, 5); (1, 6); (2, 1); (2, 2); (2, 3); (3, 1); (3, 2); (4, 1); (5, 1); (6, 1); (3, 3); (2, 4); (4, 2)].

Ltac shape_cases Cx Cy :=
  destruct Cx as [->|[->|[->|[->|[->| ->]]]]];
  destruct Cy as [->|[->|[->|[->|[->| ->]]]]];
  first [ exfalso; lia | cbn [In]; repeat (first [ left; reflexivity | right ]) ].

Lemma small_shape5_In nx ny : small_shape5 nx ny -> In (nx, ny) shapes5.
Proof.
  intros (Hx & Hy & Hs).
  assert (Hbx : nx <= 6) by nia. assert (Hby : ny <= 6) by nia.
  assert (Cx : nx = 1 \/ nx = 2 \/ nx = 3 \/ nx = 4 \/ nx = 5 \/ nx = 6) by lia.
  assert (Cy : ny = 1 \/ ny = 2 \/ ny = 3 \/ ny = 4 \/ ny = 5 \/ ny = 6) by lia.
  clear Hbx Hby Hx Hy. unfold shapes5. shape_cases Cx Cy.
Qed.

Lemma small_shape_In nx ny : small_shape nx ny -> In (nx, ny) shapes2.
Proof.
  intros (Hx & Hy & Hs).
  assert (Hbx : nx <= 6) by nia. assert (Hby : ny <= 6) by nia.
  assert (Cx : nx = 1 \/ nx = 2 \/ nx = 3 \/ nx = 4 \/ nx = 5 \/ nx = 6) by lia.
  assert (Cy : ny = 1 \/ ny = 2 \/ ny = 3 \/ ny = 4 \/ ny = 5 \/ ny = 6) by lia.
  clear Hbx Hby Hx Hy. unfold shapes2. shape_cases Cx Cy.
Qed.

Lemma small3_nomask nx ny conn8 vals :
  small_shape5 nx ny -> lenZ vals = nx * ny -> Forall (fun v => In v [0; 1; 2]) vals ->
  check_one vals None conn8 nx ny = true.
Proof.
  intros Hs Hl Hf. apply small_shape5_In in Hs. unfold shapes5 in Hs. cbn [In] in Hs.
  destruct Hs as [[= <- <-]|Hs]; [eapply check_shape_nomask_use; [exact s3_1_1|assumption|assumption]|].
  destruct Hs as [[= <- <-]|Hs]; [eapply check_shape_nomask_use; [exact s3_1_2|assumption|assumption]|].
  destruct Hs as [[= <- <-]|Hs]; [eapply check_shape_nomask_use; [exact s3_1_3|assumption|assumption]|].
  destruct Hs as [[= <- <-]|Hs]; [eapply check_shape_nomask_use; [exact s3_1_4|assumption|assumption]|].
  destruct Hs as [[= <- <-]|Hs]; [eapply check_shape_nomask_use; [exact s3_1_5|assumption|assumption]|].
  destruct Hs as [[= <- <-]|Hs]; [eapply check_shape_nomask_use; [exact s3_2_1|assumption|assumption]|].
  destruct Hs as [[= <- <-]|Hs]; [eapply check_shape_nomask_use; [exact s3_2_2|assumption|assumption]|].
  destruct Hs as [[= <- <-]|Hs]; [eapply check_shape_nomask_use; [exact s3_3_1|assumption|assumption]|].
  destruct Hs as [[= <- <-]|Hs]; [eapply check_shape_nomask_use; [exact s3_4_1|assumption|assumption]|].
  destruct Hs as [[= <- <-]|Hs]; [eapply check_shape_nomask_use; [exact s3_5_1|assumption|assumption]|].
  destruct Hs.
Qed.

Lemma small2_nomask nx ny conn8 vals :
  small_shape nx ny -> lenZ vals = nx * ny -> Forall (fun v => In v [0; 1]) vals ->
  check_one vals None conn8 nx ny = true.
Proof.
  intros Hs Hl Hf. apply small_shape_In in Hs. unfold shapes2 in Hs. cbn [In] in Hs.
  destruct Hs as [[= <- <-]|Hs]; [eapply check_shape_nomask_use; [exact s2_1_1|assumption|assumption]|].
  destruct Hs as [[= <- <-]|Hs]; [eapply check_shape_nomask_use; [exact s2_1_2|assumption|assumption]|].
  destruct Hs as [[= <- <-]|Hs]; [eapply check_shape_nomask_use; [exact s2_1_3|assumption|assumption]|].
  destruct Hs as [[= <- <-]|Hs]; [eapply check_shape_nomask_use; [exact s2_1_4|assumption|assumption]|].
  destruct Hs as [[= <- <-]|Hs]; [eapply check_shape_nomask_use; [exact s2_1_5|assumption|assumption]|].
  destruct Hs as [[= <- <-]|Hs]; [eapply check_shape_nomask_use; [exact s2_1_6|assumption|assumption]|].
  destruct Hs as [[= <- <-]|Hs]; [eapply check_shape_nomask_use; [exact s2_2_1|assumption|assumption]|].
  destruct Hs as [[= <- <-]|Hs]; [eapply check_shape_nomask_use; [exact s2_2_2|assumption|assumption]|].
  destruct Hs as [[= <- <-]|Hs]; [eapply check_shape_nomask_use; [exact s2_2_3|assumption|assumption]|].
  destruct Hs as [[= <- <-]|Hs]; [eapply check_shape_nomask_use; [exact s2_3_1|assumption|assumption]|].
  destruct Hs as [[= <- <-]|Hs]; [eapply check_shape_nomask_use; [exact s2_3_2|assumption|assumption]|].
  destruct Hs as [[= <- <-]|Hs]; [eapply check_shape_nomask_use; [exact s2_4_1|assumption|assumption]|].
  destruct Hs as [[= <- <-]|Hs]; [eapply check_shape_nomask_use; [exact s2_5_1|assumption|assumption]|].
  destruct Hs as [[= <- <-]|Hs]; [eapply check_shape_nomask_use; [exact s2_6_1|assumption|assumption]|].
  destruct Hs as [[= <- <-]|Hs]; [eapply check_shape_nomask_use; [exact s2_3_3|assumption|assumption]|].
  destruct Hs as [[= <- <-]|Hs]; [eapply check_shape_nomask_use; [exact s2_2_4|assumption|assumption]|].
  destruct Hs as [[= <- <-]|Hs]; [eapply check_shape_nomask_use; [exact s2_4_2|assumption|assumption]|].
  destruct Hs.
Qed.

Lemma small_mask nx ny conn8 cs :
  small_shape5 nx ny -> lenZ cs = nx * ny -> Forall (fun c => In c [None; Some 0; Some 1]) cs ->
  check_one (vals_of cs) (Some (mask_of cs)) conn8 nx ny = true.
Proof.
  intros Hs Hl Hf. apply small_shape5_In in Hs. unfold shapes5 in Hs. cbn [In] in Hs.
  destruct Hs as [[= <- <-]|Hs]; [eapply check_shape_mask_use; [exact sm_1_1|assumption|assumption]|].
  destruct Hs as [[= <- <-]|Hs]; [eapply check_shape_mask_use; [exact sm_1_2|assumption|assumption]|].
  destruct Hs as [[= <- <-]|Hs]; [eapply check_shape_mask_use; [exact sm_1_3|assumption|assumption]|].
  destruct Hs as [[= <- <-]|Hs]; [eapply check_shape_mask_use; [exact sm_1_4|assumption|assumption]|].
  destruct Hs as [[= <- <-]|Hs]; [eapply check_shape_mask_use; [exact sm_1_5|assumption|assumption]|].
  destruct Hs as [[= <- <-]|Hs]; [eapply check_shape_mask_use; [exact sm_2_1|assumption|assumption]|].
  destruct Hs as [[= <- <-]|Hs]; [eapply check_shape_mask_use; [exact sm_2_2|assumption|assumption]|].
  destruct Hs as [[= <- <-]|Hs]; [eapply check_shape_mask_use; [exact sm_3_1|assumption|assumption]|].
  destruct Hs as [[= <- <-]|Hs]; [eapply check_shape_mask_use; [exact sm_4_1|assumption|assumption]|].
  destruct Hs as [[= <- <-]|Hs]; [eapply check_shape_mask_use; [exact sm_5_1|assumption|assumption]|].
  destruct Hs.
Qed.
