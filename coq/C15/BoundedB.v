(* C15/BoundedB.v — bounded exhaustive checks by vm_compute (kernel VM, no native_compute): one lemma per raster shape;
   combined into the bounded theorems in ProofsBounded.v *)
Require Import Base.Prelude C15.Model C15.Spec.

Lemma chk_nomask_4_2 : check_shape_nomask [0; 1; 2] 4 2 = true.
Proof. vm_compute. reflexivity. Qed.

Lemma chk_nomask_1_8 : check_shape_nomask [0; 1; 2] 1 8 = true.
Proof. vm_compute. reflexivity. Qed.

Lemma chk_nomask_8_1 : check_shape_nomask [0; 1; 2] 8 1 = true.
Proof. vm_compute. reflexivity. Qed.
