(* C15/Extended.v — the bounded theorems on a LARGER domain: every shape with <= 8 cells and 3x3, no mask over {0,1,2},
   with mask every {masked,0,1} assignment (about 220 000 runs of the model).  Checked by coqc (kernel VM); kept out of
   Props.v because the thorough tier re-checks Props with coqchk, whose lazy machine needs hours for these. *)
Require Import Base.Prelude C15.Model C15.Spec C15.BoundedCommon C15.ProofsBounded.

Theorem C15x_bounded_lossless_extended : forall nx ny conn8 vals,
  ext_shape nx ny -> lenZ vals = nx * ny -> Forall (fun v => In v [0; 1; 2]) vals ->
  exists out, polygonize_model vals None conn8 None nx ny = Some out /\
              lossless_check vals None conn8 nx ny out = true.
Proof. intros. apply check_one_lossless. now apply bounded_nomask. Qed.
Print Assumptions C15x_bounded_lossless_extended.

Theorem C15x_bounded_lossless_extended_masked : forall nx ny conn8 cs,
  ext_shape nx ny -> lenZ cs = nx * ny -> Forall (fun c => In c [None; Some 0; Some 1]) cs ->
  exists out, polygonize_model (vals_of cs) (Some (mask_of cs)) conn8 None nx ny = Some out /\
              lossless_check (vals_of cs) (Some (mask_of cs)) conn8 nx ny out = true.
Proof. intros. apply check_one_lossless. now apply bounded_mask. Qed.
Print Assumptions C15x_bounded_lossless_extended_masked.

Theorem C15x_bounded_regions_are_components_extended : forall nx ny conn8,
  ext_shape nx ny -> nx <> 1 ->
  (forall vals, lenZ vals = nx * ny -> Forall (fun v => In v [0; 1; 2]) vals ->
     exists regions, calculate_regions vals None conn8 nx ny = Some regions /\
                     regions_check vals None conn8 nx ny regions = true) /\
  (forall cs, lenZ cs = nx * ny -> Forall (fun c => In c [None; Some 0; Some 1]) cs ->
     exists regions, calculate_regions (vals_of cs) (Some (mask_of cs)) conn8 nx ny = Some regions /\
                     regions_check (vals_of cs) (Some (mask_of cs)) conn8 nx ny regions = true).
Proof.
  intros nx ny conn8 Hs Hnx. split; intros; apply check_one_regions; auto.
  - now apply bounded_nomask.
  - now apply bounded_mask.
Qed.
Print Assumptions C15x_bounded_regions_are_components_extended.
