(* C15/ProofsScan.v — from the follower's loop to _follow, _scan and polygonize_model:
   every ring in the output is the transform of a closed, on-corner, axis-parallel ring. *)
Require Import Base.Prelude C15.Model C15.Spec C15.ProofsRegions C15.ProofsFollow.

Lemma follow_passes_agree regions nx ny region hole sij sf fuel ij f l vis v0 n0 p0 :
  follow_loop fuel false hole regions nx (nx * ny) region sij sf ij f l 0 vis 0 [] = Some (v0, n0, p0) ->
  exists v1 p1,
    follow_loop fuel true hole regions nx (nx * ny) region sij sf ij f l 0 vis 0 [] = Some (v1, n0, p1) /\
    Z.of_nat (length p1) = n0.
Proof.
  intros H0.
  pose proof (follow_loop_passes regions nx ny region hole sij sf fuel ij f l 0 vis vis 0 [] []) as H.
  rewrite H0 in H.
  destruct (follow_loop fuel true _ _ _ _ _ _ _ _ _ _ _ _ _ _) as [[[v1 n1] p1]|]; [|contradiction].
  destruct H as (-> & _ & _ & Hlen). exists v1, p1. split; [reflexivity|]. cbn [length] in Hlen. lia.
Qed.

Lemma follow_ring regions visited nx ny ij hole region r vis' :
  2 <= nx -> 0 <= ij < nx * ny ->
  follow regions visited nx ny ij hole = Some (region, r, vis') ->
  ring_okb nx ny r = true /\ region = nthZ 0 regions ij.
Proof.
  intros Hnx Hij. unfold follow.
  destruct (follow_loop _ false _ _ _ _ _ _ _ _ _ _ _ _ _ _) as [[[v0 n0] p0]|]; [|discriminate].
  destruct (follow_loop _ true _ _ _ _ _ _ _ _ _ _ _ _ _ _) as [[[v1 n1] pts1]|] eqn:Hrun; [|discriminate].
  destruct (n1 =? n0); [|discriminate]. intros [= <- <- <-]. split; [|reflexivity].
  apply follow_loop_ring with (ny := ny) in Hrun; auto.
  - destruct Hrun as (Hne & Hlast & Hc & Ha).
    set (F := point_of nx ij (if hole then -1 else 1)) in *.
    assert (Hring : rev pts1 ++ [hd (0, 0) (rev pts1)] = rev (F :: pts1)).
    { cbn [rev]. f_equal. destruct (exists_last Hne) as (t & p & ->).
      rewrite last_last in Hlast. subst p. rewrite rev_app_distr. reflexivity. }
    rewrite Hring. unfold ring_okb.
    rewrite closedb_rev_cons, forallb_rev, axis_parallelb_rev, Hc, Ha; auto.
  - unfold dir_ok. destruct hole; lia.
  - split; [reflexivity|]. split; [reflexivity|]. auto.
Qed.

(* ---------- _scan ---------- *)
Definition ring_from (tr : option (list Z)) (nx ny : Z) (r : ring) : Prop :=
  exists r0, r = transform_ring tr r0 /\ ring_okb nx ny r0 = true.

Definition polys_ok (tr : option (list Z)) (nx ny : Z) (polys : list (list ring)) : Prop :=
  forall rings r, In rings polys -> In r rings -> ring_from tr nx ny r.

Lemma In_upd {A} (l : list A) k v x : In x (upd l k v) -> x = v \/ In x l.
Proof.
  revert k; induction l as [|h t IH]; intros [|k]; cbn; auto.
  - intros [<-|H]; auto.
  - intros [<-|H]; auto. destruct (IH _ H); auto.
Qed.

Lemma In_updZ {A} (l : list A) k v x : In x (updZ l k v) -> x = v \/ In x l.
Proof. unfold updZ. destruct (k <? 0); auto. apply In_upd. Qed.

Lemma nthZ_In_or_default {A} (d : A) l k : nthZ d l k = d \/ In (nthZ d l k) l.
Proof.
  unfold nthZ. destruct (k <? 0); auto. destruct (nth_in_or_default (Z.to_nat k) l d); auto.
Qed.

Lemma scan_cell_ok regions values tr nx ny st ij st' :
  2 <= nx -> 0 <= ij < nx * ny -> polys_ok tr nx ny (sc_polygons st) ->
  scan_cell regions values tr nx ny st ij = Some st' -> polys_ok tr nx ny (sc_polygons st').
Proof.
  intros Hnx Hij Hok. unfold scan_cell.
  set (st1 := if _ && _ then _ else Some st).
  assert (H1 : forall s, st1 = Some s -> polys_ok tr nx ny (sc_polygons s)).
  { unfold st1. destruct (_ && _).
    - destruct (follow regions (sc_visited st) nx ny ij false) as [[[region r] vis]|] eqn:Ef; [|discriminate].
      intros s [= <-]. cbn [sc_polygons]. apply follow_ring in Ef; auto. destruct Ef as [Hr _].
      intros rings r' Hin Hr'. apply in_app_or in Hin. destruct Hin as [Hin|[<-|[]]].
      + eapply Hok; eauto.
      + destruct Hr' as [<-|[]]. exists r. auto.
    - intros s [= <-]. exact Hok. }
  clearbody st1. destruct st1 as [s1|]; [|discriminate]. specialize (H1 s1 eq_refl).
  match goal with
  | |- (if ?c then _ else _) = _ -> _ => destruct c eqn:Ehole
  end.
  - destruct (follow regions (sc_visited s1) nx ny (ij - nx) true) as [[[region r] vis]|] eqn:Ef; [|discriminate].
    match goal with
    | |- (if ?c then _ else _) = _ -> _ => destruct c; [|discriminate]
    end.
    intros [= <-]. cbn [sc_polygons].
    apply follow_ring in Ef; auto; [|lia]. destruct Ef as [Hr _].
    intros rings r' Hin Hr'. apply In_updZ in Hin. destruct Hin as [->|Hin].
    + apply in_app_or in Hr'. destruct Hr' as [Hr'|[<-|[]]].
      * destruct (nthZ_In_or_default [] (sc_polygons s1) (region - 1)) as [E|Hin].
        -- rewrite E in Hr'. destruct Hr'.
        -- eapply H1; eauto.
      * exists r. auto.
    + eapply H1; eauto.
  - intros [= <-]. exact H1.
Qed.

Lemma scan_loop_ok regions values tr nx ny : 2 <= nx ->
  forall k ij st st', 0 <= ij -> ij + Z.of_nat k <= nx * ny -> polys_ok tr nx ny (sc_polygons st) ->
  scan_loop regions values tr nx ny k ij st = Some st' -> polys_ok tr nx ny (sc_polygons st').
Proof.
  intros Hnx. induction k as [|k IH]; intros ij st st' Hij Hk Hok; cbn [scan_loop].
  - intros [= <-]. exact Hok.
  - destruct (scan_cell regions values tr nx ny st ij) as [s1|] eqn:Ec; [|discriminate].
    apply IH; try lia. eapply scan_cell_ok; eauto. lia.
Qed.

Lemma scan_ok values mask conn8 tr nx ny col polys : 2 <= nx -> 0 <= ny ->
  scan values mask conn8 tr nx ny = Some (col, polys) -> polys_ok tr nx ny polys.
Proof.
  intros Hnx Hny. unfold scan.
  destruct (calculate_regions values mask conn8 nx ny) as [regions|]; [|discriminate].
  destruct (scan_loop _ _ _ _ _ _ _ _) as [st|] eqn:El; [|discriminate].
  intros [= <- <-]. eapply scan_loop_ok in El; eauto; try lia.
  intros rings r []. 
Qed.

(* the raster width the algorithm works on (single-column workaround) *)
Definition work_nx (nx : Z) : Z := if nx =? 1 then 2 else nx.

Lemma polygonize_rings values mask conn8 tr nx ny col polys : 1 <= nx -> 0 <= ny ->
  polygonize_model values mask conn8 tr nx ny = Some (col, polys) ->
  forall rings r, In rings polys -> In r rings ->
    exists r0, r = transform_ring tr r0 /\ ring_okb (work_nx nx) ny r0 = true.
Proof.
  intros Hnx Hny. unfold polygonize_model, work_nx. destruct (nx =? 1) eqn:E.
  - intros H. apply scan_ok in H; auto; lia.
  - intros H. apply scan_ok in H; auto; lia.
Qed.

(* _transform_points: the affine map is applied to every vertex, in order *)
Lemma transform_ring_spec t r k : (k < length r)%nat ->
  nth k (transform_ring (Some t) r) (0, 0) = transform_point t (nth k r (0, 0)) /\
  length (transform_ring (Some t) r) = length r.
Proof.
  intros Hk. cbn [transform_ring]. rewrite map_length. split; [|reflexivity].
  rewrite nth_indep with (d' := transform_point t (0, 0)) by (rewrite map_length; lia).
  apply map_nth.
Qed.
