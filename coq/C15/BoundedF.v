(* C15/BoundedF.v — bounded exhaustive checks by vm_compute (kernel VM, no native_compute): one lemma per raster shape;
   combined into the bounded theorems in ProofsBounded.v *)
Require Import Base.Prelude C15.Model C15.Spec.

Lemma chk_mask_3_3 : check_shape_mask [None; Some 0; Some 1] 3 3 = true.
Proof. vm_compute. reflexivity. Qed.
