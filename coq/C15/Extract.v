Require Import Extraction ExtrOcamlBasic.
Require Import Base.Prelude C15.Model.
Extraction Language OCaml.
Extraction "model.ml" polygonize_model calculate_regions.
