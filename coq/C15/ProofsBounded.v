(* C15/ProofsBounded.v — assembles the per-shape vm_compute lemmas of Bounded*.v into the
   bounded theorems: completeness of the enumeration + case analysis on the shape. *)
Require Import Base.Prelude C15.Model C15.Spec.
Require Import C15.BoundedA C15.BoundedB C15.BoundedC C15.BoundedD C15.BoundedE C15.BoundedF.

Lemma all_lists_complete {A} (alphabet : list A) (l : list A) :
  Forall (fun a => In a alphabet) l -> In l (all_lists alphabet (length l)).
Proof.
  induction 1 as [|a t Ha Ht IH]; cbn [all_lists length]; [now left|].
  apply in_flat_map. exists t. split; [exact IH|]. apply in_map_iff. exists a. auto.
Qed.

Lemma check_shape_nomask_use alphabet nx ny vals conn8 :
  check_shape_nomask alphabet nx ny = true -> lenZ vals = nx * ny ->
  Forall (fun v => In v alphabet) vals -> check_one vals None conn8 nx ny = true.
Proof.
  unfold check_shape_nomask. rewrite forallb_forall. intros H Hl Hf.
  specialize (H vals). replace (Z.to_nat (nx * ny)) with (length vals) in H by (unfold lenZ in Hl; lia).
  specialize (H (all_lists_complete _ _ Hf)). apply andb_prop in H. destruct H. destruct conn8; auto.
Qed.

Lemma check_shape_mask_use alphabet nx ny cs conn8 :
  check_shape_mask alphabet nx ny = true -> lenZ cs = nx * ny ->
  Forall (fun c => In c alphabet) cs -> check_one (vals_of cs) (Some (mask_of cs)) conn8 nx ny = true.
Proof.
  unfold check_shape_mask. rewrite forallb_forall. intros H Hl Hf.
  specialize (H cs). replace (Z.to_nat (nx * ny)) with (length cs) in H by (unfold lenZ in Hl; lia).
  specialize (H (all_lists_complete _ _ Hf)). apply andb_prop in H. destruct H. destruct conn8; auto.
Qed.

(* the bounded domain of shapes: every shape with at most 8 cells (1xN, Nx1, 1x1 included) and 3x3 *)
Definition small_shape (nx ny : Z) : Prop := 1 <= nx /\ 1 <= ny /\ (nx * ny <= 8 \/ (nx = 3 /\ ny = 3)).

Definition small_shapes : list (Z * Z) := [(1, 1); (1, 2); (1, 3); (1, 4); (1, 5); (1, 6); (1, 7); (1, 8); (2, 1); (2, 2); (2, 3); (2, 4); (3, 1); (3, 2); (4, 1); (4, 2); (5, 1); (6, 1); (7, 1); (8, 1); (3, 3)].

Lemma small_shape_In nx ny : small_shape nx ny -> In (nx, ny) small_shapes.
Proof.
  intros (Hx & Hy & Hs).
  assert (Hbx : nx <= 8) by nia. assert (Hby : ny <= 8) by nia.
  assert (Cx : nx = 1 \/ nx = 2 \/ nx = 3 \/ nx = 4 \/ nx = 5 \/ nx = 6 \/ nx = 7 \/ nx = 8) by lia.
  assert (Cy : ny = 1 \/ ny = 2 \/ ny = 3 \/ ny = 4 \/ ny = 5 \/ ny = 6 \/ ny = 7 \/ ny = 8) by lia.
  clear Hbx Hby Hx Hy. unfold small_shapes.
  destruct Cx as [->|[->|[->|[->|[->|[->|[->| ->]]]]]]];
  destruct Cy as [->|[->|[->|[->|[->|[->|[->| ->]]]]]]];
  first [ exfalso; lia | cbn [In]; repeat (first [ left; reflexivity | right ]) ].
Qed.

Lemma bounded_nomask nx ny conn8 vals :
  small_shape nx ny -> lenZ vals = nx * ny -> Forall (fun v => In v [0; 1; 2]) vals ->
  check_one vals None conn8 nx ny = true.
Proof.
  intros Hs Hl Hf. apply small_shape_In in Hs. unfold small_shapes in Hs. cbn [In] in Hs.
  destruct Hs as [[= <- <-]|Hs]; [eapply check_shape_nomask_use; [exact chk_nomask_1_1|assumption|assumption]|].
  destruct Hs as [[= <- <-]|Hs]; [eapply check_shape_nomask_use; [exact chk_nomask_1_2|assumption|assumption]|].
  destruct Hs as [[= <- <-]|Hs]; [eapply check_shape_nomask_use; [exact chk_nomask_1_3|assumption|assumption]|].
  destruct Hs as [[= <- <-]|Hs]; [eapply check_shape_nomask_use; [exact chk_nomask_1_4|assumption|assumption]|].
  destruct Hs as [[= <- <-]|Hs]; [eapply check_shape_nomask_use; [exact chk_nomask_1_5|assumption|assumption]|].
  destruct Hs as [[= <- <-]|Hs]; [eapply check_shape_nomask_use; [exact chk_nomask_1_6|assumption|assumption]|].
  destruct Hs as [[= <- <-]|Hs]; [eapply check_shape_nomask_use; [exact chk_nomask_1_7|assumption|assumption]|].
  destruct Hs as [[= <- <-]|Hs]; [eapply check_shape_nomask_use; [exact chk_nomask_1_8|assumption|assumption]|].
  destruct Hs as [[= <- <-]|Hs]; [eapply check_shape_nomask_use; [exact chk_nomask_2_1|assumption|assumption]|].
  destruct Hs as [[= <- <-]|Hs]; [eapply check_shape_nomask_use; [exact chk_nomask_2_2|assumption|assumption]|].
  destruct Hs as [[= <- <-]|Hs]; [eapply check_shape_nomask_use; [exact chk_nomask_2_3|assumption|assumption]|].
  destruct Hs as [[= <- <-]|Hs]; [eapply check_shape_nomask_use; [exact chk_nomask_2_4|assumption|assumption]|].
  destruct Hs as [[= <- <-]|Hs]; [eapply check_shape_nomask_use; [exact chk_nomask_3_1|assumption|assumption]|].
  destruct Hs as [[= <- <-]|Hs]; [eapply check_shape_nomask_use; [exact chk_nomask_3_2|assumption|assumption]|].
  destruct Hs as [[= <- <-]|Hs]; [eapply check_shape_nomask_use; [exact chk_nomask_4_1|assumption|assumption]|].
  destruct Hs as [[= <- <-]|Hs]; [eapply check_shape_nomask_use; [exact chk_nomask_4_2|assumption|assumption]|].
  destruct Hs as [[= <- <-]|Hs]; [eapply check_shape_nomask_use; [exact chk_nomask_5_1|assumption|assumption]|].
  destruct Hs as [[= <- <-]|Hs]; [eapply check_shape_nomask_use; [exact chk_nomask_6_1|assumption|assumption]|].
  destruct Hs as [[= <- <-]|Hs]; [eapply check_shape_nomask_use; [exact chk_nomask_7_1|assumption|assumption]|].
  destruct Hs as [[= <- <-]|Hs]; [eapply check_shape_nomask_use; [exact chk_nomask_8_1|assumption|assumption]|].
  destruct Hs as [[= <- <-]|Hs]; [eapply check_shape_nomask_use; [exact chk_nomask_3_3|assumption|assumption]|].
  destruct Hs.
Qed.

Lemma bounded_mask nx ny conn8 cs :
  small_shape nx ny -> lenZ cs = nx * ny -> Forall (fun c => In c [None; Some 0; Some 1]) cs ->
  check_one (vals_of cs) (Some (mask_of cs)) conn8 nx ny = true.
Proof.
  intros Hs Hl Hf. apply small_shape_In in Hs. unfold small_shapes in Hs. cbn [In] in Hs.
  destruct Hs as [[= <- <-]|Hs]; [eapply check_shape_mask_use; [exact chk_mask_1_1|assumption|assumption]|].
  destruct Hs as [[= <- <-]|Hs]; [eapply check_shape_mask_use; [exact chk_mask_1_2|assumption|assumption]|].
  destruct Hs as [[= <- <-]|Hs]; [eapply check_shape_mask_use; [exact chk_mask_1_3|assumption|assumption]|].
  destruct Hs as [[= <- <-]|Hs]; [eapply check_shape_mask_use; [exact chk_mask_1_4|assumption|assumption]|].
  destruct Hs as [[= <- <-]|Hs]; [eapply check_shape_mask_use; [exact chk_mask_1_5|assumption|assumption]|].
  destruct Hs as [[= <- <-]|Hs]; [eapply check_shape_mask_use; [exact chk_mask_1_6|assumption|assumption]|].
  destruct Hs as [[= <- <-]|Hs]; [eapply check_shape_mask_use; [exact chk_mask_1_7|assumption|assumption]|].
  destruct Hs as [[= <- <-]|Hs]; [eapply check_shape_mask_use; [exact chk_mask_1_8|assumption|assumption]|].
  destruct Hs as [[= <- <-]|Hs]; [eapply check_shape_mask_use; [exact chk_mask_2_1|assumption|assumption]|].
  destruct Hs as [[= <- <-]|Hs]; [eapply check_shape_mask_use; [exact chk_mask_2_2|assumption|assumption]|].
  destruct Hs as [[= <- <-]|Hs]; [eapply check_shape_mask_use; [exact chk_mask_2_3|assumption|assumption]|].
  destruct Hs as [[= <- <-]|Hs]; [eapply check_shape_mask_use; [exact chk_mask_2_4|assumption|assumption]|].
  destruct Hs as [[= <- <-]|Hs]; [eapply check_shape_mask_use; [exact chk_mask_3_1|assumption|assumption]|].
  destruct Hs as [[= <- <-]|Hs]; [eapply check_shape_mask_use; [exact chk_mask_3_2|assumption|assumption]|].
  destruct Hs as [[= <- <-]|Hs]; [eapply check_shape_mask_use; [exact chk_mask_4_1|assumption|assumption]|].
  destruct Hs as [[= <- <-]|Hs]; [eapply check_shape_mask_use; [exact chk_mask_4_2|assumption|assumption]|].
  destruct Hs as [[= <- <-]|Hs]; [eapply check_shape_mask_use; [exact chk_mask_5_1|assumption|assumption]|].
  destruct Hs as [[= <- <-]|Hs]; [eapply check_shape_mask_use; [exact chk_mask_6_1|assumption|assumption]|].
  destruct Hs as [[= <- <-]|Hs]; [eapply check_shape_mask_use; [exact chk_mask_7_1|assumption|assumption]|].
  destruct Hs as [[= <- <-]|Hs]; [eapply check_shape_mask_use; [exact chk_mask_8_1|assumption|assumption]|].
  destruct Hs as [[= <- <-]|Hs]; [eapply check_shape_mask_use; [exact chk_mask_3_3|assumption|assumption]|].
  destruct Hs.
Qed.

Lemma check_one_lossless vals mask conn8 nx ny : check_one vals mask conn8 nx ny = true ->
  exists out, polygonize_model vals mask conn8 None nx ny = Some out /\
              lossless_check vals mask conn8 nx ny out = true.
Proof.
  unfold check_one, lossless_check. intros H. apply andb_prop in H. destruct H as [H _].
  destruct (polygonize_model vals mask conn8 None nx ny) as [out|]; [|discriminate]. eauto.
Qed.

Lemma check_one_regions vals mask conn8 nx ny : nx <> 1 -> check_one vals mask conn8 nx ny = true ->
  exists regions, calculate_regions vals mask conn8 nx ny = Some regions /\
                  regions_check vals mask conn8 nx ny regions = true.
Proof.
  unfold check_one, regions_check. intros Hnx H. apply andb_prop in H. destruct H as [_ H].
  destruct (nx =? 1) eqn:E; [lia|].
  destruct (calculate_regions vals mask conn8 nx ny) as [r|]; [|discriminate]. eauto.
Qed.
