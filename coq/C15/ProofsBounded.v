(* C15/ProofsBounded.v — EXTENDED bounded domain (checked by coqc's VM only; not part of Props.v because coqchk
   re-checks VM casts with the lazy machine, ~30x slower) — assembles the per-shape vm_compute lemmas of Bounded*.v into the
   bounded theorems: completeness of the enumeration + case analysis on the shape. *)
Require Import Base.Prelude C15.Model C15.Spec C15.BoundedCommon.
Require Import C15.BoundedA C15.BoundedB C15.BoundedC C15.BoundedD C15.BoundedE C15.BoundedF.

(* the bounded domain of shapes: every shape with at most 8 cells (1xN, Nx1, 1x1 included) and 3x3 *)
Definition ext_shape (nx ny : Z) : Prop := 1 <= nx /\ 1 <= ny /\ (nx * ny <= 8 \/ (nx = 3 /\ ny = 3)).

Definition ext_shapes : list (Z * Z) := [(1, 1); (1, 2); (1, 3); (1, 4); (1, 5); (1, 6); (1, 7); (1, 8); (2, 1); (2, 2); (2, 3); (2, 4); (3, 1); (3, 2); (4, 1); (4, 2); (5, 1); (6, 1); (7, 1); (8, 1); (3, 3)].

Lemma ext_shape_In nx ny : ext_shape nx ny -> In (nx, ny) ext_shapes.
Proof.
  intros (Hx & Hy & Hs).
  assert (Hbx : nx <= 8) by nia. assert (Hby : ny <= 8) by nia.
  assert (Cx : nx = 1 \/ nx = 2 \/ nx = 3 \/ nx = 4 \/ nx = 5 \/ nx = 6 \/ nx = 7 \/ nx = 8) by lia.
  assert (Cy : ny = 1 \/ ny = 2 \/ ny = 3 \/ ny = 4 \/ ny = 5 \/ ny = 6 \/ ny = 7 \/ ny = 8) by lia.
  clear Hbx Hby Hx Hy. unfold ext_shapes.
  destruct Cx as [->|[->|[->|[->|[->|[->|[->| ->]]]]]]];
  destruct Cy as [->|[->|[->|[->|[->|[->|[->| ->]]]]]]];
  first [ exfalso; lia | cbn [In]; repeat (first [ left; reflexivity | right ]) ].
Qed.

Lemma bounded_nomask nx ny conn8 vals :
  ext_shape nx ny -> lenZ vals = nx * ny -> Forall (fun v => In v [0; 1; 2]) vals ->
  check_one vals None conn8 nx ny = true.
Proof.
  intros Hs Hl Hf. apply ext_shape_In in Hs. unfold ext_shapes in Hs. cbn [In] in Hs.
  destruct Hs as [[= <- <-]|Hs]; [eapply check_shape_nomask_use; [exact chk_nomask_1_1|assumption|assumption]|].
  destruct Hs as [[= <- <-]|Hs]; [eapply check_shape_nomask_use; [exact chk_nomask_1_2|assumption|assumption]|].
  destruct Hs as [[= <- <-]|Hs]; [eapply check_shape_nomask_use; [exact chk_nomask_1_3|assumption|assumption]|].
  destruct Hs as [[= <- <-]|Hs]; [eapply check_shape_nomask_use; [exact chk_nomask_1_4|assumption|assumption]|].
  destruct Hs as [[= <- <-]|Hs]; [eapply check_shape_nomask_use; [exact chk_nomask_1_5|assumption|assumption]|].
  destruct Hs as [[= <- <-]|Hs]; [eapply check_shape_nomask_use; [exact chk_nomask_1_6|assumption|assumption]|].
  destruct Hs as [[= <- <-]|Hs]; [eapply check_shape_nomask_use; [exact chk_nomask_1_7|assumption|assumption]|].
  destruct Hs as [[= <- <-]|Hs]; [eapply check_shape_nomask_use; [exact chk_nomask_1_8|assumption|assumption]|].
  destruct Hs as [[= <- <-]|Hs]; [eapply check_shape_nomask_use; [exact chk_nomask_2_1|assumption|assumption]|].
  destruct Hs as [[= <- <-]|Hs]; [eapply check_shape_nomask_use; [exact chk_nomask_2_2|assumption|assumption]|].
  destruct Hs as [[= <- <-]|Hs]; [eapply check_shape_nomask_use; [exact chk_nomask_2_3|assumption|assumption]|].
  destruct Hs as [[= <- <-]|Hs]; [eapply check_shape_nomask_use; [exact chk_nomask_2_4|assumption|assumption]|].
  destruct Hs as [[= <- <-]|Hs]; [eapply check_shape_nomask_use; [exact chk_nomask_3_1|assumption|assumption]|].
  destruct Hs as [[= <- <-]|Hs]; [eapply check_shape_nomask_use; [exact chk_nomask_3_2|assumption|assumption]|].
  destruct Hs as [[= <- <-]|Hs]; [eapply check_shape_nomask_use; [exact chk_nomask_4_1|assumption|assumption]|].
  destruct Hs as [[= <- <-]|Hs]; [eapply check_shape_nomask_use; [exact chk_nomask_4_2|assumption|assumption]|].
  destruct Hs as [[= <- <-]|Hs]; [eapply check_shape_nomask_use; [exact chk_nomask_5_1|assumption|assumption]|].
  destruct Hs as [[= <- <-]|Hs]; [eapply check_shape_nomask_use; [exact chk_nomask_6_1|assumption|assumption]|].
  destruct Hs as [[= <- <-]|Hs]; [eapply check_shape_nomask_use; [exact chk_nomask_7_1|assumption|assumption]|].
  destruct Hs as [[= <- <-]|Hs]; [eapply check_shape_nomask_use; [exact chk_nomask_8_1|assumption|assumption]|].
  destruct Hs as [[= <- <-]|Hs]; [eapply check_shape_nomask_use; [exact chk_nomask_3_3|assumption|assumption]|].
  destruct Hs.
Qed.

Lemma bounded_mask nx ny conn8 cs :
  ext_shape nx ny -> lenZ cs = nx * ny -> Forall (fun c => In c [None; Some 0; Some 1]) cs ->
  check_one (vals_of cs) (Some (mask_of cs)) conn8 nx ny = true.
Proof.
  intros Hs Hl Hf. apply ext_shape_In in Hs. unfold ext_shapes in Hs. cbn [In] in Hs.
  destruct Hs as [[= <- <-]|Hs]; [eapply check_shape_mask_use; [exact chk_mask_1_1|assumption|assumption]|].
  destruct Hs as [[= <- <-]|Hs]; [eapply check_shape_mask_use; [exact chk_mask_1_2|assumption|assumption]|].
  destruct Hs as [[= <- <-]|Hs]; [eapply check_shape_mask_use; [exact chk_mask_1_3|assumption|assumption]|].
  destruct Hs as [[= <- <-]|Hs]; [eapply check_shape_mask_use; [exact chk_mask_1_4|assumption|assumption]|].
  destruct Hs as [[= <- <-]|Hs]; [eapply check_shape_mask_use; [exact chk_mask_1_5|assumption|assumption]|].
  destruct Hs as [[= <- <-]|Hs]; [eapply check_shape_mask_use; [exact chk_mask_1_6|assumption|assumption]|].
  destruct Hs as [[= <- <-]|Hs]; [eapply check_shape_mask_use; [exact chk_mask_1_7|assumption|assumption]|].
  destruct Hs as [[= <- <-]|Hs]; [eapply check_shape_mask_use; [exact chk_mask_1_8|assumption|assumption]|].
  destruct Hs as [[= <- <-]|Hs]; [eapply check_shape_mask_use; [exact chk_mask_2_1|assumption|assumption]|].
  destruct Hs as [[= <- <-]|Hs]; [eapply check_shape_mask_use; [exact chk_mask_2_2|assumption|assumption]|].
  destruct Hs as [[= <- <-]|Hs]; [eapply check_shape_mask_use; [exact chk_mask_2_3|assumption|assumption]|].
  destruct Hs as [[= <- <-]|Hs]; [eapply check_shape_mask_use; [exact chk_mask_2_4|assumption|assumption]|].
  destruct Hs as [[= <- <-]|Hs]; [eapply check_shape_mask_use; [exact chk_mask_3_1|assumption|assumption]|].
  destruct Hs as [[= <- <-]|Hs]; [eapply check_shape_mask_use; [exact chk_mask_3_2|assumption|assumption]|].
  destruct Hs as [[= <- <-]|Hs]; [eapply check_shape_mask_use; [exact chk_mask_4_1|assumption|assumption]|].
  destruct Hs as [[= <- <-]|Hs]; [eapply check_shape_mask_use; [exact chk_mask_4_2|assumption|assumption]|].
  destruct Hs as [[= <- <-]|Hs]; [eapply check_shape_mask_use; [exact chk_mask_5_1|assumption|assumption]|].
  destruct Hs as [[= <- <-]|Hs]; [eapply check_shape_mask_use; [exact chk_mask_6_1|assumption|assumption]|].
  destruct Hs as [[= <- <-]|Hs]; [eapply check_shape_mask_use; [exact chk_mask_7_1|assumption|assumption]|].
  destruct Hs as [[= <- <-]|Hs]; [eapply check_shape_mask_use; [exact chk_mask_8_1|assumption|assumption]|].
  destruct Hs as [[= <- <-]|Hs]; [eapply check_shape_mask_use; [exact chk_mask_3_3|assumption|assumption]|].
  destruct Hs.
Qed.

