(* C15/ProofsFollow.v — the boundary follower: one step keeps the pixel index inside the
   raster, keeps (forward,left) one of the four compass pairs and moves the current
   corner by exactly one unit along [forward]; hence every emitted ring is closed, lies on
   cell corners of [0,nx]x[0,ny], has axis-parallel edges, and both passes count the same
   number of points.  No assumption on the content of [regions]. *)
Require Import Base.Prelude C15.Model C15.ProofsRegions.

Definition dir_ok (nx f l : Z) : Prop :=
  (f = 1 /\ l = nx) \/ (f = nx /\ l = -1) \/ (f = -1 /\ l = - nx) \/ (f = - nx /\ l = 1).

(* unit vector of a direction *)
Definition dirvec (nx f : Z) : Z * Z :=
  if f =? 1 then (1, 0) else if f =? nx then (0, 1) else if f =? -1 then (-1, 0) else (0, -1).

Definition padd (p v : Z * Z) : Z * Z := (fst p + fst v, snd p + snd v).

Lemma divmod_of nx a i j : 0 <= i < nx -> a = i + j * nx -> a / nx = j /\ a mod nx = i.
Proof.
  intros Hi ->. split.
  - rewrite Z.div_add by lia. rewrite Z.div_small by lia. lia.
  - rewrite Z.mod_add by lia. apply Z.mod_small; lia.
Qed.

Lemma rc_domain nx ny i j : 0 <= i < nx -> (0 <= i + j * nx < nx * ny <-> 0 <= j < ny).
Proof. intros Hi. split; intros H; nia. Qed.

Lemma rc_of nx a : 0 < nx -> a = a mod nx + (a / nx) * nx /\ 0 <= a mod nx < nx.
Proof. intros H. pose proof (Z.div_mod a nx). pose proof (Z.mod_pos_bound a nx). lia. Qed.

Ltac clean :=
  repeat match goal with
         | H : forall _, _ |- _ => clear H
         | H : context [_ / _] |- _ => clear H
         | H : context [_ mod _] |- _ => clear H
         end.

Ltac fin :=
  repeat match goal with
         | H : ?a mod ?b = _ |- context [?a mod ?b] => rewrite H
         | H : ?a / ?b = _ |- context [?a / ?b] => rewrite H
         end;
  clean; cbn [fst snd];
  repeat (match goal with
          | |- context [if ?a =? ?b then _ else _] =>
            let E := fresh "E" in destruct (a =? b) eqn:E; try lia
          end);
  cbn [fst snd]; try (f_equal; lia).

Lemma in_dom nx ny a i j : 0 <= i < nx -> 0 <= j < ny -> a = i + j * nx -> 0 <= a < nx * ny.
Proof. intros Hi Hj ->. now apply rc_domain. Qed.

Lemma out_dom_hi nx ny a i j : 0 < nx -> 0 <= i -> ny <= j -> a = i + j * nx -> nx * ny <= a.
Proof. intros Hnx Hi Hj ->. nia. Qed.

Section Step.
  Variables (regions : list Z) (nx ny region : Z).
  Hypothesis Hnx : 2 <= nx.

  Ltac dom i' j' := apply (in_dom nx ny _ i' j'); lia.

  Lemma step_ok ij f l :
    0 <= ij < nx * ny -> dir_ok nx f l ->
    forall ij2 f2 l2, apply_turn (turn_of regions nx (nx * ny) region ij f l) ij f l = (ij2, f2, l2) ->
    0 <= ij2 < nx * ny /\ dir_ok nx f2 l2 /\
    point_of nx ij2 f2 = padd (point_of nx ij f) (dirvec nx f).
  Proof.
    intros Hij Hd ij2 f2 l2.
    destruct (rc_of nx ij ltac:(lia)) as [Hrc Hi].
    set (i := ij mod nx) in *. set (j := ij / nx) in *.
    assert (Hj : 0 <= j < ny) by (apply (rc_domain nx ny i j Hi); lia).
    assert (DM : forall a i' j', 0 <= i' < nx -> a = i' + j' * nx -> a / nx = j' /\ a mod nx = i')
      by (intros; now apply divmod_of).
    unfold turn_of, point_of, dirvec, padd, diff_row, outside_domain.
    fold i j.
    assert (Emod : ij mod nx = i) by reflexivity. assert (Ediv : ij / nx = j) by reflexivity.
    clearbody i j.
    destruct Hd as [[-> ->]|[[-> ->]|[[-> ->]|[-> ->]]]].
    - (* facing E *)
      change (Z.abs 1 =? 1) with true. cbv iota.
      destruct (Z_lt_ge_dec (i + 1) nx) as [Hlt|Hge].
      + destruct (DM (ij + 1) (i + 1) j ltac:(lia) ltac:(lia)) as [D1 M1]. rewrite D1.
        replace (j =? j) with true by lia. cbn [negb].
        assert (Hd1 : 0 <= ij + 1 < nx * ny) by dom (i + 1) j.
        destruct (_ && _) eqn:ER.
        * intros [= <- <- <-].
          assert (Hj1 : 1 <= j).
          { destruct (Z_lt_ge_dec j 1); [|lia]. exfalso.
            assert (j * nx = 0) by (replace j with 0 by lia; lia). lia. }
          destruct (DM (ij + 1 - nx) (i + 1) (j - 1) ltac:(lia) ltac:(lia)) as [D2 M2].
          split; [dom (i + 1) (j - 1)|]. split; [unfold dir_ok; lia|]. rewrite D2, M2. fin.
        * destruct (nthZ 0 regions (ij + 1) =? region).
          -- intros [= <- <- <-]. split; [exact Hd1|]. split; [unfold dir_ok; lia|]. rewrite D1, M1. fin.
          -- intros [= <- <- <-]. split; [lia|]. split; [unfold dir_ok; lia|]. fin.
      + destruct (DM (ij + 1) 0 (j + 1) ltac:(lia) ltac:(lia)) as [D1 M1]. rewrite D1.
        replace (j =? j + 1) with false by lia. cbn [negb].
        intros [= <- <- <-]. split; [lia|]. split; [unfold dir_ok; lia|]. fin.
    - (* facing N *)
      destruct (Z.abs nx =? 1) eqn:Eabs; [lia|].
      destruct (Z_lt_ge_dec (j + 1) ny) as [Hlt|Hge].
      + assert (Hd1 : 0 <= ij + nx < nx * ny) by dom i (j + 1).
        replace ((ij + nx <? 0) || (ij + nx >=? nx * ny)) with false by lia.
        destruct (DM (ij + nx) i (j + 1) ltac:(lia) ltac:(lia)) as [D1 M1]. rewrite D1.
        replace (ij + nx - -1) with (ij + nx + 1) by lia.
        destruct (Z_lt_ge_dec (i + 1) nx) as [Hi1|Hi1].
        * destruct (DM (ij + nx + 1) (i + 1) (j + 1) ltac:(lia) ltac:(lia)) as [D2 M2]. rewrite D2.
          replace (j + 1 =? j + 1) with true by lia. cbn [negb andb].
          destruct (nthZ 0 regions (ij + nx + 1) =? region).
          -- intros [= <- <- <-]. replace (ij + nx - -1) with (ij + nx + 1) by lia.
             split; [dom (i + 1) (j + 1)|]. split; [unfold dir_ok; lia|]. rewrite D2, M2. fin.
          -- destruct (nthZ 0 regions (ij + nx) =? region).
             ++ intros [= <- <- <-]. split; [exact Hd1|]. split; [unfold dir_ok; lia|]. rewrite D1, M1. fin.
             ++ intros [= <- <- <-]. split; [lia|]. split; [unfold dir_ok; lia|]. fin.
        * destruct (DM (ij + nx + 1) 0 (j + 2) ltac:(lia) ltac:(lia)) as [D2 M2]. rewrite D2.
          replace (j + 1 =? j + 2) with false by lia. cbn [negb andb].
          destruct (nthZ 0 regions (ij + nx) =? region).
          -- intros [= <- <- <-]. split; [exact Hd1|]. split; [unfold dir_ok; lia|]. rewrite D1, M1. fin.
          -- intros [= <- <- <-]. split; [lia|]. split; [unfold dir_ok; lia|]. fin.
      + assert (Hd1 : nx * ny <= ij + nx) by (apply (out_dom_hi nx ny _ i (j + 1)); lia).
        replace ((ij + nx <? 0) || (ij + nx >=? nx * ny)) with true by lia.
        intros [= <- <- <-]. split; [lia|]. split; [unfold dir_ok; lia|]. fin.
    - (* facing W *)
      change (Z.abs (-1) =? 1) with true. cbv iota.
      replace (ij + -1 - - nx) with (ij - 1 + nx) by lia.
      destruct (Z_lt_ge_dec i 1) as [Hi0|Hi1].
      + destruct (DM (ij + -1) (nx - 1) (j - 1) ltac:(lia) ltac:(lia)) as [D1 M1]. rewrite D1.
        replace (j =? j - 1) with false by lia. cbn [negb].
        intros [= <- <- <-]. split; [lia|]. split; [unfold dir_ok; lia|]. fin.
      + destruct (DM (ij + -1) (i - 1) j ltac:(lia) ltac:(lia)) as [D1 M1]. rewrite D1.
        replace (j =? j) with true by lia. cbn [negb].
        assert (Hd1 : 0 <= ij + -1 < nx * ny) by dom (i - 1) j.
        destruct (_ && _) eqn:ER.
        * intros [= <- <- <-]. replace (ij + -1 - - nx) with (ij - 1 + nx) by lia.
          assert (Hj1 : j + 1 < ny).
          { destruct (Z_lt_ge_dec (j + 1) ny); [lia|]. exfalso.
            assert (nx * ny <= ij - 1 + nx) by (apply (out_dom_hi nx ny _ (i - 1) (j + 1)); lia). lia. }
          destruct (DM (ij - 1 + nx) (i - 1) (j + 1) ltac:(lia) ltac:(lia)) as [D2 M2].
          split; [dom (i - 1) (j + 1)|]. split; [unfold dir_ok; lia|]. rewrite D2, M2. fin.
        * destruct (nthZ 0 regions (ij + -1) =? region).
          -- intros [= <- <- <-]. split; [exact Hd1|]. split; [unfold dir_ok; lia|]. rewrite D1, M1. fin.
          -- intros [= <- <- <-]. split; [lia|]. split; [unfold dir_ok; lia|]. fin.
    - (* facing S *)
      destruct (Z.abs (- nx) =? 1) eqn:Eabs; [lia|].
      destruct (Z_lt_ge_dec j 1) as [Hj0|Hj1].
      + assert (Hz : j * nx = 0) by (replace j with 0 by lia; lia).
        replace ((ij + - nx <? 0) || (ij + - nx >=? nx * ny)) with true by lia.
        intros [= <- <- <-]. split; [lia|]. split; [unfold dir_ok; lia|]. fin.
      + assert (Hd1 : 0 <= ij + - nx < nx * ny) by dom i (j - 1).
        replace ((ij + - nx <? 0) || (ij + - nx >=? nx * ny)) with false by lia.
        destruct (DM (ij + - nx) i (j - 1) ltac:(lia) ltac:(lia)) as [D1 M1]. rewrite D1.
        destruct (Z_lt_ge_dec i 1) as [Hi0|Hi1].
        * destruct (DM (ij + - nx - 1) (nx - 1) (j - 2) ltac:(lia) ltac:(lia)) as [D2 M2]. rewrite D2.
          replace (j - 1 =? j - 2) with false by lia. cbn [negb andb].
          destruct (nthZ 0 regions (ij + - nx) =? region).
          -- intros [= <- <- <-]. split; [exact Hd1|]. split; [unfold dir_ok; lia|]. rewrite D1, M1. fin.
          -- intros [= <- <- <-]. split; [lia|]. split; [unfold dir_ok; lia|]. fin.
        * destruct (DM (ij + - nx - 1) (i - 1) (j - 1) ltac:(lia) ltac:(lia)) as [D2 M2]. rewrite D2.
          replace (j - 1 =? j - 1) with true by lia. cbn [negb andb].
          destruct (nthZ 0 regions (ij + - nx - 1) =? region).
          -- intros [= <- <- <-]. split; [dom (i - 1) (j - 1)|]. split; [unfold dir_ok; lia|]. rewrite D2, M2. fin.
          -- destruct (nthZ 0 regions (ij + - nx) =? region).
             ++ intros [= <- <- <-]. split; [exact Hd1|]. split; [unfold dir_ok; lia|]. rewrite D1, M1. fin.
             ++ intros [= <- <- <-]. split; [lia|]. split; [unfold dir_ok; lia|]. fin.
  Qed.
End Step.


(* ---------- rings: facts about lists of points (boolean predicates of Spec.v) ---------- *)
Require Import C15.Spec.

Definition axis_stepb (p q : point) : bool := xorb (fst p =? fst q) (snd p =? snd q).

Lemma axis_parallelb_cons p q t :
  axis_parallelb (p :: q :: t) = axis_stepb p q && axis_parallelb (q :: t).
Proof. destruct p, q. reflexivity. Qed.

Lemma axis_stepb_sym p q : axis_stepb p q = axis_stepb q p.
Proof. unfold axis_stepb. now rewrite (Z.eqb_sym (fst p)), (Z.eqb_sym (snd p)). Qed.

Lemma axis_parallelb_snoc l p q :
  axis_parallelb (l ++ [p; q]) = axis_parallelb (l ++ [p]) && axis_stepb p q.
Proof.
  induction l as [|a l IH].
  - cbn [app]. rewrite axis_parallelb_cons. destruct p, q; cbn. now rewrite andb_true_r.
  - destruct l as [|b l].
    + cbn [app]. rewrite !axis_parallelb_cons. destruct p, q, a; cbn. now rewrite !andb_true_r.
    + cbn [app] in *. rewrite !axis_parallelb_cons, IH. now rewrite andb_assoc.
Qed.

Lemma axis_parallelb_rev l : axis_parallelb (rev l) = axis_parallelb l.
Proof.
  induction l as [|p l IH]; [reflexivity|]. destruct l as [|q t]; [destruct p; reflexivity|].
  { rewrite axis_parallelb_cons, <- IH. cbn [rev]. rewrite <- app_assoc. cbn [app].
    rewrite axis_parallelb_snoc, axis_stepb_sym. apply andb_comm. }
Qed.

Lemma forallb_rev {A} (f : A -> bool) l : forallb f (rev l) = forallb f l.
Proof.
  destruct (forallb f l) eqn:E.
  - apply forallb_forall. intros x Hx. apply in_rev in Hx. rewrite forallb_forall in E. auto.
  - destruct (forallb f (rev l)) eqn:E2; auto. rewrite forallb_forall in E2.
    assert (forallb f l = true) by (apply forallb_forall; intros x Hx; apply E2; now apply -> in_rev).
    congruence.
Qed.

(* a ring given as the reverse of (F :: pts) with last pts = F is closed *)
Lemma closedb_rev_cons (F : point) pts : pts <> [] -> last pts F = F -> closedb (rev (F :: pts)) = true.
Proof.
  intros Hne Hlast. cbn [rev].
  destruct (exists_last Hne) as (t & p & ->).
  rewrite last_last in Hlast. subst p. rewrite rev_app_distr. cbn [rev app].
  unfold closedb. destruct F as [x y]. rewrite app_comm_cons, last_last. now rewrite !Z.eqb_refl.
Qed.

Definition smul (m : Z) (v : Z * Z) : Z * Z := (m * fst v, m * snd v).
Definition is_dir (nx f : Z) : Prop := f = 1 \/ f = nx \/ f = -1 \/ f = - nx.

Lemma dir_ok_is_dir nx f l : dir_ok nx f l -> is_dir nx f.
Proof. unfold dir_ok, is_dir; lia. Qed.

Lemma axis_step_smul nx f p m : 2 <= nx -> is_dir nx f -> 1 <= m ->
  axis_stepb (padd p (smul m (dirvec nx f))) p = true.
Proof.
  intros Hnx Hd Hm. unfold axis_stepb, padd, smul, dirvec. destruct p as [x y].
  destruct Hd as [->|[->|[->| ->]]]; fin; cbn [fst snd]; lia.
Qed.

Lemma point_of_corner nx ny ij f : 2 <= nx -> 0 <= ij < nx * ny -> on_cornerb nx ny (point_of nx ij f) = true.
Proof.
  intros Hnx Hij. destruct (rc_of nx ij ltac:(lia)) as [Hrc Hi].
  assert (Hj : 0 <= ij / nx < ny) by (apply (rc_domain nx ny (ij mod nx) (ij / nx) Hi); lia).
  unfold point_of, on_cornerb.
  set (i := ij mod nx) in *. set (j := ij / nx) in *. clearbody i j. fin; lia.
Qed.

(* ---------- the while-loop ---------- *)
Section Loop.
  Variables (regions : list Z) (nx ny region : Z) (hole : bool) (sij sf : Z).
  Hypothesis Hnx : 2 <= nx.
  Let n := nx * ny.
  Let F := point_of nx sij sf.

  (* pts: points emitted so far, most recent first *)
  Definition walk_inv (ij f prev : Z) (pts : list point) : Prop :=
    forallb (on_cornerb nx ny) pts = true /\ axis_parallelb pts = true /\
    match pts with
    | [] => prev = 0 /\ ij = sij /\ f = sf
    | p :: _ => last pts F = F /\ is_dir nx prev /\
                exists m, 1 <= m /\ point_of nx ij f = padd p (smul m (dirvec nx prev))
    end.

  Lemma follow_loop_ring : forall fuel ij f l prev vis np pts vis1 np1 pts1,
    0 <= ij < n -> dir_ok nx f l -> walk_inv ij f prev pts ->
    follow_loop fuel true hole regions nx n region sij sf ij f l prev vis np pts = Some (vis1, np1, pts1) ->
    pts1 <> [] /\ last pts1 F = F /\
    forallb (on_cornerb nx ny) (F :: pts1) = true /\ axis_parallelb (F :: pts1) = true.
  Proof.
    induction fuel as [|fuel IH]; intros ij f l prev vis np pts vis1 np1 pts1 Hij Hd Hinv Hrun; [discriminate|].
    cbn [follow_loop] in Hrun. cbn [andb] in Hrun.
    set (P := point_of nx ij f) in *.
    set (pts' := if negb (prev =? f) && true then P :: pts else pts) in *.
    destruct (apply_turn (turn_of regions nx n region ij f l) ij f l) as [[ij2 f2] l2] eqn:Eturn.
    destruct (step_ok regions nx ny region Hnx ij f l Hij Hd ij2 f2 l2 Eturn) as (Hij2 & Hd2 & Hpos).
    fold P in Hpos.
    assert (Hdf : is_dir nx f) by (eapply dir_ok_is_dir; eauto).
    assert (HP : on_cornerb nx ny P = true) by (apply point_of_corner; auto).
    (* the invariant for the next iteration (prev' = f) *)
    assert (Hinv' : pts' <> [] /\ forallb (on_cornerb nx ny) pts' = true /\ axis_parallelb pts' = true /\
                    last pts' F = F /\
                    exists p t m, pts' = p :: t /\ 1 <= m /\ point_of nx ij2 f2 = padd p (smul m (dirvec nx f))).
    { destruct Hinv as (Hc & Ha & Hm). unfold pts'. destruct (negb (prev =? f)) eqn:Eemit; cbn [andb].
      - split; [discriminate|]. split; [cbn [forallb]; now rewrite HP, Hc|].
        destruct pts as [|p t].
        + destruct Hm as (_ & -> & ->). split; [destruct P; reflexivity|]. split; [reflexivity|].
          exists P, [], 1. split; [reflexivity|]. split; [lia|]. rewrite Hpos. unfold smul, padd. destruct (dirvec nx sf); cbn [fst snd]. f_equal; lia.
        + destruct Hm as (Hl & Hdp & m & Hm1 & Hpm). split.
          { rewrite axis_parallelb_cons, Ha, andb_true_r. fold P in Hpm. rewrite Hpm. now apply axis_step_smul. }
          split; [exact Hl|]. exists P, (p :: t), 1. split; [reflexivity|]. split; [lia|].
          rewrite Hpos. unfold smul, padd. destruct (dirvec nx f); cbn [fst snd]. f_equal; lia.
      - assert (prev = f) by lia. subst prev. destruct pts as [|p t].
        + destruct Hm as (H0 & _ & _). unfold is_dir in Hdf. lia.
        + destruct Hm as (Hl & _ & m & Hm1 & Hpm). split; [discriminate|]. split; [exact Hc|]. split; [exact Ha|].
          split; [exact Hl|]. exists p, t, (m + 1). split; [reflexivity|]. split; [lia|].
          rewrite Hpos. fold P in Hpm. rewrite Hpm. unfold smul, padd. destruct (dirvec nx f), p; cbn [fst snd]. f_equal; lia. }
    destruct Hinv' as (Hne & Hc' & Ha' & Hl' & p & t & m & Ept & Hm1 & Hpm).
    destruct ((ij2 =? sij) && (f2 =? sf)) eqn:Eexit.
    - injection Hrun as <- <- <-.
      assert (ij2 = sij /\ f2 = sf) as [-> ->] by lia. fold F in Hpm.
      split; [exact Hne|]. split; [exact Hl'|]. split.
      + cbn [forallb]. rewrite Hc', andb_true_r. unfold F. apply point_of_corner; auto.
      + rewrite Ept in *. rewrite axis_parallelb_cons, Ha', andb_true_r, Hpm. now apply axis_step_smul.
    - eapply IH; [exact Hij2|exact Hd2| |exact Hrun].
      split; [exact Hc'|]. split; [exact Ha'|]. rewrite Ept in *. split; [exact Hl'|]. split; [exact Hdf|].
      exists m. auto.
  Qed.

  (* pass 0 and pass 1 walk the same path: same point count; pass 1 stores exactly that many points *)
  Lemma follow_loop_passes : forall fuel ij f l prev vis vis' np pts pts',
    match follow_loop fuel true hole regions nx n region sij sf ij f l prev vis np pts,
          follow_loop fuel false hole regions nx n region sij sf ij f l prev vis' np pts' with
    | Some (_, n1, p1), Some (v0, n0, p0) =>
        n1 = n0 /\ v0 = vis' /\ p0 = pts' /\ Z.of_nat (length p1) = Z.of_nat (length pts) + (n1 - np)
    | None, None => True
    | _, _ => False
    end.
  Proof.
    induction fuel as [|fuel IH]; intros; cbn [follow_loop]; auto.
    cbn [andb]. rewrite andb_false_r.
    destruct (apply_turn (turn_of regions nx n region ij f l) ij f l) as [[ij2 f2] l2].
    destruct ((ij2 =? sij) && (f2 =? sf)).
    - destruct (negb (prev =? f)); cbn [andb length]; repeat split; auto; lia.
    - match goal with |- match follow_loop _ _ _ _ _ _ _ _ _ _ _ _ _ ?v1 ?k ?q1 with _ => _ end =>
        specialize (IH ij2 f2 l2 f v1 vis' k q1 pts') end.
      destruct (follow_loop fuel true _ _ _ _ _ _ _ _ _ _ _ _ _ _) as [[[? ?] ?]|];
        destruct (follow_loop fuel false _ _ _ _ _ _ _ _ _ _ _ _ _ _) as [[[? ?] ?]|]; auto.
      destruct IH as (-> & -> & -> & Hlen). repeat split; auto.
      destruct (negb (prev =? f)); cbn [andb length] in Hlen; lia.
  Qed.
End Loop.
