(* C15/ProofsTerminate.v — the model's follower IS the coordinate map of ProofsOrbit.v
   (turn_of / apply_turn on flat indices = T on (i,j,d)), hence _follow started on a region
   boundary returns to its start within the fuel 4*nx*ny+1 and yields a ring. *)
Require Import Base.Prelude C15.Model C15.Spec C15.ProofsRegions C15.ProofsFollow C15.ProofsScan C15.ProofsOrbit.

Section Term.
  Variables (regions : list Z) (nx ny region : Z).
  Hypothesis Hnx : 2 <= nx.

  Definition inrg (i j : Z) : bool :=
    (0 <=? i) && (i <? nx) && (0 <=? j) && (j <? ny) && (nthZ 0 regions (i + j * nx) =? region).

  Lemma inrg_dom i j : inrg i j = true -> 0 <= i < nx /\ 0 <= j < ny.
  Proof. unfold inrg. lia. Qed.

  Definition fwd_of (d : Z) : Z := if d =? 0 then 1 else if d =? 1 then nx else if d =? 2 then -1 else - nx.
  Definition left_of (d : Z) : Z := if d =? 0 then nx else if d =? 1 then -1 else if d =? 2 then - nx else 1.
  Definition enc (s : cstate) : Z * Z * Z := let '(i, j, d) := s in (i + j * nx, fwd_of d, left_of d).

  Ltac dom i' j' := apply (in_dom nx ny _ i' j'); lia.

  Lemma step_enc i j d : 0 <= i < nx -> 0 <= j < ny -> 0 <= d < 4 ->
    apply_turn (turn_of regions nx (nx * ny) region (i + j * nx) (fwd_of d) (left_of d))
               (i + j * nx) (fwd_of d) (left_of d) = enc (T inrg (i, j, d)).
  Proof.
    intros Hi Hj Hd.
    assert (DM : forall a i' j', 0 <= i' < nx -> a = i' + j' * nx -> a / nx = j' /\ a mod nx = i')
      by (intros; now apply divmod_of).
    set (ij := i + j * nx). assert (Hrc : ij = i + j * nx) by reflexivity. clearbody ij.
    destruct (DM ij i j Hi Hrc) as [D0 M0].
    assert (C : d = 0 \/ d = 1 \/ d = 2 \/ d = 3) by lia. clear Hd.
    unfold turn_of, diff_row, outside_domain.
    destruct C as [->|[->|[->| ->]]]; cbn [T fwd_of left_of Z.eqb Pos.eqb]; rewrite D0.
    - (* E *)
      change (Z.abs 1 =? 1) with true. cbv iota.
      destruct (Z_lt_ge_dec (i + 1) nx) as [Hlt|Hge].
      + destruct (DM (ij + 1) (i + 1) j ltac:(lia) ltac:(lia)) as [D1 _]. rewrite D1.
        replace (j =? j) with true by lia. cbn [negb].
        assert (E2 : inrg (i + 1) j = (nthZ 0 regions (ij + 1) =? region)).
        { unfold inrg. replace (i + 1 + j * nx) with (ij + 1) by lia. lia. }
        destruct (Z_lt_ge_dec j 1) as [Hj0|Hj1].
        * assert (Hz : j * nx = 0) by (replace j with 0 by lia; lia).
          replace ((ij + 1 - nx <? 0) || (ij + 1 - nx >=? nx * ny)) with true by lia. cbn [negb andb].
          assert (E1 : inrg (i + 1) (j - 1) = false) by (unfold inrg; lia).
          rewrite E1, E2. destruct (nthZ 0 regions (ij + 1) =? region); cbn [apply_turn enc fwd_of left_of Z.eqb Pos.eqb]; f_equal; try f_equal; lia.
        * assert (Hd1 : 0 <= ij + 1 - nx < nx * ny) by dom (i + 1) (j - 1).
          replace ((ij + 1 - nx <? 0) || (ij + 1 - nx >=? nx * ny)) with false by lia. cbn [negb andb].
          assert (E1 : inrg (i + 1) (j - 1) = (nthZ 0 regions (ij + 1 - nx) =? region)).
          { unfold inrg. replace (i + 1 + (j - 1) * nx) with (ij + 1 - nx) by lia. lia. }
          rewrite E1, E2.
          destruct (nthZ 0 regions (ij + 1 - nx) =? region); [|destruct (nthZ 0 regions (ij + 1) =? region)];
            cbn [apply_turn enc fwd_of left_of Z.eqb Pos.eqb]; f_equal; try f_equal; lia.
      + destruct (DM (ij + 1) 0 (j + 1) ltac:(lia) ltac:(lia)) as [D1 _]. rewrite D1.
        replace (j =? j + 1) with false by lia. cbn [negb].
        assert (E1 : inrg (i + 1) (j - 1) = false) by (unfold inrg; lia).
        assert (E2 : inrg (i + 1) j = false) by (unfold inrg; lia).
        rewrite E1, E2. cbn [apply_turn enc fwd_of left_of Z.eqb Pos.eqb]. f_equal; try f_equal; lia.
    - (* N *)
      destruct (Z.abs nx =? 1) eqn:Eabs; [lia|].
      replace (ij + nx - -1) with (ij + nx + 1) by lia.
      destruct (Z_lt_ge_dec (j + 1) ny) as [Hlt|Hge].
      + assert (Hd1 : 0 <= ij + nx < nx * ny) by dom i (j + 1).
        replace ((ij + nx <? 0) || (ij + nx >=? nx * ny)) with false by lia.
        destruct (DM (ij + nx) i (j + 1) ltac:(lia) ltac:(lia)) as [D1 _]. rewrite D1.
        assert (E2 : inrg i (j + 1) = (nthZ 0 regions (ij + nx) =? region)).
        { unfold inrg. replace (i + (j + 1) * nx) with (ij + nx) by lia. lia. }
        destruct (Z_lt_ge_dec (i + 1) nx) as [Hi1|Hi1].
        * destruct (DM (ij + nx + 1) (i + 1) (j + 1) ltac:(lia) ltac:(lia)) as [D2 _]. rewrite D2.
          replace (j + 1 =? j + 1) with true by lia. cbn [negb andb].
          assert (E1 : inrg (i + 1) (j + 1) = (nthZ 0 regions (ij + nx + 1) =? region)).
          { unfold inrg. replace (i + 1 + (j + 1) * nx) with (ij + nx + 1) by lia. lia. }
          rewrite E1, E2.
          destruct (nthZ 0 regions (ij + nx + 1) =? region); [|destruct (nthZ 0 regions (ij + nx) =? region)];
            cbn [apply_turn enc fwd_of left_of Z.eqb Pos.eqb]; f_equal; try f_equal; lia.
        * destruct (DM (ij + nx + 1) 0 (j + 2) ltac:(lia) ltac:(lia)) as [D2 _]. rewrite D2.
          replace (j + 1 =? j + 2) with false by lia. cbn [negb andb].
          assert (E1 : inrg (i + 1) (j + 1) = false) by (unfold inrg; lia).
          rewrite E1, E2.
          destruct (nthZ 0 regions (ij + nx) =? region);
            cbn [apply_turn enc fwd_of left_of Z.eqb Pos.eqb]; f_equal; try f_equal; lia.
      + assert (Hd1 : nx * ny <= ij + nx) by (apply (out_dom_hi nx ny _ i (j + 1)); lia).
        replace ((ij + nx <? 0) || (ij + nx >=? nx * ny)) with true by lia.
        assert (E1 : inrg (i + 1) (j + 1) = false) by (unfold inrg; lia).
        assert (E2 : inrg i (j + 1) = false) by (unfold inrg; lia).
        rewrite E1, E2. cbn [apply_turn enc fwd_of left_of Z.eqb Pos.eqb]. f_equal; try f_equal; lia.
    - (* W *)
      change (Z.abs (-1) =? 1) with true. cbv iota.
      replace (ij + -1 - - nx) with (ij - 1 + nx) by lia.
      destruct (Z_lt_ge_dec i 1) as [Hi0|Hi1].
      + destruct (DM (ij + -1) (nx - 1) (j - 1) ltac:(lia) ltac:(lia)) as [D1 _]. rewrite D1.
        replace (j =? j - 1) with false by lia. cbn [negb].
        assert (E1 : inrg (i - 1) (j + 1) = false) by (unfold inrg; lia).
        assert (E2 : inrg (i - 1) j = false) by (unfold inrg; lia).
        rewrite E1, E2. cbn [apply_turn enc fwd_of left_of Z.eqb Pos.eqb]. f_equal; try f_equal; lia.
      + destruct (DM (ij + -1) (i - 1) j ltac:(lia) ltac:(lia)) as [D1 _]. rewrite D1.
        replace (j =? j) with true by lia. cbn [negb].
        assert (E2 : inrg (i - 1) j = (nthZ 0 regions (ij + -1) =? region)).
        { unfold inrg. replace (i - 1 + j * nx) with (ij + -1) by lia. lia. }
        destruct (Z_lt_ge_dec (j + 1) ny) as [Hj1|Hj1].
        * assert (Hd1 : 0 <= ij - 1 + nx < nx * ny) by dom (i - 1) (j + 1).
          replace ((ij - 1 + nx <? 0) || (ij - 1 + nx >=? nx * ny)) with false by lia. cbn [negb andb].
          assert (E1 : inrg (i - 1) (j + 1) = (nthZ 0 regions (ij - 1 + nx) =? region)).
          { unfold inrg. replace (i - 1 + (j + 1) * nx) with (ij - 1 + nx) by lia. lia. }
          rewrite E1, E2.
          destruct (nthZ 0 regions (ij - 1 + nx) =? region); [|destruct (nthZ 0 regions (ij + -1) =? region)];
            cbn [apply_turn enc fwd_of left_of Z.eqb Pos.eqb]; f_equal; try f_equal; lia.
        * assert (Hd1 : nx * ny <= ij - 1 + nx) by (apply (out_dom_hi nx ny _ (i - 1) (j + 1)); lia).
          replace ((ij - 1 + nx <? 0) || (ij - 1 + nx >=? nx * ny)) with true by lia. cbn [negb andb].
          assert (E1 : inrg (i - 1) (j + 1) = false) by (unfold inrg; lia).
          rewrite E1, E2.
          destruct (nthZ 0 regions (ij + -1) =? region);
            cbn [apply_turn enc fwd_of left_of Z.eqb Pos.eqb]; f_equal; try f_equal; lia.
    - (* S *)
      destruct (Z.abs (- nx) =? 1) eqn:Eabs; [lia|].
      destruct (Z_lt_ge_dec j 1) as [Hj0|Hj1].
      + assert (Hz : j * nx = 0) by (replace j with 0 by lia; lia).
        replace ((ij + - nx <? 0) || (ij + - nx >=? nx * ny)) with true by lia.
        assert (E1 : inrg (i - 1) (j - 1) = false) by (unfold inrg; lia).
        assert (E2 : inrg i (j - 1) = false) by (unfold inrg; lia).
        rewrite E1, E2. cbn [apply_turn enc fwd_of left_of Z.eqb Pos.eqb]. f_equal; try f_equal; lia.
      + assert (Hd1 : 0 <= ij + - nx < nx * ny) by dom i (j - 1).
        replace ((ij + - nx <? 0) || (ij + - nx >=? nx * ny)) with false by lia.
        destruct (DM (ij + - nx) i (j - 1) ltac:(lia) ltac:(lia)) as [D1 _]. rewrite D1.
        assert (E2 : inrg i (j - 1) = (nthZ 0 regions (ij + - nx) =? region)).
        { unfold inrg. replace (i + (j - 1) * nx) with (ij + - nx) by lia. lia. }
        destruct (Z_lt_ge_dec i 1) as [Hi0|Hi1].
        * destruct (DM (ij + - nx - 1) (nx - 1) (j - 2) ltac:(lia) ltac:(lia)) as [D2 _]. rewrite D2.
          replace (j - 1 =? j - 2) with false by lia. cbn [negb andb].
          assert (E1 : inrg (i - 1) (j - 1) = false) by (unfold inrg; lia).
          rewrite E1, E2.
          destruct (nthZ 0 regions (ij + - nx) =? region);
            cbn [apply_turn enc fwd_of left_of Z.eqb Pos.eqb]; f_equal; try f_equal; lia.
        * destruct (DM (ij + - nx - 1) (i - 1) (j - 1) ltac:(lia) ltac:(lia)) as [D2 _]. rewrite D2.
          replace (j - 1 =? j - 1) with true by lia. cbn [negb andb].
          assert (E1 : inrg (i - 1) (j - 1) = (nthZ 0 regions (ij + - nx - 1) =? region)).
          { unfold inrg. replace (i - 1 + (j - 1) * nx) with (ij + - nx - 1) by lia. lia. }
          rewrite E1, E2.
          destruct (nthZ 0 regions (ij + - nx - 1) =? region); [|destruct (nthZ 0 regions (ij + - nx) =? region)];
            cbn [apply_turn enc fwd_of left_of Z.eqb Pos.eqb]; f_equal; try f_equal; lia.
  Qed.

  Lemma valid_bounds i j d : valid inrg (i, j, d) -> 0 <= i < nx /\ 0 <= j < ny /\ 0 <= d < 4.
  Proof. intros (Hd & Hin & _). destruct (inrg_dom _ _ Hin). auto. Qed.

  Lemma enc_inj_test i j d i0 j0 d0 :
    0 <= i < nx -> 0 <= i0 < nx -> 0 <= d < 4 -> 0 <= d0 < 4 ->
    ((i + j * nx =? i0 + j0 * nx) && (fwd_of d =? fwd_of d0) = true <-> (i, j, d) = (i0, j0, d0)).
  Proof.
    intros Hi Hi0 Hd Hd0. split.
    - intros H. apply andb_prop in H. destruct H as [H1 H2].
      destruct (divmod_of nx (i + j * nx) i j Hi eq_refl) as [D1 M1].
      destruct (divmod_of nx (i0 + j0 * nx) i0 j0 Hi0 eq_refl) as [D2 M2].
      assert (E : i + j * nx = i0 + j0 * nx) by lia. rewrite E in D1, M1.
      assert (d = d0).
      { clear D1 M1 D2 M2 E H1. unfold fwd_of in H2.
        repeat match type of H2 with context [if ?c then _ else _] => destruct c eqn:? end; lia. }
      congruence.
    - intros [= -> -> ->]. rewrite !Z.eqb_refl. reflexivity.
  Qed.

  (* if the coordinate orbit of s reaches s0 after k+1 steps, the while-loop started in s exits within k+1 iterations *)
  Lemma follow_loop_returns pass1 hole i0 j0 d0 : valid inrg (i0, j0, d0) ->
    forall fuel k i j d prev vis np pts,
    valid inrg (i, j, d) -> iterT inrg (S k) (i, j, d) = (i0, j0, d0) -> (k < fuel)%nat ->
    follow_loop fuel pass1 hole regions nx (nx * ny) region (i0 + j0 * nx) (fwd_of d0)
                (i + j * nx) (fwd_of d) (left_of d) prev vis np pts <> None.
  Proof.
    intros Hv0. destruct (valid_bounds _ _ _ Hv0) as (Hi0 & Hj0 & Hd0).
    induction fuel as [|fuel IH]; intros k i j d prev vis np pts Hv Hit Hk; [lia|].
    destruct (valid_bounds _ _ _ Hv) as (Hi & Hj & Hd).
    cbn [follow_loop]. rewrite (step_enc i j d Hi Hj Hd).
    pose proof (T_valid inrg nx ny inrg_dom _ Hv) as Hv2.
    destruct (T inrg (i, j, d)) as [[i2 j2] d2] eqn:ET. cbn [enc].
    destruct (valid_bounds _ _ _ Hv2) as (Hi2 & Hj2 & Hd2).
    destruct ((i2 + j2 * nx =? i0 + j0 * nx) && (fwd_of d2 =? fwd_of d0)) eqn:Eexit; [discriminate|].
    destruct k as [|k].
    - exfalso. cbn [iterT] in Hit. rewrite ET in Hit.
      apply (enc_inj_test i2 j2 d2 i0 j0 d0) in Hit; auto. congruence.
    - apply (IH k); auto; [|lia]. cbn [iterT] in Hit |- *. now rewrite ET in Hit.
  Qed.
End Term.

Theorem follow_terminates (regions visited : list Z) (nx ny ij : Z) (hole : bool) :
  2 <= nx -> 0 <= ij < nx * ny ->
  (let other := if hole then ij + nx else ij - nx in
   outside_domain other (nx * ny) = true \/ nthZ 0 regions other <> nthZ 0 regions ij) ->
  exists region r vis, follow regions visited nx ny ij hole = Some (region, r, vis) /\
                       region = nthZ 0 regions ij /\ ring_okb nx ny r = true.
Proof.
  intros Hnx Hij Hb.
  set (region := nthZ 0 regions ij).
  destruct (rc_of nx ij ltac:(lia)) as [Hrc Hi].
  set (i := ij mod nx) in *. set (j := ij / nx) in *. clearbody i j.
  assert (Hj : 0 <= j < ny) by (apply (rc_domain nx ny i j Hi); lia).
  set (d0 := if hole then 2 else 0).
  assert (Hv0 : valid (inrg regions nx ny region) (i, j, d0)).
  { unfold valid, d0. split; [destruct hole; lia|]. split.
    - unfold inrg. rewrite <- Hrc. unfold region. lia.
    - unfold outside_domain in Hb. destruct hole; cbn [Z.eqb Pos.eqb]; unfold inrg.
      + destruct (Z_lt_ge_dec (j + 1) ny) as [Hlt|Hge]; [|lia].
        assert (0 <= ij + nx < nx * ny) by (apply (in_dom nx ny _ i (j + 1)); lia).
        replace (i + (j + 1) * nx) with (ij + nx) by lia. fold region in Hb. cbn zeta in Hb. lia.
      + destruct (Z_lt_ge_dec j 1) as [Hlt|Hge]; [lia|].
        assert (0 <= ij - nx < nx * ny) by (apply (in_dom nx ny _ i (j - 1)); lia).
        replace (i + (j - 1) * nx) with (ij - nx) by lia. fold region in Hb. cbn zeta in Hb. lia. }
  destruct (orbit_returns (inrg regions nx ny region) nx ny (inrg_dom regions nx ny region) _ Hv0) as (k & Hk & Hret).
  destruct k as [|k]; [lia|].
  assert (Hfuel : (k < follow_fuel (nx * ny))%nat).
  { unfold follow_fuel. assert (Z.of_nat (4 * Z.to_nat ny * Z.to_nat nx) = 4 * (nx * ny)) by (rewrite !Nat2Z.inj_mul, !Z2Nat.id; lia). lia. }
  assert (Hf : fwd_of nx d0 = (if hole then -1 else 1) /\ left_of nx d0 = (if hole then - nx else nx))
    by (unfold d0; destruct hole; split; reflexivity).
  destruct Hf as [Hf Hl].
  pose proof (fun p1 => follow_loop_returns regions nx ny region Hnx p1 hole i j d0 Hv0 (follow_fuel (nx * ny)) k i j d0 0 visited 0 [] Hv0 Hret Hfuel) as Hloop.
  rewrite <- Hrc, Hf, Hl in Hloop.
  destruct (follow regions visited nx ny ij hole) as [[[rg r] vis]|] eqn:Efollow.
  - exists rg, r, vis. split; [reflexivity|]. apply follow_ring in Efollow; auto. destruct Efollow. auto.
  - exfalso. unfold follow in Efollow. fold region in Efollow.
    destruct (follow_loop _ false _ _ _ _ _ _ _ _ _ _ _ _ _ _) as [[[v0 n0] p0]|] eqn:E0; [|exact (Hloop false E0)].
    destruct (follow_passes_agree regions nx ny region hole ij (if hole then -1 else 1) (follow_fuel (nx * ny)) ij
                (if hole then -1 else 1) (if hole then - nx else nx) visited v0 n0 p0 E0) as (v1 & p1 & E1 & _).
    rewrite E1 in Efollow. rewrite Z.eqb_refl in Efollow. discriminate.
Qed.
