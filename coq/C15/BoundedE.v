(* C15/BoundedE.v — bounded exhaustive checks by vm_compute (kernel VM, no native_compute): one lemma per raster shape;
   combined into the bounded theorems in ProofsBounded.v *)
Require Import Base.Prelude C15.Model C15.Spec.

Lemma chk_mask_4_2 : check_shape_mask [None; Some 0; Some 1] 4 2 = true.
Proof. vm_compute. reflexivity. Qed.

Lemma chk_mask_1_8 : check_shape_mask [None; Some 0; Some 1] 1 8 = true.
Proof. vm_compute. reflexivity. Qed.

Lemma chk_mask_8_1 : check_shape_mask [None; Some 0; Some 1] 8 1 = true.
Proof. vm_compute. reflexivity. Qed.
