(* C15/ProofsOrbit.v — the boundary follower as a map on coordinate states (i, j, d)
   (d = 0 E, 1 N, 2 W, 3 S; the region is on the left of the edge): the step has a left
   inverse on boundary states, hence (finite state space, pigeonhole) every boundary state
   returns to itself within 4*nx*ny steps.  [inr i j] = "pixel (i,j) is in the raster and in
   the region" is abstract here. *)
Require Import Base.Prelude.

Lemma NoDup_snoc {A} (l : list A) x : NoDup l -> ~ In x l -> NoDup (l ++ [x]).
Proof.
  induction 1 as [|a l Ha Hl IH]; cbn [app]; intros Hx.
  - constructor; [intros []|constructor].
  - constructor.
    + intros Hin. apply in_app_or in Hin. destruct Hin as [Hin|[<-|[]]]; [contradiction|].
      apply Hx. now left.
    + apply IH. intros Hin. apply Hx. now right.
Qed.

Section Orbit.
  Variable inr : Z -> Z -> bool.
  Variables nx ny : Z.
  Hypothesis inr_dom : forall i j, inr i j = true -> 0 <= i < nx /\ 0 <= j < ny.

  Definition cstate : Type := (Z * Z * Z)%type.

  (* forward-right pixel in the region: turn right; else forward pixel: straight; else turn left *)
  Definition T (s : cstate) : cstate :=
    let '(i, j, d) := s in
    if d =? 0 then (if inr (i + 1) (j - 1) then (i + 1, j - 1, 3) else if inr (i + 1) j then (i + 1, j, 0) else (i, j, 1))
    else if d =? 1 then (if inr (i + 1) (j + 1) then (i + 1, j + 1, 0) else if inr i (j + 1) then (i, j + 1, 1) else (i, j, 2))
    else if d =? 2 then (if inr (i - 1) (j + 1) then (i - 1, j + 1, 1) else if inr (i - 1) j then (i - 1, j, 2) else (i, j, 3))
    else (if inr (i - 1) (j - 1) then (i - 1, j - 1, 2) else if inr i (j - 1) then (i, j - 1, 3) else (i, j, 0)).

  (* the same boundary followed backwards *)
  Definition Tinv (s : cstate) : cstate :=
    let '(i, j, d) := s in
    if d =? 0 then (if inr (i - 1) (j - 1) then (i - 1, j - 1, 1) else if inr (i - 1) j then (i - 1, j, 0) else (i, j, 3))
    else if d =? 1 then (if inr (i + 1) (j - 1) then (i + 1, j - 1, 2) else if inr i (j - 1) then (i, j - 1, 1) else (i, j, 0))
    else if d =? 2 then (if inr (i + 1) (j + 1) then (i + 1, j + 1, 3) else if inr (i + 1) j then (i + 1, j, 2) else (i, j, 1))
    else (if inr (i - 1) (j + 1) then (i - 1, j + 1, 0) else if inr i (j + 1) then (i, j + 1, 3) else (i, j, 2)).

  (* a boundary state: the pixel is in the region, the pixel on the right of the edge is not *)
  Definition valid (s : cstate) : Prop :=
    let '(i, j, d) := s in
    0 <= d < 4 /\ inr i j = true /\
    (if d =? 0 then inr i (j - 1) else if d =? 1 then inr (i + 1) j else if d =? 2 then inr i (j + 1) else inr (i - 1) j) = false.

  Ltac nrm :=
    repeat match goal with
           | |- context [?x + 1 - 1] => replace (x + 1 - 1) with x by lia
           | |- context [?x - 1 + 1] => replace (x - 1 + 1) with x by lia
           | H : context [?x + 1 - 1] |- _ => replace (x + 1 - 1) with x in H by lia
           | H : context [?x - 1 + 1] |- _ => replace (x - 1 + 1) with x in H by lia
           end.

  Ltac dcases d Hd :=
    let C := fresh "C" in
    assert (C : d = 0 \/ d = 1 \/ d = 2 \/ d = 3) by lia; clear Hd;
    destruct C as [->|[->|[->| ->]]].

  Lemma T_valid s : valid s -> valid (T s).
  Proof.
    destruct s as [[i j] d]. intros (Hd & Hin & Hr). dcases d Hd; cbn in *;
      repeat match goal with |- context [if inr ?a ?b then _ else _] => destruct (inr a b) eqn:? end;
      cbn; nrm; repeat split; try lia; auto.
  Qed.

  Lemma Tinv_T s : valid s -> Tinv (T s) = s.
  Proof.
    destruct s as [[i j] d]. intros (Hd & Hin & Hr). dcases d Hd; cbn in *;
      repeat match goal with |- context [if inr ?a ?b then _ else _] => destruct (inr a b) eqn:? end;
      cbn; nrm;
      repeat match goal with H : inr ?a ?b = _ |- context [inr ?a ?b] => rewrite H end; reflexivity.
  Qed.

  (* ---------- iteration and the return lemma ---------- *)
  Fixpoint iterT (k : nat) (s : cstate) : cstate :=
    match k with O => s | S k' => iterT k' (T s) end.

  Lemma iterT_S k s : iterT (S k) s = T (iterT k s).
  Proof. revert s; induction k as [|k IH]; intros s; [reflexivity|]. cbn [iterT] in *. now rewrite IH. Qed.

  Lemma iterT_add a b s : iterT (a + b) s = iterT b (iterT a s).
  Proof. revert s; induction a as [|a IH]; intros s; [reflexivity|]. cbn [iterT Nat.add]. apply IH. Qed.

  Lemma iterT_valid k s : valid s -> valid (iterT k s).
  Proof. revert s; induction k as [|k IH]; intros s H; [exact H|]. cbn [iterT]. apply IH, T_valid, H. Qed.

  Lemma iterT_inj k a b : valid a -> valid b -> iterT k a = iterT k b -> a = b.
  Proof.
    revert a b; induction k as [|k IH]; intros a b Ha Hb E; [exact E|].
    cbn [iterT] in E. apply IH in E; try now apply T_valid.
    rewrite <- (Tinv_T a Ha), <- (Tinv_T b Hb). now rewrite E.
  Qed.

  Definition cstate_eq_dec (a b : cstate) : {a = b} + {a <> b}.
  Proof. repeat decide equality. Defined.

  (* all states of the raster *)
  Definition all_states : list cstate :=
    flat_map (fun i => flat_map (fun j => map (fun d => (i, j, d)) (ziota 0 4)) (ziota 0 (Z.to_nat ny))) (ziota 0 (Z.to_nat nx)).

  Lemma all_states_length : length all_states = (4 * Z.to_nat ny * Z.to_nat nx)%nat.
  Proof.
    unfold all_states.
    assert (H1 : forall (l : list Z) (f : Z -> list cstate) c, (forall x, length (f x) = c) ->
                 length (flat_map f l) = (c * length l)%nat).
    { induction l as [|a l IH]; intros f c Hf; cbn [flat_map length]; [lia|].
      rewrite app_length, Hf, (IH f c Hf). lia. }
    rewrite (H1 _ _ (4 * Z.to_nat ny)%nat).
    - now rewrite ziota_length.
    - intros x. rewrite (H1 _ _ 4%nat).
      + now rewrite ziota_length.
      + intros y. now rewrite map_length, ziota_length.
  Qed.

  Lemma valid_in_all s : valid s -> In s all_states.
  Proof.
    destruct s as [[i j] d]. intros (Hd & Hin & _). destruct (inr_dom _ _ Hin) as [Hi Hj].
    unfold all_states. apply in_flat_map. exists i. split; [apply ziota_In; lia|].
    apply in_flat_map. exists j. split; [apply ziota_In; lia|].
    apply in_map_iff. exists d. split; [reflexivity|apply ziota_In; lia].
  Qed.

  (* among more than |L| elements of L two coincide *)
  Lemma repeat_in_orbit (f : nat -> cstate) (L : list cstate) :
    forall m, (forall k, (k < m)%nat -> In (f k) L) -> (length L < m)%nat ->
    exists a b, (a < b < m)%nat /\ f a = f b.
  Proof.
    intros m Hin Hlen.
    assert (Hdec : forall m', (m' <= m)%nat ->
              NoDup (map f (seq 0 m')) \/ exists a b, (a < b < m')%nat /\ f a = f b).
    { induction m' as [|m' IH]; intros Hm'; [left; constructor|].
      destruct (IH ltac:(lia)) as [Hnd|(a & b & Hab & E)]; [|right; exists a, b; split; [lia|exact E]].
      rewrite seq_S, map_app. cbn [map].
      destruct (in_dec cstate_eq_dec (f m') (map f (seq 0 m'))) as [Hi|Hn].
      - right. apply in_map_iff in Hi. destruct Hi as (a & Ea & Ha). apply in_seq in Ha.
        exists a, m'. split; [lia|exact Ea].
      - left. apply NoDup_snoc; auto. }
    destruct (Hdec m (le_n m)) as [Hnd|H]; [|exact H]. exfalso.
    assert (Hincl : incl (map f (seq 0 m)) L).
    { intros x Hx. apply in_map_iff in Hx. destruct Hx as (k & <- & Hk). apply in_seq in Hk. apply Hin. lia. }
    pose proof (NoDup_incl_length Hnd Hincl) as Hle. rewrite map_length, seq_length in Hle. lia.
  Qed.

  Theorem orbit_returns s : valid s ->
    exists k, (1 <= k <= 4 * Z.to_nat ny * Z.to_nat nx)%nat /\ iterT k s = s.
  Proof.
    intros Hs.
    destruct (repeat_in_orbit (fun k => iterT k s) all_states (S (length all_states))) as (a & b & Hab & E).
    - intros k _. apply valid_in_all, iterT_valid, Hs.
    - lia.
    - exists (b - a)%nat. rewrite <- all_states_length. split; [lia|].
      replace b with (b - a + a)%nat in E by lia. rewrite iterT_add in E.
      symmetry. apply (iterT_inj a); auto. now apply iterT_valid.
  Qed.
End Orbit.
