(* C15/ProofsNeigh.v — geometry of Spec.neighbours: characterisation by offsets, symmetry, range,
   and the four already-scanned neighbours (W, S, SW, SE) used by _calculate_regions. *)
Require Import Base.Prelude C15.Model C15.Spec C15.ProofsRegions C15.ProofsFollow.

Definition off_ok (conn8 : bool) (di dj : Z) : Prop :=
  -1 <= di <= 1 /\ -1 <= dj <= 1 /\ (di <> 0 \/ dj <> 0) /\ (conn8 = false -> di = 0 \/ dj = 0).

Lemma neighbours_char conn8 nx ny a b :
  In b (neighbours conn8 nx ny a) <->
  exists di dj, off_ok conn8 di dj /\ 0 <= a mod nx + di < nx /\ 0 <= a / nx + dj < ny /\
                b = (a mod nx + di) + (a / nx + dj) * nx.
Proof.
  unfold neighbours. set (i := a mod nx). set (j := a / nx). clearbody i j.
  rewrite in_map_iff. split.
  - intros ([x y] & <- & Hin). apply filter_In in Hin. destruct Hin as [Hin Hr]. cbn [fst snd] in *.
    exists (x - i), (y - j).
    assert (Hoff : off_ok conn8 (x - i) (y - j)).
    { apply in_app_or in Hin. destruct Hin as [Hin|Hin].
      - cbn [In] in Hin. unfold off_ok.
        destruct Hin as [[= <- <-]|[[= <- <-]|[[= <- <-]|[[= <- <-]|[]]]]]; lia.
      - destruct conn8; [|destruct Hin]. cbn [In] in Hin. unfold off_ok.
        destruct Hin as [[= <- <-]|[[= <- <-]|[[= <- <-]|[[= <- <-]|[]]]]]; repeat split; try lia; discriminate. }
    split; [exact Hoff|]. split; [lia|]. split; [lia|]. f_equal; lia.
  - intros (di & dj & (Hd1 & Hd2 & Hnz & H4) & Hi & Hj & ->).
    exists (i + di, j + dj). cbn [fst snd]. split; [reflexivity|].
    apply filter_In. cbn [fst snd]. split; [|lia].
    apply in_or_app.
    destruct (Z.eq_dec di 0) as [->|Hdi]; [left|destruct (Z.eq_dec dj 0) as [->|Hdj]; [left|right]].
    + assert (dj = 1 \/ dj = -1) as [->| ->] by lia; cbn [In]; rewrite ?Z.add_0_r;
        try replace (j + -1) with (j - 1) by lia; auto.
    + assert (di = 1 \/ di = -1) as [->| ->] by lia; cbn [In]; rewrite ?Z.add_0_r;
        try replace (i + -1) with (i - 1) by lia; auto.
    + destruct conn8; [|specialize (H4 eq_refl); lia].
      assert (di = 1 \/ di = -1) as [->| ->] by lia; assert (dj = 1 \/ dj = -1) as [->| ->] by lia;
        cbn [In]; try replace (i + -1) with (i - 1) by lia; try replace (j + -1) with (j - 1) by lia; auto 6.
Qed.

Section Neigh.
  Variables (conn8 : bool) (nx ny : Z).
  Hypothesis Hnx : 0 < nx.
  Let n := nx * ny.

  Lemma neighbours_range a b : In b (neighbours conn8 nx ny a) -> 0 <= b < n.
  Proof.
    intros H. apply neighbours_char in H. destruct H as (di & dj & _ & Hi & Hj & ->).
    unfold n. now apply rc_domain.
  Qed.

  Lemma neighbours_sym a b : 0 <= a < n -> In b (neighbours conn8 nx ny a) -> In a (neighbours conn8 nx ny b).
  Proof.
    intros Ha H. apply neighbours_char in H. destruct H as (di & dj & (H1 & H2 & H3 & H4) & Hi & Hj & Hb).
    destruct (divmod_of nx b _ _ Hi Hb) as [Db Mb].
    destruct (rc_of nx a Hnx) as [Hrc Hm].
    apply neighbours_char. exists (- di), (- dj). rewrite Db, Mb.
    split; [unfold off_ok; repeat split; try lia; intros E; specialize (H4 E); lia|].
    assert (Hj0 : 0 <= a / nx < ny) by (apply (rc_domain nx ny (a mod nx) (a / nx) Hm); unfold n in Ha; lia).
    split; [lia|]. split; [lia|]. lia.
  Qed.

  (* an already scanned neighbour is W, S, SW or SE *)
  Lemma neighbours_below a b : 0 <= a < n -> In b (neighbours conn8 nx ny a) -> b < a ->
    (b = a - 1 /\ 0 < a mod nx) \/ (b = a - nx /\ nx <= a) \/
    (conn8 = true /\ b = a - nx - 1 /\ nx <= a /\ 0 < a mod nx) \/
    (conn8 = true /\ b = a - nx + 1 /\ nx <= a /\ a mod nx < nx - 1).
  Proof.
    intros Ha H Hlt. apply neighbours_char in H. destruct H as (di & dj & (H1 & H2 & H3 & H4) & Hi & Hj & Hb).
    destruct (rc_of nx a Hnx) as [Hrc Hm].
    set (i := a mod nx) in *. set (j := a / nx) in *. clearbody i j.
    assert (Hge : dj = -1 -> nx <= a) by (intros ->; nia).
    assert (C : dj = -1 \/ dj = 0 \/ dj = 1) by lia.
    destruct C as [->|[->| ->]].
    - specialize (Hge eq_refl).
      assert (C : di = -1 \/ di = 0 \/ di = 1) by lia.
      destruct C as [->|[->| ->]].
      + right; right; left. destruct conn8; [|specialize (H4 eq_refl); lia]. repeat split; lia.
      + right; left. split; lia.
      + right; right; right. destruct conn8; [|specialize (H4 eq_refl); lia]. repeat split; lia.
    - assert (di = -1) by lia. subst di. left. split; lia.
    - exfalso. nia.
  Qed.

  Lemma neighbour_W a : 0 <= a < n -> 0 < a mod nx -> In (a - 1) (neighbours conn8 nx ny a).
  Proof.
    intros Ha Hm. destruct (rc_of nx a Hnx) as [Hrc Hm'].
    assert (Hj0 : 0 <= a / nx < ny) by (apply (rc_domain nx ny (a mod nx) (a / nx) Hm'); unfold n in Ha; lia).
    apply neighbours_char. exists (-1), 0. unfold off_ok. repeat split; try lia.
  Qed.

  Lemma neighbour_S a : 0 <= a < n -> nx <= a -> In (a - nx) (neighbours conn8 nx ny a).
  Proof.
    intros Ha Hge. destruct (rc_of nx a Hnx) as [Hrc Hm'].
    assert (Hj0 : 0 <= a / nx < ny) by (apply (rc_domain nx ny (a mod nx) (a / nx) Hm'); unfold n in Ha; lia).
    assert (1 <= a / nx) by (destruct (Z_lt_ge_dec (a / nx) 1); [nia|lia]).
    apply neighbours_char. exists 0, (-1). unfold off_ok. repeat split; try lia.
  Qed.

  Lemma neighbour_SW a : conn8 = true -> 0 <= a < n -> nx <= a -> 0 < a mod nx ->
    In (a - nx - 1) (neighbours conn8 nx ny a).
  Proof.
    intros Hc Ha Hge Hm. destruct (rc_of nx a Hnx) as [Hrc Hm'].
    assert (Hj0 : 0 <= a / nx < ny) by (apply (rc_domain nx ny (a mod nx) (a / nx) Hm'); unfold n in Ha; lia).
    assert (1 <= a / nx) by (destruct (Z_lt_ge_dec (a / nx) 1); [nia|lia]).
    apply neighbours_char. exists (-1), (-1). unfold off_ok. repeat split; try lia. rewrite Hc; discriminate.
  Qed.

  Lemma neighbour_SE a : conn8 = true -> 0 <= a < n -> nx <= a -> a mod nx < nx - 1 ->
    In (a - nx + 1) (neighbours conn8 nx ny a).
  Proof.
    intros Hc Ha Hge Hm. destruct (rc_of nx a Hnx) as [Hrc Hm'].
    assert (Hj0 : 0 <= a / nx < ny) by (apply (rc_domain nx ny (a mod nx) (a / nx) Hm'); unfold n in Ha; lia).
    assert (1 <= a / nx) by (destruct (Z_lt_ge_dec (a / nx) 1); [nia|lia]).
    apply neighbours_char. exists 1, (-1). unfold off_ok. repeat split; try lia. rewrite Hc; discriminate.
  Qed.
End Neigh.
