(* C15/Spec.v — executable SPECIFICATION-side definitions, written from the property
   text and independent of the model: even-odd rasteriser on cell centres, shoelace
   area / orientation, ring well-formedness, connected components by min-label
   propagation, and the combined boolean check used by the bounded theorem.
   Definitions only. *)
Require Import Base.Prelude C15.Model.

Definition cells (n : Z) : list Z := ziota 0 (Z.to_nat n).

(* ---- rings ---- *)
(* does the ray from the centre of cell (i,j) towards +x cross the edge p1-p2 ?
   (only vertical edges can; centre (i+1/2, j+1/2)) *)
Definition edge_crosses (p1 p2 : point) (i j : Z) : bool :=
  let '(x1, y1) := p1 in let '(x2, y2) := p2 in
  (x1 =? x2) && (i <? x1) && (((y1 <=? j) && (j <? y2)) || ((y2 <=? j) && (j <? y1))).

Fixpoint ring_contains (r : ring) (i j : Z) : bool :=
  match r with
  | p1 :: (p2 :: _) as t => xorb (edge_crosses p1 p2 i j) (ring_contains t i j)
  | _ => false
  end.

(* exterior minus holes *)
Definition polygon_contains (rings : list ring) (i j : Z) : bool :=
  match rings with
  | [] => false
  | ext :: holes => ring_contains ext i j && negb (existsb (fun h => ring_contains h i j) holes)
  end.

(* twice the signed area *)
Fixpoint shoelace2 (r : ring) : Z :=
  match r with
  | (x1, y1) :: ((x2, y2) :: _) as t => x1 * y2 - x2 * y1 + shoelace2 t
  | _ => 0
  end.

Definition closedb (r : ring) : bool :=
  match r with
  | [] => false
  | (x, y) :: _ => let '(x', y') := last r (x + 1, y) in (x =? x') && (y =? y')
  end.

Definition on_cornerb (nx ny : Z) (p : point) : bool :=
  let '(x, y) := p in (0 <=? x) && (x <=? nx) && (0 <=? y) && (y <=? ny).

(* consecutive vertices differ in exactly one coordinate *)
Fixpoint axis_parallelb (r : ring) : bool :=
  match r with
  | (x1, y1) :: ((x2, y2) :: _) as t => xorb (x1 =? x2) (y1 =? y2) && axis_parallelb t
  | _ => true
  end.

Definition ring_okb (nx ny : Z) (r : ring) : bool :=
  closedb r && forallb (on_cornerb nx ny) r && axis_parallelb r.

(* exterior anticlockwise, holes clockwise *)
Definition orientedb (rings : list ring) : bool :=
  match rings with
  | [] => false
  | ext :: holes => (0 <? shoelace2 ext) && forallb (fun h => shoelace2 h <? 0) holes
  end.

Definition area2 (rings : list ring) : Z := fold_right (fun r a => shoelace2 r + a) 0 rings.

(* ---- connected components of equal-valued unmasked cells ---- *)
Definition neighbours (conn8 : bool) (nx ny ij : Z) : list Z :=
  let i := ij mod nx in
  let j := ij / nx in
  let cand := [(i + 1, j); (i - 1, j); (i, j + 1); (i, j - 1)] ++
              (if conn8 then [(i + 1, j + 1); (i + 1, j - 1); (i - 1, j + 1); (i - 1, j - 1)] else []) in
  map (fun p => fst p + snd p * nx)
      (filter (fun p => (0 <=? fst p) && (fst p <? nx) && (0 <=? snd p) && (snd p <? ny)) cand).

Definition linked (vals : list Z) (mask : option (list bool)) (a b : Z) : bool :=
  mask_ok mask a && mask_ok mask b && (nthZ 0 vals a =? nthZ 0 vals b).

Definition relax (vals : list Z) (mask : option (list bool)) (conn8 : bool) (nx ny : Z) (lab : list Z) : list Z :=
  map (fun ij => fold_left (fun m b => if linked vals mask ij b then Z.min m (nthZ 0 lab b) else m)
                           (neighbours conn8 nx ny ij) (nthZ 0 lab ij))
      (cells (nx * ny)).

Fixpoint list_eqb (l l' : list Z) : bool :=
  match l, l' with
  | [], [] => true
  | a :: t, b :: t' => (a =? b) && list_eqb t t'
  | _, _ => false
  end.

(* at most k rounds, stopping as soon as a round changes nothing *)
Fixpoint iter_fix (k : nat) (f : list Z -> list Z) (x : list Z) : list Z :=
  match k with
  | O => x
  | S k' => let y := f x in if list_eqb y x then x else iter_fix k' f y
  end.

(* label of a cell = smallest index in its component (min-label propagation until stable; n rounds always suffice) *)
Definition comp_labels (vals : list Z) (mask : option (list bool)) (conn8 : bool) (nx ny : Z) : list Z :=
  iter_fix (Z.to_nat (nx * ny)) (relax vals mask conn8 nx ny) (cells (nx * ny)).

(* ---- the property, as a boolean, for one raster and one output ---- *)
Definition owners (polys : list (list ring)) (nx ij : Z) : list nat :=
  filter (fun k => polygon_contains (nth k polys []) (ij mod nx) (ij / nx)) (seq 0 (length polys)).

(* per cell: (unmasked?, value, component label, polygons containing the centre) *)
Definition cell_info (lab vals : list Z) (mask : option (list bool)) (polys : list (list ring)) (nx ij : Z)
    : bool * Z * Z * list nat :=
  (mask_ok mask ij, nthZ 0 vals ij, nthZ 0 lab ij, owners polys nx ij).

Definition lossless_check_with (lab : list Z) (vals : list Z) (mask : option (list bool)) (nx ny : Z)
    (out : list Z * list (list ring)) : bool :=
  let '(col, polys) := out in
  let n := nx * ny in
  let info := map (cell_info lab vals mask polys nx) (cells n) in
  (length col =? length polys)%nat &&
  (* rings closed, on cell corners, axis parallel; exteriors anticlockwise, holes clockwise *)
  forallb (fun rings => forallb (ring_okb nx ny) rings && orientedb rings) polys &&
  (* every unmasked cell in exactly one polygon, which carries its value; masked cells in none *)
  forallb (fun c : bool * Z * Z * list nat =>
             let '(unmasked, v, _, own) := c in
             match own with
             | [] => negb unmasked
             | [k] => unmasked && (nth k col 0 =? v)
             | _ => false
             end) info &&
  (* area (exterior minus holes) = number of cells *)
  forallb (fun k => area2 (nth k polys []) =?
                    2 * lenZ (filter (fun c : bool * Z * Z * list nat => existsb (Nat.eqb k) (snd c)) info))
          (seq 0 (length polys)) &&
  (* polygons = connected components: two unmasked cells share a polygon iff they share a component *)
  forallb (fun a : bool * Z * Z * list nat => forallb (fun b : bool * Z * Z * list nat =>
             let '(ua, _, la, oa) := a in let '(ub, _, lb, ob) := b in
             negb (ua && ub) ||
             Bool.eqb (match oa, ob with [k], [k'] => (k =? k')%nat | _, _ => false end) (la =? lb)) info) info.

Definition lossless_check (vals : list Z) (mask : option (list bool)) (conn8 : bool) (nx ny : Z)
    (out : list Z * list (list ring)) : bool :=
  lossless_check_with (comp_labels vals mask conn8 nx ny) vals mask nx ny out.

(* regions (output of _calculate_regions) against the same components *)
Definition regions_check_with (lab : list Z) (mask : option (list bool)) (nx ny : Z)
    (regions : list Z) : bool :=
  let n := nx * ny in
  (lenZ regions =? n) &&
  forallb (fun a => Bool.eqb (nthZ 0 regions a =? 0) (negb (mask_ok mask a))) (cells n) &&
  forallb (fun a => forallb (fun b =>
             negb (mask_ok mask a && mask_ok mask b) ||
             Bool.eqb (nthZ 0 regions a =? nthZ 0 regions b) (nthZ 0 lab a =? nthZ 0 lab b)) (cells n)) (cells n).

(* ---- enumeration of a finite input domain ---- *)
Fixpoint all_lists {A} (alphabet : list A) (k : nat) : list (list A) :=
  match k with
  | O => [[]]
  | S k' => flat_map (fun l => map (fun a => a :: l) alphabet) (all_lists alphabet k')
  end.

(* cell state: None = masked out, Some v = unmasked with value v *)
Definition vals_of (cs : list (option Z)) : list Z := map (fun c => match c with Some v => v | None => 0 end) cs.
Definition mask_of (cs : list (option Z)) : list bool := map (fun c => match c with Some _ => true | None => false end) cs.

Definition regions_check (vals : list Z) (mask : option (list bool)) (conn8 : bool) (nx ny : Z)
    (regions : list Z) : bool :=
  regions_check_with (comp_labels vals mask conn8 nx ny) mask nx ny regions.

(* the model's polygons are lossless for this raster; and (nx >= 2, where _calculate_regions sees the raster
   itself) its region ids are exactly the components *)
Definition check_one (vals : list Z) (mask : option (list bool)) (conn8 : bool) (nx ny : Z) : bool :=
  let lab := comp_labels vals mask conn8 nx ny in
  match polygonize_model vals mask conn8 None nx ny with
  | None => false
  | Some out => lossless_check_with lab vals mask nx ny out
  end &&
  (if nx =? 1 then true else
   match calculate_regions vals mask conn8 nx ny with
   | None => false
   | Some regions => regions_check_with lab mask nx ny regions
   end).

Definition check_shape_nomask (alphabet : list Z) (nx ny : Z) : bool :=
  forallb (fun vals => check_one vals None false nx ny && check_one vals None true nx ny)
          (all_lists alphabet (Z.to_nat (nx * ny))).

Definition check_shape_mask (alphabet : list (option Z)) (nx ny : Z) : bool :=
  forallb (fun cs => check_one (vals_of cs) (Some (mask_of cs)) false nx ny &&
                     check_one (vals_of cs) (Some (mask_of cs)) true nx ny)
          (all_lists alphabet (Z.to_nat (nx * ny))).
