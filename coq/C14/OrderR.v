(* C14/OrderR.v — the exact cost instance against the real numbers.
   (a, b, n) denotes  a + b*sqrt 2 + sqrt n.  The decision procedures of Model.v
   (sgn2, sgn_plus2root, sgn3: repeated squaring) are proved to compute the sign of
   the real number they are named after; hence xc_ltb IS the order of the reals on
   well-formed triples, xc_sqrtZ IS the real square root, xc_add IS addition whenever
   one operand carries no root.  The Euclidean heuristic is consistent (triangle
   inequality, Rgeom.triangle) and the "very big number" bound is established.
   Uses Coq's classical real numbers (Reals): the axioms appear under
   Print Assumptions of every theorem that depends on this file. *)
Require Import Base.Prelude Base.XVal.
Require Import C14.Generated C14.Model.
Require Import Reals Lra Psatz.
Unset Nra Cache.

Ltac push_IZR := repeat first [rewrite plus_IZR | rewrite minus_IZR | rewrite mult_IZR | rewrite opp_IZR].

(* ---------- sqrt 2 is irrational (integer form) ---------- *)
Lemma sqrt2_irr_fuel : forall (k : nat) (a b : Z), (Z.abs_nat a <= k)%nat -> a * a = 2 * b * b -> a = 0.
Proof.
  induction k as [|k IH]; intros a b Hk H; [lia|].
  destruct (Z.eq_dec a 0) as [|Hne]; [assumption|]. exfalso.
  assert (Hc : exists c, a = 2 * c).
  { destruct (Z.Even_or_Odd a) as [[c Hc]|[c Hc]]; [exists c; exact Hc|]. exfalso. subst a. lia. }
  destruct Hc as [c ->].
  assert (Hb : b * b = 2 * c * c) by lia.
  assert (Hb0 : b = 0).
  { apply (IH b c); [|exact Hb]. assert (Z.abs b < Z.abs (2 * c)) by nia. lia. }
  subst b. nia.
Qed.

Lemma sqrt2_irr a b : a * a = 2 * b * b -> a = 0 /\ b = 0.
Proof.
  intros H. assert (Ha : a = 0) by (apply (sqrt2_irr_fuel (Z.abs_nat a) a b); [lia|exact H]).
  subst a. split; [reflexivity|nia].
Qed.

(* ---------- the reals ---------- *)
Definition s2 : R := sqrt 2.
Definition v2 (a b : Z) : R := (IZR a + IZR b * s2)%R.
Definition rt (n : Z) : R := sqrt (IZR n).

Lemma s2_sq : (s2 * s2 = 2)%R.
Proof. unfold s2. apply sqrt_sqrt. lra. Qed.

Lemma s2_pos : (0 < s2)%R.
Proof. unfold s2. apply sqrt_lt_R0. lra. Qed.

Lemma s2_lt : (s2 < 3 / 2)%R.
Proof. pose proof s2_sq. pose proof s2_pos. nra. Qed.

Lemma s2_gt1 : (1 < s2)%R.
Proof. pose proof s2_sq. pose proof s2_pos. nra. Qed.

Lemma rt_nonneg n : (0 <= rt n)%R.
Proof. apply sqrt_pos. Qed.

Lemma rt_sq n : 0 <= n -> (rt n * rt n = IZR n)%R.
Proof. intros H. apply sqrt_sqrt. now apply IZR_le. Qed.

Lemma rt_0 : rt 0 = 0%R.
Proof. unfold rt. apply sqrt_0. Qed.

Lemma rt_square r : 0 <= r -> rt (r * r) = IZR r.
Proof. intros H. unfold rt. rewrite mult_IZR. apply sqrt_square. now apply IZR_le. Qed.

Lemma rt_mult m n : 0 <= m -> 0 <= n -> rt (m * n) = (rt m * rt n)%R.
Proof. intros Hm Hn. unfold rt. rewrite mult_IZR. apply sqrt_mult; now apply IZR_le. Qed.

Lemma rt_le m n : 0 <= m -> m <= n -> (rt m <= rt n)%R.
Proof. intros Hm H. apply sqrt_le_1_alt. now apply IZR_le. Qed.

Lemma rt_lt m n : 0 <= m -> m < n -> (rt m < rt n)%R.
Proof. intros Hm H. apply sqrt_lt_1_alt. split; [now apply IZR_le|now apply IZR_lt]. Qed.

Lemma v2_sub a b a' b' : v2 (a - a') (b - b') = (v2 a b - v2 a' b')%R.
Proof. unfold v2. push_IZR. ring. Qed.

Lemma v2_add a b a' b' : v2 (a + a') (b + b') = (v2 a b + v2 a' b')%R.
Proof. unfold v2. push_IZR. ring. Qed.

Lemma v2_conj (A B : R) : ((A + B * s2) * (A - B * s2) = A * A - 2 * B * B)%R.
Proof. transitivity (A * A - B * B * (s2 * s2))%R; [ring|rewrite s2_sq; ring]. Qed.

(* ---------- the sign procedures compute real signs ---------- *)
Inductive sign_spec (x : R) : Z -> Prop :=
| ss_pos : (0 < x)%R -> sign_spec x 1
| ss_zero : x = 0%R -> sign_spec x 0
| ss_neg : (x < 0)%R -> sign_spec x (-1).

Lemma sgn2_spec a b : sign_spec (v2 a b) (sgn2 a b).
Proof.
  pose proof s2_sq as Hsq. pose proof s2_pos as Hs.
  unfold sgn2, v2.
  destruct ((0 <=? a) && (0 <=? b)) eqn:E1.
  - assert (Ha : (0 <= IZR a)%R) by (apply IZR_le; lia).
    assert (Hb : (0 <= IZR b)%R) by (apply IZR_le; lia).
    destruct ((a =? 0) && (b =? 0)) eqn:E2.
    + assert (a = 0) by lia. assert (b = 0) by lia. subst. apply ss_zero. lra.
    + apply ss_pos.
      assert (Hab : 0 < a \/ 0 < b) by lia.
      destruct Hab as [H|H]; apply IZR_lt in H; nra.
  - destruct ((a <=? 0) && (b <=? 0)) eqn:E2.
    + apply ss_neg.
      assert (Ha : (IZR a <= 0)%R) by (apply IZR_le; lia).
      assert (Hb : (IZR b <= 0)%R) by (apply IZR_le; lia).
      assert (Hab : a < 0 \/ b < 0) by lia.
      destruct Hab as [H|H]; apply IZR_lt in H; nra.
    + destruct (0 <? a) eqn:E3.
      * assert (Ha : (0 < IZR a)%R) by (apply IZR_lt; lia).
        assert (Hb : (IZR b < 0)%R) by (apply IZR_lt; lia).
        destruct (2 * b * b <? a * a) eqn:E4.
        -- apply ss_pos. assert (H : 2 * b * b < a * a) by lia.
           apply IZR_lt in H. revert H. push_IZR. intros H.
           pose proof (v2_conj (IZR a) (IZR b)) as F.
           assert (Hy : (0 < IZR a - IZR b * s2)%R) by nra. nra.
        -- apply ss_neg.
           assert (H : a * a < 2 * b * b).
           { assert (a * a <> 2 * b * b) by (intros Heq; apply sqrt2_irr in Heq; lia). lia. }
           apply IZR_lt in H. revert H. push_IZR. intros H.
           pose proof (v2_conj (IZR a) (IZR b)) as F.
           assert (Hy : (0 < IZR a - IZR b * s2)%R) by nra. nra.
      * assert (Ha : (IZR a < 0)%R) by (apply IZR_lt; lia).
        assert (Hb : (0 < IZR b)%R) by (apply IZR_lt; lia).
        destruct (a * a <? 2 * b * b) eqn:E4.
        -- apply ss_pos. assert (H : a * a < 2 * b * b) by lia.
           apply IZR_lt in H. revert H. push_IZR. intros H.
           pose proof (v2_conj (IZR a) (IZR b)) as F.
           assert (Hy : (IZR a - IZR b * s2 < 0)%R) by nra. nra.
        -- apply ss_neg.
           assert (H : 2 * b * b < a * a).
           { assert (a * a <> 2 * b * b) by (intros Heq; apply sqrt2_irr in Heq; lia). lia. }
           apply IZR_lt in H. revert H. push_IZR. intros H.
           pose proof (v2_conj (IZR a) (IZR b)) as F.
           assert (Hy : (IZR a - IZR b * s2 < 0)%R) by nra. nra.
Qed.

Lemma sgn2_zero a b : sgn2 a b = 0 -> a = 0 /\ b = 0.
Proof.
  unfold sgn2. repeat match goal with |- context [if ?c then _ else _] => destruct c eqn:? end; lia.
Qed.

(* sign of  (a + b sqrt2) + 2 sqrt k *)
Lemma sgn_plus2root_spec a b k : 0 <= k ->
  sign_spec (v2 a b + 2 * rt k)%R (sgn_plus2root a b k).
Proof.
  intros Hk. pose proof s2_sq as Hsq. pose proof (rt_nonneg k) as Hr. pose proof (rt_sq k Hk) as Hrr.
  unfold sgn_plus2root. cbv zeta.
  pose proof (sgn2_spec a b) as H2. remember (sgn2 a b) as s eqn:Es.
  destruct H2 as [Hp|Hz|Hn].
  - cbn. apply ss_pos. lra.
  - cbn [Z.leb Z.compare Z.eqb andb].
    symmetry in Es. apply sgn2_zero in Es as [-> ->].
    destruct (k =? 0) eqn:Ek.
    + assert (k = 0) by lia. subst k. apply ss_zero. rewrite rt_0. unfold v2. lra.
    + apply ss_pos. assert (H : 0 < k) by lia.
      assert (0 < rt k)%R by (rewrite <- rt_0; apply rt_lt; lia). unfold v2. lra.
  - cbn [Z.leb Z.compare].
    set (t := v2 a b) in *.
    assert (E : v2 (4 * k - (a * a + 2 * b * b)) (- (2 * a * b)) = ((2 * rt k - t) * (2 * rt k + t))%R).
    { unfold t, v2. push_IZR.
      transitivity (4 * (rt k * rt k) - (IZR a * IZR a + IZR b * IZR b * (s2 * s2) + 2 * IZR a * IZR b * s2))%R.
      - rewrite Hrr, Hsq. ring.
      - ring. }
    pose proof (sgn2_spec (4 * k - (a * a + 2 * b * b)) (- (2 * a * b))) as H3.
    rewrite E in H3.
    assert (Hpos : (0 < 2 * rt k - t)%R) by lra.
    destruct H3 as [H3|H3|H3].
    + apply ss_pos. nra.
    + apply ss_zero. nra.
    + apply ss_neg. nra.
Qed.

(* sign of  (a + b sqrt2) + sqrt m - sqrt n *)
Lemma sgn3_spec a b m n : 0 <= m -> 0 <= n ->
  sign_spec (v2 a b + rt m - rt n)%R (sgn3 a b m n).
Proof.
  intros Hm Hn. pose proof s2_sq as Hsq.
  pose proof (rt_nonneg m) as Hrm. pose proof (rt_nonneg n) as Hrn.
  pose proof (rt_sq m Hm) as Hmm. pose proof (rt_sq n Hn) as Hnn.
  unfold sgn3. cbv zeta.
  assert (Hmn : 0 <= m * n) by nia.
  pose proof (sgn_plus2root_spec (a * a + 2 * b * b - n - m) (2 * a * b) (m * n) Hmn) as H4.
  rewrite (rt_mult m n Hm Hn) in H4.
  set (u := v2 a b) in *.
  assert (E : v2 (a * a + 2 * b * b - n - m) (2 * a * b) = (u * u - rt n * rt n - rt m * rt m)%R).
  { unfold u, v2. push_IZR. rewrite Hmm, Hnn.
    transitivity (IZR a * IZR a + IZR b * IZR b * (s2 * s2) + 2 * IZR a * IZR b * s2 - IZR n - IZR m)%R.
    - rewrite Hsq. ring.
    - ring. }
  rewrite E in H4. clear E.
  remember (sgn_plus2root (a * a + 2 * b * b - n - m) (2 * a * b) (m * n)) as q eqn:Eq. clear Eq.
  assert (Hr : (Z.sgn (m - n) = 1 /\ (rt n < rt m)%R) \/ (Z.sgn (m - n) = 0 /\ rt n = rt m) \/
               (Z.sgn (m - n) = -1 /\ (rt m < rt n)%R)).
  { destruct (Z.lt_trichotomy n m) as [H|[H|H]].
    - left. split; [lia|now apply rt_lt].
    - right; left. subst. split; [lia|reflexivity].
    - right; right. split; [lia|now apply rt_lt]. }
  pose proof (sgn2_spec a b) as H2. fold u in H2. remember (sgn2 a b) as s eqn:Es. clear Es.
  destruct H2 as [Hu|Hu|Hu]; destruct Hr as [[-> Hr]|[[-> Hr]|[-> Hr]]]; cbn.
  - apply ss_pos. lra.
  - apply ss_pos. lra.
  - (* u > 0, sqrt n > sqrt m *)
    assert (F : (u * u - rt n * rt n - rt m * rt m + 2 * (rt m * rt n) = (u - (rt n - rt m)) * (u + (rt n - rt m)))%R) by ring.
    rewrite F in H4.
    destruct H4 as [H4|H4|H4]; [apply ss_pos|apply ss_zero|apply ss_neg]; nra.
  - (* u = 0 *) apply ss_pos. lra.
  - apply ss_zero. lra.
  - apply ss_neg. lra.
  - (* u < 0, sqrt m > sqrt n *)
    assert (F : (u * u - rt n * rt n - rt m * rt m + 2 * (rt m * rt n) = (u - (rt m - rt n)) * (u + (rt m - rt n)))%R) by ring.
    rewrite F in H4.
    destruct H4 as [H4|H4|H4]; cbn; [apply ss_neg|apply ss_zero|apply ss_pos]; nra.
  - apply ss_neg. lra.
  - apply ss_neg. lra.
Qed.

(* ---------- the cost triples ---------- *)
Definition val (x : xc) : R := let '(a, b, n) := x in (v2 a b + rt n)%R.
Definition wfx (x : xc) : Prop := 0 <= snd x.

Lemma xc_ltb_spec x y : wfx x -> wfx y -> (xc_ltb x y = true <-> (val x < val y)%R).
Proof.
  destruct x as [[a b] n], y as [[a' b'] n']. unfold wfx, xc_ltb, val. cbn [snd]. intros Hn Hn'.
  pose proof (sgn3_spec (a - a') (b - b') n n' Hn Hn') as H. rewrite v2_sub in H.
  remember (sgn3 (a - a') (b - b') n n') as s eqn:Es. clear Es.
  destruct H as [H|H|H]; cbn; split; intros G; try discriminate; try reflexivity; lra.
Qed.

Lemma xc_ltb_false x y : wfx x -> wfx y -> (xc_ltb x y = false <-> (val y <= val x)%R).
Proof.
  intros Hx Hy. pose proof (xc_ltb_spec x y Hx Hy) as H.
  destruct (xc_ltb x y); split; intros G; try discriminate; try reflexivity.
  - assert (val x < val y)%R by (now apply H). lra.
  - apply Rnot_lt_le. intros L. apply H in L. discriminate.
Qed.

Lemma xc_sqrtZ_spec n : 0 <= n -> wfx (xc_sqrtZ n) /\ val (xc_sqrtZ n) = rt n.
Proof.
  intros Hn. unfold xc_sqrtZ. cbv zeta.
  destruct (Z.sqrt n * Z.sqrt n =? n) eqn:E1.
  - split; [unfold wfx; cbn; lia|]. unfold val, v2. rewrite rt_0.
    assert (H : n = Z.sqrt n * Z.sqrt n) by lia. rewrite H at 2.
    rewrite rt_square by apply Z.sqrt_nonneg. simpl. lra.
  - destruct (2 * Z.sqrt (n / 2) * Z.sqrt (n / 2) =? n) eqn:E2.
    + split; [unfold wfx; cbn; lia|]. unfold val, v2. rewrite rt_0.
      set (r := Z.sqrt (n / 2)) in *.
      assert (H : n = 2 * (r * r)) by lia. rewrite H.
      rewrite rt_mult by nia. rewrite rt_square by apply Z.sqrt_nonneg.
      unfold rt, s2. simpl. lra.
    + split; [unfold wfx; cbn; lia|]. unfold val, v2. simpl. lra.
Qed.

Lemma xc_sqrtZ_1 : xc_sqrtZ 1 = (1, 0, 0).
Proof. reflexivity. Qed.
Lemma xc_sqrtZ_2 : xc_sqrtZ 2 = (0, 1, 0).
Proof. reflexivity. Qed.

Lemma val_pure a b : val (a, b, 0) = v2 a b.
Proof. unfold val. rewrite rt_0. lra. Qed.

Lemma xc_add_pure_l a b y : wfx y -> wfx (xc_add (a, b, 0) y) /\ val (xc_add (a, b, 0) y) = (v2 a b + val y)%R.
Proof.
  destruct y as [[a' b'] n']. unfold wfx, xc_add, val. cbn [snd Z.eqb]. intros H. split; [exact H|].
  rewrite v2_add. lra.
Qed.

(* the order premise of the snapping theorem holds of the exact instance *)
Lemma xc_ltb_sqrt a b : 0 <= a -> 0 <= b -> xc_ltb (xc_sqrtZ a) (xc_sqrtZ b) = (a <? b).
Proof.
  intros Ha Hb. destruct (xc_sqrtZ_spec a Ha) as [Wa Va]. destruct (xc_sqrtZ_spec b Hb) as [Wb Vb].
  destruct (a <? b) eqn:E.
  - apply xc_ltb_spec; auto. rewrite Va, Vb. apply rt_lt; lia.
  - apply xc_ltb_false; auto. rewrite Va, Vb. apply rt_le; lia.
Qed.

(* ---------- the heuristic: Euclidean distance between cells ---------- *)
Definition sqdist (c g : cell) : Z := (snd c - snd g) ^ 2 + (fst c - fst g) ^ 2.
Definition hR (c g : cell) : R := rt (sqdist c g).

Lemma sqdist_nonneg c g : 0 <= sqdist c g.
Proof. unfold sqdist. nia. Qed.

Lemma dist_sqdist (c g : cell) : Model.dist xc_sqrtZ c g = xc_sqrtZ (sqdist c g).
Proof. reflexivity. Qed.

Lemma hR_dist_euc c g : hR c g = dist_euc (IZR (snd c)) (IZR (fst c)) (IZR (snd g)) (IZR (fst g)).
Proof.
  unfold hR, rt, sqdist, dist_euc, Rsqr. f_equal. rewrite !Z.pow_2_r. push_IZR. reflexivity.
Qed.

(* consistency of the heuristic: h(c) <= |c n| + h(n), for any three cells *)
Lemma hR_triangle c n g : (hR c g <= hR c n + hR n g)%R.
Proof. rewrite !hR_dist_euc. apply triangle. Qed.

Lemma hR_bound c g hh ww : 0 <= fst c < hh -> 0 <= snd c < ww -> 0 <= fst g < hh -> 0 <= snd g < ww ->
  (hR c g <= IZR (hh + ww - 2))%R.
Proof.
  intros H1 H2 H3 H4. unfold hR.
  rewrite <- (rt_square (hh + ww - 2)) by lia.
  apply rt_le; [apply sqdist_nonneg|]. unfold sqdist. nia.
Qed.
