(* C14/Model.v — executable model of xrspatial/pathfinding.py (a_star_search and
   its helpers) plus utils.calc_res.  Definitions only.

   The search kernel is generic in the cost type C (Section AStar):
     - the PrimFloat instance (binary64 +, sqrt, <) is what the code computes and is
       used for the bit-exact correspondence run;
     - the exact instance  a + b*sqrt2 + sqrt n  (triples of integers with a
       decidable order obtained by repeated squaring) is used for the bounded
       optimality theorem and for execution on exact data.
   The validity / completeness / termination theorems (Proofs.v) hold for EVERY
   instance: they never use the order, only the book-keeping.

   State (is_open, is_closed, d_from_start, cost, parent_ys/xs) is kept as total
   functions on cells updated pointwise (finite maps); the scans iterate over the
   row-major cell list exactly like the nested `for i in range(height): for j in
   range(width)` loops.  Constants that the source fixes (NONE, the neighbour
   offset tables, the initial bound of _min_cost_pixel_id, the initial distance
   of _find_nearest_pixel, the rounding in _get_pixel_id) come from Generated.v,
   which ./check regenerates from the source on every run. *)
Require Import Base.Prelude Base.XVal.
Require Import C14.Generated.
Require PrimFloat.

Definition cell := (Z * Z)%type.                      (* (py, px) *)
Definition cell_eqb (a b : cell) : bool := (fst a =? fst b) && (snd a =? snd b).
Definition upd {T} (m : cell -> T) (k : cell) (v : T) : cell -> T :=
  fun c => if cell_eqb c k then v else m c.
Definition NONEc : cell := (NONE, NONE).
Definition shift (p : cell) (off : Z * Z) : cell := (fst p + fst off, snd p + snd off).

(* for i in range(height): for j in range(width) *)
Definition cells (h w : Z) : list cell :=
  flat_map (fun i => map (fun j => (i, j)) (ziota 0 (Z.to_nat w))) (ziota 0 (Z.to_nat h)).

Definition get_data (data : list (list xv)) (c : cell) : xv :=
  nthZ XNaN (nthZ [] data (fst c)) (snd c).

(* _is_not_crossable: NaN, or equal to one of the barrier values *)
Definition not_crossable (v : xv) (barriers : list xv) : bool :=
  xisnan v || existsb (fun b => xeqb v b) barriers.

Definition offsets_of (connectivity : Z) : list (Z * Z) :=
  if connectivity =? 8 then offsets8 else offsets4.

(* _is_inside *)
Definition is_inside (h w : Z) (c : cell) : bool :=
  negb ((snd c <? 0) || (snd c >=? w)) && negb ((fst c <? 0) || (fst c >=? h)).

Inductive outcome (C : Type) : Type :=
| OutOfFuel                         (* model artefact; proved unreachable *)
| Stuck                             (* _min_cost_pixel_id returned (NONE, NONE) although a cell is open:
                                       the code would then index [-1][-1]; happens only if a cost reaches
                                       the "very big number" (height+width)**2 *)
| Done (img : cell -> option C).    (* path_img; None = NaN *)
Arguments OutOfFuel {C}. Arguments Stuck {C}. Arguments Done {C}.

Section AStar.
  Context {C : Type}.
  Variable zero : C.
  Variable add : C -> C -> C.
  Variable sqrtZ : Z -> C.           (* np.sqrt of an integer *)
  Variable ofZ : Z -> C.             (* int -> float64 *)
  Variable ltb : C -> C -> bool.     (* a < b;  a > b is ltb b a *)

  (* _distance(x1, y1, x2, y2) = np.sqrt((x1 - x2)**2 + (y1 - y2)**2), integer arguments;
     _heuristic is the same function *)
  Definition distance (x1 y1 x2 y2 : Z) : C := sqrtZ ((x1 - x2) ^ 2 + (y1 - y2) ^ 2).
  Definition dist (a b : cell) : C := distance (snd a) (fst a) (snd b) (fst b).

  Record state : Type := mkSt {
    opn : cell -> bool;              (* is_open *)
    cls : cell -> bool;              (* is_closed *)
    dst : cell -> C;                 (* d_from_start *)
    cst : cell -> C;                 (* cost *)
    par : cell -> cell               (* (parent_ys, parent_xs) *)
  }.

  Variables h w : Z.
  Variable data : list (list xv).
  Variable barriers : list xv.

  Definition blocked (c : cell) : bool := not_crossable (get_data data c) barriers.

  (* _min_cost_pixel_id: row-major scan, strict <, first minimum *)
  Definition min_step (st : state) (acc : C * cell) (c : cell) : C * cell :=
    if opn st c && ltb (cst st c) (fst acc) then (cst st c, c) else acc.
  Definition min_cost_pixel (st : state) : cell :=
    snd (fold_left (min_step st) (cells h w) (ofZ (min_cost_init h w), NONEc)).

  (* num_open = np.sum(is_open) > 0 *)
  Definition any_open (st : state) : bool := existsb (opn st) (cells h w).

  (* _find_nearest_pixel *)
  Definition snap_step (p : cell) (acc : option C * cell) (c : cell) : option C * cell :=
    if negb (blocked c) then
      let d := distance (snd c) (fst c) (snd p) (fst p) in
      if match fst acc with None => true | Some m => ltb d m end then (Some d, c) else acc
    else acc.
  Definition find_nearest (p : cell) : cell :=
    if negb (blocked p) then p
    else
      let init := match snap_init h w with
                  | None => None
                  | Some (x1, y1, x2, y2) => Some (distance x1 y1 x2 y2)
                  end in
      snd (fold_left (snap_step p) (cells h w) (init, NONEc)).

  Variable offs : list (Z * Z).
  Variables start goal : cell.

  (* body of `for y, x in zip(neighbor_ys, neighbor_xs)` for the popped cell p *)
  Definition relax (p : cell) (st : state) (off : Z * Z) : state :=
    let n := shift p off in
    if (fst n >? h - 1) || (fst n <? 0) || (snd n >? w - 1) || (snd n <? 0) then st
    else if blocked n then st
    else if cls st n then st
    else
      let d := add (dst st p) (dist p n) in
      if opn st n && ltb (dst st n) d then st
      else mkSt (upd (opn st) n true) (cls st) (upd (dst st) n d)
                (upd (cst st) n (add d (dist n goal))) (upd (par st) n p).

  (* _reconstruct_path: while (cur != start): img[cur] = d[cur]; cur = parent[cur] *)
  Fixpoint walk (fuel : nat) (st : state) (cur : cell) (img : cell -> option C)
    : option (cell -> option C) :=
    if cell_eqb cur start then Some img
    else match fuel with
         | O => None
         | S f => walk f st (par st cur) (upd img cur (Some (dst st cur)))
         end.

  Definition reconstruct (st : state) : outcome C :=
    let p := par st goal in
    if negb (snd p =? NONE) && negb (fst p =? NONE) then
      match walk (S (Z.to_nat (h * w))) st goal (upd (fun _ => None) start (Some (dst st start))) with
      | Some img => Done img
      | None => OutOfFuel
      end
    else Done (fun _ => None).

  Definition pop (st : state) (p : cell) : state :=
    mkSt (upd (opn st) p false) (upd (cls st) p true) (dst st) (cst st) (par st).

  (* while num_open > 0 *)
  Fixpoint search_loop (fuel : nat) (st : state) : outcome C :=
    match fuel with
    | O => OutOfFuel
    | S f =>
      if any_open st then
        let p := min_cost_pixel st in
        if fst p =? NONE then Stuck
        else
          let st1 := pop st p in
          if cell_eqb p goal then reconstruct st1
          else search_loop f (fold_left (relax p) offs st1)
      else Done (fun _ => None)
    end.

  Definition init_state : state :=
    let st0 := mkSt (fun _ => false) (fun _ => false) (fun _ => zero) (fun _ => zero)
                    (upd (fun _ => NONEc) start start) in
    if negb (blocked start) then
      mkSt (upd (opn st0) start true) (cls st0) (upd (dst st0) start zero)
           (upd (cst st0) start (add zero (dist start goal))) (par st0)
    else st0.

  (* _a_star_search; fuel = h*w + 1 pops *)
  Definition astar_kernel : outcome C := search_loop (S (Z.to_nat (h * w))) init_state.
End AStar.

(* a_star_search after the coordinate -> pixel conversion *)
Inductive result (C : Type) : Type :=
| RErr (code : Z)          (* 1: start outside, 2: goal outside, 3: pixel conversion raised *)
| ROut (o : outcome C).
Arguments RErr {C}. Arguments ROut {C}.

Section Wrapper.
  Context {C : Type}.
  Variable zero : C.
  Variable add : C -> C -> C.
  Variable sqrtZ : Z -> C.
  Variable ofZ : Z -> C.
  Variable ltb : C -> C -> bool.

  Definition a_star_cells (h w : Z) (data : list (list xv)) (barriers : list xv)
             (connectivity : Z) (snap_start snap_goal : bool) (s g : cell) : result C :=
    if negb (is_inside h w s) then RErr 1
    else if negb (is_inside h w g) then RErr 2
    else
      let s' := if snap_start then find_nearest sqrtZ ltb h w data barriers s else s in
      let g' := if snap_goal then find_nearest sqrtZ ltb h w data barriers g else g in
      if negb (fst s' =? NONE) then
        ROut (astar_kernel zero add sqrtZ ofZ ltb h w data barriers (offsets_of connectivity) s' g')
      else ROut (Done (fun _ => None)).

  Definition img_list (h w : Z) (img : cell -> option C) : list (option C) := map img (cells h w).
End Wrapper.

(* ------------------------------------------------------------------ *)
(* exact cost instance:  (a, b, n)  denotes  a + b*sqrt 2 + sqrt n     *)

(* sign of a + b*sqrt2 *)
Definition sgn2 (a b : Z) : Z :=
  if (0 <=? a) && (0 <=? b) then (if (a =? 0) && (b =? 0) then 0 else 1)
  else if (a <=? 0) && (b <=? 0) then -1
  else if 0 <? a then (* b < 0 *) (if 2 * b * b <? a * a then 1 else -1)
  else (* a < 0 < b *) (if a * a <? 2 * b * b then 1 else -1).

(* sign of (a + b sqrt2) + 2*sqrt k,   k >= 0 *)
Definition sgn_plus2root (a b k : Z) : Z :=
  let s := sgn2 a b in
  if 0 <=? s then (if (s =? 0) && (k =? 0) then 0 else 1)
  else (* t = a + b sqrt2 < 0: compare 4k with t^2 = (a^2 + 2b^2) + 2ab sqrt2 *)
    sgn2 (4 * k - (a * a + 2 * b * b)) (- (2 * a * b)).

(* sign of (a + b sqrt2) + sqrt m - sqrt n,   m, n >= 0 *)
Definition sgn3 (a b m n : Z) : Z :=
  let s := sgn2 a b in
  let r := Z.sgn (m - n) in
  if (0 <=? s) && (0 <=? r) then (if (s =? 0) && (r =? 0) then 0 else 1)
  else if (s <=? 0) && (r <=? 0) then -1
  else if 0 <? s then
    (* u > 0, sqrt n > sqrt m:  u ? sqrt n - sqrt m  <=>  u^2 - n - m + 2 sqrt(mn) ? 0 *)
    sgn_plus2root (a * a + 2 * b * b - n - m) (2 * a * b) (m * n)
  else
    (* u < 0, sqrt m > sqrt n:  sign = - sign(-u + sqrt n - sqrt m) *)
    - sgn_plus2root (a * a + 2 * b * b - n - m) (2 * a * b) (m * n).

Definition xc := (Z * Z * Z)%type.
Definition xc_zero : xc := (0, 0, 0).
Definition xc_sqrtZ (n : Z) : xc :=
  let r := Z.sqrt n in
  if r * r =? n then (r, 0, 0)
  else let r2 := Z.sqrt (n / 2) in
       if 2 * r2 * r2 =? n then (0, r2, 0) else (0, 0, n).
Definition xc_ofZ (n : Z) : xc := (n, 0, 0).
(* sums that occur: (a,b,0) + (a',b',n') — at most one operand carries a root *)
Definition xc_add (x y : xc) : xc :=
  let '(a, b, n) := x in let '(a', b', n') := y in
  (a + a', b + b', if n =? 0 then n' else n).
Definition xc_ltb (x y : xc) : bool :=
  let '(a, b, n) := x in let '(a', b', n') := y in
  sgn3 (a - a') (b - b') n n' =? -1.

Definition xc_astar := a_star_cells xc_zero xc_add xc_sqrtZ xc_ofZ xc_ltb.
Definition xc_img_list := @img_list xc.

(* reference minimum for the bounded optimality theorem: Bellman-Ford over the
   pure  a + b sqrt2  costs (option = unreachable) *)
Definition p2 := (Z * Z)%type.
Definition p2_ltb (x y : p2) : bool := sgn2 (fst x - fst y) (snd x - snd y) =? -1.
Definition p2_min (x y : option p2) : option p2 :=
  match x, y with
  | None, _ => y
  | _, None => x
  | Some a, Some b => if p2_ltb b a then y else x
  end.
Definition p2_step (off : Z * Z) : p2 :=
  if (fst off * fst off + snd off * snd off) =? 1 then (1, 0) else (0, 1).
Definition bf_round (h w : Z) (data : list (list xv)) (barriers : list xv) (offs : list (Z * Z))
           (d : cell -> option p2) : cell -> option p2 :=
  fun c =>
    if negb (is_inside h w c) || blocked data barriers c then None
    else fold_left (fun best off =>
           (* predecessor q with q + off = c *)
           let q := (fst c - fst off, snd c - snd off) in
           match d q with
           | None => best
           | Some (a, b) => p2_min best (Some (a + fst (p2_step off), b + snd (p2_step off)))
           end) offs (d c).
(* tabulate a map on the grid so that rounds do not nest closures *)
Definition tabulate (h w : Z) (d : cell -> option p2) : cell -> option p2 :=
  let rows := map (fun i => map (fun j => d (i, j)) (ziota 0 (Z.to_nat w))) (ziota 0 (Z.to_nat h)) in
  fun c => if is_inside h w c then nthZ None (nthZ [] rows (fst c)) (snd c) else None.
Fixpoint bf_iter (k : nat) (h w : Z) data barriers offs (d : cell -> option p2) : cell -> option p2 :=
  match k with
  | O => d
  | S k' => bf_iter k' h w data barriers offs (tabulate h w (bf_round h w data barriers offs d))
  end.
Definition bf_all (h w : Z) data barriers offs (s : cell) : cell -> option p2 :=
  let d0 := fun c => if cell_eqb c s && negb (blocked data barriers s) && is_inside h w s
                     then Some (0, 0) else None in
  bf_iter (Z.to_nat (h * w)) h w data barriers offs d0.
Definition bf_min (h w : Z) data barriers offs (s g : cell) : option p2 :=
  bf_all h w data barriers offs s g.

(* ------------------------------------------------------------------ *)
(* exact model of the coordinate -> cell step on a common integer scale:
   centres c0 + i*s, cellsize |s| *)
Definition round_half_even (n d : Z) : Z :=      (* n >= 0, d > 0 : n/d rounded, ties to even *)
  let q := n / d in let r := n mod d in
  if 2 * r <? d then q else if d <? 2 * r then q + 1 else if Z.even q then q else q + 1.
Definition pixel_idx_nearest (p c0 s : Z) : Z := round_half_even (Z.abs (p - c0)) (Z.abs s).
Definition pixel_idx_trunc (p c0 s : Z) : Z := Z.abs (p - c0) / Z.abs s.
(* signed variant: sign * (p - c0) with sign = -1 for descending centres; np.rint is symmetric *)
Definition round_half_even_signed (n d : Z) : Z :=
  if n <? 0 then - round_half_even (- n) d else round_half_even n d.
Definition pixel_idx_signed (p c0 s : Z) : Z := round_half_even_signed ((p - c0) * Z.sgn s) (Z.abs s).
Definition pixel_idx (p c0 s : Z) : Z :=
  if pixel_round_nearest then (if pixel_signed then pixel_idx_signed p c0 s else pixel_idx_nearest p c0 s)
  else pixel_idx_trunc p c0 s.

(* ------------------------------------------------------------------ *)
(* PrimFloat instance (what the code computes) *)
Module F.
  Import PrimFloat.
  Local Open Scope float_scope.

  Fixpoint pos2f (p : positive) : float :=
    match p with xH => 1 | xO q => 2 * pos2f q | xI q => 2 * pos2f q + 1 end.
  Definition z2f (z : Z) : float :=
    match z with Z0 => 0 | Zpos p => pos2f p | Zneg p => - pos2f p end.
  Definition f_sqrtZ (n : Z) : float := sqrt (z2f n).

  (* np.rint / int() on a finite double, then the integer as Z (saturating at 2^31,
     which is outside every raster) *)
  Definition rint_pos (x : float) : float := if ltb x 0x1p52 then (x + 0x1p52) - 0x1p52 else x.
  Definition trunc_pos (x : float) : float := let r := rint_pos x in if ltb x r then r - 1 else r.
  Fixpoint f2z_bits (k : nat) (x : float) : Z :=
    match k with
    | O => 0%Z
    | S k' => let pw := z2f (2 ^ Z.of_nat k') in
              if leb pw x then (2 ^ Z.of_nat k' + f2z_bits k' (x - pw))%Z else f2z_bits k' x
    end.
  Definition f2z_pos (x : float) : Z := if leb 0x1p31 x then (2 ^ 31)%Z else f2z_bits 31 x.
  Definition to_index (q : float) : Z :=
    let m := abs q in
    let r := if pixel_round_nearest then rint_pos m else trunc_pos m in
    if ltb q 0 then (- f2z_pos r)%Z else f2z_pos r.

  (* utils.calc_res: (max - min) / (n - 1); None = ZeroDivisionError *)
  Definition fmax (l : list float) : float := fold_left (fun m x => if ltb m x then x else m) l (hd 0 l).
  Definition fmin (l : list float) : float := fold_left (fun m x => if ltb x m then x else m) l (hd 0 l).
  Definition calc_res (coords : list float) : option float :=
    let n := lenZ coords in
    if (n =? 1)%Z then None else Some ((fmax coords - fmin coords) / z2f (n - 1)).

  (* _get_pixel_id for one axis: int(np.rint(sign * (p - coords[0]) / cellsize)) with sign = -1 if
     coords[-1] < coords[0] else 1  (or abs(p - coords[0]) in the older form); None = raised *)
  Definition pixel_axis (coords : list float) (res : option float) (p : float) : option Z :=
    match (match res with Some r => Some r | None => calc_res coords end) with
    | None => None
    | Some cs =>
      let d := p - hd 0 coords in
      let num := if pixel_signed then (if ltb (last coords 0) (hd 0 coords) then - d else d) else abs d in
      let q := num / cs in
      if ltb (abs q) infinity then Some (to_index q) else None
    end.

  Definition f_astar_cells := a_star_cells 0 add f_sqrtZ z2f ltb.

  (* a_star_search: coordinates -> pixels -> search *)
  Definition a_star (h w : Z) (data : list (list xv)) (barriers : list xv) (connectivity : Z)
             (snap_start snap_goal : bool) (ycoords xcoords : list float)
             (resx resy : option float) (sy sx gy gx : float) : result float :=
    match pixel_axis ycoords resy sy, pixel_axis xcoords resx sx,
          pixel_axis ycoords resy gy, pixel_axis xcoords resx gx with
    | Some spy, Some spx, Some gpy, Some gpx =>
      f_astar_cells h w data barriers connectivity snap_start snap_goal (spy, spx) (gpy, gpx)
    | _, _, _, _ => RErr 3
    end.
  Definition f_img_list := @img_list float.
End F.
