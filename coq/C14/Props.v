(* C14/Props.v — the property theorems claimed for C14, nothing else.
   Vocabulary (Proofs.v / Snap.v):
     inside h w c            c = (py, px) lies in the h x w grid
     free data barriers c    the cell is neither NaN nor a barrier value (blocked = false)
     reach ... g             a route of in-grid crossable cells from start to g, each step one of the offsets
     vchain ... img l g      l = g :: ... :: start (goal first) is a chain in path_img: img start = Some 0,
                             every next cell b = a + one offset, in-grid, crossable, not already on the chain,
                             and img b = Some (img a + sqrt(dy^2 + dx^2))
   C is ANY cost type with ANY add / sqrt / order (binary64 floats, the exact a + b*sqrt2 instance, ...). *)
Require Import Base.Prelude Base.XVal.
Require Import C14.Generated C14.Model C14.Proofs C14.Snap C14.Bounded.

(* A*: validity, completeness, termination — all grids, surfaces, barrier sets, offset tables, cost
   instances.  The search never runs out of its h*w+1 pops, nor the back-walk of its h*w+1 steps;
   if it returns (Stuck = _min_cost_pixel_id answered NONE with a cell open, see PARTIAL) then
   EITHER the non-NaN cells of path_img are exactly the cells of one duplicate-free chain
          start (value 0) -> goal, every step a generated neighbour offset into a crossable in-grid cell
          adding exactly that step's length,
   OR     every cell is NaN and no route joins start and goal. *)
Theorem C14_path_valid : forall (C : Type) (zero : C) add sqrtZ ofZ ltb h w data barriers offs start goal,
  inside h w start ->
  match astar_kernel zero add sqrtZ ofZ ltb h w data barriers offs start goal with
  | OutOfFuel => False
  | Stuck => True
  | Done img =>
    (exists l, vchain zero add sqrtZ h w data barriers offs start img l goal /\
               (forall c, img c <> None <-> In c l) /\ NoDup l) \/
    ((forall c, img c = None) /\ ~ reach h w data barriers offs start goal)
  end.
Proof. intros. now apply astar_kernel_spec. Qed.
Print Assumptions C14_path_valid.

(* fuel sufficiency on its own *)
Theorem C14_fuel_sufficient : forall (C : Type) (zero : C) add sqrtZ ofZ ltb h w data barriers offs start goal,
  inside h w start ->
  astar_kernel zero add sqrtZ ofZ ltb h w data barriers offs start goal <> OutOfFuel.
Proof.
  intros C zero add sqrtZ ofZ ltb h w data barriers offs start goal Hs Heq.
  pose proof (astar_kernel_spec zero add sqrtZ ofZ ltb h w data barriers offs start goal Hs) as H.
  rewrite Heq in H. exact H.
Qed.
Print Assumptions C14_fuel_sufficient.

(* a route exists  =>  the result is the chain *)
Theorem C14_route_gives_chain : forall (C : Type) (zero : C) add sqrtZ ofZ ltb h w data barriers offs start goal img,
  inside h w start ->
  astar_kernel zero add sqrtZ ofZ ltb h w data barriers offs start goal = Done img ->
  reach h w data barriers offs start goal ->
  exists l, vchain zero add sqrtZ h w data barriers offs start img l goal /\
            (forall c, img c <> None <-> In c l) /\ NoDup l.
Proof.
  intros C zero add sqrtZ ofZ ltb h w data barriers offs start goal img Hs Heq Hr.
  pose proof (astar_kernel_spec zero add sqrtZ ofZ ltb h w data barriers offs start goal Hs) as H.
  apply (post_route_chain zero add sqrtZ h w data barriers offs start goal) in H; auto.
  rewrite Heq in H. exact H.
Qed.
Print Assumptions C14_route_gives_chain.

(* no route  =>  every cell NaN *)
Theorem C14_no_route_all_nan : forall (C : Type) (zero : C) add sqrtZ ofZ ltb h w data barriers offs start goal img,
  inside h w start ->
  astar_kernel zero add sqrtZ ofZ ltb h w data barriers offs start goal = Done img ->
  ~ reach h w data barriers offs start goal ->
  forall c, img c = None.
Proof.
  intros C zero add sqrtZ ofZ ltb h w data barriers offs start goal img Hs Heq Hr.
  pose proof (astar_kernel_spec zero add sqrtZ ofZ ltb h w data barriers offs start goal Hs) as H.
  apply (post_no_route_nan zero add sqrtZ h w data barriers offs start goal) in H; auto.
  rewrite Heq in H. exact H.
Qed.
Print Assumptions C14_no_route_all_nan.

(* an end point that is a barrier / NaN cell (snapping off: the kernel gets the cell itself)  =>  every cell NaN *)
Theorem C14_uncrossable_endpoint_all_nan :
  forall (C : Type) (zero : C) add sqrtZ ofZ ltb h w data barriers offs start goal img,
  inside h w start ->
  astar_kernel zero add sqrtZ ofZ ltb h w data barriers offs start goal = Done img ->
  blocked data barriers start = true \/ blocked data barriers goal = true ->
  forall c, img c = None.
Proof.
  intros C zero add sqrtZ ofZ ltb h w data barriers offs start goal img Hs Heq Hb.
  pose proof (astar_kernel_spec zero add sqrtZ ofZ ltb h w data barriers offs start goal Hs) as H.
  apply (post_blocked_endpoint_nan zero add sqrtZ ofZ ltb h w data barriers offs start goal) in H; auto.
  rewrite Heq in H. exact H.
Qed.
Print Assumptions C14_uncrossable_endpoint_all_nan.

(* obligations on the neighbour tables generated from the source: exactly the 4 / 8 unit offsets,
   no duplicates; hence every step of a chain has length sqrt 1 or sqrt 2 (sqrt 1 only, for 4) *)
Theorem C14_offsets_exact :
  (forall o, In o offsets4 <-> (fst o) ^ 2 + (snd o) ^ 2 = 1) /\
  (forall o, In o offsets8 <-> (-1 <= fst o <= 1 /\ -1 <= snd o <= 1 /\ o <> (0, 0))) /\
  NoDup offsets4 /\ NoDup offsets8.
Proof. exact (conj offsets4_exact (conj offsets8_exact (conj offsets4_NoDup offsets8_NoDup))). Qed.
Print Assumptions C14_offsets_exact.

Theorem C14_step_lengths : forall (C : Type) (sqrtZ : Z -> C) conn a o, In o (offsets_of conn) ->
  let n := (fst o) ^ 2 + (snd o) ^ 2 in
  dist sqrtZ a (shift a o) = sqrtZ n /\ (n = 1 \/ n = 2) /\ (conn <> 8 -> n = 1).
Proof.
  intros C sqrtZ conn a o H. cbv zeta. split; [apply dist_shift|]. now apply offsets_step_len.
Qed.
Print Assumptions C14_step_lengths.

(* snapping (_find_nearest_pixel with the initial distance np.inf): a crossable cell is kept; otherwise
   the result is the FIRST row-major crossable cell at minimum squared distance, and NONE only when no
   cell is crossable.  Premise: the order decides sqrt a < sqrt b as a < b. *)
Theorem C14_snap_nearest : forall (C : Type) (sqrtZ : Z -> C) (ltb : C -> C -> bool),
  (forall a b, 0 <= a -> 0 <= b -> ltb (sqrtZ a) (sqrtZ b) = (a <? b)) ->
  forall h w data barriers p,
  let r := find_nearest sqrtZ ltb h w data barriers p in
  (blocked data barriers p = false -> r = p) /\
  (blocked data barriers p = true ->
     ((forall c, In c (cells h w) -> blocked data barriers c = true) /\ r = NONEc) \/
     (exists s1 s2, cells h w = s1 ++ r :: s2 /\ blocked data barriers r = false /\
        (forall c, In c s1 -> blocked data barriers c = false -> sqd r p < sqd c p) /\
        (forall c, In c s2 -> blocked data barriers c = false -> sqd r p <= sqd c p))).
Proof. intros C sqrtZ ltb H h w data barriers p. now apply find_nearest_spec. Qed.
Print Assumptions C14_snap_nearest.

(* a_star_search after the coordinate conversion: in-grid end points are snapped (or not) and the kernel
   theorem applies to the snapped cells; a NONE start (nothing crossable) gives the all-NaN raster *)
Theorem C14_a_star_cells_spec : forall (C : Type) (zero : C) add sqrtZ ofZ ltb h w data barriers conn (ss sg : bool) (s g : cell),
  is_inside h w s = true -> is_inside h w g = true ->
  let s' := if ss then find_nearest sqrtZ ltb h w data barriers s else s in
  let g' := if sg then find_nearest sqrtZ ltb h w data barriers g else g in
  exists o, a_star_cells zero add sqrtZ ofZ ltb h w data barriers conn ss sg s g = ROut o /\
    (s' = NONEc -> exists img, o = Done img /\ forall c, img c = None) /\
    (s' <> NONEc -> inside h w s' /\
                    post zero add sqrtZ h w data barriers (offsets_of conn) s' g' o).
Proof.
  intros C zero add sqrtZ ofZ ltb h w data barriers conn ss sg s g Hs Hg. cbv zeta.
  unfold a_star_cells. rewrite Hs, Hg. cbn [negb].
  set (s' := if ss then find_nearest sqrtZ ltb h w data barriers s else s).
  set (g' := if sg then find_nearest sqrtZ ltb h w data barriers g else g).
  assert (Hs' : s' = NONEc \/ inside h w s').
  { unfold s'. destruct ss; [|right; now apply is_inside_spec].
    apply find_nearest_inside. now apply is_inside_spec. }
  destruct Hs' as [Hn|Hi].
  - rewrite Hn. unfold NONEc. cbn [fst]. rewrite Z.eqb_refl. cbn [negb].
    eexists. split; [reflexivity|]. split.
    + intros _. eexists. split; reflexivity.
    + intros H. now elim H.
  - assert (Hne : (fst s' =? NONE) = false) by (pose proof NONE_neg; destruct Hi; lia).
    rewrite Hne. cbn [negb]. eexists. split; [reflexivity|]. split.
    + intros Hn. rewrite Hn in Hne. unfold NONEc in Hne. cbn [fst] in Hne. rewrite Z.eqb_refl in Hne. discriminate.
    + intros _. split; [exact Hi|]. now apply astar_kernel_spec.
Qed.
Print Assumptions C14_a_star_cells_spec.

(* coordinates -> cell (exact model, coordinates on a common integer scale; centres c0 + i*s, s <> 0 of
   either sign): a point on the raster's side of the first centre denotes the cell whose centre is
   nearest, and a cell's own coordinate denotes that cell *)
Theorem C14_pixel_nearest_centre : forall p c0 s, s <> 0 -> 0 <= (p - c0) * s ->
  forall j, Z.abs (p - (c0 + pixel_idx p c0 s * s)) <= Z.abs (p - (c0 + j * s)).
Proof. intros p c0 s Hs Hp j. rewrite pixel_idx_is_nearest by auto. now apply pixel_nearest_centre. Qed.
Print Assumptions C14_pixel_nearest_centre.

Theorem C14_pixel_own_centre : forall c0 s i, s <> 0 -> 0 <= i -> pixel_idx (c0 + i * s) c0 s = i.
Proof.
  intros c0 s i Hs Hi. rewrite pixel_idx_is_nearest; [now apply pixel_own_centre|auto|].
  replace (c0 + i * s - c0) with (i * s) by ring. nia.
Qed.
Print Assumptions C14_pixel_own_centre.

(* a point more than half a cell BEFORE the first centre (on the side away from the raster) gets a negative index,
   so a_star_search refuses it as outside instead of mirroring it into the raster *)
Theorem C14_pixel_before_first_refused : forall p c0 s, s <> 0 -> (p - c0) * s < 0 -> Z.abs s < 2 * Z.abs (p - c0) ->
  pixel_idx p c0 s < 0.
Proof. exact pixel_before_first_negative. Qed.
Print Assumptions C14_pixel_before_first_refused.

(* optimality, BOUNDED: on every grid up to 3x3, every free/barrier layout, every start/goal pair, both
   connectivities, the exact-cost instance returns at the goal exactly the Bellman-Ford minimum over all
   routes (NaN exactly when there is none) — in particular no such run is Stuck (vm_compute) *)
Theorem C14_bounded_optimal_small : forall h w, In h [1; 2; 3] -> In w [1; 2; 3] ->
  forall data, In data (layouts h w) -> forall conn, In conn [4; 8] ->
  forall s g, In s (cells h w) -> In g (cells h w) -> opt_case h w data conn s g = true.
Proof. exact bounded_optimal_small. Qed.
Print Assumptions C14_bounded_optimal_small.

(* ---- stated, NOT claimed ---- *)
(* NOTE: as written (no premise on the goal cell) the two statements below are FALSE — a goal outside the
   grid makes the heuristic reach (h+w)^2 and the kernel Stuck; see the refutations in PropsOptimal.v.
   With the premise `inside h w g` both ARE proved for all grids there (C14_optimal_equals_bellman_ford,
   C14_never_stuck), together with C14_optimal (minimum over all routes, any goal). *)
(* unbounded optimality at the exact instance: the goal value is the minimum over all routes *)
Definition C14_optimal_full_statement : Prop :=
  forall h w data barriers conn s g, inside h w s ->
  match astar_kernel xc_zero xc_add xc_sqrtZ xc_ofZ xc_ltb h w data barriers (offsets_of conn) s g with
  | Done img =>
    match img g, bf_min h w data barriers (offsets_of conn) s g with
    | None, None => True
    | Some (a, b, n), Some (a', b') => a = a' /\ b = b' /\ n = 0
    | _, _ => False
    end
  | _ => False
  end.
(* the "very big number" (height+width)**2 exceeds every cost, so the search never gets stuck *)
Definition C14_never_stuck_full_statement : Prop :=
  forall h w data barriers conn s g, inside h w s ->
  astar_kernel xc_zero xc_add xc_sqrtZ xc_ofZ xc_ltb h w data barriers (offsets_of conn) s g <> Stuck.

(* ---- non-vacuity and refutations ---- *)
(* a 3x3 surface with a barrier in the middle: route exists, the exact model returns the chain
   (0,0) -> (1,0) -> (2,1) -> (2,2) with values 0, 1, 1+sqrt2, 2+sqrt2 *)
Example C14_nonvacuous :
  let data := [[XFin 1; XFin 1; XFin 1]; [XFin 1; XFin 0; XFin 1]; [XFin 1; XFin 1; XFin 1]] in
  inside 3 3 (0, 0) /\
  match xc_astar 3 3 data [XFin 0] 8 false false (0, 0) (2, 2) with
  | ROut (Done img) =>
    xc_img_list 3 3 img = [Some (0, 0, 0); None; None; Some (1, 0, 0); None; None; None; Some (1, 1, 0); Some (2, 1, 0)]
  | _ => False
  end /\
  match xc_astar 3 3 [[XFin 1; XFin 0; XFin 1]; [XFin 1; XFin 0; XFin 1]; [XFin 1; XFin 0; XFin 1]] [XFin 0] 8 false false (0, 0) (2, 2) with
  | ROut (Done img) => xc_img_list 3 3 img = [None; None; None; None; None; None; None; None; None]
  | _ => False
  end.
Proof. cbv zeta. split; [unfold inside; simpl; lia|]. split; vm_compute; reflexivity. Qed.

(* snapping: the only crossable cell is the opposite corner (the case the unfixed code missed) *)
Example C14_snap_corner :
  find_nearest xc_sqrtZ xc_ltb 3 3 [[XFin 0; XFin 0; XFin 0]; [XFin 0; XFin 0; XFin 0]; [XFin 0; XFin 0; XFin 1]]
               [XFin 0] (0, 0) = (2, 2).
Proof. vm_compute. reflexivity. Qed.

(* truncation (the unfixed _get_pixel_id) is refuted: x = 0.9 on unit centres, 0.3 on 0.1-spaced centres
   (scaled by 10 / by 100 with the quotient just below 3, as binary64 computes it) *)
Example C14_pixel_trunc_refuted :
  pixel_idx_trunc 9 0 10 = 0 /\ pixel_idx_nearest 9 0 10 = 1 /\
  pixel_idx_trunc 299 0 100 = 2 /\ pixel_idx_nearest 299 0 100 = 3.
Proof. vm_compute. repeat split; reflexivity. Qed.

(* abs(p - c0) (the older form) mirrors a point left of the first centre into the raster: x = -3 on unit centres 0.. -> column 3 *)
Example C14_pixel_abs_mirrors_refuted : pixel_idx_nearest (-30) 0 10 = 3 /\ pixel_idx_signed (-30) 0 10 = -3.
Proof. vm_compute. split; reflexivity. Qed.
