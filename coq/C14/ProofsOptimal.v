(* C14/ProofsOptimal.v — optimality of the A* model at the exact cost instance
   (DESIGN.md §12, invariant A5) and unreachability of the Stuck outcome.

   route c a b : there is a route of in-grid crossable cells start -> c, each step one
                 of the offsets, with a unit steps and b diagonal steps (cost a + b sqrt2).
   Invariant InvO (every point of the loop body):
     - d_from_start of every open/closed cell is a pure a + b sqrt2, the cost of a route,
       with a + b bounded by the number of closed cells;
     - cost = d_from_start + heuristic for open cells;
     - (A5) d_from_start of a CLOSED cell is <= the cost of every route to it.
   Invariant InvR (loop head): every crossable in-grid neighbour n of a closed cell c has
     d(n) <= d(c) + |c n|.
   The key step (pop_optimal): the cell chosen by _min_cost_pixel_id — an open cell of
   minimum cost — already has its final distance, because every route to it leaves the
   closed set through an open cell o with d(o) + h(o) <= cost(route) + h(p), the heuristic
   being consistent (triangle inequality). *)
Require Import Base.Prelude Base.XVal.
Require Import C14.Generated C14.Model C14.Proofs C14.Snap.
Require Import Reals Lra Psatz.
Unset Nra Cache.
Require Import C14.OrderR.

Definition sq (off : Z * Z) : Z := (fst off) ^ 2 + (snd off) ^ 2.
Definition stepZ (off : Z * Z) : Z * Z := if sq off =? 1 then (1, 0) else (0, 1).

Lemma step_nonneg off : 0 <= fst (stepZ off) /\ 0 <= snd (stepZ off) /\ fst (stepZ off) + snd (stepZ off) = 1.
Proof. unfold stepZ. destruct (sq off =? 1); cbn; lia. Qed.

Section Opt.
  Variables (h w : Z) (data : list (list xv)) (barriers : list xv).
  Variable offs : list (Z * Z).
  Variables start goal : cell.
  (* every offset is a unit or a diagonal step; true of both generated tables (Snap.offsets_step_len) *)
  Hypothesis offs_unit : forall off, In off offs -> sq off = 1 \/ sq off = 2.

  Notation inside := (inside h w).
  Notation free := (free data barriers).
  Notation relaxf := (relax xc_add xc_sqrtZ xc_ltb h w data barriers goal).
  Notation InvS := (InvS xc_zero xc_add xc_sqrtZ h w data barriers offs start).
  Notation InvF := (@InvF xc h w data barriers offs start goal).
  Notation D := (Model.dist xc_sqrtZ).

  Inductive route : cell -> Z -> Z -> Prop :=
  | route_start : inside start -> free start -> route start 0 0
  | route_step : forall c off a b, route c a b -> In off offs ->
      inside (shift c off) -> free (shift c off) ->
      route (shift c off) (a + fst (stepZ off)) (b + snd (stepZ off)).

  Lemma step_xc off : In off offs -> xc_sqrtZ (sq off) = (fst (stepZ off), snd (stepZ off), 0).
  Proof.
    intros H. unfold stepZ. destruct (offs_unit off H) as [E|E]; rewrite E; reflexivity.
  Qed.

  Lemma step_v2 off : In off offs -> v2 (fst (stepZ off)) (snd (stepZ off)) = rt (sq off).
  Proof.
    intros H. pose proof (step_xc off H) as E.
    assert (Hq : 0 <= sq off) by (unfold sq; nia).
    destruct (xc_sqrtZ_spec (sq off) Hq) as [_ V]. rewrite E, val_pure in V. exact V.
  Qed.

  Lemma D_shift p off : D p (shift p off) = xc_sqrtZ (sq off).
  Proof. apply dist_shift. Qed.

  Lemma add_step a b off : In off offs ->
    xc_add (a, b, 0) (xc_sqrtZ (sq off)) = (a + fst (stepZ off), b + snd (stepZ off), 0).
  Proof. intros H. rewrite (step_xc off H). reflexivity. Qed.

  Record InvO (st : @state xc) (hist : list cell) : Prop := {
    o_dst : forall c, seen st c -> exists a b, dst st c = (a, b, 0) /\ 0 <= a /\ 0 <= b /\ route c a b /\
                                   a + b <= lenZ hist /\ (cls st c = true -> a + b < lenZ hist);
    o_cst : forall c, opn st c = true -> cst st c = xc_add (dst st c) (D c goal);
    o_opt : forall c a b, In c hist -> route c a b -> (val (dst st c) <= v2 a b)%R
  }.

  Definition InvR (st : @state xc) (hist : list cell) : Prop :=
    forall c off, In c hist -> In off offs -> inside (shift c off) -> free (shift c off) ->
      (val (dst st (shift c off)) <= val (dst st c) + rt (sq off))%R.

  (* ---------- one relaxation ---------- *)
  Lemma relax_O p st off hist :
    InvS st hist -> InvO st hist -> In p hist -> In off offs ->
    InvO (relaxf p st off) hist /\
    (forall x, seen st x -> (val (dst (relaxf p st off) x) <= val (dst st x))%R) /\
    (forall x, cls st x = true -> dst (relaxf p st off) x = dst st x) /\
    (inside (shift p off) -> free (shift p off) ->
       (val (dst (relaxf p st off) (shift p off)) <= val (dst st p) + rt (sq off))%R).
  Proof.
    intros I O Hp Hoff.
    assert (Hpc : cls st p = true) by (now apply (s_cls _ _ _ _ _ _ _ _ _ _ _ I)).
    destruct (o_dst _ _ O p (or_intror Hpc)) as (a & b & Hdp & Ha & Hb & Hrp & Hle & Hlt).
    specialize (Hlt Hpc).
    pose proof (step_nonneg off) as (Hs1 & Hs2 & Hs3).
    pose proof (step_v2 off Hoff) as Hsv.
    unfold relax. cbv zeta.
    remember (shift p off) as n eqn:Hn.
    assert (Hd : xc_add (dst st p) (D p n) = (a + fst (stepZ off), b + snd (stepZ off), 0)).
    { rewrite Hdp, Hn, D_shift. now apply add_step. }
    assert (Hvd : (val (xc_add (dst st p) (D p n)) = val (dst st p) + rt (sq off))%R).
    { rewrite Hd, Hdp, !val_pure, v2_add, Hsv. reflexivity. }
    assert (Hrn : inside n -> free n -> route n (a + fst (stepZ off)) (b + snd (stepZ off))).
    { intros Hi Hf. rewrite Hn in *. now apply route_step. }
    assert (Triv : forall (P : Prop), P -> InvO st hist /\
       (forall x, seen st x -> (val (dst st x) <= val (dst st x))%R) /\
       (forall x, cls st x = true -> dst st x = dst st x) /\ P).
    { intros P HP. split; [exact O|]. split; [intros x _; apply Rle_refl|]. split; [reflexivity|exact HP]. }
    destruct ((fst n >? h - 1) || (fst n <? 0) || (snd n >? w - 1) || (snd n <? 0)) eqn:Eb.
    { apply Triv. intros [Hi1 Hi2] _. lia. }
    destruct (blocked data barriers n) eqn:Ebl.
    { apply Triv. intros _ Hf. unfold Proofs.free in Hf. congruence. }
    assert (Hin : inside n) by (unfold Proofs.inside; lia).
    assert (Hfn : free n) by exact Ebl.
    destruct (cls st n) eqn:Ec.
    { apply Triv. intros _ _.
      assert (Hnh : In n hist) by (now apply (s_cls _ _ _ _ _ _ _ _ _ _ _ I)).
      pose proof (o_opt _ _ O n _ _ Hnh (Hrn Hin Hfn)) as H1.
      rewrite v2_add, Hsv in H1. rewrite Hdp, val_pure. exact H1. }
    destruct (opn st n && xc_ltb (dst st n) (xc_add (dst st p) (D p n))) eqn:Eo.
    { apply Triv. intros _ _.
      apply andb_prop in Eo as [Eo1 Eo2].
      destruct (o_dst _ _ O n (or_introl Eo1)) as (a' & b' & Hdn & _).
      rewrite Hd, Hdn in Eo2. apply xc_ltb_spec in Eo2; [|unfold wfx; cbn; lia|unfold wfx; cbn; lia].
      rewrite <- Hd, <- Hdn in Eo2. rewrite Hvd in Eo2. lra. }
    (* the update *)
    assert (Hnh : ~ In n hist) by (rewrite <- (s_cls _ _ _ _ _ _ _ _ _ _ _ I); congruence).
    assert (Hpn : p <> n) by (intros Heq; rewrite Heq in Hp; contradiction).
    split; [|split; [|split]]; cbn [opn cls dst cst par].
    - constructor; cbn [opn cls dst cst par].
      + intros c Hc. destruct (cell_eqb_spec c n) as [->|Hne].
        * rewrite upd_same. exists (a + fst (stepZ off)), (b + snd (stepZ off)).
          split; [exact Hd|]. split; [lia|]. split; [lia|]. split; [now apply Hrn|].
          split; [lia|]. rewrite Ec. discriminate.
        * assert (Hc' : seen st c).
          { destruct Hc as [Hc|Hc]; cbn [opn cls] in Hc; [left|right; exact Hc].
            now rewrite upd_other in Hc by auto. }
          rewrite upd_other by auto. now apply (o_dst _ _ O).
      + intros c Hc. destruct (cell_eqb_spec c n) as [->|Hne].
        * rewrite !upd_same. reflexivity.
        * rewrite upd_other in Hc by auto. rewrite !upd_other by auto. now apply (o_cst _ _ O).
      + intros c a' b' Hc Hr. assert (c <> n) by (intros ->; contradiction).
        rewrite upd_other by auto. now apply (o_opt _ _ O).
    - intros x Hx. destruct (cell_eqb_spec x n) as [->|Hne].
      + rewrite upd_same.
        assert (Hon : opn st n = true) by (destruct Hx as [Hx|Hx]; [exact Hx|congruence]).
        rewrite Hon in Eo. cbn [andb] in Eo.
        destruct (o_dst _ _ O n (or_introl Hon)) as (a' & b' & Hdn & _).
        rewrite Hd, Hdn in Eo. apply xc_ltb_false in Eo; [|unfold wfx; cbn; lia|unfold wfx; cbn; lia].
        rewrite Hd, Hdn. exact Eo.
      + rewrite upd_other by auto. apply Rle_refl.
    - intros x Hx. assert (x <> n) by (intros ->; congruence). now rewrite upd_other by auto.
    - intros _ _. rewrite upd_same. rewrite Hvd. apply Rle_refl.
  Qed.

  Lemma relax_fold_O p hist : forall offs' st,
    InvS st hist -> InvO st hist -> In p hist -> (forall off, In off offs' -> In off offs) ->
    let st' := fold_left (relaxf p) offs' st in
    InvO st' hist /\
    (forall x, seen st x -> (val (dst st' x) <= val (dst st x))%R) /\
    (forall x, cls st x = true -> dst st' x = dst st x) /\
    (forall off, In off offs' -> inside (shift p off) -> free (shift p off) ->
       (val (dst st' (shift p off)) <= val (dst st p) + rt (sq off))%R).
  Proof.
    induction offs' as [|off offs' IH]; intros st I O Hp Hsub; simpl.
    - split; [exact O|]. split; [intros; apply Rle_refl|]. split; [reflexivity|]. intros off [].
    - assert (Hoff : In off offs) by (apply Hsub; now left).
      destruct (relax_O p st off hist I O Hp Hoff) as (O1 & M1 & C1 & N1).
      pose proof (relax_safe xc_zero xc_add xc_sqrtZ xc_ofZ xc_ltb h w data barriers offs start goal p st off hist I Hp Hoff) as I1.
      destruct (IH (relaxf p st off) I1 O1 Hp (fun o Ho => Hsub o (or_intror Ho))) as (O2 & M2 & C2 & N2).
      assert (Hpc : cls st p = true) by (now apply (s_cls _ _ _ _ _ _ _ _ _ _ _ I)).
      split; [exact O2|]. split; [|split].
      + intros x Hx. eapply Rle_trans; [apply M2; now apply relax_seen_mono|now apply M1].
      + intros x Hx. rewrite C2 by (rewrite relax_cls; exact Hx). now apply C1.
      + intros o [<-|Ho] Hi Hf.
        * eapply Rle_trans; [apply M2; now apply relax_opens|now apply N1].
        * rewrite <- (C1 p Hpc). now apply N2.
  Qed.

  (* ---------- popping ---------- *)
  Lemma pop_O st hist p : InvS st hist -> InvO st hist -> opn st p = true ->
    (forall a b, route p a b -> (val (dst st p) <= v2 a b)%R) ->
    InvO (pop st p) (p :: hist).
  Proof.
    intros I O Hp Hopt.
    assert (Hseen : forall c, seen (pop st p) c -> seen st c).
    { intros c [Hc|Hc]; cbn [pop opn cls] in Hc.
      - destruct (cell_eqb_spec c p) as [->|Hne]; [rewrite upd_same in Hc; discriminate|].
        rewrite upd_other in Hc by auto. now left.
      - destruct (cell_eqb_spec c p) as [->|Hne]; [now left|].
        rewrite upd_other in Hc by auto. now right. }
    constructor; cbn [pop opn cls dst cst par].
    - intros c Hc. apply Hseen in Hc.
      destruct (o_dst _ _ O c Hc) as (a & b & Hd & Ha & Hb & Hr & Hle & Hlt).
      exists a, b. rewrite lenZ_cons. repeat split; auto; try lia.
    - intros c Hc. destruct (cell_eqb_spec c p) as [->|Hne]; [rewrite upd_same in Hc; discriminate|].
      rewrite upd_other in Hc by auto. now apply (o_cst _ _ O).
    - intros c a b [<-|Hc] Hr; [now apply Hopt|now apply (o_opt _ _ O)].
  Qed.

  (* ---------- cost of an open cell ---------- *)
  Lemma open_cost st hist o : InvO st hist -> opn st o = true ->
    wfx (cst st o) /\ (val (cst st o) = val (dst st o) + hR o goal)%R.
  Proof.
    intros O Ho. rewrite (o_cst _ _ O o Ho).
    destruct (o_dst _ _ O o (or_introl Ho)) as (a & b & Hd & _). rewrite Hd.
    rewrite dist_sqdist.
    destruct (xc_sqrtZ_spec (sqdist o goal) (sqdist_nonneg o goal)) as [W V].
    destruct (xc_add_pure_l a b _ W) as [W' V']. split; [exact W'|].
    rewrite V', V, val_pure. reflexivity.
  Qed.

  (* ---------- _min_cost_pixel_id picks an open cell of minimum cost ---------- *)
  Lemma min_cost_pixel_spec st hist : InvS st hist -> InvO st hist ->
    let p := min_cost_pixel xc_ofZ xc_ltb h w st in
    (p = NONEc /\ forall o, opn st o = true -> (IZR (min_cost_init h w) <= val (cst st o))%R) \/
    (opn st p = true /\ forall o, opn st o = true -> (val (cst st p) <= val (cst st o))%R).
  Proof.
    intros I O. cbv zeta. unfold min_cost_pixel.
    set (init := xc_ofZ (min_cost_init h w)).
    assert (Hinit : wfx init /\ val init = IZR (min_cost_init h w)).
    { unfold init, xc_ofZ, wfx, val, v2. cbn [snd]. rewrite rt_0. split; [lia|]. simpl. lra. }
    assert (G : forall l acc,
      (wfx (fst acc) /\ ((snd acc = NONEc /\ fst acc = init) \/ (opn st (snd acc) = true /\ fst acc = cst st (snd acc)))) ->
      forall vis, (forall o, In o vis -> opn st o = true -> (val (fst acc) <= val (cst st o))%R) ->
      let r := fold_left (min_step xc_ltb st) l acc in
      (wfx (fst r) /\ ((snd r = NONEc /\ fst r = init) \/ (opn st (snd r) = true /\ fst r = cst st (snd r)))) /\
      (forall o, In o (vis ++ l) -> opn st o = true -> (val (fst r) <= val (cst st o))%R)).
    { induction l as [|c l IH]; intros acc Hacc vis Hvis; simpl.
      - split; [exact Hacc|]. rewrite app_nil_r. exact Hvis.
      - replace (vis ++ c :: l) with ((vis ++ [c]) ++ l) by (rewrite <- app_assoc; reflexivity).
        destruct Hacc as [Wacc Hacc].
        apply IH; unfold min_step.
        + destruct (opn st c) eqn:Eo; cbn [andb]; [|split; assumption].
          destruct (xc_ltb (cst st c) (fst acc)) eqn:El; [|split; assumption].
          cbn [fst snd]. split; [apply (open_cost st hist c O Eo)|]. right. split; [exact Eo|reflexivity].
        + intros o Ho Hoo. apply in_app_or in Ho as [Ho|[<-|[]]].
          * destruct (opn st c) eqn:Eo; cbn [andb]; [|now apply Hvis].
            destruct (xc_ltb (cst st c) (fst acc)) eqn:El; [|now apply Hvis].
            cbn [fst]. apply xc_ltb_spec in El; [|apply (open_cost st hist c O Eo)|exact Wacc].
            specialize (Hvis o Ho Hoo). lra.
          * rewrite Hoo. cbn [andb].
            destruct (xc_ltb (cst st c) (fst acc)) eqn:El; [cbn [fst]; apply Rle_refl|].
            apply xc_ltb_false in El; [exact El|apply (open_cost st hist c O Hoo)|exact Wacc]. }
    destruct (G (cells h w) (init, NONEc)) with (vis := @nil cell) as [[_ H1] H2].
    - cbn [fst snd]. split; [apply Hinit|]. left. split; reflexivity.
    - intros o [].
    - simpl app in H2.
      assert (H3 : forall o, opn st o = true ->
         (val (fst (fold_left (min_step xc_ltb st) (cells h w) (init, NONEc))) <= val (cst st o))%R).
      { intros o Ho. apply H2; [|exact Ho]. apply cells_In.
        now apply (s_opn _ _ _ _ _ _ _ _ _ _ _ I). }
      destruct H1 as [[E1 E2]|[E1 E2]].
      + left. split; [exact E1|]. intros o Ho. specialize (H3 o Ho). rewrite E2 in H3.
        destruct Hinit as [_ Hv]. rewrite Hv in H3. exact H3.
      + right. split; [exact E1|]. intros o Ho. specialize (H3 o Ho). rewrite E2 in H3. exact H3.
  Qed.

  (* ---------- the key step: the popped cell has its final distance ---------- *)
  Lemma frontier st hist : InvS st hist -> InvF st hist -> InvO st hist -> InvR st hist ->
    forall c a b, route c a b ->
      In c hist \/ exists o, opn st o = true /\ (val (dst st o) + hR o goal <= v2 a b + hR c goal)%R.
  Proof.
    intros I F O R. induction 1 as [Hi Hf|c off a b Hr IH Hoff Hi Hf].
    - destruct (f_start _ _ _ _ _ _ _ _ _ F Hf) as [Ho|Hc].
      + right. exists start. split; [exact Ho|].
        destruct (s_start _ _ _ _ _ _ _ _ _ _ _ I (or_introl Ho)) as [_ Hd]. rewrite Hd.
        unfold xc_zero. rewrite val_pure. apply Rle_refl.
      + left. now apply (s_cls _ _ _ _ _ _ _ _ _ _ _ I).
    - pose proof (step_v2 off Hoff) as Hsv. rewrite v2_add, Hsv.
      assert (Htri : (hR c goal <= rt (sq off) + hR (shift c off) goal)%R).
      { pose proof (hR_triangle c (shift c off) goal) as T.
        assert (E : hR c (shift c off) = rt (sq off)).
        { unfold hR. f_equal. unfold sqdist, sq, shift. cbn [fst snd]. ring. }
        rewrite E in T. exact T. }
      destruct IH as [Hc|(o & Ho & Hle)].
      + pose proof (R c off Hc Hoff Hi Hf) as Hrel.
        pose proof (o_opt _ _ O c a b Hc Hr) as Hopt.
        destruct (f_front _ _ _ _ _ _ _ _ _ F c off Hc Hoff Hi Hf) as [Hopen|Hcl].
        * right. exists (shift c off). split; [exact Hopen|]. lra.
        * left. now apply (s_cls _ _ _ _ _ _ _ _ _ _ _ I).
      + right. exists o. split; [exact Ho|]. lra.
  Qed.

  Lemma pop_optimal st hist p : InvS st hist -> InvF st hist -> InvO st hist -> InvR st hist ->
    opn st p = true -> (forall o, opn st o = true -> (val (cst st p) <= val (cst st o))%R) ->
    forall a b, route p a b -> (val (dst st p) <= v2 a b)%R.
  Proof.
    intros I F O R Hp Hmin a b Hr.
    destruct (frontier st hist I F O R p a b Hr) as [Hc|(o & Ho & Hle)].
    - exfalso. apply (s_cls _ _ _ _ _ _ _ _ _ _ _ I) in Hc.
      destruct (s_opn _ _ _ _ _ _ _ _ _ _ _ I p Hp) as (_ & _ & Hn). congruence.
    - specialize (Hmin o Ho).
      destruct (open_cost st hist p O Hp) as [_ Vp]. destruct (open_cost st hist o O Ho) as [_ Vo].
      rewrite Vp, Vo in Hmin. lra.
  Qed.

  (* ---------- the "very big number" exceeds every cost ---------- *)
  Lemma open_cost_bound st hist o : InvS st hist -> InvO st hist -> inside goal -> opn st o = true ->
    (val (cst st o) < IZR (min_cost_init h w))%R.
  Proof.
    intros I O Hg Ho.
    destruct (open_cost st hist o O Ho) as [_ V]. rewrite V.
    destruct (o_dst _ _ O o (or_introl Ho)) as (a & b & Hd & Ha & Hb & _ & Hle & _).
    rewrite Hd, val_pure.
    destruct (s_opn _ _ _ _ _ _ _ _ _ _ _ I o Ho) as (Hoi & _ & Hoc).
    assert (Hlen : lenZ hist + 1 <= h * w).
    { assert (Hnd : NoDup (o :: hist)).
      { constructor; [|apply (s_nodup _ _ _ _ _ _ _ _ _ _ _ I)].
        rewrite <- (s_cls _ _ _ _ _ _ _ _ _ _ _ I). congruence. }
      assert (Hincl : incl (o :: hist) (cells h w)).
      { intros c [<-|Hc]; apply cells_In; [exact Hoi|]. now apply (s_hist _ _ _ _ _ _ _ _ _ _ _ I). }
      pose proof (NoDup_incl_length Hnd Hincl) as Hl. rewrite cells_length in Hl. simpl in Hl.
      destruct Hoi as [Hi1 Hi2]. unfold lenZ. nia. }
    pose proof (hR_bound o goal h w (proj1 Hoi) (proj2 Hoi) (proj1 Hg) (proj2 Hg)) as Hh.
    destruct Hoi as [Hi1 Hi2].
    assert (Hab : (v2 a b <= IZR (a + b) * s2)%R).
    { unfold v2. rewrite plus_IZR. pose proof s2_gt1. apply IZR_le in Ha. nra. }
    assert (Hab2 : (IZR (a + b) <= IZR (h * w - 1))%R) by (apply IZR_le; lia).
    assert (Hab0 : (0 <= IZR (a + b))%R) by (apply IZR_le; lia).
    pose proof s2_lt as Hs. pose proof s2_pos as Hs0.
    (* the only fact about the generated bound: an integer inequality *)
    assert (Hz : 3 * (h * w - 1) + 2 * (h + w - 2) < 2 * min_cost_init h w) by (unfold min_cost_init; nia).
    assert (Hfin : (IZR (h * w - 1) * (3 / 2) + IZR (h + w - 2) < IZR (min_cost_init h w))%R).
    { apply IZR_lt in Hz. rewrite plus_IZR, !mult_IZR in Hz. lra. }
    nra.
  Qed.

  (* ---------- reconstruction writes d_from_start, on closed cells only ---------- *)
  Lemma cell_eq_dec (x y : cell) : {x = y} + {x <> y}.
  Proof. destruct (cell_eqb_spec x y); [left|right]; assumption. Qed.

  Lemma reconstruct_goal st hist : InvS st (goal :: hist) ->
    exists img, reconstruct h w start goal st = Done img /\ img goal = Some (dst st goal) /\
                forall c v, img c = Some v -> v = dst st c /\ In c (goal :: hist).
  Proof.
    intros I. unfold reconstruct. cbv zeta.
    assert (Hg : In goal (goal :: hist)) by now left.
    assert (Hseen : seen st goal) by (right; now apply (s_cls _ _ _ _ _ _ _ _ _ _ _ I)).
    assert (Hpin : inside (par st goal)).
    { destruct (cell_eqb_spec goal start) as [Heq|Hne].
      - rewrite Heq in *. destruct (s_start _ _ _ _ _ _ _ _ _ _ _ I Hseen) as [-> _].
        now apply (s_hist _ _ _ _ _ _ _ _ _ _ _ I).
      - destruct (s_par _ _ _ _ _ _ _ _ _ _ _ I goal Hseen Hne) as (o & _ & _ & _ & Hp & _).
        now apply (s_hist _ _ _ _ _ _ _ _ _ _ _ I). }
    pose proof NONE_neg as Hn. destruct Hpin as [Hp1 Hp2].
    destruct (snd (par st goal) =? NONE) eqn:E1; [lia|].
    destruct (fst (par st goal) =? NONE) eqn:E2; [lia|]. cbn [negb andb].
    pose proof (hist_length xc_zero xc_add xc_sqrtZ h w data barriers offs start _ _ I) as Hlen. simpl in Hlen.
    destruct (walk_spec xc_zero xc_add xc_sqrtZ xc_ofZ xc_ltb h w data barriers offs start st _ I
                (S (Z.to_nat (h * w))) goal
                (upd (fun _ => None) start (Some (dst st start))) [] hist eq_refl)
      as (vis & img' & Hw & Hpc & Hin & Hout); [lia|].
    rewrite Hw. exists img'. split; [reflexivity|].
    assert (Hns : ~ In start vis) by (exact (pchain_no_start xc_zero xc_add xc_sqrtZ xc_ofZ xc_ltb h start st vis goal Hpc)).
    assert (Himg : forall c, In c (vis ++ [start]) -> img' c = Some (dst st c)).
    { intros c Hc. apply in_app_or in Hc as [Hc|[<-|[]]]; [now apply Hin|].
      rewrite Hout by auto. apply upd_same. }
    destruct (pchain_vchain xc_zero xc_add xc_sqrtZ h w data barriers offs start st _ img' I vis goal [] hist eq_refl Hpc Himg)
      as [_ Hsub].
    split.
    - inversion Hpc as [Hs|c l Hne Hp' Hc]; subst.
      + rewrite Hout by (intros []). apply upd_same.
      + apply Hin. now left.
    - intros c v Hc.
      assert (Hcv : In c (vis ++ [start])).
      { destruct (in_dec cell_eq_dec c vis) as [Hv|Hv]; [apply in_or_app; now left|].
        rewrite Hout in Hc by exact Hv.
        destruct (cell_eqb_spec c start) as [->|Hne]; [apply in_or_app; right; now left|].
        rewrite upd_other in Hc by auto. discriminate. }
      split; [|now apply Hsub].
      rewrite (Himg c Hcv) in Hc. now inversion Hc.
  Qed.

  (* ---------- the main loop ---------- *)
  Definition postO (o : outcome xc) : Prop :=
    match o with
    | OutOfFuel => True
    | Stuck => ~ inside goal
    | Done img =>
      ((forall c, img c = None) \/
       (exists a b, img goal = Some (a, b, 0) /\ route goal a b /\ a + b <= h * w /\
                    forall a' b', route goal a' b' -> (v2 a b <= v2 a' b')%R)) /\
      (* every value written on the path is the least route cost to that cell *)
      (forall c v, img c = Some v ->
         exists a b, v = (a, b, 0) /\ route c a b /\ forall a' b', route c a' b' -> (v2 a b <= v2 a' b')%R)
    end.

  Lemma loop_opt : forall fuel st hist,
    InvS st hist -> InvF st hist -> InvO st hist -> InvR st hist ->
    postO (search_loop xc_add xc_sqrtZ xc_ofZ xc_ltb h w data barriers offs start goal fuel st).
  Proof.
    induction fuel as [|f IH]; intros st hist I F O R; [exact Logic.I|].
    simpl. destruct (any_open h w st) eqn:Eo; [|split; [left; reflexivity|intros c v Hc; discriminate]].
    pose proof (min_cost_pixel_spec st hist I O) as Hmin. cbv zeta in Hmin.
    set (p := min_cost_pixel xc_ofZ xc_ltb h w st) in *.
    pose proof NONE_neg as Hneg.
    destruct (fst p =? NONE) eqn:En.
    - (* Stuck: impossible when the goal is in the grid *)
      intros Hg. unfold any_open in Eo. apply existsb_exists in Eo as (o & _ & Ho).
      pose proof (open_cost_bound st hist o I O Hg Ho) as Hb.
      destruct Hmin as [[_ Hm]|[Hp _]].
      + specialize (Hm o Ho). lra.
      + destruct (s_opn _ _ _ _ _ _ _ _ _ _ _ I p Hp) as ([Hi _] & _). lia.
    - destruct Hmin as [[Hp _]|[Hp Hm]]; [rewrite Hp in En; unfold NONEc in En; cbn [fst] in En; lia|].
      pose proof (pop_optimal st hist p I F O R Hp Hm) as Hopt.
      pose proof (pop_safe xc_zero xc_add xc_sqrtZ h w data barriers offs start _ _ _ I Hp) as I1.
      pose proof (pop_O st hist p I O Hp Hopt) as O1.
      destruct (cell_eqb_spec p goal) as [Hpg|Hpg].
      + rewrite Hpg in *.
        destruct (reconstruct_goal (pop st goal) hist I1) as (img & Hrec & Himg & Hall).
        rewrite Hrec. split; [right|].
        2:{ intros c v Hc. destruct (Hall c v Hc) as [-> Hch].
            assert (Hcc : cls (pop st goal) c = true) by (now apply (s_cls _ _ _ _ _ _ _ _ _ _ _ I1)).
            destruct (o_dst _ _ O1 c (or_intror Hcc)) as (a & b & Hd & _ & _ & Hr & _).
            exists a, b. split; [exact Hd|]. split; [exact Hr|].
            intros a' b' Hr'. pose proof (o_opt _ _ O1 c a' b' Hch Hr') as H1.
            rewrite Hd, val_pure in H1. exact H1. }
        assert (Hcl : cls (pop st goal) goal = true) by (cbn [pop cls]; apply upd_same).
        destruct (o_dst _ _ O1 goal (or_intror Hcl)) as (a & b & Hd & _ & _ & Hr & Hle & _).
        exists a, b. split; [rewrite Himg, Hd; reflexivity|]. split; [exact Hr|].
        split.
        { pose proof (hist_length xc_zero xc_add xc_sqrtZ h w data barriers offs start _ _ I1) as Hl.
          unfold lenZ in Hle. simpl length in Hl, Hle. lia. }
        intros a' b' Hr'. pose proof (o_opt _ _ O1 goal a' b' (or_introl eq_refl) Hr') as H1.
        rewrite Hd, val_pure in H1. exact H1.
      + assert (Hph : In p (p :: hist)) by now left.
        destruct (relax_fold xc_zero xc_add xc_sqrtZ xc_ofZ xc_ltb h w data barriers offs start goal
                    p (p :: hist) offs (pop st p) I1 Hph (fun o H => H)) as (I2 & Hmono & Hopen).
        destruct (relax_fold_O p (p :: hist) offs (pop st p) I1 O1 Hph (fun o H => H)) as (O2 & M2 & C2 & N2).
        apply (IH _ (p :: hist)); auto.
        * constructor.
          -- intros c off [<-|Hc] Hoff Hi Hf.
             ++ now apply Hopen.
             ++ apply Hmono. apply pop_seen; auto. now apply (f_front _ _ _ _ _ _ _ _ _ F).
          -- intros [Heq|Hg]; [congruence|]. now apply (f_goal _ _ _ _ _ _ _ _ _ F).
          -- intros Hf. apply Hmono. apply pop_seen; auto. now apply (f_start _ _ _ _ _ _ _ _ _ F).
        * intros c off Hc Hoff Hi Hf.
          assert (Hcc : cls (pop st p) c = true) by (now apply (s_cls _ _ _ _ _ _ _ _ _ _ _ I1)).
          rewrite (C2 c Hcc).
          destruct Hc as [<-|Hc].
          -- now apply N2.
          -- eapply Rle_trans.
             ++ apply M2. apply pop_seen; auto. now apply (f_front _ _ _ _ _ _ _ _ _ F).
             ++ cbn [pop dst]. now apply R.
  Qed.

  (* ---------- _a_star_search ---------- *)
  Lemma init_InvS : inside start ->
    InvS (init_state xc_zero xc_add xc_sqrtZ data barriers start goal) [].
  Proof.
    intros Hs. unfold init_state. cbv zeta.
    destruct (blocked data barriers start) eqn:Eb; simpl.
    - constructor; cbn [opn cls dst cst par]; try (intros; simpl in *; try tauto; try discriminate).
      + split; [discriminate|tauto].
      + constructor.
      + destruct H as [H|H]; discriminate.
      + destruct H as [H|H]; discriminate.
      + destruct H as [H|H]; discriminate.
    - assert (Hopen : forall c, upd (fun _ : cell => false) start true c = true -> c = start).
      { intros c Hc. destruct (cell_eqb_spec c start); auto. rewrite upd_other in Hc by auto. discriminate. }
      constructor; cbn [opn cls dst cst par]; try (intros; simpl in *; try tauto; try discriminate).
      + split; [discriminate|tauto].
      + constructor.
      + apply Hopen in H. subst. repeat split; auto; apply Hs.
      + destruct H as [H|H]; [|discriminate]. apply Hopen in H. contradiction.
      + split; apply upd_same.
      + destruct H as [H|H]; [|discriminate]. left. now apply Hopen.
  Qed.

  Lemma init_InvF : InvF (init_state xc_zero xc_add xc_sqrtZ data barriers start goal) [].
  Proof.
    constructor.
    - intros c off [].
    - intros [].
    - intros Hf. left. unfold init_state. cbv zeta. unfold Proofs.free in Hf. rewrite Hf. simpl. apply upd_same.
  Qed.

  Lemma init_InvO : inside start ->
    InvO (init_state xc_zero xc_add xc_sqrtZ data barriers start goal) [].
  Proof.
    intros Hs. unfold init_state. cbv zeta.
    destruct (blocked data barriers start) eqn:Eb; cbn [negb].
    - constructor; cbn [opn cls dst cst par].
      + intros c [H|H]; discriminate.
      + intros c H; discriminate.
      + intros c a b [].
    - assert (Hopen : forall c, upd (fun _ : cell => false) start true c = true -> c = start).
      { intros c Hc. destruct (cell_eqb_spec c start); auto. rewrite upd_other in Hc by auto. discriminate. }
      constructor; cbn [opn cls dst cst par].
      + intros c [H|H]; [|discriminate]. apply Hopen in H. subst c.
        exists 0, 0. rewrite upd_same. split; [reflexivity|]. split; [lia|]. split; [lia|].
        split; [now constructor|]. split; [unfold lenZ; simpl; lia|discriminate].
      + intros c H. apply Hopen in H. subst c. rewrite !upd_same. reflexivity.
      + intros c a b [].
  Qed.

  Theorem astar_kernel_opt : inside start ->
    postO (astar_kernel xc_zero xc_add xc_sqrtZ xc_ofZ xc_ltb h w data barriers offs start goal).
  Proof.
    intros Hs. unfold astar_kernel. apply (loop_opt _ _ []).
    - now apply init_InvS.
    - apply init_InvF.
    - now apply init_InvO.
    - intros c off [].
  Qed.
End Opt.

(* ---------- corollaries in the words of the property ---------- *)
Lemma offsets_of_unit conn : forall off, In off (offsets_of conn) -> sq off = 1 \/ sq off = 2.
Proof. intros off H. exact (proj1 (offsets_step_len conn off H)). Qed.

Lemma route_reach h w data barriers offs start c a b :
  route h w data barriers offs start c a b -> reach h w data barriers offs start c.
Proof. induction 1; [now constructor|now apply reach_step]. Qed.

Lemma reach_route h w data barriers offs start c :
  reach h w data barriers offs start c -> exists a b, route h w data barriers offs start c a b.
Proof.
  induction 1 as [Hi Hf|c off Hr (a & b & IH) Hoff Hi Hf].
  - exists 0, 0. now constructor.
  - eexists _, _. apply route_step; eauto.
Qed.

Lemma route_counts h w data barriers offs start c a b :
  route h w data barriers offs start c a b -> 0 <= a /\ 0 <= b.
Proof.
  induction 1 as [|c off a b Hr IH Hoff Hi Hf]; [lia|].
  unfold stepZ. destruct (sq off =? 1); cbn [fst snd]; lia.
Qed.

(* the goal value of a returned raster: NaN iff no route, otherwise the least route cost *)
Definition goal_optimal (h w : Z) (data : list (list xv)) (barriers : list xv) (offs : list (Z * Z))
           (s g : cell) (img : cell -> option xc) : Prop :=
  match img g with
  | None => forall a b, ~ route h w data barriers offs s g a b
  | Some v => exists a b, v = (a, b, 0) /\ route h w data barriers offs s g a b /\
                forall a' b', route h w data barriers offs s g a' b' ->
                  (IZR a + IZR b * sqrt 2 <= IZR a' + IZR b' * sqrt 2)%R /\ p2_ltb (a', b') (a, b) = false
  end.

Lemma p2_ltb_spec x y : p2_ltb x y = true <-> (v2 (fst x) (snd x) < v2 (fst y) (snd y))%R.
Proof.
  unfold p2_ltb. pose proof (sgn2_spec (fst x - fst y) (snd x - snd y)) as H. rewrite v2_sub in H.
  remember (sgn2 (fst x - fst y) (snd x - snd y)) as s eqn:Es. clear Es.
  destruct H as [H|H|H]; cbn; split; intros G; try discriminate; try reflexivity; lra.
Qed.

Lemma p2_ltb_false x y : p2_ltb x y = false <-> (v2 (fst y) (snd y) <= v2 (fst x) (snd x))%R.
Proof.
  pose proof (p2_ltb_spec x y) as H. destruct (p2_ltb x y); split; intros G; try discriminate; try reflexivity.
  - assert (v2 (fst x) (snd x) < v2 (fst y) (snd y))%R by (now apply H). lra.
  - apply Rnot_lt_le. intros L. apply H in L. discriminate.
Qed.

Lemma astar_goal_optimal h w data barriers conn s g img :
  inside h w s ->
  astar_kernel xc_zero xc_add xc_sqrtZ xc_ofZ xc_ltb h w data barriers (offsets_of conn) s g = Done img ->
  goal_optimal h w data barriers (offsets_of conn) s g img.
Proof.
  intros Hs Heq. unfold goal_optimal.
  pose proof (astar_kernel_opt h w data barriers (offsets_of conn) s g (offsets_of_unit conn) Hs) as HO.
  pose proof (astar_kernel_spec xc_zero xc_add xc_sqrtZ xc_ofZ xc_ltb h w data barriers (offsets_of conn) s g Hs) as HP.
  rewrite Heq in HO, HP. cbn [postO post] in HO, HP.
  destruct (img g) as [v|] eqn:Eg.
  - destruct HO as [[HO|(a & b & E & Hr & _ & Hopt)] _]; [rewrite HO in Eg; discriminate|].
    inversion E; subst v. exists a, b. split; [reflexivity|]. split; [exact Hr|].
    intros a' b' Hr'. specialize (Hopt a' b' Hr'). split; [exact Hopt|].
    apply p2_ltb_false. exact Hopt.
  - intros a b Hr. destruct HP as [(l & Hv & Hin & _)|[_ Hn]].
    + destruct (vchain_head _ _ _ _ _ _ _ _ _ _ _ _ Hv) as (l' & ->).
      apply (proj2 (Hin g)); [now left|exact Eg].
    + apply Hn. eapply route_reach; eauto.
Qed.

(* every value on the returned path — not only the goal's — is the least route cost to its cell *)
Lemma astar_path_optimal h w data barriers conn s g img :
  inside h w s ->
  astar_kernel xc_zero xc_add xc_sqrtZ xc_ofZ xc_ltb h w data barriers (offsets_of conn) s g = Done img ->
  forall c v, img c = Some v ->
    exists a b, v = (a, b, 0) /\ route h w data barriers (offsets_of conn) s c a b /\
      forall a' b', route h w data barriers (offsets_of conn) s c a' b' ->
        (IZR a + IZR b * sqrt 2 <= IZR a' + IZR b' * sqrt 2)%R /\ p2_ltb (a', b') (a, b) = false.
Proof.
  intros Hs Heq c v Hc.
  pose proof (astar_kernel_opt h w data barriers (offsets_of conn) s g (offsets_of_unit conn) Hs) as HO.
  rewrite Heq in HO. cbn [postO] in HO. destruct HO as [_ HO].
  destruct (HO c v Hc) as (a & b & -> & Hr & Hopt).
  exists a, b. split; [reflexivity|]. split; [exact Hr|].
  intros a' b' Hr'. specialize (Hopt a' b' Hr'). split; [exact Hopt|].
  apply p2_ltb_false. exact Hopt.
Qed.

Lemma astar_never_stuck h w data barriers conn s g :
  inside h w s -> inside h w g ->
  astar_kernel xc_zero xc_add xc_sqrtZ xc_ofZ xc_ltb h w data barriers (offsets_of conn) s g <> Stuck.
Proof.
  intros Hs Hg Heq.
  pose proof (astar_kernel_opt h w data barriers (offsets_of conn) s g (offsets_of_unit conn) Hs) as HO.
  rewrite Heq in HO. cbn [postO] in HO. now apply HO.
Qed.

(* a blocked start: nothing is ever opened *)
Lemma astar_blocked_start {C} (zero : C) add sqrtZ ofZ ltb h w data barriers offs s g :
  blocked data barriers s = true ->
  astar_kernel zero add sqrtZ ofZ ltb h w data barriers offs s g = Done (fun _ => None).
Proof.
  intros Hb. unfold astar_kernel, init_state. cbv zeta. rewrite Hb. cbn [negb search_loop].
  unfold any_open. cbn [opn].
  assert (E : forall l : list cell, existsb (fun _ : cell => false) l = false) by (induction l; simpl; auto).
  rewrite E. reflexivity.
Qed.

(* a_star_search after the coordinate conversion never reaches Stuck, snapping on or off *)
Lemma a_star_cells_never_stuck h w data barriers conn (ss sg : bool) s g :
  xc_astar h w data barriers conn ss sg s g <> ROut Stuck.
Proof.
  unfold xc_astar, a_star_cells.
  destruct (is_inside h w s) eqn:Es; cbn [negb]; [|discriminate].
  destruct (is_inside h w g) eqn:Eg; cbn [negb]; [|discriminate].
  apply is_inside_spec in Es. apply is_inside_spec in Eg.
  set (s' := if ss then find_nearest xc_sqrtZ xc_ltb h w data barriers s else s).
  set (g' := if sg then find_nearest xc_sqrtZ xc_ltb h w data barriers g else g).
  destruct (fst s' =? NONE) eqn:En; cbn [negb]; [discriminate|].
  assert (Hs' : inside h w s').
  { unfold s' in *. destruct ss; [|exact Es].
    destruct (find_nearest_inside xc_sqrtZ xc_ltb h w data barriers s Es) as [H|H]; [|exact H].
    rewrite H in En. unfold NONEc in En. cbn [fst] in En. lia. }
  assert (Hg' : inside h w g' \/ blocked data barriers s' = true).
  { unfold g'. destruct sg; [|now left].
    destruct (find_nearest_inside xc_sqrtZ xc_ltb h w data barriers g Eg) as [H|H]; [|now left].
    right. pose proof (find_nearest_spec xc_sqrtZ xc_ltb xc_ltb_sqrt h w data barriers g) as [H1 H2].
    cbv zeta in H1, H2.
    destruct (blocked data barriers g) eqn:Eb.
    - destruct (H2 eq_refl) as [[Hall _]|(s1 & s2 & Hc & _)].
      + apply Hall. now apply cells_In.
      + exfalso. assert (Hin : In (find_nearest xc_sqrtZ xc_ltb h w data barriers g) (cells h w)).
        { rewrite Hc. apply in_or_app. right. now left. }
        apply cells_In in Hin. rewrite H in Hin. unfold NONEc in Hin. cbn [fst snd] in Hin.
        pose proof NONE_neg. lia.
    - exfalso. rewrite (H1 eq_refl) in H. rewrite H in Eg. destruct Eg as [Eg _].
      unfold NONEc in Eg. cbn [fst] in Eg. pose proof NONE_neg. lia. }
  intros Heq. inversion Heq as [Hk]. destruct Hg' as [Hg'|Hb].
  - revert Hk. now apply astar_never_stuck.
  - rewrite (astar_blocked_start _ _ _ _ _ _ _ _ _ _ _ _ Hb) in Hk. discriminate.
Qed.

(* a_star_search after the coordinate conversion: the kernel runs on the snapped cells and its goal value is optimal *)
Lemma a_star_cells_optimal h w data barriers conn (ss sg : bool) (s g : cell) :
  is_inside h w s = true -> is_inside h w g = true ->
  let s' := if ss then find_nearest xc_sqrtZ xc_ltb h w data barriers s else s in
  let g' := if sg then find_nearest xc_sqrtZ xc_ltb h w data barriers g else g in
  exists img, xc_astar h w data barriers conn ss sg s g = ROut (Done img) /\
    (s' = NONEc -> forall c, img c = None) /\
    (s' <> NONEc -> inside h w s' /\ goal_optimal h w data barriers (offsets_of conn) s' g' img).
Proof.
  intros Hs Hg. cbv zeta.
  pose proof (a_star_cells_never_stuck h w data barriers conn ss sg s g) as Hns.
  unfold xc_astar, a_star_cells in *. rewrite Hs, Hg in *. cbn [negb] in *.
  set (s' := if ss then find_nearest xc_sqrtZ xc_ltb h w data barriers s else s) in *.
  set (g' := if sg then find_nearest xc_sqrtZ xc_ltb h w data barriers g else g) in *.
  assert (Hs' : s' = NONEc \/ inside h w s').
  { unfold s'. destruct ss; [|right; now apply is_inside_spec].
    apply find_nearest_inside. now apply is_inside_spec. }
  destruct Hs' as [Hn|Hi].
  - rewrite Hn. unfold NONEc. cbn [fst]. rewrite Z.eqb_refl. cbn [negb].
    eexists. split; [reflexivity|]. split; [reflexivity|]. intros H. now elim H.
  - assert (Hne : (fst s' =? NONE) = false) by (pose proof NONE_neg; destruct Hi; lia).
    rewrite Hne in *. cbn [negb] in *.
    pose proof (astar_kernel_spec xc_zero xc_add xc_sqrtZ xc_ofZ xc_ltb h w data barriers (offsets_of conn) s' g' Hi) as HP.
    destruct (astar_kernel xc_zero xc_add xc_sqrtZ xc_ofZ xc_ltb h w data barriers (offsets_of conn) s' g') as [| |img] eqn:Ek.
    + destruct HP.
    + exfalso. now apply Hns.
    + exists img. split; [reflexivity|]. split.
      * intros Hn. rewrite Hn in Hne. unfold NONEc in Hne. cbn [fst] in Hne. rewrite Z.eqb_refl in Hne. discriminate.
      * intros _. split; [exact Hi|]. now apply astar_goal_optimal.
Qed.

Lemma route_step' h w data barriers offs start c off a b c' a' b' :
  route h w data barriers offs start c a b -> In off offs ->
  c' = shift c off -> a' = a + fst (stepZ off) -> b' = b + snd (stepZ off) ->
  inside h w c' -> free data barriers c' -> route h w data barriers offs start c' a' b'.
Proof. intros Hr Ho -> -> -> Hi Hf. now apply route_step. Qed.
