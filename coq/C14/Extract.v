Require Import Extraction ExtrOcamlBasic ExtrOCamlFloats.
Require Import Base.Prelude Base.XVal C14.Generated C14.Model.
Extraction Language OCaml.
Extraction "model.ml" F.a_star F.f_astar_cells F.f_img_list F.pixel_axis
  xc_astar xc_img_list sgn3 sgn2 pixel_idx bf_min offsets_of.
