(* C14/PropsOptimal.v — claimed theorems: UNBOUNDED optimality of the A* model at the exact
   cost instance, unreachability of the Stuck outcome, and the meaning of the exact order.
   Vocabulary (ProofsOptimal.v / OrderR.v):
     route h w data barriers offs s c a b
                        there is a route of in-grid crossable cells from s to c, every step one of
                        the offsets, with a unit steps and b diagonal steps — its cost is a + b sqrt2
     goal_optimal ... s g img
                        img g = None   and no route s -> g exists, or
                        img g = Some (a, b, 0), a route s -> g of cost a + b sqrt2 exists, and every
                        route s -> g of cost a' + b' sqrt2 has  a + b sqrt2 <= a' + b' sqrt2
                        (as real numbers, and as decided by Model.p2_ltb)
     sqdist c g         (cx - gx)^2 + (cy - gy)^2
   These theorems use Coq's classical real numbers (Reals) to give the order of the exact
   instance its meaning; Print Assumptions lists the three standard axioms of that library. *)
Require Import Base.Prelude Base.XVal.
Require Import C14.Generated C14.Model C14.Proofs C14.Snap C14.Bounded C14.Props.
Require Import Reals.
Require Import C14.OrderR C14.ProofsOptimal C14.ProofsBF.

(* ---- the exact cost instance means what it says ---- *)
(* xc_ltb on triples (a, b, n) = a + b sqrt2 + sqrt n  IS the strict order of the reals *)
Theorem C14_exact_order_is_real_order : forall a b n a' b' n', 0 <= n -> 0 <= n' ->
  (xc_ltb (a, b, n) (a', b', n') = true <->
   (IZR a + IZR b * sqrt 2 + sqrt (IZR n) < IZR a' + IZR b' * sqrt 2 + sqrt (IZR n'))%R).
Proof. intros a b n a' b' n' H H'. exact (xc_ltb_spec (a, b, n) (a', b', n') H H'). Qed.
Print Assumptions C14_exact_order_is_real_order.

(* p2_ltb on pairs (a, b) = a + b sqrt2 (the order of the bounded theorem's reference) likewise *)
Theorem C14_exact_pair_order_is_real_order : forall a b a' b',
  p2_ltb (a, b) (a', b') = true <-> (IZR a + IZR b * sqrt 2 < IZR a' + IZR b' * sqrt 2)%R.
Proof. intros a b a' b'. exact (p2_ltb_spec (a, b) (a', b')). Qed.
Print Assumptions C14_exact_pair_order_is_real_order.

(* xc_sqrtZ n denotes sqrt n; xc_add adds when the left operand carries no root (all the search does) *)
Theorem C14_exact_sqrt_add_are_real : forall n, 0 <= n ->
  (let '(a, b, m) := xc_sqrtZ n in 0 <= m /\ (IZR a + IZR b * sqrt 2 + sqrt (IZR m) = sqrt (IZR n))%R) /\
  (forall a b a' b' n', 0 <= n' ->
     let '(c, d, m) := xc_add (a, b, 0) (a', b', n') in
     0 <= m /\ (IZR c + IZR d * sqrt 2 + sqrt (IZR m) =
                (IZR a + IZR b * sqrt 2) + (IZR a' + IZR b' * sqrt 2 + sqrt (IZR n')))%R).
Proof.
  intros n Hn. split.
  - pose proof (xc_sqrtZ_spec n Hn) as [W V]. destruct (xc_sqrtZ n) as [[a b] m]. exact (conj W V).
  - intros a b a' b' n' Hn'. exact (xc_add_pure_l a b (a', b', n') Hn').
Qed.
Print Assumptions C14_exact_sqrt_add_are_real.

(* the heuristic the code uses (Euclidean distance to the goal) is consistent: for ANY cells c, n
   and goal g,  h(c) <= |c n| + h(n)  — in particular for every generated neighbour offset *)
Theorem C14_heuristic_consistent : forall c n g : cell,
  (sqrt (IZR (sqdist c g)) <= sqrt (IZR (sqdist c n)) + sqrt (IZR (sqdist n g)))%R.
Proof. exact hR_triangle. Qed.
Print Assumptions C14_heuristic_consistent.

(* ---- optimality, all grids ---- *)
(* every grid, surface, barrier set, connectivity (anything but 8 selects the 4-table), start in the
   grid, any goal: when the search returns, the goal's value is NaN exactly when no route exists and is
   otherwise the MINIMUM cost over ALL routes of crossable cells from start to goal *)
Theorem C14_optimal : forall h w data barriers conn s g img,
  inside h w s ->
  astar_kernel xc_zero xc_add xc_sqrtZ xc_ofZ xc_ltb h w data barriers (offsets_of conn) s g = Done img ->
  match img g with
  | None => forall a b, ~ route h w data barriers (offsets_of conn) s g a b
  | Some v => exists a b, v = (a, b, 0) /\ route h w data barriers (offsets_of conn) s g a b /\
                forall a' b', route h w data barriers (offsets_of conn) s g a' b' ->
                  (IZR a + IZR b * sqrt 2 <= IZR a' + IZR b' * sqrt 2)%R /\ p2_ltb (a', b') (a, b) = false
  end.
Proof. exact astar_goal_optimal. Qed.
Print Assumptions C14_optimal.

(* (A5, as seen in the output) EVERY non-NaN value of the returned raster — each cell of the path, not
   only the goal — is the minimum cost over all routes from start to that cell *)
Theorem C14_path_values_optimal : forall h w data barriers conn s g img,
  inside h w s ->
  astar_kernel xc_zero xc_add xc_sqrtZ xc_ofZ xc_ltb h w data barriers (offsets_of conn) s g = Done img ->
  forall c v, img c = Some v ->
    exists a b, v = (a, b, 0) /\ route h w data barriers (offsets_of conn) s c a b /\
      forall a' b', route h w data barriers (offsets_of conn) s c a' b' ->
        (IZR a + IZR b * sqrt 2 <= IZR a' + IZR b' * sqrt 2)%R /\ p2_ltb (a', b') (a, b) = false.
Proof. exact astar_path_optimal. Qed.
Print Assumptions C14_path_values_optimal.

(* the "very big number" (height+width)**2 of _min_cost_pixel_id exceeds every cost of an open cell:
   with start and goal in the grid the search never reaches Stuck *)
Theorem C14_never_stuck : forall h w data barriers conn s g,
  inside h w s -> inside h w g ->
  astar_kernel xc_zero xc_add xc_sqrtZ xc_ofZ xc_ltb h w data barriers (offsets_of conn) s g <> Stuck.
Proof. exact astar_never_stuck. Qed.
Print Assumptions C14_never_stuck.

(* a_star_search after the coordinate conversion (in-grid end points, snapping on or off — a snapped
   goal may be NONE when nothing is crossable): always returns a raster, never Stuck / out of fuel,
   and the kernel's goal value is optimal for the snapped cells *)
Theorem C14_a_star_cells_optimal : forall h w data barriers conn (ss sg : bool) (s g : cell),
  is_inside h w s = true -> is_inside h w g = true ->
  let s' := if ss then find_nearest xc_sqrtZ xc_ltb h w data barriers s else s in
  let g' := if sg then find_nearest xc_sqrtZ xc_ltb h w data barriers g else g in
  exists img, xc_astar h w data barriers conn ss sg s g = ROut (Done img) /\
    (s' = NONEc -> forall c, img c = None) /\
    (s' <> NONEc -> inside h w s' /\ goal_optimal h w data barriers (offsets_of conn) s' g' img).
Proof. exact a_star_cells_optimal. Qed.
Print Assumptions C14_a_star_cells_optimal.

(* the statement of the bounded theorem (C14_bounded_optimal_small's check) for ALL grids, layouts,
   barrier sets: the goal value equals the Bellman-Ford minimum, NaN exactly when there is none, and
   the run is neither Stuck nor out of fuel.  (Props.C14_optimal_full_statement plus the premise that
   the goal lies in the grid — without it that statement is false, see the refutation below.) *)
Theorem C14_optimal_equals_bellman_ford : forall h w data barriers conn s g,
  inside h w s -> inside h w g ->
  match astar_kernel xc_zero xc_add xc_sqrtZ xc_ofZ xc_ltb h w data barriers (offsets_of conn) s g with
  | Done img =>
    match img g, bf_min h w data barriers (offsets_of conn) s g with
    | None, None => True
    | Some (a, b, n), Some (a', b') => a = a' /\ b = b' /\ n = 0
    | _, _ => False
    end
  | _ => False
  end.
Proof. exact astar_eq_bf. Qed.
Print Assumptions C14_optimal_equals_bellman_ford.

(* the Bellman-Ford reference is itself correct: every entry is the cost of a route, and is <= the
   cost of every route of at most h*w steps (any offset table) *)
Theorem C14_bellman_ford_correct : forall h w data barriers offs s,
  (forall c a b, bf_all h w data barriers offs s c = Some (a, b) -> route h w data barriers offs s c a b) /\
  (forall c a b, route h w data barriers offs s c a b -> a + b <= h * w ->
     exists a' b', bf_all h w data barriers offs s c = Some (a', b') /\
                   (IZR a' + IZR b' * sqrt 2 <= IZR a + IZR b * sqrt 2)%R).
Proof. exact bf_all_spec. Qed.
Print Assumptions C14_bellman_ford_correct.

(* the order premise of C14_snap_nearest holds of the exact instance, for all squared distances *)
Theorem C14_snap_nearest_exact : forall h w data barriers p,
  let r := find_nearest xc_sqrtZ xc_ltb h w data barriers p in
  (blocked data barriers p = false -> r = p) /\
  (blocked data barriers p = true ->
     ((forall c, In c (cells h w) -> blocked data barriers c = true) /\ r = NONEc) \/
     (exists s1 s2, cells h w = s1 ++ r :: s2 /\ blocked data barriers r = false /\
        (forall c, In c s1 -> blocked data barriers c = false -> sqd r p < sqd c p) /\
        (forall c, In c s2 -> blocked data barriers c = false -> sqd r p <= sqd c p))).
Proof. exact (C14_snap_nearest xc xc_sqrtZ xc_ltb xc_ltb_sqrt). Qed.
Print Assumptions C14_snap_nearest_exact.

(* ---- non-vacuity and refutations ---- *)
(* 3x3 surface with a barrier in the middle, 8-connectivity, (0,0) -> (2,2): the search returns
   2 + sqrt2 at the goal; a route of that cost exists, and so does a strictly dearer one (4 unit
   steps along the border), so the minimality clause quantifies over a non-trivial set *)
Example C14_optimal_nonvacuous :
  let data := [[XFin 1; XFin 1; XFin 1]; [XFin 1; XFin 0; XFin 1]; [XFin 1; XFin 1; XFin 1]] in
  inside 3 3 (0, 0) /\ inside 3 3 (2, 2) /\
  (exists img, astar_kernel xc_zero xc_add xc_sqrtZ xc_ofZ xc_ltb 3 3 data [XFin 0] (offsets_of 8) (0, 0) (2, 2) = Done img /\
               img (2, 2) = Some (2, 1, 0)) /\
  route 3 3 data [XFin 0] (offsets_of 8) (0, 0) (2, 2) 2 1 /\
  route 3 3 data [XFin 0] (offsets_of 8) (0, 0) (2, 2) 4 0 /\
  p2_ltb (2, 1) (4, 0) = true /\
  bf_min 3 3 data [XFin 0] (offsets_of 8) (0, 0) (2, 2) = Some (2, 1).
Proof.
  cbv zeta. split; [unfold inside; simpl; lia|]. split; [unfold inside; simpl; lia|].
  split; [eexists; split; [vm_compute; reflexivity|vm_compute; reflexivity]|].
  assert (R0 : route 3 3 [[XFin 1; XFin 1; XFin 1]; [XFin 1; XFin 0; XFin 1]; [XFin 1; XFin 1; XFin 1]]
                     [XFin 0] (offsets_of 8) (0, 0) (0, 0) 0 0).
  { constructor; [unfold inside; simpl; lia|reflexivity]. }
  split; [|split; [|split; vm_compute; reflexivity]].
  - (* (0,0) -> (1,0) -> (2,1) -> (2,2) *)
    eapply (route_step' _ _ _ _ _ _ (2, 1) (0, 1) 1 1); [|simpl; tauto|reflexivity|reflexivity|reflexivity|unfold inside; simpl; lia|reflexivity].
    eapply (route_step' _ _ _ _ _ _ (1, 0) (1, 1) 1 0); [|simpl; tauto|reflexivity|reflexivity|reflexivity|unfold inside; simpl; lia|reflexivity].
    eapply (route_step' _ _ _ _ _ _ (0, 0) (1, 0) 0 0); [exact R0|simpl; tauto|reflexivity|reflexivity|reflexivity|unfold inside; simpl; lia|reflexivity].
  - (* (0,0) -> (0,1) -> (0,2) -> (1,2) -> (2,2) *)
    eapply (route_step' _ _ _ _ _ _ (1, 2) (1, 0) 3 0); [|simpl; tauto|reflexivity|reflexivity|reflexivity|unfold inside; simpl; lia|reflexivity].
    eapply (route_step' _ _ _ _ _ _ (0, 2) (1, 0) 2 0); [|simpl; tauto|reflexivity|reflexivity|reflexivity|unfold inside; simpl; lia|reflexivity].
    eapply (route_step' _ _ _ _ _ _ (0, 1) (0, 1) 1 0); [|simpl; tauto|reflexivity|reflexivity|reflexivity|unfold inside; simpl; lia|reflexivity].
    eapply (route_step' _ _ _ _ _ _ (0, 0) (0, 1) 0 0); [exact R0|simpl; tauto|reflexivity|reflexivity|reflexivity|unfold inside; simpl; lia|reflexivity].
Qed.

(* the exact order on values with roots: sqrt5 < 1 + sqrt2 < sqrt8 = 2 sqrt2, and 1 + sqrt 2 is not below itself *)
Example C14_exact_order_nonvacuous :
  xc_ltb (0, 0, 5) (1, 1, 0) = true /\ xc_ltb (1, 1, 0) (xc_sqrtZ 8) = true /\ xc_sqrtZ 8 = (0, 2, 0) /\
  xc_ltb (1, 1, 0) (1, 1, 0) = false /\ xc_ltb (0, 0, 7) (0, 0, 5) = false.
Proof. vm_compute. repeat split; reflexivity. Qed.

(* Props.C14_never_stuck_full_statement and Props.C14_optimal_full_statement omit the premise that
   the GOAL lies in the grid (the kernel's caller guarantees it).  Without it they are false: on a
   1x1 surface with the goal 5 rows away the start's cost 5 is not below (1+1)^2 = 4 and
   _min_cost_pixel_id answers NONE with a cell open. *)
Example C14_never_stuck_full_statement_refuted : ~ C14_never_stuck_full_statement.
Proof.
  intros H. apply (H 1 1 [[XFin 1]] [] 4 (0, 0) (5, 0)); [unfold inside; simpl; lia|].
  vm_compute. reflexivity.
Qed.

Example C14_optimal_full_statement_refuted : ~ C14_optimal_full_statement.
Proof.
  intros H. specialize (H 1 1 [[XFin 1]] [] 4 (0, 0) (5, 0)).
  assert (Hi : inside 1 1 (0, 0)) by (unfold inside; simpl; lia).
  specialize (H Hi). vm_compute in H. exact H.
Qed.
