(* C14/ProofsBF.v — the Bellman-Ford reference of Model.v (bf_min, used by the bounded
   optimality theorem) is itself correct: after k rounds every table entry is the cost
   of a route, and is <= the cost of every route of at most k steps.  Together with
   ProofsOptimal (the A* value is the cost of a route of < h*w steps and is <= every
   route) the two agree on every grid: the unbounded form of C14_bounded_optimal_small. *)
Require Import Base.Prelude Base.XVal.
Require Import C14.Generated C14.Model C14.Proofs C14.Snap.
Require Import Reals Lra.
Require Import C14.OrderR C14.ProofsOptimal.

Lemma nthZ_ziota d s n i : 0 <= i < Z.of_nat n -> nthZ d (ziota s n) i = s + i.
Proof.
  revert s i. induction n as [|n IH]; intros s i H; [lia|].
  simpl ziota. destruct (Z.eq_dec i 0) as [->|Hne].
  - rewrite nthZ_cons_0. lia.
  - rewrite nthZ_cons_S by lia. rewrite IH by lia. lia.
Qed.

Lemma tabulate_inside h w d c : inside h w c -> tabulate h w d c = d c.
Proof.
  intros [H1 H2]. unfold tabulate.
  assert (Hi : is_inside h w c = true) by (apply is_inside_spec; split; assumption).
  rewrite Hi.
  rewrite (nthZ_map _ 0 []) by (unfold lenZ; rewrite ziota_length; lia).
  rewrite (nthZ_map _ 0 None) by (unfold lenZ; rewrite ziota_length; lia).
  rewrite !nthZ_ziota by lia. destruct c as [i j]. reflexivity.
Qed.

Lemma tabulate_outside h w d c : is_inside h w c = false -> tabulate h w d c = None.
Proof. intros H. unfold tabulate. now rewrite H. Qed.

Lemma p2_step_stepZ off : p2_step off = stepZ off.
Proof. unfold p2_step, stepZ, sq. rewrite !Z.pow_2_r. reflexivity. Qed.

(* x is a table entry that is at most a + b sqrt2 *)
Definition ole (x : option p2) (a b : Z) : Prop :=
  exists a' b', x = Some (a', b') /\ (v2 a' b' <= v2 a b)%R.

Lemma ole_mono x a b a2 b2 : ole x a b -> (v2 a b <= v2 a2 b2)%R -> ole x a2 b2.
Proof. intros (a' & b' & E & L) H. exists a', b'. split; [exact E|lra]. Qed.

Lemma p2_min_cases x y : p2_min x y = x \/ p2_min x y = y.
Proof.
  destruct x as [[a1 b1]|], y as [[a2 b2]|]; simpl; auto.
  destruct (p2_ltb (a2, b2) (a1, b1)); auto.
Qed.

Lemma p2_min_l x y a b : ole x a b -> ole (p2_min x y) a b.
Proof.
  intros (a' & b' & -> & L). destruct y as [[a2 b2]|]; simpl.
  - destruct (p2_ltb (a2, b2) (a', b')) eqn:E.
    + apply p2_ltb_spec in E. cbn [fst snd] in E. exists a2, b2. split; [reflexivity|lra].
    + exists a', b'. split; [reflexivity|exact L].
  - exists a', b'. split; [reflexivity|exact L].
Qed.

Lemma p2_min_r x y a b : ole y a b -> ole (p2_min x y) a b.
Proof.
  intros (a' & b' & -> & L). destruct x as [[a1 b1]|]; simpl.
  - destruct (p2_ltb (a', b') (a1, b1)) eqn:E.
    + exists a', b'. split; [reflexivity|exact L].
    + apply p2_ltb_false in E. cbn [fst snd] in E. exists a1, b1. split; [reflexivity|lra].
  - exists a', b'. split; [reflexivity|exact L].
Qed.

Section BF.
  Variables (h w : Z) (data : list (list xv)) (barriers : list xv).
  Variable offs : list (Z * Z).
  Variable s : cell.

  Notation route := (route h w data barriers offs s).
  Notation stepf d c := (fun (best : option p2) (off : Z * Z) =>
           let q := (fst c - fst off, snd c - snd off) in
           match d q with
           | None => best
           | Some (a, b) => p2_min best (Some (a + fst (p2_step off), b + snd (p2_step off)))
           end).

  Definition sound (d : cell -> option p2) : Prop := forall c a b, d c = Some (a, b) -> route c a b.
  Definition complete (k : Z) (d : cell -> option p2) : Prop :=
    forall c a b, route c a b -> a + b <= k -> ole (d c) a b.

  Lemma shift_back (c : cell) off : shift (fst c - fst off, snd c - snd off) off = c.
  Proof. destruct c as [i j]. unfold shift. cbn [fst snd]. f_equal; lia. Qed.

  Lemma fold_choice (P : option p2 -> Prop) d c : forall offs' best,
    P best ->
    (forall off a b, In off offs' -> d (fst c - fst off, snd c - snd off) = Some (a, b) ->
                     P (Some (a + fst (p2_step off), b + snd (p2_step off)))) ->
    P (fold_left (stepf d c) offs' best).
  Proof.
    induction offs' as [|off offs' IH]; intros best Hb Hc; simpl; [exact Hb|].
    apply IH.
    - destruct (d (fst c - fst off, snd c - snd off)) as [[a b]|] eqn:E; [|exact Hb].
      destruct (p2_min_cases best (Some (a + fst (p2_step off), b + snd (p2_step off)))) as [->| ->]; [exact Hb|].
      apply (Hc off a b); [now left|exact E].
    - intros o a b Ho. apply Hc. now right.
  Qed.

  Lemma fold_le_best d c a b : forall offs' best, ole best a b -> ole (fold_left (stepf d c) offs' best) a b.
  Proof.
    induction offs' as [|off offs' IH]; intros best Hb; simpl; [exact Hb|].
    apply IH. destruct (d (fst c - fst off, snd c - snd off)) as [[a' b']|]; [now apply p2_min_l|exact Hb].
  Qed.

  Lemma fold_le_cand d c : forall offs' best off a b, In off offs' ->
    d (fst c - fst off, snd c - snd off) = Some (a, b) ->
    ole (fold_left (stepf d c) offs' best) (a + fst (p2_step off)) (b + snd (p2_step off)).
  Proof.
    induction offs' as [|o offs' IH]; intros best off a b Hin E; [destruct Hin|]. simpl.
    destruct Hin as [->|Hin].
    - apply fold_le_best. rewrite E. apply p2_min_r. eexists _, _. split; [reflexivity|apply Rle_refl].
    - now apply IH.
  Qed.

  Notation round d := (tabulate h w (bf_round h w data barriers offs d)).

  Lemma round_sound d : sound d -> sound (round d).
  Proof.
    intros S c a b H.
    destruct (is_inside h w c) eqn:Ei; [|rewrite tabulate_outside in H by exact Ei; discriminate].
    assert (Hi : inside h w c) by (now apply is_inside_spec).
    rewrite tabulate_inside in H by exact Hi. unfold bf_round in H. rewrite Ei in H. cbn [negb orb] in H.
    destruct (blocked data barriers c) eqn:Eb; [discriminate|].
    revert a b H.
    apply (fold_choice (fun x => forall a b, x = Some (a, b) -> route c a b)).
    - intros a b H. now apply S.
    - intros off a0 b0 Hoff E a b H. inversion H; subst a b. clear H.
      rewrite p2_step_stepZ. rewrite <- (shift_back c off) at 1.
      apply route_step; [now apply S|exact Hoff|rewrite shift_back; exact Hi|rewrite shift_back; exact Eb].
  Qed.

  Lemma route_inside_free c a b : route c a b -> inside h w c /\ blocked data barriers c = false.
  Proof. destruct 1; split; assumption. Qed.

  Lemma round_complete k d : 0 <= k -> complete k d -> complete (k + 1) (round d).
  Proof.
    intros Hk Cd c a b Hr Hab.
    destruct (route_inside_free c a b Hr) as [Hi Hf].
    rewrite tabulate_inside by exact Hi. unfold bf_round.
    assert (Ei : is_inside h w c = true) by (now apply is_inside_spec).
    rewrite Ei, Hf. cbn [negb orb].
    inversion Hr as [Hsi Hsf Ec Ea Eb|c0 off a0 b0 Hr0 Hoff Hci Hcf Ec Ea Eb].
    - subst. apply fold_le_best. apply Cd; [exact Hr|lia].
    - pose proof (route_counts _ _ _ _ _ _ _ _ _ Hr0) as [Ha0 Hb0].
      pose proof (step_nonneg off) as (_ & _ & Hs3).
      assert (H0 : ole (d c0) a0 b0) by (apply Cd; [exact Hr0|lia]).
      destruct H0 as (a' & b' & Ed & Hle).
      assert (Eq : (fst (shift c0 off) - fst off, snd (shift c0 off) - snd off) = c0).
      { destruct c0 as [i j]. unfold shift. cbn [fst snd]. f_equal; lia. }
      apply ole_mono with (a := a' + fst (p2_step off)) (b := b' + snd (p2_step off)).
      + apply fold_le_cand; [exact Hoff|]. rewrite Eq. exact Ed.
      + rewrite p2_step_stepZ, !v2_add. lra.
  Qed.

  Lemma iter_spec : forall n d k, 0 <= k -> sound d -> complete k d ->
    sound (bf_iter n h w data barriers offs d) /\ complete (k + Z.of_nat n) (bf_iter n h w data barriers offs d).
  Proof.
    induction n as [|n IH]; intros d k Hk Sd Cd.
    - simpl. rewrite Z.add_0_r. split; assumption.
    - cbn [bf_iter].
      destruct (IH (round d) (k + 1)) as [S' C']; [lia|now apply round_sound|now apply round_complete|].
      split; [exact S'|]. replace (k + Z.of_nat (S n)) with (k + 1 + Z.of_nat n) by lia. exact C'.
  Qed.

  Lemma bf_all_spec : sound (bf_all h w data barriers offs s) /\
                      complete (h * w) (bf_all h w data barriers offs s).
  Proof.
    unfold bf_all. cbv zeta.
    set (d0 := fun c : cell => if cell_eqb c s && negb (blocked data barriers s) && is_inside h w s
                               then Some (0, 0) else None).
    assert (S0 : sound d0).
    { intros c a b H. unfold d0 in H.
      destruct (cell_eqb_spec c s) as [->|Hne]; cbn [andb] in H; [|discriminate].
      destruct (blocked data barriers s) eqn:Eb; cbn [negb andb] in H; [discriminate|].
      destruct (is_inside h w s) eqn:Ei; [|discriminate]. inversion H; subst.
      constructor; [now apply is_inside_spec|exact Eb]. }
    assert (C0 : complete 0 d0).
    { intros c a b Hr Hab.
      inversion Hr as [Hsi Hsf Ec Ea Eb|c0 off a0 b0 Hr0 Hoff Hci Hcf Ec Ea Eb].
      - subst. unfold d0. rewrite cell_eqb_refl. unfold Proofs.free in Hsf. rewrite Hsf.
        apply is_inside_spec in Hsi. rewrite Hsi. cbn. exists 0, 0. split; [reflexivity|apply Rle_refl].
      - exfalso. pose proof (route_counts _ _ _ _ _ _ _ _ _ Hr0) as [Ha0 Hb0].
        pose proof (step_nonneg off) as (_ & _ & Hs3). lia. }
    destruct (iter_spec (Z.to_nat (h * w)) d0 0 ltac:(lia) S0 C0) as [S1 C1].
    split; [exact S1|].
    intros c a b Hr Hab. apply C1; [exact Hr|].
    destruct (route_inside_free c a b Hr) as [[H1 H2] _]. nia.
  Qed.
End BF.

(* equal real value => equal pair (sqrt 2 irrational) *)
Lemma v2_inj a b a' b' : v2 a b = v2 a' b' -> a = a' /\ b = b'.
Proof.
  intros H. pose proof (sgn2_spec (a - a') (b - b')) as S. rewrite v2_sub in S.
  remember (sgn2 (a - a') (b - b')) as r eqn:Er.
  destruct S as [S|S|S]; try lra.
  symmetry in Er. apply sgn2_zero in Er. lia.
Qed.

(* the unbounded form of the bounded theorem's check: A* at the exact instance returns, at the goal,
   exactly the Bellman-Ford minimum (NaN exactly when there is none); no run is Stuck or out of fuel *)
Lemma astar_eq_bf h w data barriers conn s g :
  inside h w s -> inside h w g ->
  match astar_kernel xc_zero xc_add xc_sqrtZ xc_ofZ xc_ltb h w data barriers (offsets_of conn) s g with
  | Done img =>
    match img g, bf_min h w data barriers (offsets_of conn) s g with
    | None, None => True
    | Some (a, b, n), Some (a', b') => a = a' /\ b = b' /\ n = 0
    | _, _ => False
    end
  | _ => False
  end.
Proof.
  intros Hs Hg.
  pose proof (astar_kernel_opt h w data barriers (offsets_of conn) s g (offsets_of_unit conn) Hs) as HO.
  pose proof (astar_kernel_spec xc_zero xc_add xc_sqrtZ xc_ofZ xc_ltb h w data barriers (offsets_of conn) s g Hs) as HP.
  destruct (bf_all_spec h w data barriers (offsets_of conn) s) as [SB CB].
  unfold bf_min.
  destruct (astar_kernel xc_zero xc_add xc_sqrtZ xc_ofZ xc_ltb h w data barriers (offsets_of conn) s g) as [| |img];
    cbn [postO post] in HO, HP; [exact HP|now apply HO|].
  destruct HO as [[HO|(a & b & E & Hr & Hab & Hopt)] _].
  - rewrite HO.
    destruct (bf_all h w data barriers (offsets_of conn) s g) as [[a' b']|] eqn:Eb; [|exact Logic.I].
    apply SB in Eb.
    destruct HP as [(l & Hv & Hin & _)|[_ Hn]].
    + destruct (vchain_head _ _ _ _ _ _ _ _ _ _ _ _ Hv) as (l' & ->).
      apply (proj2 (Hin g)); [now left|apply HO].
    + apply Hn. eapply route_reach; eauto.
  - rewrite E.
    destruct (CB g a b Hr Hab) as (a' & b' & Eb & Hle). rewrite Eb.
    apply SB in Eb. specialize (Hopt a' b' Eb).
    assert (Heq : v2 a b = v2 a' b') by lra.
    apply v2_inj in Heq. destruct Heq as [-> ->]. auto.
Qed.
