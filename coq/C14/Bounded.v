(* C14/Bounded.v — bounded optimality by computation: on every grid up to 3x3, every
   free/barrier layout, every start/goal pair and both connectivities, the exact-cost
   instance of the A* model returns at the goal exactly the Bellman-Ford minimum over
   all routes (and NaN exactly when there is none); no run gets Stuck or out of fuel. *)
Require Import Base.Prelude Base.XVal.
Require Import C14.Generated C14.Model.

Fixpoint all_rows (n : nat) : list (list xv) :=
  match n with
  | O => [[]]
  | S k => flat_map (fun r => [XFin 1 :: r; XFin 0 :: r]) (all_rows k)
  end.
Fixpoint all_grids (h : nat) (w : nat) : list (list (list xv)) :=
  match h with
  | O => [[]]
  | S k => flat_map (fun g => map (fun r => r :: g) (all_rows w)) (all_grids k w)
  end.
Definition layouts (h w : Z) : list (list (list xv)) := all_grids (Z.to_nat h) (Z.to_nat w).

Definition opt_cmp (r : result xc) (g : cell) (best : option p2) : bool :=
  match r with
  | ROut (Done img) =>
    match img g, best with
    | None, None => true
    | Some (a, b, n), Some (a', b') => (a =? a') && (b =? b') && (n =? 0)
    | _, _ => false
    end
  | _ => false
  end.

Definition opt_case (h w : Z) (data : list (list xv)) (conn : Z) (s g : cell) : bool :=
  opt_cmp (xc_astar h w data [XFin 0] conn false false s g) g
          (bf_min h w data [XFin 0] (offsets_of conn) s g).

(* the same check with the Bellman-Ford table of one start shared by all goals *)
Definition opt_all (sizes : list Z) (conn : Z) : bool :=
  forallb (fun h => forallb (fun w => forallb (fun data =>
    forallb (fun s =>
      let d := bf_all h w data [XFin 0] (offsets_of conn) s in
      forallb (fun g => opt_cmp (xc_astar h w data [XFin 0] conn false false s g) g (d g)) (cells h w))
      (cells h w))
    (layouts h w)) sizes) sizes.

Lemma opt_all_small_4 : opt_all [1; 2; 3] 4 = true.
Proof. vm_cast_no_check (eq_refl true). Qed.
Lemma opt_all_small_8 : opt_all [1; 2; 3] 8 = true.
Proof. vm_cast_no_check (eq_refl true). Qed.

Lemma bounded_optimal_small : forall h w, In h [1; 2; 3] -> In w [1; 2; 3] ->
  forall data, In data (layouts h w) -> forall conn, In conn [4; 8] ->
  forall s g, In s (cells h w) -> In g (cells h w) -> opt_case h w data conn s g = true.
Proof.
  intros h w Hh Hw data Hd conn Hc s g Hs Hg.
  assert (H : opt_all [1; 2; 3] conn = true).
  { destruct Hc as [<-|[<-|[]]]; [exact opt_all_small_4|exact opt_all_small_8]. }
  unfold opt_all in H.
  rewrite forallb_forall in H. specialize (H h Hh).
  rewrite forallb_forall in H. specialize (H w Hw).
  rewrite forallb_forall in H. specialize (H data Hd).
  rewrite forallb_forall in H. specialize (H s Hs). cbv zeta in H.
  rewrite forallb_forall in H. exact (H g Hg).
Qed.
