(* C14/Snap.v — obligations on the generated neighbour tables, the snapping scan
   (_find_nearest_pixel), and the exact model of the coordinate -> cell step. *)
Require Import Base.Prelude Base.XVal.
Require Import C14.Generated C14.Model C14.Proofs.

(* ---------- generated offset tables: exactly the 4 / 8 unit offsets, no duplicates ---------- *)
Lemma offsets4_exact : forall o, In o offsets4 <-> (fst o) ^ 2 + (snd o) ^ 2 = 1.
Proof.
  intros [a b]. simpl fst; simpl snd. split.
  - unfold offsets4. simpl. intros H.
    repeat (destruct H as [H|H]; [inversion H; subst; reflexivity|]). contradiction.
  - intros H.
    assert (Ha : a = -1 \/ a = 0 \/ a = 1) by nia.
    assert (Hb : b = -1 \/ b = 0 \/ b = 1) by nia.
    destruct Ha as [-> | [-> | ->]]; destruct Hb as [-> | [-> | ->]]; try (exfalso; lia);
      unfold offsets4; simpl; tauto.
Qed.

Lemma offsets8_exact : forall o, In o offsets8 <->
  (-1 <= fst o <= 1 /\ -1 <= snd o <= 1 /\ o <> (0, 0)).
Proof.
  intros [a b]. simpl fst; simpl snd. split.
  - unfold offsets8. simpl. intros H.
    repeat (destruct H as [H|H]; [inversion H; subst; repeat split; try lia; discriminate|]). contradiction.
  - intros (Ha & Hb & Hne).
    assert (Ha' : a = -1 \/ a = 0 \/ a = 1) by lia.
    assert (Hb' : b = -1 \/ b = 0 \/ b = 1) by lia.
    destruct Ha' as [-> | [-> | ->]]; destruct Hb' as [-> | [-> | ->]]; try (exfalso; apply Hne; reflexivity);
      unfold offsets8; simpl; tauto.
Qed.

Lemma offsets4_NoDup : NoDup offsets4.
Proof.
  unfold offsets4. repeat (constructor; [simpl; intros H; repeat (destruct H as [H|H]; [discriminate|]); exact H|]).
  constructor.
Qed.

Lemma offsets8_NoDup : NoDup offsets8.
Proof.
  unfold offsets8. repeat (constructor; [simpl; intros H; repeat (destruct H as [H|H]; [discriminate|]); exact H|]).
  constructor.
Qed.

Lemma offsets_step_len : forall conn o, In o (offsets_of conn) ->
  let n := (fst o) ^ 2 + (snd o) ^ 2 in (n = 1 \/ n = 2) /\ (conn <> 8 -> n = 1).
Proof.
  intros conn o H. cbv zeta. unfold offsets_of in H. destruct (conn =? 8) eqn:E.
  - apply offsets8_exact in H. destruct H as (Ha & Hb & Hne). split; [|lia].
    destruct o as [a b]; simpl in *.
    assert (Ha' : a = -1 \/ a = 0 \/ a = 1) by lia.
    assert (Hb' : b = -1 \/ b = 0 \/ b = 1) by lia.
    destruct Ha' as [-> | [-> | ->]]; destruct Hb' as [-> | [-> | ->]]; try (exfalso; apply Hne; reflexivity);
      simpl; auto.
  - apply offsets4_exact in H. auto.
Qed.

Lemma dist_shift {C} (sqrtZ : Z -> C) a o :
  dist sqrtZ a (shift a o) = sqrtZ ((fst o) ^ 2 + (snd o) ^ 2).
Proof.
  unfold dist, distance, shift. cbn [fst snd]. f_equal. ring.
Qed.

(* ---------- _find_nearest_pixel ---------- *)
Definition sqd (c p : cell) : Z := (snd c - snd p) ^ 2 + (fst c - fst p) ^ 2.

Lemma sqd_nonneg c p : 0 <= sqd c p.
Proof. unfold sqd. nia. Qed.

Section Snap.
  Context {C : Type}.
  Variables (sqrtZ : Z -> C) (ltb : C -> C -> bool).
  (* the order decides sqrt a < sqrt b as a < b (true of the reals; of binary64 for the
     small squared distances of a raster; checked for the exact instance below) *)
  Hypothesis ltb_sqrt : forall a b, 0 <= a -> 0 <= b -> ltb (sqrtZ a) (sqrtZ b) = (a <? b).
  Variables (h w : Z) (data : list (list xv)) (barriers : list xv).
  Variable p : cell.

  Notation freeb c := (negb (blocked data barriers c)).
  Notation step := (snap_step sqrtZ ltb data barriers p).

  (* state of the scan after the cells [seen] *)
  Definition good (seen : list cell) (acc : option C * cell) : Prop :=
    (fst acc = None /\ snd acc = NONEc /\ forall c, In c seen -> blocked data barriers c = true) \/
    (exists best s1 s2, fst acc = Some (sqrtZ (sqd best p)) /\ snd acc = best /\ seen = s1 ++ best :: s2 /\
        blocked data barriers best = false /\
        (forall c, In c s1 -> blocked data barriers c = false -> sqd best p < sqd c p) /\
        (forall c, In c s2 -> blocked data barriers c = false -> sqd best p <= sqd c p)).

  Lemma snap_step_good seen acc c : good seen acc -> good (seen ++ [c]) (step acc c).
  Proof.
    intros G. unfold snap_step, distance. fold (sqd c p). destruct (blocked data barriers c) eqn:Eb; cbn [negb].
    - destruct G as [(H1 & H2 & H3)|(best & s1 & s2 & H1 & H2 & H3 & H4 & H5 & H6)].
      + left. repeat split; auto. intros x Hx. apply in_app_or in Hx as [Hx|[<-|[]]]; auto.
      + right. exists best, s1, (s2 ++ [c]). repeat split; auto.
        * rewrite H3, <- app_assoc. reflexivity.
        * intros x Hx Hf. apply in_app_or in Hx as [Hx|[<-|[]]]; auto. congruence.
    - destruct G as [(H1 & H2 & H3)|(best & s1 & s2 & H1 & H2 & H3 & H4 & H5 & H6)].
      + rewrite H1. cbv iota beta. right. exists c, seen, []. repeat split; auto.
        * intros x Hx Hf. apply H3 in Hx. congruence.
        * intros x [].
      + rewrite H1. cbv iota beta. rewrite ltb_sqrt by apply sqd_nonneg.
        destruct (sqd c p <? sqd best p) eqn:El.
        * right. exists c, seen, []. repeat split; auto.
          -- intros x Hx Hf. rewrite H3 in Hx. apply in_app_or in Hx as [Hx|[<-|Hx]].
             ++ specialize (H5 x Hx Hf). lia.
             ++ lia.
             ++ specialize (H6 x Hx Hf). lia.
          -- intros x [].
        * right. exists best, s1, (s2 ++ [c]). repeat split; auto.
          -- rewrite H3, <- app_assoc. reflexivity.
          -- intros x Hx Hf. apply in_app_or in Hx as [Hx|[<-|[]]]; auto. lia.
  Qed.

  Lemma snap_fold_good : forall l seen acc, good seen acc -> good (seen ++ l) (fold_left step l acc).
  Proof.
    induction l as [|c l IH]; intros seen acc G; simpl.
    - now rewrite app_nil_r.
    - replace (seen ++ c :: l) with ((seen ++ [c]) ++ l) by (rewrite <- app_assoc; reflexivity).
      apply IH. now apply snap_step_good.
  Qed.

  (* the whole function, for the (fixed) initial distance np.inf *)
  Lemma find_nearest_spec :
    let r := find_nearest sqrtZ ltb h w data barriers p in
    (blocked data barriers p = false -> r = p) /\
    (blocked data barriers p = true ->
       ((forall c, In c (cells h w) -> blocked data barriers c = true) /\ r = NONEc) \/
       (exists s1 s2, cells h w = s1 ++ r :: s2 /\ blocked data barriers r = false /\
          (forall c, In c s1 -> blocked data barriers c = false -> sqd r p < sqd c p) /\
          (forall c, In c s2 -> blocked data barriers c = false -> sqd r p <= sqd c p))).
  Proof.
    cbv zeta. unfold find_nearest. split; intros Hb; rewrite Hb; cbn [negb]; [reflexivity|].
    change (snap_init h w) with (@None (Z * Z * Z * Z)). cbv iota.
    assert (G0 : good [] (@None C, NONEc)) by (left; repeat split; auto; intros c []).
    pose proof (snap_fold_good (cells h w) [] _ G0) as G. simpl app in G.
    destruct G as [(H1 & H2 & H3)|(best & s1 & s2 & H1 & H2 & H3 & H4 & H5 & H6)].
    - left. split; auto.
    - right. rewrite H2. exists s1, s2. repeat split; auto.
  Qed.
End Snap.

(* the snapped cell is NONE or inside the grid, whatever the order *)
Lemma find_nearest_inside {C} (sqrtZ : Z -> C) ltb h w data barriers p :
  inside h w p ->
  let r := find_nearest sqrtZ ltb h w data barriers p in r = NONEc \/ inside h w r.
Proof.
  intros Hp. cbv zeta. unfold find_nearest.
  destruct (negb (blocked data barriers p)); [now right|].
  match goal with |- context [fold_left ?f ?l (?i, NONEc)] => generalize i end. intros i.
  assert (G : forall l acc, (forall c, In c l -> inside h w c) -> (snd acc = NONEc \/ inside h w (snd acc)) ->
     snd (fold_left (snap_step sqrtZ ltb data barriers p) l acc) = NONEc \/
     inside h w (snd (fold_left (snap_step sqrtZ ltb data barriers p) l acc))).
  { induction l as [|c l IH]; intros acc Hl Hacc; simpl; auto.
    apply IH; [intros x Hx; apply Hl; now right|].
    unfold snap_step. destruct (negb (blocked data barriers c)); auto.
    match goal with |- context [if ?b then _ else _] => destruct b end; auto.
    right. simpl. apply Hl. now left. }
  apply G; [|now left]. intros c Hc. now apply cells_In.
Qed.

(* the premise of the snap theorem holds for the exact instance on all squared distances <= 60 *)
Lemma xc_ltb_sqrt_small :
  forallb (fun a => forallb (fun b => Bool.eqb (xc_ltb (xc_sqrtZ a) (xc_sqrtZ b)) (a <? b))
                            (ziota 0 61)) (ziota 0 61) = true.
Proof. vm_compute. reflexivity. Qed.

(* ---------- coordinate -> cell, exact integer model ---------- *)
Lemma round_half_even_near n d : 0 <= n -> 0 < d ->
  2 * Z.abs (n - round_half_even n d * d) <= d.
Proof.
  intros Hn Hd. unfold round_half_even.
  pose proof (Z.div_mod n d ltac:(lia)) as Hdm.
  pose proof (Z.mod_pos_bound n d Hd) as Hb.
  set (q := n / d) in *. set (r := n mod d) in *.
  destruct (2 * r <? d) eqn:E1; [nia|].
  destruct (d <? 2 * r) eqn:E2; [nia|].
  destruct (Z.even q); nia.
Qed.

Lemma pixel_nearest_centre p c0 s : s <> 0 -> 0 <= (p - c0) * s ->
  forall j, Z.abs (p - (c0 + pixel_idx_nearest p c0 s * s)) <= Z.abs (p - (c0 + j * s)).
Proof.
  intros Hs Hside j. unfold pixel_idx_nearest.
  pose proof (round_half_even_near (Z.abs (p - c0)) (Z.abs s) ltac:(lia) ltac:(lia)) as Hr.
  set (i := round_half_even (Z.abs (p - c0)) (Z.abs s)) in *.
  destruct (Z.eq_dec i j) as [->|Hij]; [lia|].
  assert (Hs' : 0 < s \/ s < 0) by lia.
  destruct Hs' as [Hp|Hn].
  - assert (0 <= p - c0) by nia.
    rewrite (Z.abs_eq (p - c0)) in * by lia. rewrite (Z.abs_eq s) in * by lia.
    assert (Z.abs (i - j) >= 1) by lia. nia.
  - assert (p - c0 <= 0) by nia.
    rewrite (Z.abs_neq (p - c0)) in * by lia. rewrite (Z.abs_neq s) in * by lia.
    assert (Z.abs (i - j) >= 1) by lia. nia.
Qed.

Lemma pixel_own_centre c0 s i : s <> 0 -> 0 <= i -> pixel_idx_nearest (c0 + i * s) c0 s = i.
Proof.
  intros Hs Hi. unfold pixel_idx_nearest, round_half_even.
  replace (c0 + i * s - c0) with (i * s) by ring.
  rewrite Z.abs_mul, (Z.abs_eq i) by lia.
  rewrite Z.div_mul by lia. rewrite Z.mod_mul by lia.
  destruct (2 * 0 <? Z.abs s) eqn:E; [reflexivity|lia].
Qed.

Lemma pixel_idx_signed_nearest p c0 s : s <> 0 -> 0 <= (p - c0) * s ->
  pixel_idx_signed p c0 s = pixel_idx_nearest p c0 s.
Proof.
  intros Hs Hp. unfold pixel_idx_signed, pixel_idx_nearest, round_half_even_signed.
  assert (E : (p - c0) * Z.sgn s = Z.abs (p - c0)).
  { destruct (Z.lt_trichotomy s 0) as [H|[H|H]]; [|lia|].
    - rewrite Z.sgn_neg by lia. assert (p - c0 <= 0) by nia. lia.
    - rewrite Z.sgn_pos by lia. assert (0 <= p - c0) by nia. lia. }
  rewrite E. destruct (Z.abs (p - c0) <? 0) eqn:El; [lia|reflexivity].
Qed.

Lemma pixel_idx_is_nearest p c0 s : s <> 0 -> 0 <= (p - c0) * s ->
  pixel_idx p c0 s = pixel_idx_nearest p c0 s.
Proof.
  intros Hs Hp. unfold pixel_idx. change pixel_round_nearest with true. cbv iota.
  destruct pixel_signed; [|reflexivity]. now apply pixel_idx_signed_nearest.
Qed.

Lemma round_half_even_pos n d : 0 < d -> d < 2 * n -> 0 < round_half_even n d.
Proof.
  intros Hd Hn. unfold round_half_even.
  pose proof (Z.div_mod n d ltac:(lia)) as Hdm.
  pose proof (Z.mod_pos_bound n d Hd) as Hb.
  set (q := n / d) in *. set (r := n mod d) in *.
  assert (0 <= q) by nia.
  destruct (2 * r <? d) eqn:E1; [nia|].
  destruct (d <? 2 * r) eqn:E2; [lia|].
  destruct (Z.even q) eqn:Ev; [|lia].
  assert (q <> 0) by nia. lia.
Qed.

(* a point more than half a cell before the first centre gets a negative index (is refused as outside) *)
Lemma pixel_before_first_negative p c0 s : s <> 0 -> (p - c0) * s < 0 -> Z.abs s < 2 * Z.abs (p - c0) ->
  pixel_idx p c0 s < 0.
Proof.
  intros Hs Hp Hh. unfold pixel_idx. change pixel_round_nearest with true. change pixel_signed with true. cbv iota.
  unfold pixel_idx_signed, round_half_even_signed.
  assert (E : (p - c0) * Z.sgn s = - Z.abs (p - c0)).
  { destruct (Z.lt_trichotomy s 0) as [H|[H|H]]; [|lia|].
    - rewrite Z.sgn_neg by lia. assert (0 < p - c0) by nia. lia.
    - rewrite Z.sgn_pos by lia. assert (p - c0 < 0) by nia. lia. }
  rewrite E. destruct (- Z.abs (p - c0) <? 0) eqn:El; [|lia].
  rewrite Z.opp_involutive.
  pose proof (round_half_even_pos (Z.abs (p - c0)) (Z.abs s) ltac:(lia) Hh). lia.
Qed.
