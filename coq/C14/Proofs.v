(* C14/Proofs.v — invariants of the A* main loop (DESIGN.md §12, A1–A4 + frontier
   completeness) and of the back-pointer walk, for EVERY cost instance. *)
Require Import Base.Prelude Base.XVal.
Require Import C14.Generated C14.Model.

(* ---------- cells, pointwise updates ---------- *)
Lemma cell_eqb_spec a b : reflect (a = b) (cell_eqb a b).
Proof.
  unfold cell_eqb. destruct a as [a1 a2], b as [b1 b2]; simpl.
  destruct (a1 =? b1) eqn:E1; destruct (a2 =? b2) eqn:E2; simpl; constructor;
    try (intros H; inversion H; lia).
  f_equal; lia.
Qed.

Lemma cell_eqb_refl a : cell_eqb a a = true.
Proof. destruct (cell_eqb_spec a a); congruence. Qed.

Lemma upd_same {T} (m : cell -> T) k v : upd m k v k = v.
Proof. unfold upd. now rewrite cell_eqb_refl. Qed.

Lemma upd_other {T} (m : cell -> T) k v c : c <> k -> upd m k v c = m c.
Proof. unfold upd. destruct (cell_eqb_spec c k); congruence. Qed.

Lemma cells_In h w c : In c (cells h w) <-> (0 <= fst c < h /\ 0 <= snd c < w).
Proof.
  unfold cells. rewrite in_flat_map. split.
  - intros (i & Hi & Hc). apply in_map_iff in Hc as (j & <- & Hj).
    apply ziota_In in Hi. apply ziota_In in Hj. simpl. lia.
  - intros [H1 H2]. exists (fst c). split.
    + apply ziota_In. lia.
    + apply in_map_iff. exists (snd c). split; [destruct c; reflexivity|]. apply ziota_In. lia.
Qed.

Lemma cells_length h w : length (cells h w) = (Z.to_nat h * Z.to_nat w)%nat.
Proof.
  unfold cells.
  assert (G : forall rows : list Z, length (flat_map (fun i : Z => map (fun j : Z => (i, j)) (ziota 0 (Z.to_nat w))) rows)
                           = (length rows * Z.to_nat w)%nat).
  { induction rows as [|i rows IH]; simpl; [reflexivity|].
    rewrite app_length, map_length, ziota_length, IH. reflexivity. }
  rewrite G, ziota_length. reflexivity.
Qed.

Lemma cells_length_le h w : (length (cells h w) <= Z.to_nat (h * w))%nat.
Proof. rewrite cells_length. nia. Qed.

Section Proofs.
  Context {C : Type}.
  Variables (zero : C) (add : C -> C -> C) (sqrtZ : Z -> C) (ofZ : Z -> C) (ltb : C -> C -> bool).
  Variables (h w : Z) (data : list (list xv)) (barriers : list xv).
  Variable offs : list (Z * Z).
  Variables start goal : cell.

  Definition inside (c : cell) : Prop := 0 <= fst c < h /\ 0 <= snd c < w.
  Definition free (c : cell) : Prop := blocked data barriers c = false.
  Definition seen (st : @state C) (c : cell) : Prop := opn st c = true \/ cls st c = true.

  Notation D := (dist sqrtZ).
  Notation relaxf := (relax add sqrtZ ltb h w data barriers goal).

  (* a route of crossable in-grid cells under the given offsets *)
  Inductive reach : cell -> Prop :=
  | reach_refl : inside start -> free start -> reach start
  | reach_step : forall b off, reach b -> In off offs -> inside (shift b off) -> free (shift b off) ->
                               reach (shift b off).

  (* the chain written into path_img, newest (goal) first:
     vchain img l c : l = c :: ... :: start, each step one offset, value = previous + its length *)
  Inductive vchain (img : cell -> option C) : list cell -> cell -> Prop :=
  | vc_start : img start = Some zero -> inside start -> free start -> vchain img [start] start
  | vc_step : forall l a b off va,
      vchain img l a -> In off offs -> b = shift a off -> inside b -> free b -> ~ In b l ->
      img a = Some va -> img b = Some (add va (D a b)) -> vchain img (b :: l) b.

  Lemma vchain_head img l c : vchain img l c -> exists l', l = c :: l'.
  Proof. destruct 1; eauto. Qed.

  Lemma vchain_reach img l c : vchain img l c -> reach c.
  Proof.
    induction 1 as [|l a b off va Hc IH Hoff -> Hin Hfr Hni Ha Hb].
    - now constructor.
    - now apply reach_step.
  Qed.

  (* ---------- safety invariant (holds at every point of the loop body) ---------- *)
  Record InvS (st : @state C) (hist : list cell) : Prop := {
    s_cls : forall c, cls st c = true <-> In c hist;
    s_nodup : NoDup hist;
    s_hist : forall c, In c hist -> inside c /\ free c;
    s_opn : forall c, opn st c = true -> inside c /\ free c /\ cls st c = false;
    s_par : forall c, seen st c -> c <> start ->
        exists off, In off offs /\ c = shift (par st c) off /\
                    dst st c = add (dst st (par st c)) (D (par st c) c) /\
                    In (par st c) hist /\
                    (forall l1 l2, hist = l1 ++ c :: l2 -> In (par st c) l2);
    s_start : seen st start -> par st start = start /\ dst st start = zero;
    s_root : forall c, seen st c -> c = start \/ In start hist
  }.

  (* ---------- frontier invariant (holds at the loop head) ---------- *)
  Record InvF (st : @state C) (hist : list cell) : Prop := {
    f_front : forall c off, In c hist -> In off offs -> inside (shift c off) -> free (shift c off) ->
                            seen st (shift c off);
    f_goal : ~ In goal hist;
    f_start : free start -> seen st start
  }.

  (* ---------- one relaxation ---------- *)
  Lemma relax_cls p st off c : cls (relaxf p st off) c = cls st c.
  Proof.
    unfold relax. repeat match goal with |- context [if ?b then _ else _] => destruct b end; reflexivity.
  Qed.

  Lemma relax_opn_mono p st off c : opn st c = true -> opn (relaxf p st off) c = true.
  Proof.
    intros H. unfold relax.
    repeat match goal with |- context [if ?b then _ else _] => destruct b end; auto.
    cbn [opn]. unfold upd. destruct (cell_eqb c (shift p off)); auto.
  Qed.

  Lemma relax_seen_mono p st off c : seen st c -> seen (relaxf p st off) c.
  Proof.
    intros [H|H]; [left; now apply relax_opn_mono|right; now rewrite relax_cls].
  Qed.

  Lemma relax_opens p st off :
    inside (shift p off) -> free (shift p off) -> seen (relaxf p st off) (shift p off).
  Proof.
    intros [Hi1 Hi2] Hf. unfold free in Hf. unfold relax. cbv zeta.
    destruct ((fst (shift p off) >? h - 1) || (fst (shift p off) <? 0) ||
              (snd (shift p off) >? w - 1) || (snd (shift p off) <? 0)) eqn:Eb; [lia|].
    rewrite Hf.
    destruct (cls st (shift p off)) eqn:Ec; [right; exact Ec|].
    destruct (opn st (shift p off) && _) eqn:Eo.
    - apply andb_prop in Eo as [Eo _]. left; exact Eo.
    - left. cbn [opn]. apply upd_same.
  Qed.

  Lemma relax_safe p st off hist :
    InvS st hist -> In p hist -> In off offs -> InvS (relaxf p st off) hist.
  Proof.
    intros I Hp Hoff. unfold relax. cbv zeta.
    remember (shift p off) as n eqn:Hn.
    destruct ((fst n >? h - 1) || (fst n <? 0) || (snd n >? w - 1) || (snd n <? 0)) eqn:Eb; [exact I|].
    destruct (blocked data barriers n) eqn:Ebl; [exact I|].
    destruct (cls st n) eqn:Ec; [exact I|].
    destruct (opn st n && ltb (dst st n) (add (dst st p) (D p n))) eqn:Eo; [exact I|].
    assert (Hin : inside n) by (unfold inside; lia).
    assert (Hnh : ~ In n hist) by (rewrite <- (s_cls _ _ I); congruence).
    assert (Hpn : p <> n) by (intros Heq; rewrite Heq in Hp; contradiction).
    assert (Hsh : In start hist).
    { destruct (s_root _ _ I p) as [->|H]; auto. right. now apply (s_cls _ _ I). }
    assert (Hns : n <> start) by (intros Heq; rewrite Heq in Hnh; contradiction).
    constructor; cbn [opn cls dst cst par].
    - apply (s_cls _ _ I).
    - apply (s_nodup _ _ I).
    - apply (s_hist _ _ I).
    - intros c Hc. destruct (cell_eqb_spec c n) as [->|Hne].
      + auto.
      + rewrite upd_other in Hc by auto. now apply (s_opn _ _ I).
    - intros c Hc Hcs. destruct (cell_eqb_spec c n) as [->|Hne].
      + rewrite !upd_same. exists off. repeat split; auto.
        * rewrite upd_other by auto. reflexivity.
        * intros l1 l2 Hl. exfalso. apply Hnh. rewrite Hl. apply in_or_app. right. now left.
      + assert (Hc' : seen st c).
        { destruct Hc as [Hc|Hc]; cbn [opn cls] in Hc; [left|right; exact Hc].
          now rewrite upd_other in Hc by auto. }
        destruct (s_par _ _ I c Hc' Hcs) as (o & Ho & Hsh' & Hd & Hph & Hpos).
        rewrite !(upd_other _ _ _ c) by auto.
        assert (Hpc : par st c <> n) by (intros Heq; rewrite Heq in Hph; contradiction).
        exists o. repeat split; auto.
        rewrite upd_other by auto. exact Hd.
    - intros Hs.
      assert (Hs' : seen st start).
      { destruct Hs as [Hs|Hs]; cbn [opn cls] in Hs; [left|right; exact Hs].
        now rewrite upd_other in Hs by auto. }
      rewrite !upd_other by auto. now apply (s_start _ _ I).
    - intros c _. now right.
  Qed.

  Lemma relax_fold p hist : forall offs' st,
    InvS st hist -> In p hist -> (forall off, In off offs' -> In off offs) ->
    let st' := fold_left (relaxf p) offs' st in
    InvS st' hist /\ (forall c, seen st c -> seen st' c) /\
    (forall off, In off offs' -> inside (shift p off) -> free (shift p off) -> seen st' (shift p off)).
  Proof.
    induction offs' as [|off offs' IH]; intros st I Hp Hsub; simpl.
    - split; [exact I|]. split; [auto|]. intros off [].
    - destruct (IH (relaxf p st off)) as (I' & Hmono & Hopen).
      + apply relax_safe; auto. apply Hsub. now left.
      + exact Hp.
      + intros o Ho. apply Hsub. now right.
      + split; [exact I'|]. split.
        * intros c Hc. apply Hmono. now apply relax_seen_mono.
        * intros o [<-|Ho] Hi Hf.
          -- apply Hmono. now apply relax_opens.
          -- now apply Hopen.
  Qed.

  (* ---------- popping the chosen open cell ---------- *)
  Lemma pop_safe st hist p : InvS st hist -> opn st p = true -> InvS (pop st p) (p :: hist).
  Proof.
    intros I Hp. destruct (s_opn _ _ I p Hp) as (Hpi & Hpf & Hpc).
    assert (Hnh : ~ In p hist) by (rewrite <- (s_cls _ _ I); congruence).
    assert (Hseen : forall c, seen (pop st p) c -> seen st c).
    { intros c [Hc|Hc]; cbn [pop opn cls] in Hc.
      - destruct (cell_eqb_spec c p) as [->|Hne]; [rewrite upd_same in Hc; discriminate|].
        rewrite upd_other in Hc by auto. now left.
      - destruct (cell_eqb_spec c p) as [->|Hne]; [now left|].
        rewrite upd_other in Hc by auto. now right. }
    constructor; cbn [pop opn cls dst cst par].
    - intros c. destruct (cell_eqb_spec c p) as [->|Hne].
      + rewrite upd_same. split; auto. intros _. now left.
      + rewrite upd_other by auto. rewrite (s_cls _ _ I). simpl. split; auto.
        intros [Heq|H]; auto. congruence.
    - constructor; auto. apply (s_nodup _ _ I).
    - intros c [<-|Hc]; auto. now apply (s_hist _ _ I).
    - intros c Hc. destruct (cell_eqb_spec c p) as [->|Hne]; [rewrite upd_same in Hc; discriminate|].
      rewrite upd_other in Hc by auto. rewrite upd_other by auto. now apply (s_opn _ _ I).
    - intros c Hc Hcs. apply Hseen in Hc.
      destruct (s_par _ _ I c Hc Hcs) as (o & Ho & Hsh & Hd & Hph & Hpos).
      exists o. repeat split; auto. { now right. }
      intros l1 l2 Hl. destruct l1 as [|x l1]; simpl in Hl.
      + inversion Hl; subst. exact Hph.
      + inversion Hl; subst. eapply Hpos. reflexivity.
    - intros Hs. apply Hseen in Hs. now apply (s_start _ _ I).
    - intros c Hc. apply Hseen in Hc. destruct (s_root _ _ I c Hc) as [Heq|H]; [now left|right; now right].
  Qed.

  Lemma pop_seen st p c : opn st p = true -> seen st c -> seen (pop st p) c.
  Proof.
    intros Hp [Hc|Hc]; unfold seen, pop; cbn [opn cls].
    - destruct (cell_eqb_spec c p) as [->|Hne].
      + right. apply upd_same.
      + left. now rewrite upd_other.
    - right. destruct (cell_eqb_spec c p) as [->|Hne]; [apply upd_same|now rewrite upd_other].
  Qed.

  (* ---------- _min_cost_pixel_id returns NONE or an open cell ---------- *)
  Lemma min_cost_pixel_open st :
    let p := min_cost_pixel ofZ ltb h w st in p = NONEc \/ opn st p = true.
  Proof.
    unfold min_cost_pixel. generalize (cells h w) as l.
    assert (G : forall l acc, (snd acc = NONEc \/ opn st (snd acc) = true) ->
                  snd (fold_left (min_step ltb st) l acc) = NONEc \/
                  opn st (snd (fold_left (min_step ltb st) l acc)) = true).
    { induction l as [|c l IH]; intros acc Hacc; simpl; auto.
      apply IH. unfold min_step. destruct (opn st c && ltb (cst st c) (fst acc)) eqn:E; auto.
      apply andb_prop in E as [E _]. right. exact E. }
    intros l. apply G. now left.
  Qed.

  Lemma any_open_false st hist : InvS st hist ->
    any_open h w st = false -> forall c, opn st c = false.
  Proof.
    intros I Hn c. destruct (opn st c) eqn:E; auto.
    destruct (s_opn _ _ I c E) as (Hi & _ & _).
    unfold any_open in Hn.
    assert (Hex : existsb (opn st) (cells h w) = true).
    { apply existsb_exists. exists c. split; auto. now apply cells_In. }
    congruence.
  Qed.

  (* ---------- the back-pointer walk ---------- *)
  Inductive pchain (st : @state C) : list cell -> cell -> Prop :=
  | pc_nil : pchain st [] start
  | pc_cons : forall c l, c <> start -> pchain st l (par st c) -> pchain st (c :: l) c.

  Lemma pchain_no_start st vis cur : pchain st vis cur -> ~ In start vis.
  Proof.
    induction 1 as [|c l Hne Hp IH]; simpl; [tauto|]. intros [Heq|Hin]; auto.
  Qed.

  Lemma walk_spec st hist : InvS st hist ->
    forall fuel cur img l1 l2, hist = l1 ++ cur :: l2 -> (length l2 < fuel)%nat ->
    exists vis img', walk start fuel st cur img = Some img' /\ pchain st vis cur /\
      (forall c, In c vis -> img' c = Some (dst st c)) /\
      (forall c, ~ In c vis -> img' c = img c).
  Proof.
    intros I. induction fuel as [|f IH]; intros cur img l1 l2 Hh Hlen; [lia|].
    simpl. destruct (cell_eqb_spec cur start) as [->|Hne].
    - exists [], img. repeat split; auto; try constructor. intros c [].
    - assert (Hcur : In cur hist) by (rewrite Hh; apply in_or_app; right; now left).
      assert (Hseen : seen st cur) by (right; now apply (s_cls _ _ I)).
      destruct (s_par _ _ I cur Hseen Hne) as (o & _ & _ & _ & _ & Hpos).
      specialize (Hpos l1 l2 Hh).
      destruct (in_split _ _ Hpos) as (m1 & m2 & Hm).
      destruct (IH (par st cur) (upd img cur (Some (dst st cur))) (l1 ++ cur :: m1) m2) as (vis & img' & Hw & Hpc & Hin & Hout).
      + rewrite Hh, Hm, <- app_assoc. reflexivity.
      + rewrite Hm, app_length in Hlen. simpl in Hlen. lia.
      + exists (cur :: vis), img'. split; [exact Hw|]. split; [now constructor|].
        (* cur is not in vis: vis lies strictly behind cur in hist — shown via the image *)
        assert (Hdec : forall c, In c vis \/ ~ In c vis).
        { intros c. induction vis as [|x vis IHv]; [right; tauto|].
          destruct (cell_eqb_spec c x) as [->|Hx]; [left; now left|].
          clear IHv. assert (Hd : In c vis \/ ~ In c vis).
          { clear - c. induction vis as [|y vis IHv]; [right; tauto|].
            destruct (cell_eqb_spec c y) as [->|Hy]; [left; now left|].
            destruct IHv as [H|H]; [left; now right|right; intros [Heq|H']; congruence]. }
          destruct Hd as [H|H]; [left; now right|right; intros [Heq|H']; congruence]. }
        split.
        * intros c [<-|Hc]; [|now apply Hin].
          destruct (Hdec cur) as [Hc|Hc]; [now apply Hin|].
          rewrite Hout by auto. apply upd_same.
        * intros c Hc. rewrite Hout by (intros H; apply Hc; now right).
          apply upd_other. intros ->. apply Hc. now left.
  Qed.

  Lemma pchain_vchain st hist img' : InvS st hist ->
    forall vis cur l1 l2, hist = l1 ++ cur :: l2 -> pchain st vis cur ->
    (forall c, In c (vis ++ [start]) -> img' c = Some (dst st c)) ->
    vchain img' (vis ++ [start]) cur /\ (forall c, In c (vis ++ [start]) -> In c (cur :: l2)).
  Proof.
    intros I. induction vis as [|x vis IH]; intros cur l1 l2 Hh Hpc Himg.
    - inversion Hpc; subst. simpl.
      assert (Hs : In start (l1 ++ start :: l2)) by (apply in_or_app; right; now left).
      destruct (s_hist _ _ I start Hs) as [Hi Hf].
      assert (Hseen : seen st start) by (right; now apply (s_cls _ _ I)).
      destruct (s_start _ _ I Hseen) as [_ Hd].
      split.
      + constructor; auto. rewrite Himg by (now left). now rewrite Hd.
      + intros c [<-|[]]. now left.
    - inversion Hpc as [|c l Hne Hp]; subst.
      assert (Hcur : In cur (l1 ++ cur :: l2)) by (apply in_or_app; right; now left).
      assert (Hseen : seen st cur) by (right; now apply (s_cls _ _ I)).
      destruct (s_par _ _ I cur Hseen Hne) as (o & Ho & Hsh & Hd & _ & Hpos).
      specialize (Hpos l1 l2 eq_refl).
      destruct (in_split _ _ Hpos) as (m1 & m2 & Hm).
      destruct (IH (par st cur) (l1 ++ cur :: m1) m2) as [Hvc Hsub].
      + rewrite Hm, <- app_assoc. reflexivity.
      + exact Hp.
      + intros c Hc. apply Himg. now right.
      + assert (Hsub2 : forall c, In c (vis ++ [start]) -> In c l2).
        { intros c Hc. apply Hsub in Hc. rewrite Hm. apply in_or_app. right. exact Hc. }
        assert (Hnd : ~ In cur l2).
        { pose proof (s_nodup _ _ I) as Hn. apply NoDup_remove_2 in Hn.
          intros Hc. apply Hn. apply in_or_app. now right. }
        destruct (s_hist _ _ I cur Hcur) as [Hi Hf].
        split.
        * simpl. apply vc_step with (a := par st cur) (off := o) (va := dst st (par st cur)).
          -- exact Hvc.
          -- exact Ho.
          -- exact Hsh.
          -- exact Hi.
          -- exact Hf.
          -- intros Hc. apply Hnd. now apply Hsub2.
          -- apply Himg. right. destruct (vchain_head _ _ _ Hvc) as (l' & Hl'). rewrite Hl'. now left.
          -- rewrite Himg by (now left). now rewrite Hd.
        * intros c [<-|Hc]; [now left|right; now apply Hsub2].
  Qed.

  (* ---------- postcondition ---------- *)
  Definition post (o : outcome C) : Prop :=
    match o with
    | OutOfFuel => False
    | Stuck => True
    | Done img =>
      (exists l, vchain img l goal /\ (forall c, img c <> None <-> In c l) /\ NoDup l) \/
      ((forall c, img c = None) /\ ~ reach goal)
    end.

  Lemma vchain_NoDup img l c : vchain img l c -> NoDup l.
  Proof.
    induction 1; constructor; auto. constructor.
  Qed.

  Lemma hist_length hist st : InvS st hist -> (length hist <= Z.to_nat (h * w))%nat.
  Proof.
    intros I. etransitivity; [|apply cells_length_le].
    apply NoDup_incl_length; [apply (s_nodup _ _ I)|].
    intros c Hc. apply cells_In. now apply (s_hist _ _ I).
  Qed.

  Lemma NONE_neg : NONE < 0.
  Proof. reflexivity. Qed.

  Lemma reconstruct_spec st hist :
    InvS st (goal :: hist) -> post (reconstruct h w start goal st).
  Proof.
    intros I. unfold reconstruct. cbv zeta.
    assert (Hg : In goal (goal :: hist)) by now left.
    assert (Hseen : seen st goal) by (right; now apply (s_cls _ _ I)).
    assert (Hpin : inside (par st goal)).
    { destruct (cell_eqb_spec goal start) as [Heq|Hne].
      - rewrite Heq in *. destruct (s_start _ _ I Hseen) as [-> _]. now apply (s_hist _ _ I).
      - destruct (s_par _ _ I goal Hseen Hne) as (o & _ & _ & _ & Hp & _). now apply (s_hist _ _ I). }
    pose proof NONE_neg as Hn. destruct Hpin as [Hp1 Hp2].
    destruct (snd (par st goal) =? NONE) eqn:E1; [lia|].
    destruct (fst (par st goal) =? NONE) eqn:E2; [lia|]. cbn [negb andb].
    pose proof (hist_length _ _ I) as Hlen. simpl in Hlen.
    destruct (walk_spec st _ I (S (Z.to_nat (h * w))) goal
                (upd (fun _ => None) start (Some (dst st start))) [] hist eq_refl) as (vis & img' & Hw & Hpc & Hin & Hout); [lia|].
    rewrite Hw. left. exists (vis ++ [start]).
    assert (Hns : ~ In start vis) by (eapply pchain_no_start; eauto).
    assert (Himg : forall c, In c (vis ++ [start]) -> img' c = Some (dst st c)).
    { intros c Hc. apply in_app_or in Hc as [Hc|[<-|[]]]; [now apply Hin|].
      rewrite Hout by auto. apply upd_same. }
    destruct (pchain_vchain st _ img' I vis goal [] hist eq_refl Hpc Himg) as [Hvc _].
    split; [exact Hvc|]. split; [|eapply vchain_NoDup; eauto].
    intros c. split.
    - intros Hc.
      assert (Hdec : In c vis \/ ~ In c vis).
      { clear - c. induction vis as [|y vis IHv]; [right; tauto|].
        destruct (cell_eqb_spec c y) as [->|Hy]; [left; now left|].
        destruct IHv as [H|H]; [left; now right|right; intros [Heq|H']; congruence]. }
      destruct Hdec as [H|H]; [apply in_or_app; now left|].
      rewrite Hout in Hc by auto.
      destruct (cell_eqb_spec c start) as [->|Hne]; [apply in_or_app; right; now left|].
      rewrite upd_other in Hc by auto. congruence.
    - intros Hc. rewrite Himg by auto. discriminate.
  Qed.

  (* ---------- the main loop ---------- *)
  Lemma loop_spec : forall fuel st hist,
    InvS st hist -> InvF st hist -> (Z.to_nat (h * w) < length hist + fuel)%nat ->
    post (search_loop add sqrtZ ofZ ltb h w data barriers offs start goal fuel st).
  Proof.
    induction fuel as [|f IH]; intros st hist I F Hfuel.
    - pose proof (hist_length _ _ I). lia.
    - simpl. destruct (any_open h w st) eqn:Eo.
      + pose proof (min_cost_pixel_open st) as Hmin. cbv zeta in Hmin.
        set (p := min_cost_pixel ofZ ltb h w st) in *.
        destruct (fst p =? NONE) eqn:En; [exact Logic.I|].
        destruct Hmin as [Hmin|Hp]; [rewrite Hmin in En; unfold NONEc in En; simpl in En; lia|].
        pose proof (pop_safe _ _ _ I Hp) as I1.
        destruct (cell_eqb_spec p goal) as [Hpg|Hpg].
        * apply (reconstruct_spec _ hist). rewrite <- Hpg. exact I1.
        * assert (Hph : In p (p :: hist)) by now left.
          destruct (relax_fold p (p :: hist) offs (pop st p) I1 Hph (fun o H => H)) as (I2 & Hmono & Hopen).
          apply (IH _ (p :: hist)); auto.
          -- constructor.
             ++ intros c off [<-|Hc] Hoff Hi Hf.
                ** now apply Hopen.
                ** apply Hmono. apply pop_seen; auto. now apply (f_front _ _ F).
             ++ intros [Heq|Hg]; [congruence|]. now apply (f_goal _ _ F).
             ++ intros Hf. apply Hmono. apply pop_seen; auto. now apply (f_start _ _ F).
          -- simpl. lia.
      + right. split; [reflexivity|].
        pose proof (any_open_false st hist I Eo) as Hno.
        intros Hr.
        assert (G : forall c, reach c -> In c hist).
        { induction 1 as [Hi Hf|b off Hb IHb Hoff Hi Hf].
          - destruct (f_start _ _ F Hf) as [H|H]; [rewrite Hno in H; discriminate|].
            now apply (s_cls _ _ I).
          - destruct (f_front _ _ F b off IHb Hoff Hi Hf) as [H|H]; [rewrite Hno in H; discriminate|].
            now apply (s_cls _ _ I). }
        apply (f_goal _ _ F). now apply G.
  Qed.

  (* ---------- _a_star_search ---------- *)
  Theorem astar_kernel_spec :
    inside start ->
    post (astar_kernel zero add sqrtZ ofZ ltb h w data barriers offs start goal).
  Proof.
    intros Hs. unfold astar_kernel. apply (loop_spec _ _ []).
    - unfold init_state. cbv zeta.
      destruct (blocked data barriers start) eqn:Eb; simpl.
      + constructor; cbn [opn cls dst cst par]; try (intros; simpl in *; try tauto; try discriminate).
        * split; [discriminate|tauto].
        * constructor.
        * destruct H as [H|H]; discriminate.
        * destruct H as [H|H]; discriminate.
        * destruct H as [H|H]; discriminate.
      + assert (Hopen : forall c, upd (fun _ : cell => false) start true c = true -> c = start).
        { intros c Hc. destruct (cell_eqb_spec c start); auto. rewrite upd_other in Hc by auto. discriminate. }
        constructor; cbn [opn cls dst cst par]; try (intros; simpl in *; try tauto; try discriminate).
        * split; [discriminate|tauto].
        * constructor.
        * apply Hopen in H. subst. repeat split; auto; apply Hs.
        * destruct H as [H|H]; [|discriminate]. apply Hopen in H. contradiction.
        * split; apply upd_same.
        * destruct H as [H|H]; [|discriminate]. left. now apply Hopen.
    - constructor.
      + intros c off [].
      + intros [].
      + intros Hf. left. unfold init_state. cbv zeta. unfold free in Hf. rewrite Hf. simpl. apply upd_same.
    - simpl. lia.
  Qed.
  (* ---------- corollaries in the words of the property ---------- *)
  Lemma reach_free c : reach c -> free start /\ free c /\ inside c.
  Proof. induction 1 as [Hi Hf|b off Hb IH Hoff Hi Hf]; tauto. Qed.

  Lemma post_route_chain o : post o -> reach goal ->
    match o with
    | Done img => exists l, vchain img l goal /\ (forall c, img c <> None <-> In c l) /\ NoDup l
    | _ => True
    end.
  Proof.
    destruct o as [| |img]; simpl; auto. intros [H|[_ H]] Hr; [exact H|contradiction].
  Qed.

  Lemma post_no_route_nan o : post o -> ~ reach goal ->
    match o with Done img => forall c, img c = None | _ => True end.
  Proof.
    destruct o as [| |img]; simpl; auto. intros [(l & Hv & _)|[H _]] Hr; [|exact H].
    exfalso. apply Hr. eapply vchain_reach; eauto.
  Qed.

  Lemma post_blocked_endpoint_nan o : post o ->
    blocked data barriers start = true \/ blocked data barriers goal = true ->
    match o with Done img => forall c, img c = None | _ => True end.
  Proof.
    intros Hp Hb. apply post_no_route_nan; auto. intros Hr.
    destruct (reach_free _ Hr) as (H1 & H2 & _). unfold free in *. destruct Hb; congruence.
  Qed.
End Proofs.

Lemma is_inside_spec h w c : is_inside h w c = true <-> inside h w c.
Proof. unfold is_inside, inside. lia. Qed.
