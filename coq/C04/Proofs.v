(* C04/Proofs.v — crosstab count specification, percentage row sums, restriction. *)
Require Import Base.Prelude Base.XVal.
Require Import C04.GeneratedC02Model C04.GeneratedC02Sorting C04.GeneratedC02Proofs C04.GeneratedC02Reducers.
Require Import C04.Model.
From Coq Require Import QArith Qfield.
Open Scope Z_scope.

(* ---- unique_cats ---- *)
Lemma valid_fin nodata v : valid nodata v = true -> xisfinite v = true.
Proof. unfold valid. intros H. apply andb_true_iff in H. tauto. Qed.

Lemma filter_valid_fin nodata l : all_fin (filter (valid nodata) l).
Proof.
  unfold all_fin. rewrite Forall_forall. intros x Hx. apply filter_In in Hx.
  eapply valid_fin; apply Hx.
Qed.

Lemma unique_cats_spec nodata vals :
  let uc := unique_cats nodata vals in
  ascending uc /\ all_fin uc /\ (forall c, In c uc <-> In c vals /\ valid nodata c = true).
Proof.
  unfold unique_cats.
  destruct (np_unique_spec (filter (valid nodata) vals)) as (N & S & I).
  { apply all_fin_no_nan, filter_valid_fin. }
  split; [exact S|]. split.
  - unfold all_fin. rewrite Forall_forall. intros c Hc. apply I in Hc. apply filter_In in Hc.
    eapply valid_fin; apply Hc.
  - intros c. rewrite I, filter_In. tauto.
Qed.

(* ---- the category loop with the running offset ---- *)
Lemma cat_counts_cumsum (g : xv -> Z) cids : forall cs s,
  cat_counts cs cids (cumsum s (map g cs)) s = map (fun c => (c, g c)) (filter (fun c => memx c cids) cs).
Proof.
  induction cs as [|c cs IH]; intros s; simpl; auto.
  destruct (memx c cids); simpl; rewrite IH; auto.
  f_equal. f_equal. lia.
Qed.

Lemma lookup_map {X} (d : X) (g : xv -> X) c : forall L,
  In c L -> nn c -> lookup d c (map (fun k => (k, g k)) L) = g c.
Proof.
  induction L as [|k L IH]; intros Hin Hn; [destruct Hin|]. simpl.
  destruct (xeqb k c) eqn:E.
  - apply xeqb_true in E. subst; auto.
  - destruct Hin as [->|Hin]; [rewrite xeqb_nn_refl in E; [discriminate|auto]|]. apply IH; auto.
Qed.

Lemma index_of_nth {X} (d : X) (g : xv -> X) c : forall L,
  In c L -> nn c -> nthZ d (map g L) (index_of c L) = g c.
Proof.
  induction L as [|k L IH]; intros Hin Hn; [destruct Hin|]. cbn [map index_of].
  destruct (xeqb k c) eqn:E.
  - apply xeqb_true in E. subst; auto.
  - destruct Hin as [->|Hin]; [rewrite xeqb_nn_refl in E; [discriminate|auto]|].
    assert (H0 : 0 <= index_of c L). { clear. induction L; cbn [index_of]; [lia|]. destruct (xeqb a c); lia. }
    rewrite nthZ_cons_S by lia. replace (1 + index_of c L - 1) with (index_of c L) by lia. apply IH; auto.
Qed.

Lemma perm_filter_len {X} (p : X -> bool) l l' : Permutation l l' -> lenZ (filter p l) = lenZ (filter p l').
Proof. intros P. unfold lenZ. rewrite (Permutation_length (Permutation_filter' p _ _ P)). reflexivity. Qed.

Section Spec2D.
  Context {A : Type}.
  Variables key value : A -> xv.
  Variable nodata : xv.

  (* the valid values of zone u *)
  Definition zvals (cells : list A) (u : xv) : list xv :=
    filter (valid nodata) (map value (filter (keq key u) cells)).
  (* total valid cells of zone u; cells of zone u whose (valid) value equals c *)
  Definition tot (cells : list A) (u : xv) : Z := lenZ (zvals cells u).
  Definition cnt (cells : list A) (u c : xv) : Z := lenZ (filter (keq kid c) (zvals cells u)).

  Lemma single_zone_2d_spec ucats cids (G : list A) :
    ascending ucats -> no_nan ucats ->
    (forall a, In a G -> valid nodata (value a) = true -> In (value a) ucats) ->
    let zv := filter (valid nodata) (map value G) in
    single_zone_2d cat_counts nodata ucats cids (map value G)
    = (lenZ zv, map (fun c => (c, lenZ (filter (keq kid c) zv))) (filter (fun c => memx c cids) ucats)).
  Proof.
    intros Ha Hn Hcov zv. unfold single_zone_2d. fold zv. f_equal.
    assert (Hc : covered kid (ksort kid zv) ucats).
    { unfold covered. rewrite Forall_forall. intros x Hx.
      apply (Permutation_in _ (ksort_perm kid zv)) in Hx. unfold zv in Hx.
      apply filter_In in Hx. destruct Hx as [Hx Hv]. apply in_map_iff in Hx.
      destruct Hx as (a & <- & Hin). unfold kid. auto. }
    destruct (strides_go_groups kid ucats (ksort kid zv) 0 (ksort_sorted kid zv) Ha Hn Hc) as [H1 _].
    unfold strides.
    assert (Hm : map kid (ksort kid zv) = ksort kid zv) by apply map_id.
    rewrite Hm in H1. rewrite H1.
    rewrite (cat_counts_cumsum (fun c => lenZ (filter (keq kid c) (ksort kid zv)))).
    apply map_ext. intros c. f_equal. apply perm_filter_len, ksort_perm.
  Qed.

  Lemma zone_loop_2d_spec (cells : list A) uz zids ucats cids :
    uz_ok key cells uz -> ascending zids -> all_fin zids -> (forall u, In u zids -> In u uz) ->
    ascending ucats -> no_nan ucats ->
    (forall a, In a cells -> valid nodata (value a) = true -> In (value a) ucats) ->
    zone_loop_2d key value cat_counts cells uz zids ucats cids nodata
    = map (fun u => (tot cells u, map (fun c => (c, cnt cells u c)) (filter (fun c => memx c cids) ucats))) zids.
  Proof.
    intros Hok Hza Hzf Hzs Hca Hcn Hcov. unfold zone_loop_2d.
    destruct (sort_and_stride key cells uz) as [kept breaks] eqn:E.
    pose proof (sort_and_stride_spec key cells uz Hok) as H.
    rewrite E in H. cbn [fst snd] in H. destruct H as (P & _ & S).
    assert (Ek : kept = kfinite key (ksort key cells)) by (unfold sort_and_stride in E; congruence).
    destruct Hok as (Hua & Huf & Huc).
    rewrite slices_map, S, map_map, combine_map_self.
    rewrite (filter_map_comm (fun u => (u, map value (filter (keq key u) kept))) (fun p => memx (fst p) zids)).
    cbn [fst].
    rewrite (filter_mem_ascending uz zids Hua Hza (all_fin_no_nan _ Hzf) (all_fin_no_nan _ Huf) Hzs).
    rewrite map_map. cbn [snd]. apply map_ext_in. intros u Hu.
    assert (Hfu : xisfinite u = true).
    { unfold all_fin in Hzf. rewrite Forall_forall in Hzf. auto. }
    assert (PG : Permutation (filter (keq key u) kept) (filter (keq key u) cells)).
    { rewrite Ek. apply keq_group_perm; auto. }
    rewrite single_zone_2d_spec; auto.
    - assert (PV : Permutation (filter (valid nodata) (map value (filter (keq key u) kept))) (zvals cells u)).
      { unfold zvals. apply Permutation_filter', Permutation_map, PG. }
      f_equal.
      + unfold tot, lenZ. rewrite (Permutation_length PV). reflexivity.
      + apply map_ext. intros c. f_equal. unfold cnt. apply perm_filter_len, PV.
    - intros a Hin Hv. apply Hcov; auto.
      apply (Permutation_in _ PG) in Hin. apply filter_In in Hin. tauto.
  Qed.

  Lemma select_cats_In ucats cat_ids c :
    no_nan ucats -> In c (select_cats ucats cat_ids) ->
    In c ucats /\ nn c /\ memx c (select_cats ucats cat_ids) = true.
  Proof.
    intros Hn Hin.
    assert (H : In c ucats /\ nn c).
    { destruct cat_ids as [l|]; simpl in Hin.
      - apply filter_In in Hin. destruct Hin as [_ Hm]. apply memx_In in Hm. destruct Hm as [Hm Hnan].
        split; auto. unfold no_nan in Hn. rewrite Forall_forall in Hn. auto.
      - split; auto. unfold no_nan in Hn. rewrite Forall_forall in Hn. auto. }
    destruct H as [H1 H2]. split; auto. split; auto. apply memx_In_nn; auto.
  Qed.

  (* THE count specification *)
  Theorem crosstab_2d_spec (cells : list A) zone_ids cat_ids :
    ids_ok zone_ids ->
    crosstab_2d key value cells zone_ids cat_ids nodata
    = map (fun u => (u, (tot cells u,
                         map (cnt cells u) (select_cats (unique_cats nodata (map value cells)) cat_ids))))
          (select_ids (unique_zones key cells) zone_ids).
  Proof.
    intros Hids. unfold crosstab_2d.
    pose proof (unique_zones_ok key cells) as Hok.
    set (uz := unique_zones key cells) in *.
    destruct (unique_cats_spec nodata (map value cells)) as (Ca & Cf & Ci).
    set (ucats := unique_cats nodata (map value cells)) in *.
    set (cids := select_cats ucats cat_ids).
    pose proof Hok as (Ha & Hf & Hc).
    destruct (select_ids_spec uz zone_ids Ha Hf Hids) as (Sa & Sf & Si).
    set (zids := select_ids uz zone_ids) in *.
    rewrite zone_loop_2d_spec; auto.
    - unfold assemble. rewrite map_map. cbn [fst snd]. rewrite combine_map_self.
      apply map_ext. intros u. f_equal. f_equal.
      apply map_ext_in. intros c Hcin.
      destruct (select_cats_In ucats cat_ids c (all_fin_no_nan _ Cf) Hcin) as (H1 & H2 & H3).
      apply lookup_map; auto. apply filter_In. split; auto.
    - intros u Hu. apply Si in Hu. tauto.
    - apply all_fin_no_nan; auto.
    - intros a Hin Hv. apply Ci. split; auto. apply in_map; auto.
  Qed.

  (* every valid value of a zone is one of the categories, once: the counts of a row add up to the total *)
  Theorem row_counts_sum (cells : list A) u :
    f_sum (map (cnt cells u) (unique_cats nodata (map value cells))) = tot cells u.
  Proof.
    destruct (unique_cats_spec nodata (map value cells)) as (Ca & Cf & Ci).
    set (ucats := unique_cats nodata (map value cells)) in *.
    set (zv := zvals cells u).
    assert (Hc : covered kid (ksort kid zv) ucats).
    { unfold covered. rewrite Forall_forall. intros x Hx.
      apply (Permutation_in _ (ksort_perm kid zv)) in Hx. unfold zv, zvals in Hx.
      apply filter_In in Hx. destruct Hx as [Hx Hv]. apply in_map_iff in Hx.
      destruct Hx as (a & <- & Hin). apply filter_In in Hin. unfold kid. apply Ci. split; auto.
      apply in_map; tauto. }
    destruct (strides_go_groups kid ucats (ksort kid zv) 0 (ksort_sorted kid zv) Ca (all_fin_no_nan _ Cf) Hc)
      as [_ H2].
    unfold tot. fold zv.
    assert (Hl : lenZ zv = lenZ (ksort kid zv)).
    { unfold lenZ. rewrite (Permutation_length (ksort_perm kid zv)). reflexivity. }
    rewrite Hl.
    assert (Hgen : forall L, f_sum (map (cnt cells u) L) = lenZ (concat (map (fun c => filter (keq kid c) (ksort kid zv)) L))).
    { induction L as [|c L IH]; [reflexivity|]. cbn [map concat]. rewrite lenZ_app, <- IH.
      rewrite f_sum_cons. f_equal. unfold cnt. fold zv. symmetry. apply perm_filter_len, ksort_perm. }
    rewrite Hgen. f_equal. symmetry. exact H2.
  Qed.
End Spec2D.

(* ---- percentage ---- *)
Lemma qsum_pct p : forall l,
  (qsum (map (fun n => Qmake (n * 100) p) l) == Qmake (f_sum l * 100) p)%Q.
Proof.
  induction l as [|n l IH]; [reflexivity|].
  cbn [map qsum fold_right]. fold (qsum (map (fun n => Qmake (n * 100) p) l)). rewrite IH. rewrite f_sum_cons.
  unfold Qeq, Qplus. simpl. nia.
Qed.

Lemma pct_row_sum total counts :
  0 < total -> f_sum counts = total ->
  map (pct total) counts = map (fun n => Some (Qmake (n * 100) (Z.to_pos total))) counts /\
  (qsum (map (fun n => Qmake (n * 100) (Z.to_pos total)) counts) == 100)%Q.
Proof.
  intros Ht Hs. split.
  - apply map_ext. intros n. unfold pct. destruct (total =? 0) eqn:E; [lia|reflexivity].
  - rewrite qsum_pct, Hs. destruct total as [|t|t]; try lia. unfold Qeq. simpl. lia.
Qed.

(* ---- restriction = selecting rows / columns of the unrestricted table ---- *)
Definition restrict (zids ucats cids : list xv) (t : ctab) : ctab :=
  map (fun u => let r := lookup (0, []) u t in
                (u, (fst r, map (fun c => nthZ 0 (snd r) (index_of c ucats)) cids))) zids.

Theorem crosstab_2d_restrict {A} (key value : A -> xv) nodata (cells : list A) zone_ids cat_ids :
  ids_ok zone_ids ->
  crosstab_2d key value cells zone_ids cat_ids nodata
  = restrict (select_ids (unique_zones key cells) zone_ids)
             (unique_cats nodata (map value cells))
             (select_cats (unique_cats nodata (map value cells)) cat_ids)
             (crosstab_2d key value cells None None nodata).
Proof.
  intros Hids. rewrite (crosstab_2d_spec key value nodata cells zone_ids cat_ids Hids).
  rewrite (crosstab_2d_spec key value nodata cells None None I).
  cbn [select_ids select_cats].
  pose proof (unique_zones_ok key cells) as (Ha & Hf & Hc).
  set (uz := unique_zones key cells) in *.
  destruct (unique_cats_spec nodata (map value cells)) as (Ca & Cf & Ci).
  set (ucats := unique_cats nodata (map value cells)) in *.
  destruct (select_ids_spec uz zone_ids Ha Hf Hids) as (Sa & Sf & Si).
  unfold restrict. apply map_ext_in. intros u Hu.
  assert (Huz : In u uz) by (apply Si in Hu; tauto).
  assert (Hun : nn u).
  { apply fin_nn. unfold all_fin in Hf. rewrite Forall_forall in Hf. auto. }
  rewrite (lookup_map (0, []) (fun u => (tot key value nodata cells u, map (cnt key value nodata cells u) ucats)) u uz Huz Hun).
  cbn [fst snd]. f_equal. f_equal.
  apply map_ext_in. intros c Hcin.
  destruct (select_cats_In ucats cat_ids c (all_fin_no_nan _ Cf) Hcin) as (H1 & H2 & _).
  symmetry. apply index_of_nth; auto.
Qed.

(* ---- 3-D ---- *)
Section Spec3D.
  Context {A T : Type}.
  Variable key : A -> xv.
  Variable layers : A -> list xv.
  Variable f : list Z -> T.
  Variable empty : option T.
  Hypothesis f_perm : forall l l', Permutation l l' -> f l = f l'.

  Lemma agg3_perm nodata l l' : Permutation l l' -> agg3 f empty nodata l = agg3 f empty nodata l'.
  Proof.
    intros P. unfold agg3. pose proof (valid_vals_perm nodata _ _ P) as Q.
    destruct (valid_vals nodata l) as [|x r], (valid_vals nodata l') as [|x' r']; auto.
    - exfalso. eapply Permutation_nil_cons; eauto.
    - exfalso. apply Permutation_sym in Q. eapply Permutation_nil_cons; eauto.
    - f_equal. apply f_perm; auto.
  Qed.

  Lemma single_zone_3d_perm nodata ucats cids G G' :
    Permutation G G' ->
    single_zone_3d layers f empty nodata ucats cids G = single_zone_3d layers f empty nodata ucats cids G'.
  Proof.
    intros P. unfold single_zone_3d. apply flat_map_ext. intros [j c]. cbn [fst snd].
    destruct (memx c cids); auto. f_equal. f_equal. apply agg3_perm, Permutation_map, P.
  Qed.

  Theorem crosstab_3d_spec (cells : list A) ucats zone_ids cat_ids nodata :
    ids_ok zone_ids ->
    crosstab_3d key layers f empty cells ucats zone_ids cat_ids nodata
    = map (fun u => (u, map (fun c => lookup None c
                                  (single_zone_3d layers f empty nodata ucats (select_cats ucats cat_ids)
                                                  (filter (keq key u) cells)))
                            (select_cats ucats cat_ids)))
          (select_ids (unique_zones key cells) zone_ids).
  Proof.
    intros Hids. unfold crosstab_3d.
    pose proof (unique_zones_ok key cells) as Hok.
    set (uz := unique_zones key cells) in *.
    pose proof Hok as (Ha & Hf & Hc).
    destruct (select_ids_spec uz zone_ids Ha Hf Hids) as (Sa & Sf & Si).
    set (zids := select_ids uz zone_ids) in *.
    set (cids := select_cats ucats cat_ids).
    destruct (sort_and_stride key cells uz) as [kept breaks] eqn:E.
    pose proof (sort_and_stride_spec key cells uz Hok) as H.
    rewrite E in H. cbn [fst snd] in H. destruct H as (P & _ & S).
    assert (Ek : kept = kfinite key (ksort key cells)) by (unfold sort_and_stride in E; congruence).
    rewrite S, combine_map_self.
    rewrite (filter_map_comm (fun u => (u, filter (keq key u) kept)) (fun p => memx (fst p) zids)).
    cbn [fst].
    rewrite (filter_mem_ascending uz zids Ha Sa (all_fin_no_nan _ Sf) (all_fin_no_nan _ Hf)).
    2:{ intros x Hx. apply Si in Hx. tauto. }
    rewrite !map_map. cbn [snd]. rewrite combine_map_self.
    apply map_ext_in. intros u Hu. f_equal. apply map_ext. intros c. f_equal.
    apply single_zone_3d_perm. rewrite Ek. apply keq_group_perm.
    unfold all_fin in Sf. rewrite Forall_forall in Sf. auto.
  Qed.
End Spec3D.
