Require Import Extraction ExtrOcamlBasic.
Require Import Base.Prelude Base.XVal C04.GeneratedC02Model C04.Model.
Extraction Language OCaml.
Extraction "model.ml" xtab xtab_orig percentages xtab3 f_count f_sum f_min f_max f_mean f_var.
