(* C04/Props.v — the property theorems claimed for C04 (crosstab is a true
   contingency table under any zone / category selection), nothing else. *)
Require Import Base.Prelude Base.XVal.
Require Import C04.GeneratedC02Model C04.GeneratedC02Sorting C04.GeneratedC02Proofs C04.GeneratedC02Reducers.
Require Import C04.Model C04.Proofs.
From Coq Require Import QArith.
Open Scope Z_scope.

(* THE COUNT SPECIFICATION, all rasters of any size, any nodata, any NaN-free
   zone_ids (any order, absent / duplicate ids), any cat_ids (any order, absent ids):
   rows = the requested distinct finite zone ids that exist, ascending, each labelled
   with its own zone; the entry of row u and selected category c is the number of
   cells with zone u whose value is valid (finite, not nodata) and equals c; the
   hidden total is the number of valid cells of zone u. *)
Theorem C04_crosstab_count_spec : forall (A : Type) (key value : A -> xv) (nodata : xv)
    (cells : list A) (zone_ids cat_ids : option (list xv)),
  ids_ok zone_ids ->
  let ucats := unique_cats nodata (map value cells) in
  let t := crosstab_2d key value cells zone_ids cat_ids nodata in
  t = map (fun u => (u, (lenZ (filter (valid nodata) (map value (filter (keq key u) cells))),
                         map (fun c => lenZ (filter (fun v => xeqb v c)
                                (filter (valid nodata) (map value (filter (keq key u) cells)))))
                             (select_cats ucats cat_ids))))
          (map fst t) /\
  ascending (map fst t) /\
  (forall u, In u (map fst t) <->
     (xisfinite u = true /\ (exists a, In a cells /\ key a = u) /\ requested zone_ids u)) /\
  (forall c, In c ucats <-> exists a, In a cells /\ value a = c /\ valid nodata c = true).
Proof.
  intros A key value nodata cells zone_ids cat_ids Hids ucats t.
  assert (E : t = map (fun u => (u, (tot key value nodata cells u,
                        map (cnt key value nodata cells u) (select_cats ucats cat_ids))))
                      (select_ids (unique_zones key cells) zone_ids)).
  { apply crosstab_2d_spec; auto. }
  assert (Efst : map fst t = select_ids (unique_zones key cells) zone_ids).
  { rewrite E, map_map. cbn [fst]. apply map_id. }
  destruct (unique_zones_ok key cells) as (Ha & Hfin & _).
  destruct (select_ids_spec _ zone_ids Ha Hfin Hids) as (Sa & Sf & Si).
  rewrite Efst. split; [exact E|]. split; [exact Sa|]. split.
  - intros u. rewrite Si, unique_zones_In. tauto.
  - intros c. destruct (unique_cats_spec nodata (map value cells)) as (_ & _ & Ci).
    fold ucats in Ci. rewrite Ci, in_map_iff. split.
    + intros [(a & E1 & Hin) Hv]. exists a; auto.
    + intros (a & Hin & E1 & Hv). split; auto. exists a; auto.
Qed.
Print Assumptions C04_crosstab_count_spec.

(* "a true contingency table": with unrestricted categories the entries of every row add up to the row's
   (hidden) total, which is the number of valid cells of that zone — no valid cell is dropped or counted twice *)
Theorem C04_row_counts_sum_to_total : forall (A : Type) (key value : A -> xv) (nodata : xv)
    (cells : list A) (zone_ids : option (list xv)) (u : xv) (total : Z) (counts : list Z),
  ids_ok zone_ids ->
  In (u, (total, counts)) (crosstab_2d key value cells zone_ids None nodata) ->
  f_sum counts = total /\
  total = lenZ (filter (valid nodata) (map value (filter (keq key u) cells))).
Proof.
  intros A key value nodata cells zone_ids u total counts Hids Hin.
  rewrite (crosstab_2d_spec key value nodata cells zone_ids None Hids) in Hin.
  cbn [select_cats] in Hin.
  apply in_map_iff in Hin. destruct Hin as (u' & Heq & _). inversion Heq; subst. clear Heq.
  split; [apply row_counts_sum|reflexivity].
Qed.
Print Assumptions C04_row_counts_sum_to_total.

(* agg='percentage' on the unrestricted categories: every non-empty row sums to
   exactly 100 (as rationals); an empty row is all NaN *)
Theorem C04_percentage_row_sum : forall (A : Type) (key value : A -> xv) (nodata : xv)
    (cells : list A) (zone_ids : option (list xv)) (u : xv) (entries : list (option Q)),
  ids_ok zone_ids ->
  In (u, entries) (percentages (crosstab_2d key value cells zone_ids None nodata)) ->
  let total := lenZ (filter (valid nodata) (map value (filter (keq key u) cells))) in
  (total = 0 -> Forall (fun e => e = None) entries) /\
  (0 < total -> exists qs, entries = map Some qs /\ (qsum qs == 100)%Q).
Proof.
  intros A key value nodata cells zone_ids u entries Hids Hin total.
  rewrite (crosstab_2d_spec key value nodata cells zone_ids None Hids) in Hin.
  unfold percentages in Hin. rewrite map_map in Hin. cbn [fst snd select_cats] in Hin.
  apply in_map_iff in Hin. destruct Hin as (u' & Heq & _). inversion Heq; subst u' entries. clear Heq.
  change total with (tot key value nodata cells u).
  pose proof (row_counts_sum key value nodata cells u) as Hsum.
  split.
  - intros H0. rewrite Forall_forall. intros e He. apply in_map_iff in He.
    destruct He as (n & <- & _). unfold pct. rewrite H0. reflexivity.
  - intros Hpos. destruct (pct_row_sum _ _ Hpos Hsum) as [H1 H2].
    eexists. split; [|exact H2]. rewrite H1, !map_map. reflexivity.
Qed.
Print Assumptions C04_percentage_row_sum.

(* restricting with zone_ids / cat_ids (any order) returns exactly the
   corresponding rows and columns of the unrestricted table, each row labelled
   with its own zone: rows = the requested existing zones (ascending), columns =
   the requested existing categories in request order *)
Theorem C04_restrict : forall (A : Type) (key value : A -> xv) (nodata : xv)
    (cells : list A) (zone_ids cat_ids : option (list xv)),
  ids_ok zone_ids ->
  crosstab_2d key value cells zone_ids cat_ids nodata
  = restrict (select_ids (unique_zones key cells) zone_ids)
             (unique_cats nodata (map value cells))
             (select_cats (unique_cats nodata (map value cells)) cat_ids)
             (crosstab_2d key value cells None None nodata).
Proof. intros; apply crosstab_2d_restrict; auto. Qed.
Print Assumptions C04_restrict.

(* 3-D values: the entry of zone u and layer j (label c_j, selected) is the chosen
   aggregate f over the valid cells of layer j within exactly the cells of zone u,
   for every permutation-invariant aggregate f; rows as in the 2-D case *)
Theorem C04_crosstab3d_spec : forall (A T : Type) (key : A -> xv) (layers : A -> list xv)
    (f : list Z -> T) (empty : option T),
  (forall l l', Permutation l l' -> f l = f l') ->
  forall (cells : list A) (ucats : list xv) (zone_ids cat_ids : option (list xv)) (nodata : xv),
  ids_ok zone_ids ->
  crosstab_3d key layers f empty cells ucats zone_ids cat_ids nodata
  = map (fun u => (u, map (fun c => lookup None c
                              (single_zone_3d layers f empty nodata ucats (select_cats ucats cat_ids)
                                              (filter (keq key u) cells)))
                          (select_cats ucats cat_ids)))
        (select_ids (unique_zones key cells) zone_ids).
Proof. intros; apply crosstab_3d_spec; auto. Qed.
Print Assumptions C04_crosstab3d_spec.

(* ---- non-vacuity and regression witnesses ---- *)
(* zone 1 holds values 1,2,2,3; zone 2 holds 1,1,3,3 (DESIGN.md section 7 rows 1-2) *)
Definition ex_cells : list cell :=
  [(XFin 1, XFin 1); (XFin 1, XFin 2); (XFin 1, XFin 2); (XFin 1, XFin 3);
   (XFin 2, XFin 1); (XFin 2, XFin 1); (XFin 2, XFin 3); (XFin 2, XFin 3); (XNaN, XFin 1); (XFin 2, XNaN)].
Example C04_nonvacuous :
  xtab ex_cells None None XNaN = [(XFin 1, (4, [1; 2; 1])); (XFin 2, (4, [2; 0; 2]))] /\
  xtab ex_cells (Some [XFin 2; XFin 1; XFin 5]) (Some [XFin 3; XFin 7; XFin 1]) XNaN
    = [(XFin 1, (4, [1; 1])); (XFin 2, (4, [2; 2]))] /\
  percentages (xtab ex_cells (Some [XFin 1]) None XNaN)
    = [(XFin 1, [Some (100 # 4); Some (200 # 4); Some (100 # 4)])].
Proof. repeat split; vm_compute; reflexivity. Qed.

(* the unpatched running offset: skipping the present category 2 inflates the count of 3
   (fixed by fixes/C04-cat-start-offset.diff) *)
Example C04_crosstab_offset_refuted :
  xtab_orig ex_cells None (Some [XFin 1; XFin 3]) XNaN = [(XFin 1, (4, [1; 3])); (XFin 2, (4, [2; 2]))] /\
  xtab ex_cells None (Some [XFin 1; XFin 3]) XNaN = [(XFin 1, (4, [1; 1])); (XFin 2, (4, [2; 2]))].
Proof. split; vm_compute; reflexivity. Qed.

(* the unpatched row labelling: rows labelled in request order but computed in sorted order
   (fixed by fixes/C04-zone-row-labels.diff) *)
Example C04_crosstab_rowlabel_refuted :
  xtab_orig ex_cells (Some [XFin 2; XFin 1]) None XNaN = [(XFin 2, (4, [1; 2; 1])); (XFin 1, (4, [2; 0; 2]))] /\
  xtab ex_cells (Some [XFin 2; XFin 1]) None XNaN = [(XFin 1, (4, [1; 2; 1])); (XFin 2, (4, [2; 0; 2]))].
Proof. split; vm_compute; reflexivity. Qed.
