(* C04/Model.v — executable model of xrspatial/zonal.py `crosstab` (NumPy path):
   _find_cats, _single_zone_crosstab_2d (running cat_start), _single_zone_crosstab_3d,
   _crosstab_numpy (zone selection, row labelling, percentage).  Definitions only.
   Built on the C02 model of _sort_and_stride / _strides (GeneratedC02Model.v is a
   verbatim copy of coq/C02/Model.v).  The model follows the source AFTER
   fixes/C04-cat-start-offset.diff and fixes/C04-zone-row-labels.diff; the unpatched
   behaviour is kept as [cat_counts_orig] / [crosstab_2d_orig] for the refutation
   witnesses in Props.v. *)
Require Import Base.Prelude Base.XVal C04.GeneratedC02Model.
From Coq Require Import QArith.
Open Scope Z_scope.

(* _find_cats, 2-D: unique_cats = np.unique(values[isfinite(values) & (values != nodata)]) *)
Definition unique_cats (nodata : xv) (vals : list xv) : list xv := np_unique (filter (valid nodata) vals).
(* cat_ids = [c for c in cat_ids if c in unique_cats]   (request order, duplicates kept) *)
Definition select_cats (ucats : list xv) (cat_ids : option (list xv)) : list xv :=
  match cat_ids with None => ucats | Some l => filter (fun c => memx c ucats) l end.

(* the loop of _single_zone_crosstab_2d:
     cat_start = 0
     for j, cat in enumerate(unique_cats):
         if cat in cat_ids: count = zone_cat_breaks[j] - cat_start; crosstab_dict[cat].append(count)
         cat_start = zone_cat_breaks[j]          # patched: advanced for EVERY category *)
Fixpoint cat_counts (ucats cat_ids : list xv) (breaks : list Z) (cat_start : Z) : list (xv * Z) :=
  match ucats, breaks with
  | c :: cs, b :: bs =>
    if memx c cat_ids then (c, b - cat_start) :: cat_counts cs cat_ids bs b
    else cat_counts cs cat_ids bs b
  | _, _ => []
  end.
(* unpatched: cat_start only advanced inside the `if` *)
Fixpoint cat_counts_orig (ucats cat_ids : list xv) (breaks : list Z) (cat_start : Z) : list (xv * Z) :=
  match ucats, breaks with
  | c :: cs, b :: bs =>
    if memx c cat_ids then (c, b - cat_start) :: cat_counts_orig cs cat_ids bs b
    else cat_counts_orig cs cat_ids bs cat_start
  | _, _ => []
  end.

Definition kid (v : xv) : xv := v.

Section Zone2D.
  Variable counts_loop : list xv -> list xv -> list Z -> Z -> list (xv * Z).
  (* one call of _single_zone_crosstab_2d: (total_count, [(cat, count)] for the selected cats) *)
  Definition single_zone_2d (nodata : xv) (ucats cat_ids : list xv) (zone_values : list xv)
    : Z * list (xv * Z) :=
    let zv := filter (valid nodata) zone_values in
    let total := lenZ zv in
    let sorted := ksort kid zv in
    let breaks := strides sorted ucats in
    (total, counts_loop ucats cat_ids breaks 0).
End Zone2D.

(* column lookup  crosstab_dict[cat]  for the row being built *)
Fixpoint lookup {X} (d : X) (c : xv) (l : list (xv * X)) : X :=
  match l with
  | [] => d
  | (k, x) :: r => if xeqb k c then x else lookup d c r
  end.

(* rows: (zone label, (total valid cells of the zone, [count per selected category, in cat_ids order])) *)
Definition ctab : Type := list (xv * (Z * list Z)).

Section Crosstab2D.
  Context {A : Type}.
  Variables key value : A -> xv.

  (* the loop over unique_zones of _crosstab_numpy / _single_chunk_crosstab:
     one (total, counts) entry per SELECTED zone, in unique_zones order *)
  Definition zone_loop_2d counts_loop (cells : list A) (uz zids ucats cids : list xv) (nodata : xv)
    : list (Z * list (xv * Z)) :=
    let '(kept, breaks) := sort_and_stride key cells uz in
    map (fun p => single_zone_2d counts_loop nodata ucats cids (snd p))
        (filter (fun p => memx (fst p) zids) (combine uz (slices (map value kept) 0 breaks))).

  Definition assemble (zids cids : list xv) (per_zone : list (Z * list (xv * Z))) : ctab :=
    combine zids (map (fun tc => (fst tc, map (fun c => lookup 0 c (snd tc)) cids)) per_zone).

  (* _crosstab_numpy, 2-D values, patched: zone_ids = np.unique(zone_ids) then filtered *)
  Definition crosstab_2d (cells : list A) (zone_ids cat_ids : option (list xv)) (nodata : xv) : ctab :=
    let uz := unique_zones key cells in
    let ucats := unique_cats nodata (map value cells) in
    let cids := select_cats ucats cat_ids in
    let zids := select_ids uz zone_ids in
    assemble zids cids (zone_loop_2d cat_counts cells uz zids ucats cids nodata).

  (* unpatched: zone_ids = [z for z in zone_ids if z in unique_zones] (request order) and
     the conditional cat_start *)
  Definition select_ids_orig (uz : list xv) (zone_ids : option (list xv)) : list xv :=
    match zone_ids with None => uz | Some l => filter (fun z => memx z uz) l end.
  Definition crosstab_2d_orig (cells : list A) (zone_ids cat_ids : option (list xv)) (nodata : xv) : ctab :=
    let uz := unique_zones key cells in
    let ucats := unique_cats nodata (map value cells) in
    let cids := select_cats ucats cat_ids in
    let zids := select_ids_orig uz zone_ids in
    assemble zids cids (zone_loop_2d cat_counts_orig cells uz zids ucats cids nodata).
End Crosstab2D.

(* agg='percentage': total 0 -> NaN; entry = count / total * 100 (exact) *)
Definition pct (total count : Z) : option Q :=
  if total =? 0 then None else Some (Qmake (count * 100) (Z.to_pos total)).
Definition percentages (t : ctab) : list (xv * list (option Q)) :=
  map (fun r => (fst r, map (pct (fst (snd r))) (snd (snd r)))) t.

(* ---- 3-D values: one layer per category ---------------------------------
   _single_zone_crosstab_3d applies _DEFAULT_STATS[agg] to the valid cells of layer j
   inside the zone — also when there are none (count/sum give 0, mean/std/var NaN;
   min/max raise on an empty array: outside the modelled domain). *)
Definition agg3 {T} (f : list Z -> T) (empty : option T) (nodata : xv) (layer_values : list xv) : option T :=
  match valid_vals nodata layer_values with
  | [] => empty
  | zv => Some (f zv)
  end.

Section Crosstab3D.
  Context {A T : Type}.
  Variable key : A -> xv.
  Variable layers : A -> list xv.         (* the cell's value in every layer *)
  Variable f : list Z -> T.
  Variable empty : option T.
  Definition layer (j : nat) (a : A) : xv := nth j (layers a) XNaN.

  Definition single_zone_3d (nodata : xv) (ucats cids : list xv) (zone_cells : list A) : list (xv * option T) :=
    flat_map (fun jc => if memx (snd jc) cids
                        then [(snd jc, agg3 f empty nodata (map (layer (fst jc)) zone_cells))] else [])
             (combine (seq 0 (length ucats)) ucats).

  (* ucats = values[values.dims[0]].data (the layer labels, given) *)
  Definition crosstab_3d (cells : list A) (ucats : list xv) (zone_ids cat_ids : option (list xv)) (nodata : xv)
    : list (xv * list (option T)) :=
    let uz := unique_zones key cells in
    let cids := select_cats ucats cat_ids in
    let zids := select_ids uz zone_ids in
    let '(kept, breaks) := sort_and_stride key cells uz in
    let per_zone := map (fun p => single_zone_3d nodata ucats cids (snd p))
                        (filter (fun p => memx (fst p) zids) (combine uz (slices kept 0 breaks))) in
    combine zids (map (fun cols => map (fun c => lookup None c cols) cids) per_zone).
End Crosstab3D.

(* ---- concrete instances used by the driver ---- *)
Definition xtab := crosstab_2d (A := cell) fst snd.
Definition xtab_orig := crosstab_2d_orig (A := cell) fst snd.
Definition cell3 : Type := xv * list xv.
Definition xtab3 {T} (f : list Z -> T) (empty : option T) := crosstab_3d (A := cell3) fst snd f empty.
