Require Import Extraction ExtrOcamlBasic.
Require Import Base.Prelude Base.XVal C07.Generated_C06Model C07.Generated C07.Model.
Extraction Language OCaml.
Extraction "model.ml" run_model_dask run_model_whole.
