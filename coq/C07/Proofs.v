(* C07/Proofs.v — the halo computed by _process_dask covers max_distance (over Q, axis order as in
   the generated [depth]); an exact per-block nearest-target algorithm gives chunk-independent
   results; the single-chunk fallback is the NumPy computation. *)
Require Import Base.Prelude Base.XVal C07.Generated_C06Model C07.Generated C07.Model.
From Coq Require Import QArith Qround Qabs Lqa.
Open Scope Z_scope.

(* ---------- halo arithmetic (Q) ---------- *)
Lemma int_trunc_covers (q : Q) (k : Z) :
  (0 <= q)%Q -> (inject_Z k <= q)%Q -> k <= int_trunc (q + (1 # 2)).
Proof.
  intros Hq Hk. unfold int_trunc.
  assert (H0 : Qle_bool 0 (q + (1 # 2)) = true) by (apply Qle_bool_iff; lra).
  rewrite H0. rewrite <- (Qfloor_Z k). apply Qfloor_resp_le. lra.
Qed.

Lemma pad_covers (md cs : Q) (k : Z) :
  (0 < cs)%Q -> (0 <= md)%Q -> (inject_Z (Z.abs k) * cs <= md)%Q ->
  Z.abs k <= int_trunc (md / cs + (1 # 2)).
Proof.
  intros Hcs Hmd Hk. apply int_trunc_covers.
  - apply Qle_shift_div_l; auto. lra.
  - apply Qle_shift_div_l; auto.
Qed.

(* per-axis bound from the two metrics (offsets dx, dy in coordinate units, >= 0 after abs) *)
Lemma euclid_axis (a b md : Q) : (0 <= a)%Q -> (0 <= b)%Q -> (0 <= md)%Q ->
  (a * a + b * b <= md * md)%Q -> (a <= md /\ b <= md)%Q.
Proof. intros Ha Hb Hm H. split; nra. Qed.

Lemma manhattan_axis (a b md : Q) : (0 <= a)%Q -> (0 <= b)%Q ->
  (a + b <= md)%Q -> (a <= md /\ b <= md)%Q.
Proof. intros Ha Hb H. split; lra. Qed.

(* a cell (tr,tc) within max_distance of a cell (r,c) of the block rows [r0, r0+hr) x columns [c0, c0+wc)
   lies inside the block extended by depth = (axis 0: rows, axis 1: columns); cell sizes: rows <-> cellsize_y,
   columns <-> cellsize_x *)
Lemma halo_covers_block (md cx cy : Q) (r0 hr c0 wc r c tr tc : Z) :
  (0 < cx)%Q -> (0 < cy)%Q -> (0 <= md)%Q ->
  r0 <= r < r0 + hr -> c0 <= c < c0 + wc ->
  (let dx := (inject_Z (Z.abs (tc - c)) * cx)%Q in
   let dy := (inject_Z (Z.abs (tr - r)) * cy)%Q in
   (dx * dx + dy * dy <= md * md)%Q \/ (dx + dy <= md)%Q) ->
  let d := depth md cx cy in
  r0 - fst d <= tr < r0 + hr + fst d /\ c0 - snd d <= tc < c0 + wc + snd d.
Proof.
  intros Hcx Hcy Hmd Hr Hc Hdist. cbv zeta in *.
  assert (Hax : (inject_Z (Z.abs (tc - c)) * cx <= md /\ inject_Z (Z.abs (tr - r)) * cy <= md)%Q).
  { assert (Ha : (0 <= inject_Z (Z.abs (tc - c)) * cx)%Q).
    { apply Qmult_le_0_compat; [|lra]. replace 0%Q with (inject_Z 0) by reflexivity.
      rewrite <- Zle_Qle. lia. }
    assert (Hb : (0 <= inject_Z (Z.abs (tr - r)) * cy)%Q).
    { apply Qmult_le_0_compat; [|lra]. replace 0%Q with (inject_Z 0) by reflexivity.
      rewrite <- Zle_Qle. lia. }
    destruct Hdist as [He|Hm]; [apply euclid_axis|apply manhattan_axis]; auto. }
  destruct Hax as (Hx & Hy).
  unfold depth, pad_y, pad_x; simpl fst; simpl snd.
  pose proof (pad_covers md cy (tr - r) Hcy Hmd Hy) as Py.
  pose proof (pad_covers md cx (tc - c) Hcx Hmd Hx) as Px.
  lia.
Qed.

(* ---------- exact per-block results are chunk independent ---------- *)
Section Exact.
  Variable key : Z -> Z -> Z -> Z -> Z.
  Variables xc yc : list (option Z).
  Variable values : list xv.
  Variable img : list (list xv).
  Variable M : ext.

  Definition Tgt (r c : Z) : Prop := is_target values (cellv img r c) = true.

  (* res is the exact nearest-target key of (r,c) among the target cells in W within M (None: there is none) *)
  Definition nearest_in (W : Z -> Z -> Prop) (r c : Z) (res : option Z) : Prop :=
    match res with
    | None => forall tr tc d, W tr tc -> Tgt tr tc -> dist2 key xc yc tr tc r c = Some d -> ele (EFin d) M = false
    | Some d => ele (EFin d) M = true /\
                (exists tr tc, W tr tc /\ Tgt tr tc /\ dist2 key xc yc tr tc r c = Some d) /\
                (forall tr tc d', W tr tc -> Tgt tr tc -> dist2 key xc yc tr tc r c = Some d' -> d <= d')
    end.

  Lemma exact_window_eq_whole (W : Z -> Z -> Prop) r c res_block res_whole :
    (forall tr tc d, Tgt tr tc -> dist2 key xc yc tr tc r c = Some d -> ele (EFin d) M = true -> W tr tc) ->
    nearest_in W r c res_block -> nearest_in (fun _ _ => True) r c res_whole -> res_block = res_whole.
  Proof.
    intros Hhalo Hb Hw. destruct res_block as [d1|], res_whole as [d2|]; simpl in *.
    - destruct Hb as (Hm1 & (t1r & t1c & HW1 & HT1 & Hd1) & Hmin1).
      destruct Hw as (Hm2 & (t2r & t2c & _ & HT2 & Hd2) & Hmin2).
      assert (d1 <= d2) by (apply (Hmin1 t2r t2c d2); auto; eapply Hhalo; eauto).
      assert (d2 <= d1) by (apply (Hmin2 t1r t1c d1); auto).
      f_equal; lia.
    - destruct Hb as (Hm1 & (t1r & t1c & HW1 & HT1 & Hd1) & _).
      rewrite (Hw t1r t1c d1 I HT1 Hd1) in Hm1. discriminate.
    - destruct Hw as (Hm2 & (t2r & t2c & _ & HT2 & Hd2) & _).
      rewrite (Hb t2r t2c d2 (Hhalo _ _ _ HT2 Hd2 Hm2) HT2 Hd2) in Hm2. discriminate.
    - reflexivity.
  Qed.
End Exact.

(* ---------- single-chunk fallback ---------- *)
Lemma nthZ_ziota d s n i : 0 <= i < Z.of_nat n -> nthZ d (ziota s n) i = s + i.
Proof.
  revert s i; induction n as [|n IH]; intros s i H; [lia|].
  simpl ziota. destruct (Z.eq_dec i 0) as [->|Hn].
  - rewrite nthZ_cons_0; lia.
  - rewrite nthZ_cons_S by lia. rewrite IH by lia. lia.
Qed.

Lemma map_nthZ_ziota {A} (d : A) (l : list A) s :
  map (fun i => nthZ d l (i - s)) (ziota s (length l)) = l.
Proof.
  revert s; induction l as [|a l IH]; intros s; [reflexivity|].
  simpl length. simpl ziota. simpl map. f_equal.
  - replace (s - s) with 0 by lia. reflexivity.
  - rewrite <- (IH (s + 1)) at 2. apply map_ext_in. intros i Hi. apply ziota_In in Hi.
    rewrite nthZ_cons_S by lia. f_equal. lia.
Qed.

Lemma map_nthZ_ziota0 {A} (d : A) (l : list A) : map (nthZ d l) (ziota 0 (length l)) = l.
Proof.
  transitivity (map (fun i => nthZ d l (i - 0)) (ziota 0 (length l))).
  - apply map_ext. intros i. f_equal. lia.
  - apply map_nthZ_ziota.
Qed.

Definition rect (img : list (list xv)) : Prop :=
  forall r, 0 <= r < lenZ img -> lenZ (nthZ [] img r) = lenZ (nthZ [] img 0).

Section Fallback.
  Variable key : Z -> Z -> Z -> Z -> Z.
  Variable tie_up : Z -> bool.
  Variables R M : ext.
  Variables xc yc : list (option Z).
  Variable values : list xv.
  Variable img : list (list xv).
  Let h := lenZ img.
  Let w := lenZ (nthZ [] img 0).
  Hypothesis Hrect : rect img.
  Hypothesis Hxl : lenZ xc = w.
  Hypothesis Hyl : lenZ yc = h.

  Lemma win_whole :
    win_xc xc 0 w 0 = xc /\ win_yc yc 0 h 0 = yc /\ win_img img 0 h 0 w 0 0 = img.
  Proof.
    unfold win_xc, win_yc, win_img, win_cols, win_rows, coord.
    replace (Z.to_nat (w + 2 * 0)) with (length xc) by (unfold lenZ in *; lia).
    replace (Z.to_nat (h + 2 * 0)) with (length yc) by (unfold lenZ in *; lia).
    replace (0 - 0) with 0 by lia.
    split; [apply map_nthZ_ziota0|]. split; [apply map_nthZ_ziota0|].
    replace (length yc) with (length img) by (unfold h, lenZ in *; lia).
    transitivity (map (nthZ [] img) (ziota 0 (length img))); [|apply map_nthZ_ziota0].
    apply map_ext_in. intros r Hr. apply ziota_In in Hr.
    unfold cellv.
    replace (length xc) with (length (nthZ [] img r)).
    - apply map_nthZ_ziota0.
    - specialize (Hrect r ltac:(unfold lenZ; lia)). unfold w, lenZ in *. lia.
  Qed.

  Theorem chunked_single_is_whole :
    chunked key tie_up R M xc yc values img [h] [w] 0 0 = whole key tie_up R M xc yc values img.
  Proof.
    destruct win_whole as (Hx & Hy & Hi).
    unfold chunked, whole. cbn [blocks flat_map map fst snd app]. rewrite app_nil_r.
    unfold block_state. rewrite Hx, Hy, Hi.
    replace (Z.to_nat h) with (length img) by (unfold h, lenZ; lia).
    apply map_ext. intros r. rewrite app_nil_r.
    replace (Z.to_nat w) with (length (nthZ [] img 0)) by (unfold w, lenZ; lia).
    apply map_ext. intros c. unfold cell_result.
    replace (r - (0 - 0)) with r by lia. replace (c - (0 - 0)) with c by lia.
    f_equal. destruct (index_of _ r c) as [[a b]|]; auto. simpl. f_equal. f_equal; lia.
  Qed.

  (* _process_dask with max_distance >= max_possible_distance computes exactly the NumPy result *)
  Theorem run_dask_fallback F rch cch py px k :
    diag_key key xc yc img = Some k -> ele (EFin k) F = true ->
    run_dask key tie_up R M xc yc values img F rch cch py px = whole key tie_up R M xc yc values img.
  Proof.
    intros Hk HF. unfold run_dask. rewrite Hk, HF. apply chunked_single_is_whole.
  Qed.
End Fallback.
