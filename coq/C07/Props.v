(* C07/Props.v — the property theorems claimed for C07, nothing else.
   [pad_y], [pad_x], [depth] are regenerated from _process_dask on every run (Generated.v). *)
Require Import Base.Prelude Base.XVal C07.Generated_C06Model C07.Generated C07.Model C07.Proofs C07.Bounded.
From Coq Require Import QArith.
Open Scope Z_scope.

(* every cell within max_distance (EUCLIDEAN or MANHATTAN, in coordinate units; cell sizes: columns <->
   cellsize_x, rows <-> cellsize_y) of a cell of a block lies inside the block extended by
   depth = (rows: int(max_distance/cellsize_y + 0.5), columns: int(max_distance/cellsize_x + 0.5)) *)
Theorem C07_halo_covers :
  forall (md cx cy : Q) (r0 hr c0 wc r c tr tc : Z),
  (0 < cx)%Q -> (0 < cy)%Q -> (0 <= md)%Q ->
  r0 <= r < r0 + hr -> c0 <= c < c0 + wc ->
  (let dx := (inject_Z (Z.abs (tc - c)) * cx)%Q in
   let dy := (inject_Z (Z.abs (tr - r)) * cy)%Q in
   (dx * dx + dy * dy <= md * md)%Q \/ (dx + dy <= md)%Q) ->
  let d := depth md cx cy in
  r0 - fst d <= tr < r0 + hr + fst d /\ c0 - snd d <= tc < c0 + wc + snd d.
Proof. exact halo_covers_block. Qed.
Print Assumptions C07_halo_covers.

(* max_distance >= max_possible_distance: one block, no halo, and that IS the NumPy computation *)
Theorem C07_single_chunk_fallback :
  forall key tie_up R M xc yc values img F rch cch py px k,
  rect img -> lenZ xc = lenZ (nthZ [] img 0) -> lenZ yc = lenZ img ->
  diag_key key xc yc img = Some k -> ele (EFin k) F = true ->
  run_dask key tie_up R M xc yc values img F rch cch py px = whole key tie_up R M xc yc values img.
Proof.
  intros key tie_up R M xc yc values img F rch cch py px k Hrect Hx Hy.
  exact (run_dask_fallback key tie_up R M xc yc values img Hrect Hx Hy F rch cch py px k).
Qed.
Print Assumptions C07_single_chunk_fallback.

(* if the per-block algorithm returned the EXACT nearest target within max_distance, the result of a
   cell would not depend on the chunking: any window W that contains every target within M of the cell
   (which is what C07_halo_covers provides for the extended block) gives the whole-raster answer *)
Theorem C07_exact_blocks_chunked_eq_whole :
  forall key xc yc values img M (W : Z -> Z -> Prop) r c res_block res_whole,
  (forall tr tc d, Tgt values img tr tc -> dist2 key xc yc tr tc r c = Some d ->
                   ele (EFin d) M = true -> W tr tc) ->
  nearest_in key xc yc values img M W r c res_block ->
  nearest_in key xc yc values img M (fun _ _ => True) r c res_whole ->
  res_block = res_whole.
Proof. exact exact_window_eq_whole. Qed.
Print Assumptions C07_exact_blocks_chunked_eq_whole.

(* bounded supplement (vm_compute) for the REAL heuristic: every target layout x every chunking on every
   grid up to 3x3 (unit cells, EUCLIDEAN) with max_distance = 1, and with max_distance in {3/2, 2} on the grids
   with at most 6 cells ([small_domain]): chunked = whole (distance key and remembered target of every cell) *)
Theorem C07_bounded_chunked_eq_whole_small :
  forall p img, In p small_domain -> In img (dom_layouts p) -> chunked_eq_whole_dom p img = true.
Proof. exact chunked_eq_whole_small. Qed.
Print Assumptions C07_bounded_chunked_eq_whole_small.

(* ---- unclaimed: chunked = whole for the heuristic on all grids ---- *)
Definition C07_chunked_eq_whole_full_statement : Prop :=
  forall key tie_up R M xc yc values img rch cch md,
  fold_left Z.add rch 0 = lenZ img -> fold_left Z.add cch 0 = lenZ (nthZ [] img 0) ->
  let d := halo md xc yc in
  chunked key tie_up R M xc yc values img rch cch (fst d) (snd d) = whole key tie_up R M xc yc values img.

(* ... and it is FALSE: the heuristic's result depends on the window (the implementation shows the same difference:
   known finding heuristic-window-dependence) *)
Example C07_chunked_neq_whole_witness : ~ C07_chunked_eq_whole_full_statement.
Proof.
  intros H.
  specialize (H (metric_of_key key_euclid) (fun _ => false) (EFin 17) (EFin 8) hw_xc hw_yc [] hw_img [2; 1] [6] hw_md
                eq_refl eq_refl).
  cbv zeta in H. rewrite hw_halo in H. cbn [fst snd] in H.
  apply (f_equal (fun g => cell_at g 2 4)) in H.
  rewrite hw_chunked_cell, hw_whole_cell in H. discriminate.
Qed.

(* ---- non-vacuity ---- *)
Example C07_halo_nonvacuous :
  depth (3 # 2) (1 # 1) (3 # 1) = (1, 2) /\ depth (2 # 1) (5 # 1) (1 # 1) = (2, 0) /\
  (let md := (3 # 2)%Q in let cx := 1%Q in let cy := 3%Q in
   (0 < cx)%Q /\ (0 < cy)%Q /\ (0 <= md)%Q /\
   (let dx := (inject_Z (Z.abs (5 - 4)) * cx)%Q in let dy := (inject_Z (Z.abs (2 - 2)) * cy)%Q in
    (dx * dx + dy * dy <= md * md)%Q)).
Proof. vm_compute. repeat split; discriminate. Qed.

Example C07_fallback_nonvacuous :
  let img := [[XFin 0; XFin 1]; [XFin 0; XFin 0]] in
  let xc := [Some 0; Some 1] in let yc := [Some 0; Some 1] in
  rect img /\ diag_key (metric_of_key key_euclid) xc yc img = Some 2 /\ ele (EFin 2) (EFin 2) = true /\
  run_dask (metric_of_key key_euclid) (fun _ => false) (EFin 5) (EFin 2) xc yc [] img (EFin 2) [1; 1] [1; 1] 1 1 =
  [[(LVal (EFin 1), Some (0, 1)); (LVal (EFin 0), Some (0, 1))];
   [(LVal (EFin 2), Some (0, 1)); (LVal (EFin 1), Some (0, 1))]].
Proof.
  cbv zeta. split; [intros r Hr; assert (r = 0 \/ r = 1) as [->| ->] by (unfold lenZ in Hr; simpl in Hr; lia); reflexivity|].
  vm_compute. repeat split.
Qed.
