(* C07/Model.v — executable model of the Dask path of xrspatial/proximity.py (_process_dask):
   da.map_overlap(_process_numpy, data, xs, ys, depth=(pad_y, pad_x), boundary=np.nan):
   every block is extended by the halo (cells of the neighbouring blocks; NaN data and NaN
   coordinates outside the raster), _process_numpy (= the C06 model, copied verbatim into
   Generated_C06Model.v) runs on the extended block, the halo is trimmed and the blocks are put
   back together.  pad_y / pad_x / depth come from Generated.v (regenerated from the source).
   Definitions only. *)
Require Import Base.Prelude Base.XVal C07.Generated_C06Model C07.Generated.
From Coq Require Import QArith Qround.
Open Scope Z_scope.

(* (start, size) of every chunk along one axis *)
Fixpoint blocks (start : Z) (sizes : list Z) : list (Z * Z) :=
  match sizes with
  | [] => []
  | s :: t => (start, s) :: blocks (start + s) t
  end.

Section Dask.
  Variable key : Z -> Z -> Z -> Z -> Z.
  Variable tie_up : Z -> bool.
  Variables R M : ext.
  Variables xc yc : list (option Z).
  Variable values : list xv.
  Variable img : list (list xv).

  (* the extended block: rows r0-py .. r0+hr+py-1, columns c0-px .. c0+wc+px-1;
     reads outside the raster give NaN data / NaN coordinates (boundary=np.nan) *)
  Definition win_rows (r0 hr py : Z) : list Z := ziota (r0 - py) (Z.to_nat (hr + 2 * py)).
  Definition win_cols (c0 wc px : Z) : list Z := ziota (c0 - px) (Z.to_nat (wc + 2 * px)).
  Definition win_img (r0 hr c0 wc py px : Z) : list (list xv) :=
    map (fun r => map (fun c => cellv img r c) (win_cols c0 wc px)) (win_rows r0 hr py).
  Definition win_xc (c0 wc px : Z) : list (option Z) := map (coord xc) (win_cols c0 wc px).
  Definition win_yc (r0 hr py : Z) : list (option Z) := map (coord yc) (win_rows r0 hr py).

  (* _process_numpy on one extended block *)
  Definition block_state (r0 hr c0 wc py px : Z) : gst :=
    process key tie_up R M (win_xc c0 wc px) (win_yc r0 hr py) values (win_img r0 hr c0 wc py px).

  (* one result cell: distance key and remembered target in RASTER coordinates *)
  Definition cell_result (g : gst) (r0 c0 py px : Z) (r c : Z) : lpv * option (Z * Z) :=
    let lr := r - (r0 - py) in
    let lc := c - (c0 - px) in
    (prox_of g lr lc,
     match index_of g lr lc with
     | None => None
     | Some t => Some (fst t + (r0 - py), snd t + (c0 - px))
     end).

  (* trim + assemble *)
  Definition chunked (rch cch : list Z) (py px : Z) : list (list (lpv * option (Z * Z))) :=
    flat_map (fun rb =>
      let r0 := fst rb in let hr := snd rb in
      let gs := map (fun cb => (cb, block_state r0 hr (fst cb) (snd cb) py px)) (blocks 0 cch) in
      map (fun r =>
             flat_map (fun cg =>
                let c0 := fst (fst cg) in let wc := snd (fst cg) in
                map (fun c => cell_result (snd cg) r0 c0 py px r c) (ziota c0 (Z.to_nat wc)))
               gs)
          (ziota r0 (Z.to_nat hr)))
      (blocks 0 rch).

  (* the NumPy path, in the same output format *)
  Definition whole : list (list (lpv * option (Z * Z))) :=
    let g := process key tie_up R M xc yc values img in
    map (fun r => map (fun c => (prox_of g r c, index_of g r c)) (ziota 0 (length (nthZ [] img 0))))
        (ziota 0 (length img)).

  (* max_possible_distance = distance between the first and the last cell, as a key *)
  Definition diag_key : option Z :=
    dist2 key xc yc 0 0 (lenZ img - 1) (lenZ (nthZ [] img 0) - 1).

  (* _process_dask: F = max_distance as an inclusive key threshold for  max_distance >= max_possible_distance *)
  Definition run_dask (F : ext) (rch cch : list Z) (py px : Z) : list (list (lpv * option (Z * Z))) :=
    let fallback := match diag_key with Some k => ele (EFin k) F | None => false end in
    if fallback then chunked [lenZ img] [lenZ (nthZ [] img 0)] 0 0
    else chunked rch cch py px.
End Dask.

(* cell sizes as get_dataarray_resolution computes them without a `res` attribute, and the halo depth *)
Definition zmin (l : list Z) : Z := fold_left Z.min l (hd 0 l).
Definition zmax (l : list Z) : Z := fold_left Z.max l (hd 0 l).
Definition somes (l : list (option Z)) : list Z :=
  flat_map (fun o => match o with Some z => [z] | None => [] end) l.
Definition cellsize (coords : list (option Z)) : Q :=
  calc_res (inject_Z (zmin (somes coords))) (inject_Z (zmax (somes coords))) (lenZ coords).
Definition halo (md : Q) (xc yc : list (option Z)) : Z * Z :=
  depth md (cellsize xc) (cellsize yc).

Definition enc_cell (x : lpv * option (Z * Z)) : Z * (Z * Z) :=
  (enc_lpv (fst x), match snd x with None => (-1, -1) | Some t => t end).

(* entry point for the driver: md = mdn/mdd (a dyadic rational), or unbounded when mdd = 0 *)
Definition run_model_dask (metric : Z) (ties : list Z) (R M F : ext) (mdn mdd : Z)
           (xc yc : list (option Z)) (values : list xv) (rch cch : list Z) (img : list (list xv))
  : (Z * Z) * list (list (Z * (Z * Z))) :=
  let key := metric_of_key (if metric =? 2 then key_manhattan else key_euclid) in
  let tie := fun k => existsb (Z.eqb k) ties in
  let d := if mdd =? 0 then (0, 0) else halo (Qmake mdn (Z.to_pos mdd)) xc yc in
  (d, map (map enc_cell) (run_dask key tie R M xc yc values img F rch cch (fst d) (snd d))).
Definition run_model_whole (metric : Z) (ties : list Z) (R M : ext)
           (xc yc : list (option Z)) (values : list xv) (img : list (list xv)) : list (list (Z * (Z * Z))) :=
  let key := metric_of_key (if metric =? 2 then key_manhattan else key_euclid) in
  let tie := fun k => existsb (Z.eqb k) ties in
  map (map enc_cell) (whole key tie R M xc yc values img).
