(* C07/Bounded.v — finite-domain supplement, by vm_compute: for the REAL heuristic (not an exact
   nearest-target algorithm), on every grid up to 3x3 with unit cells, for EVERY target layout, EVERY
   chunking of rows and columns and max_distance in {1, 3/2, 2}: the chunked result (distance key and
   remembered target of every cell) equals the whole-raster result. *)
Require Import Base.Prelude Base.XVal C07.Generated_C06Model C07.Generated C07.Model.
From Coq Require Import QArith.
Open Scope Z_scope.

Definition unit_coords (n : Z) : list (option Z) := map Some (ziota 0 (Z.to_nat n)).

Fixpoint bitlists (n : nat) : list (list xv) :=
  match n with
  | O => [[]]
  | S k => flat_map (fun l => [XFin 0 :: l; XFin 1 :: l]) (bitlists k)
  end.
Fixpoint chunk (w : nat) (rows : nat) (l : list xv) : list (list xv) :=
  match rows with
  | O => []
  | S k => firstn w l :: chunk w k (skipn w l)
  end.
Definition layouts (h w : nat) : list (list (list xv)) := map (chunk w h) (bitlists (h * w)).

(* all ways to cut n cells into consecutive non-empty chunks (compositions of n) *)
Fixpoint compositions_aux (fuel : nat) (n : nat) : list (list Z) :=
  match fuel with
  | O => []
  | S f =>
    match n with
    | O => [[]]
    | _ => flat_map (fun k => map (fun rest => Z.of_nat k :: rest) (compositions_aux f (n - k))) (seq 1 n)
    end
  end.
Definition compositions (n : nat) : list (list Z) := compositions_aux (S n) n.

Definition res_eqb (a b : lpv * option (Z * Z)) : bool :=
  (enc_lpv (fst a) =? enc_lpv (fst b)) &&
  match snd a, snd b with
  | None, None => true
  | Some x, Some y => (fst x =? fst y) && (snd x =? snd y)
  | _, _ => false
  end.
Fixpoint grid_eqb (a b : list (list (lpv * option (Z * Z)))) : bool :=
  match a, b with
  | [], [] => true
  | ra :: ta, rb :: tb =>
    (fix row (x y : list (lpv * option (Z * Z))) : bool :=
       match x, y with
       | [], [] => true
       | p :: x', q :: y' => res_eqb p q && row x' y'
       | _, _ => false
       end) ra rb && grid_eqb ta tb
  | _, _ => false
  end.

(* (max_distance, R, M): thresholds of 1, 3/2, 2 as the float chain gives them on unit cells *)
Definition small_md : list (Q * (ext * ext)) :=
  [(1 # 1, (EFin 3, EFin 1)); (3 # 2, (EFin 5, EFin 2)); (2 # 1, (EFin 9, EFin 4))]%Q.

Definition small_shapes : list (nat * nat) :=
  flat_map (fun a => map (fun b => (a, b)) (seq 1 3)) (seq 1 3).

Definition chunked_eq_whole_at (s : nat * nat) (m : Q * (ext * ext)) (img : list (list xv)) : bool :=
  let xc := unit_coords (Z.of_nat (snd s)) in
  let yc := unit_coords (Z.of_nat (fst s)) in
  let R := fst (snd m) in let M := snd (snd m) in
  let d := halo (fst m) xc yc in
  let wh := whole key_euclid (fun _ => false) R M xc yc [] img in
  forallb (fun rch => forallb (fun cch =>
      grid_eqb (chunked key_euclid (fun _ => false) R M xc yc [] img rch cch (fst d) (snd d)) wh)
    (compositions (snd s))) (compositions (fst s)).

Definition shape_layouts (s : nat * nat) : list (list (list xv)) := layouts (fst s) (snd s).

Lemma all_chunked_eq_whole :
  forallb (fun s => forallb (fun m => forallb (chunked_eq_whole_at s m) (shape_layouts s)) small_md) small_shapes = true.
Proof. vm_cast_no_check (eq_refl true). Qed.

Lemma forallb3 {A B C} (f : A -> B -> C -> bool) (la : list A) (lb : list B) (lc : A -> list C) :
  forallb (fun a => forallb (fun b => forallb (f a b) (lc a)) lb) la = true ->
  forall a b c, In a la -> In b lb -> In c (lc a) -> f a b c = true.
Proof.
  intros H a b c Ha Hb Hc.
  apply (proj1 (forallb_forall _ _)) with (x := a) in H; auto.
  apply (proj1 (forallb_forall _ _)) with (x := b) in H; auto.
  apply (proj1 (forallb_forall _ _)) with (x := c) in H; auto.
Qed.

Lemma chunked_eq_whole_small : forall s m img,
  In s small_shapes -> In m small_md -> In img (shape_layouts s) -> chunked_eq_whole_at s m img = true.
Proof.
  apply (forallb3 chunked_eq_whole_at small_shapes small_md shape_layouts).
  exact all_chunked_eq_whole.
Qed.

(* sanity of the enumeration and of the halo on this domain *)
Example compositions_3 : compositions 3 = [[1; 1; 1]; [1; 2]; [2; 1]; [3]].
Proof. reflexivity. Qed.
Example halo_small : map (fun m => halo (fst m) (unit_coords 3) (unit_coords 3)) small_md = [(1, 1); (2, 2); (2, 2)].
Proof. vm_compute. reflexivity. Qed.
