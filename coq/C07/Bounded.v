(* C07/Bounded.v — finite-domain supplement, by vm_compute: for the REAL heuristic (not an exact
   nearest-target algorithm), on every grid up to 3x3 with unit cells (max_distance 1; also 3/2 and 2 on the
   grids with at most 6 cells), for EVERY target layout and EVERY chunking of rows and columns: the chunked result (distance key and
   remembered target of every cell) equals the whole-raster result. *)
Require Import Base.Prelude Base.XVal C07.Generated_C06Model C07.Generated C07.Model.
From Coq Require Import QArith.
Open Scope Z_scope.

Definition unit_coords (n : Z) : list (option Z) := map Some (ziota 0 (Z.to_nat n)).

Fixpoint bitlists (n : nat) : list (list xv) :=
  match n with
  | O => [[]]
  | S k => flat_map (fun l => [XFin 0 :: l; XFin 1 :: l]) (bitlists k)
  end.
Fixpoint chunk (w : nat) (rows : nat) (l : list xv) : list (list xv) :=
  match rows with
  | O => []
  | S k => firstn w l :: chunk w k (skipn w l)
  end.
Definition layouts (h w : nat) : list (list (list xv)) := map (chunk w h) (bitlists (h * w)).

(* all ways to cut n cells into consecutive non-empty chunks (compositions of n) *)
Fixpoint compositions_aux (fuel : nat) (n : nat) : list (list Z) :=
  match fuel with
  | O => []
  | S f =>
    match n with
    | O => [[]]
    | _ => flat_map (fun k => map (fun rest => Z.of_nat k :: rest) (compositions_aux f (n - k))) (seq 1 n)
    end
  end.
Definition compositions (n : nat) : list (list Z) := compositions_aux (S n) n.

Definition res_eqb (a b : lpv * option (Z * Z)) : bool :=
  (enc_lpv (fst a) =? enc_lpv (fst b)) &&
  match snd a, snd b with
  | None, None => true
  | Some x, Some y => (fst x =? fst y) && (snd x =? snd y)
  | _, _ => false
  end.
Fixpoint grid_eqb (a b : list (list (lpv * option (Z * Z)))) : bool :=
  match a, b with
  | [], [] => true
  | ra :: ta, rb :: tb =>
    (fix row (x y : list (lpv * option (Z * Z))) : bool :=
       match x, y with
       | [], [] => true
       | p :: x', q :: y' => res_eqb p q && row x' y'
       | _, _ => false
       end) ra rb && grid_eqb ta tb
  | _, _ => false
  end.

(* (max_distance, R, M): thresholds of 1, 3/2, 2 as the float chain gives them on unit cells *)
Definition small_md : list (Q * (ext * ext)) :=
  [(1 # 1, (EFin 3, EFin 1)); (3 # 2, (EFin 5, EFin 2)); (2 # 1, (EFin 9, EFin 4))]%Q.

Definition small_shapes : list (nat * nat) :=
  flat_map (fun a => map (fun b => (a, b)) (seq 1 3)) (seq 1 3).

Definition chunked_eq_whole_at (s : nat * nat) (m : Q * (ext * ext)) (img : list (list xv)) : bool :=
  let xc := unit_coords (Z.of_nat (snd s)) in
  let yc := unit_coords (Z.of_nat (fst s)) in
  let R := fst (snd m) in let M := snd (snd m) in
  let d := halo (fst m) xc yc in
  let wh := whole (metric_of_key key_euclid) (fun _ => false) R M xc yc [] img in
  forallb (fun rch => forallb (fun cch =>
      grid_eqb (chunked (metric_of_key key_euclid) (fun _ => false) R M xc yc [] img rch cch (fst d) (snd d)) wh)
    (compositions (snd s))) (compositions (fst s)).

Definition shape_layouts (s : nat * nat) : list (list (list xv)) := layouts (fst s) (snd s).

(* the checked domain: every shape up to 3x3 with max_distance = 1 (halo 1: with 1-cell chunks the extended
   block is strictly smaller than the raster), and max_distance in {3/2, 2} (halo 2) on the shapes with at
   most 6 cells *)
Definition small_domain : list ((nat * nat) * (Q * (ext * ext))) :=
  flat_map (fun s => map (fun m => (s, m))
                         (if (fst s * snd s <=? 6)%nat then small_md else firstn 1 small_md))
           small_shapes.

Definition chunked_eq_whole_dom (p : (nat * nat) * (Q * (ext * ext))) (img : list (list xv)) : bool :=
  chunked_eq_whole_at (fst p) (snd p) img.
Definition dom_layouts (p : (nat * nat) * (Q * (ext * ext))) : list (list (list xv)) := shape_layouts (fst p).

Lemma all_chunked_eq_whole :
  forallb (fun p => forallb (chunked_eq_whole_dom p) (dom_layouts p)) small_domain = true.
Proof. vm_cast_no_check (eq_refl true). Qed.

Lemma forallb2 {A C} (f : A -> C -> bool) (la : list A) (lc : A -> list C) :
  forallb (fun a => forallb (f a) (lc a)) la = true ->
  forall a c, In a la -> In c (lc a) -> f a c = true.
Proof.
  intros H a c Ha Hc.
  apply (proj1 (forallb_forall _ _)) with (x := a) in H; auto.
  apply (proj1 (forallb_forall _ _)) with (x := c) in H; auto.
Qed.

Lemma chunked_eq_whole_small : forall p img,
  In p small_domain -> In img (dom_layouts p) -> chunked_eq_whole_dom p img = true.
Proof.
  apply (forallb2 chunked_eq_whole_dom small_domain dom_layouts).
  exact all_chunked_eq_whole.
Qed.

Example small_domain_size : length small_domain = 25%nat.
Proof. reflexivity. Qed.

(* sanity of the enumeration and of the halo on this domain *)
Example compositions_3 : compositions 3 = [[1; 1; 1]; [1; 2]; [2; 1]; [3]].
Proof. reflexivity. Qed.
Example halo_small : map (fun m => halo (fst m) (unit_coords 3) (unit_coords 3)) small_md = [(1, 1); (2, 2); (2, 2)].
Proof. vm_compute. reflexivity. Qed.

(* ---- the unbounded statement is false for the heuristic: 3x6 grid, x = -4..1, y = 0, 2, 4 (cells 1 x 2), max_distance = sqrt 8
   (thresholds R = 17, M = 8; halo (1, 3)), row chunks (2, 1), one column chunk (Dask merges (2,4) up to the halo 3):
   cell (2,4) is NaN on the whole raster but gets the target (1,2) at key 8 in its block - the tie at (1,4) between the
   candidates (0,4) and (1,2) falls differently when row 0 is outside the window ---- *)
Definition hw_img : list (list xv) :=
  [[XFin 1; XFin 6; XFin 0; XFin (-3); XFin 2; XFin 6];
   [XFin 2; XFin 0; XFin 5; XFin 0; XFin 0; XFin 0];
   [XFin 7; XFin 4; XFin 0; XFin 0; XFin 0; XFin 0]].
Definition hw_xc : list (option Z) := map Some [-4; -3; -2; -1; 0; 1].
Definition hw_yc : list (option Z) := map Some [0; 2; 4].
Definition hw_md : Q := (6369051672525773 # 2251799813685248)%Q.      (* the double 2.8284271247461903 *)
Definition cell_at (g : list (list (lpv * option (Z * Z)))) (r c : Z) : lpv * option (Z * Z) :=
  nthZ (LUnset, None) (nthZ [] g r) c.

Lemma hw_halo : halo hw_md hw_xc hw_yc = (1, 3).
Proof. vm_compute. reflexivity. Qed.
Lemma hw_chunked_cell :
  cell_at (chunked (metric_of_key key_euclid) (fun _ => false) (EFin 17) (EFin 8) hw_xc hw_yc [] hw_img [2; 1] [6] 1 3) 2 4
  = (LVal (EFin 8), Some (1, 2)).
Proof. vm_compute. reflexivity. Qed.
Lemma hw_whole_cell :
  cell_at (whole (metric_of_key key_euclid) (fun _ => false) (EFin 17) (EFin 8) hw_xc hw_yc [] hw_img) 2 4 = (LUnset, None).
Proof. vm_compute. reflexivity. Qed.
