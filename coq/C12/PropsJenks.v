(* C12/PropsJenks.v — claimed theorems about natural_breaks' Jenks optimisation (kept apart from
   Props.v only because QArith opens Q_scope). *)
From Coq Require Import List Arith Bool QArith Lia.
Import ListNotations.
Require Import C12.Jenks C12.JenksProofs.
Local Open Scope nat_scope.

(* natural_breaks: the Fisher-Jenks recurrence computed by _run_numpy_jenks_matrices (functional
   model over exact rationals, cost of a class = its sum of squared deviations) is optimal:
   for EVERY data list, EVERY k >= 1 and EVERY partition P of the data into k contiguous classes,
   the DP value is <= the within-class SSD of P ... *)
Theorem C12_jenks_min_lower_bound : forall data k P,
  (0 < k)%nat -> pvalid (length data) P -> length P = (k - 1)%nat ->
  (jenks_min data k <= pcost Qplus (ssd data) (length data) P)%Q.
Proof. exact jenks_min_lower_bound. Qed.
Print Assumptions C12_jenks_min_lower_bound.

(* ... and it is the within-class SSD of an actual partition into at most k classes. *)
Theorem C12_jenks_min_attained : forall data k,
  (0 < length data)%nat ->
  exists P, pvalid (length data) P /\ (length P <= k - 1)%nat /\
            pcost Qplus (ssd data) (length data) P = jenks_min data k.
Proof. exact jenks_min_attained. Qed.
Print Assumptions C12_jenks_min_attained.

Example C12_jenks_example :
  (* {0,0,14 x3,16,29}: best 2-class split is {0,0} | {14,14,14,16,29} *)
  let data := map inject_Z [0; 0; 14; 14; 14; 16; 29]%Z in
  Qeq_bool (jenks_min data 2) (pcost Qplus (ssd data) 7 [2%nat]) = true /\
  pvalid 7 [2%nat] /\ Qle_bool (jenks_min data 2) (pcost Qplus (ssd data) 7 [5%nat]) = true.
Proof. vm_compute. repeat split; lia. Qed.
