(* C12/Props.v — the property theorems claimed for C12, nothing else.
   Each is closed by [exact] of a lemma from Proofs.v and followed by
   Print Assumptions (parsed into the evidence file by ./check). *)
Require Import Base.Prelude Base.XVal C12.Model C12.Proofs.

(* reclassify: for ANY ascending bin list of ANY length (NaN-free; +-inf bins
   allowed) a finite value gets the new value of the FIRST bin whose upper
   bound is >= the value, NaN only above the last bin; NaN/inf cells get NaN.
   The hand-written binary search never runs out of fuel (= terminates). *)
Theorem C12_reclassify_first_bin : forall bins nv v,
  0 < lenZ bins -> xsorted bins -> xall_ok bins -> lenZ nv = lenZ bins ->
  exists out, reclass_cell bins nv v = Some out /\
    ((xisfinite v = false /\ out = XNaN) \/
     (xisfinite v = true /\ xabove_all bins v /\ out = XNaN) \/
     (xisfinite v = true /\ exists k, xfirst_ge bins v k /\ out = nthZ XNaN nv k)).
Proof. exact reclass_cell_spec. Qed.
Print Assumptions C12_reclassify_first_bin.

(* binary: 1 exactly on listed values, 0 on other finite cells, NaN on NaN/inf *)
Theorem C12_binary_spec : forall values v,
  (binary_cell values v = XFin 1 <-> (In v values /\ v <> XNaN)) /\
  (binary_cell values v = XFin 0 <-> (xisfinite v = true /\ ~ In v values)) /\
  (binary_cell values v = XNaN <-> (xisfinite v = false /\ ~ (In v values /\ v <> XNaN))) /\
  (binary_cell values v = XFin 1 \/ binary_cell values v = XFin 0 \/ binary_cell values v = XNaN).
Proof. exact binary_cell_spec. Qed.
Print Assumptions C12_binary_spec.

(* data-driven classifiers (quantile / equal_interval / natural_breaks all end in
   _bin(agg, bins, arange(len bins)) with last bin >= max): every finite cell gets
   an integer class in [0, k-1], namely the first bin >= value *)
Theorem C12_class_range : forall bins v,
  0 < lenZ bins -> xsorted bins -> xall_ok bins -> xisfinite v = true ->
  xleb v (nthZ XNaN bins (lenZ bins - 1)) = true ->
  exists k, class_cell bins v = Some (XFin k) /\ xfirst_ge bins v k /\ 0 <= k <= lenZ bins - 1.
Proof. exact class_cell_spec. Qed.
Print Assumptions C12_class_range.

(* order preservation: a larger value never gets a smaller class *)
Theorem C12_class_monotone : forall bins v w kv kw,
  xall_ok bins -> xisfinite v = true -> xisfinite w = true -> xleb v w = true ->
  xfirst_ge bins v kv -> xfirst_ge bins w kw -> kv <= kw.
Proof. exact class_cell_monotone. Qed.
Print Assumptions C12_class_monotone.

(* the class index is uniquely determined (so "first bin >= v" is well defined) *)
Theorem C12_first_ge_unique : forall bins v k k',
  xall_ok bins -> xok v -> xfirst_ge bins v k -> xfirst_ge bins v k' -> k = k'.
Proof. exact xfirst_ge_unique. Qed.
Print Assumptions C12_first_ge_unique.

(* non-vacuity: the hypotheses hold of concrete bins with ties and an inf bin,
   and the model computes the expected cells on them *)
Example C12_nonvacuous :
  let bins := [XFin 1; XFin 5; XFin 5; XFin 9; XPInf] in
  0 < lenZ bins /\ xsorted bins /\ xall_ok bins /\
  map (class_cell bins) [XFin 0; XFin 1; XFin 2; XFin 5; XFin 6; XFin 9; XFin 10; XNaN; XPInf]
  = map Some [XFin 0; XFin 0; XFin 1; XFin 1; XFin 3; XFin 3; XFin 4; XNaN; XNaN].
Proof.
  cbv zeta. split; [reflexivity|]. split; [apply xsortedb_sound; reflexivity|].
  split; [apply xall_okb_sound; reflexivity|reflexivity].
Qed.

(* equal_interval (exact arithmetic, everything scaled by k): with the k equal-width cuts of
   [lo, hi], a value v in [lo, hi] gets the class i of the i-th interval:
   lo + i*w < v <= lo + (i+1)*w  (the first interval also contains lo), for every k >= 1. *)
Theorem C12_equal_interval_bands : forall lo hi (k : nat) v,
  lo < hi -> (0 < k)%nat -> lo <= v <= hi ->
  exists i, class_cell (ei_cuts lo hi k) (XFin (Z.of_nat k * v)) = Some (XFin i) /\
    0 <= i <= Z.of_nat k - 1 /\
    Z.of_nat k * v <= Z.of_nat k * lo + (i + 1) * (hi - lo) /\
    (0 < i -> Z.of_nat k * lo + i * (hi - lo) < Z.of_nat k * v).
Proof. exact equal_interval_bands. Qed.
Print Assumptions C12_equal_interval_bands.

Example C12_equal_interval_example :
  map (class_cell (ei_cuts 0 10 4)) (map (fun v => XFin (4 * v)) [0; 2; 3; 5; 6; 10])
  = map (fun i => Some (XFin i)) [0; 0; 1; 1; 2; 3].
Proof. reflexivity. Qed.
