Require Import Extraction ExtrOcamlBasic.
Require Import Base.Prelude Base.XVal C12.Model C12.Jenks C12.JenksImp C12.Quantile.
Extraction Language OCaml.
Extraction "model.ml" reclass_raster binary_raster class_cell xfind_bin jenks_min
  jenks_matrices run_jenks jenks_bt_ok jenks_cuts near_tie q_cuts zuniq quantile_class.
