(* C12/Jenks.v — the Fisher–Jenks dynamic programme behind natural_breaks
   (_run_numpy_jenks_matrices), as a functional model over exact arithmetic.
   V j l  is  var_combinations[l][j+1] : the best cost of splitting the first l
   sorted data points into (at most) j+1 contiguous classes, where the cost of a
   class [i, l) is its sum of squared deviations.  Written once over an abstract
   ordered additive cost type so that the optimality theorem is independent of
   what a class costs.  Definitions only. *)
From Coq Require Import List Arith Bool QArith Lia.
Import ListNotations.
Local Open Scope nat_scope.

Section DP.
  Context {T : Type}.
  Variable leb : T -> T -> bool.
  Variable add : T -> T -> T.
  Variable c : nat -> nat -> T.          (* cost of the class made of points i .. l-1 *)

  Definition tmin (a b : T) : T := if leb a b then a else b.
  Definition minl (x : T) (xs : list T) : T := fold_left tmin xs x.

  (* candidates for the start i of the last class: 1 .. l-1 (the code skips i4 = 0) *)
  Definition starts (l : nat) : list nat := seq 1 (l - 1).

  Fixpoint V (j : nat) (l : nat) : T :=
    match j with
    | O => c 0 l
    | S j' =>
      match map (fun i => add (c i l) (V j' i)) (starts l) with
      | [] => c 0 l                   (* l <= 1: the zero-initialised row of the code *)
      | x :: xs => minl x xs
      end
    end.

  (* a partition of the first l points, written from the last class backwards:
     [i1; i2; ...] means classes [i1,l) [i2,i1) ... [0, i_last) *)
  Fixpoint pcost (l : nat) (P : list nat) : T :=
    match P with
    | [] => c 0 l
    | i :: P' => add (c i l) (pcost i P')
    end.
  Fixpoint pvalid (l : nat) (P : list nat) : Prop :=
    match P with
    | [] => 0 < l
    | i :: P' => 0 < i < l /\ pvalid i P'
    end.
End DP.

(* ---- the cost natural_breaks uses: sum of squared deviations, over Q ---- *)
Definition qsum (xs : list Q) : Q := fold_right Qplus 0%Q xs.
Definition ssd_list (xs : list Q) : Q :=
  match xs with
  | [] => 0%Q
  | _ => (qsum (map (fun x => x * x) xs) - (qsum xs * qsum xs) / inject_Z (Z.of_nat (length xs)))%Q
  end.
Definition ssd (data : list Q) (i l : nat) : Q := ssd_list (firstn (l - i) (skipn i data)).

(* minimum within-class SSD of the first n points in (at most) k classes, k >= 1 *)
Definition jenks_min (data : list Q) (k : nat) : Q :=
  V Qle_bool Qplus (ssd data) (k - 1) (length data).
