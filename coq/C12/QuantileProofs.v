(* C12/QuantileProofs.v — lemmas about the exact quantile-cut model (Quantile.v). *)
Require Import Base.Prelude Base.XVal C12.Model C12.Proofs C12.Quantile.
From Coq Require Import Sorting.Sorted.

(* ascending data, index form *)
Definition zsorted (xs : list Z) : Prop :=
  forall i j, 0 <= i -> i <= j -> j < lenZ xs -> nthZ 0 xs i <= nthZ 0 xs j.

(* the interpolation position of cut i: lo = floor((i+1)(n-1)/k), r the remainder *)
Definition q_lo (n k i : Z) : Z := ((i + 1) * (n - 1)) / k.
Definition q_r (n k i : Z) : Z := ((i + 1) * (n - 1)) mod k.

Lemma q_cut_unfold xs k i :
  q_cut xs k i = k * nthZ 0 xs (q_lo (lenZ xs) k i)
                 + q_r (lenZ xs) k i * (nthZ 0 xs (q_lo (lenZ xs) k i + 1) - nthZ 0 xs (q_lo (lenZ xs) k i)).
Proof. reflexivity. Qed.

Lemma q_pos_facts n k i :
  0 < k -> 0 <= i < k -> 1 <= n ->
  (i + 1) * (n - 1) = k * q_lo n k i + q_r n k i /\ 0 <= q_r n k i < k /\
  0 <= q_lo n k i <= n - 1 /\ (q_lo n k i = n - 1 -> q_r n k i = 0).
Proof.
  intros Hk Hi Hn. unfold q_lo, q_r.
  pose proof (Z.div_mod ((i + 1) * (n - 1)) k ltac:(lia)) as E.
  pose proof (Z.mod_pos_bound ((i + 1) * (n - 1)) k Hk) as B.
  set (a := (i + 1) * (n - 1)) in *.
  set (lo := a / k) in *. set (r := a mod k) in *.
  assert (Ha : 0 <= a <= k * (n - 1)) by (subst a; nia).
  split; [exact E|]. split; [exact B|].
  assert (0 <= lo) by nia.
  assert (lo <= n - 1) by nia.
  split; [lia|]. intros ->. nia.
Qed.

Lemma q_lo_mono n k i j :
  0 < k -> 0 <= i -> i <= j -> 1 <= n -> q_lo n k i <= q_lo n k j.
Proof.
  intros Hk Hi Hij Hn. unfold q_lo. apply Z.div_le_mono; [exact Hk|nia].
Qed.

(* each cut lies between two consecutive order statistics *)
Lemma q_cut_between xs k i :
  zsorted xs -> 0 < k -> 0 <= i < k -> 1 <= lenZ xs ->
  k * nthZ 0 xs (q_lo (lenZ xs) k i) <= q_cut xs k i <=
  k * nthZ 0 xs (Z.min (q_lo (lenZ xs) k i + 1) (lenZ xs - 1)).
Proof.
  intros Hs Hk Hi Hn. rewrite q_cut_unfold.
  destruct (q_pos_facts (lenZ xs) k i Hk Hi Hn) as (E & Hr & Hlo & Hlast).
  set (lo := q_lo (lenZ xs) k i) in *. set (r := q_r (lenZ xs) k i) in *.
  destruct (Z.eq_dec lo (lenZ xs - 1)) as [El|Nl].
  - rewrite (Hlast El). rewrite Z.min_r by lia. rewrite El. lia.
  - rewrite Z.min_l by lia.
    assert (Hxy : nthZ 0 xs lo <= nthZ 0 xs (lo + 1)) by (apply Hs; lia).
    nia.
Qed.

(* the index form of "percentile band": at least lo+1 data values are <= the cut and
   the n-lo-1 values from position lo+1 on are >= the cut *)
Lemma q_cut_splits xs k i j :
  zsorted xs -> 0 < k -> 0 <= i < k -> 1 <= lenZ xs -> 0 <= j < lenZ xs ->
  (j <= q_lo (lenZ xs) k i -> k * nthZ 0 xs j <= q_cut xs k i) /\
  (q_lo (lenZ xs) k i + 1 <= j -> q_cut xs k i <= k * nthZ 0 xs j).
Proof.
  intros Hs Hk Hi Hn Hj.
  pose proof (q_cut_between xs k i Hs Hk Hi Hn) as [B1 B2].
  destruct (q_pos_facts (lenZ xs) k i Hk Hi Hn) as (_ & _ & Hlo & _).
  split; intros Hc.
  - assert (nthZ 0 xs j <= nthZ 0 xs (q_lo (lenZ xs) k i)) by (apply Hs; lia). nia.
  - rewrite Z.min_l in B2 by lia.
    assert (nthZ 0 xs (q_lo (lenZ xs) k i + 1) <= nthZ 0 xs j) by (apply Hs; lia). nia.
Qed.

Lemma q_cut_mono xs k i j :
  zsorted xs -> 0 < k -> 0 <= i -> i <= j -> j < k -> 1 <= lenZ xs ->
  q_cut xs k i <= q_cut xs k j.
Proof.
  intros Hs Hk Hi Hij Hj Hn.
  pose proof (q_lo_mono (lenZ xs) k i j Hk Hi Hij Hn) as Hlo.
  destruct (Z.eq_dec (q_lo (lenZ xs) k i) (q_lo (lenZ xs) k j)) as [E|N].
  - rewrite !q_cut_unfold.
    destruct (q_pos_facts (lenZ xs) k i Hk ltac:(lia) Hn) as (E1 & Hr1 & Hl1 & Hz1).
    destruct (q_pos_facts (lenZ xs) k j Hk ltac:(lia) Hn) as (E2 & Hr2 & Hl2 & Hz2).
    rewrite <- E in *.
    set (lo := q_lo (lenZ xs) k i) in *.
    assert (Hm : (i + 1) * (lenZ xs - 1) <= (j + 1) * (lenZ xs - 1))
      by (apply Z.mul_le_mono_nonneg_r; lia).
    assert (Hr : q_r (lenZ xs) k i <= q_r (lenZ xs) k j) by lia.
    destruct (Z.eq_dec lo (lenZ xs - 1)) as [El|Nl].
    + rewrite (Hz1 El), (Hz2 El). lia.
    + assert (nthZ 0 xs lo <= nthZ 0 xs (lo + 1)) by (apply Hs; lia). nia.
  - pose proof (q_cut_between xs k i Hs Hk ltac:(lia) Hn) as [_ B2].
    pose proof (q_cut_between xs k j Hs Hk ltac:(lia) Hn) as [B1 _].
    destruct (q_pos_facts (lenZ xs) k j Hk ltac:(lia) Hn) as (_ & _ & Hl2 & _).
    destruct (q_pos_facts (lenZ xs) k i Hk ltac:(lia) Hn) as (_ & _ & Hl1 & _).
    rewrite Z.min_l in B2 by lia.
    assert (nthZ 0 xs (q_lo (lenZ xs) k i + 1) <= nthZ 0 xs (q_lo (lenZ xs) k j)) by (apply Hs; lia).
    nia.
Qed.

(* the last percentile (100) is the maximum *)
Lemma q_cut_last xs k :
  0 < k -> 1 <= lenZ xs -> q_cut xs k (k - 1) = k * nthZ 0 xs (lenZ xs - 1).
Proof.
  intros Hk Hn. rewrite q_cut_unfold. unfold q_lo, q_r.
  replace ((k - 1 + 1) * (lenZ xs - 1)) with ((lenZ xs - 1) * k) by lia.
  rewrite Z.div_mul by lia. rewrite Z.mod_mul by lia. lia.
Qed.

(* ---- q_cuts as a list ---- *)
Lemma q_cuts_len xs k : lenZ (q_cuts xs k) = Z.of_nat k.
Proof. unfold q_cuts, lenZ. rewrite map_length, ziota_length. reflexivity. Qed.

Lemma q_cuts_nth xs (k : nat) i :
  0 <= i < Z.of_nat k -> nthZ 0 (q_cuts xs k) i = q_cut xs (Z.of_nat k) i.
Proof.
  intros Hi. unfold q_cuts.
  rewrite nthZ_map with (da := 0) by (unfold lenZ; rewrite ziota_length; lia).
  f_equal. unfold nthZ. destruct (i <? 0) eqn:E; [lia|].
  rewrite nth_ziota by lia. lia.
Qed.

Lemma map_ziota_sorted (f : Z -> Z) n s :
  (forall i j, s <= i -> i <= j -> j < s + Z.of_nat n -> f i <= f j) ->
  StronglySorted Z.le (map f (ziota s n)).
Proof.
  revert s; induction n as [|n IH]; intros s H; cbn [ziota map]; constructor.
  - apply IH. intros i j H1 H2 H3. apply H; lia.
  - apply Forall_forall. intros y Hy. apply in_map_iff in Hy as (x & <- & Hx).
    apply ziota_In in Hx. apply H; lia.
Qed.

Lemma q_cuts_sorted xs k :
  zsorted xs -> 1 <= lenZ xs -> StronglySorted Z.le (q_cuts xs k).
Proof.
  intros Hs Hn. unfold q_cuts. apply map_ziota_sorted.
  intros i j H1 H2 H3. apply q_cut_mono; auto; lia.
Qed.

(* ---- unique ---- *)
Lemma zuniq_In l x : In x (zuniq l) <-> In x l.
Proof.
  induction l as [|a t IH]; [reflexivity|].
  destruct t as [|b t'].
  - reflexivity.
  - change (zuniq (a :: b :: t')) with (if a =? b then zuniq (b :: t') else a :: zuniq (b :: t')).
    destruct (a =? b) eqn:E.
    + apply Z.eqb_eq in E. subst b. rewrite IH. simpl. tauto.
    + simpl In at 1. rewrite IH. simpl. tauto.
Qed.

Lemma zuniq_len l : lenZ (zuniq l) <= lenZ l.
Proof.
  induction l as [|a t IH]; [reflexivity|].
  destruct t as [|b t'].
  - reflexivity.
  - change (zuniq (a :: b :: t')) with (if a =? b then zuniq (b :: t') else a :: zuniq (b :: t')).
    destruct (a =? b);
      [rewrite (lenZ_cons a (b :: t'))|rewrite (lenZ_cons a (zuniq (b :: t'))), (lenZ_cons a (b :: t'))]; lia.
Qed.

Lemma zuniq_nonempty l : l <> [] -> zuniq l <> [].
Proof.
  induction l as [|a t IH]; [congruence|]. intros _.
  destruct t as [|b t']; [discriminate|].
  change (zuniq (a :: b :: t')) with (if a =? b then zuniq (b :: t') else a :: zuniq (b :: t')).
  destruct (a =? b); [apply IH; discriminate|discriminate].
Qed.

Lemma zuniq_strict l : StronglySorted Z.le l -> StronglySorted Z.lt (zuniq l).
Proof.
  induction l as [|a t IH]; intros H; [constructor|].
  inversion H as [|? ? Ht Ha]; subst.
  destruct t as [|b t'].
  - constructor; constructor.
  - change (zuniq (a :: b :: t')) with (if a =? b then zuniq (b :: t') else a :: zuniq (b :: t')).
    destruct (a =? b) eqn:E; [apply IH; exact Ht|].
    apply Z.eqb_neq in E. constructor; [apply IH; exact Ht|].
    apply Forall_forall. intros x Hx. apply (proj1 (zuniq_In _ _)) in Hx.
    rewrite Forall_forall in Ha. pose proof (Ha b (or_introl eq_refl)).
    inversion Ht as [|? ? _ Hb]; subst. rewrite Forall_forall in Hb.
    apply in_inv in Hx. destruct Hx as [<-|Hx]; [lia|]. specialize (Hb x Hx). lia.
Qed.

Lemma ssorted_lt_index l :
  StronglySorted Z.lt l -> forall i j, 0 <= i -> i < j -> j < lenZ l -> nthZ 0 l i < nthZ 0 l j.
Proof.
  induction l as [|a t IH]; intros H i j Hi Hij Hj.
  - unfold lenZ in Hj; simpl in Hj; lia.
  - inversion H as [|? ? Ht Ha]; subst. rewrite lenZ_cons in Hj.
    rewrite (nthZ_cons_S 0 a t j) by lia.
    destruct (Z.eq_dec i 0) as [->|Ni].
    + rewrite nthZ_cons_0. rewrite Forall_forall in Ha. apply Ha. apply nthZ_in. lia.
    + rewrite (nthZ_cons_S 0 a t i) by lia. apply IH; auto; lia.
Qed.

Lemma ssorted_le_index l : StronglySorted Z.le l -> zsorted l.
Proof.
  induction l as [|a t IH]; intros H i j Hi Hij Hj.
  - unfold lenZ in Hj; simpl in Hj; lia.
  - inversion H as [|? ? Ht Ha]; subst. rewrite lenZ_cons in Hj.
    destruct (Z.eq_dec i j) as [->|Nij]; [lia|].
    rewrite (nthZ_cons_S 0 a t j) by lia.
    destruct (Z.eq_dec i 0) as [->|Ni].
    + rewrite nthZ_cons_0. rewrite Forall_forall in Ha. apply Ha. apply nthZ_in. lia.
    + rewrite (nthZ_cons_S 0 a t i) by lia. apply IH; auto; lia.
Qed.

Lemma In_nthZ (l : list Z) x : In x l -> exists i, 0 <= i < lenZ l /\ nthZ 0 l i = x.
Proof.
  intros H. destruct (In_nth l x 0 H) as (n & Hn & E).
  exists (Z.of_nat n). unfold lenZ, nthZ. split; [lia|].
  destruct (Z.of_nat n <? 0) eqn:E0; [lia|]. now rewrite Nat2Z.id.
Qed.

(* ---- the bins handed to _bin ---- *)
Lemma xfin_sorted l :
  (forall i j, 0 <= i -> i < j -> j < lenZ l -> nthZ 0 l i < nthZ 0 l j) -> xsorted (map XFin l).
Proof.
  intros H i j Hi Hij Hj. rewrite lenZ_map in Hj.
  rewrite !nthZ_map with (da := 0) by lia.
  destruct (Z.eq_dec i j) as [->|N].
  - apply xleb_refl. discriminate.
  - specialize (H i j Hi ltac:(lia) Hj). simpl. apply Z.leb_le. lia.
Qed.

Lemma xfin_all_ok l : xall_ok (map XFin l).
Proof.
  intros i Hi. rewrite lenZ_map in Hi. rewrite nthZ_map with (da := 0) by lia. discriminate.
Qed.

Section QuantileBins.
  Variable xs : list Z.
  Variable k : nat.
  Hypothesis Hs : zsorted xs.
  Hypothesis Hn : 1 <= lenZ xs.
  Hypothesis Hk : (0 < k)%nat.

  Lemma qb_strict :
    forall i j, 0 <= i -> i < j -> j < lenZ (zuniq (q_cuts xs k)) ->
      nthZ 0 (zuniq (q_cuts xs k)) i < nthZ 0 (zuniq (q_cuts xs k)) j.
  Proof. apply ssorted_lt_index, zuniq_strict, q_cuts_sorted; assumption. Qed.

  Lemma qb_len : 1 <= lenZ (quantile_bins xs k) <= Z.of_nat k.
  Proof.
    unfold quantile_bins. rewrite lenZ_map. split.
    - assert (H : zuniq (q_cuts xs k) <> []).
      { apply zuniq_nonempty. intros E. pose proof (q_cuts_len xs k) as L. rewrite E in L.
        unfold lenZ in L; simpl in L; lia. }
      destruct (zuniq (q_cuts xs k)); [congruence|rewrite lenZ_cons; pose proof (lenZ_nonneg l); lia].
    - rewrite <- (q_cuts_len xs k). apply zuniq_len.
  Qed.

  Lemma qb_sorted : xsorted (quantile_bins xs k).
  Proof. apply xfin_sorted, qb_strict. Qed.

  Lemma qb_ok : xall_ok (quantile_bins xs k).
  Proof. apply xfin_all_ok. Qed.

  (* the set of bins is exactly the set of percentile cuts *)
  Lemma qb_In c : In (XFin c) (quantile_bins xs k) <-> exists i, 0 <= i < Z.of_nat k /\ c = q_cut xs (Z.of_nat k) i.
  Proof.
    unfold quantile_bins. rewrite in_map_iff. split.
    - intros (y & E & Hy). inversion E; subst y. apply (proj1 (zuniq_In _ _)) in Hy.
      unfold q_cuts in Hy. apply in_map_iff in Hy as (i & <- & Hi). apply ziota_In in Hi.
      exists i; split; [lia|reflexivity].
    - intros (i & Hi & ->). exists (q_cut xs (Z.of_nat k) i). split; [reflexivity|].
      apply (proj2 (zuniq_In _ _)). unfold q_cuts. apply in_map_iff. exists i. split; [reflexivity|].
      apply ziota_In; lia.
  Qed.

  (* the last bin is k * max *)
  Lemma qb_last :
    nthZ XNaN (quantile_bins xs k) (lenZ (quantile_bins xs k) - 1)
    = XFin (Z.of_nat k * nthZ 0 xs (lenZ xs - 1)).
  Proof.
    pose proof qb_len as L. unfold quantile_bins in *. rewrite lenZ_map in *.
    rewrite nthZ_map with (da := 0) by lia. f_equal.
    set (u := zuniq (q_cuts xs k)) in *.
    assert (Hin : In (Z.of_nat k * nthZ 0 xs (lenZ xs - 1)) u).
    { apply (proj2 (zuniq_In _ _)). rewrite <- q_cut_last by lia. unfold q_cuts. apply in_map_iff.
      exists (Z.of_nat k - 1). split; [reflexivity|apply ziota_In; lia]. }
    apply In_nthZ in Hin as (m & Hm & Em).
    assert (Hmax : forall c, In c u -> c <= Z.of_nat k * nthZ 0 xs (lenZ xs - 1)).
    { intros c Hc. apply (proj1 (zuniq_In _ _)) in Hc. unfold q_cuts in Hc.
      apply in_map_iff in Hc as (i & <- & Hi). apply ziota_In in Hi.
      rewrite <- q_cut_last by lia. apply q_cut_mono; auto; lia. }
    destruct (Z.eq_dec m (lenZ u - 1)) as [->|N]; [exact Em|].
    pose proof (qb_strict m (lenZ u - 1)) as Hlt. fold u in Hlt.
    specialize (Hlt ltac:(lia) ltac:(lia) ltac:(lia)). rewrite Em in Hlt.
    specialize (Hmax (nthZ 0 u (lenZ u - 1)) (nthZ_in 0 u (lenZ u - 1) ltac:(lia))). lia.
  Qed.

  (* every data value gets a class: an integer in [0, #bins-1] (a sub-range of [0, k-1]),
     namely the first percentile cut >= the value *)
  Lemma quantile_class_spec v :
    In v xs ->
    exists c, quantile_class xs k v = Some (XFin c) /\
      xfirst_ge (quantile_bins xs k) (XFin (Z.of_nat k * v)) c /\
      0 <= c <= lenZ (quantile_bins xs k) - 1 /\ lenZ (quantile_bins xs k) <= Z.of_nat k.
  Proof.
    intros Hv. pose proof qb_len as L. unfold quantile_class.
    destruct (class_cell_spec (quantile_bins xs k) (XFin (Z.of_nat k * v))) as (c & Hc & Hf & Hr).
    - lia.
    - exact qb_sorted.
    - exact qb_ok.
    - reflexivity.
    - rewrite qb_last. simpl. apply Z.leb_le.
      apply In_nthZ in Hv as (j & Hj & <-).
      assert (nthZ 0 xs j <= nthZ 0 xs (lenZ xs - 1)) by (apply Hs; lia). nia.
    - exists c. split; [exact Hc|]. split; [exact Hf|]. lia.
  Qed.
End QuantileBins.
