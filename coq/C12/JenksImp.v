(* C12/JenksImp.v — a FAITHFUL executable model of the code of natural_breaks' optimiser:
     _run_numpy_jenks_matrices  (the imperative double loop filling lower_class_limits and
                                 var_combinations), and
     _run_jenks                 (the back-tracking of the class breaks `kclass`),
   over exact rationals (the code computes in float64 / stores in float32; the harness compares the two
   on small integer / dyadic data).  Loops run in the code's order, the update test is the code's
   `var_combinations[l, j] >= new_variance` (a later candidate wins ties), entries start at +inf
   (rows 2..n, columns 1..k) or zero (rows 0, 1 and column 0), the candidate i4 = 0 is skipped, the
   running w / sum / sum_squares and `variance` are threaded exactly as in the code (`variance` even
   across rows).  Matrices are functions row -> column -> value.
   Also here: the functional reading `W` of those loops (same candidate order, same tie rule, same
   incremental cost, the zero row) that JenksImpProofs.v proves equal to the matrices cell by cell.
   Definitions only. *)
From Coq Require Import List Arith Bool ZArith QArith Lia.
Import ListNotations.
Require Import C12.Jenks.
Local Open Scope nat_scope.

(* ---------- values of var_combinations: a rational or +inf ---------- *)
Inductive qx : Type := Fin (q : Q) | PInf.
Definition xadd (a b : qx) : qx :=
  match a, b with Fin x, Fin y => Fin (x + y)%Q | _, _ => PInf end.
(* the code's  a >= b  *)
Definition xge (a b : qx) : bool :=
  match a, b with
  | PInf, _ => true
  | Fin _, PInf => false
  | Fin x, Fin y => Qle_bool y x
  end.

Definition mat (A : Type) : Type := nat -> nat -> A.
Definition upd {A} (M : mat A) (r c : nat) (v : A) : mat A :=
  fun r' c' => if (r' =? r) && (c' =? c) then v else M r' c'.

(* lower_class_limits = zeros((n+1, k+1)); lower_class_limits[1, 1:k+1] = 1 *)
Definition init_lcl (k : nat) : mat Z :=
  fun r c => if (r =? 1) && (1 <=? c) && (c <=? k) then 1%Z else 0%Z.
(* var_combinations = zeros((n+1, k+1)); var_combinations[2:n+1, 1:k+1] = inf *)
Definition init_vc (n k : nat) : mat qx :=
  fun r c => if (2 <=? r) && (r <=? n) && (1 <=? c) && (c <=? k) then PInf else Fin 0%Q.

(* for j in range(2, k+1):
       new_variance = variance + var_combinations[i4, j-1]
       if var_combinations[l, j] >= new_variance:
           lower_class_limits[l, j] = lower_class_limit
           var_combinations[l, j] = new_variance *)
Definition jstep (l lower i4 : nat) (variance : Q) (s : mat Z * mat qx) (j : nat) : mat Z * mat qx :=
  let '(L, Vc) := s in
  let nv := xadd (Fin variance) (Vc i4 (j - 1)) in
  if xge (Vc l j) nv then (upd L l j (Z.of_nat lower), upd Vc l j nv) else (L, Vc).

(* the running  w, sum, sum_squares  after reading one more value *)
Definition accstep (data : list Q) (a : Q * Q * Q) (idx : nat) : Q * Q * Q :=
  let '(w, sm, ss) := a in
  let val := nth idx data 0%Q in
  ((w + 1)%Q, (sm + val)%Q, (ss + val * val)%Q).
Definition acc_var (a : Q * Q * Q) : Q :=
  let '(w, sm, ss) := a in (ss - (sm * sm) / w)%Q.

Record mstate : Type := MS { ms_acc : Q * Q * Q; ms_var : Q; ms_L : mat Z; ms_Vc : mat qx }.

(* body of  for m in range(l)  *)
Definition mstep (data : list Q) (k l : nat) (s : mstate) (m : nat) : mstate :=
  let lower := l - m in
  let i4 := lower - 1 in
  let a := accstep data (ms_acc s) i4 in
  let variance := acc_var a in
  if i4 =? 0 then MS a variance (ms_L s) (ms_Vc s)
  else
    let '(L', Vc') := fold_left (jstep l lower i4 variance) (seq 2 (k - 1)) (ms_L s, ms_Vc s) in
    MS a variance L' Vc'.

(* body of  for l in range(2, n+1)  ; state: variance (a function-level variable), the two matrices *)
Definition lstep (data : list Q) (k : nat) (s : Q * mat Z * mat qx) (l : nat) : Q * mat Z * mat qx :=
  let '(variance, L, Vc) := s in
  let r := fold_left (mstep data k l) (seq 0 l) (MS (0, 0, 0)%Q variance L Vc) in
  (ms_var r, upd (ms_L r) l 1 1%Z, upd (ms_Vc r) l 1 (Fin (ms_var r))).

(* _run_numpy_jenks_matrices(data, k) -> (lower_class_limits, var_combinations) *)
Definition jenks_matrices (data : list Q) (k : nat) : mat Z * mat qx :=
  let n := length data in
  let '(_, L, Vc) := fold_left (lstep data k) (seq 2 (n - 1)) (0%Q, init_lcl k, init_vc n k) in
  (L, Vc).

(* ---------- _run_jenks: back-tracking ---------- *)
(* Python indexing of an axis of size sz with a possibly negative index (out of range: the default;
   unreachable for n >= 2, where every index the loop forms lies in [-2, n-1]) *)
Definition pyidx (sz : nat) (z : Z) : nat := Z.to_nat (if (z <? 0)%Z then z + Z.of_nat sz else z).
Definition data_at (data : list Q) (z : Z) : Q := nth (pyidx (length data) z) data 0%Q.

(* while count_num > 1:
       elt = int(lcl[k][count_num] - 2); kclass[count_num - 1] = data[elt]
       k = int(lcl[k][count_num] - 1);   count_num -= 1
   returns kclass[1 .. count_num-1] in ascending index order *)
Fixpoint bt_breaks (data : list Q) (L : mat Z) (count_num : nat) (kcur : Z) : list Q :=
  match count_num with
  | S (S _ as c') =>
      let lim := L (pyidx (S (length data)) kcur) count_num in
      bt_breaks data L c' (lim - 1)%Z ++ [data_at data (lim - 2)%Z]
  | _ => []
  end.

(* kclass = zeros(k+1); kclass[0] = data[0]; kclass[-1] = data[-1]; the loop above *)
Definition run_jenks (data : list Q) (k : nat) : list Q :=
  let L := fst (jenks_matrices data k) in
  data_at data 0 :: bt_breaks data L k (Z.of_nat (length data)) ++ [data_at data (-1)].

(* the successive values of `k` in that loop (the number of points left below each break),
   last class first: the partition in the format of Jenks.pvalid / pcost *)
Fixpoint bt_cuts (n : nat) (L : mat Z) (count_num : nat) (kcur : Z) : list Z :=
  match count_num with
  | S (S _ as c') =>
      let lim := L (pyidx (S n) kcur) count_num in
      (lim - 1)%Z :: bt_cuts n L c' (lim - 1)%Z
  | _ => []
  end.
(* no index of the back-tracking underflows: every row it reads is a row >= 2 *)
Fixpoint bt_ok (n : nat) (L : mat Z) (count_num : nat) (kcur : Z) : bool :=
  match count_num with
  | S (S _ as c') =>
      (2 <=? kcur)%Z && bt_ok n L c' (L (pyidx (S n) kcur) count_num - 1)%Z
  | _ => true
  end.
Definition jenks_bt_ok (data : list Q) (k : nat) : bool :=
  bt_ok (length data) (fst (jenks_matrices data k)) k (Z.of_nat (length data)).
Definition jenks_cuts (data : list Q) (k : nat) : list nat :=
  map Z.to_nat (bt_cuts (length data) (fst (jenks_matrices data k)) k (Z.of_nat (length data))).

(* ---------- the cost the loops compute: the class [i, l) scanned from l-1 down to i ---------- *)
Definition cinc (data : list Q) (i l : nat) : Q :=
  acc_var (fold_left (accstep data) (rev (seq i (l - i))) (0, 0, 0)%Q).

(* ---------- functional reading of the loops ---------- *)
Section DPW.
  Context {T : Type}.
  Variable zero : T.
  Variable leb : T -> T -> bool.
  Variable add : T -> T -> T.
  Variable c : nat -> nat -> T.

  (* one `if cur >= new: cur = new` with cur = None for +inf; remembers the winning start *)
  Definition wstep (cand : nat -> T) (cur : option (nat * T)) (i : nat) : option (nat * T) :=
    match cur with
    | None => Some (i, cand i)
    | Some (_, v0) => if leb (cand i) v0 then Some (i, cand i) else cur
    end.
  (* candidates in the code's order  i4 = l-1, l-2, .., 1 *)
  Definition wsel (cand : nat -> T) (l : nat) : option (nat * T) :=
    fold_left (wstep cand) (rev (seq 1 (l - 1))) None.

  (* W j l = var_combinations[l][j+1] *)
  Fixpoint W (j l : nat) : T :=
    if l <=? 1 then zero
    else match j with
         | O => c 0 l
         | S j' =>
           match wsel (fun i => add (c i l) (W j' i)) l with
           | Some (_, v) => v
           | None => zero
           end
         end.
  Definition Wcand (j' l i : nat) : T := add (c i l) (W j' i).
  Definition Wsel (j' l : nat) : option (nat * T) := wsel (Wcand j' l) l.

  (* the back-tracked partition, last class first *)
  Fixpoint Wpath (j l : nat) : list nat :=
    match j with
    | O => []
    | S j' => match Wsel j' l with
              | Some (i, _) => i :: Wpath j' i
              | None => []
              end
    end.
  (* every step of the back-tracking starts from at least two points *)
  Fixpoint Wok (j l : nat) : bool :=
    match j with
    | O => true
    | S j' => (2 <=? l) && match Wsel j' l with
                           | Some (i, _) => Wok j' i
                           | None => false
                           end
    end.
End DPW.

Definition QW (data : list Q) : nat -> nat -> Q := W 0%Q Qle_bool Qplus (cinc data).

(* ---------- helper for the harness (not used by any theorem): is the winner of cell (l, j), j >= 2,
   within 1e-6 (relative) of another candidate?  Float32 storage may then resolve the choice differently. *)
Definition near_tie (data : list Q) (Vc : mat qx) (l j : nat) : bool :=
  let cand i := match Vc i (j - 1) with Fin v => (cinc data i l + v)%Q | PInf => 0%Q end in
  match Vc l j with
  | PInf => false
  | Fin best =>
    let close i := Qle_bool ((cand i - best) * 1000000) (cand i) in
    let n_close := length (filter close (seq 1 (l - 1))) in
    2 <=? n_close
  end.

(* ---------- "sorted with at least k distinct values" (what _run_natural_break checks before it calls
   _run_jenks: data.sort() and len(np.unique(data)) >= k), for the precondition of the back-tracking theorem ---------- *)
(* position p (1 <= p < n) is an ascent: data[p-1] < data[p] *)
Definition ascb (data : list Q) (p : nat) : bool :=
  negb (Qle_bool (nth p data 0%Q) (nth (p - 1) data 0%Q)).
Definition nasc (data : list Q) (ps : list nat) : nat := length (filter (ascb data) ps).
(* number of distinct values among the first l points of an ascending list, l >= 1 *)
Definition distinct_upto (data : list Q) (l : nat) : nat := S (nasc data (seq 1 (l - 1))).
Definition sortedQ (data : list Q) : Prop :=
  forall p, 1 <= p < length data -> (nth (p - 1) data 0 <= nth p data 0)%Q.
