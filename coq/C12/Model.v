(* C12/Model.v — executable model of xrspatial/classify.py: _cpu_binary,
   _cpu_bin (hand-written binary search incl. Numba's wrapping negative index),
   and the "classify with given ascending bins" step shared by reclassify,
   quantile, equal_interval and natural_breaks.  Definitions only. *)
Require Import Base.Prelude Base.XVal.

Section BinSearch.
  Context {T : Type}.
  Variable d : T.                       (* default for out-of-range reads *)
  Variables leb ltb : T -> T -> bool.   (* the code's  <=  and  <  *)

  (* while start <= end:
         if bins[mid] < val:       start = mid + 1
         elif val > bins[mid - 1]: break
         else:                     end = mid - 1
         mid = (end + start) // 2
     None = fuel exhausted (never happens with fuel > end - start, proved). *)
  Fixpoint bs_loop (fuel : nat) (bins : list T) (v : T) (start end_ mid : Z) : option Z :=
    match fuel with
    | O => None
    | S f =>
      if start <=? end_ then
        if ltb (nthWrap d bins mid) v then
          let s := mid + 1 in bs_loop f bins v s end_ ((end_ + s) / 2)
        else if ltb (nthWrap d bins (mid - 1)) v then Some mid
        else let e := mid - 1 in bs_loop f bins v start e ((e + start) / 2)
      else Some mid
    end.

  (* val_bin of _cpu_bin for a finite value; -1 = no bin *)
  Definition find_bin (bins : list T) (v : T) : option Z :=
    let n := lenZ bins in
    if leb v (nthWrap d bins 0) then Some 0
    else if leb v (nthWrap d bins (n - 1)) then
      bs_loop (S (length bins)) bins v 0 (n - 1) ((n - 1 + 0) / 2)
    else Some (-1).
End BinSearch.

(* ---- instance used for execution and for the property theorems ---- *)
Definition xfind_bin := find_bin XNaN xleb xltb.

(* one cell of _cpu_bin: out = new_values[val_bin] or NaN *)
Definition reclass_cell (bins new_values : list xv) (v : xv) : option xv :=
  if xisfinite v then
    match xfind_bin bins v with
    | None => None
    | Some b => Some (if b >? -1 then nthWrap XNaN new_values b else XNaN)
    end
  else Some XNaN.

(* one cell of _cpu_binary: np.any(values == v) -> 1; elif isfinite -> 0; else NaN *)
Definition binary_cell (values : list xv) (v : xv) : xv :=
  if existsb (fun e => xeqb e v) values then XFin 1
  else if xisfinite v then XFin 0 else XNaN.

Definition reclass_raster (bins new_values : list xv) (data : list (list xv)) :=
  map (map (reclass_cell bins new_values)) data.
Definition binary_raster (values : list xv) (data : list (list xv)) :=
  map (map (binary_cell values)) data.

(* data-driven classifiers: _bin(agg, bins, arange(len bins)) *)
Definition class_cell (bins : list xv) (v : xv) : option xv :=
  reclass_cell bins (map XFin (ziota 0 (length bins))) v.

(* equal_interval's exact cuts, everything scaled by k so that they are integers:
   cut_i = k*lo + (i+1)*(hi-lo), i = 0..k-1  (the code: arange(min+w, max+w, w), w=(max-min)/k,
   overshoot cut, last cut := max).  Used for the band theorem; the float cuts of the
   implementation are compared with these by the harness oracle. *)
Definition ei_cuts (lo hi : Z) (k : nat) : list xv :=
  map (fun i => XFin (Z.of_nat k * lo + (i + 1) * (hi - lo))) (ziota 0 k).
