(* C12/PropsJenksImp.v — claimed theorems tying the CODE of natural_breaks' optimiser to the optimality
   theorems of PropsJenks.v.  JenksImp.v models _run_numpy_jenks_matrices (the imperative triple loop
   over the two (n+1) x (k+1) matrices, in the code's order, with the code's `>=` update test, +inf
   initial entries, the zero row 1, the skipped candidate i4 = 0, the running w / sum / sum_squares)
   and _run_jenks (the back-tracking of `kclass`) over exact rationals.  All statements are for EVERY
   data list and EVERY k >= 1; none assumes the data sorted (natural_breaks sorts them, but the
   optimum over CONTIGUOUS partitions of the list as given does not need it). *)
From Coq Require Import List Arith Bool ZArith QArith Lia.
Import ListNotations.
Require Import C12.Jenks C12.JenksProofs C12.JenksImp C12.JenksImpProofs C12.JenksDistinct.
Local Open Scope nat_scope.

(* Refinement: after the loops, var_combinations[l][j] (rows 2..n, columns 1..k) is finite and equals
   the Fisher-Jenks value V (j-1) l of Jenks.v — the minimum within-class sum of squared deviations of
   the first l points in at most j contiguous classes (C12_jenks_min_lower_bound / _attained). *)
Theorem C12_jenks_imp_var_combinations : forall data k l j,
  1 <= k -> 2 <= l <= length data -> 1 <= j <= k ->
  exists v, snd (jenks_matrices data k) l j = Fin v /\
            (v == V Qle_bool Qplus (ssd data) (j - 1) l)%Q.
Proof.
  intros data k l j Hk Hl Hj.
  destruct (jenks_imp_var_combinations data k l j Hk Hl Hj) as (H1 & H2).
  exists (QW data (j - 1) l). split; assumption.
Qed.
Print Assumptions C12_jenks_imp_var_combinations.

(* in particular the bottom-right cell is the optimum jenks_min of PropsJenks.v *)
Theorem C12_jenks_imp_min : forall data k,
  1 <= k -> 2 <= length data ->
  exists v, snd (jenks_matrices data k) (length data) k = Fin v /\ (v == jenks_min data k)%Q.
Proof. exact jenks_imp_min. Qed.
Print Assumptions C12_jenks_imp_min.

(* every other cell (rows 0 and 1, column 0) still has its initial value: zero, and 1 in
   lower_class_limits[1][1..k] *)
Theorem C12_jenks_imp_untouched : forall data k r cc,
  1 <= k -> ~ (2 <= r <= length data /\ 1 <= cc <= k) ->
  fst (jenks_matrices data k) r cc = init_lcl k r cc /\
  snd (jenks_matrices data k) r cc = init_vc (length data) k r cc.
Proof. exact jenks_imp_untouched. Qed.
Print Assumptions C12_jenks_imp_untouched.

(* lower_class_limits[l][j] = i + 1 for a start 1 <= i < l of the last class with
   var_combinations[l][j] = variance(data[i..l-1]) + var_combinations[i][j-1], and no start does better *)
Theorem C12_jenks_imp_lower_class_limits : forall data k l j,
  1 <= k -> 2 <= l <= length data -> 2 <= j <= k ->
  let M := jenks_matrices data k in
  exists i p, fst M l j = Z.of_nat (S i) /\ 1 <= i < l /\
    snd M i (j - 1) = Fin p /\ snd M l j = Fin (cinc data i l + p)%Q /\
    forall i', 1 <= i' < l ->
      exists p', snd M i' (j - 1) = Fin p' /\ (cinc data i l + p <= cinc data i' l + p')%Q.
Proof. exact jenks_imp_lower_class_limits. Qed.
Print Assumptions C12_jenks_imp_lower_class_limits.

(* the code's `>=` lets a LATER candidate win ties, so the recorded start is the SMALLEST optimal one:
   every smaller start is strictly worse *)
Theorem C12_jenks_imp_tie_rule : forall data k l j,
  1 <= k -> 2 <= l <= length data -> 2 <= j <= k ->
  let M := jenks_matrices data k in
  forall i, fst M l j = Z.of_nat (S i) ->
  forall i', 1 <= i' < i ->
    exists p p', snd M i (j - 1) = Fin p /\ snd M i' (j - 1) = Fin p' /\
                 (cinc data i l + p < cinc data i' l + p')%Q.
Proof. exact jenks_imp_tie_rule. Qed.
Print Assumptions C12_jenks_imp_tie_rule.

(* ... where `variance` — the code's running  sum_squares - sum*sum/w  — is the sum of squared
   deviations of the class *)
Theorem C12_jenks_imp_variance_is_ssd : forall data i l,
  i < l <= length data -> (cinc data i l == ssd data i l)%Q.
Proof. exact cinc_ssd. Qed.
Print Assumptions C12_jenks_imp_variance_is_ssd.

(* Optimality of what _run_jenks returns.  Precondition jenks_bt_ok: no index of the back-tracking
   loop underflows (every row it reads is a row >= 2) — the situation _run_natural_break arranges by
   calling _run_jenks only when the data have at least k distinct values.  Then the successive values
   of `k` in the loop cut the n points into EXACTLY k non-empty contiguous classes whose within-class
   sum of squared deviations is the minimum over ALL partitions into k contiguous classes. *)
Theorem C12_jenks_imp_backtrack_optimal : forall data k,
  1 <= k -> 1 <= length data -> jenks_bt_ok data k = true ->
  let n := length data in
  let P := jenks_cuts data k in
  pvalid n P /\ length P = k - 1 /\
  (pcost Qplus (ssd data) n P == jenks_min data k)%Q /\
  forall P', pvalid n P' -> length P' = k - 1 ->
             (pcost Qplus (ssd data) n P <= pcost Qplus (ssd data) n P')%Q.
Proof. exact jenks_imp_backtrack_optimal. Qed.
Print Assumptions C12_jenks_imp_backtrack_optimal.

(* ... and the returned kclass is [data[0]; the last (largest, for sorted data) value of each class
   but the last, ascending; data[n-1]] — so `bins = kclass[1:]` are the class maxima. *)
Theorem C12_jenks_imp_breaks : forall data k,
  1 <= k -> 1 <= length data -> jenks_bt_ok data k = true ->
  run_jenks data k =
  nth 0 data 0%Q :: map (fun i => nth (i - 1) data 0%Q) (rev (jenks_cuts data k))
                 ++ [nth (length data - 1) data 0%Q].
Proof. exact jenks_imp_breaks. Qed.
Print Assumptions C12_jenks_imp_breaks.

(* The precondition holds for what _run_natural_break passes: ASCENDING data (data.sort() in _run_jenks) with at
   least k DISTINCT values (`uvk < k` is tested before the call).  distinct_upto counts 1 + the positions p with
   data[p-1] < data[p]. *)
Theorem C12_jenks_imp_no_underflow : forall data k,
  1 <= k -> 1 <= length data -> sortedQ data -> k <= distinct_upto data (length data) ->
  jenks_bt_ok data k = true.
Proof. exact jenks_bt_ok_of_distinct. Qed.
Print Assumptions C12_jenks_imp_no_underflow.

(* Headline, with preconditions on the INPUT only: on ascending data with at least k distinct values the
   imperative algorithm (matrices + back-tracking) cuts the data into exactly k non-empty contiguous classes of
   minimum within-class sum of squared deviations over ALL such partitions, and returns their maxima as breaks. *)
Theorem C12_jenks_imp_optimal_on_sorted_distinct : forall data k,
  1 <= k -> sortedQ data -> k <= distinct_upto data (length data) -> 1 <= length data ->
  let n := length data in
  let P := jenks_cuts data k in
  pvalid n P /\ length P = k - 1 /\
  (pcost Qplus (ssd data) n P == jenks_min data k)%Q /\
  (forall P', pvalid n P' -> length P' = k - 1 ->
              (pcost Qplus (ssd data) n P <= pcost Qplus (ssd data) n P')%Q) /\
  run_jenks data k =
  nth 0 data 0%Q :: map (fun i => nth (i - 1) data 0%Q) (rev P) ++ [nth (n - 1) data 0%Q].
Proof.
  intros data k Hk Hs HD Hn n P.
  pose proof (jenks_bt_ok_of_distinct data k Hk Hn Hs HD) as Hok.
  destruct (jenks_imp_backtrack_optimal data k Hk Hn Hok) as (H1 & H2 & H3 & H4).
  repeat split; try assumption. exact (jenks_imp_breaks data k Hk Hn Hok).
Qed.
Print Assumptions C12_jenks_imp_optimal_on_sorted_distinct.

(* ---------- non-vacuity (vm_compute on concrete data with ties) ---------- *)
Definition ex_data : list Q := map inject_Z [0; 0; 14; 14; 14; 16; 29]%Z.

Example C12_jenks_imp_example :
  (* k = 3 on {0,0,14,14,14,16,29}: classes {0,0} {14,14,14,16} {29}, cost 3 *)
  jenks_bt_ok ex_data 3 = true /\
  jenks_cuts ex_data 3 = [6; 2] /\
  map Qred (run_jenks ex_data 3) = map inject_Z [0; 0; 16; 29]%Z /\
  fst (jenks_matrices ex_data 3) 7 3 = 7%Z /\ fst (jenks_matrices ex_data 3) 6 2 = 3%Z /\
  (match snd (jenks_matrices ex_data 3) 7 3 with Fin v => Qeq_bool v 3 | PInf => false end) = true /\
  Qeq_bool (jenks_min ex_data 3) 3 = true /\
  Qeq_bool (pcost Qplus (ssd ex_data) 7 [6; 2]) 3 = true.
Proof. vm_compute. repeat split. Qed.

Example C12_jenks_imp_tie_example :
  (* {0,1,2}, k = 2: the starts 2 ({0,1}|{2}) and 1 ({0}|{1,2}) both cost 1/2; the code's `>=` lets the
     LATER candidate (m = 1, start 1) win: lower_class_limits[3][2] = 2 *)
  let d := map inject_Z [0; 1; 2]%Z in
  fst (jenks_matrices d 2) 3 2 = 2%Z /\ jenks_cuts d 2 = [1] /\ jenks_bt_ok d 2 = true /\
  Qeq_bool (cinc d 2 3 + cinc d 0 2) (cinc d 1 3 + cinc d 0 1) = true /\
  (* untouched cells *)
  fst (jenks_matrices d 2) 1 2 = 1%Z /\ snd (jenks_matrices d 2) 1 2 = Fin 0 /\
  fst (jenks_matrices d 2) 3 0 = 0%Z.
Proof. vm_compute. repeat split. Qed.

Example C12_jenks_imp_underflow_example :
  (* fewer distinct values than classes (natural_breaks never calls _run_jenks then): {5,5,5}, k = 3 —
     the loop reaches k = 1 with a class still to place, reads data[-1]; the precondition fails *)
  let d := map inject_Z [5; 5; 5]%Z in
  jenks_bt_ok d 3 = false /\ map Qred (run_jenks d 3) = map inject_Z [5; 5; 5; 5]%Z.
Proof. vm_compute. repeat split. Qed.

Example C12_jenks_imp_sorted_distinct_example :
  (* the hypotheses of C12_jenks_imp_optimal_on_sorted_distinct hold for the tied example: ascending, 4 distinct values *)
  sortedQ ex_data /\ distinct_upto ex_data (length ex_data) = 4 /\ distinct_upto ex_data 5 = 2.
Proof.
  split; [|vm_compute; split; reflexivity].
  intros p Hp. change (length ex_data) with 7 in Hp.
  do 7 (destruct p as [|p]; [try lia; vm_compute; intros H; discriminate H|]). lia.
Qed.
