(* C12/PropsQuantile.v — the property theorems about quantile's bin construction, nothing else.
   Exact arithmetic, everything scaled by k (cut_i here = k * the i-th percentile cut), for
   EVERY ascending data list of length >= 1 and EVERY k >= 1.  The float construction of the
   real code (linspace / np.percentile / np.unique) is tied to q_cuts / quantile_bins by the
   correspondence stream `qcuts` of ./check C12 (bins captured at the _bin call). *)
Require Import Base.Prelude Base.XVal C12.Model C12.Proofs C12.Quantile C12.QuantileProofs.

(* "quantile classes are the k percentile bands": the i-th cut lies between the order statistics
   xs[lo] and xs[lo+1], lo = floor((i+1)(n-1)/k); the data values at sorted positions 0..lo are
   <= the cut and those at positions lo+1..n-1 are >= it. *)
Theorem C12_quantile_cut_is_percentile : forall xs k i j,
  zsorted xs -> 0 < k -> 0 <= i < k -> 1 <= lenZ xs -> 0 <= j < lenZ xs ->
  0 <= q_lo (lenZ xs) k i <= lenZ xs - 1 /\
  (j <= q_lo (lenZ xs) k i -> k * nthZ 0 xs j <= q_cut xs k i) /\
  (q_lo (lenZ xs) k i + 1 <= j -> q_cut xs k i <= k * nthZ 0 xs j).
Proof.
  intros xs k i j Hs Hk Hi Hn Hj. split.
  - destruct (q_pos_facts (lenZ xs) k i Hk Hi Hn) as (_ & _ & H & _). exact H.
  - exact (q_cut_splits xs k i j Hs Hk Hi Hn Hj).
Qed.
Print Assumptions C12_quantile_cut_is_percentile.

(* the cuts ascend and the last one (percentile 100) is the maximum *)
Theorem C12_quantile_cuts_ascending : forall xs k,
  zsorted xs -> 0 < k -> 1 <= lenZ xs ->
  (forall i j, 0 <= i -> i <= j -> j < k -> q_cut xs k i <= q_cut xs k j) /\
  q_cut xs k (k - 1) = k * nthZ 0 xs (lenZ xs - 1).
Proof.
  intros xs k Hs Hk Hn. split.
  - intros i j H1 H2 H3. apply q_cut_mono; auto.
  - apply q_cut_last; auto.
Qed.
Print Assumptions C12_quantile_cuts_ascending.

(* after np.unique the bins are strictly ascending, between 1 and k of them, and are exactly the
   set of percentile cuts *)
Theorem C12_quantile_bins_strict : forall xs (k : nat),
  zsorted xs -> 1 <= lenZ xs -> (0 < k)%nat ->
  1 <= lenZ (quantile_bins xs k) <= Z.of_nat k /\
  (forall i j, 0 <= i -> i < j -> j < lenZ (zuniq (q_cuts xs k)) ->
     nthZ 0 (zuniq (q_cuts xs k)) i < nthZ 0 (zuniq (q_cuts xs k)) j) /\
  (forall c, In (XFin c) (quantile_bins xs k) <->
     exists i, 0 <= i < Z.of_nat k /\ c = q_cut xs (Z.of_nat k) i).
Proof.
  intros xs k Hs Hn Hk. split; [apply qb_len; assumption|].
  split; [apply qb_strict; assumption|]. intros c. apply qb_In; assumption.
Qed.
Print Assumptions C12_quantile_bins_strict.

(* every data value gets an integer class in [0, #bins - 1], a sub-range of [0, k-1]: the first
   percentile cut >= the value (hence, by C12_class_monotone, order preserving) *)
Theorem C12_quantile_class : forall xs (k : nat) v,
  zsorted xs -> 1 <= lenZ xs -> (0 < k)%nat -> In v xs ->
  exists c, quantile_class xs k v = Some (XFin c) /\
    xfirst_ge (quantile_bins xs k) (XFin (Z.of_nat k * v)) c /\
    0 <= c <= lenZ (quantile_bins xs k) - 1 /\ lenZ (quantile_bins xs k) <= Z.of_nat k.
Proof. intros xs k v Hs Hn Hk. exact (quantile_class_spec xs k Hs Hn Hk v). Qed.
Print Assumptions C12_quantile_class.

(* quantile is order preserving on the data: a larger datum never gets a smaller class *)
Theorem C12_quantile_order_preserving : forall xs (k : nat) v w cv cw,
  zsorted xs -> 1 <= lenZ xs -> (0 < k)%nat -> In v xs -> In w xs -> v <= w ->
  quantile_class xs k v = Some (XFin cv) -> quantile_class xs k w = Some (XFin cw) -> cv <= cw.
Proof.
  intros xs k v w cv cw Hs Hn Hk Hv Hw Hvw Ev Ew.
  destruct (quantile_class_spec xs k Hs Hn Hk v Hv) as (c1 & E1 & F1 & _).
  destruct (quantile_class_spec xs k Hs Hn Hk w Hw) as (c2 & E2 & F2 & _).
  rewrite Ev in E1. rewrite Ew in E2. inversion E1; inversion E2; subst c1 c2.
  refine (class_cell_monotone (quantile_bins xs k) (XFin (Z.of_nat k * v)) (XFin (Z.of_nat k * w)) cv cw _ eq_refl eq_refl _ F1 F2).
  - apply xfin_all_ok.
  - simpl. apply Z.leb_le. nia.
Qed.
Print Assumptions C12_quantile_order_preserving.

(* non-vacuity and a worked example: n = 7 values with ties, k = 4.
   positions (i+1)*6/4 = 1.5, 3, 4.5, 6  ->  cuts 1.5, 2, 6.5, 9  (times 4: 6, 8, 26, 36) *)
Example C12_quantile_example :
  let xs := [1; 1; 2; 2; 4; 9; 9] in
  q_cuts xs 4 = [6; 8; 26; 36] /\
  map (quantile_class xs 4) xs = map (fun c => Some (XFin c)) [0; 0; 1; 1; 2; 3; 3] /\
  quantile_bins [5; 5; 5] 3 = [XFin 15].
Proof. cbv zeta. repeat split; reflexivity. Qed.

Example C12_quantile_hyps_satisfiable : zsorted [1; 1; 2; 2; 4; 9; 9] /\ 1 <= lenZ [1; 1; 2; 2; 4; 9; 9].
Proof.
  split; [|unfold lenZ; simpl; lia].
  apply (ssorted_le_index [1; 1; 2; 2; 4; 9; 9]).
  repeat (constructor; [|repeat constructor; lia]). constructor.
Qed.
