(* C12/Proofs.v — lemmas about the classify model. *)
Require Import Base.Prelude Base.XVal C12.Model.

Section BinSearchProofs.
  Context {T : Type}.
  Variable d : T.
  Variables leb ltb : T -> T -> bool.
  Variable ok : T -> Prop.            (* the non-NaN values *)
  Hypothesis ltb_leb : forall a b, ok a -> ok b -> ltb a b = negb (leb b a).
  Hypothesis leb_total : forall a b, ok a -> ok b -> leb a b = true \/ leb b a = true.
  Hypothesis leb_trans : forall a b c, ok a -> ok b -> ok c ->
      leb a b = true -> leb b c = true -> leb a c = true.

  Notation get := (nthZ d).

  Definition sorted (bins : list T) : Prop :=
    forall i j, 0 <= i -> i <= j -> j < lenZ bins -> leb (get bins i) (get bins j) = true.
  Definition all_ok (bins : list T) : Prop :=
    forall i, 0 <= i < lenZ bins -> ok (get bins i).

  (* k is the FIRST index whose bin upper bound is >= v *)
  Definition first_ge (bins : list T) (v : T) (k : Z) : Prop :=
    0 <= k < lenZ bins /\ leb v (get bins k) = true /\
    forall i, 0 <= i < k -> ltb (get bins i) v = true.
  (* v lies above every bin *)
  Definition above_all (bins : list T) (v : T) : Prop :=
    forall i, 0 <= i < lenZ bins -> ltb (get bins i) v = true.

  Lemma lt_false_le a b : ok a -> ok b -> ltb a b = false -> leb b a = true.
  Proof. intros Ha Hb H; rewrite ltb_leb in H by assumption.
         destruct (leb b a); simpl in H; congruence. Qed.
  Lemma lt_true_nle a b : ok a -> ok b -> ltb a b = true -> leb b a = false.
  Proof. intros Ha Hb H; rewrite ltb_leb in H by assumption.
         destruct (leb b a); simpl in H; congruence. Qed.

  Lemma bs_loop_correct bins v k :
    sorted bins -> all_ok bins -> ok v -> first_ge bins v k -> 1 <= k ->
    forall fuel start end_ mid,
      0 <= start -> start <= k -> k <= end_ -> end_ < lenZ bins ->
      mid = (end_ + start) / 2 ->
      (Z.to_nat (end_ - start) < fuel)%nat ->
      bs_loop d ltb fuel bins v start end_ mid = Some k.
  Proof.
    intros Hs Hok Hv (Hk & Hle & Hlt) Hk1.
    induction fuel as [|f IH]; intros start end_ mid H0 H1 H2 H3 Hmid Hf; [lia|].
    cbn [bs_loop].
    destruct (start <=? end_) eqn:Ese; [|lia].
    assert (Hm : start <= mid <= end_) by lia.
    rewrite (nthWrap_nonneg d bins mid) by lia.
    destruct (ltb (get bins mid) v) eqn:E1.
    - (* bins[mid] < v : the first index is to the right *)
      assert (mid < k).
      { destruct (Z_lt_le_dec mid k) as [|Hge]; [assumption|exfalso].
        assert (leb v (get bins mid) = true).
        { apply leb_trans with (get bins k); auto; try (apply Hok; lia). apply Hs; lia. }
        apply lt_true_nle in E1; [congruence|apply Hok; lia|exact Hv]. }
      apply IH; try lia.
    - assert (Hle_m : leb v (get bins mid) = true)
        by (apply lt_false_le; auto; apply Hok; lia).
      assert (k <= mid).
      { destruct (Z_le_gt_dec k mid) as [|Hgt]; [assumption|exfalso].
        rewrite Hlt in E1 by lia. discriminate. }
      rewrite (nthWrap_nonneg d bins (mid - 1)) by lia.
      destruct (ltb (get bins (mid - 1)) v) eqn:E2.
      + (* break: mid is the first index *)
        f_equal. destruct (Z.eq_dec mid k) as [|Hne]; [assumption|exfalso].
        assert (leb v (get bins (mid - 1)) = true).
        { apply leb_trans with (get bins k); auto; try (apply Hok; lia). apply Hs; lia. }
        apply lt_true_nle in E2; [congruence|apply Hok; lia|exact Hv].
      + assert (leb v (get bins (mid - 1)) = true)
          by (apply lt_false_le; auto; apply Hok; lia).
        assert (k <= mid - 1).
        { destruct (Z_le_gt_dec k (mid - 1)) as [|Hgt]; [assumption|exfalso].
          rewrite Hlt in E2 by lia. discriminate. }
        apply IH; try lia.
  Qed.

  Lemma exists_first (P : Z -> bool) :
    forall (m : nat) j, 0 <= j < Z.of_nat m -> P j = true ->
      exists k, 0 <= k <= j /\ P k = true /\ forall i, 0 <= i < k -> P i = false.
  Proof.
    induction m as [|m IH]; intros j Hj Pj; [lia|].
    destruct (Z.eq_dec j 0) as [->|Hn].
    - exists 0; repeat split; auto; lia.
    - destruct (existsb P (ziota 0 (Z.to_nat j))) eqn:E.
      + apply existsb_exists in E as (x & Hin & Px). apply ziota_In in Hin.
        destruct (IH x) as (k & ? & ? & ?); [lia|assumption|].
        exists k; repeat split; auto; lia.
      + exists j; repeat split; auto; try lia. intros i Hi.
        destruct (P i) eqn:Pi; auto.
        assert (existsb P (ziota 0 (Z.to_nat j)) = true); [|congruence].
        apply existsb_exists; exists i; split; auto. apply ziota_In; lia.
  Qed.

  Theorem find_bin_first_ge bins v :
    0 < lenZ bins -> sorted bins -> all_ok bins -> ok v ->
    exists r, find_bin d leb ltb bins v = Some r /\
      ((r = -1 /\ above_all bins v) \/ first_ge bins v r).
  Proof.
    intros Hn Hs Hok Hv. unfold find_bin.
    rewrite !nthWrap_nonneg by lia.
    destruct (leb v (get bins 0)) eqn:E0.
    - exists 0; split; auto; right; repeat split; auto; lia.
    - destruct (leb v (get bins (lenZ bins - 1))) eqn:E1.
      + destruct (exists_first (fun i => leb v (get bins i)) (length bins) (lenZ bins - 1))
          as (k & Hk & Pk & Hlt); [unfold lenZ in *; lia|assumption|].
        assert (Hfg : first_ge bins v k).
        { repeat split; try lia; auto. intros i Hi.
          rewrite ltb_leb; [|apply Hok; lia|exact Hv]. rewrite Hlt; auto. }
        assert (1 <= k).
        { destruct (Z.eq_dec k 0) as [->|]; [congruence|lia]. }
        exists k; split; auto.
        apply bs_loop_correct; auto; try lia. unfold lenZ in *; lia.
      + exists (-1); split; auto; left; split; auto. intros i Hi.
        rewrite ltb_leb; [|apply Hok; lia|exact Hv].
        destruct (leb v (get bins i)) eqn:E; auto.
        assert (leb v (get bins (lenZ bins - 1)) = true); [|congruence].
        apply leb_trans with (get bins i); auto; try (apply Hok; lia). apply Hs; lia.
  Qed.

  Lemma first_ge_unique bins v k k' :
    all_ok bins -> ok v -> first_ge bins v k -> first_ge bins v k' -> k = k'.
  Proof.
    intros Hok Hv (Hk & Hle & Hlt) (Hk' & Hle' & Hlt').
    destruct (Z.lt_trichotomy k k') as [H|[H|H]]; auto; exfalso.
    - specialize (Hlt' k ltac:(lia)). apply lt_true_nle in Hlt'; [congruence|apply Hok; lia|exact Hv].
    - specialize (Hlt k' ltac:(lia)). apply lt_true_nle in Hlt; [congruence|apply Hok; lia|exact Hv].
  Qed.

  (* order preservation: a larger value never gets a smaller bin *)
  Lemma first_ge_monotone bins v w kv kw :
    all_ok bins -> ok v -> ok w -> leb v w = true ->
    first_ge bins v kv -> first_ge bins w kw -> kv <= kw.
  Proof.
    intros Hok Hv Hw Hvw (Hk & Hle & Hlt) (Hk' & Hle' & Hlt').
    destruct (Z_le_gt_dec kv kw) as [|Hgt]; auto; exfalso.
    specialize (Hlt kw ltac:(lia)).
    apply lt_true_nle in Hlt; [|apply Hok; lia|exact Hv].
    assert (leb v (get bins kw) = true); [|congruence].
    apply leb_trans with w; auto; apply Hok; lia.
  Qed.
End BinSearchProofs.

(* ------------------------------------------------------------------ *)
(* instance: xv with IEEE comparisons, ok = "not NaN"                  *)

Definition xok (a : xv) : Prop := a <> XNaN.
Definition xsorted := sorted XNaN xleb.
Definition xall_ok := all_ok XNaN xok.
Definition xfirst_ge := first_ge XNaN xleb xltb.
Definition xabove_all := above_all XNaN xltb.

Theorem xfind_bin_first_ge bins v :
  0 < lenZ bins -> xsorted bins -> xall_ok bins -> xok v ->
  exists r, xfind_bin bins v = Some r /\
    ((r = -1 /\ xabove_all bins v) \/ xfirst_ge bins v r).
Proof.
  intros. apply (find_bin_first_ge XNaN xleb xltb xok); auto.
  - intros; apply xltb_not_leb; auto.
  - intros; apply xleb_total; auto.
  - intros a b c _ _ _; apply xleb_trans.
Qed.

Lemma xfinite_ok v : xisfinite v = true -> xok v.
Proof. destruct v; simpl; unfold xok; congruence. Qed.

(* reclassify: a finite value gets the new value of the first bin >= it,
   NaN above the last bin; non-finite cells get NaN. *)
Theorem reclass_cell_spec bins nv v :
  0 < lenZ bins -> xsorted bins -> xall_ok bins -> lenZ nv = lenZ bins ->
  exists out, reclass_cell bins nv v = Some out /\
    ((xisfinite v = false /\ out = XNaN) \/
     (xisfinite v = true /\ xabove_all bins v /\ out = XNaN) \/
     (xisfinite v = true /\ exists k, xfirst_ge bins v k /\ out = nthZ XNaN nv k)).
Proof.
  intros Hn Hs Hok Hl. unfold reclass_cell.
  destruct (xisfinite v) eqn:Ef.
  - destruct (xfind_bin_first_ge bins v Hn Hs Hok (xfinite_ok _ Ef)) as (r & -> & [[-> Ha]|Hf]).
    + eexists; split; [reflexivity|]. right; left; auto.
    + eexists; split; [reflexivity|]. right; right; split; auto. exists r; split; auto.
      destruct Hf as (Hr & _). destruct (r >? -1) eqn:E; [|lia].
      apply nthWrap_nonneg; lia.
  - eexists; split; [reflexivity|]. left; auto.
Qed.

(* binary: 1 exactly on listed (non-NaN) values, 0 on other finite, NaN otherwise *)
Theorem binary_cell_spec values v :
  (binary_cell values v = XFin 1 <-> (In v values /\ v <> XNaN)) /\
  (binary_cell values v = XFin 0 <-> (xisfinite v = true /\ ~ In v values)) /\
  (binary_cell values v = XNaN <-> (xisfinite v = false /\ ~ (In v values /\ v <> XNaN))) /\
  (binary_cell values v = XFin 1 \/ binary_cell values v = XFin 0 \/ binary_cell values v = XNaN).
Proof.
  unfold binary_cell.
  destruct (existsb (fun e => xeqb e v) values) eqn:E.
  - apply existsb_exists in E as (e & Hin & He). apply xeqb_eq in He as (-> & Hn).
    repeat split; try congruence; try tauto; intros; try discriminate.
  - assert (Hnot : ~ (In v values /\ v <> XNaN)).
    { intros (Hin & Hn).
      assert (existsb (fun e => xeqb e v) values = true); [|congruence].
      apply existsb_exists; exists v; split; auto. apply xeqb_eq; auto. }
    destruct (xisfinite v) eqn:Ef.
    + assert (v <> XNaN) by (destruct v; simpl in Ef; congruence).
      split; [split; [discriminate|tauto]|].
      split; [split; [tauto|reflexivity]|].
      split; [split; [discriminate|intros [? _]; discriminate]|tauto].
    + split; [split; [discriminate|tauto]|].
      split; [split; [discriminate|intros [? _]; discriminate]|].
      split; [split; [tauto|reflexivity]|tauto].
Qed.

(* the data-driven classifiers: class index in [0, k-1], order preserving,
   every finite value <= last bin gets a class *)
Lemma nth_ziota_fin (n : nat) k :
  0 <= k < Z.of_nat n -> nthZ XNaN (map XFin (ziota 0 n)) k = XFin k.
Proof.
  intros Hk. rewrite nthZ_map with (da := 0) by (unfold lenZ; rewrite ziota_length; lia).
  f_equal. unfold nthZ. destruct (k <? 0) eqn:E; [lia|].
  assert (G : forall n s i, (i < n)%nat -> nth i (ziota s n) 0 = s + Z.of_nat i).
  { clear. induction n as [|n IH]; intros s i Hi; [lia|]. destruct i; simpl; [lia|].
    rewrite IH by lia. lia. }
  rewrite G by lia. lia.
Qed.

Theorem class_cell_spec bins v :
  0 < lenZ bins -> xsorted bins -> xall_ok bins -> xisfinite v = true ->
  xleb v (nthZ XNaN bins (lenZ bins - 1)) = true ->
  exists k, class_cell bins v = Some (XFin k) /\ xfirst_ge bins v k /\ 0 <= k <= lenZ bins - 1.
Proof.
  intros Hn Hs Hok Hf Hmax. unfold class_cell.
  destruct (reclass_cell_spec bins (map XFin (ziota 0 (length bins))) v Hn Hs Hok)
    as (out & Ho & [(E & _)|[(_ & Ha & _)|(_ & k & Hk & ->)]]).
  - rewrite lenZ_map. unfold lenZ. now rewrite ziota_length.
  - congruence.
  - exfalso. specialize (Ha (lenZ bins - 1) ltac:(lia)).
    rewrite xltb_not_leb in Ha.
    + rewrite Hmax in Ha; discriminate.
    + apply Hok; lia.
    + now apply xfinite_ok.
  - exists k. pose proof Hk as (Hr & Hrest). rewrite Ho. split; [|split; [exact Hk|lia]].
    f_equal. apply nth_ziota_fin. unfold lenZ in *; lia.
Qed.

Theorem class_cell_monotone bins v w kv kw :
  xall_ok bins -> xisfinite v = true -> xisfinite w = true -> xleb v w = true ->
  xfirst_ge bins v kv -> xfirst_ge bins w kw -> kv <= kw.
Proof.
  intros Hok Hv Hw Hvw H1 H2.
  refine (first_ge_monotone XNaN xleb xltb xok _ _ _ bins v w kv kw Hok _ _ Hvw H1 H2).
  - intros; apply xltb_not_leb; auto.
  - intros; apply xleb_total; auto.
  - intros a b c _ _ _; apply xleb_trans.
  - now apply xfinite_ok.
  - now apply xfinite_ok.
Qed.

(* decidable sortedness / NaN-freeness, to discharge hypotheses on concrete bins *)
Definition xsortedb (bins : list xv) : bool :=
  forallb (fun i => forallb (fun j => xleb (nthZ XNaN bins i) (nthZ XNaN bins j))
                            (ziota i (length bins - Z.to_nat i)))
          (ziota 0 (length bins)).
Definition xall_okb (bins : list xv) : bool := forallb (fun b => negb (xisnan b)) bins.

Lemma xsortedb_sound bins : xsortedb bins = true -> xsorted bins.
Proof.
  unfold xsortedb, xsorted, sorted; intros H i j Hi Hij Hj.
  rewrite forallb_forall in H. specialize (H i).
  rewrite forallb_forall in H. apply H; apply ziota_In; unfold lenZ in *; lia.
Qed.
Lemma xall_okb_sound bins : xall_okb bins = true -> xall_ok bins.
Proof.
  unfold xall_okb, xall_ok, all_ok, xok; intros H i Hi.
  rewrite forallb_forall in H. specialize (H _ (nthZ_in XNaN bins i Hi)).
  destruct (nthZ XNaN bins i); simpl in H; congruence.
Qed.

Theorem xfirst_ge_unique bins v k k' :
  xall_ok bins -> xok v -> xfirst_ge bins v k -> xfirst_ge bins v k' -> k = k'.
Proof.
  intros Hok Hv H1 H2.
  refine (first_ge_unique XNaN xleb xltb xok _ _ _ bins v k k' Hok Hv H1 H2).
  - intros; apply xltb_not_leb; auto.
  - intros; apply xleb_total; auto.
  - intros a b c _ _ _; apply xleb_trans.
Qed.

(* ---- equal_interval: class i  <=>  v in the i-th of k equal-width intervals ---- *)
Lemma nth_ziota (n : nat) s i : (i < n)%nat -> nth i (ziota s n) 0 = s + Z.of_nat i.
Proof.
  revert s i. induction n as [|n IH]; intros s i Hi; [lia|]. destruct i; simpl; [lia|].
  rewrite IH by lia. lia.
Qed.

Lemma ei_cuts_nth lo hi (k : nat) i :
  0 <= i < Z.of_nat k ->
  nthZ XNaN (ei_cuts lo hi k) i = XFin (Z.of_nat k * lo + (i + 1) * (hi - lo)).
Proof.
  intros Hi. unfold ei_cuts.
  rewrite nthZ_map with (da := 0) by (unfold lenZ; rewrite ziota_length; lia).
  assert (Hn : nthZ 0 (ziota 0 k) i = i).
  { unfold nthZ. destruct (i <? 0) eqn:E; [lia|]. rewrite nth_ziota by lia. lia. }
  rewrite Hn. reflexivity.
Qed.

Lemma ei_cuts_len lo hi k : lenZ (ei_cuts lo hi k) = Z.of_nat k.
Proof. unfold ei_cuts. rewrite lenZ_map. unfold lenZ. now rewrite ziota_length. Qed.

Lemma ei_cuts_sorted lo hi k : lo <= hi -> xsorted (ei_cuts lo hi k).
Proof.
  intros Hl i j Hi Hij Hj. rewrite ei_cuts_len in Hj.
  rewrite !ei_cuts_nth by lia. cbn [xleb]. apply Z.leb_le.
  apply Z.add_le_mono_l. apply Z.mul_le_mono_nonneg_r; lia.
Qed.

Lemma ei_cuts_ok lo hi k : xall_ok (ei_cuts lo hi k).
Proof.
  intros i Hi. rewrite ei_cuts_len in Hi. rewrite ei_cuts_nth by lia. unfold xok; congruence.
Qed.

Theorem equal_interval_bands lo hi (k : nat) v :
  lo < hi -> (0 < k)%nat -> lo <= v <= hi ->
  exists i, class_cell (ei_cuts lo hi k) (XFin (Z.of_nat k * v)) = Some (XFin i) /\
    0 <= i <= Z.of_nat k - 1 /\
    Z.of_nat k * v <= Z.of_nat k * lo + (i + 1) * (hi - lo) /\
    (0 < i -> Z.of_nat k * lo + i * (hi - lo) < Z.of_nat k * v).
Proof.
  intros Hlh Hk Hv.
  destruct (class_cell_spec (ei_cuts lo hi k) (XFin (Z.of_nat k * v))) as (i & Hc & Hfg & Hr).
  - rewrite ei_cuts_len; lia.
  - apply ei_cuts_sorted; lia.
  - apply ei_cuts_ok.
  - reflexivity.
  - rewrite ei_cuts_len, ei_cuts_nth by lia. cbn [xleb]. apply Z.leb_le.
    replace (Z.of_nat k - 1 + 1) with (Z.of_nat k) by lia. nia.
  - rewrite ei_cuts_len in Hr. exists i. split; [exact Hc|]. split; [lia|].
    destruct Hfg as (_ & Hle & Hlt). rewrite ei_cuts_nth in Hle by lia. cbn [xleb] in Hle. apply Z.leb_le in Hle.
    split; [lia|]. intros Hi.
    specialize (Hlt (i - 1) ltac:(lia)). rewrite ei_cuts_nth in Hlt by lia. cbn [xltb] in Hlt. apply Z.ltb_lt in Hlt.
    replace (i - 1 + 1) with i in Hlt by lia. lia.
Qed.
